#!/bin/bash
# thorough_all.sh [props...] — run the thorough tier of every check (or the named ones) from the directory this script lives in
# (a `vp run` snapshot or /verif itself) against /repo's current tree; prints the verdict lines.  Not a registered check.
cd "$(dirname "$0")/.."
export VERIF_ROOT=$PWD
[ -x .build/translator ] || ./setup.sh > setup.log 2>&1 || { echo "setup failed"; tail -20 setup.log; exit 2; }
PS=${@:-C01 C02 C03 C04 C05 C06 C07 C08 C09 C10 C11 C12 C13 C14 C15 C16 C17}
for p in $PS; do
  S=$(date +%s)
  ./check $p --tier thorough > out_${p}_thorough.log 2>&1
  echo "$(grep -E '^(OK|VIOLATION)' out_${p}_thorough.log | tail -1 | cut -c1-220) [$(( $(date +%s) - S )) s]"
  grep -E '^(monitor|unproved)' out_${p}_thorough.log | head -3
done

#!/bin/bash
# Build coq (incremental), extract, compile the OCaml driver. Prints the driver path.
set -e
V=${VERIF_ROOT:-/verif}
cd $V/coq
[ -f Makefile ] || coq_makefile -f _CoqProject -o Makefile >/dev/null
timeout 3000 make -j16 Extract/Extract.vo 1>&2   # only what the extraction depends on: a broken lemma elsewhere is judged per property
mkdir -p Extract/build
if [ ! -x Extract/build/driver ] || [ model.ml -nt Extract/build/driver ] || [ Extract/driver.ml -nt Extract/build/driver ]; then
  cp model.ml model.mli Extract/driver.ml Extract/build/
  (cd Extract/build && ocamlfind ocamlopt -O3 -package zarith -linkpkg -w -a model.mli model.ml driver.ml -o driver) 1>&2
fi
echo $V/coq/Extract/build/driver

#!/bin/bash
# seed_eval.sh <PROP> <worktree> <name> <test-pkg-dir-relative> : harvest a seeded change from an agent's worktree,
# confirm (build, demo fails with / passes without), store under /verif/seeded/<name>/.
set -e
export GOFLAGS=-mod=mod GOPROXY=off GOSUMDB=off GOTOOLCHAIN=local
P=$1; W=$2; N=$3
D=/verif/seeded/$N
mkdir -p $D
cd $W
DEMO=$(git status --porcelain | grep seed_demo_test.go | awk '{print $2}')
git diff -- . ':(exclude)*seed_demo_test.go' > $D/patch.diff
cp $DEMO $D/seed_demo_test.go
cp SEED_NOTES.md $D/SEED_NOTES.md 2>/dev/null || true
PKG=./$(dirname $DEMO)/
echo "demo package: $PKG"
go build ./... && echo BUILD_OK
set +e
go test -count=1 -run 'TestSeedDemo' $PKG > $D/demo_with.log 2>&1; RC1=$?
git apply -R $D/patch.diff
go test -count=1 -run 'TestSeedDemo' $PKG > $D/demo_without.log 2>&1; RC2=$?
go test -count=1 $PKG > $D/pkg_without.log 2>&1
git apply $D/patch.diff
go test -count=1 -skip 'TestSeedDemo' $PKG > $D/pkg_with.log 2>&1; RC3=$?
echo "demo with change rc=$RC1 (expect !=0); without rc=$RC2 (expect 0); package tests with change (demo skipped) rc=$RC3 (expect 0)"
echo "{\"property\": \"$P\", \"demo_pkg\": \"$PKG\", \"demo_with_change_rc\": $RC1, \"demo_without_change_rc\": $RC2, \"pkg_tests_with_change_rc\": $RC3}" > $D/confirm.json

#!/usr/bin/env python3
"""Delta-debug a history file: drop transactions / empty blocks while a predicate still holds.
usage: shrink.py <hist> <out> model-panic | impl-mon:<regex> | impl-panic
model-panic : the extracted model ends in Panic (fast; valid when model = implementation)
impl-*      : re-executed on the real application through `sgeh replay`."""
import sys, subprocess, re, os, tempfile
src, out, pred = sys.argv[1], sys.argv[2], sys.argv[3]
DRIVER = '/verif/coq/Extract/build/driver'
lines = [l.rstrip('\n') for l in open(src)]
gen = [l for l in lines if l.startswith('GEN ')][0]
ops = [l for l in lines if l.startswith('OP ')]
# blocks
blocks = []
for o in ops:
    if o.startswith('OP BEGIN'):
        blocks.append([o])
    else:
        blocks[-1].append(o)
def flat(bl):
    return [gen] + [o for b in bl for o in b]
os.makedirs('/root/scratch', exist_ok=True)
tmpd = tempfile.mkdtemp(prefix='shrink', dir='/root/scratch')
def holds(bl):
    f = os.path.join(tmpd, 'c.txt')
    open(f, 'w').write('\n'.join(flat(bl)) + '\n')
    if pred == 'model-panic':
        r = subprocess.run([DRIVER, 'model', f], capture_output=True, text=True).stdout
        return 'RES panic' in r
    harness = subprocess.run(['/verif/tools/build_harness.sh'], capture_output=True, text=True).stdout.strip()
    g = os.path.join(tmpd, 'r.txt')
    subprocess.run([harness, 'replay', f, g], capture_output=True, text=True)
    txt = open(g).read()
    if pred == 'impl-panic':
        return 'RES panic' in txt
    rx = re.compile(pred.split(':', 1)[1])
    return any(rx.search(l) for l in txt.split('\n') if l.startswith('MON '))
assert holds(blocks), 'predicate does not hold on the input'
# cut everything after the first block in which the model panics (cheap prefix search)
lo = len(blocks)
for k in range(1, len(blocks) + 1):
    if holds(blocks[:k]):
        lo = k; break
blocks = blocks[:lo]
changed = True
while changed:
    changed = False
    # drop whole blocks
    i = 0
    while i < len(blocks):
        cand = blocks[:i] + blocks[i+1:]
        if cand and holds(cand):
            blocks = cand; changed = True
        else:
            i += 1
    # drop single txs
    for bi in range(len(blocks)):
        j = 1
        while j < len(blocks[bi]):
            if blocks[bi][j].startswith('OP END'):
                j += 1; continue
            cand = [list(b) for b in blocks]
            del cand[bi][j]
            if holds(cand):
                blocks = cand; changed = True
            else:
                j += 1
open(out, 'w').write('\n'.join(flat(blocks)) + '\n')
print('shrunk to', sum(len(b) for b in blocks), 'ops ->', out)

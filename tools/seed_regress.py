#!/usr/bin/env python3
"""seed_regress.py — re-run every seeded change under /verif/seeded against the current machinery, in scratch copies of /repo and /verif
(VERIF_REPO / VERIF_ROOT), several lanes in parallel; /repo itself is never touched.  For each seed: apply patch.diff to the lane's copy,
run the check of the seed's property (quick tier), record VIOLATION with a failing input / without / not reported.  Not a registered check.

usage: seed_regress.py --scratch /tmp/sreg --lanes 5 --out /verif/seeded/REGRESSION.json [name-prefix ...]
"""
import argparse, json, os, shutil, subprocess, sys, time
from multiprocessing import Process

ENV = dict(os.environ, GOFLAGS='-mod=mod', GOPROXY='off', GOSUMDB='off', GOTOOLCHAIN='local')


def sh(cmd, cwd, timeout, env=None):
    try:
        r = subprocess.run(cmd, shell=True, cwd=cwd, env=env or ENV, stdout=subprocess.PIPE, stderr=subprocess.STDOUT, timeout=timeout)
        return r.returncode, r.stdout.decode(errors='replace')
    except subprocess.TimeoutExpired:
        return 124, 'timeout'


def lane(k, names, a):
    base = os.path.join(a.scratch, 'lane%d' % k)
    repo, verif = base + '/repo', base + '/verif'
    shutil.rmtree(base, ignore_errors=True)
    os.makedirs(base)
    sh('cp -r /repo %s && rm -rf %s/.git' % (repo, repo), '/', 600)
    sh("rsync -a --exclude .git --exclude work --exclude replays --exclude mutation --exclude seeded /verif/ %s/" % verif, '/', 1200)
    env = dict(ENV, VERIF_ROOT=verif, VERIF_REPO=repo)
    res = open('%s.lane%d' % (a.out, k), 'w')
    for n in names:
        d = '/verif/seeded/' + n
        meta = json.load(open(d + '/meta.json'))
        prop = meta['property']
        rec = dict(seed=n, property=prop)
        t0 = time.time()
        rc, out = sh('patch -p1 -s < %s/patch.diff' % d, repo, 60)
        if rc != 0:
            rec['status'] = 'patch does not apply'
        else:
            rc, out = sh('./check %s --tier quick --seed %d' % (prop, a.seed), verif, 3000, env)
            v = [l for l in out.split('\n') if l.startswith('VIOLATION')]
            mon = [l for l in out.split('\n') if l.startswith('monitor:') or l.startswith('unproved:')]
            if not v:
                rec['status'] = 'NOT REPORTED'
            elif 'no-failing-input-found' in v[0]:
                rec['status'] = 'reported without failing input'
            else:
                rec['status'] = 'reported with replay'
            rec['how'] = (mon[0][:160] if mon else '')
            sh('patch -p1 -R -s < %s/patch.diff' % d, repo, 60)
        rec['secs'] = round(time.time() - t0)
        res.write(json.dumps(rec) + '\n')
        res.flush()
    shutil.rmtree(base, ignore_errors=True)


def main():
    ap = argparse.ArgumentParser()
    ap.add_argument('--scratch', default='/tmp/sreg')
    ap.add_argument('--lanes', type=int, default=5)
    ap.add_argument('--seed', type=int, default=1)
    ap.add_argument('--out', required=True)
    ap.add_argument('prefix', nargs='*')
    a = ap.parse_args()
    names = sorted(n for n in os.listdir('/verif/seeded') if os.path.exists('/verif/seeded/%s/patch.diff' % n) and os.path.exists('/verif/seeded/%s/meta.json' % n))
    if a.prefix:
        names = [n for n in names if any(n.startswith(p) for p in a.prefix)]
    print('%d seeds' % len(names))
    ps = [Process(target=lane, args=(k, names[k::a.lanes], a)) for k in range(a.lanes)]
    for p in ps:
        p.start()
    for p in ps:
        p.join()
    recs = []
    for k in range(a.lanes):
        fn = '%s.lane%d' % (a.out, k)
        if os.path.exists(fn):
            recs += [json.loads(l) for l in open(fn)]
            os.remove(fn)
    if a.prefix and os.path.exists(a.out):   # a partial re-run replaces the entries of the seeds it ran
        redone = set(r['seed'] for r in recs)
        recs += [r for r in json.load(open(a.out))['results'] if r['seed'] not in redone]
    recs.sort(key=lambda r: r['seed'])
    st = {}
    for r in recs:
        st[r['status']] = st.get(r['status'], 0) + 1
    json.dump(dict(summary=st, results=recs), open(a.out, 'w'), indent=1)
    print(st)
    for r in recs:
        if r['status'] != 'reported with replay':
            print(r['seed'], '|', r['status'], '|', r.get('how', '')[:120])


if __name__ == '__main__':
    main()

#!/bin/bash
# run_all.sh [tier] — run every registered check on /repo's current tree (must be clean for committed evidence) and print one line each
cd /verif
if [ -n "$(git -C /repo status --porcelain)" ]; then echo "WARNING: /repo working tree is not clean"; fi
T=${1:-quick}
for p in C01 C02 C03 C04 C05 C06 C07 C08 C09 C10 C11 C12 C13 C14 C15 C16 C17; do
  ./check $p --tier $T 2>&1 | grep -v "^KNOWN-FINDING" | tail -1 | cut -c1-220
done

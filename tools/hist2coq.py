#!/usr/bin/env python3
"""Convert a history file (GEN/OP lines) into Coq terms: `Definition <name>_init : chain` and
`Definition <name>_ops : list op` (for vm_compute witnesses and the in-Coq cross-check of extraction)."""
import sys
def Z(x): 
    x=int(x); return '(%d)'%x if x<0 else str(x)
def B(x): return 'true' if x=='1' else 'false'
def L(xs): return '['+'; '.join(xs)+']'
class T:
    def __init__(s,t): s.t=t; s.i=0
    def n(s): x=s.t[s.i]; s.i+=1; return x
    def z(s): return Z(s.n())
    def lst(s,f):
        k=int(s.n()); return [f() for _ in range(k)]
def tk(t): return '{| tk_signer := %s; tk_exp := %s |}'%(t.z(),t.z())
def ky(t): return '{| ky_ignore := %s; ky_approved := %s; ky_id := %s |}'%(B(t.n()),B(t.n()),t.z())
def op(line):
    t=T(line.split()); k=t.n()
    if k=='BEGIN': return 'OBegin %s'%t.z()
    if k=='END': return 'OEnd'
    if k=='MADD':
        sg=t.z(); tt=tk(t); uid=t.z(); st=t.z(); en=t.z(); status=t.z(); odds=t.lst(t.z)
        return 'OMarketAdd %s %s %s %s %s %s %s'%(sg,tt,uid,st,en,L(odds),status)
    if k=='MUPD':
        sg=t.z(); tt=tk(t); return 'OMarketUpdate %s %s %s %s %s %s'%(sg,tt,t.z(),t.z(),t.z(),t.z())
    if k=='MRES':
        sg=t.z(); tt=tk(t); uid=t.z(); rts=t.z(); status=t.z(); ws=t.lst(t.z)
        return 'OMarketResolve %s %s %s %s %s %s'%(sg,tt,uid,rts,L(ws),status)
    if k in('DEP','SDEP'):
        sg=t.z(); tt=tk(t); m=t.z(); a=t.z(); kk=ky(t); d=t.z()
        return '%s %s %s %s %s %s %s'%('ODeposit' if k=='DEP' else 'OSubHouseDeposit',sg,tt,m,a,kk,d)
    if k in('WDR','SWDR'):
        sg=t.z(); tt=tk(t); m=t.z(); p=t.z(); mo=t.z(); a=t.z(); kk=ky(t); d=t.z()
        return '%s %s %s %s %s %s %s %s %s'%('OWithdraw' if k=='WDR' else 'OSubHouseWithdraw',sg,tt,m,p,mo,a,kk,d)
    if k=='WAG':
        sg=t.z(); tt=tk(t); uid=t.z(); a=t.z(); sm=t.z(); so=t.z(); ov=t.z(); mu=t.z(); kk=ky(t); ot=t.z()
        al=t.lst(lambda:'(%s, %s)'%(t.z(),t.z()))
        return 'OWager %s %s %s %s %s %s %s %s %s %s %s'%(sg,tt,uid,a,sm,so,ov,mu,L(al),kk,ot)
    if k=='SWAG':
        sg=t.z(); tt=tk(t); ic=t.z(); t2=tk(t); uid=t.z(); a=t.z(); sm=t.z(); so=t.z(); ov=t.z(); mu=t.z(); kk=ky(t); ot=t.z(); md=t.z(); sd=t.z()
        al=t.lst(lambda:'(%s, %s)'%(t.z(),t.z()))
        return 'OSubWager %s %s %s %s %s %s %s %s %s %s %s %s %s %s %s'%(sg,tt,ic,t2,uid,a,sm,so,ov,mu,L(al),kk,ot,md,sd)
    if k=='GRANT': return 'OGrant %s %s %s %s %s'%(t.z(),t.z(),t.z(),t.z(),t.z())
    if k=='REVOKE': return 'ORevoke %s %s %s'%(t.z(),t.z(),t.z())
    if k=='SEND': return 'OSend %s %s %s'%(t.z(),t.z(),t.z())
    if k=='PROP':
        sg=t.z(); tt=tk(t); li=t.z()
        ks=t.lst(lambda: (lambda v: Z(v%100 if v>=100 else v))(int(t.n())))   # 100+i / 200+i: key i spelled with extra white space
        return 'OPropose %s %s %s %s'%(sg,tt,L(ks),li)
    if k=='VOTE':
        sg=t.z(); tt=tk(t); return 'OVote %s %s %s %s %s'%(sg,tt,t.z(),t.z(),t.z())
    if k in('SCRE','STOP'):
        c=t.z(); o=t.z(); ls=t.lst(lambda:'(%s, %s)'%(t.z(),t.z()))
        return '%s %s %s %s'%('OSubCreate' if k=='SCRE' else 'OSubTopUp',c,o,L(ls))
    if k=='SWDU': return 'OSubWithdraw %s'%t.z()
    raise Exception('op '+k)
def gen(line):
    t=T(line.split()[1:])
    nacc=int(t.n()); bal=t.z(); supply=t.z(); t0=t.z(); assert t.n()=='P'
    p=[t.z() for _ in range(9)]
    assert t.n()=='V'; vault=t.lst(t.z); assert t.n()=='M'
    bpy=t.z(); excl=t.z(); phs=t.lst(lambda:'{| ph_infl := %s; ph_coef := %s |}'%(t.z(),t.z()))
    sw=sd='true'
    if t.i<len(t.t) and t.t[t.i]=='S':
        t.n(); sw=B(t.n()); sd=B(t.n())
    bank=L(['(%d, %s)'%(i,bal) for i in range(nacc)])
    prm='{| pr_bet_batch := %s; pr_bet_min := %s; pr_bet_fee := %s; pr_ob_maxpart := %s; pr_ob_batch := %s; pr_ob_thr := %s; pr_h_mindep := %s; pr_h_fee := %s; pr_h_maxw := %s |}'%tuple(p)
    return 'init %s %s %s %s {| bpy := %s; excl := %s; phases := %s |} %s %s %s'%(bank,supply,prm,L(vault),bpy,excl,L(phs),t0,sw,sd)
if __name__=='__main__':
    f,name=sys.argv[1],sys.argv[2]
    g=None; ops=[]
    for l in open(f):
        if l.startswith('GEN '): g=gen(l)
        elif l.startswith('OP '): ops.append(op(l[3:].split('#')[0]))
    print('Definition %s_init : chain := %s.'%(name,g))
    print('Definition %s_ops : list op := ['%name)
    print(';\n'.join('  '+o for o in ops))
    print('].')

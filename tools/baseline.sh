#!/bin/bash
# Run the repository's pinned test suite (guard off — there are no hooks) and compare with BASELINE.json.
export GOFLAGS=-mod=mod GOPROXY=off GOSUMDB=off GOTOOLCHAIN=local
OUT=${1:-/root/scratch/baseline.json}
mkdir -p $(dirname $OUT)
( cd /repo && go test -mod=mod -json -vet=off -count=1 -timeout 25m ./... ) > $OUT 2>/dev/null
python3 - "$OUT" <<'PY'
import json,sys
base=json.load(open('/root/.vp/BASELINE.json'))
want=set(base['stable_pass']) if isinstance(base['stable_pass'],list) else None
got=set()
for l in open(sys.argv[1]):
    try: e=json.loads(l)
    except Exception: continue
    if e.get('Test') and e.get('Action')=='pass': got.add(e['Package']+'::'+e['Test'])
if want is None:
    print('baseline pass count', len(got)); sys.exit(0)
missing=sorted(want-got)
print('baseline: %d/%d stable tests pass'%(len(want)-len(missing),len(want)))
for m in missing[:20]: print('MISSING',m)
sys.exit(1 if missing else 0)
PY

#!/usr/bin/env python3
"""mutsweep.py — measure which small syntactic mutations of the Go source the checks notice.  NOT a registered check, NOT a proof:
a measurement of the detection power of the machinery (DESIGN 0.6b).

For each mutant (one operator applied at one place of one source file):
  1. the mutated tree must compile and the existing unit tests (all packages except client/cli, simulation, testutil) must still pass,
     otherwise the mutant is discarded ("stillborn" / "killed_by_tests": the suite already notices it);
  2. the checks of the properties anchored in the mutated module run (quick tier) against the mutated tree; the first VIOLATION ends it
     ("caught"); if none fires, every other check runs too; a mutant no check notices is a "survivor" to be looked at by hand
     (equivalent mutant, behaviour outside every property, or a gap).
Each lane works in its own scratch copy of /repo and of /verif under --scratch (VERIF_REPO / VERIF_ROOT), so /repo is never touched.

usage: mutsweep.py --scratch /tmp/mut --lanes 4 --per-file 12 --seed 1 --out /verif/mutation/sweep1.jsonl FILE...
"""
import argparse, json, os, random, re, shutil, subprocess, sys, time
from multiprocessing import Process

ENV = dict(os.environ, GOFLAGS='-mod=mod', GOPROXY='off', GOSUMDB='off', GOTOOLCHAIN='local')

OPS = [
    ('cmp-int', r'\.GT\(', '.GTE('), ('cmp-int', r'\.GTE\(', '.GT('), ('cmp-int', r'\.LT\(', '.LTE('), ('cmp-int', r'\.LTE\(', '.LT('),
    ('cmp', r' < ', ' <= '), ('cmp', r' <= ', ' < '), ('cmp', r' > ', ' >= '), ('cmp', r' >= ', ' > '),
    ('eq', r' == (?!nil)', ' != '), ('eq', r' != (?!nil)', ' == '),
    ('arith', r'\.Add\(', '.Sub('), ('arith', r'\.Sub\(', '.Add('),
    ('arith', r' \+ 1\b', ' + 2'), ('arith', r' - 1\b', ' - 0'),
    ('logic', r' && ', ' || '), ('logic', r' \|\| ', ' && '),
    ('neg', r'\bif !(\w)', r'if \1'),
    ('drop-store', r'^(\s*)(k\.(?:Set|Remove|Delete)\w+\(.*\))\s*$', r'\1_ = 0 // \2'),
    ('drop-assign', r'^(\s*)(\w+\.\w+ = .+)$', r'\1_ = 0 // \2'),
    ('minmax', r'sdkmath\.MinInt\(', 'sdkmath.MaxInt('), ('minmax', r'sdkmath\.MaxInt\(', 'sdkmath.MinInt('),
    ('break', r'^(\s*)break\s*$', r'\1continue'),
]

PROPS_OF = {
    'x/orderbook': ['C02', 'C01', 'C03', 'C04', 'C10', 'C05'], 'x/bet': ['C03', 'C08', 'C05', 'C01', 'C07'],
    'x/house': ['C04', 'C09', 'C01', 'C02'], 'x/subaccount': ['C11', 'C09', 'C01'], 'x/market': ['C07', 'C08', 'C05'],
    'x/ovm': ['C14', 'C06'], 'x/mint': ['C13', 'C17'], 'x/reward': ['C12'], 'utils': ['C14', 'C15', 'C09'],
}
ALL = ['C%02d' % i for i in range(1, 18)]


def mutants_of(repo, rel):
    out = []
    lines = open(os.path.join(repo, rel)).read().split('\n')
    in_block = False
    for i, ln in enumerate(lines):
        s = ln.strip()
        if in_block:
            if '*/' in s:
                in_block = False
            continue
        if s.startswith('/*'):
            in_block = '*/' not in s
            continue
        if s.startswith('//') or s.startswith('import') or 'Errorf' in s or 'Wrapf' in s or 'panic(' in s or s.startswith('func '):
            continue
        code = ln.split('//')[0]
        for kind, pat, repl in OPS:
            for m in re.finditer(pat, code):
                new = code[:m.start()] + m.expand(repl) + code[m.end():] + ln[len(code):]
                if new != ln:
                    out.append(dict(file=rel, line=i + 1, kind=kind, old=ln.strip(), new=new.strip(), _new=new))
    return out


def sh(cmd, cwd, timeout, env=None):
    try:
        r = subprocess.run(cmd, shell=True, cwd=cwd, env=env or ENV, stdout=subprocess.PIPE, stderr=subprocess.STDOUT, timeout=timeout)
        return r.returncode, r.stdout.decode(errors='replace')
    except subprocess.TimeoutExpired:
        return 124, 'timeout'


def lane(k, items, a):
    base = os.path.join(a.scratch, 'lane%d' % k)
    repo, verif = base + '/repo', base + '/verif'
    shutil.rmtree(base, ignore_errors=True)
    os.makedirs(base)
    sh('cp -r /repo %s && rm -rf %s/.git' % (repo, repo), '/', 600)
    sh("rsync -a --exclude .git --exclude work --exclude replays --exclude mutation --exclude seeded /verif/ %s/" % verif, '/', 1200)
    env = dict(ENV, VERIF_ROOT=verif, VERIF_REPO=repo)
    pk = subprocess.run("go list ./x/... ./app/... ./utils/... | grep -v 'client/cli\\|simulation\\|testutil'", shell=True, cwd=repo, env=ENV,
                        stdout=subprocess.PIPE).stdout.decode().split()
    res = open('%s.lane%d' % (a.out, k), 'a')
    for it in items:
        path = os.path.join(repo, it['file'])
        orig = open(path).read()
        lines = orig.split('\n')
        lines[it['line'] - 1] = it['_new']
        open(path, 'w').write('\n'.join(lines))
        rec = {x: it[x] for x in ('file', 'line', 'kind', 'old', 'new')}
        t0 = time.time()
        try:
            rc, out = sh('go build ./x/... ./app/... ./utils/...', repo, 900)
            if rc != 0:
                rec['status'] = 'stillborn'
                continue
            rc, out = sh('go test -count=1 ' + ' '.join(pk), repo, 1500)
            if rc != 0:
                rec['status'] = 'killed_by_tests'
                rec['by'] = re.findall(r'^(?:--- FAIL: (\S+)|FAIL\s+(\S+))', out, flags=re.M)[:3]
                continue
            mod = '/'.join(it['file'].split('/')[:2]) if it['file'].startswith('x/') else it['file'].split('/')[0]
            first = PROPS_OF.get(mod, [])
            order = first + [p for p in ALL if p not in first]
            rec['status'] = 'survived'
            rec['ran'] = []
            for p in order:
                if p not in first and not a.full:
                    break
                rc, out = sh('./check %s --tier quick --seed %d' % (p, a.seed), verif, 2400, env)
                rec['ran'].append(p)
                v = [l for l in out.split('\n') if l.startswith('VIOLATION')]
                if v:
                    rec['status'] = 'caught'
                    rec['by'] = p
                    mon = [l for l in out.split('\n') if l.startswith('monitor:') or l.startswith('unproved:')]
                    rec['how'] = (mon[0][:200] if mon else v[0][:200])
                    rec['no_failing_input'] = 'no-failing-input-found' in v[0]
                    break
        finally:
            open(path, 'w').write(orig)
            rec['secs'] = round(time.time() - t0)
            res.write(json.dumps(rec) + '\n')
            res.flush()
    shutil.rmtree(base, ignore_errors=True)


def main():
    ap = argparse.ArgumentParser()
    ap.add_argument('--scratch', default='/tmp/mut')
    ap.add_argument('--lanes', type=int, default=4)
    ap.add_argument('--per-file', type=int, default=12)
    ap.add_argument('--seed', type=int, default=1)
    ap.add_argument('--out', required=True)
    ap.add_argument('--full', action='store_true', help='run every check on a mutant the module checks miss')
    ap.add_argument('files', nargs='+')
    a = ap.parse_args()
    rnd = random.Random(a.seed)
    items = []
    for f in a.files:
        ms = mutants_of('/repo', f)
        rnd.shuffle(ms)
        items += ms[:a.per_file]
    rnd.shuffle(items)
    print('%d mutants' % len(items))
    os.makedirs(os.path.dirname(a.out), exist_ok=True)
    ps = [Process(target=lane, args=(k, items[k::a.lanes], a)) for k in range(a.lanes)]
    for p in ps:
        p.start()
    for p in ps:
        p.join()
    with open(a.out, 'w') as o:
        for k in range(a.lanes):
            fn = '%s.lane%d' % (a.out, k)
            if os.path.exists(fn):
                o.write(open(fn).read())
                os.remove(fn)
    st = {}
    for l in open(a.out):
        r = json.loads(l)
        st[r['status']] = st.get(r['status'], 0) + 1
    print(st)


if __name__ == '__main__':
    main()

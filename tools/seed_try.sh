#!/bin/bash
# seed_try.sh <PROP> <seed-name> [tier] : apply a seeded change to /repo, run the property's check, undo the change.
P=$1; N=$2; T=${3:-quick}
cd /verif
if [ -n "$(git -C /repo status --porcelain)" ]; then echo "/repo not clean"; exit 2; fi
git -C /repo apply /verif/seeded/$N/patch.diff || exit 2
./check $P --tier $T > /tmp/seed_try_$N.log 2>&1; RC=$?
git -C /repo checkout -- .
/verif/tools/gen_tables.sh >/dev/null 2>&1   # coq/Gen back to the unchanged tree's tables
echo "seed $N: check $P rc=$RC"; grep -E "^(monitor|VIOLATION|OK|KNOWN)" /tmp/seed_try_$N.log | head -6

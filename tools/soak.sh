#!/bin/bash
# soak.sh <seeds...> — run every check on /repo's current tree under several seeds (quick tier), from the directory this script
# lives in (a `vp run` snapshot or /verif itself); prints every line that is not a plain OK.  Not a registered check.
cd "$(dirname "$0")/.."
export VERIF_ROOT=$PWD
[ -x .build/translator ] || ./setup.sh > setup.log 2>&1 || { echo "setup failed"; tail -20 setup.log; exit 2; }
for s in "$@"; do
  for p in C01 C02 C03 C04 C05 C06 C07 C08 C09 C10 C11 C12 C13 C14 C15 C16 C17; do
    ./check $p --tier quick --seed $s > out_${p}_$s.log 2>&1
    echo "seed=$s $(grep -E '^(OK|VIOLATION)' out_${p}_$s.log | tail -1 | cut -c1-200)"
    grep -E '^(monitor|unproved)' out_${p}_$s.log | head -3
  done
done

#!/bin/bash
# Build the harness inside /repo's module through an overlay; cache by content hash of the tree.
set -e
export GOFLAGS=-mod=mod GOPROXY=off GOSUMDB=off GOTOOLCHAIN=local CGO_ENABLED=1
V=${VERIF_ROOT:-/verif}
R=${VERIF_REPO:-/repo}   # the tree under test: /repo for every registered check; a scratch copy only for tools/mutsweep.py
OUT=$V/.build
mkdir -p $OUT
H=$( (cd $R && find . -name '*.go' ! -name '*_test.go' -not -path './zz_verif_harness/*' -print0 | sort -z | xargs -0 sha256sum; sha256sum go.mod go.sum) ; (cd $V/harness && sha256sum *.go) )
HASH=$(echo "$H" | sha256sum | cut -c1-16)
BIN=$OUT/sgeh-$HASH
if [ ! -x "$BIN" ]; then
  rm -f $OUT/sgeh-*
  OV=$OUT/overlay.json
  VERIF_ROOT=$V VERIF_REPO=$R python3 - "$OV" <<'PY'
import json,sys,glob,os
rep={}
import os as _o
V=_o.environ.get('VERIF_ROOT','/verif')
for f in glob.glob(V+'/harness/*.go'):
    rep[_o.environ.get('VERIF_REPO','/repo')+'/zz_verif_harness/'+os.path.basename(f)]=f
json.dump({"Replace":rep},open(sys.argv[1],'w'))
PY
  (cd $R && go build -ldflags "-X testing.testBinary=1" -overlay $OV -o "$BIN" ./zz_verif_harness) 1>&2
fi
echo $BIN

#!/usr/bin/env python3
"""Regenerate MANIFEST.json from props.py + manifest_meta.py (claims, level notes)."""
import json, sys
sys.path.insert(0, '/verif')
from props import PROPS
from manifest_meta import META, NOT_APPLICABLE, NOTES
checks = []
for pid in sorted(PROPS):
    m = META[pid]
    checks.append({
        'property_id': pid,
        'quick_cmd': './check %s --tier quick' % pid,
        'thorough_cmd': './check %s --tier thorough' % pid,
        'evidence_file': '/verif/evidence/%s.json' % pid,
        'replay_cmd_template': './check %s --replay {path}' % pid,
        'engine': 'coq-model+correspondence',
        'level_claimed': {'category': 'proof', 'text': m['text'], 'design_ref': m.get('design_ref', 'DESIGN.md section 6')},
        'level_note': m['note'],
        'technique': m['technique'],
    })
man = {
    'version': 1,
    'setup_cmd': 'cd /verif && ./setup.sh',
    'hooks': {'guard': 'verif', 'enable': 'none needed: the harness is compiled into /repo\'s module with `go build -overlay` (tools/build_harness.sh); no file in /repo is added or changed',
              'baseline_off_cmd': 'cd /verif && ./tools/baseline.sh', 'source_commits': [], 'add_only': True},
    'engines': [{'name': 'coq-model+correspondence', 'path': '/verif/coq', 'serves_properties': sorted(PROPS),
                 'kind_free_text': 'Coq 8.16.1 theorems over an executable Gallina model (coq/Model), OCaml extraction driven against the real app (harness/) for differential correspondence, Go-side monitors on the real state'}],
    'checks': checks,
    'notes': NOTES,
    'not_applicable': NOT_APPLICABLE,
}
json.dump(man, open('/verif/MANIFEST.json', 'w'), indent=1)
print('MANIFEST.json: %d checks, %d not_applicable' % (len(checks), len(NOT_APPLICABLE)))

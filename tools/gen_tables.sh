#!/bin/bash
# Regenerate coq/Gen/*.v from /repo's current source with the Go translator (DESIGN 5.2).
set -e
export GOFLAGS=-mod=mod GOPROXY=off GOSUMDB=off GOTOOLCHAIN=local
mkdir -p /verif/.build
T=/verif/.build/translator
if [ ! -x $T ] || [ -n "$(find /verif/translator -name '*.go' -newer $T)" ]; then
  (cd /verif/translator && go build -o $T .) 1>&2
fi
mkdir -p /verif/.build/gen
$T -repo /repo -out /verif/.build/gen 1>&2
# only touch the .v files when their content changed (keeps make incremental)
for f in handlers perms nondet genesis; do
  if ! cmp -s /verif/.build/gen/$f.v /verif/coq/Gen/$f.v; then cp /verif/.build/gen/$f.v /verif/coq/Gen/$f.v; fi
done

#!/bin/bash
# Regenerate coq/Gen/*.v from /repo's current source with the Go translator (DESIGN 5.2).
set -e
export GOFLAGS=-mod=mod GOPROXY=off GOSUMDB=off GOTOOLCHAIN=local
V=${VERIF_ROOT:-/verif}
mkdir -p $V/.build
T=$V/.build/translator
if [ ! -x $T ] || [ -n "$(find $V/translator -name '*.go' -newer $T)" ]; then
  (cd $V/translator && go build -o $T .) 1>&2
fi
mkdir -p $V/.build/gen
$T -repo ${VERIF_REPO:-/repo} -out $V/.build/gen 1>&2
# only touch the .v files when their content changed (keeps make incremental)
for f in handlers perms nondet genesis kernels; do
  if ! cmp -s $V/.build/gen/$f.v $V/coq/Gen/$f.v; then cp $V/.build/gen/$f.v $V/coq/Gen/$f.v; fi
done

#!/bin/bash
# Build coq (incremental), extract the reward machine, compile its OCaml driver. Prints the driver path.
set -e
V=${VERIF_ROOT:-/verif}
cd $V/coq
[ -f Makefile ] || coq_makefile -f _CoqProject -o Makefile >/dev/null
grep -q 'Extract/ExtractReward.v' Makefile.conf 2>/dev/null || coq_makefile -f _CoqProject -o Makefile >/dev/null
timeout 3000 make -j16 Extract/ExtractReward.vo 1>&2
mkdir -p Extract/build_reward
D=Extract/build_reward/driver_reward
if [ ! -x $D ] || [ reward_model.ml -nt $D ] || [ Extract/driver_reward.ml -nt $D ]; then
  cp reward_model.ml reward_model.mli Extract/driver_reward.ml Extract/build_reward/
  (cd Extract/build_reward && ocamlfind ocamlopt -O3 -package zarith -linkpkg -w -a reward_model.mli reward_model.ml driver_reward.ml -o driver_reward) 1>&2
fi
echo $V/coq/$D

#!/bin/bash
# setup.sh — build the framework from files on disk only (offline).
set -e
cd ${VERIF_ROOT:-/verif}
export GOFLAGS=-mod=mod GOPROXY=off GOSUMDB=off GOTOOLCHAIN=local
tools/gen_tables.sh
( cd coq && coq_makefile -f _CoqProject -o Makefile >/dev/null && timeout 3000 make -j16 )
tools/build_driver.sh >/dev/null
tools/build_harness.sh >/dev/null
echo setup done

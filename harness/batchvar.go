// batchvar.go — C05: "the final balances do not depend on the batch sizes".
//   sgeh batchvar <histfile> <out>
// replays the history on chains that differ only in the bet and order-book batch sizes, lets every chain drain its
// settlement queues with empty blocks (bounded), and compares the final balances and subaccount ledgers of the runs in
// which every transaction had the same outcome as in the reference run (a different outcome, e.g. a withdrawal from a
// participation that the other chain has already paid out, makes the runs incomparable; counted, not judged).
package main

import (
	"bufio"
	"fmt"
	"os"
	"strings"
)

func readHistory(in string) (gen string, ops []Op) {
	f, err := os.Open(in)
	if err != nil {
		panic(err)
	}
	defer f.Close()
	sc := bufio.NewScanner(f)
	sc.Buffer(make([]byte, 1<<20), 1<<26)
	for sc.Scan() {
		l := sc.Text()
		if strings.HasPrefix(l, "GEN ") {
			gen = l
		} else if strings.HasPrefix(l, "OP ") {
			ops = append(ops, ParseOp(l[3:]))
		}
	}
	return
}

func queuesEmpty(dump []string) bool {
	for _, l := range dump {
		if (strings.HasPrefix(l, "MQ") || strings.HasPrefix(l, "BQ")) && len(strings.Fields(l)) > 1 {
			return false
		}
	}
	return true
}

func batchVar(in, out string) {
	gen, ops := readHistory(in)
	h := newHistWriter(out)
	defer h.close()
	cfg0 := ParseGenLine(gen)
	variants := [][2]uint64{{0, 0}, {1, 1}, {2, 1000}, {1000, 2}, {1000, 1000}, {3, 3}}
	var ref, refRes []string
	compared, incomparable := 0, 0
	for vi, v := range variants {
		cfg := cfg0
		if vi > 0 {
			cfg.Bet.BatchSettlementCount = uint32(v[0])
			cfg.Orderbook.BatchSettlementCount = v[1]
		}
		c, err := NewChain(cfg)
		if err != nil {
			h.line("BOOTFAIL " + err.Error())
			return
		}
		var res, last []string
		inBlock, dead := false, false
		run := func(o Op) string {
			r, _ := c.Exec(o)
			if strings.HasPrefix(r, "panic") {
				h.line(fmt.Sprintf("MON C05 block processing aborted in %s with batch sizes %d/%d: %s", o.Kind, cfg.Bet.BatchSettlementCount, cfg.Orderbook.BatchSettlementCount, trunc(r, 200)))
				dead = true
				return "panic"
			}
			switch o.Kind {
			case "BEGIN":
				inBlock = true
			case "END":
				last = c.Dump()
				c.Commit()
				inBlock = false
			}
			return r
		}
		for _, o := range ops {
			if dead {
				break
			}
			res = append(res, run(o))
		}
		if !dead && inBlock {
			run(Op{Kind: "END"})
		}
		t := c.Time
		for k := 0; k < 800 && !dead && !queuesEmpty(last); k++ {
			t += 5
			run(Op{Kind: "BEGIN", T: t})
			if !dead {
				run(Op{Kind: "END"})
			}
		}
		if dead {
			continue
		}
		if !queuesEmpty(last) {
			h.line(fmt.Sprintf("MON C05 settlement queues not drained after 800 empty blocks with batch sizes %d/%d", cfg.Bet.BatchSettlementCount, cfg.Orderbook.BatchSettlementCount))
			continue
		}
		var bal []string
		for _, l := range last {
			if strings.HasPrefix(l, "BAL ") || strings.HasPrefix(l, "SUB ") {
				bal = append(bal, l)
			}
		}
		if vi == 0 {
			ref, refRes = bal, res
			continue
		}
		if strings.Join(res, ",") != strings.Join(refRes, ",") {
			incomparable++
			continue
		}
		compared++
		if strings.Join(bal, "\n") != strings.Join(ref, "\n") {
			k := 0
			for k < len(bal) && k < len(ref) && bal[k] == ref[k] {
				k++
			}
			a, b := "<none>", "<none>"
			if k < len(ref) {
				a = ref[k]
			}
			if k < len(bal) {
				b = bal[k]
			}
			h.line(fmt.Sprintf("MON C05 final balances depend on the batch sizes: %s with the history's own sizes, %s with %d/%d (same transaction outcomes)", a, b, v[0], v[1]))
		}
	}
	h.line(fmt.Sprintf("BVAR compared=%d incomparable=%d", compared, incomparable))
}

func init() {
	extraModes["batchvar"] = func(args []string) { batchVar(args[0], args[1]) }
}

// paramsmsg.go — C17: the parameter-update messages.  MsgUpdateParams is gated by governance and is not part of the generated
// histories; here every module's UpdateParams handler is called directly (under the module's own authority, on a cache context)
// with generated parameter sets, valid and invalid: the handler must accept exactly what the module's Params.Validate accepts,
// store what it accepted, refuse any other authority, and leave the stored parameters alone when it refuses.
package main

import (
	"fmt"
	"math/rand"
	"reflect"

	sdkmath "cosmossdk.io/math"
	sdk "github.com/cosmos/cosmos-sdk/types"
	authtypes "github.com/cosmos/cosmos-sdk/x/auth/types"
	govtypes "github.com/cosmos/cosmos-sdk/x/gov/types"

	betkeeper "github.com/sge-network/sge/x/bet/keeper"
	bettypes "github.com/sge-network/sge/x/bet/types"
	housekeeper "github.com/sge-network/sge/x/house/keeper"
	housetypes "github.com/sge-network/sge/x/house/types"
	mintkeeper "github.com/sge-network/sge/x/mint/keeper"
	minttypes "github.com/sge-network/sge/x/mint/types"
	obkeeper "github.com/sge-network/sge/x/orderbook/keeper"
	obtypes "github.com/sge-network/sge/x/orderbook/types"
)

func paramsMsgProbe(r *rand.Rand, n int, h *histWriter, c *Chain) int {
	evals := 0
	gov := authtypes.NewModuleAddress(govtypes.ModuleName).String()
	stranger := c.Acc[0].Addr.String()
	bad := func(f string, a ...interface{}) { h.line("MON C17 " + fmt.Sprintf(f, a...)) }
	// a1/s1: under the governance authority (accepted?, stored exactly / changed although refused);  a2/s2: under an ordinary account
	judge := func(mod string, valid bool, a1, s1, a2, s2 bool) {
		evals++
		if a1 != valid {
			bad("%s UpdateParams under the governance authority returned accepted=%v for parameters that Params.Validate judges valid=%v", mod, a1, valid)
		}
		if a1 && !s1 {
			bad("%s UpdateParams accepted parameters but did not store them", mod)
		}
		if !a1 && s1 {
			bad("%s UpdateParams refused parameters but the stored parameters changed", mod)
		}
		if a2 || s2 {
			bad("%s UpdateParams took effect for a message whose authority is an ordinary account", mod)
		}
	}
	for i := 0; i < n; i++ {
		cfg := GenesisFor("params", r)
		// --- bet
		{
			p := cfg.Bet
			switch r.Intn(6) {
			case 0:
				p.Constraints.Fee = p.Constraints.MinAmount // fee not below the minimum
			case 1:
				p.Constraints.Fee = sdkmath.NewInt(-1)
			case 2:
				p.Constraints.MinAmount = sdkmath.NewInt(0)
			case 3:
				p.BatchSettlementCount = 0
			}
			valid := p.Validate() == nil
			run := func(auth string) (bool, bool) {
				ctx, _ := c.Ctx().CacheContext()
				before := c.App.BetKeeper.GetParams(ctx)
				_, err := betkeeper.NewMsgServerImpl(*c.App.BetKeeper).UpdateParams(sdk.WrapSDKContext(ctx), &bettypes.MsgUpdateParams{Authority: auth, Params: p})
				after := c.App.BetKeeper.GetParams(ctx)
				if err == nil {
					return true, reflect.DeepEqual(after, p)
				}
				return false, !reflect.DeepEqual(before, after)
			}
			a1, s1 := run(gov)
			a2, s2 := run(stranger)
			judge("bet", valid, a1, s1, a2, s2 && !a2)
		}
		// --- house
		{
			p := cfg.House
			switch r.Intn(6) {
			case 0:
				p.HouseParticipationFee = sdkmath.LegacyMustNewDecFromStr("-0.1")
			case 1:
				p.MinDeposit = sdkmath.NewInt(-5)
			case 2:
				p.MaxWithdrawalCount = 0
			}
			valid := p.Validate() == nil
			run := func(auth string) (bool, bool) {
				ctx, _ := c.Ctx().CacheContext()
				before := c.App.HouseKeeper.GetParams(ctx)
				_, err := housekeeper.NewMsgServerImpl(*c.App.HouseKeeper).UpdateParams(sdk.WrapSDKContext(ctx), &housetypes.MsgUpdateParams{Authority: auth, Params: p})
				after := c.App.HouseKeeper.GetParams(ctx)
				if err == nil {
					return true, reflect.DeepEqual(after, p)
				}
				return false, !reflect.DeepEqual(before, after)
			}
			a1, s1 := run(gov)
			a2, s2 := run(stranger)
			judge("house", valid, a1, s1, a2, s2 && !a2)
		}
		// --- orderbook
		{
			p := cfg.Orderbook
			switch r.Intn(6) {
			case 0:
				p.BatchSettlementCount = 0
			case 1:
				p.MaxOrderBookParticipations = 0
			}
			valid := p.Validate() == nil
			run := func(auth string) (bool, bool) {
				ctx, _ := c.Ctx().CacheContext()
				before := c.App.OrderbookKeeper.GetParams(ctx)
				_, err := obkeeper.NewMsgServerImpl(*c.App.OrderbookKeeper).UpdateParams(sdk.WrapSDKContext(ctx), &obtypes.MsgUpdateParams{Authority: auth, Params: p})
				after := c.App.OrderbookKeeper.GetParams(ctx)
				if err == nil {
					return true, reflect.DeepEqual(after, p)
				}
				return false, !reflect.DeepEqual(before, after)
			}
			a1, s1 := run(gov)
			a2, s2 := run(stranger)
			judge("orderbook", valid, a1, s1, a2, s2 && !a2)
		}
		// --- mint
		{
			p := extremeMintParams(r)
			valid := p.Validate() == nil
			run := func(auth string) (bool, bool) {
				ctx, _ := c.Ctx().CacheContext()
				before := c.App.MintKeeper.GetParams(ctx)
				_, err := mintkeeper.NewMsgServerImpl(c.App.MintKeeper).UpdateParams(sdk.WrapSDKContext(ctx), &minttypes.MsgUpdateParams{Authority: auth, Params: p})
				after := c.App.MintKeeper.GetParams(ctx)
				if err == nil {
					return true, mintParamsStr(after) == mintParamsStr(p)
				}
				return false, mintParamsStr(before) != mintParamsStr(after)
			}
			a1, s1 := run(gov)
			a2, s2 := run(stranger)
			judge("mint", valid, a1, s1, a2, s2 && !a2)
		}
	}
	return evals
}

// snapshot.go — a typed view of the real application's state, read through the keepers and raw
// stores, used by the Go-side monitors (independent of the Coq model and of dump.go's text format).
package main

import (
	"encoding/binary"
	"math/big"

	"github.com/cosmos/cosmos-sdk/store/prefix"
	sdk "github.com/cosmos/cosmos-sdk/types"
	"github.com/cosmos/cosmos-sdk/x/authz"

	bettypes "github.com/sge-network/sge/x/bet/types"
	housetypes "github.com/sge-network/sge/x/house/types"
	markettypes "github.com/sge-network/sge/x/market/types"
	obtypes "github.com/sge-network/sge/x/orderbook/types"
)

type sBet struct {
	bettypes.Bet
	ID uint64
}

type sGrant struct {
	Grantee, Granter string
	Kind             int
	Limit            *big.Int
	Exp              int64
}

type Snap struct {
	Height, Time int64
	Bal          map[string]*big.Int // by address, for users + subaccounts
	SubOwner     map[string]string   // subaccount address -> owner
	Pool, BetFee, HouseFee *big.Int
	Markets  map[string]markettypes.Market
	Books    map[string]obtypes.OrderBook
	Queues   map[string]map[string][]uint64 // market -> odds -> queue
	Parts    map[string][]obtypes.OrderBookParticipation
	Exp      []obtypes.ParticipationExposure // prefix 0x03
	ExpIx    []obtypes.ParticipationExposure // prefix 0x04
	Hist     []obtypes.ParticipationExposure
	Bets     []sBet
	BetByID  map[uint64]*sBet
	Pending  map[[2]string]int // (market, id) -> multiplicity
	Settled  map[[2]int64]int  // (height, id) -> multiplicity
	UID2ID   map[string]uint64
	NUID2ID  int
	BetCount uint64
	MQ, BQ   []string
	Deposits []housetypes.Deposit
	Withdrawals []housetypes.Withdrawal
	Grants   []sGrant
	BetParams bettypes.Params
	ObParams  obtypes.Params
	HouseParams housetypes.Params
}

func (c *Chain) Snapshot() *Snap {
	ctx := c.Ctx()
	s := &Snap{Height: c.Height, Time: c.Time, Bal: map[string]*big.Int{}, Markets: map[string]markettypes.Market{},
		Books: map[string]obtypes.OrderBook{}, Queues: map[string]map[string][]uint64{}, Parts: map[string][]obtypes.OrderBookParticipation{},
		BetByID: map[uint64]*sBet{}, Pending: map[[2]string]int{}, Settled: map[[2]int64]int{}, UID2ID: map[string]uint64{}}
	for _, a := range c.Acc {
		s.Bal[a.Addr.String()] = c.Bal(a.Addr).BigInt()
	}
	s.SubOwner = map[string]string{}
	for _, sa := range c.App.SubaccountKeeper.GetAllSubaccounts(ctx) {
		s.Bal[sa.Address] = c.Bal(sdk.MustAccAddressFromBech32(sa.Address)).BigInt()
		s.SubOwner[sa.Address] = sa.Owner
	}
	s.Pool = c.Bal(c.ModAddr(obtypes.OrderBookLiquidityFunder{}.GetModuleAcc())).BigInt()
	s.BetFee = c.Bal(c.ModAddr(bettypes.BetFeeCollectorFunder{}.GetModuleAcc())).BigInt()
	s.HouseFee = c.Bal(c.ModAddr(housetypes.HouseFeeCollectorFunder{}.GetModuleAcc())).BigInt()
	mk, _ := c.App.MarketKeeper.GetMarkets(ctx)
	for _, m := range mk {
		s.Markets[m.UID] = m
	}
	bks, _ := c.App.OrderbookKeeper.GetAllOrderBooks(ctx)
	for _, b := range bks {
		s.Books[b.UID] = b
	}
	boes, _ := c.App.OrderbookKeeper.GetAllOrderBookExposures(ctx)
	for _, q := range boes {
		if s.Queues[q.OrderBookUID] == nil {
			s.Queues[q.OrderBookUID] = map[string][]uint64{}
		}
		s.Queues[q.OrderBookUID][q.OddsUID] = q.FulfillmentQueue
	}
	ps, _ := c.App.OrderbookKeeper.GetAllOrderBookParticipations(ctx)
	for _, p := range ps {
		s.Parts[p.OrderBookUID] = append(s.Parts[p.OrderBookUID], p)
	}
	obStore := ctx.KVStore(c.App.GetKey(obtypes.StoreKey))
	raw := func(pfx []byte) (l []obtypes.ParticipationExposure) {
		it := prefix.NewStore(obStore, pfx).Iterator(nil, nil)
		defer it.Close()
		for ; it.Valid(); it.Next() {
			var e obtypes.ParticipationExposure
			c.App.AppCodec().MustUnmarshal(it.Value(), &e)
			l = append(l, e)
		}
		return
	}
	s.Exp = raw(obtypes.ParticipationExposureKeyPrefix)
	s.ExpIx = raw(obtypes.ParticipationExposureByIndexKeyPrefix)
	s.Hist = raw(obtypes.HistoricalParticipationExposureKeyPrefix)

	ids, _ := c.App.BetKeeper.GetBetIDs(ctx)
	s.NUID2ID = len(ids)
	for _, x := range ids {
		s.UID2ID[x.UID] = x.ID
	}
	bets, _ := c.App.BetKeeper.GetBets(ctx)
	for _, b := range bets {
		s.Bets = append(s.Bets, sBet{Bet: b, ID: s.UID2ID[b.UID]})
	}
	for i := range s.Bets {
		s.BetByID[s.Bets[i].ID] = &s.Bets[i]
	}
	s.BetCount = c.App.BetKeeper.GetBetStats(ctx).Count
	betStore := ctx.KVStore(c.App.GetKey(bettypes.StoreKey))
	func() {
		it := sdk.KVStorePrefixIterator(betStore, bettypes.PendingBetListPrefix)
		defer it.Close()
		for ; it.Valid(); it.Next() {
			k := it.Key()[1:]
			s.Pending[[2]string{string(k[:36]), string(k[36:])}]++
		}
	}()
	func() {
		it := sdk.KVStorePrefixIterator(betStore, bettypes.SettledBetListPrefix)
		defer it.Close()
		for ; it.Valid(); it.Next() {
			k := it.Key()[1:]
			s.Settled[[2]int64{int64(binary.BigEndian.Uint64(k[:8])), int64(binary.BigEndian.Uint64(k[8:]))}]++
		}
	}()
	s.MQ = c.App.MarketKeeper.GetMarketStats(ctx).ResolvedUnsettled
	s.BQ = c.App.OrderbookKeeper.GetOrderBookStats(ctx).ResolvedUnsettled
	s.Deposits, _ = c.App.HouseKeeper.GetAllDeposits(ctx)
	s.Withdrawals, _ = c.App.HouseKeeper.GetAllWithdrawals(ctx)
	c.App.AuthzKeeper.IterateGrants(ctx, func(granter, grantee sdk.AccAddress, g authz.Grant) bool {
		a, err := g.GetAuthorization()
		if err != nil {
			return false
		}
		exp := int64(-1)
		if g.Expiration != nil {
			exp = g.Expiration.Unix()
		}
		switch x := a.(type) {
		case *housetypes.DepositAuthorization:
			s.Grants = append(s.Grants, sGrant{grantee.String(), granter.String(), 1, x.SpendLimit.BigInt(), exp})
		case *housetypes.WithdrawAuthorization:
			s.Grants = append(s.Grants, sGrant{grantee.String(), granter.String(), 2, x.WithdrawLimit.BigInt(), exp})
		}
		return false
	})
	s.BetParams = c.App.BetKeeper.GetParams(ctx)
	s.ObParams = c.App.OrderbookKeeper.GetParams(ctx)
	s.HouseParams = c.App.HouseKeeper.GetParams(ctx)
	return s
}

func idKey(id uint64) string {
	b := make([]byte, 8)
	binary.BigEndian.PutUint64(b, id)
	return string(b)
}

func (s *Snap) grant(grantee, granter string, kind int) *sGrant {
	for i := range s.Grants {
		g := &s.Grants[i]
		if g.Grantee == grantee && g.Granter == granter && g.Kind == kind {
			return g
		}
	}
	return nil
}

func (s *Snap) part(mkt string, idx uint64) *obtypes.OrderBookParticipation {
	for i := range s.Parts[mkt] {
		if s.Parts[mkt][i].Index == idx {
			return &s.Parts[mkt][i]
		}
	}
	return nil
}

type grantLine struct {
	granter, grantee, kind int64
	limit                  *big.Int
}

// grantLines: the house grants currently in the authz store, in account ids
func (c *Chain) grantLines() []grantLine {
	var l []grantLine
	c.App.AuthzKeeper.IterateGrants(c.Ctx(), func(granter, grantee sdk.AccAddress, g authz.Grant) bool {
		a, err := g.GetAuthorization()
		if err != nil {
			return false
		}
		switch x := a.(type) {
		case *housetypes.DepositAuthorization:
			l = append(l, grantLine{c.AccID(granter.String()), c.AccID(grantee.String()), 1, x.SpendLimit.BigInt()})
		case *housetypes.WithdrawAuthorization:
			l = append(l, grantLine{c.AccID(granter.String()), c.AccID(grantee.String()), 2, x.WithdrawLimit.BigInt()})
		}
		return false
	})
	return l
}

// gen.go — seeded, state-aware generators of operation histories (structured, mostly valid, with a
// malformed stream and an exact-boundary stream).  Every random choice derives from one PRNG.
package main

import (
	"fmt"
	"strings"
	"math/big"
	"math/rand"

	sdkmath "cosmossdk.io/math"

	sdk "github.com/cosmos/cosmos-sdk/types"

	bettypes "github.com/sge-network/sge/x/bet/types"
	housetypes "github.com/sge-network/sge/x/house/types"
	obtypes "github.com/sge-network/sge/x/orderbook/types"
	markettypes "github.com/sge-network/sge/x/market/types"
)

var prec = new(big.Int).Exp(big.NewInt(10), big.NewInt(18), nil)

func decFromStr(s string) *big.Int { return sdkmath.LegacyMustNewDecFromStr(s).BigInt() }

type deferredWdr struct {
	mkt, owner int64
	left       int // attempts left
	lastH      int64
}

type gMarket struct {
	uid      int64
	odds     []int64
	status   int64 // model's view, refreshed from the chain after each op
	end      int64
	start    int64
	creator  int64
	nparts   int64
	resolved bool
	resH     int64 // height of the block in which the resolution was accepted
}

type Gen struct {
	r        *rand.Rand
	c        *Chain
	profile  string
	markets  []*gMarket
	nextMkt  int64
	nextBet  int64
	usedBets []int64
	pending  []Op // operations to be emitted next, in the same block (bursts)
	feeBack  []int64 // wager fees to be restored (betFeeFlip)
	deferred []deferredWdr // full withdrawals to be sent in the blocks after the resolution of their market (withdrawInWindow)
	lastLeader int64 // leader key after the last observed block
	seenLeader bool
	former   []int64 // keys that have lost the leader position
	okTix    []Op // accepted ticket-bearing ops whose very ticket (same string: same payload, exp and key) is presented again later
	okLong   []Op // the long-lived ones among them (not votes), kept apart so that the many vote tickets do not push them out before a rotation completes
	stats    map[string]int
}

func pick[T any](r *rand.Rand, l []T) T { return l[r.Intn(len(l))] }

func (g *Gen) chance(p float64) bool { return g.r.Float64() < p }

// GenesisFor draws a genesis configuration for a profile.
func GenesisFor(profile string, r *rand.Rand) GenesisCfg {
	cfg := DefaultGenesisCfg()
	cfg.NAcc = 6
	cfg.Balance = pick(r, []int64{5_000_000, 50_000_000, 1_000_000_000_000})
	cfg.Bet = bettypes.Params{
		BatchSettlementCount:  pick(r, []uint32{1, 2, 3, 5, 1000}),
		MaxBetByUidQueryCount: 10,
		Constraints: bettypes.Constraints{
			MinAmount: sdkmath.NewInt(pick(r, []int64{2, 100, 1000, 1000000})),
			Fee:       sdkmath.NewInt(pick(r, []int64{0, 1, 10, 100})),
		},
	}
	if cfg.Bet.Constraints.Fee.GTE(cfg.Bet.Constraints.MinAmount) {
		cfg.Bet.Constraints.Fee = cfg.Bet.Constraints.MinAmount.SubRaw(1)
	}
	cfg.Orderbook = obtypes.Params{
		MaxOrderBookParticipations: pick(r, []uint64{2, 3, 5, 100}),
		BatchSettlementCount:       pick(r, []uint64{1, 2, 5, 1000}),
		RequeueThreshold:           pick(r, []uint64{0, 1, 10, 1000}),
	}
	cfg.House = housetypes.Params{
		MinDeposit:            sdkmath.NewInt(pick(r, []int64{2, 100})),
		HouseParticipationFee: sdkmath.LegacyMustNewDecFromStr(pick(r, []string{"0", "0.1", "0.05", "0.013", "0.5"})),
		MaxWithdrawalCount:    pick(r, []uint64{1, 2, 3}),
	}
	if profile == "params" {
		// extreme but accepted values (C17)
		min := pick(r, []int64{2, 3, 100})
		cfg.Bet.Constraints.MinAmount = sdkmath.NewInt(min)
		cfg.Bet.Constraints.Fee = sdkmath.NewInt(pick(r, []int64{0, min - 1, min - 1, 1}))
		cfg.Bet.BatchSettlementCount = pick(r, []uint32{1, 1, 4294967295})
		cfg.Orderbook.MaxOrderBookParticipations = pick(r, []uint64{1, 2, 18446744073709551615})
		cfg.Orderbook.BatchSettlementCount = pick(r, []uint64{1, 1, 18446744073709551615})
		cfg.Orderbook.RequeueThreshold = pick(r, []uint64{0, 18446744073709551615, 1000000})
		cfg.House.MinDeposit = sdkmath.NewInt(pick(r, []int64{2, 2, 100}))
		cfg.House.HouseParticipationFee = sdkmath.LegacyMustNewDecFromStr(pick(r, []string{"0", "0.99", "1", "1.5", "3", "0.999999999999999999", "0.5"}))
		cfg.House.MaxWithdrawalCount = pick(r, []uint64{1, 18446744073709551615})
	}
	if profile == "tiny" {
		// small integers everywhere: a wager is split over many participations holding a handful of tokens each, so
		// the rounding of every partial fill matters (this is what exhibits the carry drift D3)
		min := pick(r, []int64{2, 3, 5})
		cfg.Balance = 5_000_000
		cfg.Bet.Constraints.MinAmount = sdkmath.NewInt(min)
		cfg.Bet.Constraints.Fee = sdkmath.NewInt(pick(r, []int64{0, 1}))
		cfg.Orderbook.MaxOrderBookParticipations = pick(r, []uint64{5, 8, 100})
		cfg.Orderbook.RequeueThreshold = pick(r, []uint64{0, 0, 1})
		cfg.House.MinDeposit = sdkmath.NewInt(2)
		cfg.House.HouseParticipationFee = sdkmath.LegacyMustNewDecFromStr(pick(r, []string{"0", "0.5", "0"}))
	}
	cfg.Subaccount.WagerEnabled = r.Intn(10) != 0
	cfg.Subaccount.DepositEnabled = r.Intn(10) != 0
	if profile == "mint" {
		cfg.Mint = mintParamsFor(r)
	} else {
		// keep mint quiet in betting profiles: default params mint every block, which is fine and exercised too
		if r.Intn(2) == 0 {
			cfg.Mint = mintParamsFor(r)
		}
	}
	return cfg
}

func NewGen(c *Chain, profile string, r *rand.Rand) *Gen {
	return &Gen{r: r, c: c, profile: profile, stats: map[string]int{}}
}

func (g *Gen) leaderTicket() Ticket {
	if g.chance(0.2) || (g.profile == "ovm" && g.chance(0.4)) { // long-lived: still unexpired after a key rotation or many blocks (replayed by replayTicket)
		return Ticket{Signer: int64(g.c.LeaderKey()), Exp: g.c.Time + int64(3000+g.r.Intn(20000))}
	}
	return Ticket{Signer: int64(g.c.LeaderKey()), Exp: g.c.Time + int64(1+g.r.Intn(1000))}
}

// replayTicket presents the ticket of an earlier accepted message once more, byte for byte (tickets are deterministic in
// payload, exp and signing key): the same update again, the same vote ticket under another voter index, the same deposit
// ticket for another market and amount.  Whether it is accepted must depend on the keys registered NOW (C06).
func (g *Gen) replayTicket() Op {
	o := pick(g.r, g.okTix)
	// prefer an unexpired ticket signed by a key that has since lost the leader position (after a rotation): it must be refused now
	if g.chance(0.6) {
		lead := int64(g.c.LeaderKey())
		for _, q := range append(append([]Op{}, g.okLong...), g.okTix...) {
			if q.Kind != "VOTE" && q.Tk.Signer != lead && q.Tk.Exp > g.c.Time {
				o = q
				g.stats["ticket_replayed_after_rotation"]++
				break
			}
		}
	}
	g.stats["ticket_replayed_"+o.Kind]++
	// an altered copy of an ACCEPTED ticket: same header and signature (the chain has verified them before), payload changed
	// after signing (an extra claim, or a later expiry).  It must be refused like any other forgery.
	if o.Kind != "VOTE" && o.Tk.Signer == int64(g.c.LeaderKey()) && g.chance(0.35) {
		forged := Ticket{Signer: -1, Exp: o.Tk.Exp, Forge: 3}
		if g.chance(0.5) {
			forged.Forge = 10
		}
		g.stats["ticket_altered_copy_of_accepted"]++
		if o.Kind == "DEP" {
			d := g.genDeposit()
			if d.Kind == "DEP" {
				d.Tk, d.Ky, d.Depositor, d.Signer = forged, o.Ky, o.Depositor, o.Signer
				return d
			}
		}
		o.Tk = forged
		return o
	}
	switch o.Kind {
	case "VOTE":
		n := int64(len(g.vault()))
		if n > 1 {
			o.VoterIdx = (o.VoterIdx + 1 + g.r.Int63n(n-1)) % n
		}
		if ps := g.c.App.OVMKeeper; g.chance(0.5) {
			_ = ps
			o.Signer = g.user()
		}
	case "DEP":
		d := g.genDeposit()
		if d.Kind == "DEP" {
			d.Tk, d.Ky, d.Depositor, d.Signer = o.Tk, o.Ky, o.Depositor, o.Signer
			return d
		}
	}
	return o
}

// badTicket returns a ticket the chain must reject.
func (g *Gen) badTicket() Ticket {
	switch g.r.Intn(6) {
	case 0: // expired exactly now
		return Ticket{Signer: int64(g.c.LeaderKey()), Exp: g.c.Time}
	case 1:
		return Ticket{Signer: int64(g.c.LeaderKey()), Exp: g.c.Time - 1}
	case 2: // registered but not leader
		return Ticket{Signer: int64((g.c.LeaderKey() + 1) % g.c.Cfg.NKeys), Exp: g.c.Time + 100}
	case 3: // unregistered key of the universe
		return Ticket{Signer: int64(NKeyUniverse - 1), Exp: g.c.Time + 100}
	case 4: // no exp
		return Ticket{Signer: int64(g.c.LeaderKey()), Exp: -1}
	default:
		return Ticket{Signer: -1, Exp: g.c.Time + 100, Forge: g.r.Intn(10)}
	}
}

func (g *Gen) ticket() Ticket {
	if g.chance(0.04) {
		return g.badTicket()
	}
	if g.chance(0.03) { // boundary: exp = now + 1 is valid
		return Ticket{Signer: int64(g.c.LeaderKey()), Exp: g.c.Time + 1}
	}
	return g.leaderTicket()
}

func (g *Gen) kycFor(acct int64) Kyc {
	switch {
	case g.chance(0.03):
		return Kyc{Ignore: false, Approved: true, ID: (acct + 1) % int64(len(g.c.Acc))} // wrong id
	case g.chance(0.03):
		return Kyc{Ignore: false, Approved: false, ID: acct}
	case g.chance(0.3):
		return Kyc{Ignore: true, Approved: false, ID: -1}
	}
	return Kyc{Ignore: false, Approved: true, ID: acct}
}

func (g *Gen) user() int64 { return int64(g.r.Intn(len(g.c.Acc))) }

var oddsChoices = []string{"1.5", "2", "1.333333333333333333", "1.01", "3.7", "10", "1.25", "1.1", "2.5", "1.4", "7.77", "1.99", "1.666666666666666667"}
var multChoices = []string{"1", "1", "0.5", "0.25", "0.333333333333333333", "0.9", "0.1", "0.75"}

var tinyOdds = []string{"3", "2", "1.5", "5", "1.25", "2.5", "1.2", "3", "2"}

func (g *Gen) oddsVal() *big.Int {
	if g.profile == "tiny" && g.chance(0.9) {
		return decFromStr(pick(g.r, tinyOdds))
	}
	switch {
	case g.chance(0.01):
		return decFromStr("1.000000000000000001")
	case g.chance(0.01):
		return decFromStr("1") // invalid: not > 1
	case g.chance(0.005):
		return big.NewInt(0) // unparsable string
	case g.chance(0.25):
		// random 1.xxx with up to 18 digits
		frac := new(big.Int).Rand(g.r, prec)
		if frac.Sign() == 0 {
			frac = big.NewInt(1)
		}
		v := new(big.Int).Add(prec, frac)
		if g.chance(0.5) {
			v.Add(v, new(big.Int).Mul(prec, big.NewInt(int64(g.r.Intn(5)))))
		}
		return v
	}
	return decFromStr(pick(g.r, oddsChoices))
}

func (g *Gen) mult() *big.Int {
	if g.profile == "tiny" && g.chance(0.85) {
		return decFromStr("1")
	}
	if g.chance(0.15) {
		m := new(big.Int).Rand(g.r, prec)
		m.Add(m, big.NewInt(1))
		return m
	}
	if g.chance(0.01) {
		return big.NewInt(0) // invalid
	}
	if g.chance(0.01) {
		return new(big.Int).Add(prec, big.NewInt(1)) // invalid: > 1
	}
	return decFromStr(pick(g.r, multChoices))
}

func (g *Gen) activeMarkets() []*gMarket {
	var l []*gMarket
	for _, m := range g.markets {
		if !m.resolved {
			l = append(l, m)
		}
	}
	return l
}

func (g *Gen) anyMarket() *gMarket {
	if len(g.markets) == 0 {
		return nil
	}
	am := g.activeMarkets()
	if len(am) > 0 && g.chance(0.9) {
		return pick(g.r, am)
	}
	return pick(g.r, g.markets)
}

func bi(x int64) *big.Int { return big.NewInt(x) }

func sdkAcc(a string) sdk.AccAddress { return sdk.MustAccAddressFromBech32(a) }

// amount scale for this history: small amounts hit rounding boundaries, large ones the default regime
func (g *Gen) scale() int64 {
	min := g.c.Cfg.Bet.Constraints.MinAmount.Int64()
	if g.profile == "tiny" {
		return pick(g.r, []int64{min, min, 2 * min, 7, 12})
	}
	return pick(g.r, []int64{min, min, min * 3, min*10 + 7, 100000 + min, 1000000 + min})
}

func (g *Gen) genMarketAdd() Op {
	uid := g.nextMkt
	if g.chance(0.05) && len(g.markets) > 0 {
		uid = pick(g.r, g.markets).uid // duplicate
	} else {
		g.nextMkt++
	}
	n := 2 + g.r.Intn(3)
	var odds []int64
	for i := 0; i < n; i++ {
		odds = append(odds, uid*10+int64(i))
	}
	g.r.Shuffle(len(odds), func(i, j int) { odds[i], odds[j] = odds[j], odds[i] })
	if g.chance(0.02) {
		odds = odds[:1] // too few
	}
	if g.chance(0.02) && len(odds) > 1 {
		odds[1] = odds[0] // duplicate odds uid
	}
	start := g.c.Time - int64(g.r.Intn(50)) + 10
	if start <= 0 {
		start = 1
	}
	end := g.c.Time + int64(pick(g.r, []int{30, 300, 5000, 50000})+g.r.Intn(2000))
	if g.chance(0.03) {
		end = g.c.Time // invalid: not after now
	}
	status := int64(1)
	if g.chance(0.05) {
		status = 2
	}
	if g.chance(0.02) {
		status = 5 // invalid for add
	}
	return Op{Kind: "MADD", Signer: g.user(), Tk: g.ticket(), UID: uid, Start: start, End: end, Status: status, Odds: odds}
}

func (g *Gen) genMarketUpdate() Op {
	m := g.anyMarket()
	if m == nil {
		return g.genMarketAdd()
	}
	status := int64(1)
	if g.chance(0.2) {
		status = 2
	}
	if g.chance(0.03) {
		status = 3
	}
	end := g.c.Time + int64(1+g.r.Intn(pick(g.r, []int{50, 1500, 50000})))
	start := m.start
	if g.chance(0.2) {
		start = g.c.Time + int64(g.r.Intn(10))
	}
	uid := m.uid
	if g.chance(0.03) {
		uid = 9999 // unknown market
	}
	return Op{Kind: "MUPD", Signer: g.user(), Tk: g.ticket(), UID: uid, Start: start, End: end, Status: status}
}

func (g *Gen) genMarketResolve() Op {
	m := g.anyMarket()
	if m == nil {
		return g.genMarketAdd()
	}
	status := pick(g.r, []int64{5, 5, 5, 5, 3, 4})
	if g.chance(0.04) {
		status = pick(g.r, []int64{0, 6, 7, 100, 2, 1}) // not a resolution (undefined enum numbers included)
		g.stats["resolve_with_non_resolution_status"]++
	}
	var winners []int64
	if status == 5 {
		winners = []int64{pick(g.r, m.odds)}
		if g.chance(0.03) {
			winners = []int64{m.uid*10 + 9} // foreign outcome
		}
		if g.chance(0.05) {
			winners = []int64{pick(g.r, m.odds) + upperCaseBase} // an outcome of the market spelled in upper case: not one of its outcomes
			g.stats["winner_upper_case"]++
		}
		if g.chance(0.02) {
			winners = append(winners, pick(g.r, m.odds)) // two winners: invalid
		}
		if g.chance(0.02) {
			winners = nil
		}
	} else if g.chance(0.03) {
		winners = []int64{pick(g.r, m.odds)} // winners on cancel: invalid
	}
	rts := g.c.Time
	if g.chance(0.05) {
		rts = m.start - 1 // before start: invalid for declared
	}
	if g.chance(0.02) {
		rts = 0
	}
	if g.chance(0.2) {
		// a burst: every other unresolved market is resolved in the same block, so that several markets / books finish in one end block
		n := 0
		for _, q := range g.markets {
			if q.uid != m.uid && !q.resolved && g.c.Time >= q.start {
				st := pick(g.r, []int64{5, 5, 3, 4})
				var ws []int64
				if st == 5 {
					ws = []int64{pick(g.r, q.odds)}
				}
				g.pending = append(g.pending, Op{Kind: "MRES", Signer: g.user(), Tk: g.leaderTicket(), UID: q.uid, Rts: g.c.Time, Status: st, Winners: ws})
				n++
			}
		}
		if n >= 2 {
			g.stats["resolve_burst_of_3_or_more"]++
		}
	}
	return Op{Kind: "MRES", Signer: g.user(), Tk: g.ticket(), UID: m.uid, Rts: rts, Status: status, Winners: winners}
}

func (g *Gen) genDeposit() Op {
	m := g.anyMarket()
	for i := 0; i < 3 && m != nil && (m.status != 1 || m.resolved); i++ {
		m = g.anyMarket()
	}
	if m == nil {
		return g.genMarketAdd()
	}
	signer := g.user()
	sc := g.scale()
	amt := sc/2 + g.r.Int63n(sc*4+1)
	if g.chance(0.05) {
		amt = g.c.Cfg.House.MinDeposit.Int64() + int64(g.r.Intn(3)) - 1
	}
	if g.profile == "tiny" && g.chance(0.9) {
		amt = 2 + int64(g.r.Intn(11))
	}
	dep := int64(-1)
	ky := g.kycFor(signer)
	if g.chance(0.1) {
		dep = g.user()
		ky = g.kycFor(dep)
	}
	if gl := g.liveGrants(1); len(gl) > 0 && g.chance(0.12) {
		// a delegated deposit under an existing grant, mostly consuming it only partly
		gr := pick(g.r, gl)
		signer, dep, ky = gr.grantee, gr.granter, g.kycFor(gr.granter)
		if gr.limit.IsInt64() && gr.limit.Int64() > 2 && g.chance(0.8) {
			min := g.c.Cfg.House.MinDeposit.Int64()
			if a := min + g.r.Int63n(gr.limit.Int64()); a < gr.limit.Int64() || g.chance(0.3) {
				amt = a
			}
		}
		g.stats["deposit_under_grant"]++
	}
	if dep < 0 && g.chance(0.03) {
		// exactly the whole spendable balance of the depositor (the boundary of "can pay it"); one token more must be refused
		if b := g.c.Bal(g.c.Acc[signer].Addr); b.IsInt64() && b.Int64() >= g.c.Cfg.House.MinDeposit.Int64() {
			amt = b.Int64()
			if g.chance(0.3) {
				amt++
			}
			g.stats["deposit_whole_balance"]++
		}
	}
	return Op{Kind: "DEP", Signer: signer, Tk: g.ticket(), Mkt: m.uid, Amount: bi(amt), Ky: ky, Depositor: dep}
}

func (g *Gen) genWithdraw() Op {
	ctx := g.c.Ctx()
	parts, _ := g.c.App.OrderbookKeeper.GetAllOrderBookParticipations(ctx)
	if len(parts) == 0 {
		return g.genDeposit()
	}
	p := pick(g.r, parts)
	if g.chance(0.3) {
		// prefer a participation still unsettled on a market whose result is declared: its bets are being settled batch by batch, and what
		// a settled bet releases must not become withdrawable while other bets of the participation are still open
		var live []obtypes.OrderBookParticipation
		for _, q := range parts {
			if q.IsSettled {
				// already paid, but its book is still being paid batch by batch: a paid depositor must not get anything more
				if b, ok := g.c.App.OrderbookKeeper.GetOrderBook(ctx, q.OrderBookUID); ok && b.Status != obtypes.OrderBookStatus_ORDER_BOOK_STATUS_STATUS_SETTLED {
					live = append(live, q)
					g.stats["withdraw_candidate_paid_in_unsettled_book"]++
				}
				continue
			}
			if m, ok := g.c.App.MarketKeeper.GetMarket(ctx, q.OrderBookUID); ok && m.Status == markettypes.MarketStatus_MARKET_STATUS_RESULT_DECLARED {
				live = append(live, q)
			}
		}
		if len(live) > 0 {
			p = pick(g.r, live)
			g.stats["withdraw_during_settlement"]++
		}
	}
	owner := g.c.AccID(p.ParticipantAddress)
	signer := owner
	dep := int64(-1)
	if g.chance(0.15) {
		signer = g.user()
		dep = owner
	}
	if g.chance(0.05) {
		signer = g.user() // stranger without naming a depositor
	}
	if signer < 0 || signer >= int64(len(g.c.Acc)) {
		signer = g.user() // nobody can sign for a subaccount address
	}
	underGrant := false
	if gl := g.liveGrants(2); len(gl) > 0 && g.chance(0.25) {
		// a delegated withdrawal under an existing grant: a participation of the granter, signed by the grantee
		gr := pick(g.r, gl)
		for _, q := range parts {
			if g.c.AccID(q.ParticipantAddress) == gr.granter && !q.IsSettled {
				p, owner, signer, dep, underGrant = q, gr.granter, gr.grantee, gr.granter, true
				g.stats["withdraw_under_grant"]++
				break
			}
		}
	}
	thirdParty := false
	if gl := g.liveGrants(2); len(gl) > 0 && !underGrant && g.chance(0.15) {
		// a third account, holding no grant itself, names a depositor whose withdraw grant belongs to somebody else (preferably the
		// account that made the deposit on the depositor's behalf): must be refused, and must not touch the other account's grant
		gr := pick(g.r, gl)
		// prefer a grant whose grantee made a deposit on the granter's behalf
		deps, _ := g.c.App.HouseKeeper.GetAllDeposits(ctx)
		byCreator := map[[2]string]bool{} // (market, participation index) of deposits made by a grantee for its granter
		for _, x := range gl {
			for _, d := range deps {
				if d.Creator == g.c.AddrOf(x.grantee) && d.DepositorAddress == g.c.AddrOf(x.granter) {
					byCreator[[2]string{d.MarketUID, fmt.Sprint(d.ParticipationIndex)}] = true
					gr = x
				}
			}
		}
		var cand *obtypes.OrderBookParticipation
		for i := range parts {
			q := &parts[i]
			if g.c.AccID(q.ParticipantAddress) == gr.granter && !q.IsSettled {
				if cand == nil || byCreator[[2]string{q.OrderBookUID, fmt.Sprint(q.Index)}] {
					cand = q
				}
			}
		}
		if cand != nil {
			b := g.user()
			if b != gr.granter && b != gr.grantee {
				p, owner, signer, dep, thirdParty = *cand, gr.granter, b, gr.granter, true
				g.stats["withdraw_third_party_names_granter"]++
			}
		}
	}
	mode := int64(1)
	amt := int64(0)
	if g.chance(0.6) || underGrant || thirdParty {
		mode = 2
		mx := p.CurrentRoundLiquidity.Int64()
		if !p.CurrentRoundMaxLoss.IsNegative() {
			mx -= p.CurrentRoundMaxLoss.Int64()
		}
		switch {
		case mx > 0 && g.chance(0.3):
			amt = mx // exactly the maximum
		case mx > 0 && g.chance(0.2):
			amt = mx + 1 // one too many
		case mx > 1:
			amt = 1 + g.r.Int63n(mx)
		default:
			amt = 1 + int64(g.r.Intn(50))
		}
		if (g.chance(0.3) || underGrant) && amt > 100 {
			amt = 1 + g.r.Int63n(100) // small enough for a withdraw grant
		}
		if (underGrant || thirdParty) && g.chance(0.7) {
			amt = 1 + g.r.Int63n(40) // consume the grant only partly
		}
	}
	if g.chance(0.02) {
		mode = 3
	}
	pidx := int64(p.Index)
	if g.chance(0.03) {
		pidx++
	}
	ky := g.kycFor(owner)
	return Op{Kind: "WDR", Signer: signer, Tk: g.ticket(), Mkt: uidNum(p.OrderBookUID), Pidx: pidx, Mode: mode, Amount: bi(amt), Ky: ky, Depositor: dep}
}

// boundaryAmount picks a wager amount whose payout profit lands on / next to the available
// liquidity of the head participation of the selected outcome's queue.
func (g *Gen) boundaryAmount(m *gMarket, sel int64, oddsVal, mult *big.Int) (int64, bool) {
	ctx := g.c.Ctx()
	boe, found := g.c.App.OrderbookKeeper.GetOrderBookOddsExposure(ctx, marketUID(m.uid), oddsUID(sel))
	if !found || len(boe.FulfillmentQueue) == 0 {
		return 0, false
	}
	idx := boe.FulfillmentQueue[0]
	if g.chance(0.3) {
		idx = pick(g.r, boe.FulfillmentQueue)
	}
	p, found := g.c.App.OrderbookKeeper.GetOrderBookParticipation(ctx, marketUID(m.uid), idx)
	if !found {
		return 0, false
	}
	pes, _ := g.c.App.OrderbookKeeper.GetExposureByOrderBookAndParticipationIndex(ctx, marketUID(m.uid), idx)
	exp := big.NewInt(0)
	for _, e := range pes {
		if e.OddsUID == oddsUID(sel) {
			exp = e.Exposure.BigInt()
		}
	}
	// avail = trunc(mult*crl - exp)
	av := new(big.Int).Mul(mult, p.CurrentRoundLiquidity.BigInt())
	av.Sub(av, new(big.Int).Mul(exp, prec))
	av.Quo(av, prec)
	if av.Sign() <= 0 {
		return 0, false
	}
	om1 := new(big.Int).Sub(oddsVal, prec)
	if om1.Sign() <= 0 {
		return 0, false
	}
	// stake ~ (avail + delta) / (odds-1)
	delta := int64(g.r.Intn(5)) - 2
	num := new(big.Int).Add(av, big.NewInt(delta))
	num.Mul(num, prec)
	stake := new(big.Int).Quo(num, om1)
	stake.Add(stake, big.NewInt(int64(g.r.Intn(3))-1))
	if g.chance(0.3) {
		stake.Mul(stake, big.NewInt(int64(2+g.r.Intn(2)))) // spill over several participations
	}
	if !stake.IsInt64() || stake.Int64() <= 0 {
		return 0, false
	}
	return stake.Int64() + g.c.Cfg.Bet.Constraints.Fee.Int64(), true
}

// spanAmount picks a wager whose payout profit equals (or is next to) the liquidity available in the first k
// participations of the selected outcome's queue, so that the bet is split over k partial fills.
func (g *Gen) spanAmount(m *gMarket, sel int64, oddsVal, mult *big.Int) (int64, bool) {
	ctx := g.c.Ctx()
	boe, found := g.c.App.OrderbookKeeper.GetOrderBookOddsExposure(ctx, marketUID(m.uid), oddsUID(sel))
	if !found || len(boe.FulfillmentQueue) == 0 {
		return 0, false
	}
	om1 := new(big.Int).Sub(oddsVal, prec)
	if om1.Sign() <= 0 {
		return 0, false
	}
	k := 1 + g.r.Intn(len(boe.FulfillmentQueue))
	tot := big.NewInt(0)
	for _, idx := range boe.FulfillmentQueue[:k] {
		p, found := g.c.App.OrderbookKeeper.GetOrderBookParticipation(ctx, marketUID(m.uid), idx)
		if !found {
			continue
		}
		pes, _ := g.c.App.OrderbookKeeper.GetExposureByOrderBookAndParticipationIndex(ctx, marketUID(m.uid), idx)
		exp := big.NewInt(0)
		for _, e := range pes {
			if e.OddsUID == oddsUID(sel) {
				exp = e.Exposure.BigInt()
			}
		}
		av := new(big.Int).Mul(mult, p.CurrentRoundLiquidity.BigInt())
		av.Sub(av, new(big.Int).Mul(exp, prec))
		av.Quo(av, prec)
		if av.Sign() > 0 {
			tot.Add(tot, av)
		}
	}
	if tot.Sign() <= 0 {
		return 0, false
	}
	num := new(big.Int).Mul(tot, prec)
	stake := new(big.Int).Quo(num, om1)
	if new(big.Int).Mod(num, om1).Sign() != 0 && g.chance(0.5) {
		stake.Add(stake, big.NewInt(1))
	}
	stake.Add(stake, big.NewInt(int64(pick(g.r, []int{0, 0, 0, -1, 1}))))
	if !stake.IsInt64() || stake.Int64() <= 0 {
		return 0, false
	}
	return stake.Int64() + g.c.Cfg.Bet.Constraints.Fee.Int64(), true
}

// bettable: active, not past its end, with at least one participation
func (g *Gen) bettableMarket() *gMarket {
	var l []*gMarket
	for _, m := range g.markets {
		if !m.resolved && m.status == 1 && m.end >= g.c.Time {
			if bk, ok := g.c.App.OrderbookKeeper.GetOrderBook(g.c.Ctx(), marketUID(m.uid)); ok && bk.ParticipationCount > 0 {
				l = append(l, m)
			}
		}
	}
	if len(l) == 0 {
		return nil
	}
	return pick(g.r, l)
}

func (g *Gen) genWager() Op {
	m := g.bettableMarket()
	if m == nil || g.chance(0.08) {
		m = g.anyMarket()
	}
	if m == nil {
		return g.genMarketAdd()
	}
	signer := g.user()
	sel := pick(g.r, m.odds)
	ov := g.oddsVal()
	mu := g.mult()
	var all []OddsMult
	for _, o := range m.odds {
		if o == sel && g.chance(0.7) {
			all = append(all, OddsMult{Odds: o, Mult: mu})
		} else {
			all = append(all, OddsMult{Odds: o, Mult: g.mult()})
		}
	}
	if g.chance(0.02) && len(all) > 1 {
		all = all[:len(all)-1] // missing one
	}
	if g.chance(0.02) {
		all = append(all, OddsMult{Odds: m.uid*10 + 8, Mult: decFromStr("1")}) // extra foreign odds
	}
	if g.chance(0.02) {
		all = append(all, all[0]) // duplicate entry (same uid): map collapses it
	}
	if g.chance(0.04) && len(all) > 1 {
		// same number of outcomes, but one that is NOT the selected one is replaced by a foreign uid: the list does not match the market
		j := g.r.Intn(len(all))
		if all[j].Odds == sel {
			j = (j + 1) % len(all)
		}
		all[j].Odds = m.uid*10 + 7
		g.stats["wager_foreign_outcome_same_count"]++
	}
	sc := g.scale()
	amt := sc + g.r.Int63n(sc*2+1)
	if g.chance(0.6) {
		if a, ok := g.boundaryAmount(m, sel, ov, mu); ok {
			amt = a
			g.stats["wager_boundary"]++
		}
	}
	if g.profile == "tiny" && g.chance(0.7) {
		if a, ok := g.spanAmount(m, sel, ov, mu); ok {
			amt = a
			g.stats["wager_span"]++
		}
	}
	if g.chance(0.025) {
		// exactly the whole spendable balance of the bettor (the boundary of "the bettor can pay it"); one token more must be refused
		if b := g.c.Bal(g.c.Acc[signer].Addr); b.IsInt64() && b.Int64() >= g.c.Cfg.Bet.Constraints.MinAmount.Int64() {
			amt = b.Int64()
			if g.chance(0.3) {
				amt++
			}
			g.stats["wager_whole_balance"]++
		}
	}
	if g.chance(0.03) {
		amt = g.c.Cfg.Bet.Constraints.MinAmount.Int64() - 1
	}
	if g.chance(0.03) {
		amt = g.c.Cfg.Bet.Constraints.MinAmount.Int64()
	}
	uid := g.nextBet
	if g.chance(0.04) && len(g.usedBets) > 0 {
		uid = pick(g.r, g.usedBets) // replayed id
	} else {
		g.nextBet++
	}
	selm := m.uid
	if g.chance(0.02) {
		selm = 9999
	}
	if g.chance(0.02) {
		sel = m.uid*10 + 9
	}
	ot := int64(1)
	if g.chance(0.05) {
		ot = pick(g.r, []int64{0, 2, 3, 3, 4, 4, 5}) // the accepted odds types are 0..3
	}
	return Op{Kind: "WAG", Signer: signer, Tk: g.ticket(), BetUID: uid, Amount: bi(amt), SelMkt: selm, SelOdds: sel,
		OddsVal: ov, Mult: mu, Ky: g.kycFor(signer), OddsType: ot, AllOdds: all}
}

type gGrant struct {
	granter, grantee int64
	limit            *big.Int
}

// liveGrants lists the house grants of the given kind (1 deposit, 2 withdraw) that exist in the authz store
func (g *Gen) liveGrants(kind int64) []gGrant {
	var l []gGrant
	for _, ln := range g.c.grantLines() {
		if ln.kind == kind {
			l = append(l, gGrant{granter: ln.granter, grantee: ln.grantee, limit: ln.limit})
		}
	}
	return l
}

func (g *Gen) genGrant() Op {
	granter, grantee := g.user(), g.user()
	kind := int64(1 + g.r.Intn(2))
	var limit int64
	if kind == 1 {
		sc := g.scale()
		limit = pick(g.r, []int64{100, sc, sc * 3, sc * 10, 99})
	} else {
		limit = pick(g.r, []int64{100, 50, 1, 7, 101})
	}
	exp := int64(-1)
	if g.chance(0.6) {
		exp = g.c.Time + int64(g.r.Intn(60))
	}
	if kind == 1 && g.chance(0.4) {
		// the same pair also gets a withdraw grant: the grantee can then deposit and withdraw for the granter, and third parties
		// naming the granter meet a deposit whose creator holds a grant they do not have
		g.pending = append(g.pending, Op{Kind: "GRANT", Granter: granter, Grantee: grantee, GKind: 2, Limit: bi(pick(g.r, []int64{100, 50, 101})), Exp: exp})
	}
	return Op{Kind: "GRANT", Granter: granter, Grantee: grantee, GKind: kind, Limit: bi(limit), Exp: exp}
}

func (g *Gen) genSend() Op {
	to := g.user()
	if g.chance(0.08) {
		to = -int64(1 + g.r.Intn(5)) // a module account: blocked recipient, the send must fail
	}
	return Op{Kind: "SEND", From: g.user(), To: to, Amount: bi(1 + g.r.Int63n(g.scale()))}
}

// ---- subaccount ops ---------------------------------------------------------------------------
func (g *Gen) locks() [][2]*big.Int {
	n := 1 + g.r.Intn(3)
	var l [][2]*big.Int
	for i := 0; i < n; i++ {
		ts := g.c.Time + int64(pick(g.r, []int{0, 1, 5, 30, 200, 2000}))
		if g.chance(0.03) {
			ts = g.c.Time - 1 // already expired: rejected
		}
		if g.chance(0.02) {
			ts = 0
		}
		if g.chance(0.05) && len(l) > 0 {
			ts = l[0][0].Int64() // duplicate unlock time inside one message
		}
		l = append(l, [2]*big.Int{bi(ts), bi(g.r.Int63n(g.scale()*3 + 1))})
	}
	return l
}

func (g *Gen) subOwners() []int64 {
	var l []int64
	for _, sa := range g.c.App.SubaccountKeeper.GetAllSubaccounts(g.c.Ctx()) {
		l = append(l, g.c.AccID(sa.Owner))
	}
	return l
}

func (g *Gen) subOwner() int64 {
	l := g.subOwners()
	if len(l) == 0 || g.chance(0.05) {
		return g.user()
	}
	return pick(g.r, l)
}

func (g *Gen) genSubCreate() Op {
	c := g.user()
	o := c
	if g.chance(0.4) {
		o = g.user()
	}
	return Op{Kind: "SCRE", Signer: c, Owner: o, Locks: g.locks()}
}

func (g *Gen) genSubTopUp() Op {
	o := Op{Kind: "STOP", Signer: g.user(), Owner: g.subOwner(), Locks: g.locks()}
	// a top-up naming an unlock time the subaccount already has an entry for (refused: ErrLockedBalanceExists) - the time locks of
	// the earlier tranches must not move (C11)
	if o.Owner >= 0 && o.Owner < int64(len(g.c.Acc)) && g.chance(0.25) {
		ctx := g.c.Ctx()
		if sa, ok := g.c.App.SubaccountKeeper.GetSubaccountByOwner(ctx, g.c.Acc[o.Owner].Addr); ok {
			lbs, _ := g.c.App.SubaccountKeeper.GetBalances(ctx, sa, 0)
			if len(lbs) > 0 && len(o.Locks) > 0 {
				lb := pick(g.r, lbs)
				if int64(lb.UnlockTS) >= g.c.Time {
					o.Locks[0][0] = bi(int64(lb.UnlockTS))
					g.stats["topup_existing_unlock_time"]++
				}
			}
		}
	}
	return o
}

func (g *Gen) genSubWithdraw() Op { return Op{Kind: "SWDU", Signer: g.subOwner()} }

func (g *Gen) genSubWager() Op {
	if len(g.subOwners()) == 0 && g.chance(0.8) {
		return g.genSubCreate() // nobody has a subaccount yet: a wager through one could only be refused
	}
	o := g.genWager()
	if o.Kind != "WAG" {
		return o
	}
	o.Kind = "SWAG"
	replay := false
	if g.chance(0.12) && len(g.usedBets) > 0 {
		o.BetUID = pick(g.r, g.usedBets) // the id of an accepted bet, replayed through the subaccount message
		g.stats["swag_replayed_uid"]++
		replay = true // everything else about this wager is kept valid: the id is the only reason to refuse it
	}
	o.Signer = g.subOwner()
	o.Ky = g.kycFor(o.Signer)
	o.Inner = o.Signer
	if g.chance(0.03) && !replay {
		o.Inner = g.user()
	}
	o.Tk2 = o.Tk
	o.Tk = g.ticket()
	if replay {
		lt := Ticket{Signer: int64(g.c.LeaderKey()), Exp: g.c.Time + 4000}
		o.Tk, o.Tk2 = lt, lt
		o.Ky = Kyc{Ignore: false, Approved: true, ID: o.Signer}
	}
	if g.chance(0.03) && !replay {
		o.Tk2 = g.badTicket()
	}
	sub := new(big.Int).Set(o.Amount)
	switch g.r.Intn(4) {
	case 0:
		sub = big.NewInt(0)
	case 1:
		sub = new(big.Int).Rand(g.r, new(big.Int).Add(o.Amount, big.NewInt(1)))
	}
	if o.Signer >= 0 && int(o.Signer) < len(g.c.Acc) && g.chance(0.8) {
		// mostly keep the subaccount's part within what it can pay (the main account pays the rest): otherwise nearly every wager through
		// a subaccount is refused for lack of funds and the accepted path is hardly exercised
		ctx := g.c.Ctx()
		if sa, ok := g.c.App.SubaccountKeeper.GetSubaccountByOwner(ctx, g.c.Acc[o.Signer].Addr); ok {
			if sum, ok2 := g.c.App.SubaccountKeeper.GetAccountSummary(ctx, sa); ok2 {
				can := sum.Available()
				if b := g.c.Bal(sa); b.LT(can) {
					can = b
				}
				if can.IsInt64() && !can.IsNegative() && can.BigInt().Cmp(sub) < 0 {
					sub = can.BigInt()
					g.stats["swag_sub_part_capped"]++
				}
			}
		}
	}
	o.SubDed = sub
	o.MainDed = new(big.Int).Sub(o.Amount, sub)
	if g.chance(0.04) && o.Signer >= 0 && int(o.Signer) < len(g.c.Acc) {
		// the main account pays exactly its whole balance (boundary of "can pay it"), the subaccount the rest; sometimes one token more
		if b := g.c.Bal(g.c.Acc[o.Signer].Addr); b.IsInt64() && b.Int64() > 0 && b.BigInt().Cmp(o.Amount) < 0 {
			o.MainDed = b.BigInt()
			if g.chance(0.3) {
				o.MainDed = new(big.Int).Add(o.MainDed, big.NewInt(1))
			}
			o.SubDed = new(big.Int).Sub(o.Amount, o.MainDed)
			g.stats["swag_main_whole_balance"]++
		}
	}
	if replay {
		return o
	}
	if g.chance(0.04) && o.Amount.Sign() > 0 {
		// a negative main-account part: the subaccount would pay more than the bet costs and the difference would land, free, in the
		// owner's account (the two parts still add up to the bet amount)
		extra := big.NewInt(1 + g.r.Int63n(1+o.Amount.Int64()/2))
		o.MainDed = new(big.Int).Neg(extra)
		o.SubDed = new(big.Int).Add(o.Amount, extra)
		g.stats["swag_negative_main_part"]++
	}
	if g.chance(0.03) {
		o.MainDed.Add(o.MainDed, big.NewInt(1)) // does not add up
	}
	return o
}

func (g *Gen) genSubHouseDeposit() Op {
	if len(g.subOwners()) == 0 && g.chance(0.8) {
		return g.genSubCreate()
	}
	o := g.genDeposit()
	if o.Kind != "DEP" {
		return o
	}
	o.Kind = "SDEP"
	o.Signer = g.subOwner()
	o.Ky = g.kycFor(o.Signer)
	// size the deposit to what the subaccount can spend, so that subaccount-owned participations exist (and are later
	// withdrawn from several times)
	if o.Signer >= 0 && o.Signer < int64(len(g.c.Acc)) && g.chance(0.8) {
		ctx := g.c.Ctx()
		if sa, ok := g.c.App.SubaccountKeeper.GetSubaccountByOwner(ctx, g.c.Acc[o.Signer].Addr); ok {
			if sum, ok2 := g.c.App.SubaccountKeeper.GetAccountSummary(ctx, sa); ok2 {
				av := sum.Available()
				min := g.c.Cfg.House.MinDeposit
				if av.IsInt64() && av.GT(min) {
					span := av.Int64() - min.Int64()
					o.Amount = bi(min.Int64() + g.r.Int63n(span+1))
					if g.chance(0.5) && span > 40 {
						o.Amount = bi(min.Int64() + g.r.Int63n(span/4+1))
					}
					g.stats["sdep_sized"]++
				}
			}
		}
	}
	if g.chance(0.9) {
		o.Depositor = -1
	}
	return o
}

func (g *Gen) genSubHouseWithdraw() Op {
	o := g.genWithdraw()
	if o.Kind != "WDR" {
		return o
	}
	// prefer participations owned by a subaccount; amount and mode are then drawn for THAT participation, mostly small
	// partial amounts so that the same participation is withdrawn from again and again (withdrawal count, C09)
	ctx := g.c.Ctx()
	parts, _ := g.c.App.OrderbookKeeper.GetAllOrderBookParticipations(ctx)
	for _, p := range parts {
		if id := g.c.AccID(p.ParticipantAddress); id > 1000 && !p.IsSettled && g.chance(0.7) {
			o.Mkt, o.Pidx = uidNum(p.OrderBookUID), int64(p.Index)
			if ow, ok := g.c.App.SubaccountKeeper.GetSubaccountOwner(ctx, sdkAcc(p.ParticipantAddress)); ok {
				o.Signer = g.c.AccID(ow.String())
			}
			mx := p.CurrentRoundLiquidity.Int64()
			if !p.CurrentRoundMaxLoss.IsNegative() {
				mx -= p.CurrentRoundMaxLoss.Int64()
			}
			switch {
			case mx > 1 && g.chance(0.75):
				lim := mx
				if lim > 6 {
					lim = 6
				}
				o.Mode, o.Amount = 2, bi(1+g.r.Int63n(lim))
				g.stats["swdr_small_partial"]++
			case mx > 0 && g.chance(0.5):
				o.Mode, o.Amount = 2, bi(mx)
			default:
				o.Mode, o.Amount = 1, bi(0)
			}
			break
		}
	}
	o.Kind = "SWDR"
	if o.Signer < 0 {
		o.Signer = g.subOwner()
	}
	o.Ky = g.kycFor(o.Signer)
	if g.chance(0.9) {
		o.Depositor = -1
	}
	return o
}

// ---- ovm ops ------------------------------------------------------------------------------------
func (g *Gen) vault() []int64 {
	kv, _ := g.c.App.OVMKeeper.GetKeyVault(g.c.Ctx())
	var l []int64
	for _, k := range kv.PublicKeys {
		l = append(l, g.c.keyID(k))
	}
	return l
}

func (g *Gen) genPropose() Op {
	v := g.vault()
	n := 4 + g.r.Intn(2)
	perm := g.r.Perm(NKeyUniverse)
	var keys []int64
	for i := 0; i < n; i++ {
		keys = append(keys, int64(perm[i]))
	}
	switch {
	case g.chance(0.04):
		keys = keys[:3]
	case g.chance(0.04):
		keys = append(keys, int64(perm[n]), int64(perm[n+1]))
	case g.chance(0.06):
		keys = append(keys, keys[0]) // duplicate: removed by the handler
	case g.chance(0.10):
		// the same key once more with different white space around its PEM text: still a duplicate
		j := g.r.Intn(len(keys))
		keys = append(keys, keys[j]+int64(100*(1+g.r.Intn(2))))
	case g.chance(0.05):
		j := g.r.Intn(len(keys))
		keys[(j+1)%len(keys)] = keys[j] + 100 // 4 or 5 entries, one key twice in two spellings
	case g.chance(0.03):
		keys[1] = -1 // not a key
	}
	li := int64(g.r.Intn(len(keys)))
	if g.chance(0.04) {
		li = int64(len(keys))
	}
	tk := Ticket{Signer: pick(g.r, v), Exp: g.c.Time + int64(1+g.r.Intn(500))}
	if g.chance(0.06) {
		tk = g.badTicket()
	}
	if g.chance(0.04) {
		tk.Signer = int64(perm[NKeyUniverse-1]) // maybe unregistered
	}
	return Op{Kind: "PROP", Signer: g.user(), Tk: tk, Keys: keys, LeaderIdx: li}
}

func (g *Gen) genVote() Op {
	v := g.vault()
	props, _ := g.c.App.OVMKeeper.GetAllPubkeysChangeProposalsByStatus(g.c.Ctx(), 1)
	pid := int64(1 + g.r.Intn(3))
	if len(props) > 0 && g.chance(0.92) {
		pid = int64(pick(g.r, props).Id)
	}
	vi := int64(g.r.Intn(len(v)))
	tk := Ticket{Signer: v[vi], Exp: g.c.Time + int64(1+g.r.Intn(500))}
	if g.chance(0.05) {
		tk.Signer = v[(int(vi)+1)%len(v)] // signed by another registered key
	}
	if g.chance(0.04) {
		tk = g.badTicket()
	}
	if g.chance(0.03) {
		vi = int64(len(v))
	}
	vote := int64(2)
	if g.chance(0.25) {
		vote = 1
	}
	if g.chance(0.03) {
		vote = 0
	}
	// steer towards full turn-outs just below two thirds (3 yes / 2 no of five keys, 2 / 2 of four): every key votes, the proposal
	// must stay undecided; a key that has not voted yet is chosen and the split kept at the edge
	if g.chance(0.35) {
		for _, p := range props {
			if int64(p.Id) != pid {
				continue
			}
			yes, no := 0, 0
			voted := map[string]bool{}
			for _, x := range p.Votes {
				voted[x.PublicKey] = true
				if x.Vote == 2 {
					yes++
				} else {
					no++
				}
			}
			for i, k := range v {
				if !voted[g.c.Keys[k%100].PEM] && !voted[strings.TrimSpace(g.c.Keys[k%100].PEM)] {
					vi = int64(i)
					tk = Ticket{Signer: k, Exp: g.c.Time + int64(1+g.r.Intn(500))}
					break
				}
			}
			edge := (2*len(v)+2)/3 - 1 // yes votes that are one short of two thirds
			if yes >= edge {
				vote = 1
			} else if no >= len(v)-edge {
				vote = 2
			}
			g.stats["vote_steered_to_edge"]++
		}
	}
	return Op{Kind: "VOTE", Signer: g.user(), Tk: tk, VoterIdx: vi, PropID: pid, Vote: vote}
}

// longShot scripts the situation in which a backing part has stake 0 but a positive payout: a new market, a minimal deposit at the head
// of the queue, a large one behind it, and a bet at odds so long that the head's whole offer is worth less than half a token of stake;
// then (sometimes) the small depositor withdraws everything, and the market is resolved, mostly with the long shot winning.
func (g *Gen) longShot() (Op, bool) {
	cfg := g.c.Cfg
	minDep := cfg.House.MinDeposit.Int64()
	fee := cfg.House.HouseParticipationFee.MulInt64(minDep).RoundInt64()
	liq := minDep - fee
	minBet := cfg.Bet.Constraints.MinAmount.Int64()
	stake := minBet - cfg.Bet.Constraints.Fee.Int64()
	if liq <= 0 || liq > 2000 || stake <= 0 || minBet > 200000 || cfg.Orderbook.MaxOrderBookParticipations < 2 {
		return Op{}, false
	}
	oddsInt := 2*liq + 3 + int64(g.r.Intn(40)) // (odds - 1) / 2 > liq: the head's stake share rounds to 0
	big2 := (stake*oddsInt + 1000) * 3
	if big2 > cfg.Balance/2 {
		return Op{}, false
	}
	uid := g.nextMkt
	g.nextMkt++
	n := 2 + g.r.Intn(2)
	var odds []int64
	for i := 0; i < n; i++ {
		odds = append(odds, uid*10+int64(i))
	}
	sel := odds[g.r.Intn(n)]
	a, b, c := g.user(), g.user(), g.user()
	lt := func() Ticket { return Ticket{Signer: int64(g.c.LeaderKey()), Exp: g.c.Time + 4000} }
	ky := func(x int64) Kyc { return Kyc{Ignore: false, Approved: true, ID: x} }
	var all []OddsMult
	for _, o := range odds {
		all = append(all, OddsMult{Odds: o, Mult: decFromStr("1")})
	}
	ov := new(big.Int).Mul(big.NewInt(oddsInt), decFromStr("1"))
	seq := []Op{
		{Kind: "DEP", Signer: a, Tk: lt(), Mkt: uid, Amount: bi(minDep), Ky: ky(a), Depositor: -1},
		{Kind: "DEP", Signer: b, Tk: lt(), Mkt: uid, Amount: bi(big2), Ky: ky(b), Depositor: -1},
		{Kind: "WAG", Signer: c, Tk: lt(), BetUID: g.nextBet, Amount: bi(minBet), SelMkt: uid, SelOdds: sel, OddsVal: ov,
			Mult: decFromStr("1"), Ky: ky(c), OddsType: 1, AllOdds: all},
	}
	g.nextBet++
	if g.chance(0.5) {
		seq = append(seq, Op{Kind: "WDR", Signer: a, Tk: lt(), Mkt: uid, Pidx: 1, Mode: 1, Amount: bi(0), Ky: ky(a), Depositor: -1})
	}
	if g.chance(0.85) {
		w := sel
		if g.chance(0.25) {
			w = odds[(g.r.Intn(n))]
		}
		seq = append(seq, Op{Kind: "MRES", Signer: g.user(), Tk: lt(), UID: uid, Rts: g.c.Time, Status: 5, Winners: []int64{w}})
	}
	g.pending = append(g.pending, seq...)
	g.stats["long_shot_script"]++
	return Op{Kind: "MADD", Signer: g.user(), Tk: lt(), UID: uid, Start: g.c.Time - 5, End: g.c.Time + 60000, Status: 1, Odds: odds}, true
}

// grantTriangle: a depositor D gives account A both a deposit and a withdraw grant, A deposits on D's behalf into a fresh market, then
// a third account B (no grant) and A itself withdraw naming D.  B must be refused and A's grant must be the one that is debited.
func (g *Gen) grantTriangle() (Op, bool) {
	cfg := g.c.Cfg
	minDep := cfg.House.MinDeposit.Int64()
	fee := cfg.House.HouseParticipationFee.MulInt64(minDep).RoundInt64()
	liq := minDep - fee
	if liq < 2 || minDep > cfg.Balance/4 || len(g.c.Acc) < 3 || cfg.House.MaxWithdrawalCount < 2 {
		return Op{}, false
	}
	d, a, b := g.user(), g.user(), g.user()
	if d == a || d == b || a == b {
		return Op{}, false
	}
	uid := g.nextMkt
	g.nextMkt++
	odds := []int64{uid * 10, uid*10 + 1}
	lt := func() Ticket { return Ticket{Signer: int64(g.c.LeaderKey()), Exp: g.c.Time + 4000} }
	ky := func(x int64) Kyc { return Kyc{Ignore: false, Approved: true, ID: x} }
	small := func() *big.Int {
		m := liq
		if m > 40 {
			m = 40
		}
		return bi(1 + g.r.Int63n(m))
	}
	seq := []Op{
		{Kind: "GRANT", Granter: d, Grantee: a, GKind: 1, Limit: bi(minDep * 3), Exp: -1},
		{Kind: "GRANT", Granter: d, Grantee: a, GKind: 2, Limit: bi(100), Exp: -1},
		{Kind: "DEP", Signer: a, Tk: lt(), Mkt: uid, Amount: bi(minDep), Ky: ky(d), Depositor: d},
		{Kind: "WDR", Signer: b, Tk: lt(), Mkt: uid, Pidx: 1, Mode: 2, Amount: small(), Ky: ky(d), Depositor: d},
		{Kind: "WDR", Signer: a, Tk: lt(), Mkt: uid, Pidx: 1, Mode: 2, Amount: small(), Ky: ky(d), Depositor: d},
	}
	g.pending = append(g.pending, seq...)
	g.stats["grant_triangle_script"]++
	return Op{Kind: "MADD", Signer: g.user(), Tk: lt(), UID: uid, Start: g.c.Time - 5, End: g.c.Time + 60000, Status: 1, Odds: odds}, true
}

// subHouseWins: a subaccount puts EVERYTHING it can spend into a house deposit on a fresh market, a bettor loses against it, the result
// is declared: at settlement the house profit is forwarded from the subaccount to its owner while the subaccount holds nothing but what
// the settlement itself returns (the order of payments and hooks matters), and the ledger must come out exact (C05, C11, C04).
func (g *Gen) subHouseWins() (Op, bool) {
	cfg := g.c.Cfg
	owners := g.subOwners()
	if len(owners) == 0 || !cfg.Subaccount.DepositEnabled {
		return Op{}, false
	}
	o := pick(g.r, owners)
	if o < 0 || o >= int64(len(g.c.Acc)) {
		return Op{}, false
	}
	ctx := g.c.Ctx()
	sa, ok := g.c.App.SubaccountKeeper.GetSubaccountByOwner(ctx, g.c.Acc[o].Addr)
	if !ok {
		return Op{}, false
	}
	sum, ok := g.c.App.SubaccountKeeper.GetAccountSummary(ctx, sa)
	if !ok {
		return Op{}, false
	}
	av := sum.Available()
	minDep := cfg.House.MinDeposit.Int64()
	minBet := cfg.Bet.Constraints.MinAmount.Int64()
	if !av.IsInt64() || av.Int64() < minDep || av.Int64() < 4*minBet || minBet > cfg.Balance/8 {
		return Op{}, false
	}
	amt := av.Int64() // everything
	uid := g.nextMkt
	g.nextMkt++
	odds := []int64{uid * 10, uid*10 + 1}
	lt := func() Ticket { return Ticket{Signer: int64(g.c.LeaderKey()), Exp: g.c.Time + 4000} }
	ky := func(x int64) Kyc { return Kyc{Ignore: false, Approved: true, ID: x} }
	b := g.user()
	var all []OddsMult
	for _, od := range odds {
		all = append(all, OddsMult{Odds: od, Mult: decFromStr("1")})
	}
	ov := new(big.Int).Mul(big.NewInt(2), decFromStr("1")) // odds 2: the promised winnings equal the stake
	stake := minBet
	if g.chance(0.5) && av.Int64() > 8*minBet {
		stake = minBet + g.r.Int63n(av.Int64()/4-minBet+1)
	}
	seq := []Op{
		{Kind: "SDEP", Signer: o, Tk: lt(), Mkt: uid, Amount: bi(amt), Ky: ky(o), Depositor: -1},
		{Kind: "WAG", Signer: b, Tk: lt(), BetUID: g.nextBet, Amount: bi(stake), SelMkt: uid, SelOdds: odds[0], OddsVal: ov,
			Mult: decFromStr("1"), Ky: ky(b), OddsType: 1, AllOdds: all},
		{Kind: "MRES", Signer: g.user(), Tk: lt(), UID: uid, Rts: g.c.Time, Status: 5, Winners: []int64{odds[1]}},
	}
	g.nextBet++
	g.pending = append(g.pending, seq...)
	g.stats["sub_house_wins_script"]++
	return Op{Kind: "MADD", Signer: g.user(), Tk: lt(), UID: uid, Start: g.c.Time - 5, End: g.c.Time + 60000, Status: 1, Odds: odds}, true
}

// withdrawInWindow: one house backs bets on both outcomes of a fresh market, more of them than one block settles; the result is
// declared, and in each of the following blocks - while lost bets are already settled and the winning one (placed last) or the order
// book is not yet - the house asks for everything it may withdraw: what the settlement of a bet releases must not become withdrawable
// while the participation still owes winnings (C09, C02, C05).
func (g *Gen) withdrawInWindow() (Op, bool) {
	cfg := g.c.Cfg
	minDep := cfg.House.MinDeposit.Int64()
	minBet := cfg.Bet.Constraints.MinAmount.Int64()
	batch := int64(cfg.Bet.BatchSettlementCount)
	if minBet <= 0 || minBet > cfg.Balance/64 || batch > 6 {
		return Op{}, false
	}
	dep := 40 * minBet
	if dep < minDep {
		dep = minDep
	}
	if dep > cfg.Balance/2 {
		return Op{}, false
	}
	uid := g.nextMkt
	g.nextMkt++
	odds := []int64{uid * 10, uid*10 + 1}
	lt := func() Ticket { return Ticket{Signer: int64(g.c.LeaderKey()), Exp: g.c.Time + 4000} }
	ky := func(x int64) Kyc { return Kyc{Ignore: false, Approved: true, ID: x} }
	h := g.user()
	var all []OddsMult
	for _, od := range odds {
		all = append(all, OddsMult{Odds: od, Mult: decFromStr("1")})
	}
	wag := func(sel int64, ov string, stake int64) Op {
		b := g.user()
		o := Op{Kind: "WAG", Signer: b, Tk: lt(), BetUID: g.nextBet, Amount: bi(stake), SelMkt: uid, SelOdds: sel, OddsVal: decFromStr(ov),
			Mult: decFromStr("1"), Ky: ky(b), OddsType: 1, AllOdds: all}
		g.nextBet++
		return o
	}
	seq := []Op{{Kind: "DEP", Signer: h, Tk: lt(), Mkt: uid, Amount: bi(dep), Ky: ky(h), Depositor: -1}}
	for i := int64(0); i < batch+int64(g.r.Intn(2)); i++ { // the losing bets first: they are settled first
		seq = append(seq, wag(odds[1], "2", minBet+int64(g.r.Intn(3))))
	}
	seq = append(seq, wag(odds[0], "3", 2*minBet+int64(g.r.Intn(5)))) // the winner, settled last
	seq = append(seq, Op{Kind: "MRES", Signer: g.user(), Tk: lt(), UID: uid, Rts: g.c.Time, Status: 5, Winners: []int64{odds[0]}})
	g.pending = append(g.pending, seq...)
	g.deferred = append(g.deferred, deferredWdr{mkt: uid, owner: h, left: 2})
	g.stats["withdraw_in_window_script"]++
	return Op{Kind: "MADD", Signer: g.user(), Tk: lt(), UID: uid, Start: g.c.Time - 5, End: g.c.Time + 60000, Status: 1, Odds: odds}, true
}

// withdrawAfterPayout: more houses deposit on a fresh market than one block pays out; the market is resolved, and in each of the
// following blocks - while the book is being paid batch by batch - the house paid first asks for a full withdrawal again: a depositor
// that has been paid must not get anything more, whatever the state of the rest of the book (C01, C04, C09).
func (g *Gen) withdrawAfterPayout() (Op, bool) {
	cfg := g.c.Cfg
	minDep := cfg.House.MinDeposit.Int64()
	batch := int64(cfg.Orderbook.BatchSettlementCount)
	if batch > 5 || minDep <= 0 || minDep > cfg.Balance/16 || int64(len(g.c.Acc)) < 3 {
		return Op{}, false
	}
	uid := g.nextMkt
	g.nextMkt++
	odds := []int64{uid * 10, uid*10 + 1}
	lt := func() Ticket { return Ticket{Signer: int64(g.c.LeaderKey()), Exp: g.c.Time + 4000} }
	ky := func(x int64) Kyc { return Kyc{Ignore: false, Approved: true, ID: x} }
	var seq []Op
	first := int64(-1)
	for i := int64(0); i < batch+1+int64(g.r.Intn(2)); i++ {
		h := g.user()
		if first < 0 {
			first = h
		}
		seq = append(seq, Op{Kind: "DEP", Signer: h, Tk: lt(), Mkt: uid, Amount: bi(minDep + g.r.Int63n(minDep+1)), Ky: ky(h), Depositor: -1})
	}
	st := []int64{3, 4, 5}[g.r.Intn(3)]
	res := Op{Kind: "MRES", Signer: g.user(), Tk: lt(), UID: uid, Rts: g.c.Time, Status: st}
	if st == 5 {
		res.Winners = []int64{odds[0]}
	}
	seq = append(seq, res)
	g.pending = append(g.pending, seq...)
	g.deferred = append(g.deferred, deferredWdr{mkt: uid, owner: first, left: 3})
	g.stats["withdraw_after_payout_script"]++
	return Op{Kind: "MADD", Signer: g.user(), Tk: lt(), UID: uid, Start: g.c.Time - 5, End: g.c.Time + 60000, Status: 1, Odds: odds}, true
}

// betFeeFlip: a bet is accepted under one wager fee, the bet module's parameters are updated to another accepted fee, and only then is
// the market resolved (cancelled, aborted or declared): what a bet is refunded or charged at settlement is the fee it paid, whatever the
// parameters say by then (C17 with C01, C03, C05).  The old fee comes back a few transactions later.
func (g *Gen) betFeeFlip() (Op, bool) {
	cfg := g.c.Cfg
	ctx := g.c.Ctx()
	bp := g.c.App.BetKeeper.GetParams(ctx)
	minDep := cfg.House.MinDeposit.Int64()
	minBet := bp.Constraints.MinAmount.Int64()
	fee := bp.Constraints.Fee.Int64()
	if minBet < 2 || minBet > cfg.Balance/64 || minDep > cfg.Balance/4 {
		return Op{}, false
	}
	dep := 40 * minBet
	if dep < minDep {
		dep = minDep
	}
	if dep > cfg.Balance/2 {
		return Op{}, false
	}
	uid := g.nextMkt
	g.nextMkt++
	odds := []int64{uid * 10, uid*10 + 1}
	lt := func() Ticket { return Ticket{Signer: int64(g.c.LeaderKey()), Exp: g.c.Time + 4000} }
	ky := func(x int64) Kyc { return Kyc{Ignore: false, Approved: true, ID: x} }
	h, b := g.user(), g.user()
	var all []OddsMult
	for _, od := range odds {
		all = append(all, OddsMult{Odds: od, Mult: decFromStr("1")})
	}
	var nf int64
	switch g.r.Intn(3) {
	case 0:
		nf = 0
	case 1:
		nf = minBet - 1
	default:
		nf = g.r.Int63n(minBet)
	}
	if nf == fee {
		nf = (fee + 1) % minBet
	}
	seq := []Op{
		{Kind: "DEP", Signer: h, Tk: lt(), Mkt: uid, Amount: bi(dep), Ky: ky(h), Depositor: -1},
		{Kind: "WAG", Signer: b, Tk: lt(), BetUID: g.nextBet, Amount: bi(minBet + int64(g.r.Intn(3))), SelMkt: uid, SelOdds: odds[0], OddsVal: decFromStr("2"),
			Mult: decFromStr("1"), Ky: ky(b), OddsType: 1, AllOdds: all},
		{Kind: "BFEE", Amount: bi(nf)},
	}
	g.nextBet++
	st := []int64{3, 4, 5}[g.r.Intn(3)]
	res := Op{Kind: "MRES", Signer: g.user(), Tk: lt(), UID: uid, Rts: g.c.Time, Status: st}
	if st == 5 {
		res.Winners = []int64{odds[g.r.Intn(2)]}
	}
	seq = append(seq, res)
	g.pending = append(g.pending, seq...)
	g.feeBack = append(g.feeBack, fee)
	g.stats["bet_fee_flip_script"]++
	return Op{Kind: "MADD", Signer: g.user(), Tk: lt(), UID: uid, Start: g.c.Time - 5, End: g.c.Time + 60000, Status: 1, Odds: odds}, true
}

// subParamFlip: a subaccount deposits as a house on a fresh market, then the subaccount module's parameters are updated (an endpoint is
// switched off) BEFORE the market is resolved and the participation settled: settlement, refunds and the ledger bookkeeping of what was
// accepted under the old parameters must not depend on the new ones (C17: the ledgers stay sound under every accepted parameter history).
func (g *Gen) subParamFlip() (Op, bool) {
	cfg := g.c.Cfg
	owners := g.subOwners()
	ctx := g.c.Ctx()
	if len(owners) == 0 || !g.c.App.SubaccountKeeper.GetParams(ctx).DepositEnabled {
		return Op{}, false
	}
	o := pick(g.r, owners)
	if o < 0 || o >= int64(len(g.c.Acc)) {
		return Op{}, false
	}
	sa, ok := g.c.App.SubaccountKeeper.GetSubaccountByOwner(ctx, g.c.Acc[o].Addr)
	if !ok {
		return Op{}, false
	}
	sum, ok := g.c.App.SubaccountKeeper.GetAccountSummary(ctx, sa)
	if !ok {
		return Op{}, false
	}
	av := sum.Available()
	minDep := cfg.House.MinDeposit.Int64()
	minBet := cfg.Bet.Constraints.MinAmount.Int64()
	if !av.IsInt64() || av.Int64() < minDep || minDep <= 0 {
		return Op{}, false
	}
	amt := minDep + g.r.Int63n(av.Int64()-minDep+1)
	uid := g.nextMkt
	g.nextMkt++
	odds := []int64{uid * 10, uid*10 + 1}
	lt := func() Ticket { return Ticket{Signer: int64(g.c.LeaderKey()), Exp: g.c.Time + 4000} }
	ky := func(x int64) Kyc { return Kyc{Ignore: false, Approved: true, ID: x} }
	seq := []Op{{Kind: "SDEP", Signer: o, Tk: lt(), Mkt: uid, Amount: bi(amt), Ky: ky(o), Depositor: -1}}
	if g.chance(0.5) && minBet <= cfg.Balance/8 && amt >= 4*minBet {
		b := g.user()
		var all []OddsMult
		for _, od := range odds {
			all = append(all, OddsMult{Odds: od, Mult: decFromStr("1")})
		}
		seq = append(seq, Op{Kind: "WAG", Signer: b, Tk: lt(), BetUID: g.nextBet, Amount: bi(minBet), SelMkt: uid, SelOdds: odds[0],
			OddsVal: new(big.Int).Mul(big.NewInt(2), decFromStr("1")), Mult: decFromStr("1"), Ky: ky(b), OddsType: 1, AllOdds: all})
		g.nextBet++
	}
	w := int64(1)
	if g.chance(0.3) {
		w = 0
	}
	seq = append(seq, Op{Kind: "SPRM", Status: w, Mode: 0})
	switch g.r.Intn(3) {
	case 0:
		seq = append(seq, Op{Kind: "MRES", Signer: g.user(), Tk: lt(), UID: uid, Rts: g.c.Time, Status: 5, Winners: []int64{odds[g.r.Intn(2)]}})
	case 1:
		seq = append(seq, Op{Kind: "MRES", Signer: g.user(), Tk: lt(), UID: uid, Rts: g.c.Time, Status: 3})
	default:
		seq = append(seq, Op{Kind: "MRES", Signer: g.user(), Tk: lt(), UID: uid, Rts: g.c.Time, Status: 4})
	}
	g.pending = append(g.pending, seq...)
	g.stats["sub_param_flip_script"]++
	return Op{Kind: "MADD", Signer: g.user(), Tk: lt(), UID: uid, Start: g.c.Time - 5, End: g.c.Time + 60000, Status: 1, Odds: odds}, true
}

// genSubParams: an accepted update of the subaccount parameters; switched-off endpoints come back on soon
func (g *Gen) genSubParams() Op {
	p := g.c.App.SubaccountKeeper.GetParams(g.c.Ctx())
	g.stats["sub_params_update"]++
	if !p.WagerEnabled || !p.DepositEnabled {
		return Op{Kind: "SPRM", Status: 1, Mode: 1}
	}
	return Op{Kind: "SPRM", Status: int64(g.r.Intn(2)), Mode: int64(g.r.Intn(2))}
}

func (g *Gen) HasPending() bool { return len(g.pending) > 0 }

// NextTx draws one transaction according to the profile.
func (g *Gen) NextTx() Op {
	type w struct {
		f func() Op
		w int
	}
	if len(g.pending) > 0 {
		o := g.pending[0]
		g.pending = g.pending[1:]
		return o
	}
	for i := range g.deferred {
		d := &g.deferred[i]
		for _, m := range g.markets {
			if m.uid == d.mkt && m.resolved && g.c.Height > m.resH && g.c.Height > d.lastH && d.left > 0 {
				d.left--
				d.lastH = g.c.Height
				g.stats["withdraw_in_settlement_window"]++
				return Op{Kind: "WDR", Signer: d.owner, Tk: g.ticket(), Mkt: d.mkt, Pidx: 1, Mode: 1, Amount: bi(0), Ky: g.kycFor(d.owner), Depositor: -1}
			}
		}
	}
	if len(g.feeBack) > 0 && g.chance(0.05) {
		f := g.feeBack[0]
		g.feeBack = g.feeBack[1:]
		return Op{Kind: "BFEE", Amount: bi(f)}
	}
	if ((g.profile == "bet" || g.profile == "tiny") && g.chance(0.008)) || (g.profile == "params" && g.chance(0.04)) {
		if o, ok := g.betFeeFlip(); ok {
			return o
		}
	}
	if (g.profile == "bet" || g.profile == "sub") && g.chance(0.015) {
		if o, ok := g.withdrawInWindow(); ok {
			return o
		}
	}
	if (g.profile == "bet" || g.profile == "sub") && g.chance(0.012) {
		if o, ok := g.withdrawAfterPayout(); ok {
			return o
		}
	}
	if len(g.okTix) > 0 && g.chance(0.07) {
		return g.replayTicket()
	}
	if (g.profile == "tiny" && g.chance(0.03)) || ((g.profile == "bet" || g.profile == "sub") && g.chance(0.012)) {
		if o, ok := g.longShot(); ok {
			return o
		}
	}
	if g.profile == "sub" && g.chance(0.02) {
		if o, ok := g.subHouseWins(); ok {
			return o
		}
	}
	if g.profile == "sub" || g.profile == "params" {
		p := g.c.App.SubaccountKeeper.GetParams(g.c.Ctx())
		off := !p.WagerEnabled || !p.DepositEnabled
		if (off && g.chance(0.08)) || (!off && g.chance(0.004)) {
			return g.genSubParams()
		}
		if (g.profile == "sub" && g.chance(0.012)) || (g.profile == "params" && g.chance(0.05)) {
			if o, ok := g.subParamFlip(); ok {
				return o
			}
		}
	}
	if (g.profile == "bet" || g.profile == "sub") && g.chance(0.012) {
		if o, ok := g.grantTriangle(); ok {
			return o
		}
	}
	am := len(g.activeMarkets())
	ws := []w{{g.genMarketAdd, 4}, {g.genMarketUpdate, 2}, {g.genMarketResolve, 3}, {g.genDeposit, 14}, {g.genWithdraw, 6},
		{g.genWager, 30}, {g.genGrant, 4}, {g.genSend, 1}}
	switch g.profile {
	case "sub":
		ws = append(ws, w{g.genSubCreate, 6}, w{g.genSubTopUp, 5}, w{g.genSubWithdraw, 10}, w{g.genSubWager, 14},
			w{g.genSubHouseDeposit, 10}, w{g.genSubHouseWithdraw, 9})
		ws[5].w = 12
	case "params":
		ws = append(ws, w{g.genSubCreate, 3}, w{g.genSubHouseDeposit, 4}, w{g.genSubWager, 4})
	case "ovm":
		ws = []w{{g.genMarketAdd, 4}, {g.genMarketUpdate, 2}, {g.genPropose, 10}, {g.genVote, 40}, {g.genSend, 1}}
	}
	if am == 0 && g.profile != "ovm" {
		ws[0].w = 40
	}
	if am >= 3 {
		ws[0].w = 1
	}
	tot := 0
	for _, x := range ws {
		tot += x.w
	}
	k := g.r.Intn(tot)
	for _, x := range ws {
		if k < x.w {
			return g.withDry(x.f())
		}
		k -= x.w
	}
	return g.genSend()
}

// withDry: now and then an op is preceded by an execution on a branch of the state that is thrown away (a failing multi-message
// transaction, a simulation): the op's own message, or a bet parameter update that lowers the minimum amount (then the wager is
// placed between the lowered and the stored minimum and must be refused).  Whatever that branch did must not be visible afterwards.
func (g *Gen) withDry(o Op) Op {
	switch o.Kind {
	case "WAG", "SWAG":
		min := g.c.Cfg.Bet.Constraints.MinAmount.Int64()
		if min > 2 && g.chance(0.03) {
			o.Dry = "betprm:2:0"
			o.Amount = bi(2 + g.r.Int63n(min-2))
			g.stats["dry_params_then_wager_below_minimum"]++
			return o
		}
		if g.chance(0.015) {
			o.Dry = fmt.Sprintf("betprm:%d:%d", min*1000, min-1) // a raised minimum and fee on the discarded branch
			g.stats["dry_params_raised"]++
			return o
		}
	}
	switch o.Kind {
	case "WAG", "SWAG", "DEP", "SDEP", "WDR", "SWDR", "MADD", "MUPD", "MRES", "PROP", "VOTE":
		if g.chance(0.02) {
			o.Dry = "self"
			g.stats["dry_self"]++
		}
	}
	return o
}

// Observe refreshes the generator's view after an executed op.
func (g *Gen) Observe(o Op, res string) {
	g.stats[o.Kind+":"+res]++
	if o.Kind == "END" && g.profile != "mint" {
		cur := int64(g.c.leaderKeyAt(committedCtx(g.c)))
		if g.seenLeader && cur != g.lastLeader {
			// the leader has just been replaced: the first transaction of the next block carries a fresh ticket of the replaced
			// leader (never presented before).  It must be refused - by every replica, whatever it simulated beforehand (C06, C15).
			g.former = append(g.former, g.lastLeader)
			// ... and an ACCEPTED ticket of the replaced leader that has not expired yet is presented again, byte for byte: what was
			// verified once under the old key set must be verified again under the new one
			for _, q := range append(append([]Op{}, g.okLong...), g.okTix...) {
				if q.Kind == "MUPD" && q.Tk.Signer == g.lastLeader && q.Tk.Exp > g.c.Time+10 {
					g.pending = append(g.pending, q)
					g.stats["accepted_ticket_replayed_right_after_rotation"]++
					break
				}
			}
			for _, m := range g.markets {
				if !m.resolved {
					g.pending = append(g.pending, Op{Kind: "MUPD", Signer: g.user(), Tk: Ticket{Signer: g.lastLeader, Exp: g.c.Time + 5000},
						UID: m.uid, Start: m.start, End: m.end + 1, Status: m.status})
					g.stats["stale_leader_ticket_after_rotation"]++
					break
				}
			}
		}
		g.lastLeader, g.seenLeader = cur, true
	}
	if res != "ok" {
		return
	}
	switch o.Kind {
	case "MADD":
		g.markets = append(g.markets, &gMarket{uid: o.UID, odds: append([]int64{}, o.Odds...), status: o.Status, end: o.End, start: o.Start, creator: o.Signer})
	case "MUPD":
		for _, m := range g.markets {
			if m.uid == o.UID {
				m.status, m.end, m.start = o.Status, o.End, o.Start
			}
		}
	case "MRES":
		for _, m := range g.markets {
			if m.uid == o.UID {
				m.resolved = true
				m.resH = g.c.Height
				m.status = o.Status
			}
		}
	case "WAG", "SWAG":
		g.usedBets = append(g.usedBets, o.BetUID)
	}
	switch o.Kind {
	case "MUPD", "VOTE", "DEP":
		if o.Tk.Signer >= 0 && o.Kind != "VOTE" && o.Tk.Exp > g.c.Time+2000 {
			g.okLong = append(g.okLong, o)
			if len(g.okLong) > 20 {
				g.okLong = g.okLong[1:]
			}
		}
		if o.Tk.Signer >= 0 {
			g.okTix = append(g.okTix, o)
			if len(g.okTix) > 40 {
				g.okTix = g.okTix[1:]
			}
		}
	}
}

// boundaryTime sometimes moves the next block time onto a deadline of the state (ovm profile: the 30 minute
// window of an active proposal, to the second and within the following minute); never moves time backwards.
func (g *Gen) boundaryTime(t int64) int64 {
	if g.profile != "ovm" || g.c.Height == 0 || !g.chance(0.2) {
		return t
	}
	props, _ := g.c.App.OVMKeeper.GetAllPubkeysChangeProposalsByStatus(committedCtx(g.c), 1)
	if len(props) == 0 {
		return t
	}
	p := pick(g.r, props)
	nt := p.StartTS + 1800 + pick(g.r, []int64{-1, 0, 1, 2, 30, 59, 60, 61})
	if nt > g.c.Time {
		return nt
	}
	return t
}

// ops.go — operations in the model's vocabulary; text encoding shared with coq/Extract/driver.ml.
package main

import (
	"fmt"
	"math/big"
	"strconv"
	"strings"
)

type Ticket struct {
	Signer int64 // key id; -1 = token that must not verify
	Exp    int64 // exp claim; -1 = absent
	Forge  int   // harness-only: which kind of invalid token to build when Signer = -1
}

type Kyc struct {
	Ignore, Approved bool
	ID               int64 // account id named in the KYC data
}

type OddsMult struct {
	Odds int64
	Mult *big.Int // Dec scaled by 1e18
}

// Op is a tagged union; unused fields are zero.
type Op struct {
	// harness-only: before this op, execute something on a branch of the state that is then DISCARDED (what a failing multi-message
	// transaction, a simulation or a mempool check does): "self" = this op's own message, "betprm:<min>:<fee>" = a bet parameter
	// update under the governance authority.  The model ignores it: a discarded branch leaves no trace.
	Dry string
	Kind   string
	T      int64 // BEGIN time
	Signer int64
	Tk     Ticket
	Ky     Kyc
	// market
	UID, Start, End, Status, Rts int64
	Odds, Winners                []int64
	// house
	Mkt, Pidx, Mode, Depositor int64
	Amount                     *big.Int
	// wager
	BetUID, SelMkt, SelOdds, OddsType int64
	OddsVal, Mult                     *big.Int
	AllOdds                           []OddsMult
	// authz / send
	Granter, Grantee, GKind, Exp int64
	Limit                        *big.Int
	From, To                     int64
	// ovm
	Keys                          []int64
	LeaderIdx, VoterIdx, PropID, Vote int64
	// subaccount
	Owner        int64
	Locks        [][2]*big.Int // (unlock ts, amount)
	Inner        int64         // creator named by the inner MsgWager
	Tk2          Ticket
	MainDed, SubDed *big.Int
}

func locksEnc(l [][2]*big.Int) string {
	s := strconv.Itoa(len(l))
	for _, x := range l {
		s += fmt.Sprintf(" %s %s", x[0], x[1])
	}
	return s
}

func b2s(b bool) string {
	if b {
		return "1"
	}
	return "0"
}

func ints(l []int64) string {
	s := []string{strconv.Itoa(len(l))}
	for _, x := range l {
		s = append(s, strconv.FormatInt(x, 10))
	}
	return strings.Join(s, " ")
}

func (t Ticket) enc() string { return fmt.Sprintf("%d %d", t.Signer, t.Exp) }
func (k Kyc) enc() string    { return fmt.Sprintf("%s %s %d", b2s(k.Ignore), b2s(k.Approved), k.ID) }

func (o Op) Encode() string {
	switch o.Kind {
	case "BEGIN":
		return fmt.Sprintf("BEGIN %d", o.T)
	case "END":
		return "END"
	case "MADD":
		return fmt.Sprintf("MADD %d %s %d %d %d %d %s", o.Signer, o.Tk.enc(), o.UID, o.Start, o.End, o.Status, ints(o.Odds))
	case "MUPD":
		return fmt.Sprintf("MUPD %d %s %d %d %d %d", o.Signer, o.Tk.enc(), o.UID, o.Start, o.End, o.Status)
	case "MRES":
		return fmt.Sprintf("MRES %d %s %d %d %d %s", o.Signer, o.Tk.enc(), o.UID, o.Rts, o.Status, ints(o.Winners))
	case "DEP":
		return fmt.Sprintf("DEP %d %s %d %s %s %d", o.Signer, o.Tk.enc(), o.Mkt, o.Amount, o.Ky.enc(), o.Depositor)
	case "WDR":
		return fmt.Sprintf("WDR %d %s %d %d %d %s %s %d", o.Signer, o.Tk.enc(), o.Mkt, o.Pidx, o.Mode, o.Amount, o.Ky.enc(), o.Depositor)
	case "WAG":
		s := fmt.Sprintf("WAG %d %s %d %s %d %d %s %s %s %d %d", o.Signer, o.Tk.enc(), o.BetUID, o.Amount, o.SelMkt, o.SelOdds,
			o.OddsVal, o.Mult, o.Ky.enc(), o.OddsType, len(o.AllOdds))
		for _, a := range o.AllOdds {
			s += fmt.Sprintf(" %d %s", a.Odds, a.Mult)
		}
		return s
	case "GRANT":
		return fmt.Sprintf("GRANT %d %d %d %s %d", o.Granter, o.Grantee, o.GKind, o.Limit, o.Exp)
	case "REVOKE":
		return fmt.Sprintf("REVOKE %d %d %d", o.Granter, o.Grantee, o.GKind)
	case "SEND":
		return fmt.Sprintf("SEND %d %d %s", o.From, o.To, o.Amount)
	case "PROP":
		return fmt.Sprintf("PROP %d %s %d %s", o.Signer, o.Tk.enc(), o.LeaderIdx, ints(o.Keys))
	case "VOTE":
		return fmt.Sprintf("VOTE %d %s %d %d %d", o.Signer, o.Tk.enc(), o.VoterIdx, o.PropID, o.Vote)
	case "SCRE":
		return fmt.Sprintf("SCRE %d %d %s", o.Signer, o.Owner, locksEnc(o.Locks))
	case "STOP":
		return fmt.Sprintf("STOP %d %d %s", o.Signer, o.Owner, locksEnc(o.Locks))
	case "SWDU":
		return fmt.Sprintf("SWDU %d", o.Signer)
	case "SPRM":
		return fmt.Sprintf("SPRM %d %d", o.Status, o.Mode)
	case "BFEE":
		return fmt.Sprintf("BFEE %s", o.Amount)
	case "SWAG":
		s := fmt.Sprintf("SWAG %d %s %d %s %d %s %d %d %s %s %s %d %s %s %d", o.Signer, o.Tk.enc(), o.Inner, o.Tk2.enc(), o.BetUID, o.Amount,
			o.SelMkt, o.SelOdds, o.OddsVal, o.Mult, o.Ky.enc(), o.OddsType, o.MainDed, o.SubDed, len(o.AllOdds))
		for _, a := range o.AllOdds {
			s += fmt.Sprintf(" %d %s", a.Odds, a.Mult)
		}
		return s
	case "SDEP":
		return fmt.Sprintf("SDEP %d %s %d %s %s %d", o.Signer, o.Tk.enc(), o.Mkt, o.Amount, o.Ky.enc(), o.Depositor)
	case "SWDR":
		return fmt.Sprintf("SWDR %d %s %d %d %d %s %s %d", o.Signer, o.Tk.enc(), o.Mkt, o.Pidx, o.Mode, o.Amount, o.Ky.enc(), o.Depositor)
	}
	panic("unknown op kind " + o.Kind)
}

type toks struct {
	t []string
	i int
}

func (r *toks) s() string {
	if r.i >= len(r.t) {
		panic("op parse: eof")
	}
	x := r.t[r.i]
	r.i++
	return x
}
func (r *toks) n() int64 {
	v, err := strconv.ParseInt(r.s(), 10, 64)
	if err != nil {
		panic(err)
	}
	return v
}
func (r *toks) big() *big.Int {
	v, ok := new(big.Int).SetString(r.s(), 10)
	if !ok {
		panic("bad int")
	}
	return v
}
func (r *toks) b() bool { return r.s() == "1" }
func (r *toks) list() []int64 {
	n := int(r.n())
	var l []int64
	for i := 0; i < n; i++ {
		l = append(l, r.n())
	}
	return l
}
func (r *toks) tk() Ticket { return Ticket{Signer: r.n(), Exp: r.n()} }
func (r *toks) ky() Kyc    { return Kyc{Ignore: r.b(), Approved: r.b(), ID: r.n()} }

func ParseOp(line string) Op {
	r := &toks{t: strings.Fields(line)}
	o := Op{Kind: r.s()}
	switch o.Kind {
	case "BEGIN":
		o.T = r.n()
	case "END":
	case "MADD":
		o.Signer, o.Tk, o.UID, o.Start, o.End, o.Status, o.Odds = r.n(), r.tk(), r.n(), r.n(), r.n(), r.n(), r.list()
	case "MUPD":
		o.Signer, o.Tk, o.UID, o.Start, o.End, o.Status = r.n(), r.tk(), r.n(), r.n(), r.n(), r.n()
	case "MRES":
		o.Signer, o.Tk, o.UID, o.Rts, o.Status, o.Winners = r.n(), r.tk(), r.n(), r.n(), r.n(), r.list()
	case "DEP":
		o.Signer, o.Tk, o.Mkt, o.Amount, o.Ky, o.Depositor = r.n(), r.tk(), r.n(), r.big(), r.ky(), r.n()
	case "WDR":
		o.Signer, o.Tk, o.Mkt, o.Pidx, o.Mode, o.Amount, o.Ky, o.Depositor = r.n(), r.tk(), r.n(), r.n(), r.n(), r.big(), r.ky(), r.n()
	case "WAG":
		o.Signer, o.Tk, o.BetUID, o.Amount, o.SelMkt, o.SelOdds = r.n(), r.tk(), r.n(), r.big(), r.n(), r.n()
		o.OddsVal, o.Mult, o.Ky, o.OddsType = r.big(), r.big(), r.ky(), r.n()
		n := int(r.n())
		for i := 0; i < n; i++ {
			o.AllOdds = append(o.AllOdds, OddsMult{Odds: r.n(), Mult: r.big()})
		}
	case "GRANT":
		o.Granter, o.Grantee, o.GKind, o.Limit, o.Exp = r.n(), r.n(), r.n(), r.big(), r.n()
	case "REVOKE":
		o.Granter, o.Grantee, o.GKind = r.n(), r.n(), r.n()
	case "SEND":
		o.From, o.To, o.Amount = r.n(), r.n(), r.big()
	case "PROP":
		o.Signer, o.Tk, o.LeaderIdx, o.Keys = r.n(), r.tk(), r.n(), r.list()
	case "VOTE":
		o.Signer, o.Tk, o.VoterIdx, o.PropID, o.Vote = r.n(), r.tk(), r.n(), r.n(), r.n()
	case "SCRE", "STOP":
		o.Signer, o.Owner = r.n(), r.n()
		n := int(r.n())
		for i := 0; i < n; i++ {
			o.Locks = append(o.Locks, [2]*big.Int{r.big(), r.big()})
		}
	case "SWDU":
		o.Signer = r.n()
	case "BFEE": // x/bet UpdateParams under the governance authority: the wager fee
		o.Amount = r.big()
	case "SPRM": // x/subaccount UpdateParams under the governance authority: wager enabled, deposit enabled
		o.Status, o.Mode = r.n(), r.n()
	case "SWAG":
		o.Signer, o.Tk, o.Inner, o.Tk2, o.BetUID, o.Amount = r.n(), r.tk(), r.n(), r.tk(), r.n(), r.big()
		o.SelMkt, o.SelOdds, o.OddsVal, o.Mult, o.Ky, o.OddsType = r.n(), r.n(), r.big(), r.big(), r.ky(), r.n()
		o.MainDed, o.SubDed = r.big(), r.big()
		n := int(r.n())
		for i := 0; i < n; i++ {
			o.AllOdds = append(o.AllOdds, OddsMult{Odds: r.n(), Mult: r.big()})
		}
	case "SDEP":
		o.Signer, o.Tk, o.Mkt, o.Amount, o.Ky, o.Depositor = r.n(), r.tk(), r.n(), r.big(), r.ky(), r.n()
	case "SWDR":
		o.Signer, o.Tk, o.Mkt, o.Pidx, o.Mode, o.Amount, o.Ky, o.Depositor = r.n(), r.tk(), r.n(), r.n(), r.n(), r.big(), r.ky(), r.n()
	default:
		panic("unknown op " + o.Kind)
	}
	// optional harness-only suffix "#f=<n>": which forgery to build for an invalid ticket
	for r.i < len(r.t) {
		x := r.s()
		if strings.HasPrefix(x, "#f=") {
			v, _ := strconv.Atoi(x[3:])
			o.Tk.Forge = v
		}
		if strings.HasPrefix(x, "#f2=") {
			v, _ := strconv.Atoi(x[4:])
			o.Tk2.Forge = v
		}
		if strings.HasPrefix(x, "#dry=") {
			o.Dry = x[5:]
		}
	}
	return o
}

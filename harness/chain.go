// chain.go — boots the real app.SgeApp on a MemDB and drives it block by block.
// Compiled inside /repo's module through `go build -overlay` (see /verif/check).
package main

import (
	"crypto/ed25519"
	"crypto/sha256"
	"crypto/x509"
	"encoding/json"
	"fmt"
	"math/rand"
	"time"

	sdkmath "cosmossdk.io/math"
	tmdb "github.com/cometbft/cometbft-db"
	abci "github.com/cometbft/cometbft/abci/types"
	"github.com/cometbft/cometbft/libs/log"
	tmproto "github.com/cometbft/cometbft/proto/tendermint/types"
	tmtypes "github.com/cometbft/cometbft/types"
	codectypes "github.com/cosmos/cosmos-sdk/codec/types"
	cryptocodec "github.com/cosmos/cosmos-sdk/crypto/codec"
	sdked "github.com/cosmos/cosmos-sdk/crypto/keys/ed25519"
	"github.com/cosmos/cosmos-sdk/crypto/keys/secp256k1"
	cryptotypes "github.com/cosmos/cosmos-sdk/crypto/types"
	simtestutil "github.com/cosmos/cosmos-sdk/testutil/sims"
	sdk "github.com/cosmos/cosmos-sdk/types"
	authtypes "github.com/cosmos/cosmos-sdk/x/auth/types"
	banktypes "github.com/cosmos/cosmos-sdk/x/bank/types"
	stakingtypes "github.com/cosmos/cosmos-sdk/x/staking/types"

	wasmkeeper "github.com/CosmWasm/wasmd/x/wasm/keeper"

	"github.com/sge-network/sge/app"
	"github.com/sge-network/sge/app/params"
	"github.com/sge-network/sge/utils"
	bettypes "github.com/sge-network/sge/x/bet/types"
	housetypes "github.com/sge-network/sge/x/house/types"
	minttypes "github.com/sge-network/sge/x/mint/types"
	obtypes "github.com/sge-network/sge/x/orderbook/types"
	ovmtypes "github.com/sge-network/sge/x/ovm/types"
	rewardtypes "github.com/sge-network/sge/x/reward/types"
	subtypes "github.com/sge-network/sge/x/subaccount/types"
)

var _ = cryptocodec.RegisterInterfaces

const Denom = params.DefaultBondDenom

type Account struct {
	Priv secp256k1.PrivKey
	Addr sdk.AccAddress
}

type OvmKey struct {
	Pub  ed25519.PublicKey
	Priv ed25519.PrivateKey
	PEM  string
}

// GenesisCfg is everything the model's `init` needs, in the model's vocabulary.
type GenesisCfg struct {
	NAcc       int
	Balance    int64 // per user account
	Mint       minttypes.Params
	Bet        bettypes.Params
	House      housetypes.Params
	Orderbook  obtypes.Params
	Subaccount subtypes.Params
	NKeys      int // registered ovm keys (4..5)
	StartTime  int64
}

type Chain struct {
	App      *app.SgeApp
	Enc      params.EncodingConfig
	Acc      []Account
	Keys     []OvmKey // key universe (registered ones are a prefix initially)
	Height   int64
	Time     int64
	InBlock  bool
	Halted   bool
	ValAddr  sdk.AccAddress
	rng      *rand.Rand
	Cfg      GenesisCfg
	LastHash []byte
	LastBegin abci.ResponseBeginBlock
	LastEnd   abci.ResponseEndBlock
	LastTx    *abci.ResponseDeliverTx
	SimOnly   bool // Deliver() only simulates (VERIF_SIMULATE look-ahead)
}

func mkAccount(i int) Account {
	priv := secp256k1.GenPrivKeyFromSecret([]byte(fmt.Sprintf("verif-acct-%d", i)))
	return Account{Priv: *priv, Addr: sdk.AccAddress(priv.PubKey().Address())}
}

func mkOvmKey(i int) OvmKey {
	seed := sha256.Sum256([]byte(fmt.Sprintf("verif-ovm-%d", i)))
	priv := ed25519.NewKeyFromSeed(seed[:])
	pub := priv.Public().(ed25519.PublicKey)
	bs, err := x509.MarshalPKIXPublicKey(pub)
	if err != nil {
		panic(err)
	}
	return OvmKey{Pub: pub, Priv: priv, PEM: string(utils.NewPubKeyMemory(bs))}
}

const NKeyUniverse = 9

func DefaultGenesisCfg() GenesisCfg {
	return GenesisCfg{
		NAcc:       8,
		Balance:    1_000_000_000_000,
		Mint:       minttypes.DefaultParams(),
		Bet:        bettypes.DefaultParams(),
		House:      housetypes.DefaultParams(),
		Orderbook:  obtypes.DefaultParams(),
		Subaccount: subtypes.DefaultParams(),
		NKeys:      4,
		StartTime:  1_700_000_000,
	}
}

func NewChain(cfg GenesisCfg) (*Chain, error) {
	c := &Chain{Cfg: cfg, rng: rand.New(rand.NewSource(1))}
	db := tmdb.NewMemDB()
	c.Enc = app.MakeEncodingConfig()
	c.App = app.NewSgeApp(log.NewNopLogger(), db, nil, true, map[int64]bool{}, "", 0, c.Enc,
		simtestutil.EmptyAppOptions{}, []wasmkeeper.Option{})
	gs := app.NewDefaultGenesisState()
	cdc := c.App.AppCodec()

	for i := 0; i < cfg.NAcc; i++ {
		c.Acc = append(c.Acc, mkAccount(i))
	}
	for i := 0; i < NKeyUniverse; i++ {
		c.Keys = append(c.Keys, mkOvmKey(i))
	}
	val := mkAccount(100000)
	c.ValAddr = val.Addr

	var genAccs []authtypes.GenesisAccount
	var balances []banktypes.Balance
	for _, a := range c.Acc {
		genAccs = append(genAccs, &authtypes.BaseAccount{Address: a.Addr.String()})
		balances = append(balances, banktypes.Balance{Address: a.Addr.String(),
			Coins: sdk.NewCoins(sdk.NewCoin(Denom, sdkmath.NewInt(cfg.Balance)))})
	}
	genAccs = append(genAccs, &authtypes.BaseAccount{Address: val.Addr.String()})
	gs[authtypes.ModuleName] = cdc.MustMarshalJSON(authtypes.NewGenesisState(authtypes.DefaultParams(), genAccs))

	// one bonded validator
	valPower := sdk.TokensFromConsensusPower(1, sdk.DefaultPowerReduction)
	seed := sha256.Sum256([]byte("verif-validator"))
	valPriv := sdked.GenPrivKeyFromSecret(seed[:])
	var valPk cryptotypes.PubKey = valPriv.PubKey()
	pkAny, err := codectypes.NewAnyWithValue(valPk)
	if err != nil {
		return nil, err
	}
	sp := stakingtypes.DefaultParams()
	sp.BondDenom = Denom
	validator := stakingtypes.Validator{
		OperatorAddress: sdk.ValAddress(val.Addr).String(), ConsensusPubkey: pkAny,
		Status: stakingtypes.Bonded, Tokens: valPower, DelegatorShares: sdkmath.LegacyNewDecFromInt(valPower),
		Description: stakingtypes.NewDescription("v", "", "", "", ""),
		Commission: stakingtypes.NewCommission(sdkmath.LegacyNewDecWithPrec(5, 1), sdkmath.LegacyNewDecWithPrec(5, 1), sdkmath.LegacyNewDec(0)),
	}
	deleg := stakingtypes.Delegation{DelegatorAddress: val.Addr.String(), ValidatorAddress: validator.OperatorAddress, Shares: validator.DelegatorShares}
	gs[stakingtypes.ModuleName] = cdc.MustMarshalJSON(stakingtypes.NewGenesisState(sp, []stakingtypes.Validator{validator}, []stakingtypes.Delegation{deleg}))
	bonded := c.App.AccountKeeper.GetModuleAddress(stakingtypes.BondedPoolName)
	balances = append(balances, banktypes.Balance{Address: bonded.String(), Coins: sdk.NewCoins(sdk.NewCoin(Denom, valPower))})

	total := sdk.NewCoins()
	for _, b := range balances {
		total = total.Add(b.Coins...)
	}
	gs[banktypes.ModuleName] = cdc.MustMarshalJSON(banktypes.NewGenesisState(banktypes.DefaultGenesisState().Params, balances, total, []banktypes.Metadata{}, []banktypes.SendEnabled{}))

	var pems []string
	for i := 0; i < cfg.NKeys; i++ {
		pems = append(pems, c.Keys[i].PEM)
	}
	gs[ovmtypes.ModuleName] = cdc.MustMarshalJSON(&ovmtypes.GenesisState{KeyVault: ovmtypes.KeyVault{PublicKeys: pems}})

	mg := minttypes.DefaultGenesis()
	mg.Params = cfg.Mint
	gs[minttypes.ModuleName] = cdc.MustMarshalJSON(mg)

	bg := bettypes.DefaultGenesis()
	bg.Params = cfg.Bet
	gs[bettypes.ModuleName] = cdc.MustMarshalJSON(bg)
	hg := housetypes.DefaultGenesis()
	hg.Params = cfg.House
	gs[housetypes.ModuleName] = cdc.MustMarshalJSON(hg)
	og := obtypes.DefaultGenesis()
	og.Params = cfg.Orderbook
	gs[obtypes.ModuleName] = cdc.MustMarshalJSON(og)
	sg := subtypes.DefaultGenesis()
	sg.Params = cfg.Subaccount
	gs[subtypes.ModuleName] = cdc.MustMarshalJSON(sg)
	_ = rewardtypes.ModuleName

	stateBytes, err := json.Marshal(gs)
	if err != nil {
		return nil, err
	}
	valUpd := validator.ABCIValidatorUpdate(sdk.DefaultPowerReduction)
	var initErr interface{}
	func() {
		defer func() { initErr = recover() }()
		c.App.InitChain(abci.RequestInitChain{
			Time:            time.Unix(cfg.StartTime, 0).UTC(),
			Validators:      []abci.ValidatorUpdate{valUpd},
			ConsensusParams: consensusParams(),
			AppStateBytes:   stateBytes,
		})
	}()
	if initErr != nil {
		return nil, fmt.Errorf("InitChain panic: %v", initErr)
	}
	// as CometBFT does: no Commit between InitChain and the first BeginBlock (height 1)
	c.Height = 0
	c.Time = cfg.StartTime
	return c, nil
}

func consensusParams() *tmproto.ConsensusParams {
	return &tmproto.ConsensusParams{
		Block:     &tmproto.BlockParams{MaxBytes: 2000000, MaxGas: -1},
		Evidence:  &tmproto.EvidenceParams{MaxAgeNumBlocks: 302400, MaxAgeDuration: 504 * time.Hour, MaxBytes: 10000},
		Validator: &tmproto.ValidatorParams{PubKeyTypes: []string{tmtypes.ABCIPubKeyTypeEd25519}},
	}
}

// Ctx is the deliver-state context (valid between BeginBlock and Commit).
func (c *Chain) Ctx() sdk.Context {
	return c.App.NewContext(false, tmproto.Header{Height: c.Height, Time: time.Unix(c.Time, 0).UTC()})
}

// BeginBlock starts block Height+1 at time t. Returns "ok" or "panic:<msg>", and the response.
func (c *Chain) BeginBlock(t int64) (res string, resp abci.ResponseBeginBlock) {
	c.Height++
	c.Time = t
	defer func() {
		if r := recover(); r != nil {
			res = fmt.Sprintf("panic:%v", r)
			c.Halted = true
		}
	}()
	resp = c.App.BeginBlock(abci.RequestBeginBlock{Header: tmproto.Header{
		Height: c.Height, Time: time.Unix(t, 0).UTC(), AppHash: c.LastHash}})
	c.LastBegin = resp
	c.InBlock = true
	return "ok", resp
}

func (c *Chain) EndBlock() (res string, resp abci.ResponseEndBlock) {
	defer func() {
		if r := recover(); r != nil {
			res = fmt.Sprintf("panic:%v", r)
			c.Halted = true
		}
	}()
	resp = c.App.EndBlock(abci.RequestEndBlock{Height: c.Height})
	c.LastEnd = resp
	return "ok", resp
}

func (c *Chain) Commit() []byte {
	r := c.App.Commit()
	c.InBlock = false
	c.LastHash = r.Data
	return r.Data
}

// Deliver signs msg with account `signer` and delivers it. ok=false on any failure.
func (c *Chain) Deliver(signer int, msgs ...sdk.Msg) (ok bool, resp abci.ResponseDeliverTx) {
	a := c.Acc[signer]
	acc := c.App.AccountKeeper.GetAccount(c.Ctx(), a.Addr)
	if acc == nil {
		return false, abci.ResponseDeliverTx{Code: 999, Log: "no account"}
	}
	tx, err := simtestutil.GenSignedMockTx(c.rng, c.Enc.TxConfig, msgs, sdk.NewCoins(), 50_000_000, "",
		[]uint64{acc.GetAccountNumber()}, []uint64{acc.GetSequence()}, &a.Priv)
	if err != nil {
		return false, abci.ResponseDeliverTx{Code: 998, Log: err.Error()}
	}
	bz, err := c.Enc.TxConfig.TxEncoder()(tx)
	if err != nil {
		return false, abci.ResponseDeliverTx{Code: 997, Log: err.Error()}
	}
	if c.SimOnly {
		// a node-local simulation (gas estimation / mempool check): runs on a branch of the last committed state that is
		// thrown away, so it must leave no trace in what later blocks compute
		func() {
			defer func() { _ = recover() }()
			_, _, _ = c.App.Simulate(bz)
		}()
		return false, abci.ResponseDeliverTx{Code: 996, Log: "simulated only"}
	}
	resp = c.App.DeliverTx(abci.RequestDeliverTx{Tx: bz})
	r2 := resp
	c.LastTx = &r2
	return resp.Code == 0, resp
}

func (c *Chain) Bal(addr sdk.AccAddress) sdkmath.Int {
	return c.App.BankKeeper.GetBalance(c.Ctx(), addr, Denom).Amount
}

func (c *Chain) ModAddr(name string) sdk.AccAddress {
	return c.App.AccountKeeper.GetModuleAddress(name)
}

func (c *Chain) Supply() sdkmath.Int {
	return c.App.BankKeeper.GetSupply(c.Ctx(), Denom).Amount
}

// reward_monitors.go — property C12 evaluated on the REAL application state after every operation,
// independently of the Coq model (the predicates below are the property's clauses, not the model's code).
// Each violation line starts with "C12".
//
// Clauses (numbers appear in the violation text):
//  P1 pool balance == sum over campaigns of (total - spent - withdrawn)
//  P2 every campaign's available amount >= 0
//  on a successful RGRANT:
//  G1 the reward uid was unused before and is recorded after
//  G2 the campaign was active and  StartTS <= block time <= EndTS  (both ends inclusive: this is what
//     Campaign.CheckTS enforces — it rejects blockTime > EndTS and blockTime < StartTS — and what the property needs)
//  G3 the recorded receiver is the receiver named on the ticket
//  G4 main-account balance of the receiver grew by exactly the recorded main amount
//  G5 subaccount balance of the receiver grew by exactly the recorded subaccount amount
//  G6 the pool shrank by exactly main + sub
//  G7 the recorded amounts are the campaign's definition (fixed) or trunc(min(bet, max) * pct) (bet bonus)
//  G8 grants of this campaign to this account <= campaign cap (when cap > 0)
//  G9 grants of the promoter in this category to this account <= promoter's category cap
//  G10 available before >= main + sub
//  on a successful CUPDATE / CWITHDRAW:
//  O1 the signer is the campaign's promoter or held a matching authz grant before
//  O2 withdrawn amount <= available before
//  A1 a failed transaction leaves the projected state unchanged
package main

import (
	"fmt"
	"math/big"
)

type RMonitors struct {
	prev      *RSnap
	prevLines []string
	evals     int
	lastDrift *big.Int // P1 is reported when the drift changes, not at every later op
}

func NewRMonitors() *RMonitors { return &RMonitors{} }

func bigEq(a, b *big.Int) bool { return a.Cmp(b) == 0 }

func (s *RSnap) subBalOf(owner int64) (*big.Int, bool) {
	for _, x := range s.Subs {
		if x.Owner == owner {
			return x.Bal, true
		}
	}
	return big.NewInt(0), false
}

func (s *RSnap) balOf(id int64) (*big.Int, bool) {
	if id >= 0 && int(id) < len(s.Bal) {
		return s.Bal[id], true
	}
	if id == -4 {
		return s.Pool, true
	}
	return nil, false
}

func (s *RSnap) hasGrant(grantee, granter, kind int64) bool {
	for _, g := range s.Grants {
		if g.Grantee == grantee && g.Granter == granter && g.Kind == kind {
			return true
		}
	}
	return false
}

// Check evaluates every clause for op o with result res on the state after it. now = block time.
func (m *RMonitors) Check(c *Chain, o ROp, res string, cur *RSnap, lines []string) []string {
	var v []string
	bad := func(f string, a ...interface{}) { v = append(v, "C12 "+fmt.Sprintf(f, a...)) }
	m.evals++
	now := uint64(c.Time)

	// P1, P2
	sum := big.NewInt(0)
	for _, k := range cur.Camps {
		av := k.Avail()
		sum.Add(sum, av)
		if av.Sign() < 0 {
			bad("P2 campaign %d available %s < 0 after %s", k.UID, av, o.Kind)
		}
	}
	drift := new(big.Int).Sub(cur.Pool, sum)
	if m.lastDrift == nil {
		m.lastDrift = big.NewInt(0)
	}
	changed := !bigEq(drift, m.lastDrift)
	m.lastDrift = drift
	if !bigEq(sum, cur.Pool) && changed {
		bad("P1 pool balance %s != sum of campaign availables %s (drift %s) after %s", cur.Pool, sum,
			new(big.Int).Sub(cur.Pool, sum), o.Kind)
	}

	prev := m.prev
	if prev != nil && res == "err" {
		same := len(lines) == len(m.prevLines)
		for i := 0; same && i < len(lines); i++ {
			same = lines[i] == m.prevLines[i]
		}
		if !same {
			bad("A1 failed %s changed the state", o.Kind)
		}
	}
	if prev != nil && res == "ok" {
		switch o.Kind {
		case "RGRANT":
			_, was := prev.Rewards[o.UID]
			rw, is := cur.Rewards[o.UID]
			if was || !is {
				bad("G1 reward %d: present before=%v, after=%v", o.UID, was, is)
			}
			k, found := prev.Camps[o.Camp]
			if !found {
				bad("G2 grant from unknown campaign %d", o.Camp)
				break
			}
			if !k.Active || now < k.Start || now > k.End {
				bad("G2 grant from campaign %d active=%v window [%d,%d] at %d", k.UID, k.Active, k.Start, k.End, now)
			}
			if !is {
				break
			}
			if rw.Receiver != o.Receiver || rw.Camp != o.Camp {
				bad("G3 reward %d recorded for receiver %d campaign %d, ticket names %d / %d", o.UID, rw.Receiver, rw.Camp, o.Receiver, o.Camp)
			}
			total := new(big.Int).Add(rw.Amt.Main, rw.Amt.Sub)
			if b0, ok := prev.balOf(o.Receiver); ok {
				b1, _ := cur.balOf(o.Receiver)
				d := new(big.Int).Sub(b1, b0)
				if o.Receiver == -4 {
					d.Add(d, total) // the pool itself as receiver: discount the outflow checked by G6
				}
				if !bigEq(d, rw.Amt.Main) {
					bad("G4 receiver %d main balance changed by %s, reward %d says main amount %s", o.Receiver, d, o.UID, rw.Amt.Main)
				}
			}
			s0, _ := prev.subBalOf(o.Receiver)
			s1, _ := cur.subBalOf(o.Receiver)
			if d := new(big.Int).Sub(s1, s0); !bigEq(d, rw.Amt.Sub) {
				bad("G5 receiver %d subaccount balance changed by %s, reward %d says subaccount amount %s", o.Receiver, d, o.UID, rw.Amt.Sub)
			}
			if d := new(big.Int).Sub(prev.Pool, cur.Pool); !bigEq(d, total) {
				bad("G6 pool paid out %s for reward %d worth main %s + sub %s", d, o.UID, rw.Amt.Main, rw.Amt.Sub)
			}
			if k.Ty == 8 {
				var bet *RBet
				for i := range prev.Bets {
					if prev.Bets[i].UID == o.BetUID {
						bet = &prev.Bets[i]
					}
				}
				if bet == nil || bet.Creator != o.Receiver || !bet.Main || (bet.Result != 2 && bet.Result != 3) {
					bad("G7 bet bonus %d granted for bet %d which is not a settled won/lost main-market bet of the receiver", o.UID, o.BetUID)
				} else {
					eff := new(big.Int).Set(bet.Amount)
					if k.HasConstr && k.MaxBet.Sign() > 0 && k.MaxBet.Cmp(eff) < 0 {
						eff.Set(k.MaxBet)
					}
					exp := func(pct *big.Int) *big.Int {
						x := new(big.Int).Mul(eff, pct)
						return x.Quo(x, prec)
					}
					if !bigEq(rw.Amt.Main, exp(k.Amt.MainPct)) || !bigEq(rw.Amt.Sub, exp(k.Amt.SubPct)) {
						bad("G7 bet bonus %d amounts %s/%s, expected %s/%s", o.UID, rw.Amt.Main, rw.Amt.Sub, exp(k.Amt.MainPct), exp(k.Amt.SubPct))
					}
				}
			} else if !bigEq(rw.Amt.Main, k.Amt.Main) || !bigEq(rw.Amt.Sub, k.Amt.Sub) {
				bad("G7 reward %d amounts %s/%s differ from campaign definition %s/%s", o.UID, rw.Amt.Main, rw.Amt.Sub, k.Amt.Main, k.Amt.Sub)
			}
			if k.Cap > 0 {
				n := uint64(0)
				for _, r := range cur.Rewards {
					if r.Camp == o.Camp && r.Receiver == o.Receiver {
						n++
					}
				}
				if n > k.Cap {
					bad("G8 account %d holds %d grants of campaign %d, cap %d", o.Receiver, n, o.Camp, k.Cap)
				}
			}
			if puid, ok := prev.PromAddr[k.Promoter]; ok {
				n := int64(0)
				for _, b := range cur.ByCat {
					if b.Prom == puid && b.Addr == o.Receiver && b.Cat == k.Cat {
						n++
					}
				}
				for _, p := range prev.Proms {
					if p.UID == puid {
						for _, cc := range p.Conf {
							if cc[0] == k.Cat && n > cc[1] {
								bad("G9 account %d holds %d grants of promoter %d in category %d, cap %d", o.Receiver, n, puid, k.Cat, cc[1])
							}
						}
					}
				}
			} else {
				bad("G9 campaign %d has no promoter record", o.Camp)
			}
			if k.Avail().Cmp(total) < 0 {
				bad("G10 campaign %d had %s available, granted %s", o.Camp, k.Avail(), total)
			}
		case "CUPDATE", "CWITHDRAW":
			k, found := prev.Camps[o.UID]
			if !found {
				bad("O1 %s of unknown campaign %d succeeded", o.Kind, o.UID)
				break
			}
			kind := int64(2)
			if o.Kind == "CWITHDRAW" {
				kind = 3
			}
			if o.Signer != k.Promoter && !prev.hasGrant(o.Signer, k.Promoter, kind) {
				bad("O1 %s of campaign %d by %d who is neither the promoter %d nor its grantee", o.Kind, o.UID, o.Signer, k.Promoter)
			}
			if o.Kind == "CWITHDRAW" && k.Avail().Cmp(o.Amount) < 0 {
				bad("O2 withdrew %s from campaign %d with %s available", o.Amount, o.UID, k.Avail())
			}
		}
	}
	m.prev = cur
	m.prevLines = lines
	return v
}

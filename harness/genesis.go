// genesis.go — C16: export / validate / re-import at block boundaries of a replayed history.
//   sgeh genesis <histfile> <out> <every>   replay the history; after every <every>-th committed block export
//   the state, run each custom module's genesis validation, start a fresh app from the export, compare the raw
//   stores of the custom modules; at the middle boundary also continue the remaining operations on the
//   restarted chain and compare results and final projected state with the chain that was never restarted.
package main

import (
	"bufio"
	"bytes"
	"encoding/json"
	"fmt"
	"os"
	"strconv"
	"strings"
	"time"

	tmdb "github.com/cometbft/cometbft-db"
	abci "github.com/cometbft/cometbft/abci/types"
	cryptoenc "github.com/cometbft/cometbft/crypto/encoding"
	"github.com/cometbft/cometbft/libs/log"
	tmtypes "github.com/cometbft/cometbft/types"
	servertypes "github.com/cosmos/cosmos-sdk/server/types"
	simtestutil "github.com/cosmos/cosmos-sdk/testutil/sims"
	sdk "github.com/cosmos/cosmos-sdk/types"
	"github.com/cosmos/cosmos-sdk/types/module"

	wasmkeeper "github.com/CosmWasm/wasmd/x/wasm/keeper"

	"github.com/sge-network/sge/app"
	betmod "github.com/sge-network/sge/x/bet"
	housemod "github.com/sge-network/sge/x/house"
	marketmod "github.com/sge-network/sge/x/market"
	mintmod "github.com/sge-network/sge/x/mint"
	obmod "github.com/sge-network/sge/x/orderbook"
	ovmmod "github.com/sge-network/sge/x/ovm"
	rewardmod "github.com/sge-network/sge/x/reward"
	submod "github.com/sge-network/sge/x/subaccount"
	bettypes "github.com/sge-network/sge/x/bet/types"
	housetypes "github.com/sge-network/sge/x/house/types"
	markettypes "github.com/sge-network/sge/x/market/types"
	minttypes "github.com/sge-network/sge/x/mint/types"
	obtypes "github.com/sge-network/sge/x/orderbook/types"
	ovmtypes "github.com/sge-network/sge/x/ovm/types"
	rewardtypes "github.com/sge-network/sge/x/reward/types"
	subtypes "github.com/sge-network/sge/x/subaccount/types"
)

var exportMods []string

var customStores = []string{bettypes.StoreKey, markettypes.StoreKey, obtypes.StoreKey, housetypes.StoreKey,
	ovmtypes.StoreKey, rewardtypes.StoreKey, subtypes.StoreKey, minttypes.StoreKey}

// rawStore returns every key/value of a store as hex strings (committed state).
func rawStore(a *app.SgeApp, name string, ctx sdk.Context) map[string]string {
	r := map[string]string{}
	it := ctx.KVStore(a.GetKey(name)).Iterator(nil, nil)
	defer it.Close()
	for ; it.Valid(); it.Next() {
		r[fmt.Sprintf("%x", it.Key())] = fmt.Sprintf("%x", it.Value())
	}
	// the subaccount id counter reads as 1 when it was never written (keeper Peek); InitGenesis writes it
	if name == subtypes.StoreKey {
		if _, ok := r["00"]; !ok {
			r["00"] = "0000000000000001"
		}
	}
	return r
}

func committedCtx(c *Chain) sdk.Context {
	return c.App.NewContext(true, c.header())
}

// validateExported runs the custom modules' own genesis validation on the exported app state.
func validateExported(c *Chain, appState []byte) []string {
	var v []string
	var gs map[string]json.RawMessage
	if err := json.Unmarshal(appState, &gs); err != nil {
		return []string{"C16 exported state is not JSON: " + err.Error()}
	}
	for _, m := range []string{bettypes.ModuleName, markettypes.ModuleName, obtypes.ModuleName, housetypes.ModuleName,
		ovmtypes.ModuleName, rewardtypes.ModuleName, subtypes.ModuleName, minttypes.ModuleName} {
		b, ok := app.ModuleBasics[m]
		if !ok {
			continue
		}
		func() {
			defer func() {
				if r := recover(); r != nil {
					v = append(v, fmt.Sprintf("C16 genesis validation of module %s panics on the exported state: %v", m, r))
				}
			}()
			gb, okb := b.(module.HasGenesisBasics)
			if !okb {
				return
			}
			if err := gb.ValidateGenesis(c.App.AppCodec(), c.Enc.TxConfig, gs[m]); err != nil {
				v = append(v, fmt.Sprintf("C16 exported genesis of module %s fails its own validation: %s", m, trunc(err.Error(), 200)))
			}
		}()
	}
	return v
}

// restart starts a fresh app from an export of c taken at the current block boundary.
func restart(c *Chain, exp servertypes.ExportedApp) (nc *Chain, err error) {
	defer func() {
		if r := recover(); r != nil {
			err = fmt.Errorf("InitChain from the exported state panics: %v", r)
		}
	}()
	nc = &Chain{Cfg: c.Cfg, rng: c.rng, Acc: c.Acc, Keys: c.Keys, ValAddr: c.ValAddr}
	nc.Enc = app.MakeEncodingConfig()
	nc.App = app.NewSgeApp(log.NewNopLogger(), tmdb.NewMemDB(), nil, true, map[int64]bool{}, "", 0, nc.Enc,
		simtestutil.EmptyAppOptions{}, []wasmkeeper.Option{})
	var vals []abci.ValidatorUpdate
	for _, gv := range exp.Validators {
		pk, e := cryptoenc.PubKeyToProto(gv.PubKey)
		if e != nil {
			return nil, e
		}
		vals = append(vals, abci.ValidatorUpdate{PubKey: pk, Power: gv.Power})
	}
	_ = tmtypes.ABCIPubKeyTypeEd25519
	// modules that were not exported start from their default genesis
	var gs map[string]json.RawMessage
	if e := json.Unmarshal(exp.AppState, &gs); e != nil {
		return nil, e
	}
	for name, raw := range app.NewDefaultGenesisState() {
		if _, ok := gs[name]; !ok {
			gs[name] = raw
		}
	}
	full, e := json.Marshal(gs)
	if e != nil {
		return nil, e
	}
	exp.AppState = full
	nc.App.InitChain(abci.RequestInitChain{
		Time:            time.Unix(c.Time, 0).UTC(),
		Validators:      vals,
		ConsensusParams: exp.ConsensusParams,
		AppStateBytes:   exp.AppState,
		InitialHeight:   exp.Height,
	})
	nc.Height = exp.Height - 1
	nc.Time = c.Time
	return nc, nil
}

func diffStores(a, b map[string]string) string {
	for k, v := range a {
		if w, ok := b[k]; !ok {
			return "key " + trunc(k, 60) + " missing after re-import"
		} else if w != v {
			return "value under key " + trunc(k, 60) + " differs after re-import"
		}
	}
	for k := range b {
		if _, ok := a[k]; !ok {
			return "key " + trunc(k, 60) + " appears only after re-import"
		}
	}
	return ""
}

func genesisCheck(in, out string, every int) {
	f, err := os.Open(in)
	if err != nil {
		panic(err)
	}
	defer f.Close()
	var ops []Op
	var gen string
	sc := bufio.NewScanner(f)
	sc.Buffer(make([]byte, 1<<20), 1<<26)
	for sc.Scan() {
		l := sc.Text()
		if strings.HasPrefix(l, "GEN ") {
			gen = l
		} else if strings.HasPrefix(l, "OP ") {
			ops = append(ops, ParseOp(l[3:]))
		}
	}
	h := newHistWriter(out)
	defer h.close()
	c, err := NewChain(ParseGenLine(gen))
	if err != nil {
		h.line("BOOTFAIL " + err.Error())
		return
	}
	nblocks := 0
	for _, o := range ops {
		if o.Kind == "END" {
			nblocks++
		}
	}
	mid := nblocks / 2
	blk, checks := 0, 0
	var twin *Chain // the restarted chain that continues the history from the middle boundary
	twinOK := true
	for i, o := range ops {
		res, _ := c.Exec(o)
		short := res
		if strings.HasPrefix(res, "panic") {
			short = "panic"
		}
		if twin != nil && twinOK {
			r2, _ := twin.Exec(o)
			s2 := r2
			if strings.HasPrefix(r2, "panic") {
				s2 = "panic"
			}
			if s2 != short {
				h.line(fmt.Sprintf("MON C16 after a restart at block %d operation %d (%s) returns %s, on the chain that was never restarted %s", mid, i, o.Kind, s2, short))
				twinOK = false
			} else if short != "panic" {
				d1, d2 := c.Dump(), twin.Dump()
				if strings.Join(d1, "\n") != strings.Join(d2, "\n") {
					k := 0
					for k < len(d1) && k < len(d2) && d1[k] == d2[k] {
						k++
					}
					a, b := "<none>", "<none>"
					if k < len(d1) {
						a = d1[k]
					}
					if k < len(d2) {
						b = d2[k]
					}
					h.line(fmt.Sprintf("MON C16 after a restart at block %d the state diverges at operation %d (%s): %s vs %s", mid, i, o.Kind, trunc(b, 100), trunc(a, 100)))
					twinOK = false
				}
			}
			if o.Kind == "END" && s2 == "ok" {
				twin.Commit()
			}
		}
		if short == "panic" {
			break
		}
		if o.Kind != "END" {
			continue
		}
		c.Commit()
		blk++
		if blk%every != 0 && blk != mid {
			continue
		}
		// ---- export / validate / import / compare at this boundary
		checks++
		vs, nc := boundaryCheck(c, blk)
		for _, v := range vs {
			if strings.HasPrefix(v, "GSKIP ") {
				h.line(v)
			} else {
				h.line("MON " + v)
			}
		}
		h.line(fmt.Sprintf("GCHK %d", blk))
		if blk == mid && nc != nil {
			twin = nc
		}
	}
	h.line(fmt.Sprintf("GCHECKS %d twin=%v", checks, twin != nil && twinOK))
	_ = bytes.Equal
	_ = strconv.Itoa
}

// boundaryCheck exports the committed state of c, validates it, restarts from it and compares the raw
// stores of the custom modules; returns the violation lines and the restarted chain.
func boundaryCheck(c *Chain, blk int) ([]string, *Chain) {
	var v []string
	var exp servertypes.ExportedApp
	var eerr error
	if exportMods == nil {
		for name := range app.ModuleBasics {
			if name != "08-wasm" {
				exportMods = append(exportMods, name)
			}
		}
		sortStrings(exportMods)
	}
	for try := 0; try < 8; try++ {
		eerr = nil
		func() {
			defer func() {
				if r := recover(); r != nil {
					eerr = fmt.Errorf("panic: %v", r)
				}
			}()
			exp, eerr = c.App.ExportAppStateAndValidators(false, nil, exportMods)
		}()
		if eerr == nil || !strings.Contains(eerr.Error(), "does not exist") {
			break
		}
		bad := strings.TrimSuffix(strings.TrimPrefix(eerr.Error(), "panic: module "), " does not exist")
		var l []string
		for _, m := range exportMods {
			if m != bad {
				l = append(l, m)
			}
		}
		exportMods = l
	}
	if eerr != nil {
		return []string{fmt.Sprintf("C16 export at block %d fails: %s", blk, trunc(eerr.Error(), 200))}, nil
	}
	for _, x := range validateExported(c, exp.AppState) {
		v = append(v, x+fmt.Sprintf(" (block %d)", blk))
	}
	nc, rerr := restart(c, exp)
	if rerr != nil && strings.Contains(rerr.Error(), "expiration time of authorization") {
		// SDK x/authz (not a custom module, outside the claim): a grant expiring exactly at the block time is not pruned yet
		// (BeginBlock removes expiry < block time) but authz InitGenesis refuses it.  Such a grant can no longer be used
		// in any later block, so it is dropped from the exported authz state and the restart is retried.
		exp.AppState = stripExpiringGrants(exp.AppState, c.Time)
		v = append(v, fmt.Sprintf("GSKIP authz grant expiring exactly at the export time dropped before re-import (block %d)", blk))
		nc, rerr = restart(c, exp)
	}
	if rerr != nil {
		return append(v, fmt.Sprintf("C16 restart from the export at block %d fails: %s", blk, trunc(rerr.Error(), 300))), nil
	}
	octx := committedCtx(c)
	nctx := nc.App.NewContext(false, nc.header())
	for _, st := range customStores {
		if d := diffStores(rawStore(c.App, st, octx), rawStore(nc.App, st, nctx)); d != "" {
			v = append(v, fmt.Sprintf("C16 store %s: %s (block %d)", st, d, blk))
		}
	}
	// the same with the custom modules exported under the block's own context (header time set), which is what an
	// in-place export from an upgrade handler or a module test sees; app/export.go uses a header without time
	if te := timedExports(c); te != nil {
		var gs map[string]json.RawMessage
		if json.Unmarshal(exp.AppState, &gs) == nil {
			changed := []string{}
			for m, raw := range te {
				if canonJSON(raw) != canonJSON(gs[m]) {
					gs[m] = raw
					changed = append(changed, m)
				}
			}
			if len(changed) > 0 {
				sortStrings(changed)
				exp2 := exp
				exp2.AppState, _ = json.Marshal(gs)
				nc2, rerr2 := restart(c, exp2)
				if rerr2 != nil {
					v = append(v, fmt.Sprintf("C16 restart from the export under the block context at block %d fails: %s", blk, trunc(rerr2.Error(), 300)))
				} else {
					nctx2 := nc2.App.NewContext(false, nc2.header())
					for _, st := range customStores {
						if d := diffStores(rawStore(c.App, st, octx), rawStore(nc2.App, st, nctx2)); d != "" {
							v = append(v, fmt.Sprintf("C16 store %s (modules %s exported under the block context, time %d): %s (block %d)", st, strings.Join(changed, ","), c.Time, d, blk))
						}
					}
				}
			}
		}
	}
	return v, nc
}

func canonJSON(raw json.RawMessage) string {
	var x interface{}
	if json.Unmarshal(raw, &x) != nil {
		return string(raw)
	}
	b, _ := json.Marshal(x)
	return string(b)
}

// timedExports calls the custom modules' ExportGenesis with the committed state and the current block header.
func timedExports(c *Chain) (m map[string]json.RawMessage) {
	defer func() {
		if r := recover(); r != nil {
			m = nil
		}
	}()
	ctx := committedCtx(c)
	cdc := c.App.AppCodec()
	m = map[string]json.RawMessage{}
	m[bettypes.ModuleName] = cdc.MustMarshalJSON(betmod.ExportGenesis(ctx, *c.App.BetKeeper))
	m[markettypes.ModuleName] = cdc.MustMarshalJSON(marketmod.ExportGenesis(ctx, *c.App.MarketKeeper))
	m[obtypes.ModuleName] = cdc.MustMarshalJSON(obmod.ExportGenesis(ctx, *c.App.OrderbookKeeper))
	m[housetypes.ModuleName] = cdc.MustMarshalJSON(housemod.ExportGenesis(ctx, *c.App.HouseKeeper))
	m[ovmtypes.ModuleName] = cdc.MustMarshalJSON(ovmmod.ExportGenesis(ctx, *c.App.OVMKeeper))
	m[rewardtypes.ModuleName] = cdc.MustMarshalJSON(rewardmod.ExportGenesis(ctx, *c.App.RewardKeeper))
	m[subtypes.ModuleName] = cdc.MustMarshalJSON(submod.ExportGenesis(ctx, *c.App.SubaccountKeeper))
	m[minttypes.ModuleName] = cdc.MustMarshalJSON(mintmod.ExportGenesis(ctx, c.App.MintKeeper))
	return m
}

// rgenesisCheck: the same for a reward-machine history (rhist file)
func rgenesisCheck(in, out string, every int) {
	f, err := os.Open(in)
	if err != nil {
		panic(err)
	}
	defer f.Close()
	sc := bufio.NewScanner(f)
	sc.Buffer(make([]byte, 1<<20), 1<<26)
	h := newHistWriter(out)
	defer h.close()
	var c *Chain
	blk, checks := 0, 0
	for sc.Scan() {
		l := sc.Text()
		var res string
		isEnd := false
		switch {
		case strings.HasPrefix(l, "GEN "):
			c, err = NewChain(parseRGenLine(l))
			if err != nil {
				h.line("BOOTFAIL " + err.Error())
				return
			}
			continue
		case strings.HasPrefix(l, "EXT "):
			res, _ = c.execExt(ParseExt(l[4:]))
		case strings.HasPrefix(l, "OP RSYNC"):
			continue
		case strings.HasPrefix(l, "OP "):
			o := ParseROp(l[3:])
			res, _ = c.RExec(o)
			isEnd = o.Kind == "END"
		default:
			continue
		}
		if c.Halted || strings.HasPrefix(res, "panic") {
			break
		}
		if !isEnd {
			continue
		}
		c.Commit()
		blk++
		if blk%every != 0 {
			continue
		}
		checks++
		v, _ := boundaryCheck(c, blk)
		for _, x := range v {
			if strings.HasPrefix(x, "GSKIP ") {
				h.line(x)
			} else {
				h.line("MON " + x)
			}
		}
		h.line(fmt.Sprintf("GCHK %d", blk))
	}
	h.line(fmt.Sprintf("GCHECKS %d twin=false", checks))
}

func init() {
	extraModes["rgenesis"] = func(args []string) {
		every := 5
		if len(args) > 2 {
			every, _ = strconv.Atoi(args[2])
		}
		rgenesisCheck(args[0], args[1], every)
	}
	extraModes["genesis"] = func(args []string) {
		every := 5
		if len(args) > 2 {
			every, _ = strconv.Atoi(args[2])
		}
		genesisCheck(args[0], args[1], every)
	}
}

// stripExpiringGrants removes from the exported authz genesis the grants whose expiration is not after `now`.
func stripExpiringGrants(appState json.RawMessage, now int64) json.RawMessage {
	var gs map[string]json.RawMessage
	if err := json.Unmarshal(appState, &gs); err != nil {
		return appState
	}
	var az map[string]json.RawMessage
	if err := json.Unmarshal(gs["authz"], &az); err != nil {
		return appState
	}
	var grants []map[string]json.RawMessage
	if err := json.Unmarshal(az["authorization"], &grants); err != nil {
		return appState
	}
	var keep []map[string]json.RawMessage
	for _, g := range grants {
		var e *time.Time
		if raw, ok := g["expiration"]; ok && string(raw) != "null" {
			var t time.Time
			if err := json.Unmarshal(raw, &t); err == nil {
				e = &t
			}
		}
		if e != nil && e.Unix() <= now {
			continue
		}
		keep = append(keep, g)
	}
	if keep == nil {
		keep = []map[string]json.RawMessage{}
	}
	az["authorization"], _ = json.Marshal(keep)
	gs["authz"], _ = json.Marshal(az)
	out, err := json.Marshal(gs)
	if err != nil {
		return appState
	}
	return out
}

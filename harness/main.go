// main.go — harness entry points.
//   sgeh hist  <profile> <seed> <nhist> <nops> <outdir>    generate+execute histories, write hist_<k>.txt
//   sgeh replay <file> <outfile>                             re-execute the ops of a history file
//   sgeh kern  <seed> <n> <outfile>                          kernel stream (pure functions)
package main

import (
	"runtime/coverage"
	"bufio"
	"crypto/sha256"
	"fmt"
	"math/rand"
	"os"
	"path/filepath"
	"strconv"
	"strings"

	abci "github.com/cometbft/cometbft/abci/types"
	sdk "github.com/cosmos/cosmos-sdk/types"
)

func eventDigest(evs []abci.Event) string {
	hh := sha256.New()
	for _, e := range evs {
		hh.Write([]byte(e.Type))
		for _, a := range e.Attributes {
			hh.Write([]byte{0})
			hh.Write([]byte(a.Key))
			hh.Write([]byte{1})
			hh.Write([]byte(a.Value))
		}
		hh.Write([]byte{2})
	}
	return fmt.Sprintf("%d:%x", len(evs), hh.Sum(nil)[:12])
}

func genLine(c *Chain) string {
	cfg := c.Cfg
	s := fmt.Sprintf("GEN %d %d %s %d P %d %s %s %d %d %d %s %s %d", cfg.NAcc, cfg.Balance, c.SupplyAtGenesis(), cfg.StartTime,
		cfg.Bet.BatchSettlementCount, cfg.Bet.Constraints.MinAmount, cfg.Bet.Constraints.Fee,
		cfg.Orderbook.MaxOrderBookParticipations, cfg.Orderbook.BatchSettlementCount, cfg.Orderbook.RequeueThreshold,
		cfg.House.MinDeposit, cfg.House.HouseParticipationFee.BigInt(), cfg.House.MaxWithdrawalCount)
	s += fmt.Sprintf(" V %d", cfg.NKeys)
	for i := 0; i < cfg.NKeys; i++ {
		s += fmt.Sprintf(" %d", i)
	}
	s += fmt.Sprintf(" M %d %s %d", cfg.Mint.BlocksPerYear, cfg.Mint.ExcludeAmount, len(cfg.Mint.Phases))
	for _, p := range cfg.Mint.Phases {
		s += fmt.Sprintf(" %s %s", p.Inflation.BigInt(), p.YearCoefficient.BigInt())
	}
	s += fmt.Sprintf(" S %s %s", b2s(cfg.Subaccount.WagerEnabled), b2s(cfg.Subaccount.DepositEnabled))
	return s
}

// SupplyAtGenesis: user balances plus the bonded pool of the single validator.
func (c *Chain) SupplyAtGenesis() string {
	return fmt.Sprintf("%d", int64(c.Cfg.NAcc)*c.Cfg.Balance+1_000_000)
}

type histWriter struct {
	w *bufio.Writer
	f *os.File
}

func newHistWriter(path string) *histWriter {
	f, err := os.Create(path)
	if err != nil {
		panic(err)
	}
	return &histWriter{w: bufio.NewWriterSize(f, 1<<20), f: f}
}
func (h *histWriter) line(s string) { h.w.WriteString(s); h.w.WriteByte('\n') }
func (h *histWriter) close()        { h.w.Flush(); h.f.Close() }

// step executes one op, writes OP/RES/ST lines, runs the Go-side monitors.
func step(c *Chain, h *histWriter, o Op, mon *Monitors) string {
	res, log := c.Exec(o)
	enc := o.Encode()
	if o.Tk.Forge != 0 {
		enc += fmt.Sprintf(" #f=%d", o.Tk.Forge)
	}
	if o.Tk2.Forge != 0 {
		enc += fmt.Sprintf(" #f2=%d", o.Tk2.Forge)
	}
	if o.Dry != "" {
		enc += " #dry=" + o.Dry
	}
	h.line("OP " + enc)
	short := res
	if strings.HasPrefix(res, "panic") {
		short = "panic"
		h.line("LOG " + strings.ReplaceAll(res, "\n", " "))
	} else if res == "err" && log != "" {
		l := strings.ReplaceAll(log, "\n", " ")
		if len(l) > 200 {
			l = l[:200]
		}
		h.line("LOG " + l)
	}
	h.line("RES " + short)
	if short != "panic" {
		dump := c.Dump()
		for _, l := range dump {
			h.line("ST " + l)
		}
		if mon != nil {
			for _, v := range mon.CheckAtomic(o, short, dump) {
				h.line("MON " + v)
			}
			for _, v := range mon.Check(c, o, short) {
				h.line("MON " + v)
			}
		}
	} else if mon != nil {
		for _, v := range mon.OnPanic(c, o, res) {
			h.line("MON " + v)
		}
	}
	if o.Kind == "BEGIN" && short == "ok" {
		h.line("EVD " + eventDigest(c.LastBegin.Events))
	}
	if o.Kind == "END" && short == "ok" {
		h.line("EVD " + eventDigest(c.LastEnd.Events))
		hash := c.Commit()
		h.line(fmt.Sprintf("HASH %d %x", c.Height, hash))
	}
	if c.LastTx != nil {
		h.line("EVD " + eventDigest(c.LastTx.Events) + fmt.Sprintf(" code=%d gas=%d", c.LastTx.Code, c.LastTx.GasUsed))
		c.LastTx = nil
	}
	return short
}

func runHistory(profile string, seed int64, nops int, path string) map[string]int {
	r := rand.New(rand.NewSource(seed))
	cfg := GenesisFor(profile, r)
	c, err := NewChain(cfg)
	h := newHistWriter(path)
	defer h.close()
	if err != nil {
		h.line("BOOTFAIL " + strings.ReplaceAll(err.Error(), "\n", " "))
		return map[string]int{"bootfail": 1}
	}
	h.line(genLine(c))
	g := NewGen(c, profile, r)
	mon := NewMonitors()
	defer func() { h.line(fmt.Sprintf("MONCOUNT %d", mon.evals)) }()
	t := cfg.StartTime
	done := 0
	for done < nops && !c.Halted {
		t += int64(1 + r.Intn(pick(r, []int{5, 30, 300})))
		t = g.boundaryTime(t)
		o := Op{Kind: "BEGIN", T: t}
		res := step(c, h, o, mon)
		g.Observe(o, res)
		done++
		if res == "panic" {
			break
		}
		ntx := r.Intn(5)
		if profile == "mint" {
			ntx = r.Intn(2)
		}
		for i := 0; i < ntx && done < nops; i++ {
			var o Op
			if profile == "mint" {
				o = g.genSend()
			} else {
				o = g.NextTx()
			}
			res := step(c, h, o, mon)
			g.Observe(o, res)
			done++
		}
		for profile != "mint" && g.HasPending() && done < nops+8 { // a burst is finished inside its block
			o := g.NextTx()
			res := step(c, h, o, mon)
			g.Observe(o, res)
			done++
		}
		o = Op{Kind: "END"}
		res = step(c, h, o, mon)
		g.Observe(o, res)
		done++
	}
	return g.stats
}

func replayFile(in, out string) {
	f, err := os.Open(in)
	if err != nil {
		panic(err)
	}
	defer f.Close()
	sc := bufio.NewScanner(f)
	sc.Buffer(make([]byte, 1<<20), 1<<26)
	var c *Chain
	h := newHistWriter(out)
	defer h.close()
	mon := NewMonitors()
	var lines []string
	for sc.Scan() {
		lines = append(lines, sc.Text())
	}
	simulate := os.Getenv("VERIF_SIMULATE") == "1"
	for k, l := range lines {
		switch {
		case strings.HasPrefix(l, "GEN "):
			cfg := ParseGenLine(l)
			c, err = NewChain(cfg)
			if err != nil {
				h.line("BOOTFAIL " + err.Error())
				return
			}
			h.line(genLine(c))
		case strings.HasPrefix(l, "OP "):
			if c == nil {
				panic("OP before GEN")
			}
			o := ParseOp(l[3:])
			if simulate && o.Kind != "BEGIN" && o.Kind != "END" && !c.Halted && c.Height >= 2 {
				simulateAhead(c, lines[k+1:], 3)
			}
			step(c, h, o, mon)
		}
	}
}

// simulateAhead simulates (never delivers) the next n transactions of the history, as a node does for transactions
// waiting in its mempool.  A deterministic state machine computes the same blocks with or without it.
func simulateAhead(c *Chain, rest []string, n int) {
	saved := c.rng
	c.rng = rand.New(rand.NewSource(7))
	c.SimOnly = true
	defer func() { c.SimOnly = false; c.rng = saved; c.LastTx = nil }()
	for _, l := range rest {
		if n == 0 {
			return
		}
		if !strings.HasPrefix(l, "OP ") {
			continue
		}
		o := ParseOp(l[3:])
		if o.Kind == "BEGIN" || o.Kind == "END" {
			continue
		}
		func() {
			defer func() { _ = recover() }()
			c.Exec(o)
		}()
		n--
	}
}

func main() {
	// coverage measurement of the generators (tools/coverage.sh): the binary is then built with -cover; the main package comes
	// from a build overlay and gets no automatic emission hook, so the counters are written explicitly
	if d := os.Getenv("VERIF_COVDIR"); d != "" {
		defer func() {
			if e := coverage.WriteMetaDir(d); e != nil {
				fmt.Fprintln(os.Stderr, "coverage:", e)
			}
			if e := coverage.WriteCountersDir(d); e != nil {
				fmt.Fprintln(os.Stderr, "coverage:", e)
			}
		}()
	}
	sdk.GetConfig() // bech32 prefixes are set by app init
	if len(os.Args) < 2 {
		fmt.Println("usage: sgeh hist|replay|kern ...")
		os.Exit(2)
	}
	switch os.Args[1] {
	case "hist":
		profile := os.Args[2]
		seed, _ := strconv.ParseInt(os.Args[3], 10, 64)
		nh, _ := strconv.Atoi(os.Args[4])
		nops, _ := strconv.Atoi(os.Args[5])
		dir := os.Args[6]
		first := 0
		if len(os.Args) > 7 {
			first, _ = strconv.Atoi(os.Args[7])
		}
		os.MkdirAll(dir, 0o755)
		tot := map[string]int{}
		for k := first; k < first+nh; k++ {
			st := runHistory(profile, seed*1000003+int64(k), nops, filepath.Join(dir, fmt.Sprintf("hist_%s_%d_%d.txt", profile, seed, k)))
			for a, b := range st {
				tot[a] += b
			}
		}
		var keys []string
		for k := range tot {
			keys = append(keys, k)
		}
		sortStrings(keys)
		for _, k := range keys {
			fmt.Printf("STAT %s %d\n", k, tot[k])
		}
	case "replay":
		replayFile(os.Args[2], os.Args[3])
	case "kern":
		seed, _ := strconv.ParseInt(os.Args[2], 10, 64)
		n, _ := strconv.Atoi(os.Args[3])
		kernStream(seed, n, os.Args[4])
	default:
		if f, ok := extraModes[os.Args[1]]; ok {
			f(os.Args[2:])
			return
		}
		fmt.Println("unknown mode")
		os.Exit(2)
	}
}

// extraModes lets additional harness files (same package) register their own entry points in init().
var extraModes = map[string]func(args []string){}

// reward_ops.go — operations of the reward machine (coq/Model/Reward.v `rop`) and their text encoding,
// shared with coq/Extract/driver_reward.ml.  Grammar: harness/REWARD_NOTES.md.
package main

import (
	"fmt"
	"math/big"
	"strconv"
	"strings"
)

// RAmt is a ticket-level RewardAmount: a nil *big.Int is a nil sdkmath.Int / LegacyDec (JSON field absent).
type RAmt struct {
	Present                    bool // false: the payload has no reward_amount object at all
	Main, Sub, MainPct, SubPct *big.Int
	Unlock                     int64
}

type RLock struct {
	TS  int64
	Amt *big.Int
}

// ROp is a tagged union; unused fields are zero.
type ROp struct {
	Kind   string
	T      int64
	Signer int64
	Tk     Ticket
	UID    int64
	Conf   [][2]int64 // (category, cap per account)
	// campaign create
	Total                               *big.Int
	Prom, Start, End, Cat, Ty, AType    int64
	Active                              bool
	Cap                                 int64
	RA                                  RAmt
	Constr                              int // 0: no constraints, 1: constraints without max_bet_amount, 2: ConstrMax
	ConstrMax                           *big.Int
	Topup, Amount                       *big.Int
	// grant
	Camp                                int64
	HasKyc                              bool
	Ky                                  Kyc
	Receiver, Source, Peer, BetUID      int64
	// authz
	Granter, Grantee, GKind, Exp int64
	Limit                        *big.Int
	// sync (modelled interfaces)
	Creator, Result int64
	Main            bool
	Acct            int64
	Val             *big.Int
	// subaccount create
	Owner int64
	Locks []RLock
	// send
	From, To int64
	// EXT: a real betting-module operation (not part of the reward machine)
	Ext     *Op
	ExtMain bool
}

func optS(x *big.Int) string {
	if x == nil {
		return "nil"
	}
	return x.String()
}

func confS(c [][2]int64) string {
	s := []string{strconv.Itoa(len(c))}
	for _, x := range c {
		s = append(s, fmt.Sprintf("%d %d", x[0], x[1]))
	}
	return strings.Join(s, " ")
}

func (o ROp) Encode() string {
	switch o.Kind {
	case "BEGIN":
		return fmt.Sprintf("BEGIN %d", o.T)
	case "END":
		return "END"
	case "PCREATE", "PCONF":
		return fmt.Sprintf("%s %d %s %d %s", o.Kind, o.Signer, o.Tk.enc(), o.UID, confS(o.Conf))
	case "CCREATE":
		ra := "-"
		if o.RA.Present {
			ra = fmt.Sprintf("+ %s %s %d %s %s", optS(o.RA.Main), optS(o.RA.Sub), o.RA.Unlock, optS(o.RA.MainPct), optS(o.RA.SubPct))
		}
		cn := "-"
		switch o.Constr {
		case 1:
			cn = "nil"
		case 2:
			cn = o.ConstrMax.String()
		}
		return fmt.Sprintf("CCREATE %d %s %d %s %d %d %d %d %d %d %s %d %s %s", o.Signer, o.Tk.enc(), o.UID, o.Total, o.Prom,
			o.Start, o.End, o.Cat, o.Ty, o.AType, b2s(o.Active), o.Cap, ra, cn)
	case "CUPDATE":
		return fmt.Sprintf("CUPDATE %d %s %d %s %d %s", o.Signer, o.Tk.enc(), o.UID, o.Topup, o.End, b2s(o.Active))
	case "CWITHDRAW":
		return fmt.Sprintf("CWITHDRAW %d %s %d %s %d", o.Signer, o.Tk.enc(), o.UID, o.Amount, o.Prom)
	case "RGRANT":
		return fmt.Sprintf("RGRANT %d %s %d %d %s %s %d %d %d %d", o.Signer, o.Tk.enc(), o.UID, o.Camp, b2s(o.HasKyc), o.Ky.enc(),
			o.Receiver, o.Source, o.Peer, o.BetUID)
	case "AGRANT":
		return fmt.Sprintf("AGRANT %d %d %d %s %d", o.Granter, o.Grantee, o.GKind, o.Limit, o.Exp)
	case "AREVOKE":
		return fmt.Sprintf("AREVOKE %d %d %d", o.Granter, o.Grantee, o.GKind)
	case "RSYNCBET":
		return fmt.Sprintf("RSYNCBET %d %d %s %d %s", o.UID, o.Creator, o.Amount, o.Result, b2s(o.Main))
	case "RSYNCBAL":
		return fmt.Sprintf("RSYNCBAL %d %s", o.Acct, o.Val)
	case "SUBCREATE":
		s := fmt.Sprintf("SUBCREATE %d %d %d", o.Signer, o.Owner, len(o.Locks))
		for _, l := range o.Locks {
			s += fmt.Sprintf(" %d %s", l.TS, l.Amt)
		}
		return s
	case "SEND":
		return fmt.Sprintf("SEND %d %d %s", o.From, o.To, o.Amount)
	case "EXT":
		s := o.Ext.Encode()
		if o.Ext.Tk.Forge != 0 {
			s += fmt.Sprintf(" #f=%d", o.Ext.Tk.Forge)
		}
		if o.ExtMain {
			s += " #main=1"
		}
		return s
	}
	panic("unknown rop kind " + o.Kind)
}

func (r *toks) opt() *big.Int {
	if r.t[r.i] == "nil" {
		r.i++
		return nil
	}
	return r.big()
}

func (r *toks) conf() [][2]int64 {
	n := int(r.n())
	var l [][2]int64
	for i := 0; i < n; i++ {
		l = append(l, [2]int64{r.n(), r.n()})
	}
	return l
}

// ParseROp parses the text after "OP ".
func ParseROp(line string) ROp {
	r := &toks{t: strings.Fields(line)}
	o := ROp{Kind: r.s()}
	switch o.Kind {
	case "BEGIN":
		o.T = r.n()
	case "END":
	case "PCREATE", "PCONF":
		o.Signer, o.Tk, o.UID, o.Conf = r.n(), r.tk(), r.n(), r.conf()
	case "CCREATE":
		o.Signer, o.Tk, o.UID, o.Total, o.Prom = r.n(), r.tk(), r.n(), r.big(), r.n()
		o.Start, o.End, o.Cat, o.Ty, o.AType, o.Active, o.Cap = r.n(), r.n(), r.n(), r.n(), r.n(), r.b(), r.n()
		if r.s() == "+" {
			o.RA.Present = true
			o.RA.Main, o.RA.Sub, o.RA.Unlock, o.RA.MainPct, o.RA.SubPct = r.opt(), r.opt(), r.n(), r.opt(), r.opt()
		}
		switch x := r.s(); x {
		case "-":
			o.Constr = 0
		case "nil":
			o.Constr = 1
		default:
			o.Constr = 2
			o.ConstrMax = mustBig(x)
		}
	case "CUPDATE":
		o.Signer, o.Tk, o.UID, o.Topup, o.End, o.Active = r.n(), r.tk(), r.n(), r.big(), r.n(), r.b()
	case "CWITHDRAW":
		o.Signer, o.Tk, o.UID, o.Amount, o.Prom = r.n(), r.tk(), r.n(), r.big(), r.n()
	case "RGRANT":
		o.Signer, o.Tk, o.UID, o.Camp, o.HasKyc, o.Ky = r.n(), r.tk(), r.n(), r.n(), r.b(), r.ky()
		o.Receiver, o.Source, o.Peer, o.BetUID = r.n(), r.n(), r.n(), r.n()
	case "AGRANT":
		o.Granter, o.Grantee, o.GKind, o.Limit, o.Exp = r.n(), r.n(), r.n(), r.big(), r.n()
	case "AREVOKE":
		o.Granter, o.Grantee, o.GKind = r.n(), r.n(), r.n()
	case "RSYNCBET":
		o.UID, o.Creator, o.Amount, o.Result, o.Main = r.n(), r.n(), r.big(), r.n(), r.b()
	case "RSYNCBAL":
		o.Acct, o.Val = r.n(), r.big()
	case "SUBCREATE":
		o.Signer, o.Owner = r.n(), r.n()
		n := int(r.n())
		for i := 0; i < n; i++ {
			o.Locks = append(o.Locks, RLock{TS: r.n(), Amt: r.big()})
		}
	case "SEND":
		o.From, o.To, o.Amount = r.n(), r.n(), r.big()
	default:
		panic("unknown rop " + o.Kind)
	}
	for r.i < len(r.t) {
		x := r.s()
		if strings.HasPrefix(x, "#f=") {
			v, _ := strconv.Atoi(x[3:])
			o.Tk.Forge = v
		}
	}
	return o
}

// ParseExt parses the text after "EXT " (a betting-module Op plus the optional "#main=1" marker).
func ParseExt(line string) ROp {
	main := strings.Contains(line, "#main=1")
	op := ParseOp(strings.TrimSpace(strings.ReplaceAll(line, "#main=1", "")))
	return ROp{Kind: "EXT", Ext: &op, ExtMain: main}
}

// encWithForge is the OP text including the harness-only forgery suffix.
func (o ROp) encWithForge() string {
	s := o.Encode()
	if o.Kind != "EXT" && o.Tk.Forge != 0 {
		s += fmt.Sprintf(" #f=%d", o.Tk.Forge)
	}
	return s
}

// monitors_bet.go — C01..C05, C07..C10 stated directly over the real state (see properties.jsonl).
package main

import (
	"fmt"
	"math/big"
	"sort"


	bettypes "github.com/sge-network/sge/x/bet/types"
	markettypes "github.com/sge-network/sge/x/market/types"
	obtypes "github.com/sge-network/sge/x/orderbook/types"
)

func z() *big.Int                 { return new(big.Int) }
func add(a, b *big.Int) *big.Int  { return new(big.Int).Add(a, b) }
func sub(a, b *big.Int) *big.Int  { return new(big.Int).Sub(a, b) }
func isResolved(st markettypes.MarketStatus) bool {
	return st == markettypes.MarketStatus_MARKET_STATUS_RESULT_DECLARED || st == markettypes.MarketStatus_MARKET_STATUS_CANCELED ||
		st == markettypes.MarketStatus_MARKET_STATUS_ABORTED
}
func betSettled(b *sBet) bool { return b.Status == bettypes.Bet_STATUS_SETTLED }

// owed per market: (pool, betfee, housefee)
func (s *Snap) owed() map[string][3]*big.Int {
	r := map[string][3]*big.Int{}
	get := func(m string) [3]*big.Int {
		if x, ok := r[m]; ok {
			return x
		}
		x := [3]*big.Int{z(), z(), z()}
		r[m] = x
		return x
	}
	for m, ps := range s.Parts {
		x := get(m)
		for _, p := range ps {
			if !p.IsSettled {
				x[0].Add(x[0], p.Liquidity.BigInt())
				x[0].Add(x[0], p.ActualProfit.BigInt())
				x[2].Add(x[2], p.Fee.BigInt())
			}
		}
	}
	for i := range s.Bets {
		b := &s.Bets[i]
		if !betSettled(b) {
			x := get(b.MarketUID)
			x[0].Add(x[0], b.Amount.BigInt())
			x[1].Add(x[1], b.Fee.BigInt())
		}
	}
	return r
}

func (m *Monitors) betMonitors(c *Chain, o Op, res string, prev, cur *Snap) []string {
	var v []string
	bad := func(p, f string, a ...interface{}) { v = append(v, p+" "+fmt.Sprintf(f, a...)) }

	// ---------------- C01 custody ----------------
	owed := cur.owed()
	tp, tb, th := z(), z(), z()
	for _, x := range owed {
		tp.Add(tp, x[0])
		tb.Add(tb, x[1])
		th.Add(th, x[2])
	}
	if cur.Pool.Cmp(tp) != 0 {
		bad("C01", "liquidity pool holds %s but %s is owed (after %s)", cur.Pool, tp, o.Kind)
	}
	if cur.BetFee.Cmp(tb) != 0 {
		bad("C01", "bet fee collector holds %s but unsettled bets carry %s (after %s)", cur.BetFee, tb, o.Kind)
	}
	if cur.HouseFee.Cmp(th) != 0 {
		bad("C01", "house fee collector holds %s but unpaid participations carry %s (after %s)", cur.HouseFee, th, o.Kind)
	}
	// what is owed to a depositor is never negative: a negative remaining liquidity means the depositor has taken tokens that entered
	// custody for somebody else (in the model 0 <= liquidity is part of the settlement-readiness invariant of every reachable state)
	for mk, ps := range cur.Parts {
		for _, p := range ps {
			if !p.IsSettled && p.Liquidity.IsNegative() {
				bad("C01", "participation %d of market %d has remaining liquidity %s: its depositor took more out of custody than it held for him", p.Index, uidNum(mk), p.Liquidity)
			}
		}
	}
	// once a market is fully settled (its book is marked settled and leaves the queues) nothing may be left in custody for it
	for mk, bk := range cur.Books {
		if bk.Status != obtypes.OrderBookStatus_ORDER_BOOK_STATUS_STATUS_SETTLED {
			continue
		}
		if x, ok := owed[mk]; ok && (x[0].Sign() != 0 || x[1].Sign() != 0 || x[2].Sign() != 0) {
			bad("C01", "market %d is settled (book marked settled) but custody still holds liquidity/stakes %s, bet fees %s, house fees %s for it", uidNum(mk), x[0], x[1], x[2])
		}
	}
	if prev != nil {
		po := prev.owed()
		touched := map[string]bool{}
		switch o.Kind {
		case "MADD", "MUPD", "MRES":
			touched[marketUID(o.UID)] = true
		case "DEP", "WDR", "SDEP", "SWDR":
			touched[marketUID(o.Mkt)] = true
		case "WAG", "SWAG":
			touched[marketUID(o.SelMkt)] = true
		case "END":
			for _, q := range prev.MQ {
				touched[q] = true
			}
			for _, q := range prev.BQ {
				touched[q] = true
			}
		}
		keys := map[string]bool{}
		for k := range po {
			keys[k] = true
		}
		for k := range owed {
			keys[k] = true
		}
		for k := range keys {
			a, okA := po[k]
			b, okB := owed[k]
			if !okA {
				a = [3]*big.Int{z(), z(), z()}
			}
			if !okB {
				b = [3]*big.Int{z(), z(), z()}
			}
			if !touched[k] && (a[0].Cmp(b[0]) != 0 || a[1].Cmp(b[1]) != 0 || a[2].Cmp(b[2]) != 0) {
				bad("C01", "%s changed what is owed on market %d which it does not name", o.Kind, uidNum(k))
			}
		}
	}

	// ---------------- C02 coverage ----------------
	for mk, ps := range cur.Parts {
		market := cur.Markets[mk]
		var ws []string
		switch market.Status {
		case markettypes.MarketStatus_MARKET_STATUS_RESULT_DECLARED:
			ws = market.WinnerOddsUIDs
		case markettypes.MarketStatus_MARKET_STATUS_ACTIVE, markettypes.MarketStatus_MARKET_STATUS_INACTIVE:
			for _, od := range market.Odds {
				ws = append(ws, od.UID)
			}
		}
		for _, p := range ps {
			if p.IsSettled {
				continue
			}
			for _, w := range ws {
				cover := add(p.Liquidity.BigInt(), p.ActualProfit.BigInt())
				for i := range cur.Bets {
					b := &cur.Bets[i]
					if b.MarketUID != mk || betSettled(b) {
						continue
					}
					for _, f := range b.BetFulfillment {
						if f.ParticipationIndex != p.Index {
							continue
						}
						if b.OddsUID == w {
							cover.Sub(cover, f.PayoutProfit.BigInt())
						} else {
							cover.Add(cover, f.BetAmount.BigInt())
						}
					}
				}
				if cover.Sign() < 0 {
					bad("C02", "participation %d of market %d is short by %s if outcome %d wins", p.Index, uidNum(mk), new(big.Int).Neg(cover), uidNum(w))
					if (o.Kind == "WDR" || o.Kind == "SWDR") && res == "ok" && o.Pidx == int64(p.Index) && marketUID(o.Mkt) == mk {
						// the same shortfall as a statement about the withdrawal that has just been paid
						bad("C09", "withdrawal from participation %d of market %d took liquidity needed to cover its bets: short by %s if outcome %d wins", p.Index, uidNum(mk), new(big.Int).Neg(cover), uidNum(w))
					}
				}
			}
		}
	}

	// ---------------- C10 records agree ----------------
	for mk, ps := range cur.Parts {
		if bk, ok := cur.Books[mk]; ok && bk.ParticipationCount != uint64(len(ps)) {
			bad("C10", "book %d counts %d participations but %d exist", uidNum(mk), bk.ParticipationCount, len(ps))
		}
		for _, p := range ps {
			stakes := z()
			pays := map[string]*big.Int{}
			for i := range cur.Bets {
				b := &cur.Bets[i]
				if b.MarketUID != mk {
					continue
				}
				for _, f := range b.BetFulfillment {
					if f.ParticipationIndex == p.Index {
						stakes.Add(stakes, f.BetAmount.BigInt())
						if pays[b.OddsUID] == nil {
							pays[b.OddsUID] = z()
						}
						pays[b.OddsUID].Add(pays[b.OddsUID], f.PayoutProfit.BigInt())
					}
				}
			}
			if stakes.Cmp(p.TotalBetAmount.BigInt()) != 0 {
				bad("C10", "participation %d of market %d reports total bet amount %s but its backing parts sum to %s", p.Index, uidNum(mk), p.TotalBetAmount, stakes)
			}
			exps := map[string]*big.Int{}
			for _, l := range [][]obtypes.ParticipationExposure{cur.Exp, cur.Hist} {
				for _, e := range l {
					if e.OrderBookUID == mk && e.ParticipationIndex == p.Index {
						if exps[e.OddsUID] == nil {
							exps[e.OddsUID] = z()
						}
						exps[e.OddsUID].Add(exps[e.OddsUID], e.Exposure.BigInt())
					}
				}
			}
			for _, od := range cur.Markets[mk].Odds {
				a, b := exps[od.UID], pays[od.UID]
				if a == nil {
					a = z()
				}
				if b == nil {
					b = z()
				}
				if a.Cmp(b) != 0 {
					bad("C10", "participation %d of market %d promises %s on outcome %d over all rounds but the bets record %s", p.Index, uidNum(mk), a, uidNum(od.UID), b)
				}
			}
		}
	}
	for i := range cur.Bets {
		b := &cur.Bets[i]
		for _, f := range b.BetFulfillment {
			p := cur.part(b.MarketUID, f.ParticipationIndex)
			if p == nil {
				bad("C10", "bet %d names participation %d which does not exist on its market", b.ID, f.ParticipationIndex)
			} else if p.ParticipantAddress != f.ParticipantAddress {
				bad("C10", "bet %d names a depositor for participation %d that is not its depositor", b.ID, f.ParticipationIndex)
			}
		}
	}
	{
		ks := func(l []obtypes.ParticipationExposure) []string {
			var r []string
			for _, e := range l {
				r = append(r, fmt.Sprintf("%s/%s/%d/%s/%s/%v/%d", e.OrderBookUID, e.OddsUID, e.ParticipationIndex, e.Exposure, e.BetAmount, e.IsFulfilled, e.Round))
			}
			sort.Strings(r)
			return r
		}
		a, b := ks(cur.Exp), ks(cur.ExpIx)
		same := len(a) == len(b)
		for i := 0; same && i < len(a); i++ {
			same = a[i] == b[i]
		}
		if !same {
			bad("C10", "the two exposure indexes differ (%d vs %d entries)", len(a), len(b))
		}
	}

	// ---------------- C08 indexes ----------------
	if cur.BetCount != uint64(len(cur.Bets)) || cur.NUID2ID != len(cur.Bets) {
		bad("C08", "bet count %d, bets %d, uid map %d", cur.BetCount, len(cur.Bets), cur.NUID2ID)
	}
	seenID := map[uint64]bool{}
	npend, nset := 0, 0
	for i := range cur.Bets {
		b := &cur.Bets[i]
		if b.ID < 1 || b.ID > cur.BetCount || seenID[b.ID] {
			bad("C08", "bet ids are not 1..count: id %d", b.ID)
		}
		seenID[b.ID] = true
		if betSettled(b) {
			nset++
			if cur.Settled[[2]int64{b.SettlementHeight, int64(b.ID)}] != 1 {
				bad("C08", "settled bet %d is not listed exactly once at its settlement height %d", b.ID, b.SettlementHeight)
			}
			if cur.Pending[[2]string{b.MarketUID, idKey(b.ID)}] != 0 {
				bad("C08", "settled bet %d is still listed as pending", b.ID)
			}
		} else {
			npend++
			if cur.Pending[[2]string{b.MarketUID, idKey(b.ID)}] != 1 {
				bad("C08", "unsettled bet %d is not listed exactly once as pending", b.ID)
			}
		}
	}
	if len(cur.Pending) != npend || len(cur.Settled) != nset {
		bad("C08", "pending index has %d entries for %d unsettled bets, settled index %d for %d", len(cur.Pending), npend, len(cur.Settled), nset)
	}

	if prev == nil {
		return v
	}

	if m.mkCreator == nil {
		m.mkCreator = map[string]string{}
	}
	for k, cm := range cur.Markets {
		if _, seen := m.mkCreator[k]; !seen {
			m.mkCreator[k] = cm.Creator
		}
	}
	// ---------------- C07 market life cycle ----------------
	for k, pm := range prev.Markets {
		cm, ok := cur.Markets[k]
		if !ok {
			bad("C07", "market %d disappeared", uidNum(k))
			continue
		}
		if len(pm.Odds) != len(cm.Odds) || pm.Creator != cm.Creator {
			bad("C07", "market %d changed its outcomes or creator", uidNum(k))
		}
		for i := range pm.Odds {
			if i < len(cm.Odds) && pm.Odds[i].UID != cm.Odds[i].UID {
				bad("C07", "market %d changed its outcomes", uidNum(k))
			}
		}
		if isResolved(pm.Status) {
			if pm.Status != cm.Status || pm.ResolutionTS != cm.ResolutionTS || fmt.Sprint(pm.WinnerOddsUIDs) != fmt.Sprint(cm.WinnerOddsUIDs) {
				bad("C07", "resolved market %d changed (status %d->%d)", uidNum(k), pm.Status, cm.Status)
			}
		} else if pm.Status != cm.Status && !(cm.Status == markettypes.MarketStatus_MARKET_STATUS_ACTIVE || cm.Status == markettypes.MarketStatus_MARKET_STATUS_INACTIVE || isResolved(cm.Status)) {
			bad("C07", "market %d moved to status %d", uidNum(k), cm.Status)
		} else if isResolved(cm.Status) {
			// an open market is resolved only by a resolution ticket for that market, which also stamps the resolution time
			if !(o.Kind == "MRES" && res == "ok" && marketUID(o.UID) == k) {
				bad("C07", "market %d became resolved (status %d) by %s, not by a resolution", uidNum(k), cm.Status, o.Kind)
			} else if cm.ResolutionTS == 0 {
				bad("C07", "market %d resolved without a resolution time", uidNum(k))
			}
		}
		pb, cb := prev.Books[k], cur.Books[k]
		if cb.Status < pb.Status || cb.Status > pb.Status+2 || (cb.Status != pb.Status && o.Kind != "END") {
			bad("C07", "book %d status %d -> %d during %s", uidNum(k), pb.Status, cb.Status, o.Kind)
		}
	}
	for k, cm := range cur.Markets {
		if _, ok := prev.Markets[k]; !ok {
			uids := map[string]bool{}
			for _, od := range cm.Odds {
				uids[od.UID] = true
			}
			if len(cm.Odds) < 2 || len(uids) != len(cm.Odds) {
				bad("C07", "market %d created with %d outcomes (%d distinct)", uidNum(k), len(cm.Odds), len(uids))
			}
		}
		if cm.Status == markettypes.MarketStatus_MARKET_STATUS_RESULT_DECLARED {
			okw := len(cm.WinnerOddsUIDs) == 1
			for _, w := range cm.WinnerOddsUIDs {
				found := false
				for _, od := range cm.Odds {
					found = found || od.UID == w
				}
				okw = okw && found
			}
			if !okw {
				bad("C07", "market %d declared with winners %v not among its outcomes", uidNum(k), cm.WinnerOddsUIDs)
			}
		}
	}
	for i := range cur.Bets {
		b := &cur.Bets[i]
		if !betSettled(b) {
			continue
		}
		mk := cur.Markets[b.MarketUID]
		switch b.Result {
		case bettypes.Bet_RESULT_WON, bettypes.Bet_RESULT_LOST:
			won := false
			for _, w := range mk.WinnerOddsUIDs {
				won = won || w == b.OddsUID
			}
			if mk.Status != markettypes.MarketStatus_MARKET_STATUS_RESULT_DECLARED || won != (b.Result == bettypes.Bet_RESULT_WON) {
				bad("C07", "bet %d settled as %d against market status %d winners %v", b.ID, b.Result, mk.Status, mk.WinnerOddsUIDs)
			}
		case bettypes.Bet_RESULT_REFUNDED:
			if mk.Status != markettypes.MarketStatus_MARKET_STATUS_CANCELED && mk.Status != markettypes.MarketStatus_MARKET_STATUS_ABORTED {
				bad("C07", "bet %d refunded on market status %d", b.ID, mk.Status)
			}
		default:
			bad("C07", "settled bet %d has result %d", b.ID, b.Result)
		}
	}

	// ---------------- balance deltas of user accounts ----------------
	delta := map[string]*big.Int{}
	for a, x := range cur.Bal {
		pb := prev.Bal[a]
		if pb == nil {
			pb = z()
		}
		delta[a] = sub(x, pb)
	}
	expect := map[string]*big.Int{}
	exp := func(a string, x *big.Int) {
		if expect[a] == nil {
			expect[a] = z()
		}
		expect[a].Add(expect[a], x)
	}
	checkDeltas := func(pid, what string) {
		for a, d := range delta {
			e := expect[a]
			if e == nil {
				e = z()
			}
			if d.Cmp(e) != 0 {
				bad(pid, "%s: account %d balance changed by %s, expected %s", what, c.AccID(a), d, e)
			}
		}
		for a, e := range expect {
			if _, ok := delta[a]; !ok && e.Sign() != 0 {
				bad(pid, "%s: %s expected for an untracked account %s", what, e, a)
			}
		}
	}

	switch o.Kind {
	case "WAG":
		bettor := c.AddrOf(o.Signer)
		if res == "ok" {
			// ---------------- C03 placement / C08 admission ----------------
			var nb *sBet
			for i := range cur.Bets {
				if cur.Bets[i].ID == prev.BetCount+1 {
					nb = &cur.Bets[i]
				}
			}
			if nb == nil || cur.BetCount != prev.BetCount+1 {
				bad("C08", "accepted wager did not get the next sequence number (count %d -> %d)", prev.BetCount, cur.BetCount)
				break
			}
			if _, dup := prev.UID2ID[betUID(o.BetUID)]; dup {
				bad("C08", "wager with an already used id %d was accepted", o.BetUID)
			}
			pm, okm := prev.Markets[marketUID(o.SelMkt)]
			if !okm || pm.Status != markettypes.MarketStatus_MARKET_STATUS_ACTIVE || pm.EndTS < uint64(cur.Time) {
				bad("C08", "wager accepted on a market that is missing, not active or past its end time")
			} else {
				has := false
				want := map[string]bool{}
				for _, od := range pm.Odds {
					has = has || od.UID == oddsUID(o.SelOdds)
					want[od.UID] = true
				}
				got := map[string]bool{}
				for _, a := range o.AllOdds {
					got[oddsUID(a.Odds)] = true
				}
				same := len(got) == len(want)
				for k := range want {
					same = same && got[k]
				}
				if !has || !same {
					bad("C08", "wager accepted although the ticket's outcomes do not match the market")
				}
			}
			if o.Amount.Cmp(prev.BetParams.Constraints.MinAmount.BigInt()) < 0 {
				bad("C08", "wager of %s accepted below the minimum %s", o.Amount, prev.BetParams.Constraints.MinAmount)
			}
			stakes, pays := z(), z()
			for _, f := range nb.BetFulfillment {
				if f.BetAmount.IsNegative() || f.PayoutProfit.IsNegative() {
					bad("C03", "bet %d has a negative backing part (%s, %s)", nb.ID, f.BetAmount, f.PayoutProfit)
				}
				stakes.Add(stakes, f.BetAmount.BigInt())
				pays.Add(pays, f.PayoutProfit.BigInt())
			}
			if nb.Amount.BigInt().Cmp(stakes) != 0 {
				bad("C03", "bet %d records stake %s but its parts sum to %s", nb.ID, nb.Amount, stakes)
			}
			reqStake := sub(o.Amount, nb.Fee.BigInt())
			if stakes.Cmp(reqStake) > 0 {
				bad("C03", "bet %d took stake %s, more than the requested %s", nb.ID, stakes, reqStake)
			}
			// promised winnings = floor(reqStake * (odds-1))
			prom := new(big.Int).Mul(reqStake, sub(o.OddsVal, prec))
			prom.Quo(prom, prec)
			if pays.Cmp(prom) != 0 {
				bad("C03", "bet %d is promised %s in its parts but the ticket promises %s", nb.ID, pays, prom)
			}
			exp(bettor, new(big.Int).Neg(add(nb.Fee.BigInt(), stakes)))
			checkDeltas("C03", "placement")
		} else {
			checkDeltas("C08", "failed wager")
		}
	case "SWAG":
		if res == "ok" {
			// C08 admission of a wager placed through the subaccount message
			if cur.BetCount != prev.BetCount+1 {
				bad("C08", "accepted subaccount wager did not get the next sequence number (count %d -> %d)", prev.BetCount, cur.BetCount)
			}
			if _, dup := prev.UID2ID[betUID(o.BetUID)]; dup {
				bad("C08", "subaccount wager with an already used id %d was accepted", o.BetUID)
			}
			pm, okm := prev.Markets[marketUID(o.SelMkt)]
			if !okm || pm.Status != markettypes.MarketStatus_MARKET_STATUS_ACTIVE || pm.EndTS < uint64(cur.Time) {
				bad("C08", "subaccount wager accepted on a market that is missing, not active or past its end time")
			}
			if o.Amount.Cmp(prev.BetParams.Constraints.MinAmount.BigInt()) < 0 {
				bad("C08", "subaccount wager of %s accepted below the minimum %s", o.Amount, prev.BetParams.Constraints.MinAmount)
			}
		}
	case "DEP":
		if res == "ok" {
			depositor := c.AddrOf(o.Signer)
			if o.Depositor >= 0 && o.Depositor != o.Signer {
				depositor = c.AddrOf(o.Depositor)
				g := prev.grant(c.AddrOf(o.Signer), depositor, 1)
				if e, ok := m.grantExp[[3]int64{o.Depositor, o.Signer, 1}]; ok && e >= 0 && e < cur.Time {
					bad("C09", "deposit on behalf of account %d executed at %d under a grant that expired at %d", o.Depositor, cur.Time, e)
				}
				if g == nil {
					bad("C09", "deposit on behalf of account %d accepted without a grant", o.Depositor)
				} else {
					left := sub(g.Limit, o.Amount)
					ng := cur.grant(c.AddrOf(o.Signer), depositor, 1)
					if left.Sign() < 0 || (left.Sign() == 0) != (ng == nil) || (ng != nil && ng.Limit.Cmp(left) != 0) {
						bad("C09", "deposit grant %s not reduced by exactly %s", g.Limit, o.Amount)
					}
				}
			}
			exp(depositor, new(big.Int).Neg(o.Amount))
			checkDeltas("C09", "deposit")
		} else {
			checkDeltas("C09", "failed deposit")
		}
	case "WDR", "SWDR":
		if res == "ok" {
			pp := prev.part(marketUID(o.Mkt), uint64(o.Pidx))
			cp := cur.part(marketUID(o.Mkt), uint64(o.Pidx))
			if pp == nil || cp == nil {
				bad("C09", "withdrawal from a missing participation succeeded")
				break
			}
			amt := sub(pp.Liquidity.BigInt(), cp.Liquidity.BigInt())
			owner := pp.ParticipantAddress
			signer := c.AddrOf(o.Signer)
			if o.Kind == "SWDR" {
				// through the subaccount message: the participation must belong to the signer's own subaccount
				if prev.SubOwner[owner] != signer {
					bad("C09", "account %d withdrew through its subaccount from a participation of account %d", o.Signer, c.AccID(owner))
				}
			} else if signer != owner {
				g := prev.grant(signer, owner, 2)
				if e, ok := m.grantExp[[3]int64{c.AccID(owner), o.Signer, 2}]; ok && e >= 0 && e < cur.Time {
					bad("C09", "withdrawal on behalf of account %d executed at %d under a grant that expired at %d", c.AccID(owner), cur.Time, e)
				}
				if g == nil {
					bad("C09", "account %d withdrew from a participation of account %d without a grant", o.Signer, c.AccID(owner))
				} else {
					left := sub(g.Limit, amt)
					ng := cur.grant(signer, owner, 2)
					if left.Sign() < 0 || (left.Sign() == 0) != (ng == nil) || (ng != nil && ng.Limit.Cmp(left) != 0) {
						bad("C09", "withdraw grant %s not reduced by exactly %s", g.Limit, amt)
					}
				}
			}
			mx := sub(pp.CurrentRoundLiquidity.BigInt(), z())
			if pp.CurrentRoundMaxLoss.IsPositive() {
				mx.Sub(mx, pp.CurrentRoundMaxLoss.BigInt())
			}
			if amt.Sign() <= 0 || amt.Cmp(mx) > 0 {
				bad("C09", "withdrew %s but only %s is not needed to cover the worst case", amt, mx)
			}
			var pd, cd int = -1, -1
			for i, d := range prev.Deposits {
				if d.MarketUID == marketUID(o.Mkt) && d.ParticipationIndex == uint64(o.Pidx) {
					pd = i
				}
			}
			for i, d := range cur.Deposits {
				if d.MarketUID == marketUID(o.Mkt) && d.ParticipationIndex == uint64(o.Pidx) {
					cd = i
				}
			}
			if pd < 0 || cd < 0 || prev.Deposits[pd].WithdrawalCount >= prev.HouseParams.MaxWithdrawalCount ||
				cur.Deposits[cd].WithdrawalCount != prev.Deposits[pd].WithdrawalCount+1 {
				bad("C09", "withdrawal count not respected (%s of participation %d of market %d)", o.Kind, o.Pidx, o.Mkt)
			}
			for _, e := range prev.ExpIx {
				if e.OrderBookUID == marketUID(o.Mkt) && e.ParticipationIndex == uint64(o.Pidx) && e.Round != 1 {
					bad("C09", "withdrawal after the participation was re-queued (round %d)", e.Round)
				}
			}
			exp(owner, amt)
			checkDeltas("C09", "withdrawal")
		} else {
			checkDeltas("C09", "failed withdrawal")
		}
	case "GRANT":
		if res == "ok" {
			m.grantExp[[3]int64{o.Granter, o.Grantee, o.GKind}] = o.Exp // expiry as granted (-1: none), by (granter, grantee, kind)
		}
	case "REVOKE":
		if res == "ok" {
			delete(m.grantExp, [3]int64{o.Granter, o.Grantee, o.GKind})
		}
	case "SEND":
		// not a custody operation
	case "END":
		// ---------------- C03 / C04 settlement accounting ----------------
		// fees are owed to the account that created the market (as recorded when it was added), whatever the store says now
		creatorOf := func(uid string, mk markettypes.Market) string {
			if c0, ok := m.mkCreator[uid]; ok {
				return c0
			}
			return mk.Creator
		}
		newly := 0
		for i := range cur.Bets {
			b := &cur.Bets[i]
			pb := prev.BetByID[b.ID]
			if pb == nil || betSettled(pb) {
				if pb != nil && (pb.Result != b.Result || pb.SettlementHeight != b.SettlementHeight) {
					bad("C03", "settled bet %d changed again", b.ID)
				}
				continue
			}
			if !betSettled(b) {
				continue
			}
			newly++
			mk := cur.Markets[b.MarketUID]
			if !isResolved(prev.Markets[b.MarketUID].Status) {
				bad("C03", "bet %d settled before its market was resolved", b.ID)
			}
			if b.SettlementHeight != cur.Height {
				bad("C08", "bet %d settled at height %d but records %d", b.ID, cur.Height, b.SettlementHeight)
			}
			switch b.Result {
			case bettypes.Bet_RESULT_WON:
				for _, f := range b.BetFulfillment {
					exp(b.Creator, add(f.BetAmount.BigInt(), f.PayoutProfit.BigInt()))
				}
				exp(creatorOf(b.MarketUID, mk), b.Fee.BigInt())
			case bettypes.Bet_RESULT_LOST:
				exp(creatorOf(b.MarketUID, mk), b.Fee.BigInt())
			case bettypes.Bet_RESULT_REFUNDED:
				exp(b.Creator, add(b.Amount.BigInt(), b.Fee.BigInt()))
			}
		}
		nparts := 0
		for mkuid, ps := range cur.Parts {
			mk := cur.Markets[mkuid]
			for _, p := range ps {
				pp := prev.part(mkuid, p.Index)
				if pp == nil || pp.IsSettled || !p.IsSettled {
					if pp != nil && pp.IsSettled && (!p.IsSettled || !pp.ReturnedAmount.Equal(p.ReturnedAmount)) {
						bad("C04", "settled participation %d of market %d changed again", p.Index, uidNum(mkuid))
					}
					continue
				}
				nparts++
				for i := range cur.Bets {
					if cur.Bets[i].MarketUID == mkuid && !betSettled(&cur.Bets[i]) {
						bad("C04", "participation %d of market %d paid while bet %d is unsettled", p.Index, uidNum(mkuid), cur.Bets[i].ID)
					}
				}
				switch mk.Status {
				case markettypes.MarketStatus_MARKET_STATUS_RESULT_DECLARED:
					ret := p.Liquidity.BigInt()
					ret = add(ret, z())
					for i := range cur.Bets {
						b := &cur.Bets[i]
						if b.MarketUID != mkuid {
							continue
						}
						for _, f := range b.BetFulfillment {
							if f.ParticipationIndex != p.Index {
								continue
							}
							if b.Result == bettypes.Bet_RESULT_LOST {
								ret.Add(ret, f.BetAmount.BigInt())
							} else if b.Result == bettypes.Bet_RESULT_WON {
								ret.Sub(ret, f.PayoutProfit.BigInt())
							}
						}
					}
					exp(p.ParticipantAddress, ret)
					// a participation held through a subaccount forwards a house profit to the owner
					if ow, ok := cur.SubOwner[p.ParticipantAddress]; ok {
						if prof := sub(ret, p.Liquidity.BigInt()); prof.Sign() > 0 {
							exp(p.ParticipantAddress, new(big.Int).Neg(prof))
							exp(ow, prof)
						}
					}
					if p.TotalBetAmount.IsZero() {
						exp(p.ParticipantAddress, p.Fee.BigInt())
					} else {
						exp(creatorOf(mkuid, mk), p.Fee.BigInt())
					}
				case markettypes.MarketStatus_MARKET_STATUS_CANCELED, markettypes.MarketStatus_MARKET_STATUS_ABORTED:
					exp(p.ParticipantAddress, add(p.Liquidity.BigInt(), p.Fee.BigInt()))
				default:
					bad("C04", "participation %d of market %d paid while the market is unresolved", p.Index, uidNum(mkuid))
				}
			}
		}
		for mkuid, bk := range cur.Books {
			if bk.Status != obtypes.OrderBookStatus_ORDER_BOOK_STATUS_STATUS_SETTLED {
				continue
			}
			for _, p := range cur.Parts[mkuid] {
				if !p.IsSettled {
					bad("C04", "book of market %d is marked settled but participation %d was never paid", uidNum(mkuid), p.Index)
				}
			}
			for k := range cur.Pending {
				if k[0] == mkuid {
					bad("C04", "book of market %d is marked settled but bet %s is still pending", uidNum(mkuid), k[1])
				}
			}
		}
		checkDeltas("C03/C04", "settlement in EndBlock")

		// ---------------- C05 progress ----------------
		pend := 0
		for _, q := range prev.MQ {
			for k := range prev.Pending {
				if k[0] == q {
					pend++
				}
			}
		}
		k := int(prev.BetParams.BatchSettlementCount)
		want := pend
		if uint64(prev.BetParams.BatchSettlementCount) < uint64(want) {
			want = k
		}
		if newly != want {
			bad("C05", "EndBlock settled %d bets, expected min(batch %d, pending of queued markets %d)", newly, k, pend)
		}
		// books awaiting payment after the bet phase
		var bq []string
		bq = append(bq, prev.BQ...)
		for _, q := range prev.MQ {
			still := false
			for _, c2 := range cur.MQ {
				still = still || c2 == q
			}
			if !still {
				bq = append(bq, q)
			}
		}
		unp := 0
		for _, q := range bq {
			for _, p := range prev.Parts[q] {
				if !p.IsSettled {
					unp++
				}
			}
		}
		kb := int(prev.ObParams.BatchSettlementCount)
		if prev.ObParams.BatchSettlementCount > 1<<40 {
			kb = 1 << 40
		}
		wantp := unp
		if kb < wantp {
			wantp = kb
		}
		if nparts != wantp {
			bad("C05", "EndBlock paid %d participations, expected min(batch %d, unpaid of queued books %d)", nparts, kb, unp)
		}
		for _, q := range cur.BQ {
			all := true
			for _, p := range cur.Parts[q] {
				all = all && p.IsSettled
			}
			if all && nparts < kb {
				bad("C05", "book %d is fully paid but still queued", uidNum(q))
			}
		}
		for kq, bk := range cur.Books {
			inq := false
			for _, q := range cur.BQ {
				inq = inq || q == kq
			}
			if bk.Status == obtypes.OrderBookStatus_ORDER_BOOK_STATUS_STATUS_SETTLED {
				for _, p := range cur.Parts[kq] {
					if !p.IsSettled {
						bad("C05", "book %d marked settled with an unpaid participation", uidNum(kq))
					}
				}
				if inq {
					bad("C05", "settled book %d still queued", uidNum(kq))
				}
			}
			if bk.Status == obtypes.OrderBookStatus_ORDER_BOOK_STATUS_STATUS_RESOLVED && !inq {
				bad("C05", "resolved book %d is not queued for payment", uidNum(kq))
			}
		}
	case "MADD", "MUPD", "MRES", "PROP", "VOTE":
		checkDeltas("C01", o.Kind)
	}
	return v
}

// dump.go — projects the real application state into the model's vocabulary, one line per record.
// Must print exactly what coq/Extract/driver.ml `dump` prints (both sides sort the lines).
package main

import (
	subtypes "github.com/sge-network/sge/x/subaccount/types"
	"encoding/binary"
	"fmt"
	"sort"
	"strings"

	sdkmath "cosmossdk.io/math"
	"github.com/cosmos/cosmos-sdk/store/prefix"
	sdk "github.com/cosmos/cosmos-sdk/types"
	"github.com/cosmos/cosmos-sdk/x/authz"

	bettypes "github.com/sge-network/sge/x/bet/types"
	housetypes "github.com/sge-network/sge/x/house/types"
	obtypes "github.com/sge-network/sge/x/orderbook/types"
)

func decRaw(d sdkmath.LegacyDec) string {
	if d.IsNil() {
		return "nil"
	}
	return d.BigInt().String()
}

func intS(i sdkmath.Int) string {
	if i.IsNil() {
		return "nil"
	}
	return i.String()
}

func (c *Chain) accS(addr string) string { return fmt.Sprintf("%d", c.AccID(addr)) }

func idList(l []string) string {
	var s []string
	for _, x := range l {
		s = append(s, fmt.Sprintf("%d", uidNum(x)))
	}
	return strings.Join(s, " ")
}

func joinNZ(parts ...string) string {
	var s []string
	for _, p := range parts {
		if p != "" {
			s = append(s, p)
		}
	}
	return strings.Join(s, " ")
}

func (c *Chain) expoLine(tag string, e obtypes.ParticipationExposure) string {
	return fmt.Sprintf("%s %d %d %d %s %s %s %d", tag, uidNum(e.OrderBookUID), uidNum(e.OddsUID), e.ParticipationIndex,
		intS(e.Exposure), intS(e.BetAmount), b2s(e.IsFulfilled), e.Round)
}

// Dump returns the sorted state lines.
func (c *Chain) Dump() []string {
	ctx := c.Ctx()
	var out []string
	add := func(f string, a ...interface{}) { out = append(out, fmt.Sprintf(f, a...)) }

	for i, a := range c.Acc {
		add("BAL %d %s", i, c.Bal(a.Addr))
	}
	add("BAL pool %s", c.Bal(c.ModAddr(obtypes.OrderBookLiquidityFunder{}.GetModuleAcc())))
	add("BAL betfee %s", c.Bal(c.ModAddr(bettypes.BetFeeCollectorFunder{}.GetModuleAcc())))
	add("BAL housefee %s", c.Bal(c.ModAddr(housetypes.HouseFeeCollectorFunder{}.GetModuleAcc())))
	for _, sa := range c.App.SubaccountKeeper.GetAllSubaccounts(ctx) {
		id := c.AccID(sa.Address) - 1000
		add("BAL sub%d %s", id, c.Bal(sdk.MustAccAddressFromBech32(sa.Address)))
		add("SUB %d %s %s %s %s %s", id, c.accS(sa.Owner), intS(sa.Balance.DepositedAmount), intS(sa.Balance.SpentAmount),
			intS(sa.Balance.WithdrawnAmount), intS(sa.Balance.LostAmount))
		for _, lb := range c.allLocks(sa.Address) {
			add("LOCK %d %d %s", id, lb.UnlockTS, intS(lb.Amount))
		}
	}
	add("SUBNEXT %d", c.App.SubaccountKeeper.Peek(ctx))
	sp := c.App.SubaccountKeeper.GetParams(ctx)
	add("SUBPRM %s %s", b2s(sp.WagerEnabled), b2s(sp.DepositEnabled))
	add("BFEEPRM %s", intS(c.App.BetKeeper.GetParams(ctx).Constraints.Fee))
	if kv, found := c.App.OVMKeeper.GetKeyVault(ctx); found {
		var ks []string
		for _, k := range kv.PublicKeys {
			ks = append(ks, fmt.Sprintf("%d", c.keyID(k)))
		}
		add("%s", joinNZ("VAULT", strings.Join(ks, " ")))
	}
	add("PCNT %d", c.App.OVMKeeper.GetProposalStats(ctx).PubkeysChangeCount)
	props, _ := c.App.OVMKeeper.GetAllPubkeysChangeProposals(ctx)
	for _, p := range props {
		var ks, vs []string
		for _, k := range p.Modifications.PublicKeys {
			ks = append(ks, fmt.Sprintf("%d", c.keyID(k)))
		}
		for _, v := range p.Votes {
			vs = append(vs, fmt.Sprintf("%d:%d", c.keyID(v.PublicKey), int32(v.Vote)))
		}
		add("%s", joinNZ(fmt.Sprintf("PROP %d %s %d %d %d %d %d |", p.Id, c.accS(p.Creator), p.Modifications.LeaderIndex, p.StartTS,
			int32(p.Status), int32(p.Result), p.FinishTS), strings.Join(ks, " "), "|", strings.Join(vs, " ")))
	}
	add("SUP %s", c.Supply())
	m := c.App.MintKeeper.GetMinter(ctx)
	add("MINT %s %d %s %s", decRaw(m.Inflation), m.PhaseStep, decRaw(m.PhaseProvisions), decRaw(m.TruncatedTokens))

	add("%s", joinNZ("MQ", idList(c.App.MarketKeeper.GetMarketStats(ctx).ResolvedUnsettled)))
	add("%s", joinNZ("BQ", idList(c.App.OrderbookKeeper.GetOrderBookStats(ctx).ResolvedUnsettled)))
	add("BCNT %d", c.App.BetKeeper.GetBetStats(ctx).Count)

	ids, _ := c.App.BetKeeper.GetBetIDs(ctx)
	id2uid := map[uint64]string{}
	for _, x := range ids {
		add("U2I %d %d", uidNum(x.UID), x.ID)
		id2uid[x.ID] = x.UID
	}
	uid2id := map[string]uint64{}
	for k, v := range id2uid {
		uid2id[v] = k
	}

	// raw bet store: pending (0x03) and settled (0x04) indexes
	betStore := ctx.KVStore(c.App.GetKey(bettypes.StoreKey))
	func() {
		it := sdk.KVStorePrefixIterator(betStore, bettypes.PendingBetListPrefix)
		defer it.Close()
		for ; it.Valid(); it.Next() {
			k := it.Key()[1:]
			add("PEND %d %d", uidNum(string(k[:36])), binary.BigEndian.Uint64(k[36:]))
		}
	}()
	func() {
		it := sdk.KVStorePrefixIterator(betStore, bettypes.SettledBetListPrefix)
		defer it.Close()
		for ; it.Valid(); it.Next() {
			k := it.Key()[1:]
			add("SETL %d %d", int64(binary.BigEndian.Uint64(k[:8])), binary.BigEndian.Uint64(k[8:]))
		}
	}()

	bets, _ := c.App.BetKeeper.GetBets(ctx)
	for _, b := range bets {
		var parts []string
		for _, f := range b.BetFulfillment {
			parts = append(parts, fmt.Sprintf("%s %d %s %s", c.accS(f.ParticipantAddress), f.ParticipationIndex, intS(f.BetAmount), intS(f.PayoutProfit)))
		}
		ov, err := sdkmath.LegacyNewDecFromStr(b.OddsValue)
		ovs := "0"
		if err == nil {
			ovs = decRaw(ov)
		}
		add("%s", joinNZ(fmt.Sprintf("BET %d %d %s %d %d %s %s %s %d %d %s %d %d |", uid2id[b.UID], uidNum(b.UID), c.accS(b.Creator),
			uidNum(b.MarketUID), uidNum(b.OddsUID), ovs, intS(b.Amount), intS(b.Fee), int32(b.Status), int32(b.Result),
			decRaw(b.MaxLossMultiplier), b.CreatedAt, b.SettlementHeight), strings.Join(parts, " ")))
	}

	mkts, _ := c.App.MarketKeeper.GetMarkets(ctx)
	for _, k := range mkts {
		var odds []string
		for _, o := range k.Odds {
			odds = append(odds, o.UID)
		}
		add("%s", joinNZ(fmt.Sprintf("MKT %d %s %d %d %d %d |", uidNum(k.UID), c.accS(k.Creator), k.StartTS, k.EndTS, int32(k.Status), k.ResolutionTS),
			idList(odds), "|", idList(k.WinnerOddsUIDs)))
	}
	books, _ := c.App.OrderbookKeeper.GetAllOrderBooks(ctx)
	for _, b := range books {
		add("BOOK %d %d %d %d", uidNum(b.UID), int32(b.Status), b.OddsCount, b.ParticipationCount)
	}
	boes, _ := c.App.OrderbookKeeper.GetAllOrderBookExposures(ctx)
	for _, q := range boes {
		var s []string
		for _, x := range q.FulfillmentQueue {
			s = append(s, fmt.Sprintf("%d", x))
		}
		add("%s", joinNZ(fmt.Sprintf("Q %d %d :", uidNum(q.OrderBookUID), uidNum(q.OddsUID)), strings.Join(s, " ")))
	}
	parts, _ := c.App.OrderbookKeeper.GetAllOrderBookParticipations(ctx)
	for _, p := range parts {
		co := int64(-1)
		if p.CurrentRoundMaxLossOddsUID != "" {
			co = uidNum(p.CurrentRoundMaxLossOddsUID)
		}
		add("PART %d %d %s %s %s %s %d %s %s %s %s %d %s %s %s %s", uidNum(p.OrderBookUID), p.Index, c.accS(p.ParticipantAddress),
			intS(p.Liquidity), intS(p.Fee), intS(p.CurrentRoundLiquidity), p.ExposuresNotFilled, intS(p.TotalBetAmount),
			intS(p.CurrentRoundTotalBetAmount), intS(p.MaxLoss), intS(p.CurrentRoundMaxLoss), co, intS(p.ActualProfit),
			b2s(p.IsSettled), intS(p.ReturnedAmount), intS(p.ReimbursedFee))
	}
	obStore := ctx.KVStore(c.App.GetKey(obtypes.StoreKey))
	rawExpo := func(pfx []byte, tag string) {
		st := prefix.NewStore(obStore, pfx)
		it := st.Iterator(nil, nil)
		defer it.Close()
		for ; it.Valid(); it.Next() {
			var e obtypes.ParticipationExposure
			c.App.AppCodec().MustUnmarshal(it.Value(), &e)
			out = append(out, c.expoLine(tag, e))
		}
	}
	rawExpo(obtypes.ParticipationExposureKeyPrefix, "EXP")
	rawExpo(obtypes.ParticipationExposureByIndexKeyPrefix, "EXI")
	rawExpo(obtypes.HistoricalParticipationExposureKeyPrefix, "HIS")
	func() {
		st := prefix.NewStore(obStore, obtypes.ParticipationBetPairKeyPrefix)
		it := st.Iterator(nil, nil)
		defer it.Close()
		for ; it.Valid(); it.Next() {
			k := it.Key()
			add("PAIR %d %d %d", uidNum(string(k[:36])), binary.BigEndian.Uint64(k[36:44]), binary.BigEndian.Uint64(k[44:52]))
		}
	}()

	deps, _ := c.App.HouseKeeper.GetAllDeposits(ctx)
	for _, d := range deps {
		add("DEPO %d %s %d %s %s %d %s", uidNum(d.MarketUID), c.accS(d.DepositorAddress), d.ParticipationIndex, c.accS(d.Creator),
			intS(d.Amount), d.WithdrawalCount, intS(d.TotalWithdrawalAmount))
	}
	wds, _ := c.App.HouseKeeper.GetAllWithdrawals(ctx)
	for _, w := range wds {
		add("WD %d %s %d %d %s %d %s", uidNum(w.MarketUID), c.accS(w.Address), w.ParticipationIndex, w.ID, c.accS(w.Creator),
			int32(w.Mode), intS(w.Amount))
	}

	c.App.AuthzKeeper.IterateGrants(ctx, func(granter, grantee sdk.AccAddress, g authz.Grant) bool {
		a, err := g.GetAuthorization()
		if err != nil {
			return false
		}
		exp := int64(-1)
		if g.Expiration != nil {
			exp = g.Expiration.Unix()
		}
		switch x := a.(type) {
		case *housetypes.DepositAuthorization:
			add("GR %s %s 1 %s %d", c.accS(grantee.String()), c.accS(granter.String()), intS(x.SpendLimit), exp)
		case *housetypes.WithdrawAuthorization:
			add("GR %s %s 2 %s %d", c.accS(grantee.String()), c.accS(granter.String()), intS(x.WithdrawLimit), exp)
		}
		return false
	})

	sort.Strings(out)
	return out
}

// allLocks reads every lock record of a subaccount (expired ones included) straight from the keeper's range
// read, so that the observation does not depend on what the genesis export chooses to list.
func (c *Chain) allLocks(addr string) []subtypes.LockedBalance {
	l, _ := c.App.SubaccountKeeper.GetBalances(c.Ctx(), sdk.MustAccAddressFromBech32(addr), subtypes.LockedBalanceStatus_LOCKED_BALANCE_STATUS_UNSPECIFIED)
	return l
}

// reward_dump.go — projects the real state of x/reward (+ the parts of bank, authz, subaccount and bet it
// touches) into the reward machine's vocabulary.  RSnapshot reads through the keepers and, where a getter
// is missing (promoter-by-address, the by-category keys, grant statistics), through raw store iteration.
// Lines() must print exactly what coq/Extract/driver_reward.ml `dump` prints (both sides sort).
package main

import (
	"encoding/binary"
	"fmt"
	"math/big"
	"sort"
	"strings"

	"github.com/cosmos/cosmos-sdk/store/prefix"
	sdk "github.com/cosmos/cosmos-sdk/types"
	"github.com/cosmos/cosmos-sdk/x/authz"

	rewardtypes "github.com/sge-network/sge/x/reward/types"
	subtypes "github.com/sge-network/sge/x/subaccount/types"
)

const rNExtra = 2 // never-funded-at-genesis addresses (ids NAcc, NAcc+1) whose balances are projected too

type RAmount struct {
	Main, Sub, MainPct, SubPct *big.Int
	Unlock                     uint64
}

func (a RAmount) s() string {
	return fmt.Sprintf("%s %s %d %s %s", a.Main, a.Sub, a.Unlock, a.MainPct, a.SubPct)
}

type RCamp struct {
	UID, Creator, Promoter     int64
	Start, End                 uint64
	Cat, Ty, AType             int64
	Amt                        RAmount
	Total, Spent, Withdrawn    *big.Int
	Active                     bool
	Cap                        uint64
	HasConstr                  bool
	MaxBet                     *big.Int
}

func (c RCamp) Avail() *big.Int {
	v := new(big.Int).Sub(c.Total, c.Withdrawn)
	return v.Sub(v, c.Spent)
}

type RProm struct {
	UID, Creator int64
	Addrs        []int64
	Conf         [][2]int64
}

type RRew struct {
	UID, Creator, Receiver, Camp, Source int64
	Amt                                  RAmount
}

type RByCat struct{ Prom, Addr, Cat, UID int64 }
type RStat struct {
	Camp, Addr int64
	Count      uint64
}
type RGr struct {
	Grantee, Granter, Kind int64
	Limit                  *big.Int
	Exp                    int64
}
type RSub struct {
	ID, Owner                  int64
	Dep, Spent, Wd, Lost, Bal  *big.Int
}
type RLk struct {
	Sub int64
	TS  uint64
	Amt *big.Int
}
type RBet struct {
	UID, Creator int64
	Amount       *big.Int
	Result       int64
	Main         bool
}

type RSnap struct {
	Bal      []*big.Int // users then extras
	Pool     *big.Int
	Proms    []RProm
	PromAddr map[int64]int64
	Camps    map[int64]RCamp
	Rewards  map[int64]RRew
	ByCat    []RByCat
	ByCamp   [][2]int64
	Stats    []RStat
	Grants   []RGr
	Subs     []RSub
	SubNext  uint64
	Locks    []RLk
	Bets     []RBet
}

func bigOfInt(i interface{ BigInt() *big.Int }) *big.Int { return i.BigInt() }

func rAmount(a *rewardtypes.RewardAmount) RAmount {
	if a == nil {
		z := big.NewInt(0)
		return RAmount{Main: z, Sub: z, MainPct: z, SubPct: z}
	}
	return RAmount{Main: a.MainAccountAmount.BigInt(), Sub: a.SubaccountAmount.BigInt(), Unlock: a.UnlockPeriod,
		MainPct: a.MainAccountPercentage.BigInt(), SubPct: a.SubaccountPercentage.BigInt()}
}

// RSnapshot reads the projected state of the real application.
func (c *Chain) RSnapshot() *RSnap {
	ctx := c.Ctx()
	s := &RSnap{PromAddr: map[int64]int64{}, Camps: map[int64]RCamp{}, Rewards: map[int64]RRew{}}
	n := int64(len(c.Acc)) + rNExtra
	for i := int64(0); i < n; i++ {
		s.Bal = append(s.Bal, c.Bal(sdk.MustAccAddressFromBech32(c.AddrOf(i))).BigInt())
	}
	s.Pool = c.Bal(c.ModAddr(rewardtypes.RewardPoolFunder{}.GetModuleAcc())).BigInt()

	rk := c.App.RewardKeeper
	for _, p := range rk.GetAllPromoter(ctx) {
		x := RProm{UID: uidNum(p.UID), Creator: c.RID(p.Creator)}
		for _, a := range p.Addresses {
			x.Addrs = append(x.Addrs, c.RID(a))
		}
		for _, cc := range p.Conf.CategoryCap {
			x.Conf = append(x.Conf, [2]int64{int64(cc.Category), int64(cc.CapPerAcc)})
		}
		s.Proms = append(s.Proms, x)
	}
	store := ctx.KVStore(c.App.GetKey(rewardtypes.StoreKey))
	func() {
		it := prefix.NewStore(store, rewardtypes.PromoterAddressKeyPrefix).Iterator(nil, nil)
		defer it.Close()
		for ; it.Valid(); it.Next() {
			var v rewardtypes.PromoterByAddress
			c.App.AppCodec().MustUnmarshal(it.Value(), &v)
			s.PromAddr[c.RID(string(it.Key()))] = uidNum(v.PromoterUID)
		}
	}()
	for _, k := range rk.GetAllCampaign(ctx) {
		x := RCamp{UID: uidNum(k.UID), Creator: c.RID(k.Creator), Promoter: c.RID(k.Promoter), Start: k.StartTS, End: k.EndTS,
			Cat: int64(k.RewardCategory), Ty: int64(k.RewardType), AType: int64(k.RewardAmountType), Amt: rAmount(k.RewardAmount),
			Total: k.Pool.Total.BigInt(), Spent: k.Pool.Spent.BigInt(), Withdrawn: k.Pool.Withdrawn.BigInt(),
			Active: k.IsActive, Cap: k.CapCount}
		if k.Constraints != nil {
			x.HasConstr = true
			x.MaxBet = k.Constraints.MaxBetAmount.BigInt()
		}
		s.Camps[x.UID] = x
	}
	for _, r := range rk.GetAllRewards(ctx) {
		s.Rewards[uidNum(r.UID)] = RRew{UID: uidNum(r.UID), Creator: c.RID(r.Creator), Receiver: c.RID(r.Receiver),
			Camp: uidNum(r.CampaignUID), Source: c.RID(r.SourceUID), Amt: rAmount(r.RewardAmount)}
	}
	// by-category index: key = promoter uid (36) | receiver address | category (4 bytes + 4 zero bytes) | reward uid (36)
	func() {
		it := prefix.NewStore(store, rewardtypes.RewardByReceiverAndCategoryKeyPrefix).Iterator(nil, nil)
		defer it.Close()
		for ; it.Valid(); it.Next() {
			k := it.Key()
			if len(k) < 36+8+36 {
				s.ByCat = append(s.ByCat, RByCat{-999, -999, -999, -999})
				continue
			}
			addr := string(k[36 : len(k)-44])
			cat := int64(int32(binary.BigEndian.Uint32(k[len(k)-44 : len(k)-40])))
			var v rewardtypes.RewardByCategory
			c.App.AppCodec().MustUnmarshal(it.Value(), &v)
			if v.Addr != addr || int64(v.RewardCategory) != cat || v.UID != string(k[len(k)-36:]) {
				cat = -998 // key and value disagree
			}
			s.ByCat = append(s.ByCat, RByCat{uidNum(string(k[:36])), c.RID(addr), cat, uidNum(string(k[len(k)-36:]))})
		}
	}()
	for _, r := range rk.GetAllRewardsByCampaign(ctx) {
		s.ByCamp = append(s.ByCamp, [2]int64{uidNum(r.CampaignUID), uidNum(r.UID)})
	}
	func() {
		it := prefix.NewStore(store, rewardtypes.RewardGrantStatKeyPrefix).Iterator(nil, nil)
		defer it.Close()
		for ; it.Valid(); it.Next() {
			k := it.Key()
			s.Stats = append(s.Stats, RStat{uidNum(string(k[:36])), c.RID(string(k[36:])), binary.BigEndian.Uint64(it.Value())})
		}
	}()
	c.App.AuthzKeeper.IterateGrants(ctx, func(granter, grantee sdk.AccAddress, g authz.Grant) bool {
		a, err := g.GetAuthorization()
		if err != nil {
			return false
		}
		exp := int64(-1)
		if g.Expiration != nil {
			exp = g.Expiration.Unix()
		}
		switch x := a.(type) {
		case *rewardtypes.CreateCampaignAuthorization:
			s.Grants = append(s.Grants, RGr{c.RID(grantee.String()), c.RID(granter.String()), 1, x.SpendLimit.BigInt(), exp})
		case *rewardtypes.UpdateCampaignAuthorization:
			s.Grants = append(s.Grants, RGr{c.RID(grantee.String()), c.RID(granter.String()), 2, x.SpendLimit.BigInt(), exp})
		case *rewardtypes.WithdrawCampaignAuthorization:
			s.Grants = append(s.Grants, RGr{c.RID(grantee.String()), c.RID(granter.String()), 3, x.WithdrawLimit.BigInt(), exp})
		}
		return false
	})
	sk := c.App.SubaccountKeeper
	s.SubNext = sk.Peek(ctx)
	for _, g := range sk.GetAllSubaccounts(ctx) {
		id := c.RID(g.Address) - rSubBase
		s.Subs = append(s.Subs, RSub{ID: id, Owner: c.RID(g.Owner), Dep: g.Balance.DepositedAmount.BigInt(),
			Spent: g.Balance.SpentAmount.BigInt(), Wd: g.Balance.WithdrawnAmount.BigInt(), Lost: g.Balance.LostAmount.BigInt(),
			Bal: c.Bal(sdk.MustAccAddressFromBech32(g.Address)).BigInt()})
		for _, l := range c.allLocks(g.Address) {
			s.Locks = append(s.Locks, RLk{id, l.UnlockTS, l.Amount.BigInt()})
		}
	}
	bets, _ := c.App.BetKeeper.GetBets(ctx)
	for _, b := range bets {
		s.Bets = append(s.Bets, RBet{uidNum(b.UID), c.RID(b.Creator), b.Amount.BigInt(), int64(b.Result), b.Meta.IsMainMarket})
	}
	return s
}

var _ = subtypes.ModuleName

func i64s(l []int64) string {
	var s []string
	for _, x := range l {
		s = append(s, fmt.Sprintf("%d", x))
	}
	return strings.Join(s, " ")
}

// Lines renders the snapshot as sorted ST lines.
func (s *RSnap) Lines() []string {
	var out []string
	add := func(f string, a ...interface{}) { out = append(out, fmt.Sprintf(f, a...)) }
	for i, b := range s.Bal {
		add("BAL %d %s", i, b)
	}
	add("BAL rewardpool %s", s.Pool)
	for _, p := range s.Proms {
		var cf []string
		for _, x := range p.Conf {
			cf = append(cf, fmt.Sprintf("%d %d", x[0], x[1]))
		}
		add("%s", joinNZ(fmt.Sprintf("PROM %d %d |", p.UID, p.Creator), i64s(p.Addrs), "|", strings.Join(cf, " ")))
	}
	for a, u := range s.PromAddr {
		add("PROMADDR %d %d", a, u)
	}
	for _, c := range s.Camps {
		cn := "-"
		if c.HasConstr {
			cn = c.MaxBet.String()
		}
		add("CAMP %d %d %d %d %d %d %d %d %s %s %s %s %s %d %s", c.UID, c.Creator, c.Promoter, c.Start, c.End, c.Cat, c.Ty, c.AType,
			c.Amt.s(), c.Total, c.Spent, c.Withdrawn, b2s(c.Active), c.Cap, cn)
	}
	for _, r := range s.Rewards {
		add("RWD %d %d %d %d %s %d", r.UID, r.Creator, r.Receiver, r.Camp, r.Amt.s(), r.Source)
	}
	for _, b := range s.ByCat {
		add("RBYCAT %d %d %d %d", b.Prom, b.Addr, b.Cat, b.UID)
	}
	for _, b := range s.ByCamp {
		add("RBYCAMP %d %d", b[0], b[1])
	}
	for _, x := range s.Stats {
		add("RSTAT %d %d %d", x.Camp, x.Addr, x.Count)
	}
	for _, g := range s.Grants {
		add("RGR %d %d %d %s %d", g.Grantee, g.Granter, g.Kind, g.Limit, g.Exp)
	}
	for _, x := range s.Subs {
		add("SUB %d %d %s %s %s %s %s", x.ID, x.Owner, x.Dep, x.Spent, x.Wd, x.Lost, x.Bal)
	}
	add("SUBNEXT %d", s.SubNext)
	for _, l := range s.Locks {
		add("LOCK %d %d %s", l.Sub, l.TS, l.Amt)
	}
	for _, b := range s.Bets {
		add("RBET %d %d %s %d %s", b.UID, b.Creator, b.Amount, b.Result, b2s(b.Main))
	}
	sort.Strings(out)
	return out
}

// RDump is the sorted ST projection of the current real state.
func (c *Chain) RDump() []string { return c.RSnapshot().Lines() }

// reward_main.go — entry points of the reward vertical (registered in main.go's extraModes):
//   sgeh rhist <seed> <nhist> <nops> <outdir> [first]   generate + execute histories, write rhist_<seed>_<k>.txt
//   sgeh rreplay <file> <outfile>                          re-execute the OP / EXT lines of a history file
// File protocol (REWARD_NOTES.md): GEN, then per op `OP ..`, optional `LOG ..`, `RES ok|err|panic`, `ST ..` lines
// (or one `NOST` line), `MON C12 ..` lines; `EXT ..` / `XRES ..` for real betting-module operations, which are
// followed by the RSYNCBAL / RSYNCBET ops that carry their effects into the reward machine; final `MONCOUNT n`.
package main

import (
	"bufio"
	"fmt"
	"math/big"
	"math/rand"
	"os"
	"path/filepath"
	"strconv"
	"strings"
)

func init() {
	extraModes["rhist"] = rhistMain
	extraModes["rreplay"] = func(args []string) { rreplayFile(args[0], args[1]) }
}

func rGenLine(c *Chain) string {
	std := strings.TrimPrefix(genLine(c), "GEN ")
	return fmt.Sprintf("GEN %d %d %d %d %d X %s", c.Cfg.NAcc, rNExtra, c.Cfg.Balance, c.Cfg.StartTime, c.LeaderKey(), std)
}

func parseRGenLine(l string) GenesisCfg {
	i := strings.Index(l, " X ")
	if i < 0 {
		panic("bad reward GEN line")
	}
	return ParseGenLine("GEN " + l[i+3:])
}

// rRunner executes ops on the real chain, writes the protocol, runs the monitors and keeps track of what
// the reward machine knows about user balances and bets (to emit the RSYNC* ops after foreign effects).
type rRunner struct {
	c         *Chain
	h         *histWriter
	mon       *RMonitors
	knownBal  []*big.Int
	knownBets map[int64]RBet
	cur       *RSnap
	monHits   int
}

func newRRunner(c *Chain, h *histWriter) *rRunner {
	r := &rRunner{c: c, h: h, mon: NewRMonitors(), knownBets: map[int64]RBet{}}
	s := c.RSnapshot()
	r.knownBal = s.Bal
	r.cur = s
	return r
}

func logLine(h *histWriter, res, log string) {
	if strings.HasPrefix(res, "panic") {
		h.line("LOG " + trunc(res, 300))
	} else if res == "err" && log != "" {
		h.line("LOG " + trunc(log, 200))
	}
}

// syncOps lists the RSYNC* ops that bring the machine's view to the current real state.
func (r *rRunner) syncOps(s *RSnap) []ROp {
	var l []ROp
	for i, b := range s.Bal {
		if b.Cmp(r.knownBal[i]) != 0 {
			l = append(l, ROp{Kind: "RSYNCBAL", Acct: int64(i), Val: b})
		}
	}
	for _, b := range s.Bets {
		k, ok := r.knownBets[b.UID]
		if !ok || k.Result != b.Result || k.Creator != b.Creator || k.Amount.Cmp(b.Amount) != 0 || k.Main != b.Main {
			l = append(l, ROp{Kind: "RSYNCBET", UID: b.UID, Creator: b.Creator, Amount: b.Amount, Result: b.Result, Main: b.Main})
		}
	}
	return l
}

func (r *rRunner) know(s *RSnap) {
	r.knownBal = s.Bal
	for _, b := range s.Bets {
		r.knownBets[b.UID] = b
	}
}

// emitSyncs writes the sync ops; only the last one carries the state (the real state already contains all of them).
func (r *rRunner) emitSyncs(s *RSnap, lines []string) {
	ops := r.syncOps(s)
	for i, o := range ops {
		r.h.line("OP " + o.Encode())
		r.h.line("RES ok")
		if i == len(ops)-1 {
			for _, l := range lines {
				r.h.line("ST " + l)
			}
		} else {
			r.h.line("NOST")
		}
	}
	r.know(s)
}

func (r *rRunner) monitor(o ROp, res string, s *RSnap, lines []string) {
	for _, v := range r.mon.Check(r.c, o, res, s, lines) {
		r.h.line("MON " + v)
		r.monHits++
	}
}

// step executes one op and writes it. Returns the short result.
func (r *rRunner) step(o ROp) string {
	c, h := r.c, r.h
	res, log := c.RExec(o)
	short := res
	if strings.HasPrefix(res, "panic") {
		short = "panic"
	}
	switch o.Kind {
	case "EXT":
		h.line("EXT " + o.Encode())
		logLine(h, res, log)
		h.line("XRES " + short)
		if short == "panic" {
			return short
		}
		s := c.RSnapshot()
		lines := s.Lines()
		r.emitSyncs(s, lines)
		r.monitor(ROp{Kind: "EXT_" + o.Ext.Kind}, "ext", s, lines)
		r.cur = s
		return short
	case "BEGIN", "END":
		if short == "panic" {
			// a Begin/EndBlocker of another module aborted (the reward and subaccount modules have none)
			h.line("ABORT " + o.Kind + " " + trunc(res, 300))
			return short
		}
		s := c.RSnapshot()
		lines := s.Lines()
		r.emitSyncs(s, lines) // settlement payouts etc. reach the machine before the block op itself
		h.line("OP " + o.Encode())
		h.line("RES ok")
		for _, l := range lines {
			h.line("ST " + l)
		}
		r.monitor(o, short, s, lines)
		r.cur = s
		if o.Kind == "END" {
			c.Commit()
		}
		return short
	}
	h.line("OP " + o.encWithForge())
	logLine(h, res, log)
	h.line("RES " + short)
	s := c.RSnapshot()
	lines := s.Lines()
	for _, l := range lines {
		h.line("ST " + l)
	}
	r.monitor(o, short, s, lines)
	r.know(s)
	r.cur = s
	return short
}

func rRunHistory(seed int64, nops int, path string) (map[string]int, int) {
	rnd := rand.New(rand.NewSource(seed))
	cfg := GenesisFor("bet", rnd)
	cfg.Balance = pick(rnd, []int64{50_000_000, 1_000_000_000_000})
	c, err := NewChain(cfg)
	h := newHistWriter(path)
	defer h.close()
	if err != nil {
		h.line("BOOTFAIL " + strings.ReplaceAll(err.Error(), "\n", " "))
		return map[string]int{"bootfail": 1}, 0
	}
	h.line(rGenLine(c))
	run := newRRunner(c, h)
	g := NewRGen(c, rnd)
	g.snap = run.cur
	defer func() { h.line(fmt.Sprintf("MONCOUNT %d", run.mon.evals)) }()
	t := cfg.StartTime
	done := 0
	for done < nops && !c.Halted {
		t = g.NextTime(t)
		o := ROp{Kind: "BEGIN", T: t}
		res := run.step(o)
		g.Observe(o, res, run.cur)
		done++
		if res == "panic" {
			break
		}
		ntx := rnd.Intn(6)
		for i := 0; i < ntx && done < nops; i++ {
			o := g.NextTx()
			res := run.step(o)
			g.Observe(o, res, run.cur)
			done++
		}
		o = ROp{Kind: "END"}
		res = run.step(o)
		g.Observe(o, res, run.cur)
		done++
	}
	if g.allowNeg {
		g.stats["hist_allow_negative"]++
	}
	if g.withBets {
		g.stats["hist_with_bets"]++
	}
	if run.monHits > 0 {
		g.stats["hist_with_monitor_hits"]++
	}
	g.stats["monitor_hits"] += run.monHits
	g.stats["monitor_evals"] += run.mon.evals
	return g.stats, run.monHits
}

func rhistMain(args []string) {
	seed, _ := strconv.ParseInt(args[0], 10, 64)
	nh, _ := strconv.Atoi(args[1])
	nops, _ := strconv.Atoi(args[2])
	dir := args[3]
	first := 0
	if len(args) > 4 {
		first, _ = strconv.Atoi(args[4])
	}
	os.MkdirAll(dir, 0o755)
	tot := map[string]int{}
	for k := first; k < first+nh; k++ {
		st, _ := rRunHistory(seed*1000003+int64(k), nops, filepath.Join(dir, fmt.Sprintf("rhist_%d_%d.txt", seed, k)))
		for a, b := range st {
			tot[a] += b
		}
	}
	var keys []string
	for k := range tot {
		keys = append(keys, k)
	}
	sortStrings(keys)
	for _, k := range keys {
		fmt.Printf("STAT %s %d\n", k, tot[k])
	}
}

func rreplayFile(in, out string) {
	f, err := os.Open(in)
	if err != nil {
		panic(err)
	}
	defer f.Close()
	sc := bufio.NewScanner(f)
	sc.Buffer(make([]byte, 1<<20), 1<<26)
	h := newHistWriter(out)
	defer h.close()
	var run *rRunner
	defer func() {
		if run != nil {
			h.line(fmt.Sprintf("MONCOUNT %d", run.mon.evals))
			fmt.Printf("STAT monitor_hits %d\n", run.monHits)
		}
	}()
	for sc.Scan() {
		l := sc.Text()
		switch {
		case strings.HasPrefix(l, "GEN "):
			c, err := NewChain(parseRGenLine(l))
			if err != nil {
				h.line("BOOTFAIL " + err.Error())
				return
			}
			h.line(rGenLine(c))
			run = newRRunner(c, h)
		case strings.HasPrefix(l, "EXT "):
			if run == nil {
				panic("EXT before GEN")
			}
			run.step(ParseExt(l[4:]))
		case strings.HasPrefix(l, "OP RSYNC"):
			// observations are re-derived from the real state
		case strings.HasPrefix(l, "OP "):
			if run == nil {
				panic("OP before GEN")
			}
			if run.c.Halted {
				return
			}
			run.step(ParseROp(l[3:]))
		}
	}
}

// reward_exec.go — turns a reward-machine ROp into real signed transactions against the real app:
// MsgCreatePromoter / MsgSetPromoterConf / MsgCreateCampaign / MsgUpdateCampaign / MsgWithdrawFunds /
// MsgGrantReward, authz MsgGrant / MsgRevoke with the three campaign authorizations, subaccount MsgCreate,
// bank MsgSend.  Ticket payloads are built as JSON objects by hand so that absent (nil) fields stay absent.
package main

import (
	"fmt"
	"math/big"
	"time"

	sdkmath "cosmossdk.io/math"
	sdk "github.com/cosmos/cosmos-sdk/types"
	authtypes "github.com/cosmos/cosmos-sdk/x/auth/types"
	"github.com/cosmos/cosmos-sdk/x/authz"
	banktypes "github.com/cosmos/cosmos-sdk/x/bank/types"

	bettypes "github.com/sge-network/sge/x/bet/types"
	housetypes "github.com/sge-network/sge/x/house/types"
	obtypes "github.com/sge-network/sge/x/orderbook/types"
	rewardtypes "github.com/sge-network/sge/x/reward/types"
	subtypes "github.com/sge-network/sge/x/subaccount/types"
)

const (
	rInvalidAddr = "not-a-bech32-address"
	rSubBase     = 1000
	rInvalidID   = -100
)

func promoterUID(n int64) string { return uidStr('d', n) }
func campaignUID(n int64) string { return uidStr('e', n) }
func rewardUID(n int64) string   { return uidStr('f', n) }

func rModuleName(id int64) string {
	switch id {
	case -1:
		return obtypes.OrderBookLiquidityFunder{}.GetModuleAcc()
	case -2:
		return bettypes.BetFeeCollectorFunder{}.GetModuleAcc()
	case -3:
		return housetypes.HouseFeeCollectorFunder{}.GetModuleAcc()
	case -4:
		return rewardtypes.RewardPoolFunder{}.GetModuleAcc()
	case -5:
		return authtypes.FeeCollectorName
	}
	return ""
}

// RAddr maps a model account id to the address string used on the chain.
func (c *Chain) RAddr(id int64) string {
	switch {
	case id >= rSubBase:
		return subtypes.NewAddressFromSubaccount(uint64(id - rSubBase)).String()
	case id >= 0:
		return c.AddrOf(id)
	case id >= -5:
		return authtypes.NewModuleAddress(rModuleName(id)).String()
	}
	return rInvalidAddr
}

// RID inverts RAddr over the ids a history can mention (-999 = unknown).
func (c *Chain) RID(addr string) int64 {
	if addr == rInvalidAddr {
		return rInvalidID
	}
	for i := int64(0); i < int64(len(c.Acc))+rNExtra; i++ {
		if c.AddrOf(i) == addr {
			return i
		}
	}
	for id := int64(-5); id < 0; id++ {
		if c.RAddr(id) == addr {
			return id
		}
	}
	next := c.App.SubaccountKeeper.Peek(c.Ctx())
	for id := uint64(0); id <= next+2; id++ {
		if subtypes.NewAddressFromSubaccount(id).String() == addr {
			return rSubBase + int64(id)
		}
	}
	return -999
}

func intOf(x *big.Int) sdkmath.Int { return sdkmath.NewIntFromBigInt(x) }

func (c *Chain) rKyc(k Kyc) map[string]interface{} {
	return map[string]interface{}{"ignore": k.Ignore, "approved": k.Approved, "id": c.RAddr(k.ID)}
}

func confJSON(conf [][2]int64) map[string]interface{} {
	caps := []interface{}{}
	for _, x := range conf {
		caps = append(caps, map[string]interface{}{"category": x[0], "cap_per_acc": x[1]})
	}
	return map[string]interface{}{"category_cap": caps}
}

// RExec runs one reward-machine op; returns "ok", "err" or "panic:<msg>" plus a log string (not compared).
func (c *Chain) RExec(o ROp) (string, string) {
	if c.Halted {
		return "panic:halted", ""
	}
	switch o.Kind {
	case "BEGIN":
		r, _ := c.BeginBlock(o.T)
		return r, ""
	case "END":
		r, _ := c.EndBlock()
		return r, ""
	case "RSYNCBET", "RSYNCBAL":
		return "ok", "" // observations of the real state, nothing to execute
	case "EXT":
		return c.execExt(o)
	}
	var msg sdk.Msg
	signer := o.Signer
	switch o.Kind {
	case "PCREATE":
		p := map[string]interface{}{"uid": promoterUID(o.UID), "conf": confJSON(o.Conf)}
		msg = &rewardtypes.MsgCreatePromoter{Creator: c.RAddr(o.Signer), Ticket: c.MakeTicket(o.Tk, p)}
	case "PCONF":
		p := map[string]interface{}{"conf": confJSON(o.Conf)}
		msg = &rewardtypes.MsgSetPromoterConf{Creator: c.RAddr(o.Signer), Uid: promoterUID(o.UID), Ticket: c.MakeTicket(o.Tk, p)}
	case "CCREATE":
		p := map[string]interface{}{
			"promoter": c.RAddr(o.Prom), "start_ts": o.Start, "end_ts": o.End, "category": o.Cat, "reward_type": o.Ty,
			"reward_amount_type": o.AType, "is_active": o.Active, "meta": "campaign", "cap_count": o.Cap,
		}
		if o.RA.Present {
			ra := map[string]interface{}{"unlock_period": o.RA.Unlock}
			if o.RA.Main != nil {
				ra["main_account_amount"] = o.RA.Main.String()
			}
			if o.RA.Sub != nil {
				ra["subaccount_amount"] = o.RA.Sub.String()
			}
			if o.RA.MainPct != nil {
				ra["main_account_percentage"] = decStr(o.RA.MainPct)
			}
			if o.RA.SubPct != nil {
				ra["subaccount_percentage"] = decStr(o.RA.SubPct)
			}
			p["reward_amount"] = ra
		}
		switch o.Constr {
		case 1:
			p["constraints"] = map[string]interface{}{}
		case 2:
			p["constraints"] = map[string]interface{}{"max_bet_amount": o.ConstrMax.String()}
		}
		msg = &rewardtypes.MsgCreateCampaign{Creator: c.RAddr(o.Signer), Uid: campaignUID(o.UID),
			TotalFunds: intOf(o.Total), Ticket: c.MakeTicket(o.Tk, p)}
	case "CUPDATE":
		p := map[string]interface{}{"end_ts": o.End, "is_active": o.Active}
		msg = &rewardtypes.MsgUpdateCampaign{Creator: c.RAddr(o.Signer), Uid: campaignUID(o.UID),
			TopupFunds: intOf(o.Topup), Ticket: c.MakeTicket(o.Tk, p)}
	case "CWITHDRAW":
		p := map[string]interface{}{"promoter": c.RAddr(o.Prom)}
		msg = &rewardtypes.MsgWithdrawFunds{Creator: c.RAddr(o.Signer), Uid: campaignUID(o.UID),
			Amount: intOf(o.Amount), Ticket: c.MakeTicket(o.Tk, p)}
	case "RGRANT":
		common := map[string]interface{}{"receiver": c.RAddr(o.Receiver), "source_uid": c.RAddr(o.Source), "meta": "grant"}
		if o.HasKyc {
			common["kyc_data"] = c.rKyc(o.Ky)
		}
		// one JSON object serves the four payload types (encoding/json ignores the fields a type lacks)
		p := map[string]interface{}{"common": common, "referee": c.RAddr(o.Peer), "affiliatee": c.RAddr(o.Peer),
			"bet_uid": betUID(o.BetUID)}
		msg = &rewardtypes.MsgGrantReward{Creator: c.RAddr(o.Signer), Uid: rewardUID(o.UID), CampaignUid: campaignUID(o.Camp),
			Ticket: c.MakeTicket(o.Tk, p)}
	case "AGRANT":
		var a authz.Authorization
		switch o.GKind {
		case 1:
			a = rewardtypes.NewCreateCampaignAuthorization(intOf(o.Limit))
		case 2:
			a = rewardtypes.NewUpdateCampaignAuthorization(intOf(o.Limit))
		case 3:
			a = rewardtypes.NewWithdrawAuthorization(intOf(o.Limit))
		default:
			return "err", "unknown authorization kind"
		}
		grantee, err := sdk.AccAddressFromBech32(c.RAddr(o.Grantee))
		if err != nil {
			return "err", err.Error()
		}
		var exp *time.Time
		if o.Exp >= 0 {
			t := time.Unix(o.Exp, 0).UTC()
			exp = &t
		}
		m, err := authz.NewMsgGrant(sdk.MustAccAddressFromBech32(c.RAddr(o.Granter)), grantee, a, exp)
		if err != nil {
			return "err", err.Error()
		}
		msg = m
		signer = o.Granter
	case "AREVOKE":
		var url string
		switch o.GKind {
		case 1:
			url = sdk.MsgTypeURL(&rewardtypes.MsgCreateCampaign{})
		case 2:
			url = sdk.MsgTypeURL(&rewardtypes.MsgUpdateCampaign{})
		default:
			url = sdk.MsgTypeURL(&rewardtypes.MsgWithdrawFunds{})
		}
		grantee, err := sdk.AccAddressFromBech32(c.RAddr(o.Grantee))
		if err != nil {
			return "err", err.Error()
		}
		m := authz.NewMsgRevoke(sdk.MustAccAddressFromBech32(c.RAddr(o.Granter)), grantee, url)
		msg = &m
		signer = o.Granter
	case "SUBCREATE":
		var lbs []subtypes.LockedBalance
		for _, l := range o.Locks {
			lbs = append(lbs, subtypes.LockedBalance{UnlockTS: uint64(l.TS), Amount: intOf(l.Amt)})
		}
		msg = &subtypes.MsgCreate{Creator: c.RAddr(o.Signer), Owner: c.RAddr(o.Owner), LockedBalances: lbs}
	case "SEND":
		to, err := sdk.AccAddressFromBech32(c.RAddr(o.To))
		if err != nil {
			return "err", err.Error()
		}
		if o.Amount.Sign() <= 0 {
			return "err", "non-positive amount" // sdk.NewCoin would panic while building the message
		}
		msg = banktypes.NewMsgSend(sdk.MustAccAddressFromBech32(c.RAddr(o.From)), to,
			sdk.NewCoins(sdk.NewCoin(Denom, intOf(o.Amount))))
		signer = o.From
	default:
		panic("rexec: unknown op " + o.Kind)
	}
	if signer < 0 || signer >= int64(len(c.Acc)) {
		return "err", "no key for signer"
	}
	ok, resp := c.Deliver(int(signer), msg)
	if ok {
		return "ok", ""
	}
	return "err", resp.Log
}

// execExt runs a real betting-module op. Wagers are built here (Chain.Exec does not set is_main_market).
func (c *Chain) execExt(o ROp) (string, string) {
	e := *o.Ext
	if e.Kind != "WAG" {
		return c.Exec(e)
	}
	var all []*bettypes.BetOddsCompact
	for _, a := range e.AllOdds {
		all = append(all, &bettypes.BetOddsCompact{UID: oddsUID(a.Odds), MaxLossMultiplier: decOf(a.Mult)})
	}
	val := decStr(e.OddsVal)
	if e.OddsVal.Sign() == 0 {
		val = "abc"
	}
	p := bettypes.WagerTicketPayload{
		SelectedOdds: &bettypes.BetOdds{UID: oddsUID(e.SelOdds), MarketUID: marketUID(e.SelMkt), Value: val,
			MaxLossMultiplier: decOf(e.Mult)},
		KycData: c.kyc(e.Ky), AllOdds: all,
		Meta: bettypes.MetaData{SelectedOddsType: bettypes.OddsType(e.OddsType), SelectedOddsValue: val, IsMainMarket: o.ExtMain},
	}
	msg := &bettypes.MsgWager{Creator: c.AddrOf(e.Signer), Props: &bettypes.WagerProps{UID: betUID(e.BetUID),
		Amount: sdkmath.NewIntFromBigInt(e.Amount), Ticket: c.MakeTicket(e.Tk, p)}}
	if e.Signer < 0 || int(e.Signer) >= len(c.Acc) {
		return "err", "no key for signer"
	}
	ok, resp := c.Deliver(int(e.Signer), msg)
	if ok {
		return "ok", ""
	}
	return "err", resp.Log
}

var _ = fmt.Sprintf

// reward_gen.go — seeded, state-aware generator of reward-machine histories: promoters, campaigns of every
// reward type and amount type (zero / negative / nil components, caps 0/1/2, window edges), top-ups,
// withdrawals by promoter / grantee / stranger, grants with replayed tickets and fresh / duplicate reward
// uids, receivers with and without subaccounts, bet-bonus grants over won / lost / pending / refunded bets
// (the bets come from real market / deposit / wager / resolve operations drawn from gen.go), plus a
// malformed stream (~10%).  Every random choice derives from one PRNG.
package main

import (
	"math/big"
	"math/rand"
	"sort"
)

type RGen struct {
	r        *rand.Rand
	c        *Chain
	bg       *Gen // betting-module generator (EXT ops)
	snap     *RSnap
	nextProm int64
	nextCamp int64
	nextRew  int64
	okGrants []ROp
	allowNeg bool // this history draws negative / nil components often
	withBets bool
	stats    map[string]int
}

func NewRGen(c *Chain, r *rand.Rand) *RGen {
	g := &RGen{r: r, c: c, stats: map[string]int{}}
	g.bg = NewGen(c, "bet", r)
	g.allowNeg = r.Intn(100) < 30
	g.withBets = r.Intn(100) < 65
	return g
}

func (g *RGen) chance(p float64) bool { return g.r.Float64() < p }
func (g *RGen) user() int64           { return int64(g.r.Intn(len(g.c.Acc))) }
func (g *RGen) now() int64            { return g.c.Time }

func (g *RGen) ticket() Ticket {
	if g.chance(0.03) {
		return g.bg.badTicket()
	}
	if g.chance(0.03) {
		return Ticket{Signer: int64(g.c.LeaderKey()), Exp: g.c.Time + 1}
	}
	return g.bg.leaderTicket()
}

func (g *RGen) sortedCamps() []RCamp {
	var l []RCamp
	for _, k := range g.snap.Camps {
		l = append(l, k)
	}
	sort.Slice(l, func(i, j int) bool { return l[i].UID < l[j].UID })
	return l
}

func (g *RGen) promAddrs() []int64 {
	var l []int64
	for a := range g.snap.PromAddr {
		l = append(l, a)
	}
	sort.Slice(l, func(i, j int) bool { return l[i] < l[j] })
	return l
}

// anyAddr draws an address id: mostly users, sometimes never-seen addresses, rarely odd ones.
func (g *RGen) anyAddr() int64 {
	switch {
	case g.chance(0.72):
		return g.user()
	case g.chance(0.6):
		return int64(len(g.c.Acc)) + int64(g.r.Intn(rNExtra))
	case g.chance(0.3) && len(g.snap.Subs) > 0:
		return rSubBase + pick(g.r, g.snap.Subs).ID // a subaccount address
	case g.chance(0.4):
		return pick(g.r, []int64{-4, -1, -4})
	case g.chance(0.5):
		return rInvalidID
	}
	return g.user()
}

func (g *RGen) conf() [][2]int64 {
	var c [][2]int64
	for _, cat := range []int64{1, 2, 3, 6} {
		if g.chance(0.55) {
			c = append(c, [2]int64{cat, int64(1 + g.r.Intn(3))})
		}
	}
	if g.chance(0.05) {
		c = append(c, [2]int64{pick(g.r, []int64{5, 7, 0, 4}), 2})
	}
	if g.chance(0.03) && len(c) > 0 {
		c = append(c, [2]int64{c[0][0], 1}) // duplicate category: invalid
	}
	if g.chance(0.03) {
		c = append(c, [2]int64{2 + int64(len(c)), pick(g.r, []int64{0, -1})}) // non-positive cap: invalid
	}
	g.r.Shuffle(len(c), func(i, j int) { c[i], c[j] = c[j], c[i] })
	return c
}

func (g *RGen) genPromoter() ROp {
	uid := g.nextProm
	switch {
	case g.chance(0.05) && len(g.snap.Proms) > 0:
		uid = pick(g.r, g.snap.Proms).UID
	case g.chance(0.02):
		uid = -1
	default:
		g.nextProm++
	}
	return ROp{Kind: "PCREATE", Signer: g.user(), Tk: g.ticket(), UID: uid, Conf: g.conf()}
}

func (g *RGen) genPromConf() ROp {
	if len(g.snap.Proms) == 0 {
		return g.genPromoter()
	}
	p := pick(g.r, g.snap.Proms)
	signer := p.Creator
	if g.chance(0.12) {
		signer = g.user()
	}
	uid := p.UID
	if g.chance(0.03) {
		uid = 777
	}
	return ROp{Kind: "PCONF", Signer: signer, Tk: g.ticket(), UID: uid, Conf: g.conf()}
}

func bigp(x int64) *big.Int { return big.NewInt(x) }

// oddComp returns a component that validation should arguably refuse: negative, zero or nil.
func (g *RGen) oddComp() *big.Int {
	switch g.r.Intn(3) {
	case 0:
		return bigp(-int64(1 + g.r.Intn(50)))
	case 1:
		return bigp(0)
	}
	return nil
}

func (g *RGen) pct(s string) *big.Int { return decFromStr(s) }

func (g *RGen) genCampaign() ROp {
	pa := g.promAddrs()
	if len(pa) == 0 {
		return g.genPromoter()
	}
	prom := pick(g.r, pa)
	if g.chance(0.03) {
		prom = g.anyAddr() // most likely not a promoter
	}
	signer := prom
	if g.chance(0.18) || signer < 0 || signer >= int64(len(g.c.Acc)) {
		signer = g.user()
	}
	// creation on a promoter's behalf under a live create-campaign grant
	var underGrant *big.Int
	if g.chance(0.45) {
		for _, gr := range g.snap.Grants {
			isProm := false
			for _, a := range pa {
				isProm = isProm || a == gr.Granter
			}
			if gr.Kind == 1 && isProm && gr.Grantee >= 0 && gr.Grantee < int64(len(g.c.Acc)) && g.chance(0.6) {
				prom, signer = gr.Granter, gr.Grantee
				underGrant = gr.Limit
				g.stats["campaign_under_grant"]++
				break
			}
		}
	}
	o := ROp{Kind: "CCREATE", Signer: signer, Tk: g.ticket(), Prom: prom, Active: !g.chance(0.06)}
	o.UID = g.nextCamp
	switch {
	case g.chance(0.04) && len(g.snap.Camps) > 0:
		o.UID = pick(g.r, g.sortedCamps()).UID
	case g.chance(0.01):
		o.UID = -1
	default:
		g.nextCamp++
	}
	now := g.now()
	o.Start = pick(g.r, []int64{now - 50, now, now, now + 1, now + 25, 0})
	o.End = pick(g.r, []int64{now + 1, now + 2, now + 40, now + 400, now + 4000, now + 4000, now + 40000, now + 40000})
	if o.End <= o.Start {
		o.End = o.Start + 1 + int64(g.r.Intn(100))
	}
	if g.chance(0.02) {
		o.End = now // invalid: not after now
	}
	if g.chance(0.02) {
		o.End = o.Start // invalid: not after start
	}
	o.Cap = pick(g.r, []int64{0, 0, 1, 2, 2, 3})

	o.Ty = pick(g.r, []int64{1, 1, 1, 2, 3, 4, 5, 5, 8, 8, 8})
	if o.Ty == 4 || o.Ty == 5 {
		has := false
		for _, b := range g.snap.ByCat {
			if b.Prom == g.snap.PromAddr[prom] && b.Cat == 1 {
				has = true
			}
		}
		if !has && g.chance(0.6) {
			o.Ty = pick(g.r, []int64{1, 2, 3})
		}
	}
	if o.Ty == 8 && !g.withBets && g.chance(0.8) {
		o.Ty = pick(g.r, []int64{1, 2, 3, 4, 5})
	}
	if g.withBets && g.chance(0.3) {
		o.Ty = 8
	}
	if o.Ty == 8 && g.chance(0.7) {
		o.Start, o.End = pick(g.r, []int64{0, now - 50, now}), now+40000
	}
	o.RA.Present = true
	unlock := pick(g.r, []int64{1, 10, 100, 100000})
	o.RA.Unlock = unlock
	amt := func() *big.Int { return bigp(pick(g.r, []int64{1, 5, 100, 2500, 100000})) }
	negP := 0.04
	if g.allowNeg {
		negP = 0.35
	}
	switch o.Ty {
	case 1, 2, 3, 4:
		o.Cat = 1
		if o.Ty == 4 {
			o.Cat = 2
		}
		o.AType = 1
		o.RA.Sub = amt()
		o.RA.Main = pick(g.r, []*big.Int{bigp(0), amt(), amt(), nil})
		if g.chance(negP) {
			o.RA.Main = g.oddComp()
		}
		if g.chance(0.04) {
			o.RA.Sub = g.oddComp() // invalid for these types
		}
	case 5:
		o.Cat = 3
		o.AType = 1
		o.RA.Main = amt()
		o.RA.Sub = bigp(0)
		if g.chance(negP) {
			o.RA.Sub = pick(g.r, []*big.Int{bigp(-int64(1 + g.r.Intn(50))), bigp(0)})
		}
		if g.chance(0.04) {
			o.RA.Sub = pick(g.r, []*big.Int{nil, amt()}) // invalid
		}
		if g.chance(0.03) {
			o.RA.Main = g.oddComp() // invalid
		}
		if g.chance(0.5) {
			o.RA.Unlock = 0
		}
	case 8:
		o.Cat = 6
		o.AType = 3
		pcts := []string{"0.1", "0.25", "0.5", "0.01", "0.333333333333333333", "0.000000000000000001", "0.05"}
		switch g.r.Intn(3) {
		case 0:
			o.RA.MainPct, o.RA.SubPct = g.pct(pick(g.r, pcts)), bigp(0)
		case 1:
			o.RA.MainPct, o.RA.SubPct = bigp(0), g.pct(pick(g.r, pcts))
		default:
			o.RA.MainPct, o.RA.SubPct = g.pct(pick(g.r, pcts)), g.pct(pick(g.r, pcts))
		}
		if g.chance(negP) {
			neg := new(big.Int).Neg(g.pct(pick(g.r, pcts)))
			if o.RA.SubPct.Sign() > 0 && g.chance(0.5) {
				o.RA.MainPct = neg
			} else if o.RA.MainPct.Sign() > 0 {
				o.RA.SubPct = pick(g.r, []*big.Int{neg, nil})
			}
		}
		if g.chance(0.03) {
			o.RA.MainPct = nil // panics in ValidateCampaign
		}
		if g.chance(0.03) {
			o.RA.MainPct, o.RA.SubPct = g.pct("0.6"), g.pct("0.4") // sum = 1: invalid
		}
		if g.chance(0.3) {
			o.RA.Main, o.RA.Sub = bigp(0), bigp(0)
		}
		if g.chance(0.03) {
			o.RA.Main = bigp(5) // amounts are not allowed for percentage campaigns
		}
		if g.chance(negP / 2) {
			o.RA.Main = bigp(-3)
		}
		o.Constr = 2
		o.ConstrMax = bigp(pick(g.r, []int64{0, 500, 500, 100000, 100000000, -1}))
		if g.chance(0.04) {
			o.Constr = g.r.Intn(2)
		}
	}
	if o.Ty != 8 && g.chance(0.1) {
		o.Constr = 1 + g.r.Intn(2)
		o.ConstrMax = bigp(77)
	}
	if (o.Ty == 1 || o.Ty == 2 || o.Ty == 3 || o.Ty == 4) && g.chance(0.03) {
		o.RA.Unlock = 0 // invalid with a subaccount component
	}
	// malformed stream
	switch {
	case g.chance(0.02):
		o.Cat = pick(g.r, []int64{0, 4, 5, 7, 2, 3})
	case g.chance(0.02):
		o.Ty = pick(g.r, []int64{0, 6, 7, 9})
	case g.chance(0.02):
		o.AType = pick(g.r, []int64{0, 2, 1, 3})
	case g.chance(0.015):
		o.RA.Present = false
	case g.chance(0.01):
		o.Start = -1
	}
	if o.Ty == 7 && g.chance(0.5) {
		o.Cat = 5
	}
	// funds
	sum := int64(0)
	for _, x := range []*big.Int{o.RA.Main, o.RA.Sub} {
		if x != nil {
			sum += x.Int64()
		}
	}
	base := sum
	if base <= 0 {
		base = pick(g.r, []int64{100, 1000, 50000})
	}
	if o.Ty == 8 {
		base = pick(g.r, []int64{1000, 100000, 5000000})
		if m := g.c.Cfg.Bet.Constraints.MinAmount.Int64(); base < m && g.chance(0.8) {
			base = m * 2
		}
	}
	total := base * pick(g.r, []int64{1, 2, 5, 20, 50})
	if o.Ty == 8 && g.chance(0.4) {
		// a pool that a single bonus can exhaust: the insufficient-pool path of percentage campaigns
		total = pick(g.r, []int64{20, 150, 900, 5000})
	}
	switch {
	case g.chance(0.03):
		total = sum - 1 // less than one reward: invalid (or non-positive)
	case g.chance(0.02):
		total = g.c.Cfg.Balance + 1 // more than the promoter can own
	case g.chance(0.01):
		total = 0
	}
	o.Total = bigp(total)
	if underGrant != nil && underGrant.IsInt64() && total > underGrant.Int64() && g.chance(0.8) {
		o.Total = new(big.Int).Set(underGrant) // within the grant (maybe below one reward: then the payload is rejected)
		if base > 0 && underGrant.Int64() >= base {
			o.Total = bigp(base * (underGrant.Int64() / base))
		}
	}
	return o
}

func (g *RGen) genUpdate() ROp {
	cs := g.sortedCamps()
	if len(cs) == 0 {
		return g.genCampaign()
	}
	k := pick(g.r, cs)
	for i := 0; i < 3 && !k.Active; i++ {
		k = pick(g.r, cs)
	}
	signer := k.Promoter
	if g.chance(0.25) || signer < 0 || signer >= int64(len(g.c.Acc)) {
		signer = g.user()
	}
	if k.Creator != k.Promoter && k.Creator >= 0 && k.Creator < int64(len(g.c.Acc)) && g.chance(0.3) {
		signer = k.Creator
		g.stats["update_by_delegated_creator"]++
	}
	now := g.now()
	end := pick(g.r, []int64{now, now + 1, now + 90, now + 3000, int64(k.End), int64(k.End)})
	if g.chance(0.03) {
		end = now - 1
	}
	topup := pick(g.r, []int64{0, 0, 100, 150, 1000, 25000})
	if g.chance(0.04) {
		topup = pick(g.r, []int64{-5, g.c.Cfg.Balance + 1})
	}
	uid := k.UID
	if g.chance(0.02) {
		uid = 9000
	}
	return ROp{Kind: "CUPDATE", Signer: signer, Tk: g.ticket(), UID: uid, Topup: bigp(topup), End: end, Active: !g.chance(0.12)}
}

func (g *RGen) genWithdraw() ROp {
	cs := g.sortedCamps()
	if len(cs) == 0 {
		return g.genCampaign()
	}
	k := pick(g.r, cs)
	// prefer a campaign that somebody else created on the promoter's behalf: its creator is not its owner
	for _, c := range cs {
		if c.Creator != c.Promoter && g.chance(0.7) {
			k = c
			break
		}
	}
	signer := k.Promoter
	if g.chance(0.3) || signer < 0 || signer >= int64(len(g.c.Acc)) {
		signer = g.user()
	}
	if k.Creator != k.Promoter && k.Creator >= 0 && k.Creator < int64(len(g.c.Acc)) && g.chance(0.6) {
		signer = k.Creator
		g.stats["withdraw_by_delegated_creator"]++
	}
	prom := k.Promoter
	if g.chance(0.04) {
		prom = g.anyAddr()
	}
	av := k.Avail().Int64()
	var amt int64
	switch {
	case av > 0 && g.chance(0.2):
		amt = av
	case av > 0 && g.chance(0.1):
		amt = av + 1
	case g.chance(0.05):
		amt = 0
	case g.chance(0.03):
		amt = -1
	case av > 1:
		amt = 1 + g.r.Int63n(av)
		if g.chance(0.5) {
			amt = 1 + g.r.Int63n(100) // fits a withdraw grant
		}
	default:
		amt = 1 + int64(g.r.Intn(50))
	}
	uid := k.UID
	if g.chance(0.02) {
		uid = 9000
	}
	return ROp{Kind: "CWITHDRAW", Signer: signer, Tk: g.ticket(), UID: uid, Amount: bigp(amt), Prom: prom}
}

func (g *RGen) goodKyc(receiver int64) Kyc {
	if g.chance(0.3) {
		return Kyc{Ignore: true, Approved: false, ID: rInvalidID}
	}
	return Kyc{Ignore: false, Approved: true, ID: receiver}
}

func (g *RGen) genGrant() ROp {
	cs := g.sortedCamps()
	if len(cs) == 0 {
		return g.genCampaign()
	}
	now := uint64(g.now())
	// replay a successful grant with a fresh reward uid
	if len(g.okGrants) > 0 && g.chance(0.12) {
		o := pick(g.r, g.okGrants)
		if k, ok := g.snap.Camps[o.Camp]; !ok || !k.Active || k.End < now {
			o = pick(g.r, g.okGrants)
		}
		o.UID = g.nextRew
		g.nextRew++
		if g.chance(0.5) {
			o.Tk = g.ticket()
		}
		g.stats["grant_replayed"]++
		return o
	}
	var live []RCamp
	for _, k := range cs {
		if k.Active && k.Start <= now && now <= k.End {
			live = append(live, k)
		}
	}
	k := pick(g.r, cs)
	if len(live) > 0 && g.chance(0.88) {
		k = pick(g.r, live)
		// favour the rarer types
		for i := 0; i < 2 && k.Ty == 1; i++ {
			k = pick(g.r, live)
		}
		settled := false
		for _, b := range g.snap.Bets {
			if b.Main && (b.Result == 2 || b.Result == 3) {
				settled = true
			}
		}
		if settled && g.chance(0.5) {
			for _, k2 := range live {
				if k2.Ty == 8 {
					k = k2
				}
			}
		}
	}
	o := ROp{Kind: "RGRANT", Signer: g.user(), Tk: g.ticket(), Camp: k.UID, HasKyc: true, BetUID: -1}
	o.Receiver = g.anyAddr()
	o.Source = pick(g.r, []int64{g.user(), int64(len(g.c.Acc)), g.user()})
	o.Peer = g.anyAddr()
	puid, hasProm := g.snap.PromAddr[k.Promoter]
	if (k.Ty == 4 || k.Ty == 5) && hasProm && g.chance(0.9) {
		var signed []int64
		for _, b := range g.snap.ByCat {
			if b.Prom == puid && b.Cat == 1 {
				signed = append(signed, b.Addr)
			}
		}
		if len(signed) > 0 {
			o.Peer = pick(g.r, signed)
		}
	}
	if k.Ty == 8 {
		var good, other []RBet
		for _, b := range g.snap.Bets {
			if b.Main && (b.Result == 2 || b.Result == 3) {
				good = append(good, b)
			} else {
				other = append(other, b)
			}
		}
		switch {
		case len(good) > 0 && g.chance(0.85):
			b := pick(g.r, good)
			o.BetUID = b.UID
			if g.chance(0.93) {
				o.Receiver = b.Creator
			}
		case len(other) > 0 && g.chance(0.8):
			b := pick(g.r, other)
			o.BetUID = b.UID
			o.Receiver = b.Creator
		case g.chance(0.5):
			o.BetUID = 4242
		}
	}
	if (k.Ty == 2 || k.Ty == 3) && g.chance(0.04) {
		o.Source = rInvalidID
	}
	o.Ky = g.goodKyc(o.Receiver)
	switch {
	case g.chance(0.025):
		o.Ky = Kyc{Ignore: false, Approved: true, ID: (o.Receiver + 1) % int64(len(g.c.Acc))}
	case g.chance(0.015):
		o.Ky = Kyc{Ignore: false, Approved: false, ID: o.Receiver}
	case g.chance(0.015):
		o.HasKyc = false
	}
	o.UID = g.nextRew
	switch {
	case g.chance(0.05) && len(g.snap.Rewards) > 0:
		var ids []int64
		for id := range g.snap.Rewards {
			ids = append(ids, id)
		}
		sort.Slice(ids, func(i, j int) bool { return ids[i] < ids[j] })
		o.UID = pick(g.r, ids)
	case g.chance(0.01):
		o.UID = -1
	default:
		g.nextRew++
	}
	if g.chance(0.02) {
		o.Camp = pick(g.r, []int64{9000, -1})
	}
	return o
}

func (g *RGen) genAuthGrant() ROp {
	granter := g.user()
	if pa := g.promAddrs(); len(pa) > 0 && g.chance(0.8) {
		granter = pick(g.r, pa)
	}
	grantee := g.user()
	if g.chance(0.03) {
		grantee = g.anyAddr()
		// never a module account: x/authz refuses a grant to a blocked address only while that account does not exist yet, which
		// depends on module-account creation outside the reward machine (SDK behaviour, outside the claim)
		if grantee < 0 && grantee != rInvalidID {
			grantee = g.user()
		}
	}
	kind := int64(1 + g.r.Intn(3))
	var limit int64
	if kind == 3 {
		limit = pick(g.r, []int64{100, 100, 50, 1, 7, 101})
	} else {
		limit = pick(g.r, []int64{100, 1000, 25000, 1000000, 150, 99})
	}
	exp := int64(-1)
	if g.chance(0.6) {
		exp = g.now() + int64(g.r.Intn(80))
	}
	if g.chance(0.02) {
		kind = 4
	}
	return ROp{Kind: "AGRANT", Granter: granter, Grantee: grantee, GKind: kind, Limit: bigp(limit), Exp: exp}
}

func (g *RGen) genAuthRevoke() ROp {
	if len(g.snap.Grants) > 0 && g.chance(0.85) {
		x := pick(g.r, g.snap.Grants)
		return ROp{Kind: "AREVOKE", Granter: x.Granter, Grantee: x.Grantee, GKind: x.Kind}
	}
	return ROp{Kind: "AREVOKE", Granter: g.user(), Grantee: g.user(), GKind: int64(1 + g.r.Intn(3))}
}

func (g *RGen) genSubCreate() ROp {
	o := ROp{Kind: "SUBCREATE", Signer: g.user(), Owner: g.anyAddr()}
	n := g.r.Intn(3)
	for i := 0; i < n; i++ {
		ts := g.now() + int64(pick(g.r, []int{0, 1, 10, 100, 100}))
		if g.chance(0.04) {
			ts = g.now() - 1 // expired: invalid
		}
		if g.chance(0.02) {
			ts = 0
		}
		amt := int64(pick(g.r, []int{0, 1, 50, 1000}))
		if g.chance(0.03) {
			amt = -1
		}
		o.Locks = append(o.Locks, RLock{TS: ts, Amt: bigp(amt)})
	}
	return o
}

func (g *RGen) genSend() ROp {
	amt := pick(g.r, []int64{1, 100, 5000, 0})
	if g.chance(0.03) {
		amt = g.c.Cfg.Balance * 3
	}
	return ROp{Kind: "SEND", From: g.user(), To: g.anyAddr(), Amount: bigp(amt)}
}

// genExt draws a real betting-module operation (market / deposit / wager / resolve), mostly valid so that
// main-market bets get placed and settled.
func (g *RGen) genExt() ROp {
	var e Op
	main := false
	am := g.bg.activeMarkets()
	var live []*gMarket
	for _, m := range am {
		if m.status == 1 && m.end > g.now() {
			live = append(live, m)
		}
	}
	bm := g.bg.bettableMarket()
	hasPending := false
	for _, b := range g.snap.Bets {
		if b.Result == 1 {
			hasPending = true
		}
	}
	switch {
	case len(live) == 0 || (len(live) < 2 && g.chance(0.1)):
		e = g.bg.genMarketAdd()
	case bm == nil || g.chance(0.08):
		m := pick(g.r, live)
		signer := g.user()
		amt := pick(g.r, []int64{1000000, 3000000, 250000})
		e = Op{Kind: "DEP", Signer: signer, Tk: g.bg.leaderTicket(), Mkt: m.uid, Amount: bi(amt),
			Ky: Kyc{Ignore: false, Approved: true, ID: signer}, Depositor: -1}
	case hasPending && g.chance(0.3):
		e = g.bg.genMarketResolve()
	case g.chance(0.12):
		e = g.bg.genWager()
		main = g.chance(0.7)
	default:
		signer := g.user()
		sel := pick(g.r, bm.odds)
		one := decFromStr("1")
		var all []OddsMult
		for _, o := range bm.odds {
			all = append(all, OddsMult{Odds: o, Mult: one})
		}
		min := g.c.Cfg.Bet.Constraints.MinAmount.Int64()
		amt := min + g.c.Cfg.Bet.Constraints.Fee.Int64() + int64(g.r.Intn(3000))
		uid := g.bg.nextBet
		g.bg.nextBet++
		e = Op{Kind: "WAG", Signer: signer, Tk: g.bg.leaderTicket(), BetUID: uid, Amount: bi(amt), SelMkt: bm.uid, SelOdds: sel,
			OddsVal: decFromStr(pick(g.r, []string{"1.5", "2", "1.25", "1.1"})), Mult: one, Ky: Kyc{Ignore: true, ID: -1}, OddsType: 1,
			AllOdds: all}
		main = g.chance(0.85)
	}
	return ROp{Kind: "EXT", Ext: &e, ExtMain: e.Kind == "WAG" && main}
}

// NextTx draws one transaction.
func (g *RGen) NextTx() ROp {
	type w struct {
		f func() ROp
		w int
	}
	ws := []w{{g.genPromoter, 5}, {g.genPromConf, 3}, {g.genCampaign, 14}, {g.genUpdate, 7}, {g.genWithdraw, 7}, {g.genGrant, 38},
		{g.genAuthGrant, 5}, {g.genAuthRevoke, 1}, {g.genSubCreate, 3}, {g.genSend, 2}, {g.genExt, 0}}
	if len(g.snap.PromAddr) == 0 {
		ws[0].w = 60
	}
	if len(g.snap.PromAddr) > 0 && len(g.snap.Camps) < 3 {
		ws[2].w = 45
	}
	if g.withBets {
		ws[10].w = 22
		if len(g.snap.Bets) < 3 {
			ws[10].w = 45
		}
	}
	tot := 0
	for _, x := range ws {
		tot += x.w
	}
	k := g.r.Intn(tot)
	for _, x := range ws {
		if k < x.w {
			return x.f()
		}
		k -= x.w
	}
	return g.genSend()
}

// NextTime draws the next block time; sometimes exactly on / next to a campaign's window edge.
func (g *RGen) NextTime(t int64) int64 {
	if g.snap != nil && g.chance(0.3) {
		var edges []int64
		for _, k := range g.sortedCamps() {
			for _, e := range []int64{int64(k.Start), int64(k.End)} {
				for _, d := range []int64{-1, 0, 1} {
					if e+d > t && e+d < t+400 {
						edges = append(edges, e+d)
					}
				}
			}
		}
		if len(edges) > 0 {
			return pick(g.r, edges)
		}
	}
	return t + int64(1+g.r.Intn(pick(g.r, []int{3, 20, 120})))
}

// Observe refreshes the generator's view after an executed op.
func (g *RGen) Observe(o ROp, res string, cur *RSnap) {
	g.snap = cur
	if o.Kind == "EXT" {
		g.stats["EXT_"+o.Ext.Kind+":"+res]++
		g.bg.Observe(*o.Ext, res)
		delete(g.bg.stats, o.Ext.Kind+":"+res)
		return
	}
	g.stats[o.Kind+":"+res]++
	if res != "ok" {
		return
	}
	switch o.Kind {
	case "RGRANT":
		g.okGrants = append(g.okGrants, o)
		if k, ok := cur.Camps[o.Camp]; ok {
			g.stats[map[int64]string{1: "grant_ok_signup", 2: "grant_ok_referee_signup", 3: "grant_ok_affiliatee_signup",
				4: "grant_ok_referrer", 5: "grant_ok_affiliator", 8: "grant_ok_bet_bonus"}[k.Ty]]++
		}
	case "CCREATE":
		g.stats["campaign_ok_type_"+map[int64]string{1: "signup", 2: "referee_signup", 3: "affiliatee_signup", 4: "referrer",
			5: "affiliator", 8: "bet_bonus"}[o.Ty]]++
		neg := false
		for _, x := range []*big.Int{o.RA.Main, o.RA.Sub, o.RA.MainPct, o.RA.SubPct} {
			if x != nil && x.Sign() < 0 {
				neg = true
			}
		}
		if neg {
			g.stats["campaign_ok_negative_component"]++
		}
	}
}

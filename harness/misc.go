// misc.go — small helpers: GEN line parsing, headers, mint parameter generator.
package main

import (
	"fmt"
	"math/big"
	"math/rand"
	"sort"
	"strconv"
	"strings"
	"time"

	sdkmath "cosmossdk.io/math"
	tmproto "github.com/cometbft/cometbft/proto/tendermint/types"

	minttypes "github.com/sge-network/sge/x/mint/types"
)

func sortStrings(l []string) { sort.Strings(l) }

func (c *Chain) header() tmproto.Header {
	return tmproto.Header{Height: c.Height, Time: time.Unix(c.Time, 0).UTC()}
}

func mustBig(s string) *big.Int {
	v, ok := new(big.Int).SetString(s, 10)
	if !ok {
		panic("bad int " + s)
	}
	return v
}

// ParseGenLine inverts genLine (supply is derived, not configured).
func ParseGenLine(l string) GenesisCfg {
	t := strings.Fields(l)
	i := 1
	next := func() string { x := t[i]; i++; return x }
	n64 := func() int64 { v, _ := strconv.ParseInt(next(), 10, 64); return v }
	cfg := DefaultGenesisCfg()
	cfg.NAcc = int(n64())
	cfg.Balance = n64()
	next() // supply
	cfg.StartTime = n64()
	next() // P
	cfg.Bet.BatchSettlementCount = uint32(n64())
	cfg.Bet.Constraints.MinAmount = sdkmath.NewIntFromBigInt(mustBig(next()))
	cfg.Bet.Constraints.Fee = sdkmath.NewIntFromBigInt(mustBig(next()))
	cfg.Orderbook.MaxOrderBookParticipations = uint64(n64())
	cfg.Orderbook.BatchSettlementCount = uint64(n64())
	cfg.Orderbook.RequeueThreshold = uint64(n64())
	cfg.House.MinDeposit = sdkmath.NewIntFromBigInt(mustBig(next()))
	cfg.House.HouseParticipationFee = sdkmath.LegacyNewDecFromBigIntWithPrec(mustBig(next()), 18)
	cfg.House.MaxWithdrawalCount = uint64(n64())
	next() // V
	cfg.NKeys = int(n64())
	for k := 0; k < cfg.NKeys; k++ {
		next()
	}
	next() // M
	cfg.Mint.BlocksPerYear = n64()
	cfg.Mint.ExcludeAmount = sdkmath.NewIntFromBigInt(mustBig(next()))
	np := int(n64())
	cfg.Mint.Phases = nil
	for k := 0; k < np; k++ {
		infl := sdkmath.LegacyNewDecFromBigIntWithPrec(mustBig(next()), 18)
		coef := sdkmath.LegacyNewDecFromBigIntWithPrec(mustBig(next()), 18)
		cfg.Mint.Phases = append(cfg.Mint.Phases, minttypes.Phase{Inflation: infl, YearCoefficient: coef})
	}
	if i < len(t) && t[i] == "S" {
		next()
		cfg.Subaccount.WagerEnabled = next() == "1"
		cfg.Subaccount.DepositEnabled = next() == "1"
	}
	return cfg
}

// mintParamsFor draws valid mint parameters with short phases so that a history crosses several.
func mintParamsFor(r *rand.Rand) minttypes.Params {
	p := minttypes.DefaultParams()
	p.BlocksPerYear = pick(r, []int64{7, 10, 24, 60, 100, 365})
	n := 1 + r.Intn(4)
	p.Phases = nil
	for i := 0; i < n; i++ {
		coef := pick(r, []string{"0.5", "0.25", "0.1", "1", "0.333333333333333333", "0.07", "1.5", "0.2"})
		infl := pick(r, []string{"0.1", "0.229787234042553191", "0.01", "0", "1", "0.000001", "0.5", "0.033333333333333333"})
		p.Phases = append(p.Phases, minttypes.Phase{YearCoefficient: sdkmath.LegacyMustNewDecFromStr(coef), Inflation: sdkmath.LegacyMustNewDecFromStr(infl)})
	}
	p.ExcludeAmount = sdkmath.NewInt(pick(r, []int64{0, 0, 1000000, 999999999, 99999999999999}))
	// keep the genesis valid: every phase at least one block long (boundary: exactly one block)
	for i := range p.Phases {
		for !p.Phases[i].YearCoefficient.MulInt64(p.BlocksPerYear).TruncateInt().IsPositive() {
			p.Phases[i].YearCoefficient = p.Phases[i].YearCoefficient.MulInt64(2)
		}
	}
	return p
}

// mintProbe: C17/C13 — draws extreme mint parameter sets, keeps those the module's own Validate accepts, boots a
// chain from each and processes blocks through every phase (and two blocks past the last); each run is written as
// an ordinary history file <prefix>_<i>.txt, so that an aborting begin blocker shows up as a replayable history.
func mintProbe(seed int64, n int, prefix string) {
	r := rand.New(rand.NewSource(seed))
	acc := 0
	for i := 0; i < n; i++ {
		p := mintParamsFor(r)
		if r.Intn(2) == 0 {
			p.Phases = p.Phases[:1+r.Intn(len(p.Phases))] // more short schedules: boundary cases of "last phase"
		}
		p = applyExtreme(p, r)
		if p.Validate() != nil {
			continue
		}
		cfg := GenesisFor("mint", r)
		cfg.Mint = p
		func() {
			h := newHistWriter(fmt.Sprintf("%s_%d.txt", prefix, acc))
			defer h.close()
			acc++
			c, err := NewChain(cfg)
			if err != nil {
				h.line("BOOTFAIL " + strings.ReplaceAll(err.Error(), "\n", " "))
				return
			}
			h.line(genLine(c))
			mon := NewMonitors()
			defer func() { h.line(fmt.Sprintf("MONCOUNT %d", mon.evals)) }()
			total := int64(2)
			for _, ph := range p.Phases {
				total += ph.YearCoefficient.MulInt64(p.BlocksPerYear).TruncateInt64()
			}
			if total > 80 {
				total = 80
			}
			t := cfg.StartTime
			for b := int64(0); b < total && !c.Halted; b++ {
				t += 5
				if step(c, h, Op{Kind: "BEGIN", T: t}, mon) == "panic" {
					return
				}
				if step(c, h, Op{Kind: "END"}, mon) == "panic" {
					return
				}
			}
		}()
	}
}

func init() {
	extraModes["mintprobe"] = func(args []string) {
		seed, _ := strconv.ParseInt(args[0], 10, 64)
		n, _ := strconv.Atoi(args[1])
		mintProbe(seed, n, args[2])
		// the parameter-update messages of bet, house, orderbook and mint (paramsmsg.go), on one default chain
		func() {
			r := rand.New(rand.NewSource(seed + 17))
			h := newHistWriter(args[2] + "_params.txt")
			defer h.close()
			c, err := NewChain(GenesisFor("bet", r))
			if err != nil {
				h.line("BOOTFAIL " + strings.ReplaceAll(err.Error(), "\n", " "))
				return
			}
			h.line(genLine(c))
			ev := paramsMsgProbe(r, 6*n, h, c)
			h.line(fmt.Sprintf("MONCOUNT %d", ev))
		}()
	}
}

// monitors.go — property predicates evaluated directly on the real application's state after every
// operation (independent of the Coq model; used to exhibit a failing history on the implementation).
package main

type Monitors struct{}

func NewMonitors() *Monitors { return &Monitors{} }

func (m *Monitors) Check(c *Chain, o Op, res string) []string { return nil }

func (m *Monitors) OnPanic(c *Chain, o Op, res string) []string {
	return []string{"C05 block processing aborted: " + res}
}

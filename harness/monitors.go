// monitors.go — property predicates evaluated directly on the real application's state after every
// operation (independent of the Coq model; they exhibit a failing history on the implementation).
// Each violation line starts with the property id.
package main

import (
	"fmt"
	"math/big"
	"sort"
	"strings"

	sdkmath "cosmossdk.io/math"
	abci "github.com/cometbft/cometbft/abci/types"
	authtypes "github.com/cosmos/cosmos-sdk/x/auth/types"

	minttypes "github.com/sge-network/sge/x/mint/types"
)

type Monitors struct {
	prevSupply sdkmath.Int
	havePrev   bool
	// C13 phase accounting
	phStep   int32
	phProv   sdkmath.LegacyDec
	phSum    sdkmath.Int
	phBlocks int64
	phFirst  bool // phase observed from its first block
	evals    int
	prev     *Snap
	prevDump []string
	prevOvm  *ovmSnap
	prevSubs map[int64]*subSnap
	subReleased map[int64]*big.Int
	subSched    map[int64][][2]*big.Int // unlock schedule as deposited (unlock time, amount) per accepted create / top-up
	subDirect   map[int64]*big.Int
	grantExp    map[[3]int64]int64 // (granter, grantee, kind) -> expiry of the grant as it was given
	mkCreator   map[string]string  // market uid -> the creator recorded when the market was added (fees are owed to that account)
}

func NewMonitors() *Monitors {
	return &Monitors{phStep: -99, subReleased: map[int64]*big.Int{}, subSched: map[int64][][2]*big.Int{}, subDirect: map[int64]*big.Int{}, grantExp: map[[3]int64]int64{}}
}

func attr(ev abci.Event, key string) string {
	for _, a := range ev.Attributes {
		if a.Key == key {
			return a.Value
		}
	}
	return ""
}

func amountOf(s string) *big.Int {
	s = strings.TrimSuffix(s, Denom)
	v, ok := new(big.Int).SetString(s, 10)
	if !ok {
		return big.NewInt(0)
	}
	return v
}

func (m *Monitors) Check(c *Chain, o Op, res string) []string {
	var v []string
	v = append(v, m.c13(c, o, res)...)
	cur := c.Snapshot()
	var prevBal map[string]*big.Int
	if m.prev != nil {
		prevBal = m.prev.Bal
	}
	v = append(v, m.c11(c, o, res, prevBal)...)
	v = append(v, m.betMonitors(c, o, res, m.prev, cur)...)
	v = append(v, m.c17(cur)...)
	v = append(v, m.c06(c, o, res)...)
	v = append(v, m.c14(c, o, res)...)
	m.prev = cur
	m.evals++
	return v
}

// Atomicity: a failed transaction leaves no trace (the whole projected state is unchanged).
func (m *Monitors) CheckAtomic(o Op, res string, dump []string) []string {
	var v []string
	if res == "err" && m.prevDump != nil {
		same := len(dump) == len(m.prevDump)
		for i := 0; same && i < len(dump); i++ {
			same = dump[i] == m.prevDump[i]
		}
		if !same {
			tag := "C06"
			if o.Kind == "WAG" {
				tag = "C08"
			}
			v = append(v, tag+" failed "+o.Kind+" changed the state")
			if tag == "C08" {
				v = append(v, "C06 failed "+o.Kind+" changed the state")
			}
		}
	}
	m.prevDump = dump
	return v
}

func (m *Monitors) OnPanic(c *Chain, o Op, res string) []string {
	return []string{"C05 block processing aborted in " + o.Kind + ": " + trunc(res, 300)}
}

func trunc(s string, n int) string {
	s = strings.ReplaceAll(s, "\n", " ")
	if len(s) > n {
		return s[:n]
	}
	return s
}

// ---- C13 ---------------------------------------------------------------------------------------
func (m *Monitors) c13(c *Chain, o Op, res string) []string {
	var v []string
	sup := c.Supply()
	if !m.havePrev {
		// supply before the first block = genesis supply
		g, _ := sdkmath.NewIntFromString(c.SupplyAtGenesis())
		m.prevSupply = g
		m.havePrev = true
	}
	delta := sup.Sub(m.prevSupply)
	if o.Kind == "BEGIN" {
		minted := big.NewInt(0)
		toFee := big.NewInt(0)
		mintAddr := c.ModAddr(minttypes.ModuleName).String()
		feeAddr := c.ModAddr(authtypes.FeeCollectorName).String()
		for _, ev := range c.LastBegin.Events {
			switch ev.Type {
			case "mint":
				minted.Add(minted, amountOf(attr(ev, "amount")))
			case "transfer":
				if attr(ev, "sender") == mintAddr && attr(ev, "recipient") == feeAddr {
					toFee.Add(toFee, amountOf(attr(ev, "amount")))
				}
			}
		}
		if delta.BigInt().Cmp(minted) != 0 {
			v = append(v, fmt.Sprintf("C13 supply grew by %s in BeginBlock but the mint event says %s", delta, minted))
		}
		if toFee.Cmp(minted) != 0 {
			v = append(v, fmt.Sprintf("C13 minted %s but %s was transferred to the fee collector", minted, toFee))
		}
		// phase accounting
		ctx := c.Ctx()
		mt := c.App.MintKeeper.GetMinter(ctx)
		p := c.App.MintKeeper.GetParams(ctx)
		if mt.PhaseStep != m.phStep {
			// previous phase finished: compare if observed completely
			if m.phFirst && m.phStep >= 1 && int(m.phStep) <= len(p.Phases) {
				B := p.Phases[m.phStep-1].YearCoefficient.Mul(sdkmath.LegacyNewDec(p.BlocksPerYear)).TruncateInt().Int64()
				if B >= 1 {
					// the phase just left was observed from its first block to its last one
					if B != m.phBlocks {
						v = append(v, fmt.Sprintf("C13 phase %d lasted %d blocks but its year coefficient gives %d", m.phStep, m.phBlocks, B))
					}
					// |sum*1e18 - prov| < 1e18 + B
					d := new(big.Int).Sub(new(big.Int).Mul(m.phSum.BigInt(), prec), m.phProv.BigInt())
					d.Abs(d)
					bound := new(big.Int).Add(prec, big.NewInt(B))
					if d.Cmp(bound) >= 0 {
						v = append(v, fmt.Sprintf("C13 phase %d minted %s over %d blocks but its provisions were %s", m.phStep, m.phSum, m.phBlocks, m.phProv))
					}
				}
			}
			m.phStep = mt.PhaseStep
			m.phProv = mt.PhaseProvisions
			m.phSum = sdkmath.ZeroInt()
			m.phBlocks = 0
			m.phFirst = true
		}
		m.phSum = m.phSum.Add(sdkmath.NewIntFromBigInt(minted))
		m.phBlocks++
		if mt.PhaseStep == minttypes.EndPhaseAlias && minted.Sign() != 0 {
			v = append(v, fmt.Sprintf("C13 minted %s after the last phase", minted))
		}
	} else if !delta.IsZero() {
		v = append(v, fmt.Sprintf("C13 supply changed by %s during %s", delta, o.Kind))
	}
	m.prevSupply = sup
	return v
}

// ---- C14 ------------------------------------------------------------------------------------------
type ovmSnap struct {
	vault []int64
	props map[uint64]ovmProp
}
type ovmProp struct {
	status, result int32
	keys           []int64
	leader         uint32
	start          int64
	votes          [][2]int64 // key, vote
}

func (c *Chain) ovmSnapshot() *ovmSnap {
	ctx := c.Ctx()
	s := &ovmSnap{props: map[uint64]ovmProp{}}
	if kv, ok := c.App.OVMKeeper.GetKeyVault(ctx); ok {
		for _, k := range kv.PublicKeys {
			s.vault = append(s.vault, c.keyID(k))
		}
	}
	ps, _ := c.App.OVMKeeper.GetAllPubkeysChangeProposals(ctx)
	for _, p := range ps {
		x := ovmProp{status: int32(p.Status), result: int32(p.Result), leader: p.Modifications.LeaderIndex, start: p.StartTS}
		for _, k := range p.Modifications.PublicKeys {
			x.keys = append(x.keys, c.keyID(k))
		}
		for _, v := range p.Votes {
			x.votes = append(x.votes, [2]int64{c.keyID(v.PublicKey), int64(v.Vote)})
		}
		s.props[p.Id] = x
	}
	return s
}

func has(l []int64, x int64) bool {
	for _, y := range l {
		if y == x {
			return true
		}
	}
	return false
}

func sameList(a, b []int64) bool {
	if len(a) != len(b) {
		return false
	}
	for i := range a {
		if a[i] != b[i] {
			return false
		}
	}
	return true
}

func (m *Monitors) c14(c *Chain, o Op, res string) []string {
	var v []string
	cur := c.ovmSnapshot()
	prev := m.prevOvm
	m.prevOvm = cur
	// shape of the vault
	seen := map[int64]bool{}
	for _, k := range cur.vault {
		if k < 0 || seen[k] {
			v = append(v, fmt.Sprintf("C14 key vault %v holds an invalid or repeated key", cur.vault))
		}
		seen[k] = true
	}
	if len(cur.vault) < 4 || len(cur.vault) > 5 {
		v = append(v, fmt.Sprintf("C14 key vault has %d keys", len(cur.vault)))
	}
	for id, p := range cur.props {
		vs := map[int64]bool{}
		for _, x := range p.votes {
			if vs[x[0]] {
				v = append(v, fmt.Sprintf("C14 key %d voted twice on proposal %d", x[0], id))
			}
			vs[x[0]] = true
		}
	}
	if prev == nil {
		return v
	}
	if !sameList(prev.vault, cur.vault) {
		if o.Kind != "END" {
			v = append(v, fmt.Sprintf("C14 key vault changed during %s", o.Kind))
			return v
		}
		// replay the decisions of this EndBlock in proposal order against the vault at each decision
		vault := prev.vault
		var ids []uint64
		for id := range cur.props {
			ids = append(ids, id)
		}
		sort.Slice(ids, func(i, j int) bool { return ids[i] < ids[j] })
		for _, id := range ids {
			p := cur.props[id]
			pp, ok := prev.props[id]
			if !ok || pp.status != 1 || p.status != 2 || p.result != 1 {
				continue
			}
			yes := 0
			for _, x := range p.votes {
				if x[1] == 2 && has(vault, x[0]) {
					yes++
				}
			}
			need := (2*len(vault) + 2) / 3
			yesAll := 0
			for _, x := range p.votes {
				if x[1] == 2 {
					yesAll++
				}
			}
			needStart := (2*len(prev.vault) + 2) / 3
			if yesAll < needStart {
				// not even the recorded yes votes reach two thirds of the keys registered when the block started: no reading of the
				// rule allows this approval (this is NOT the known finding D10, which is about whose votes are counted)
				v = append(v, fmt.Sprintf("C14 proposal %d approved with only %d yes votes recorded, %d needed for the %d keys registered (votes %v)", id, yesAll, needStart, len(prev.vault), p.votes))
			} else if yes < need {
				v = append(v, fmt.Sprintf("C14 proposal %d approved with %d yes votes of currently registered keys, %d needed (vault %v, votes %v)", id, yes, need, vault, p.votes))
			}
			if c.Time-p.start > 1800 {
				v = append(v, fmt.Sprintf("C14 proposal %d approved %d seconds after submission", id, c.Time-p.start))
			}
			nv := []int64{p.keys[p.leader]}
			for i, k := range p.keys {
				if uint32(i) != p.leader {
					nv = append(nv, k)
				}
			}
			vault = nv
		}
		if !sameList(vault, cur.vault) {
			v = append(v, fmt.Sprintf("C14 key vault became %v but the approved proposals give %v", cur.vault, vault))
			// the same fact as a statement about the signed proposal ticket: its effect is not the signed payload (key list, leader index)
			v = append(v, fmt.Sprintf("C06 the keys installed by an approved proposal are %v, the signed proposal says %v (leader first)", cur.vault, vault))
		}
	}
	// a vote is recorded only with a ticket of the voting key
	if o.Kind == "VOTE" && res == "ok" {
		if int(o.VoterIdx) >= len(prev.vault) || prev.vault[o.VoterIdx] != o.Tk.Signer || o.Tk.Exp <= c.Time {
			v = append(v, "C14 vote accepted with a ticket not signed by the voting key")
		}
	}
	if o.Kind == "PROP" && res == "ok" {
		if !has(prev.vault, o.Tk.Signer) || o.Tk.Exp <= c.Time {
			v = append(v, "C14 proposal accepted with a ticket not signed by a registered key")
		}
	}
	return v
}

// ---- C06 --------------------------------------------------------------------------------------------
// An accepted ticket-bearing message must have carried a ticket signed by the leader registered
// BEFORE the message (own key for votes, any registered key for proposals) with exp > block time,
// and non-ignorable identity data naming the approved acting account.
func (m *Monitors) c06(c *Chain, o Op, res string) []string {
	var v []string
	if res != "ok" || m.prevOvm == nil || len(m.prevOvm.vault) == 0 {
		return v
	}
	leader := m.prevOvm.vault[0]
	okLeader := func(t Ticket) bool { return t.Signer >= 0 && t.Signer == leader && t.Exp > c.Time }
	kycOK := func(k Kyc, acting int64) bool { return k.Ignore || (k.Approved && k.ID == acting) }
	switch o.Kind {
	case "MADD", "MUPD", "MRES":
		if !okLeader(o.Tk) {
			v = append(v, "C06 "+o.Kind+" accepted with an invalid ticket")
		}
	case "DEP", "SDEP":
		acting := o.Signer
		if o.Kind == "DEP" && o.Depositor >= 0 {
			acting = o.Depositor
		}
		if !okLeader(o.Tk) {
			v = append(v, "C06 "+o.Kind+" accepted with an invalid ticket")
		}
		if !kycOK(o.Ky, acting) {
			v = append(v, "C06 "+o.Kind+" accepted with identity data that does not approve the depositor")
		}
	case "WDR", "SWDR":
		acting := o.Signer
		if o.Depositor >= 0 {
			acting = o.Depositor
		}
		if !okLeader(o.Tk) {
			v = append(v, "C06 "+o.Kind+" accepted with an invalid ticket")
		}
		if !kycOK(o.Ky, acting) {
			v = append(v, "C06 "+o.Kind+" accepted with identity data that does not approve the depositor")
		}
	case "WAG":
		if !okLeader(o.Tk) {
			v = append(v, "C06 WAG accepted with an invalid ticket")
		}
		if !kycOK(o.Ky, o.Signer) {
			v = append(v, "C06 WAG accepted with identity data that does not approve the bettor")
		}
	case "PROP":
		reg := false
		for _, k := range m.prevOvm.vault {
			reg = reg || k == o.Tk.Signer
		}
		if !(o.Tk.Signer >= 0 && reg && o.Tk.Exp > c.Time) {
			v = append(v, fmt.Sprintf("C06 PROP accepted with a ticket that is not an unexpired ticket of a registered key (signer %d, exp %d, block time %d)", o.Tk.Signer, o.Tk.Exp, c.Time))
		}
	case "VOTE":
		okv := o.VoterIdx >= 0 && int(o.VoterIdx) < len(m.prevOvm.vault) && o.Tk.Signer >= 0 && m.prevOvm.vault[o.VoterIdx] == o.Tk.Signer && o.Tk.Exp > c.Time
		if !okv {
			v = append(v, fmt.Sprintf("C06 VOTE accepted with a ticket that is not an unexpired ticket of the voting key (signer %d, exp %d, block time %d)", o.Tk.Signer, o.Tk.Exp, c.Time))
		}
	case "SWAG":
		if !okLeader(o.Tk) || !okLeader(o.Tk2) {
			v = append(v, "C06 SWAG accepted with an invalid ticket")
		}
		if !kycOK(o.Ky, o.Signer) {
			v = append(v, "C06 SWAG accepted with identity data that does not approve the bettor")
		}
	}
	return v
}

// ---- C11 --------------------------------------------------------------------------------------------
type subSnap struct {
	id                       int64
	owner                    string
	addr                     string
	dep, spent, wd, lost     *big.Int
	bal                      *big.Int
	locks                    map[uint64]*big.Int
}

func (c *Chain) subSnapshot() map[int64]*subSnap {
	ctx := c.Ctx()
	r := map[int64]*subSnap{}
	for _, sa := range c.App.SubaccountKeeper.GetAllSubaccounts(ctx) {
		id := c.AccID(sa.Address) - 1000
		x := &subSnap{id: id, owner: sa.Owner, addr: sa.Address, dep: sa.Balance.DepositedAmount.BigInt(), spent: sa.Balance.SpentAmount.BigInt(),
			wd: sa.Balance.WithdrawnAmount.BigInt(), lost: sa.Balance.LostAmount.BigInt(), locks: map[uint64]*big.Int{}}
		x.bal = c.Bal(sdkAcc(sa.Address)).BigInt()
		for _, lb := range c.allLocks(sa.Address) {
			x.locks[lb.UnlockTS] = lb.Amount.BigInt()
		}
		r[id] = x
	}
	return r
}

func (m *Monitors) c11(c *Chain, o Op, res string, prevBal map[string]*big.Int) []string {
	var v []string
	cur := c.subSnapshot()
	prev := m.prevSubs
	m.prevSubs = cur
	owners := map[string]bool{}
	for id, x := range cur {
		if owners[x.owner] {
			v = append(v, fmt.Sprintf("C11 owner of subaccount %d has two subaccounts", id))
		}
		owners[x.owner] = true
		for nm, a := range map[string]*big.Int{"deposited": x.dep, "spent": x.spent, "withdrawn": x.wd, "lost": x.lost} {
			if a.Sign() < 0 {
				v = append(v, fmt.Sprintf("C11 subaccount %d has negative %s amount %s", id, nm, a))
			}
		}
		avail := new(big.Int).Sub(new(big.Int).Sub(new(big.Int).Sub(x.dep, x.wd), x.spent), x.lost)
		direct := m.subDirect[id]
		if direct == nil {
			direct = big.NewInt(0)
		}
		if x.bal.Cmp(avail) < 0 {
			v = append(v, fmt.Sprintf("C11 subaccount %d holds %s, less than deposited-withdrawn-spent-lost = %s", id, x.bal, avail))
		} else if x.bal.Cmp(new(big.Int).Add(avail, direct)) != 0 {
			v = append(v, fmt.Sprintf("C11 subaccount %d holds %s but its ledger gives %s (+%s sent directly)", id, x.bal, avail, direct))
		}
	}
	if prev == nil || res != "ok" {
		return v
	}
	switch o.Kind {
	case "SCRE", "STOP":
		// the schedule as deposited: every accepted create / top-up adds its (unlock time, amount) entries (independent of how the
		// module stores them)
		for id, x := range cur {
			if c.AccID(x.owner) == o.Owner {
				for _, l := range o.Locks {
					m.subSched[id] = append(m.subSched[id], [2]*big.Int{new(big.Int).Set(l[0]), new(big.Int).Set(l[1])})
				}
			}
		}
	case "SWDU":
		// released by unlocked-balance withdrawals never exceeds what has unlocked
		for id, x := range cur {
			if c.AccID(x.owner) != o.Signer {
				continue
			}
			p := prev[id]
			if p == nil {
				continue
			}
			rel := new(big.Int).Sub(p.bal, x.bal)
			if m.subReleased[id] == nil {
				m.subReleased[id] = big.NewInt(0)
			}
			m.subReleased[id].Add(m.subReleased[id], rel)
			unlocked := big.NewInt(0)
			for ts, a := range x.locks {
				if int64(ts) < c.Time {
					unlocked.Add(unlocked, a)
				}
			}
			// ... nor what has unlocked according to the schedule as it was deposited
			if sched, ok := m.subSched[id]; ok {
				u2 := big.NewInt(0)
				for _, l := range sched {
					if l[0].Int64() < c.Time {
						u2.Add(u2, l[1])
					}
				}
				if u2.Cmp(unlocked) < 0 {
					unlocked = u2
				}
			}
			if m.subReleased[id].Cmp(unlocked) > 0 {
				v = append(v, fmt.Sprintf("C11 subaccount %d released %s in total by unlocked-balance withdrawals but only %s has unlocked", id, m.subReleased[id], unlocked))
			}
			if d := new(big.Int).Sub(c.Bal(sdkAcc(x.owner)).BigInt(), prevBal[x.owner]); d.Cmp(rel) != 0 {
				v = append(v, fmt.Sprintf("C11 unlocked withdrawal moved %s out of subaccount %d but the owner received %s", rel, id, d))
			}
		}
	case "SWAG":
		// tokens leaving the subaccount toward the owner must be staked in the same transaction
		ownerAddr := c.AddrOf(o.Signer)
		d := new(big.Int).Sub(c.Bal(sdkAcc(ownerAddr)).BigInt(), prevBal[ownerAddr])
		if res == "ok" && ((o.MainDed != nil && o.MainDed.Sign() < 0) || (o.SubDed != nil && o.SubDed.Sign() < 0)) {
			// a negative part makes the other one exceed the bet amount: the difference leaves the subaccount without being staked
			v = append(v, fmt.Sprintf("C11 subaccount wager accepted with a negative deduction (main %s, subaccount %s): %s of the subaccount's tokens reached the owner's free balance without being staked", o.MainDed, o.SubDed, d))
		} else if d.Sign() > 0 {
			v = append(v, fmt.Sprintf("C11 wager through the subaccount left %s of its tokens free in the owner account", d))
		}
	case "SEND":
		// direct sends to a subaccount address are allowed and tracked (ledger is then a lower bound)
	}
	return v
}

// ---- C17 ---------------------------------------------------------------------------------------------
// no accepted parameter value may make an amount negative or a fee exceed the amount it is taken from
func (m *Monitors) c17(cur *Snap) []string {
	var v []string
	for mk, ps := range cur.Parts {
		for _, p := range ps {
			if p.Liquidity.IsNegative() || p.Fee.IsNegative() || p.CurrentRoundLiquidity.IsNegative() {
				v = append(v, fmt.Sprintf("C17 participation %d of market %d has a negative amount (liquidity %s, fee %s)", p.Index, uidNum(mk), p.Liquidity, p.Fee))
			}
		}
	}
	for _, d := range cur.Deposits {
		p := cur.part(d.MarketUID, d.ParticipationIndex)
		if p != nil && p.Fee.GT(d.Amount) {
			v = append(v, fmt.Sprintf("C17 participation fee %s exceeds the deposit %s it is taken from", p.Fee, d.Amount))
		}
	}
	for i := range cur.Bets {
		b := &cur.Bets[i]
		if b.Amount.IsNegative() || b.Fee.IsNegative() {
			v = append(v, fmt.Sprintf("C17 bet %d has a negative amount or fee (%s, %s)", b.ID, b.Amount, b.Fee))
		}
	}
	return v
}

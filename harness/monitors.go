// monitors.go — property predicates evaluated directly on the real application's state after every
// operation (independent of the Coq model; they exhibit a failing history on the implementation).
// Each violation line starts with the property id.
package main

import (
	"fmt"
	"math/big"
	"strings"

	sdkmath "cosmossdk.io/math"
	abci "github.com/cometbft/cometbft/abci/types"
	authtypes "github.com/cosmos/cosmos-sdk/x/auth/types"

	minttypes "github.com/sge-network/sge/x/mint/types"
)

type Monitors struct {
	prevSupply sdkmath.Int
	havePrev   bool
	// C13 phase accounting
	phStep   int32
	phProv   sdkmath.LegacyDec
	phSum    sdkmath.Int
	phBlocks int64
	phFirst  bool // phase observed from its first block
	evals    int
	prev     *Snap
	prevDump []string
}

func NewMonitors() *Monitors { return &Monitors{phStep: -99} }

func attr(ev abci.Event, key string) string {
	for _, a := range ev.Attributes {
		if a.Key == key {
			return a.Value
		}
	}
	return ""
}

func amountOf(s string) *big.Int {
	s = strings.TrimSuffix(s, Denom)
	v, ok := new(big.Int).SetString(s, 10)
	if !ok {
		return big.NewInt(0)
	}
	return v
}

func (m *Monitors) Check(c *Chain, o Op, res string) []string {
	var v []string
	v = append(v, m.c13(c, o, res)...)
	cur := c.Snapshot()
	v = append(v, m.betMonitors(c, o, res, m.prev, cur)...)
	m.prev = cur
	m.evals++
	return v
}

// Atomicity: a failed transaction leaves no trace (the whole projected state is unchanged).
func (m *Monitors) CheckAtomic(o Op, res string, dump []string) []string {
	var v []string
	if res == "err" && m.prevDump != nil {
		same := len(dump) == len(m.prevDump)
		for i := 0; same && i < len(dump); i++ {
			same = dump[i] == m.prevDump[i]
		}
		if !same {
			tag := "C06"
			if o.Kind == "WAG" {
				tag = "C08"
			}
			v = append(v, tag+" failed "+o.Kind+" changed the state")
			if tag == "C08" {
				v = append(v, "C06 failed "+o.Kind+" changed the state")
			}
		}
	}
	m.prevDump = dump
	return v
}

func (m *Monitors) OnPanic(c *Chain, o Op, res string) []string {
	return []string{"C05 block processing aborted in " + o.Kind + ": " + trunc(res, 300)}
}

func trunc(s string, n int) string {
	s = strings.ReplaceAll(s, "\n", " ")
	if len(s) > n {
		return s[:n]
	}
	return s
}

// ---- C13 ---------------------------------------------------------------------------------------
func (m *Monitors) c13(c *Chain, o Op, res string) []string {
	var v []string
	sup := c.Supply()
	if !m.havePrev {
		// supply before the first block = genesis supply
		g, _ := sdkmath.NewIntFromString(c.SupplyAtGenesis())
		m.prevSupply = g
		m.havePrev = true
	}
	delta := sup.Sub(m.prevSupply)
	if o.Kind == "BEGIN" {
		minted := big.NewInt(0)
		toFee := big.NewInt(0)
		mintAddr := c.ModAddr(minttypes.ModuleName).String()
		feeAddr := c.ModAddr(authtypes.FeeCollectorName).String()
		for _, ev := range c.LastBegin.Events {
			switch ev.Type {
			case "mint":
				minted.Add(minted, amountOf(attr(ev, "amount")))
			case "transfer":
				if attr(ev, "sender") == mintAddr && attr(ev, "recipient") == feeAddr {
					toFee.Add(toFee, amountOf(attr(ev, "amount")))
				}
			}
		}
		if delta.BigInt().Cmp(minted) != 0 {
			v = append(v, fmt.Sprintf("C13 supply grew by %s in BeginBlock but the mint event says %s", delta, minted))
		}
		if toFee.Cmp(minted) != 0 {
			v = append(v, fmt.Sprintf("C13 minted %s but %s was transferred to the fee collector", minted, toFee))
		}
		// phase accounting
		ctx := c.Ctx()
		mt := c.App.MintKeeper.GetMinter(ctx)
		p := c.App.MintKeeper.GetParams(ctx)
		if mt.PhaseStep != m.phStep {
			// previous phase finished: compare if observed completely
			if m.phFirst && m.phStep >= 1 && int(m.phStep) <= len(p.Phases) {
				B := p.Phases[m.phStep-1].YearCoefficient.Mul(sdkmath.LegacyNewDec(p.BlocksPerYear)).TruncateInt().Int64()
				if B == m.phBlocks && B >= 1 {
					// |sum*1e18 - prov| < 1e18 + B
					d := new(big.Int).Sub(new(big.Int).Mul(m.phSum.BigInt(), prec), m.phProv.BigInt())
					d.Abs(d)
					bound := new(big.Int).Add(prec, big.NewInt(B))
					if d.Cmp(bound) >= 0 {
						v = append(v, fmt.Sprintf("C13 phase %d minted %s over %d blocks but provisions were %s", m.phStep, m.phSum, B, m.phProv))
					}
				}
			}
			m.phStep = mt.PhaseStep
			m.phProv = mt.PhaseProvisions
			m.phSum = sdkmath.ZeroInt()
			m.phBlocks = 0
			m.phFirst = true
		}
		m.phSum = m.phSum.Add(sdkmath.NewIntFromBigInt(minted))
		m.phBlocks++
		if mt.PhaseStep == minttypes.EndPhaseAlias && minted.Sign() != 0 {
			v = append(v, fmt.Sprintf("C13 minted %s after the last phase", minted))
		}
	} else if !delta.IsZero() {
		v = append(v, fmt.Sprintf("C13 supply changed by %s during %s", delta, o.Kind))
	}
	m.prevSupply = sup
	return v
}

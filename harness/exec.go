// exec.go — turns a model-vocabulary Op into real signed transactions / block calls.
package main

import (
	authtypes "github.com/cosmos/cosmos-sdk/x/auth/types"
	govtypes "github.com/cosmos/cosmos-sdk/x/gov/types"
	"crypto/ed25519"
	"crypto/hmac"
	"crypto/sha256"
	"encoding/base64"
	"encoding/json"
	"fmt"
	"math/big"
	"strconv"
	"strings"
	"time"

	sdkmath "cosmossdk.io/math"
	sdk "github.com/cosmos/cosmos-sdk/types"
	"github.com/cosmos/cosmos-sdk/x/authz"
	banktypes "github.com/cosmos/cosmos-sdk/x/bank/types"
	"github.com/golang-jwt/jwt/v4"

	sgetypes "github.com/sge-network/sge/types"
	bettypes "github.com/sge-network/sge/x/bet/types"
	housetypes "github.com/sge-network/sge/x/house/types"
	obtypes "github.com/sge-network/sge/x/orderbook/types"
	rewardtypes "github.com/sge-network/sge/x/reward/types"
	markettypes "github.com/sge-network/sge/x/market/types"
	ovmtypes "github.com/sge-network/sge/x/ovm/types"
	subtypes "github.com/sge-network/sge/x/subaccount/types"
)

// ---- identifiers ---------------------------------------------------------------------------

func uidStr(kind byte, n int64) string {
	if n < 0 {
		return "not-a-uid"
	}
	return fmt.Sprintf("0000000%c-0000-4000-8000-%012d", kind, n)
}
func marketUID(n int64) string { return uidStr('a', n) }
// outcome ids >= upperCaseBase name the same uuid spelled in upper case: a different uid for every exact comparison of the code
const upperCaseBase = 1000000

func oddsUID(n int64) string {
	if n >= upperCaseBase {
		return strings.ToUpper(uidStr('b', n-upperCaseBase))
	}
	return uidStr('b', n)
}
func betUID(n int64) string    { return uidStr('c', n) }

func uidNum(s string) int64 {
	if len(s) != 36 {
		return -999
	}
	v, err := strconv.ParseInt(s[24:], 10, 64)
	if err != nil {
		return -999
	}
	return v
}

// AccID maps an address back to the model's account id (users, module accounts, unknown = -999).
func (c *Chain) AccID(addr string) int64 {
	for i, a := range c.Acc {
		if a.Addr.String() == addr {
			return int64(i)
		}
	}
	for id := uint64(1); id < 64; id++ {
		if subtypes.NewAddressFromSubaccount(id).String() == addr {
			return 1000 + int64(id)
		}
	}
	return -999
}

func (c *Chain) AddrOf(id int64) string {
	if id >= 0 && int(id) < len(c.Acc) {
		return c.Acc[id].Addr.String()
	}
	if id > 1000 && id < 1064 {
		return subtypes.NewAddressFromSubaccount(uint64(id - 1000)).String()
	}
	// an address that is valid bech32 but belongs to nobody in the genesis
	return mkAccount(int(500000 + id)).Addr.String()
}

func decStr(x *big.Int) string {
	// Dec scaled by 1e18 -> decimal string with 18 fractional digits
	neg := x.Sign() < 0
	a := new(big.Int).Abs(x)
	s := a.String()
	for len(s) < 19 {
		s = "0" + s
	}
	r := s[:len(s)-18] + "." + s[len(s)-18:]
	if neg {
		r = "-" + r
	}
	return r
}

func decOf(x *big.Int) sdkmath.LegacyDec { return sdkmath.LegacyNewDecFromBigIntWithPrec(x, 18) }

// ---- tickets -----------------------------------------------------------------------------------

func b64(b []byte) string { return base64.RawURLEncoding.EncodeToString(b) }

// MakeTicket builds a JWT whose claims are payload's JSON plus exp/iat, as prescribed by tk.
func (c *Chain) MakeTicket(tk Ticket, payload interface{}) string {
	bz, err := json.Marshal(payload)
	if err != nil {
		panic(err)
	}
	claims := jwt.MapClaims{}
	if err := json.Unmarshal(bz, &claims); err != nil {
		panic(err)
	}
	if tk.Exp >= 0 {
		claims["exp"] = tk.Exp
	}
	claims["iat"] = c.Cfg.StartTime - 1000
	return c.signClaims(tk, claims)
}

func (c *Chain) signClaims(tk Ticket, claims jwt.MapClaims) string {
	if tk.Signer >= 0 && int(tk.Signer) < len(c.Keys) {
		tok := jwt.NewWithClaims(jwt.SigningMethodEdDSA, claims)
		s, err := tok.SignedString(c.Keys[tk.Signer].Priv)
		if err != nil {
			panic(err)
		}
		return s
	}
	// invalid tokens; every variant must be rejected (model: tk_signer = -1)
	leaderTok := jwt.NewWithClaims(jwt.SigningMethodEdDSA, claims)
	leaderIdx := c.LeaderKey()
	good, _ := leaderTok.SignedString(c.Keys[leaderIdx].Priv)
	parts := strings.Split(good, ".")
	switch tk.Forge {
	default: // 0: signed by a key outside the key universe
		seed := sha256.Sum256([]byte("verif-foreign-key"))
		s, _ := leaderTok.SignedString(ed25519.NewKeyFromSeed(seed[:]))
		return s
	case 1: // alg none
		hdr := b64([]byte(`{"alg":"none","typ":"JWT"}`))
		return hdr + "." + parts[1] + "."
	case 2: // HS256 keyed with the leader's PEM bytes
		hdr := b64([]byte(`{"alg":"HS256","typ":"JWT"}`))
		mac := hmac.New(sha256.New, []byte(c.Keys[leaderIdx].PEM))
		mac.Write([]byte(hdr + "." + parts[1]))
		return hdr + "." + parts[1] + "." + b64(mac.Sum(nil))
	case 3: // payload tampered after signing (one claim changed)
		claims2 := jwt.MapClaims{}
		for k, v := range claims {
			claims2[k] = v
		}
		claims2["tampered"] = 1
		pb, _ := json.Marshal(claims2)
		return parts[0] + "." + b64(pb) + "." + parts[2]
	case 4: // signature bit flipped
		sig, _ := base64.RawURLEncoding.DecodeString(parts[2])
		sig[0] ^= 1
		return parts[0] + "." + parts[1] + "." + b64(sig)
	case 5: // two segments only
		return parts[0] + "." + parts[1]
	case 6: // header tampered (still EdDSA, extra field) — signature no longer matches
		hdr := b64([]byte(`{"alg":"EdDSA","typ":"JWT","x":1}`))
		return hdr + "." + parts[1] + "." + parts[2]
	case 7: // empty signature
		return parts[0] + "." + parts[1] + "."
	case 8: // garbage
		return "abc.def.ghi"
	case 9: // ES256 header with the EdDSA signature
		hdr := b64([]byte(`{"alg":"ES256","typ":"JWT"}`))
		return hdr + "." + parts[1] + "." + parts[2]
	case 10: // expiry prolonged after signing: header and signature of the authentic ticket, payload with a later exp
		claims2 := jwt.MapClaims{}
		for k, v := range claims {
			claims2[k] = v
		}
		claims2["exp"] = tk.Exp + 100000
		pb, _ := json.Marshal(claims2)
		return parts[0] + "." + b64(pb) + "." + parts[2]
	}
}

// LeaderKey returns the key-universe index of the current leader key (or 0).
func (c *Chain) LeaderKey() int { return c.leaderKeyAt(c.Ctx()) }

// leaderKeyAt reads the leader from the given context (the committed state between two blocks).
func (c *Chain) leaderKeyAt(ctx sdk.Context) int {
	kv, found := c.App.OVMKeeper.GetKeyVault(ctx)
	if found && len(kv.PublicKeys) > 0 {
		for i, k := range c.Keys {
			if strings.TrimSpace(k.PEM) == strings.TrimSpace(kv.PublicKeys[0]) {
				return i
			}
		}
	}
	return 0
}

func (c *Chain) kyc(k Kyc) sgetypes.KycDataPayload {
	return sgetypes.KycDataPayload{Ignore: k.Ignore, Approved: k.Approved, ID: c.AddrOf(k.ID)}
}

// ---- execution -------------------------------------------------------------------------------------

// Exec runs one op; returns "ok", "err" or "panic:<msg>" plus a log string (not compared).
func (c *Chain) Exec(o Op) (string, string) {
	if c.Halted {
		return "panic:halted", ""
	}
	switch o.Kind {
	case "BEGIN":
		r, _ := c.BeginBlock(o.T)
		return r, ""
	case "END":
		r, _ := c.EndBlock() // the caller commits after observing the state
		return r, ""
	case "BFEE":
		// the bet module's UpdateParams under the governance authority: the stored parameters with a new wager fee
		ctx, write := c.Ctx().CacheContext()
		p := c.App.BetKeeper.GetParams(ctx)
		p.Constraints.Fee = sdkmath.NewIntFromBigInt(o.Amount)
		msg := &bettypes.MsgUpdateParams{Authority: authtypes.NewModuleAddress(govtypes.ModuleName).String(), Params: p}
		h := c.App.MsgServiceRouter().Handler(msg)
		if h == nil {
			return "err", "no handler"
		}
		if _, err := h(ctx, msg); err != nil {
			return "err", err.Error()
		}
		if !c.SimOnly {
			write()
		}
		return "ok", ""
	case "SPRM":
		// a parameter update is a governance action, not a user transaction: the module's own handler, under the governance authority,
		// on the state of the block being executed
		msg := &subtypes.MsgUpdateParams{Authority: authtypes.NewModuleAddress(govtypes.ModuleName).String(),
			Params: subtypes.Params{WagerEnabled: o.Status != 0, DepositEnabled: o.Mode != 0}}
		h := c.App.MsgServiceRouter().Handler(msg)
		if h == nil {
			return "err", "no handler"
		}
		ctx, write := c.Ctx().CacheContext()
		if _, err := h(ctx, msg); err != nil {
			return "err", err.Error()
		}
		if !c.SimOnly { // a simulation (mempool check) leaves no trace
			write()
		}
		return "ok", ""
	}
	var msg sdk.Msg
	signer := int(o.Signer)
	switch o.Kind {
	case "MADD":
		var odds []*markettypes.Odds
		for _, x := range o.Odds {
			odds = append(odds, &markettypes.Odds{UID: oddsUID(x), Meta: fmt.Sprintf("odds %d", x)})
		}
		p := markettypes.MarketAddTicketPayload{UID: marketUID(o.UID), StartTS: uint64(o.Start), EndTS: uint64(o.End),
			Odds: odds, Status: markettypes.MarketStatus(o.Status), Meta: "market"}
		msg = &markettypes.MsgAdd{Creator: c.AddrOf(o.Signer), Ticket: c.MakeTicket(o.Tk, p)}
	case "MUPD":
		p := markettypes.MarketUpdateTicketPayload{UID: marketUID(o.UID), StartTS: uint64(o.Start), EndTS: uint64(o.End),
			Status: markettypes.MarketStatus(o.Status)}
		msg = &markettypes.MsgUpdate{Creator: c.AddrOf(o.Signer), Ticket: c.MakeTicket(o.Tk, p)}
	case "MRES":
		ws := []string{}
		for _, x := range o.Winners {
			ws = append(ws, oddsUID(x))
		}
		p := markettypes.MarketResolutionTicketPayload{UID: marketUID(o.UID), ResolutionTS: uint64(o.Rts),
			WinnerOddsUIDs: ws, Status: markettypes.MarketStatus(o.Status)}
		msg = &markettypes.MsgResolve{Creator: c.AddrOf(o.Signer), Ticket: c.MakeTicket(o.Tk, p)}
	case "DEP", "SDEP":
		p := housetypes.DepositTicketPayload{KycData: c.kyc(o.Ky)}
		if o.Depositor >= 0 {
			p.DepositorAddress = c.AddrOf(o.Depositor)
		}
		dm := &housetypes.MsgDeposit{Creator: c.AddrOf(o.Signer), MarketUID: marketUID(o.Mkt),
			Amount: sdkmath.NewIntFromBigInt(o.Amount), Ticket: c.MakeTicket(o.Tk, p)}
		msg = dm
		if o.Kind == "SDEP" {
			msg = &subtypes.MsgHouseDeposit{Msg: dm}
		}
	case "WDR", "SWDR":
		p := housetypes.WithdrawTicketPayload{KycData: c.kyc(o.Ky)}
		if o.Depositor >= 0 {
			p.DepositorAddress = c.AddrOf(o.Depositor)
		}
		wm := &housetypes.MsgWithdraw{Creator: c.AddrOf(o.Signer), MarketUID: marketUID(o.Mkt),
			ParticipationIndex: uint64(o.Pidx), Mode: housetypes.WithdrawalMode(o.Mode),
			Amount: sdkmath.NewIntFromBigInt(o.Amount), Ticket: c.MakeTicket(o.Tk, p)}
		msg = wm
		if o.Kind == "SWDR" {
			msg = &subtypes.MsgHouseWithdraw{Msg: wm}
		}
	case "WAG", "SWAG":
		var all []*bettypes.BetOddsCompact
		for _, a := range o.AllOdds {
			all = append(all, &bettypes.BetOddsCompact{UID: oddsUID(a.Odds), MaxLossMultiplier: decOf(a.Mult)})
		}
		val := decStr(o.OddsVal)
		if o.OddsVal.Sign() == 0 {
			val = "abc"
		}
		p := bettypes.WagerTicketPayload{
			SelectedOdds: &bettypes.BetOdds{UID: oddsUID(o.SelOdds), MarketUID: marketUID(o.SelMkt), Value: val,
				MaxLossMultiplier: decOf(o.Mult)},
			KycData: c.kyc(o.Ky), AllOdds: all,
			Meta: bettypes.MetaData{SelectedOddsType: bettypes.OddsType(o.OddsType), SelectedOddsValue: val},
		}
		if o.Kind == "WAG" {
			msg = &bettypes.MsgWager{Creator: c.AddrOf(o.Signer), Props: &bettypes.WagerProps{UID: betUID(o.BetUID),
				Amount: sdkmath.NewIntFromBigInt(o.Amount), Ticket: c.MakeTicket(o.Tk, p)}}
		} else {
			inner := &bettypes.MsgWager{Creator: c.AddrOf(o.Inner), Props: &bettypes.WagerProps{UID: betUID(o.BetUID),
				Amount: sdkmath.NewIntFromBigInt(o.Amount), Ticket: c.MakeTicket(o.Tk2, p)}}
			sp := subtypes.SubAccWagerTicketPayload{Msg: inner, MainaccDeductAmount: sdkmath.NewIntFromBigInt(o.MainDed),
				SubaccDeductAmount: sdkmath.NewIntFromBigInt(o.SubDed)}
			msg = &subtypes.MsgWager{Creator: c.AddrOf(o.Signer), Ticket: c.MakeTicket(o.Tk, sp)}
		}
	case "PROP":
		var pems []string
		for _, k := range o.Keys {
			pems = append(pems, c.keyPEM(k))
		}
		p := ovmtypes.PubkeysChangeProposalPayload{PublicKeys: pems, LeaderIndex: uint32(o.LeaderIdx)}
		msg = &ovmtypes.MsgSubmitPubkeysChangeProposalRequest{Creator: c.AddrOf(o.Signer), Ticket: c.MakeTicket(o.Tk, p)}
	case "VOTE":
		p := ovmtypes.ProposalVotePayload{ProposalId: uint64(o.PropID), Vote: ovmtypes.ProposalVote(o.Vote)}
		msg = &ovmtypes.MsgVotePubkeysChangeRequest{Creator: c.AddrOf(o.Signer), Ticket: c.MakeTicket(o.Tk, p), VoterKeyIndex: uint32(o.VoterIdx)}
	case "SCRE":
		msg = &subtypes.MsgCreate{Creator: c.AddrOf(o.Signer), Owner: c.AddrOf(o.Owner), LockedBalances: locksOf(o.Locks)}
	case "STOP":
		msg = &subtypes.MsgTopUp{Creator: c.AddrOf(o.Signer), Address: c.AddrOf(o.Owner), LockedBalances: locksOf(o.Locks)}
	case "SWDU":
		msg = &subtypes.MsgWithdrawUnlockedBalances{Creator: c.AddrOf(o.Signer)}
	case "GRANT":
		var a authz.Authorization
		if o.GKind == 1 {
			a = housetypes.NewDepositAuthorization(sdkmath.NewIntFromBigInt(o.Limit))
		} else {
			a = housetypes.NewWithdrawAuthorization(sdkmath.NewIntFromBigInt(o.Limit))
		}
		var exp *time.Time
		if o.Exp >= 0 {
			t := time.Unix(o.Exp, 0).UTC()
			exp = &t
		}
		m, err := authz.NewMsgGrant(sdk.MustAccAddressFromBech32(c.AddrOf(o.Granter)), sdk.MustAccAddressFromBech32(c.AddrOf(o.Grantee)), a, exp)
		if err != nil {
			return "err", err.Error()
		}
		msg = m
		signer = int(o.Granter)
	case "REVOKE":
		url := sdk.MsgTypeURL(&housetypes.MsgDeposit{})
		if o.GKind != 1 {
			url = sdk.MsgTypeURL(&housetypes.MsgWithdraw{})
		}
		m := authz.NewMsgRevoke(sdk.MustAccAddressFromBech32(c.AddrOf(o.Granter)), sdk.MustAccAddressFromBech32(c.AddrOf(o.Grantee)), url)
		msg = &m
		signer = int(o.Granter)
	case "SEND":
		to := c.AddrOf(o.To)
		if o.To < 0 && o.To >= -5 {
			// the model's module account ids: a bank send to a custody / module account (blocked recipients)
			to = c.ModAddr([]string{obtypes.OrderBookLiquidityFunder{}.GetModuleAcc(), bettypes.BetFeeCollectorFunder{}.GetModuleAcc(),
				housetypes.HouseFeeCollectorFunder{}.GetModuleAcc(), rewardtypes.RewardPoolFunder{}.GetModuleAcc(), "fee_collector"}[-o.To-1]).String()
		}
		msg = banktypes.NewMsgSend(sdk.MustAccAddressFromBech32(c.AddrOf(o.From)), sdk.MustAccAddressFromBech32(to),
			sdk.NewCoins(sdk.NewCoin(Denom, sdkmath.NewIntFromBigInt(o.Amount))))
		signer = int(o.From)
	default:
		panic("exec: unknown op " + o.Kind)
	}
	if signer < 0 || signer >= len(c.Acc) {
		return "err", "unknown signer"
	}
	if o.Dry != "" {
		c.dryRun(o.Dry, msg)
	}
	ok, resp := c.Deliver(signer, msg)
	if ok {
		return "ok", ""
	}
	return "err", resp.Log
}

func locksOf(l [][2]*big.Int) []subtypes.LockedBalance {
	var r []subtypes.LockedBalance
	for _, x := range l {
		r = append(r, subtypes.LockedBalance{UnlockTS: x[0].Uint64(), Amount: sdkmath.NewIntFromBigInt(x[1])})
	}
	return r
}

func (c *Chain) keyPEM(k int64) string {
	// 100+i / 200+i: key i with extra white space around its PEM text (the same key for the chain)
	if k >= 200 && int(k-200) < len(c.Keys) {
		return "  " + c.Keys[k-200].PEM + " \n"
	}
	if k >= 100 && int(k-100) < len(c.Keys) {
		return c.Keys[k-100].PEM + "\n"
	}
	if k >= 0 && int(k) < len(c.Keys) {
		return c.Keys[k].PEM
	}
	return "-----BEGIN PUBLIC KEY-----\nnot a key\n-----END PUBLIC KEY-----\n"
}

func (c *Chain) keyID(pem string) int64 {
	for i, k := range c.Keys {
		if strings.TrimSpace(k.PEM) == strings.TrimSpace(pem) {
			return int64(i)
		}
	}
	return -1
}

var _ = big.NewInt

// dryRun executes a message handler on a branch of the current state and throws the branch away: what baseapp does with the
// messages of a transaction whose later message fails, with a simulation and with a mempool check.  Nothing of it may be visible
// to what is executed afterwards.
func (c *Chain) dryRun(what string, own sdk.Msg) {
	defer func() { _ = recover() }()
	ctx, _ := c.Ctx().CacheContext()
	ctx = ctx.WithEventManager(sdk.NewEventManager()).WithGasMeter(sdk.NewInfiniteGasMeter())
	var msg sdk.Msg
	switch {
	case what == "self":
		msg = own
	case strings.HasPrefix(what, "betprm:"):
		parts := strings.Split(what, ":")
		if len(parts) != 3 {
			return
		}
		mn, ok1 := new(big.Int).SetString(parts[1], 10)
		fee, ok2 := new(big.Int).SetString(parts[2], 10)
		if !ok1 || !ok2 {
			return
		}
		p := c.App.BetKeeper.GetParams(ctx)
		p.Constraints.MinAmount = sdkmath.NewIntFromBigInt(mn)
		p.Constraints.Fee = sdkmath.NewIntFromBigInt(fee)
		msg = &bettypes.MsgUpdateParams{Authority: authtypes.NewModuleAddress(govtypes.ModuleName).String(), Params: p}
	}
	if msg == nil {
		return
	}
	if h := c.App.MsgServiceRouter().Handler(msg); h != nil {
		_, _ = h(ctx, msg)
	}
}

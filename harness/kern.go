// kern.go — kernel stream: the pure functions the theorems are stated about, called directly.
package main

import (
	"fmt"
	"math/big"
	"math/rand"

	sdkmath "cosmossdk.io/math"

	bettypes "github.com/sge-network/sge/x/bet/types"
	minttypes "github.com/sge-network/sge/x/mint/types"
)

func randDec(r *rand.Rand) *big.Int {
	switch r.Intn(8) {
	case 0:
		return big.NewInt(0)
	case 1: // tie at .5 in the 18th place after a product
		v := new(big.Int).Rand(r, new(big.Int).Exp(big.NewInt(10), big.NewInt(20), nil))
		v.Mul(v, big.NewInt(2))
		v.Add(v, big.NewInt(1))
		return v
	case 2:
		v := new(big.Int).Rand(r, new(big.Int).Exp(big.NewInt(10), big.NewInt(36), nil))
		return v.Neg(v)
	case 3:
		return new(big.Int).Mul(prec, big.NewInt(int64(r.Intn(1000))))
	case 4:
		v := new(big.Int).Mul(prec, big.NewInt(int64(r.Intn(1000))))
		return v.Add(v, new(big.Int).Quo(prec, big.NewInt(2)))
	case 5:
		return new(big.Int).Rand(r, prec)
	default:
		return new(big.Int).Rand(r, new(big.Int).Exp(big.NewInt(10), big.NewInt(int64(1+r.Intn(40))), nil))
	}
}

func safe(f func() string) (s string) {
	defer func() {
		if r := recover(); r != nil {
			s = "none"
		}
	}()
	return f()
}

func mintParamsStr(p minttypes.Params) string {
	s := fmt.Sprintf("%d %s %d", p.BlocksPerYear, p.ExcludeAmount, len(p.Phases))
	for _, ph := range p.Phases {
		s += fmt.Sprintf(" %s %s", ph.Inflation.BigInt(), ph.YearCoefficient.BigInt())
	}
	return s
}

// extremeMintParams: accepted or rejected by Validate — both sides must agree on the verdict and,
// when accepted, on what BlockProvisions does (value or panic).
func extremeMintParams(r *rand.Rand) minttypes.Params {
	return applyExtreme(mintParamsFor(r), r)
}

func applyExtreme(p minttypes.Params, r *rand.Rand) minttypes.Params {
	switch r.Intn(10) {
	case 7, 8, 9:
		// a phase whose length in blocks (year coefficient x blocks per year) lies next to the one-block boundary:
		// validation must reject exactly those that truncate to zero blocks
		if p.BlocksPerYear > 0 {
			i := 0
			if r.Intn(3) == 0 {
				i = r.Intn(len(p.Phases))
			}
			x := pick(r, []int64{40, 50, 51, 75, 99, 100, 101, 149, 150, 199}) // hundredths of a block
			p.Phases[i].YearCoefficient = sdkmath.LegacyNewDecWithPrec(x, 2).QuoInt64(p.BlocksPerYear)
			if r.Intn(2) == 0 && p.Phases[i].Inflation.IsZero() {
				p.Phases[i].Inflation = sdkmath.LegacyMustNewDecFromStr("0.1")
			}
		}
	case 5:
		p.Phases[len(p.Phases)-1].YearCoefficient = sdkmath.LegacyMustNewDecFromStr("0.0001")
	case 0:
		p.Phases[0].Inflation = sdkmath.LegacyMustNewDecFromStr("-0.1")
	case 1:
		p.Phases[0].YearCoefficient = sdkmath.LegacyMustNewDecFromStr("0.000000000000000001")
	case 2:
		p.ExcludeAmount = sdkmath.NewInt(1).MulRaw(1_000_000_000_000_000_000)
	case 3:
		p.BlocksPerYear = 0
	case 4:
		p.Phases[0].YearCoefficient = sdkmath.LegacyZeroDec()
	}
	return p
}

func kernStream(seed int64, n int, out string) {
	r := rand.New(rand.NewSource(seed))
	h := newHistWriter(out)
	defer h.close()
	D := func(x *big.Int) sdkmath.LegacyDec { return sdkmath.LegacyNewDecFromBigIntWithPrec(x, 18) }
	for i := 0; i < n; i++ {
		a, b := randDec(r), randDec(r)
		switch i % 11 {
		case 0:
			h.line(fmt.Sprintf("K mul %s %s = %s", a, b, safe(func() string { return D(a).Mul(D(b)).BigInt().String() })))
		case 1:
			if b.Sign() == 0 {
				b = big.NewInt(3)
			}
			h.line(fmt.Sprintf("K quo %s %s = %s", a, b, safe(func() string { return D(a).Quo(D(b)).BigInt().String() })))
		case 2:
			k := big.NewInt(r.Int63n(1_000_000_000) - 1000)
			h.line(fmt.Sprintf("K mulint %s %s = %s", a, k, D(a).MulInt(sdkmath.NewIntFromBigInt(k)).BigInt()))
		case 3:
			h.line(fmt.Sprintf("K truncint %s = %s", a, D(a).TruncateInt()))
		case 4:
			h.line(fmt.Sprintf("K roundint %s = %s", a, D(a).RoundInt()))
		case 5:
			ov := new(big.Int).Add(prec, new(big.Int).Rand(r, new(big.Int).Mul(prec, big.NewInt(3))))
			if r.Intn(10) == 0 {
				ov = new(big.Int).Sub(prec, big.NewInt(int64(r.Intn(2))))
			}
			amt := big.NewInt(r.Int63n(10_000_000))
			res := "none"
			if p, err := bettypes.CalculatePayoutProfit(decStr(ov), sdkmath.NewIntFromBigInt(amt)); err == nil {
				res = p.BigInt().String()
			}
			h.line(fmt.Sprintf("K profit %s %s = %s", ov, amt, res))
		case 6:
			ov := new(big.Int).Add(prec, new(big.Int).Add(big.NewInt(1), new(big.Int).Rand(r, new(big.Int).Mul(prec, big.NewInt(3)))))
			if r.Intn(3) == 0 {
				ov = decFromStr(pick(r, oddsChoices))
			}
			av := new(big.Int).Mul(prec, big.NewInt(r.Int63n(1_000_000)))
			carry := new(big.Int).Sub(new(big.Int).Rand(r, prec), new(big.Int).Quo(prec, big.NewInt(2)))
			s, c2, err := bettypes.CalculateBetAmountInt(decStr(ov), D(av), D(carry))
			if err != nil {
				continue
			}
			h.line(fmt.Sprintf("K betamt %s %s %s = %s %s", ov, av, carry, s, c2.BigInt()))
		case 7:
			p := mintParamsFor(r)
			hgt := 1 + r.Int63n(300)
			ph, step := minttypes.Minter{}.CurrentPhase(p, hgt)
			h.line(fmt.Sprintf("K curphase %s %d = %d %s %s", mintParamsStr(p), hgt, step, ph.Inflation.BigInt(), ph.YearCoefficient.BigInt()))
		case 8:
			p := extremeMintParams(r)
			if len(p.Phases) == 0 {
				continue
			}
			step := 1 + r.Intn(len(p.Phases))
			prov := new(big.Int).Rand(r, new(big.Int).Exp(big.NewInt(10), big.NewInt(30), nil))
			if r.Intn(8) == 0 {
				prov.Neg(prov)
			}
			tr := new(big.Int).Rand(r, prec)
			m := minttypes.Minter{Inflation: sdkmath.LegacyZeroDec(), PhaseStep: int32(step), PhaseProvisions: D(prov), TruncatedTokens: D(tr)}
			res := safe(func() string {
				coin, t := m.BlockProvisions(p, step)
				return coin.Amount.String() + " " + t.BigInt().String()
			})
			h.line(fmt.Sprintf("K blockprov %s %s %s %d = %s", mintParamsStr(p), prov, tr, step, res))
		case 9:
			infl := new(big.Int).Rand(r, prec)
			sup := big.NewInt(r.Int63n(1_000_000_000_000_000))
			ex := big.NewInt(r.Int63n(1_000_000_000))
			coef := new(big.Int).Rand(r, new(big.Int).Mul(prec, big.NewInt(2)))
			m := minttypes.Minter{Inflation: D(infl)}
			v := m.NextPhaseProvisions(sdkmath.NewIntFromBigInt(sup), sdkmath.NewIntFromBigInt(ex), minttypes.Phase{Inflation: D(infl), YearCoefficient: D(coef)})
			h.line(fmt.Sprintf("K nextprov %s %s %s %s = %s", infl, sup, ex, coef, v.BigInt()))
		case 10:
			p := extremeMintParams(r)
			ok := p.Validate() == nil
			h.line(fmt.Sprintf("K mintvalid %s = %s", mintParamsStr(p), b2s(ok)))
		}
	}
}

# props.py — per-property configuration of ./check
# profiles: (harness profile, histories quick, histories thorough, ops per history)
# kern: (kernel cases quick, thorough)
BET_KINDS = ['MADD', 'MUPD', 'MRES', 'DEP', 'WDR', 'WAG', 'GRANT', 'END']
BET_TRUST = ['betting-core model: coq/Model/{Types,Orderbook,Chain}.v transcribe x/market, x/orderbook, x/bet, x/house keepers and the authz contract used by house']
PROPS = {
  'C01': dict(profiles=[('bet', 120, 3000, 100), ('sub', 40, 800, 100)], monitors=['C01'], own_kinds=BET_KINDS, trusted=BET_TRUST,
              assumes=['user accounts are never module accounts (address derivation); bank keeper modelled as a ledger']),
  'C02': dict(profiles=[('bet', 150, 4000, 120)], monitors=['C02'], own_kinds=BET_KINDS, trusted=BET_TRUST,
              assumes=['coverage is evaluated on the real state after every operation from bet and participation records']),
  'C03': dict(profiles=[('bet', 120, 3000, 100), ('sub', 30, 600, 100)], kern=(20000, 400000), monitors=['C03', 'C03/C04'], own_kinds=BET_KINDS, trusted=BET_TRUST,
              assumes=['promised winnings = floor((requested - fee) * (odds - 1)) computed by the monitor from the op itself']),
  'C04': dict(profiles=[('bet', 120, 3000, 100), ('sub', 30, 600, 100)], monitors=['C04', 'C03/C04'], own_kinds=BET_KINDS, trusted=BET_TRUST, assumes=[]),
  'C05': dict(profiles=[('bet', 120, 3000, 100), ('sub', 40, 800, 100), ('mint', 20, 300, 200)], monitors=['C05'], own_kinds=BET_KINDS, trusted=BET_TRUST,
              batchvar=(8, 80),
              assumes=['a recovered panic of BeginBlock/EndBlock in the harness stands for a chain halt']),
  'C07': dict(profiles=[('bet', 120, 3000, 100)], monitors=['C07'], own_kinds=['MADD', 'MUPD', 'MRES', 'END'], trusted=BET_TRUST, assumes=[]),
  'C08': dict(profiles=[('bet', 120, 3000, 100), ('sub', 30, 600, 100)], monitors=['C08'], own_kinds=['WAG', 'SWAG', 'END'], trusted=BET_TRUST, assumes=[]),
  'C09': dict(profiles=[('bet', 120, 3000, 100), ('sub', 30, 600, 100)], monitors=['C09'], own_kinds=['DEP', 'WDR', 'GRANT', 'SDEP', 'SWDR'], trusted=BET_TRUST,
              assumes=['SDK x/authz keeper contract (GetAuthorization/SaveGrant/DeleteGrant, pruning at BeginBlock) modelled and correspondence-checked']),
  'C10': dict(profiles=[('bet', 150, 4000, 120)], monitors=['C10'], own_kinds=BET_KINDS, trusted=BET_TRUST, assumes=[]),
  'C06': dict(
    profiles=[('bet', 60, 1200, 80), ('sub', 40, 600, 80), ('ovm', 40, 600, 100)],
    monitors=['C06'], own_kinds=BET_KINDS + ['PROP', 'VOTE', 'SWAG', 'SDEP', 'SWDR'],
    trusted=BET_TRUST + ['translator /verif/translator (handlers.v): CHA-style call inlining, both branches concatenated',
                         'EdDSA/JWT (golang-jwt/v4, crypto/ed25519) abstracted to (signer key id | -1, exp); exercised by forged tokens (10 forgery kinds), not proved'],
    assumes=['cryptographic unforgeability of EdDSA and correctness of the JWT library are assumed (partial: crypto core)'],
  ),
  'C14': dict(
    profiles=[('ovm', 80, 2000, 120)],
    monitors=['C14'], own_kinds=['PROP', 'VOTE', 'END'],
    trusted=['ovm model: coq/Model/Chain.v (ovm_propose, ovm_vote, ovm_finish) transcribes x/ovm keeper/types'],
    assumes=['key identity = position in the harness key universe (9 ed25519 keys); PEM parsing modelled as id >= 0'],
  ),
  'C15': dict(
    profiles=[('bet', 30, 300, 60), ('sub', 20, 200, 60), ('ovm', 10, 100, 60)],
    monitors=['C15'], own_kinds=BET_KINDS, twoproc=(6, 60),
    trusted=['translator /verif/translator (nondet.v): map ranges, wall clock, goroutines, select, rand in x/*/keeper, x/*/types, abci, utils, types'],
    assumes=['Go runtime, IAVL/store and SDK module determinism are outside the model (runtime part is exploration: two fresh processes per history)'],
  ),
  'C13': dict(
    profiles=[('mint', 60, 1500, 400), ('bet', 40, 600, 80)],
    kern=(20000, 400000),
    monitors=['C13'],
    own_kinds=['BEGIN', 'SEND', 'WAG', 'DEP', 'END'],
    trusted=['mint model: coq/Model/Mint.v transcribes x/mint/types/minter.go, params.go, abci.go'],
    assumes=['burns by gov/staking are outside the claim; no custom-module burn exists (perms table)',
             'distribution sweeps the fee collector in the same BeginBlock: the credit is observed through the bank transfer event'],
  ),
}

# props.py — per-property configuration of ./check
# profiles: (harness profile, histories quick, histories thorough, ops per history)
# kern: (kernel cases quick, thorough)
BET_KINDS = ['MADD', 'MUPD', 'MRES', 'DEP', 'WDR', 'WAG', 'GRANT', 'END']
PROPS = {
  'C13': dict(
    profiles=[('mint', 60, 1500, 400), ('bet', 40, 600, 80)],
    kern=(20000, 400000),
    monitors=['C13'],
    own_kinds=['BEGIN', 'SEND', 'WAG', 'DEP', 'END'],
    trusted=['mint model: coq/Model/Mint.v transcribes x/mint/types/minter.go, params.go, abci.go'],
    assumes=['burns by gov/staking are outside the claim; no custom-module burn exists (perms table)',
             'distribution sweeps the fee collector in the same BeginBlock: the credit is observed through the bank transfer event'],
  ),
}

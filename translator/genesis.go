package main

import (
	"encoding/hex"
	"fmt"
	"go/ast"
	"go/constant"
	"go/token"
	"go/types"
	"sort"
	"strings"
)

type gPrefix struct {
	name string
	hex  string
	obj  *types.Var
}

type gModule struct {
	name     string
	prefixes []gPrefix
	exported []string
	imported []string
}

// isByteSlice reports whether t is []byte (or a named type with that
// underlying type).
func isByteSlice(t types.Type) bool {
	if t == nil {
		return false
	}
	s, ok := t.Underlying().(*types.Slice)
	if !ok {
		return false
	}
	b, ok := s.Elem().Underlying().(*types.Basic)
	return ok && b.Kind() == types.Byte
}

// modulePrefixes returns, in source order (file name, then position), every
// package-level `var X = []byte{<constants>}` of package x/<mod>/types.
func (w *world) modulePrefixes(mod string) ([]gPrefix, error) {
	p := w.all[repoModule+"/x/"+mod+"/types"]
	if p == nil {
		return nil, nil
	}
	type item struct {
		gPrefix
		file string
		off  int
	}
	var items []item
	for _, f := range p.Syntax {
		rel := w.relFile(f.Pos())
		if isGenerated(rel) || strings.HasSuffix(rel, "_test.go") {
			continue
		}
		for _, d := range f.Decls {
			gd, ok := d.(*ast.GenDecl)
			if !ok || gd.Tok != token.VAR {
				continue
			}
			for _, sp := range gd.Specs {
				vs := sp.(*ast.ValueSpec)
				if len(vs.Values) != len(vs.Names) {
					continue
				}
				for i, n := range vs.Names {
					v, ok := p.TypesInfo.Defs[n].(*types.Var)
					if !ok || n.Name == "_" || !isByteSlice(v.Type()) {
						continue
					}
					cl, ok := ast.Unparen(vs.Values[i]).(*ast.CompositeLit)
					if !ok || !isByteSlice(p.TypesInfo.TypeOf(cl)) {
						continue // e.g. []byte("string") conversions (param keys)
					}
					var bs []byte
					for _, el := range cl.Elts {
						if _, isKV := el.(*ast.KeyValueExpr); isKV {
							return nil, fmt.Errorf("%s: keyed []byte literal for %s not supported", w.fset.Position(el.Pos()), n.Name)
						}
						tv, ok := p.TypesInfo.Types[el]
						if !ok || tv.Value == nil {
							return nil, fmt.Errorf("%s: non-constant byte in %s", w.fset.Position(el.Pos()), n.Name)
						}
						u, ok := constant.Uint64Val(constant.ToInt(tv.Value))
						if !ok || u > 255 {
							return nil, fmt.Errorf("%s: byte out of range in %s", w.fset.Position(el.Pos()), n.Name)
						}
						bs = append(bs, byte(u))
					}
					pos := w.fset.Position(n.Pos())
					items = append(items, item{gPrefix{name: n.Name, hex: hex.EncodeToString(bs), obj: v}, rel, pos.Offset})
				}
			}
		}
	}
	sort.SliceStable(items, func(i, j int) bool {
		if items[i].file != items[j].file {
			// keys.go first, then the other files by name
			ki, kj := strings.HasSuffix(items[i].file, "/keys.go"), strings.HasSuffix(items[j].file, "/keys.go")
			if ki != kj {
				return ki
			}
			return items[i].file < items[j].file
		}
		return items[i].off < items[j].off
	})
	out := make([]gPrefix, len(items))
	for i, it := range items {
		out[i] = it.gPrefix
	}
	return out, nil
}

// refGraph computes, per repo function, the prefix variables referenced in
// its own body, its statically resolvable repo callees and whether its body
// directly calls Set on a KVStore.
type refGraph struct {
	w     *world
	nodes map[*types.Func]*refNode
}

type refNode struct {
	refs      []*types.Var  // package-level []byte vars referenced in the body
	callees   []*types.Func // repo functions called / referenced (with bodies)
	directSet bool
}

func (g *refGraph) node(fn *types.Func) *refNode {
	fn = fn.Origin()
	if n, ok := g.nodes[fn]; ok {
		return n
	}
	n := &refNode{}
	g.nodes[fn] = n
	fd := g.w.decls[fn]
	if fd == nil {
		return n
	}
	info := fd.pkg.TypesInfo
	seenC := map[*types.Func]bool{}
	addCallee := func(f *types.Func) {
		f = f.Origin()
		if g.w.decls[f] != nil && !seenC[f] {
			seenC[f] = true
			n.callees = append(n.callees, f)
		}
	}
	ast.Inspect(fd.decl.Body, func(c ast.Node) bool {
		switch c := c.(type) {
		case *ast.Ident:
			switch o := info.Uses[c].(type) {
			case *types.Var:
				if !o.IsField() && o.Pkg() != nil && o.Parent() == o.Pkg().Scope() && isByteSlice(o.Type()) {
					n.refs = append(n.refs, o)
				}
			case *types.Func:
				// any mention of a concrete repo function (call, method value,
				// function value) is an edge; interface methods are handled at
				// the call below.
				if isRepoPath(pkgPathOf(o)) && !types.IsInterface(recvOrNil(o)) {
					addCallee(o)
				}
			}
		case *ast.CallExpr:
			fn, recv := calleeOf(info, c)
			if fn == nil {
				return true
			}
			switch g.w.classify(fn, recv) {
			case ccWrite:
				if fn.Name() == "Set" && (g.w.isKVStore(recv) || g.w.isKVStore(declaredRecv(fn))) {
					n.directSet = true
				}
			case ccDispatch:
				for _, im := range g.w.implementations(fn) {
					addCallee(im)
				}
			case ccVerify:
				// verification reads the ovm key vault: follow it like any call
				if isRepoPath(pkgPathOf(fn)) {
					if types.IsInterface(declaredRecv(fn)) {
						for _, im := range g.w.implementations(fn) {
							addCallee(im)
						}
					} else {
						addCallee(fn)
					}
				}
			}
		}
		return true
	})
	return n
}

func recvOrNil(fn *types.Func) types.Type {
	if r := declaredRecv(fn); r != nil {
		return r
	}
	return types.Typ[types.Invalid]
}

// closure returns every function reachable from root (root included).
func (g *refGraph) closure(root *types.Func) []*types.Func {
	seen := map[*types.Func]bool{}
	var order []*types.Func
	var visit func(f *types.Func)
	visit = func(f *types.Func) {
		f = f.Origin()
		if seen[f] {
			return
		}
		seen[f] = true
		order = append(order, f)
		for _, c := range g.node(f).callees {
			visit(c)
		}
	}
	visit(root)
	return order
}

func (g *refGraph) refsOf(fns []*types.Func, into map[*types.Var]bool) {
	for _, f := range fns {
		for _, v := range g.node(f).refs {
			into[v] = true
		}
	}
}

// findGenesisFunc locates the package-level function `name` of module mod:
// first in package x/<mod>, then in any package under x/<mod>/ (functions
// before methods).
func (w *world) findGenesisFunc(mod, name string) *types.Func {
	var cands []*types.Func
	for fn := range w.decls {
		if fn.Name() != name || moduleOfPkg(pkgPathOf(fn)) != mod || excludedImplPkg(pkgPathOf(fn)) {
			continue
		}
		cands = append(cands, fn)
	}
	rank := func(f *types.Func) int {
		r := 0
		if pkgPathOf(f) != repoModule+"/x/"+mod {
			r += 2
		}
		if declaredRecv(f) != nil {
			r++
		}
		return r
	}
	sort.Slice(cands, func(i, j int) bool {
		if rank(cands[i]) != rank(cands[j]) {
			return rank(cands[i]) < rank(cands[j])
		}
		return cands[i].FullName() < cands[j].FullName()
	})
	if len(cands) == 0 {
		return nil
	}
	return cands[0]
}

func analyseGenesis(w *world) ([]gModule, error) {
	g := &refGraph{w: w, nodes: map[*types.Func]*refNode{}}
	mods := map[string]bool{}
	for _, p := range w.pkgs {
		if m := moduleOfPkg(p.PkgPath); m != "" && p.PkgPath == repoModule+"/x/"+m+"/types" {
			mods[m] = true
		}
	}
	var names []string
	for m := range mods {
		names = append(names, m)
	}
	sort.Strings(names)
	var out []gModule
	for _, m := range names {
		gm := gModule{name: m}
		var err error
		if gm.prefixes, err = w.modulePrefixes(m); err != nil {
			return nil, err
		}
		pick := func(set map[*types.Var]bool) []string {
			var l []string
			for _, p := range gm.prefixes { // keep source order
				if set[p.obj] {
					l = append(l, p.name)
				}
			}
			return l
		}
		if exp := w.findGenesisFunc(m, "ExportGenesis"); exp != nil {
			set := map[*types.Var]bool{}
			g.refsOf(g.closure(exp), set)
			gm.exported = pick(set)
		} else {
			w.warnf("module %s: no ExportGenesis function found", m)
		}
		if ini := w.findGenesisFunc(m, "InitGenesis"); ini != nil {
			// prefixes referenced in the closure of every function, reachable
			// from InitGenesis, whose own body calls Set on a KVStore.
			set := map[*types.Var]bool{}
			for _, f := range g.closure(ini) {
				if g.node(f).directSet {
					g.refsOf(g.closure(f), set)
				}
			}
			gm.imported = pick(set)
		} else {
			w.warnf("module %s: no InitGenesis function found", m)
		}
		out = append(out, gm)
	}
	return out, nil
}

func renderGenesis(ms []gModule) string {
	var b strings.Builder
	b.WriteString(coqHeader)
	b.WriteString(genNote)
	b.WriteString("\nRecord gmodule := {\n  gm_name : string;\n  gm_prefixes : list (string * string);\n  gm_exported : list string;\n  gm_imported : list string\n}.\n\n")
	var rows []string
	for _, m := range ms {
		var ps []string
		for _, p := range m.prefixes {
			ps = append(ps, fmt.Sprintf("(%s, %s)", coqStr(p.name), coqStr(p.hex)))
		}
		rows = append(rows, fmt.Sprintf("{| gm_name := %s;\n     gm_prefixes := [%s];\n     gm_exported := %s;\n     gm_imported := %s |}",
			coqStr(m.name), strings.Join(ps, "; "), coqStrList(m.exported), coqStrList(m.imported)))
	}
	b.WriteString("Definition genesis_modules : list gmodule := " + coqList(rows) + ".\n")
	return b.String()
}

func printGenesisSummary(ms []gModule) {
	fmt.Println("== genesis")
	for _, m := range ms {
		in := func(l []string, s string) bool {
			for _, x := range l {
				if x == s {
					return true
				}
			}
			return false
		}
		fmt.Printf("  %s\n", m.name)
		for _, p := range m.prefixes {
			flags := ""
			if !in(m.exported, p.name) {
				flags += " NOT-EXPORTED"
			}
			if !in(m.imported, p.name) {
				flags += " NOT-IMPORTED"
			}
			fmt.Printf("    %-42s %s%s\n", p.name, p.hex, flags)
		}
	}
}

package main

import (
	"go/ast"
	"go/token"
	"go/types"
	"path"
	"sort"
	"strings"

	"golang.org/x/tools/go/packages"
)

type ndSite struct {
	file string
	line int
	fn   string
	kind string
}

// inNondetScope decides whether a repo-relative file belongs to the
// non-determinism scan.
func inNondetScope(rel string) bool {
	if !strings.HasSuffix(rel, ".go") || strings.HasSuffix(rel, "_test.go") || isGenerated(rel) {
		return false
	}
	segs := strings.Split(rel, "/")
	if len(segs) < 2 {
		return false
	}
	switch segs[0] {
	case "x":
		if len(segs) < 3 {
			return false
		}
	case "utils", "types":
	default:
		return false
	}
	for _, s := range segs[:len(segs)-1] {
		switch s {
		case "client", "cli", "simulation", "testutil":
			return false
		}
	}
	return path.Base(rel) != "module_simulation.go"
}

func funcDisplayName(fd *ast.FuncDecl) string {
	if fd == nil {
		return "<package-level>"
	}
	if fd.Recv != nil && len(fd.Recv.List) > 0 {
		t := fd.Recv.List[0].Type
		for {
			switch tt := t.(type) {
			case *ast.StarExpr:
				t = tt.X
				continue
			case *ast.ParenExpr:
				t = tt.X
				continue
			case *ast.IndexExpr:
				t = tt.X
				continue
			case *ast.IndexListExpr:
				t = tt.X
				continue
			}
			break
		}
		if id, ok := t.(*ast.Ident); ok {
			return id.Name + "." + fd.Name.Name
		}
	}
	return fd.Name.Name
}

func analyseNondet(w *world) []ndSite {
	pa := &purity{w: w, wk: newWalker(w), memo: map[*types.Func]bool{}, busy: map[*types.Func]bool{}}
	var sites []ndSite
	seen := map[ndSite]bool{}
	add := func(pos token.Pos, fn, kind string) {
		s := ndSite{file: w.relFile(pos), line: w.fset.Position(pos).Line, fn: fn, kind: kind}
		if !seen[s] {
			seen[s] = true
			sites = append(sites, s)
		}
	}
	for _, p := range w.pkgs {
		for _, f := range p.Syntax {
			rel := w.relFile(f.Pos())
			if !inNondetScope(rel) {
				continue
			}
			scanFile(w, pa, p, f, add)
		}
	}
	sort.Slice(sites, func(i, j int) bool {
		a, b := sites[i], sites[j]
		if a.file != b.file {
			return a.file < b.file
		}
		if a.line != b.line {
			return a.line < b.line
		}
		if a.kind != b.kind {
			return a.kind < b.kind
		}
		return a.fn < b.fn
	})
	return sites
}

// longLived: a struct that outlives one call: keepers, message/query servers, app modules, hooks, or anything holding a
// store key (scratch structs built per call, like the fulfilment info of a wager, are not)
func longLived(info *types.Info, name string, st *ast.StructType) bool {
	switch name {
	case "Keeper", "msgServer", "queryServer", "AppModule", "AppModuleBasic", "Hooks", "MultiHooks":
		return true
	}
	for _, fld := range st.Fields.List {
		if t := info.TypeOf(fld.Type); t != nil && strings.Contains(t.String(), "StoreKey") {
			return true
		}
	}
	return false
}

// processLocal: a field type that carries mutable process-local state (map, channel, sync / sync/atomic object), looking
// through pointers
func processLocal(t types.Type) bool {
	for {
		if p, ok := t.Underlying().(*types.Pointer); ok {
			t = p.Elem()
			continue
		}
		break
	}
	if n, ok := t.(*types.Named); ok && n.Obj() != nil && n.Obj().Pkg() != nil {
		if pp := n.Obj().Pkg().Path(); pp == "sync" || pp == "sync/atomic" {
			return true
		}
	}
	switch t.Underlying().(type) {
	case *types.Map, *types.Chan:
		return true
	}
	return false
}

// processLocalVar: package-level variables of channel or sync type (lookup tables of map type are common and are only
// reported when some function assigns into them, which the map-index scan does not cover: channels and sync objects
// have no use other than carrying state between calls)
func processLocalVar(t types.Type) bool {
	for {
		if p, ok := t.Underlying().(*types.Pointer); ok {
			t = p.Elem()
			continue
		}
		break
	}
	if n, ok := t.(*types.Named); ok && n.Obj() != nil && n.Obj().Pkg() != nil {
		if pp := n.Obj().Pkg().Path(); pp == "sync" || pp == "sync/atomic" {
			return true
		}
	}
	_, isChan := t.Underlying().(*types.Chan)
	return isChan
}

func isRandPkg(p string) bool {
	return p == "math/rand" || p == "math/rand/v2" || p == "crypto/rand"
}

func isTelemetryPkg(p string) bool {
	return p == "telemetry" || strings.HasSuffix(p, "/telemetry")
}

func scanFile(w *world, pa *purity, p *packages.Package, f *ast.File, add func(token.Pos, string, string)) {
	info := p.TypesInfo
	var stack []ast.Node
	var curFn *ast.FuncDecl
	ast.Inspect(f, func(n ast.Node) bool {
		if n == nil {
			top := stack[len(stack)-1]
			stack = stack[:len(stack)-1]
			if fd, ok := top.(*ast.FuncDecl); ok && fd == curFn {
				curFn = nil
			}
			return true
		}
		stack = append(stack, n)
		fname := funcDisplayName(curFn)
		switch n := n.(type) {
		case *ast.FuncDecl:
			curFn = n
		case *ast.GoStmt:
			add(n.Pos(), fname, "Goroutine")
		case *ast.SelectStmt:
			add(n.Pos(), fname, "SelectStmt")
		case *ast.RangeStmt:
			if t := info.TypeOf(n.X); t != nil {
				if _, ok := t.Underlying().(*types.Map); ok {
					kind := "MapRangeOrderSensitive"
					if curFn != nil && pa.rangeBuildsSetOnly(p, curFn, n) {
						kind = "MapRangeBuildsSetOnly"
					}
					add(n.Pos(), fname, kind)
				}
			}
		case *ast.SelectorExpr:
			// a zone-dependent method of a time.Time that is not visibly in UTC (time.Unix(..) yields the process's local zone):
			// what it renders depends on TZ / /etc/localtime of the process
			if tt := info.TypeOf(n.X); tt != nil && tt.String() == "time.Time" && zoneDependent[n.Sel.Name] && !visiblyUTC(n.X) {
				add(n.Pos(), fname, "ProcessEnvironment")
			}
			if id, ok := n.X.(*ast.Ident); ok {
				if pn, ok := info.Uses[id].(*types.PkgName); ok {
					ip := pn.Imported().Path()
					if (ip == "time" && (n.Sel.Name == "Local" || n.Sel.Name == "LoadLocation")) ||
						(ip == "os" && (n.Sel.Name == "Getenv" || n.Sel.Name == "LookupEnv" || n.Sel.Name == "Environ" || n.Sel.Name == "Hostname" ||
							n.Sel.Name == "Getpid" || n.Sel.Name == "Getwd")) || (ip == "runtime" && (n.Sel.Name == "NumCPU" || n.Sel.Name == "GOMAXPROCS" || n.Sel.Name == "NumGoroutine")) {
						add(n.Pos(), fname, "ProcessEnvironment")
					}
					if isRandPkg(ip) {
						add(n.Pos(), fname, "RandUse")
					}
					// iterator / collection helpers that traverse a map in its (random) iteration order without a range
					// statement over the map in this repository: maps.Keys, maps.Values, maps.All (std and x/exp)
					if (ip == "maps" || ip == "golang.org/x/exp/maps") && (n.Sel.Name == "Keys" || n.Sel.Name == "Values" || n.Sel.Name == "All") {
						add(n.Pos(), fname, "MapRangeOrderSensitive")
					}
					if ip == "time" && (n.Sel.Name == "Now" || n.Sel.Name == "Since" || n.Sel.Name == "Until") {
						kind := "WallClock"
						// telemetry-only if some enclosing call is telemetry.X(...)
						// and this expression sits inside its argument list.
						for i := len(stack) - 2; i >= 0; i-- {
							call, ok := stack[i].(*ast.CallExpr)
							if !ok {
								continue
							}
							inArgs := false
							for _, a := range call.Args {
								if a.Pos() <= n.Pos() && n.End() <= a.End() {
									inArgs = true
								}
							}
							if !inArgs {
								continue
							}
							if fn, _ := calleeOf(info, call); fn != nil && isTelemetryPkg(pkgPathOf(fn)) {
								kind = "WallClockTelemetryOnly"
								break
							}
						}
						add(n.Pos(), fname, kind)
					}
				}
			}
		case *ast.TypeSpec:
			// state that lives in the process and not in the store: a keeper/server struct holding a map, a channel or a
			// sync/atomic object survives discarded store branches (failed or simulated transactions) and restarts
			if st, ok := n.Type.(*ast.StructType); ok && longLived(info, n.Name.Name, st) {
				for _, fld := range st.Fields.List {
					if t := info.TypeOf(fld.Type); t != nil && processLocal(t) {
						add(fld.Pos(), n.Name.Name, "ProcessLocalState")
					}
				}
			}
		case *ast.GenDecl:
			if n.Tok == token.VAR && curFn == nil {
				for _, sp := range n.Specs {
					if vs, ok := sp.(*ast.ValueSpec); ok {
						for _, nm := range vs.Names {
							if obj := info.Defs[nm]; obj != nil && processLocalVar(obj.Type()) {
								add(nm.Pos(), "<package-level>", "ProcessLocalState")
							}
						}
					}
				}
			}
		case *ast.ImportSpec:
			// dot-imports of rand/time would bypass the selector check.
			if n.Name != nil && n.Name.Name == "." {
				ip := strings.Trim(n.Path.Value, "\"")
				if isRandPkg(ip) {
					add(n.Pos(), fname, "RandUse")
				}
				if ip == "time" {
					add(n.Pos(), fname, "WallClock")
				}
			}
		}
		return true
	})
}

// ---------------------------------------------------------------------------
// purity: "cannot reach a store write, an event emission or an unknown
// external effect, and does not assign to non-local storage".

type purity struct {
	w    *world
	wk   *walker
	memo map[*types.Func]bool
	busy map[*types.Func]bool
}

func (pa *purity) funcPure(fn *types.Func) bool {
	fn = fn.Origin()
	if v, ok := pa.memo[fn]; ok {
		return v
	}
	if pa.busy[fn] {
		return false // recursion: be conservative
	}
	fd := pa.w.decls[fn]
	if fd == nil {
		return false
	}
	pa.busy[fn] = true
	v := pa.nodePure(fd.pkg.TypesInfo, fd.decl, fd.decl.Body)
	delete(pa.busy, fn)
	pa.memo[fn] = v
	return v
}

// nodePure checks every call / assignment below n.
func (pa *purity) nodePure(info *types.Info, encl *ast.FuncDecl, n ast.Node) bool {
	if n == nil {
		return true
	}
	ok := true
	ast.Inspect(n, func(c ast.Node) bool {
		if !ok {
			return false
		}
		switch c := c.(type) {
		case *ast.CallExpr:
			if !pa.callPure(info, encl, c) {
				ok = false
			}
		case *ast.AssignStmt:
			if c.Tok != token.DEFINE {
				for _, l := range c.Lhs {
					if !pa.localLHS(info, encl, l) {
						ok = false
					}
				}
			}
		case *ast.IncDecStmt:
			if !pa.localLHS(info, encl, c.X) {
				ok = false
			}
		case *ast.RangeStmt:
			if c.Tok == token.ASSIGN {
				if (c.Key != nil && !pa.localLHS(info, encl, c.Key)) || (c.Value != nil && !pa.localLHS(info, encl, c.Value)) {
					ok = false
				}
			}
		case *ast.GoStmt, *ast.SendStmt, *ast.SelectStmt:
			ok = false
		case *ast.UnaryExpr:
			if c.Op == token.ARROW {
				ok = false
			}
		}
		return ok
	})
	return ok
}

func within(pos token.Pos, n ast.Node) bool { return n != nil && n.Pos() <= pos && pos < n.End() }

func varOf(info *types.Info, id *ast.Ident) *types.Var {
	if o, ok := info.Defs[id].(*types.Var); ok {
		return o
	}
	o, _ := info.Uses[id].(*types.Var)
	return o
}

// freshLocal reports whether v is declared inside the body of encl and
// initialised with fresh storage (make/new/composite literal/zero value), so
// that writes through it cannot be observed via an alias that existed before.
func freshLocal(info *types.Info, encl *ast.FuncDecl, v *types.Var) bool {
	if v == nil || encl == nil || !within(v.Pos(), encl.Body) {
		return false
	}
	fresh := false
	ast.Inspect(encl.Body, func(n ast.Node) bool {
		switch n := n.(type) {
		case *ast.AssignStmt:
			if n.Tok != token.DEFINE {
				return true
			}
			for i, l := range n.Lhs {
				id, ok := l.(*ast.Ident)
				if !ok || info.Defs[id] != v {
					continue
				}
				if len(n.Rhs) == len(n.Lhs) {
					fresh = freshExpr(info, n.Rhs[i])
				}
			}
		case *ast.ValueSpec:
			for i, id := range n.Names {
				if info.Defs[id] != v {
					continue
				}
				if len(n.Values) == 0 {
					fresh = true
				} else if len(n.Values) == len(n.Names) {
					fresh = freshExpr(info, n.Values[i])
				}
			}
		}
		return true
	})
	return fresh
}

func freshExpr(info *types.Info, e ast.Expr) bool {
	switch e := ast.Unparen(e).(type) {
	case *ast.CompositeLit:
		return true
	case *ast.CallExpr:
		if id, ok := ast.Unparen(e.Fun).(*ast.Ident); ok {
			if b, ok := info.Uses[id].(*types.Builtin); ok && (b.Name() == "make" || b.Name() == "new") {
				return true
			}
		}
	case *ast.Ident:
		if _, ok := info.Uses[e].(*types.Nil); ok {
			return true
		}
	}
	return false
}

// localLHS: the assigned location is storage private to the function.
func (pa *purity) localLHS(info *types.Info, encl *ast.FuncDecl, e ast.Expr) bool {
	switch e := ast.Unparen(e).(type) {
	case *ast.Ident:
		if e.Name == "_" {
			return true
		}
		v := varOf(info, e)
		return v != nil && !v.IsField() && within(v.Pos(), encl)
	case *ast.SelectorExpr:
		t := info.TypeOf(e.X)
		if t == nil {
			return false
		}
		if _, isStruct := t.Underlying().(*types.Struct); !isStruct {
			return false // pointer auto-dereference or package selector
		}
		return pa.localLHS(info, encl, e.X)
	case *ast.IndexExpr:
		t := info.TypeOf(e.X)
		if t == nil {
			return false
		}
		switch t.Underlying().(type) {
		case *types.Array:
			return pa.localLHS(info, encl, e.X)
		case *types.Slice, *types.Map:
			if id, ok := ast.Unparen(e.X).(*ast.Ident); ok {
				return freshLocal(info, encl, varOf(info, id))
			}
		}
	}
	return false
}

var impureStd = map[string]bool{
	"os": true, "io": true, "io/ioutil": true, "io/fs": true, "net": true, "log": true, "syscall": true,
	"runtime": true, "unsafe": true, "sync": true, "sync/atomic": true, "plugin": true, "bufio": true,
	"math/rand": true, "math/rand/v2": true, "crypto/rand": true, "os/exec": true, "os/signal": true,
	"context": true, "reflect": true, "testing": true,
}

var impureTimeFuncs = map[string]bool{
	"Now": true, "Since": true, "Until": true, "Sleep": true, "After": true, "Tick": true,
	"NewTimer": true, "NewTicker": true, "AfterFunc": true,
}

// purePkgs are third-party packages all of whose functions are side-effect
// free as far as chain state and events are concerned.
var purePkgs = []string{
	"cosmossdk.io/math",
	"cosmossdk.io/errors",
	"github.com/cosmos/cosmos-sdk/types/errors",
	"github.com/cosmos/cosmos-sdk/types/address",
	"github.com/cosmos/cosmos-sdk/types/bech32",
	"github.com/cosmos/cosmos-sdk/codec",
	"github.com/cosmos/cosmos-sdk/codec/types",
	"github.com/cosmos/cosmos-sdk/store/prefix",
	"github.com/cosmos/gogoproto/proto",
	"github.com/cometbft/cometbft-db",
	"github.com/spf13/cast",
	"github.com/golang-jwt/jwt",
	"github.com/golang-jwt/jwt/v4",
	"github.com/mrz1836/go-sanitize",
	"gopkg.in/yaml.v2",
	"sigs.k8s.io/yaml",
}

func externalPure(fn *types.Func) bool {
	p := pkgPathOf(fn)
	name := fn.Name()
	if p == "" {
		// universe scope: error.Error
		return name == "Error"
	}
	first := p
	if i := strings.IndexByte(p, '/'); i >= 0 {
		first = p[:i]
	}
	if !strings.Contains(first, ".") { // standard library
		if impureStd[p] || strings.HasPrefix(p, "net/") || strings.HasPrefix(p, "os/") ||
			strings.HasPrefix(p, "runtime/") || strings.HasPrefix(p, "log/") {
			return false
		}
		if p == "time" && impureTimeFuncs[name] {
			return false
		}
		return true
	}
	for _, pp := range purePkgs {
		if p == pp {
			return true
		}
	}
	rn := derefNamed(declaredRecv(fn))
	rname := ""
	if rn != nil {
		rname = rn.Obj().Name()
	}
	switch p {
	case "github.com/cosmos/cosmos-sdk/types":
		if strings.HasPrefix(name, "Emit") || rname == "EventManager" || rname == "Config" {
			return false
		}
		return true
	case "github.com/cosmos/cosmos-sdk/x/auth/types":
		return name == "NewModuleAddress"
	case "github.com/google/uuid":
		return name == "Parse" || name == "MustParse" || name == "Validate" || name == "String"
	}
	return false
}

func (pa *purity) callPure(info *types.Info, encl *ast.FuncDecl, call *ast.CallExpr) bool {
	fun := ast.Unparen(call.Fun)
	if tv, ok := info.Types[fun]; ok && tv.IsType() {
		return true // conversion
	}
	if id, ok := fun.(*ast.Ident); ok {
		if b, ok := info.Uses[id].(*types.Builtin); ok {
			switch b.Name() {
			case "delete", "clear", "copy":
				if len(call.Args) > 0 {
					if aid, ok := ast.Unparen(call.Args[0]).(*ast.Ident); ok {
						return freshLocal(info, encl, varOf(info, aid))
					}
				}
				return false
			case "print", "println", "recover", "close":
				return false
			}
			return true
		}
	}
	if _, ok := fun.(*ast.FuncLit); ok {
		return true // body is inspected by the enclosing traversal
	}
	fn, recv := calleeOf(info, call)
	if fn == nil {
		return false // function value
	}
	switch pa.w.classify(fn, recv) {
	case ccVerify, ccRead:
		return true
	case ccWrite:
		return false
	case ccDescend:
		return pa.funcPure(fn)
	case ccDispatch:
		impls := pa.w.implementations(fn)
		if len(impls) == 0 {
			return false
		}
		for _, im := range impls {
			if !pa.funcPure(im) {
				return false
			}
		}
		return true
	}
	if isRepoPath(pkgPathOf(fn)) {
		return false
	}
	return externalPure(fn)
}

func (pa *purity) exprPure(info *types.Info, encl *ast.FuncDecl, e ast.Expr) bool {
	if e == nil {
		return true
	}
	ok := true
	ast.Inspect(e, func(n ast.Node) bool {
		switch n.(type) {
		case *ast.FuncLit:
			ok = false
		}
		return ok
	})
	return ok && pa.nodePure(info, encl, e)
}

// ---------------------------------------------------------------------------
// map range classification

type loopCheck struct {
	pa   *purity
	info *types.Info
	encl *ast.FuncDecl
	rs   *ast.RangeStmt
	keyV *types.Var

	mapTargets    []ast.Expr // X of m[k] = v / delete(m, k)
	appendTargets []*types.Var
	returns       []string
	hasEffect     bool
}

func (lc *loopCheck) bodyLocal(id *ast.Ident) bool {
	if id.Name == "_" {
		return true
	}
	v := varOf(lc.info, id)
	return v != nil && !v.IsField() && within(v.Pos(), lc.rs)
}

func (lc *loopCheck) pure(e ast.Expr) bool { return lc.pa.exprPure(lc.info, lc.encl, e) }

func (lc *loopCheck) isConstExpr(e ast.Expr) bool {
	if tv, ok := lc.info.Types[e]; ok && tv.Value != nil {
		return true
	}
	switch e := ast.Unparen(e).(type) {
	case *ast.CompositeLit:
		return len(e.Elts) == 0
	case *ast.Ident:
		_, isNil := lc.info.Uses[e].(*types.Nil)
		return isNil
	}
	return false
}

// constRet: the returned expression does not depend on any local variable.
func (lc *loopCheck) constRet(e ast.Expr) bool {
	if !lc.pure(e) {
		return false
	}
	ok := true
	ast.Inspect(e, func(n ast.Node) bool {
		if id, isId := n.(*ast.Ident); isId {
			if v, isVar := lc.info.Uses[id].(*types.Var); isVar && !v.IsField() {
				if v.Pkg() == nil || v.Parent() != v.Pkg().Scope() {
					ok = false // local variable
				}
			}
		}
		return ok
	})
	return ok
}

func isIntegerType(t types.Type) bool {
	b, ok := t.Underlying().(*types.Basic)
	return ok && b.Info()&types.IsInteger != 0
}

func (lc *loopCheck) mapStore(ix *ast.IndexExpr, tok token.Token, rhs ast.Expr) bool {
	if !lc.pure(ix.X) || !lc.pure(ix.Index) {
		return false
	}
	mt, _ := lc.info.TypeOf(ix.X).Underlying().(*types.Map)
	if mt == nil {
		return false
	}
	switch tok {
	case token.ASSIGN:
		// value must not depend on the iteration unless the target key is the
		// (injective) source key itself.
		keyIsLoopKey := false
		if id, ok := ast.Unparen(ix.Index).(*ast.Ident); ok && lc.keyV != nil && varOf(lc.info, id) == lc.keyV {
			keyIsLoopKey = true
		}
		if !keyIsLoopKey && !lc.isConstExpr(rhs) {
			return false
		}
	case token.ADD_ASSIGN, token.SUB_ASSIGN, token.OR_ASSIGN, token.AND_ASSIGN, token.XOR_ASSIGN, token.INC, token.DEC:
		if !isIntegerType(mt.Elem()) {
			return false
		}
	default:
		return false
	}
	lc.mapTargets = append(lc.mapTargets, ix.X)
	lc.hasEffect = true
	return true
}

func (lc *loopCheck) stmts(list []ast.Stmt, nested bool) bool {
	for _, s := range list {
		if !lc.stmt(s, nested) {
			return false
		}
	}
	return true
}

func (lc *loopCheck) stmt(s ast.Stmt, nested bool) bool {
	switch s := s.(type) {
	case nil:
		return true
	case *ast.EmptyStmt:
		return true
	case *ast.BlockStmt:
		return lc.stmts(s.List, nested)
	case *ast.DeclStmt:
		gd, ok := s.Decl.(*ast.GenDecl)
		if !ok {
			return false
		}
		for _, sp := range gd.Specs {
			if vs, ok := sp.(*ast.ValueSpec); ok {
				for _, v := range vs.Values {
					if !lc.pure(v) {
						return false
					}
				}
			}
		}
		return true
	case *ast.AssignStmt:
		if s.Tok == token.DEFINE {
			for _, r := range s.Rhs {
				if !lc.pure(r) {
					return false
				}
			}
			return true
		}
		if len(s.Lhs) != len(s.Rhs) {
			// tuple assignment from a call: all targets must be loop-local
			for _, l := range s.Lhs {
				id, ok := ast.Unparen(l).(*ast.Ident)
				if !ok || !lc.bodyLocal(id) {
					return false
				}
			}
			return lc.pure(s.Rhs[0])
		}
		for i, l := range s.Lhs {
			r := s.Rhs[i]
			switch l := ast.Unparen(l).(type) {
			case *ast.Ident:
				if lc.bodyLocal(l) {
					if !lc.pure(r) {
						return false
					}
					continue
				}
				// s = append(s, pure...)
				v := varOf(lc.info, l)
				call, ok := ast.Unparen(r).(*ast.CallExpr)
				if s.Tok != token.ASSIGN || !ok || v == nil || len(call.Args) == 0 {
					return false
				}
				fid, ok := ast.Unparen(call.Fun).(*ast.Ident)
				if !ok {
					return false
				}
				if b, ok := lc.info.Uses[fid].(*types.Builtin); !ok || b.Name() != "append" {
					return false
				}
				a0, ok := ast.Unparen(call.Args[0]).(*ast.Ident)
				if !ok || varOf(lc.info, a0) != v {
					return false
				}
				for _, a := range call.Args[1:] {
					if !lc.pure(a) {
						return false
					}
				}
				lc.appendTargets = append(lc.appendTargets, v)
				lc.hasEffect = true
			case *ast.IndexExpr:
				if !lc.pure(r) || !lc.mapStore(l, s.Tok, r) {
					return false
				}
			default:
				return false
			}
		}
		return true
	case *ast.IncDecStmt:
		switch x := ast.Unparen(s.X).(type) {
		case *ast.Ident:
			return lc.bodyLocal(x)
		case *ast.IndexExpr:
			return lc.mapStore(x, s.Tok, nil)
		}
		return false
	case *ast.ExprStmt:
		call, ok := ast.Unparen(s.X).(*ast.CallExpr)
		if !ok {
			return lc.pure(s.X)
		}
		if id, ok := ast.Unparen(call.Fun).(*ast.Ident); ok {
			if b, ok := lc.info.Uses[id].(*types.Builtin); ok && b.Name() == "delete" && len(call.Args) == 2 {
				if !lc.pure(call.Args[0]) || !lc.pure(call.Args[1]) {
					return false
				}
				lc.mapTargets = append(lc.mapTargets, call.Args[0])
				lc.hasEffect = true
				return true
			}
		}
		return lc.pure(s.X)
	case *ast.IfStmt:
		return lc.stmt(s.Init, nested) && lc.pure(s.Cond) && lc.stmts(s.Body.List, nested) && lc.stmt(s.Else, nested)
	case *ast.SwitchStmt:
		if !lc.stmt(s.Init, nested) || !lc.pure(s.Tag) {
			return false
		}
		for _, c := range s.Body.List {
			cc := c.(*ast.CaseClause)
			for _, e := range cc.List {
				if !lc.pure(e) {
					return false
				}
			}
			if !lc.stmts(cc.Body, true) {
				return false
			}
		}
		return true
	case *ast.ForStmt:
		return lc.stmt(s.Init, true) && lc.pure(s.Cond) && lc.stmt(s.Post, true) && lc.stmts(s.Body.List, true)
	case *ast.RangeStmt:
		if s.Tok == token.ASSIGN {
			for _, e := range []ast.Expr{s.Key, s.Value} {
				if e == nil {
					continue
				}
				id, ok := ast.Unparen(e).(*ast.Ident)
				if !ok || !lc.bodyLocal(id) {
					return false
				}
			}
		}
		return lc.pure(s.X) && lc.stmts(s.Body.List, true)
	case *ast.BranchStmt:
		if s.Label != nil {
			return false
		}
		switch s.Tok {
		case token.CONTINUE, token.FALLTHROUGH:
			return true
		case token.BREAK:
			return nested
		}
		return false
	case *ast.ReturnStmt:
		if len(s.Results) == 0 {
			if lc.encl.Type.Results != nil && len(lc.encl.Type.Results.List) > 0 {
				return false // bare return with named results
			}
			lc.returns = append(lc.returns, "")
			return true
		}
		var parts []string
		for _, r := range s.Results {
			if !lc.constRet(r) {
				return false
			}
			parts = append(parts, types.ExprString(r))
		}
		lc.returns = append(lc.returns, strings.Join(parts, ", "))
		return true
	}
	return false
}

func isSortFunc(fn *types.Func) bool {
	switch pkgPathOf(fn) {
	case "sort":
		switch fn.Name() {
		case "Strings", "Ints", "Float64s", "Slice", "SliceStable", "Sort", "Stable":
			return true
		}
	case "slices", "golang.org/x/exp/slices":
		return strings.HasPrefix(fn.Name(), "Sort")
	}
	return false
}

// sortedAfter: the enclosing function contains, after the loop, a sort call
// whose first argument mentions v.
func (lc *loopCheck) sortedAfter(v *types.Var) bool {
	if !within(v.Pos(), lc.encl) {
		return false
	}
	found := false
	ast.Inspect(lc.encl.Body, func(n ast.Node) bool {
		call, ok := n.(*ast.CallExpr)
		if !ok || call.Pos() < lc.rs.End() || len(call.Args) == 0 {
			return true
		}
		fn, _ := calleeOf(lc.info, call)
		if fn == nil || !isSortFunc(fn) {
			return true
		}
		ast.Inspect(call.Args[0], func(m ast.Node) bool {
			if id, ok := m.(*ast.Ident); ok && lc.info.Uses[id] == v {
				found = true
			}
			return true
		})
		return true
	})
	return found
}

func (pa *purity) rangeBuildsSetOnly(p *packages.Package, encl *ast.FuncDecl, rs *ast.RangeStmt) bool {
	lc := &loopCheck{pa: pa, info: p.TypesInfo, encl: encl, rs: rs}
	if id, ok := rs.Key.(*ast.Ident); ok && id.Name != "_" {
		lc.keyV = varOf(p.TypesInfo, id)
	}
	if rs.Tok == token.ASSIGN {
		return false // assigns iteration variables to outer storage
	}
	if !lc.stmts(rs.Body.List, false) {
		return false
	}
	// all returns inside the loop must be the same constant expression
	for _, r := range lc.returns {
		if r != lc.returns[0] {
			return false
		}
	}
	for _, v := range lc.appendTargets {
		if !lc.sortedAfter(v) {
			return false
		}
	}
	if len(lc.returns) > 0 {
		// early exit: the number of iterations executed depends on the order,
		// so the body must not touch the store at all (reads consume gas).
		fr := &frame{wk: pa.wk, info: lc.info, cut: noCut}
		fr.walk(rs.Body)
		if len(fr.out) > 0 {
			return false
		}
	}
	if len(lc.returns) > 0 && lc.hasEffect {
		// early exit leaves partially built sets behind: they must be private
		for _, t := range lc.mapTargets {
			id, ok := ast.Unparen(t).(*ast.Ident)
			if !ok || !freshLocal(lc.info, encl, varOf(lc.info, id)) {
				return false
			}
		}
		for _, v := range lc.appendTargets {
			if !freshLocal(lc.info, encl, v) {
				return false
			}
		}
	}
	return true
}

// methods of time.Time whose result depends on the Location of the value
var zoneDependent = map[string]bool{"Format": true, "String": true, "Local": true, "Zone": true, "Location": true, "Date": true, "Clock": true,
	"Year": true, "Month": true, "Day": true, "Hour": true, "Minute": true, "Weekday": true, "YearDay": true, "ISOWeek": true,
	"MarshalJSON": true, "MarshalText": true, "GoString": true, "AppendFormat": true}

// visiblyUTC: x.UTC(), ctx.BlockTime() (the SDK stores header times in UTC), ...BlockHeader().Time
func visiblyUTC(e ast.Expr) bool {
	switch x := e.(type) {
	case *ast.ParenExpr:
		return visiblyUTC(x.X)
	case *ast.CallExpr:
		if s, ok := x.Fun.(*ast.SelectorExpr); ok && (s.Sel.Name == "UTC" || s.Sel.Name == "BlockTime") {
			return true
		}
	case *ast.SelectorExpr:
		if x.Sel.Name == "Time" {
			if c, ok := x.X.(*ast.CallExpr); ok {
				if s, ok := c.Fun.(*ast.SelectorExpr); ok && s.Sel.Name == "BlockHeader" {
					return true
				}
			}
		}
	}
	return false
}

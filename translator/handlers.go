package main

import (
	"fmt"
	"go/ast"
	"go/token"
	"go/types"
	"io"
	"math"
	"os"
	"path"
	"sort"
	"strings"

	"golang.org/x/tools/go/packages"
)

type event int

const (
	evVerify event = iota
	evWrite
	evRead
)

func (e event) coq() string {
	switch e {
	case evVerify:
		return "HVerify"
	case evWrite:
		return "HWrite"
	default:
		return "HRead"
	}
}

type handlerRow struct {
	module    string
	name      string
	reqType   string // "module.TypeName" of the request message
	hasTicket bool
	events    []event
}

type ticketMsg struct{ module, name string }

var verifyNames = map[string]bool{
	"VerifyTicketUnmarshal":        true,
	"VerifyTicket":                 true,
	"verifyTicketWithKeyUnmarshal": true,
}

var bankWritePrefixes = []string{"SendCoins", "MintCoins", "BurnCoins", "DelegateCoins", "UndelegateCoins"}

var bankReadNames = map[string]bool{
	"GetBalance": true, "GetAllBalances": true, "SpendableCoins": true, "SpendableCoin": true,
	"GetSupply": true, "HasBalance": true, "LockedCoins": true,
}

const noCut = math.MaxInt

// walker computes, for functions defined in the repo, the ordered list of
// events obtained by inlining callees depth-first in source order.
type walker struct {
	w       *world
	stack   []*types.Func
	onStack map[*types.Func]int
	memo    map[*types.Func][]event
	// notes about unresolved dynamic calls, keyed for de-duplication.
	unresolved map[string]bool
	// trace, when non-nil, receives an indented call tree (memoisation is
	// disabled while tracing so that every subtree is printed).
	trace io.Writer
}

func (wk *walker) tracef(format string, a ...any) {
	if wk.trace != nil {
		fmt.Fprintf(wk.trace, "%s"+format+"\n", append([]any{strings.Repeat("  ", len(wk.stack))}, a...)...)
	}
}

func (wk *walker) noteUnresolved(pos token.Pos, what string) {
	p := wk.w.fset.Position(pos)
	key := fmt.Sprintf("%s:%d: %s", wk.w.relFile(pos), p.Line, what)
	wk.unresolved[key] = true
	wk.tracef("?? %s", key)
}

func newWalker(w *world) *walker {
	return &walker{
		w:          w,
		onStack:    map[*types.Func]int{},
		memo:       map[*types.Func][]event{},
		unresolved: map[string]bool{},
	}
}

func collapse(ev []event) []event {
	out := ev[:0:0]
	for _, e := range ev {
		if len(out) > 0 && out[len(out)-1] == e {
			continue
		}
		out = append(out, e)
	}
	return out
}

// funcEvents returns the collapsed event list of fn and the minimum stack
// depth at which a recursion cut happened while computing it (noCut if none
// escaped fn's own frame).
func (wk *walker) funcEvents(fn *types.Func) ([]event, int) {
	fn = fn.Origin()
	if ev, ok := wk.memo[fn]; ok && wk.trace == nil {
		return ev, noCut
	}
	if d, ok := wk.onStack[fn]; ok {
		wk.tracef("(recursion cut: %s)", fn.FullName())
		return nil, d // recursion guard
	}
	fd := wk.w.decls[fn]
	if fd == nil {
		return nil, noCut
	}
	depth := len(wk.stack)
	wk.tracef("-> %s", fn.FullName())
	wk.stack = append(wk.stack, fn)
	wk.onStack[fn] = depth
	fr := &frame{wk: wk, info: fd.pkg.TypesInfo, cut: noCut}
	fr.walk(fd.decl.Body)
	wk.stack = wk.stack[:depth]
	delete(wk.onStack, fn)
	out := collapse(fr.out)
	if fr.cut >= depth {
		// every cut refers to fn itself (or nothing): result is complete.
		wk.memo[fn] = out
		return out, noCut
	}
	return out, fr.cut
}

type frame struct {
	wk   *walker
	info *types.Info
	out  []event
	cut  int
}

func (fr *frame) emit(e event) {
	fr.wk.tracef("%s", e.coq())
	if n := len(fr.out); n > 0 && fr.out[n-1] == e {
		return
	}
	fr.out = append(fr.out, e)
}

// walk traverses n in source order.  Calls are handled post-order (callee
// expression, then arguments, then the call itself); function literals are
// walked in place, at the point where they appear.
func (fr *frame) walk(n ast.Node) {
	if n == nil {
		return
	}
	ast.Inspect(n, func(c ast.Node) bool {
		call, ok := c.(*ast.CallExpr)
		if !ok {
			return true
		}
		fr.walk(call.Fun)
		for _, a := range call.Args {
			fr.walk(a)
		}
		fr.call(call)
		return false
	})
}

// calleeOf resolves the statically known callee of a call expression.  It
// returns nil for conversions, builtins and calls through function values.
func calleeOf(info *types.Info, call *ast.CallExpr) (fn *types.Func, recv types.Type) {
	fun := ast.Unparen(call.Fun)
	switch f := fun.(type) {
	case *ast.IndexExpr:
		fun = ast.Unparen(f.X)
	case *ast.IndexListExpr:
		fun = ast.Unparen(f.X)
	}
	var obj types.Object
	switch f := fun.(type) {
	case *ast.Ident:
		obj = info.Uses[f]
	case *ast.SelectorExpr:
		if sel, ok := info.Selections[f]; ok {
			if sel.Kind() == types.FieldVal {
				return nil, nil // function-valued field
			}
			obj = sel.Obj()
			recv = sel.Recv()
		} else {
			obj = info.Uses[f.Sel]
		}
	}
	fn, _ = obj.(*types.Func)
	if fn == nil {
		return nil, nil
	}
	if sig, ok := fn.Type().(*types.Signature); ok && sig.Recv() != nil && recv == nil {
		recv = sig.Recv().Type()
	}
	return fn, recv
}

func declaredRecv(fn *types.Func) types.Type {
	if sig, ok := fn.Type().(*types.Signature); ok && sig.Recv() != nil {
		return sig.Recv().Type()
	}
	return nil
}

func pkgPathOf(fn *types.Func) string {
	if fn.Pkg() == nil {
		return ""
	}
	return fn.Pkg().Path()
}

func derefNamed(t types.Type) *types.Named {
	if t == nil {
		return nil
	}
	t = types.Unalias(t)
	if p, ok := t.(*types.Pointer); ok {
		t = types.Unalias(p.Elem())
	}
	n, _ := t.(*types.Named)
	return n
}

func (w *world) isKVStore(t types.Type) bool {
	if t == nil {
		return false
	}
	if types.Implements(t, w.kvStoreIface) {
		return true
	}
	if _, isPtr := types.Unalias(t).(*types.Pointer); !isPtr && !types.IsInterface(t) {
		return types.Implements(types.NewPointer(t), w.kvStoreIface)
	}
	return false
}

func isParamsSubspace(t types.Type) bool {
	n := derefNamed(t)
	if n == nil || n.Obj().Pkg() == nil {
		return false
	}
	return n.Obj().Name() == "Subspace" && strings.HasSuffix(n.Obj().Pkg().Path(), "/x/params/types")
}

type callClass int

const (
	ccNone callClass = iota
	ccVerify
	ccWrite
	ccRead
	ccDescend  // concrete repo function with a body
	ccDispatch // interface declared in repo: resolve implementations
)

// classify classifies a resolved callee.  It is shared by the handler walker
// and by the purity analysis of nondet.go.
func (w *world) classify(fn *types.Func, recv types.Type) callClass {
	name := fn.Name()
	drecv := declaredRecv(fn)
	isMethod := drecv != nil
	if verifyNames[name] {
		// Only the x/ovm keeper's functions count as ticket verification: either
		// called directly, or through a repo interface (expected keeper) all of
		// whose repo implementations live in x/ovm/keeper.  A look-alike
		// function elsewhere is treated as an ordinary call.
		const ovmKeeper = repoModule + "/x/ovm/keeper"
		if pkgPathOf(fn) == ovmKeeper {
			return ccVerify
		}
		if isMethod && types.IsInterface(drecv) && isRepoPath(pkgPathOf(fn)) {
			impls := w.implementations(fn)
			all := len(impls) > 0
			for _, im := range impls {
				if pkgPathOf(im) != ovmKeeper {
					all = false
				}
			}
			if all {
				return ccVerify
			}
		}
	}
	if isMethod {
		if w.isKVStore(recv) || w.isKVStore(drecv) {
			switch name {
			case "Set", "Delete":
				return ccWrite
			case "Get", "Has", "Iterator", "ReverseIterator":
				return ccRead
			}
			return ccNone
		}
		if isParamsSubspace(recv) || isParamsSubspace(drecv) {
			switch name {
			case "SetParamSet", "Set", "Update":
				return ccWrite
			case "GetParamSet", "GetParamSetIfExists", "Get", "GetIfExists", "GetRaw", "Has":
				return ccRead
			}
			return ccNone
		}
	} else if pkgPathOf(fn) == "github.com/cosmos/cosmos-sdk/types" &&
		(strings.HasPrefix(name, "KVStorePrefixIterator") || strings.HasPrefix(name, "KVStoreReversePrefixIterator")) {
		return ccRead
	}
	if isRepoPath(pkgPathOf(fn)) {
		if isMethod && types.IsInterface(drecv) {
			return ccDispatch
		}
		if w.decls[fn.Origin()] != nil {
			return ccDescend
		}
		return ccNone
	}
	return classifyByName(name, isMethod)
}

// classifyByName is the fallback for callees outside the repo (SDK keepers
// reached through expected-keeper interfaces or concrete SDK types) and for
// repo interfaces without any repo implementation.
func classifyByName(name string, isMethod bool) callClass {
	if !isMethod {
		return ccNone
	}
	for _, p := range bankWritePrefixes {
		if strings.HasPrefix(name, p) {
			return ccWrite
		}
	}
	switch {
	case name == "SaveGrant" || name == "DeleteGrant":
		return ccWrite
	case name == "SetAccount" || strings.HasPrefix(name, "NewAccount"):
		return ccWrite
	case name == "SetParams" || name == "SetParamSet":
		return ccWrite
	case bankReadNames[name]:
		return ccRead
	}
	return ccNone
}

func (fr *frame) call(call *ast.CallExpr) {
	fn, recv := calleeOf(fr.info, call)
	if fn == nil {
		fr.noteDynamic(call)
		return
	}
	w := fr.wk.w
	switch w.classify(fn, recv) {
	case ccVerify:
		fr.emit(evVerify)
	case ccWrite:
		fr.emit(evWrite)
	case ccRead:
		fr.emit(evRead)
	case ccDescend:
		ev, cut := fr.wk.funcEvents(fn)
		fr.splice(ev, cut)
	case ccDispatch:
		impls := w.implementations(fn)
		switch len(impls) {
		case 0:
			fr.wk.noteUnresolved(call.Pos(), "repo interface method without repo implementation: "+fn.FullName())
			switch classifyByName(fn.Name(), true) {
			case ccWrite:
				fr.emit(evWrite)
			case ccRead:
				fr.emit(evRead)
			}
		case 1:
			ev, cut := fr.wk.funcEvents(impls[0])
			fr.splice(ev, cut)
		default:
			// Several implementations: inline all of them in a fixed order.
			// HVerify is a "must" fact, so it is kept only if every
			// implementation contains one.
			var lists [][]event
			allVerify := true
			for _, im := range impls {
				ev, cut := fr.wk.funcEvents(im)
				if cut < fr.cut {
					fr.cut = cut
				}
				lists = append(lists, ev)
				has := false
				for _, e := range ev {
					if e == evVerify {
						has = true
					}
				}
				if !has {
					allVerify = false
				}
			}
			for _, ev := range lists {
				for _, e := range ev {
					if e == evVerify && !allVerify {
						continue
					}
					if n := len(fr.out); n > 0 && fr.out[n-1] == e {
						continue
					}
					fr.out = append(fr.out, e)
				}
			}
		}
	}
}

// splice appends the events of an inlined callee.  While tracing, the callee
// has already printed its own events, so only the list is updated.
func (fr *frame) splice(ev []event, cut int) {
	if cut < fr.cut {
		fr.cut = cut
	}
	for _, e := range ev {
		if n := len(fr.out); n > 0 && fr.out[n-1] == e {
			continue
		}
		fr.out = append(fr.out, e)
	}
}

// noteDynamic records calls whose target is not statically known (function
// values, function-typed fields); conversions and builtins are ignored.
func (fr *frame) noteDynamic(call *ast.CallExpr) {
	fun := ast.Unparen(call.Fun)
	if tv, ok := fr.info.Types[fun]; ok && tv.IsType() {
		return
	}
	if id, ok := fun.(*ast.Ident); ok {
		if _, ok := fr.info.Uses[id].(*types.Builtin); ok {
			return
		}
	}
	if _, ok := fun.(*ast.FuncLit); ok {
		return // body walked in place
	}
	fr.wk.noteUnresolved(call.Pos(), "call through function value not followed: "+types.ExprString(fun))
}

func excludedImplPkg(p string) bool {
	for _, seg := range strings.Split(p, "/") {
		switch seg {
		case "simulation", "testutil", "client", "cli", "mocks", "mock":
			return true
		}
	}
	return false
}

// implementations returns the distinct concrete repo methods that can be the
// target of a call to the interface method m (interface declared in the repo).
func (w *world) implementations(m *types.Func) []*types.Func {
	if r, ok := w.impls[m]; ok {
		return r
	}
	var res []*types.Func
	iface, _ := declaredRecv(m).Underlying().(*types.Interface)
	if iface != nil {
		seen := map[*types.Func]bool{}
		for _, nt := range w.repoNamed {
			if nt.Obj().Pkg() == nil || excludedImplPkg(nt.Obj().Pkg().Path()) {
				continue
			}
			pt := types.NewPointer(nt)
			if !types.Implements(nt, iface) && !types.Implements(pt, iface) {
				continue
			}
			obj, _, _ := types.LookupFieldOrMethod(pt, true, m.Pkg(), m.Name())
			cf, ok := obj.(*types.Func)
			if !ok {
				continue
			}
			cf = cf.Origin()
			if types.IsInterface(declaredRecv(cf)) {
				continue // promoted through an embedded interface: unknown target
			}
			if !seen[cf] {
				seen[cf] = true
				res = append(res, cf)
			}
		}
	}
	sort.Slice(res, func(i, j int) bool { return res[i].FullName() < res[j].FullName() })
	w.impls[m] = res
	return res
}

// ---------------------------------------------------------------------------

// moduleOfPkg returns the module directory name for repo packages under x/.
func moduleOfPkg(pkgPath string) string {
	rest, ok := strings.CutPrefix(pkgPath, repoModule+"/x/")
	if !ok {
		return ""
	}
	if i := strings.IndexByte(rest, '/'); i >= 0 {
		return rest[:i]
	}
	return rest
}

func hasTicketField(t types.Type, depth int, seen map[*types.Named]bool) bool {
	if depth > 6 {
		return false
	}
	n := derefNamed(t)
	if n == nil {
		return false
	}
	if n.Obj().Pkg() == nil || !isRepoPath(n.Obj().Pkg().Path()) {
		return false
	}
	if seen[n] {
		return false
	}
	seen[n] = true
	st, ok := n.Underlying().(*types.Struct)
	if !ok {
		return false
	}
	for i := 0; i < st.NumFields(); i++ {
		f := st.Field(i)
		if f.Name() == "Ticket" {
			if b, ok := f.Type().Underlying().(*types.Basic); ok && b.Kind() == types.String {
				return true
			}
		}
	}
	for i := 0; i < st.NumFields(); i++ {
		if hasTicketField(st.Field(i).Type(), depth+1, seen) {
			return true
		}
	}
	return false
}

func analyseHandlers(w *world, trace string) ([]handlerRow, []ticketMsg, error) {
	wk := newWalker(w)
	var rows []handlerRow
	ticketSet := map[ticketMsg]bool{}
	foundMods := map[string]bool{}

	for _, tp := range w.pkgs {
		mod := moduleOfPkg(tp.PkgPath)
		if mod == "" || tp.PkgPath != repoModule+"/x/"+mod+"/types" {
			continue
		}
		// ticket messages: Msg* structs of tx.pb.go (requests of MsgServer are
		// added below as well).
		sc := tp.Types.Scope()
		for _, name := range sc.Names() {
			tn, ok := sc.Lookup(name).(*types.TypeName)
			if !ok || tn.IsAlias() {
				continue
			}
			if !strings.HasPrefix(name, "Msg") || strings.HasSuffix(name, "Response") {
				continue
			}
			if path.Base(w.relFile(tn.Pos())) != "tx.pb.go" {
				continue
			}
			if _, ok := tn.Type().Underlying().(*types.Struct); !ok {
				continue
			}
			if hasTicketField(tn.Type(), 0, map[*types.Named]bool{}) {
				ticketSet[ticketMsg{mod, name}] = true
			}
		}

		msObj := sc.Lookup("MsgServer")
		if msObj == nil {
			continue
		}
		iface, ok := msObj.Type().Underlying().(*types.Interface)
		if !ok {
			continue
		}
		foundMods[mod] = true
		impl, err := findMsgServerImpl(w, mod, iface)
		if err != nil {
			return nil, nil, err
		}
		for i := 0; i < iface.NumMethods(); i++ {
			m := iface.Method(i)
			row := handlerRow{module: mod, name: m.Name()}
			sig := m.Type().(*types.Signature)
			if sig.Params().Len() >= 2 {
				if rn := derefNamed(sig.Params().At(1).Type()); rn != nil && rn.Obj().Pkg() != nil {
					rmod := moduleOfPkg(rn.Obj().Pkg().Path())
					row.reqType = rmod + "." + rn.Obj().Name()
					if hasTicketField(rn, 0, map[*types.Named]bool{}) {
						ticketSet[ticketMsg{rmod, rn.Obj().Name()}] = true
						row.hasTicket = true
					}
				}
			}
			obj, _, _ := types.LookupFieldOrMethod(types.NewPointer(impl), true, impl.Obj().Pkg(), m.Name())
			cf, ok := obj.(*types.Func)
			if !ok {
				return nil, nil, fmt.Errorf("module %s: %s has no method %s", mod, impl.Obj().Name(), m.Name())
			}
			if w.decls[cf.Origin()] == nil {
				w.warnf("module %s: handler %s resolves to %s which has no body in the repo", mod, m.Name(), cf.FullName())
			}
			if trace == mod+"/"+m.Name() || trace == "all" {
				fmt.Printf("== trace %s/%s\n", mod, m.Name())
				wk.trace = os.Stdout
			}
			ev, _ := wk.funcEvents(cf)
			wk.trace = nil
			row.events = collapse(ev)
			rows = append(rows, row)
		}
	}
	for _, m := range sgeModules {
		if !foundMods[m] {
			w.warnf("module %s: no types.MsgServer interface found", m)
		}
	}
	for k := range wk.unresolved {
		w.unresolved = append(w.unresolved, k)
	}
	sort.Strings(w.unresolved)
	sort.Slice(rows, func(i, j int) bool {
		if rows[i].module != rows[j].module {
			return rows[i].module < rows[j].module
		}
		return rows[i].name < rows[j].name
	})
	var tms []ticketMsg
	for t := range ticketSet {
		tms = append(tms, t)
	}
	sort.Slice(tms, func(i, j int) bool {
		if tms[i].module != tms[j].module {
			return tms[i].module < tms[j].module
		}
		return tms[i].name < tms[j].name
	})
	return rows, tms, nil
}

// findMsgServerImpl finds the concrete type implementing a module's MsgServer
// interface: preferably keeper.msgServer, otherwise the unique implementing
// type declared under x/<mod>/ (UnimplementedMsgServer excluded).
func findMsgServerImpl(w *world, mod string, iface *types.Interface) (*types.Named, error) {
	var cands []*types.Named
	for _, nt := range w.repoNamed {
		p := nt.Obj().Pkg()
		if p == nil || moduleOfPkg(p.Path()) != mod || excludedImplPkg(p.Path()) {
			continue
		}
		if nt.Obj().Name() == "UnimplementedMsgServer" {
			continue
		}
		if types.Implements(nt, iface) || types.Implements(types.NewPointer(nt), iface) {
			cands = append(cands, nt)
		}
	}
	for _, c := range cands {
		if c.Obj().Name() == "msgServer" && strings.HasSuffix(c.Obj().Pkg().Path(), "/keeper") {
			return c, nil
		}
	}
	if len(cands) == 1 {
		return cands[0], nil
	}
	if len(cands) == 0 {
		return nil, fmt.Errorf("module %s: no type implementing types.MsgServer found", mod)
	}
	var names []string
	for _, c := range cands {
		names = append(names, c.Obj().Pkg().Path()+"."+c.Obj().Name())
	}
	sort.Strings(names)
	return nil, fmt.Errorf("module %s: ambiguous MsgServer implementation: %s", mod, strings.Join(names, ", "))
}

var _ = packages.NeedName

#!/usr/bin/env bash
# Self-test of the translator: plants changes in a scratch copy of the repo and
# checks that the generated Coq tables change as expected.
#
#   usage: ./selftest.sh            (REPO=/repo by default)
#
# The scratch copy lives in /root/scratch/trsel and is removed on exit
# (success or failure).  Nothing under $REPO or /verif/coq is modified.
set -u
export GOFLAGS=-mod=mod GOPROXY=off GOSUMDB=off GOTOOLCHAIN=local

HERE="$(cd "$(dirname "$0")" && pwd)"
REPO="${REPO:-/repo}"
SCR=/root/scratch/trsel
SREPO="$SCR/repo"
BIN="$SCR/translator"
FAILS=0

cleanup() { rm -rf "$SCR"; }
trap cleanup EXIT
trap 'exit 130' INT TERM

rm -rf "$SCR"
mkdir -p "$SREPO" "$SCR/out" || { echo "FAIL: cannot create $SCR"; exit 1; }

echo "[selftest] building translator"
(cd "$HERE" && go build -o "$BIN" .) || { echo "FAIL: translator does not build"; exit 1; }

echo "[selftest] copying $REPO -> $SREPO"
if command -v rsync >/dev/null 2>&1; then
  rsync -a --exclude .git "$REPO"/ "$SREPO"/ || { echo "FAIL: copy"; exit 1; }
else
  cp -a "$REPO"/. "$SREPO"/ && rm -rf "$SREPO/.git" || { echo "FAIL: copy"; exit 1; }
fi

pass() { echo "PASS: $1"; }
fail() { echo "FAIL: $1"; FAILS=$((FAILS + 1)); }

# run_tr <name>: run the translator on the scratch copy, output to $SCR/out/<name>
run_tr() {
  local name="$1"
  mkdir -p "$SCR/out/$name"
  if ! "$BIN" -repo "$SREPO" -out "$SCR/out/$name" >"$SCR/out/$name.log" 2>&1; then
    echo "  translator failed on case '$name':"
    sed 's/^/    /' "$SCR/out/$name.log" | tail -20
    echo "  checking whether the scratch copy compiles (go build ./x/... ./app/...):"
    (cd "$SREPO" && go build ./x/... ./app/... 2>&1 | sed 's/^/    /' | tail -20)
    return 1
  fi
  grep '^translator:' "$SCR/out/$name.log" | sed 's/^/  /'
  return 0
}

restore() { cp "$REPO/$1" "$SREPO/$1"; }

# events <dir> <module> <name>: prints the h_events list of one handler
events() {
  python3 - "$1/handlers.v" "$2" "$3" <<'EOF'
import re, sys
src = open(sys.argv[1]).read()
m = re.search(r'h_module := "%s"; h_name := "%s"; h_has_ticket := (\w+); h_events := \[([^\]]*)\]' % (re.escape(sys.argv[2]), re.escape(sys.argv[3])), src)
if not m:
    print("MISSING")
else:
    print(m.group(1), " ".join(e.strip() for e in m.group(2).split(";") if e.strip()))
EOF
}

# verify_before_write "<ticket> <events...>": exit 0 iff HVerify precedes the first HWrite
verify_before_write() {
  local seen=0 e
  for e in $1; do
    case "$e" in
      HVerify) seen=1 ;;
      HWrite) [ "$seen" = 1 ] || return 1 ;;
    esac
  done
  return 0
}

# --------------------------------------------------------------------------
echo "[selftest] case 0: pristine copy"
if run_tr base; then
  ok=1
  for f in handlers.v perms.v nondet.v genesis.v; do [ -s "$SCR/out/base/$f" ] || ok=0; done
  # the scratch copy must give the same tables as the original tree
  [ "$ok" = 1 ] && pass "pristine: four tables generated" || fail "pristine: missing output file"
  ev="$(events "$SCR/out/base" house Withdraw)"
  if [ "$ev" != MISSING ] && verify_before_write "$ev"; then
    pass "pristine: house/Withdraw verifies before writing ($ev)"
  else
    fail "pristine: house/Withdraw expected HVerify before first HWrite, got: $ev"
  fi
  # every ticket handler verifies before its first write
  bad="$(python3 - "$SCR/out/base/handlers.v" <<'EOF'
import re, sys
src = open(sys.argv[1]).read()
for m in re.finditer(r'h_module := "(\w+)"; h_name := "(\w+)"; h_has_ticket := (\w+); h_events := \[([^\]]*)\]', src):
    mod, name, tick, evs = m.groups()
    evs = [e.strip() for e in evs.split(";") if e.strip()]
    if tick == "true":
        if "HVerify" not in evs or ("HWrite" in evs and evs.index("HWrite") < evs.index("HVerify")):
            print(mod + "/" + name)
EOF
)"
  if [ -z "$bad" ]; then pass "pristine: all ticket handlers verify before first write"
  else echo "NOTE (finding, not a translator failure): ticket handlers writing before verifying: $bad"; fi
else
  fail "pristine: translator run"
  echo "[selftest] cannot continue"; exit 1
fi

# --------------------------------------------------------------------------
echo "[selftest] case i: store write before ticket verification in house/Withdraw"
python3 - "$SREPO/x/house/keeper/msg_server_withdraw.go" <<'EOF'
import sys
p = sys.argv[1]; s = open(p).read()
anchor = "\tctx := sdk.UnwrapSDKContext(goCtx)\n"
assert s.count(anchor) >= 1
s = s.replace(anchor, anchor + "\tk.SetDeposit(ctx, types.Deposit{})\n", 1)
open(p, "w").write(s)
EOF
if run_tr c1; then
  ev="$(events "$SCR/out/c1" house Withdraw)"
  if [ "$ev" != MISSING ] && ! verify_before_write "$ev"; then
    pass "i: house/Withdraw now has HWrite before first HVerify ($ev)"
  else
    fail "i: expected HWrite before HVerify in house/Withdraw, got: $ev"
  fi
  if cmp -s "$SCR/out/base/handlers.v" "$SCR/out/c1/handlers.v"; then fail "i: handlers.v unchanged"; fi
else
  fail "i: translator run"
fi
restore x/house/keeper/msg_server_withdraw.go

# --------------------------------------------------------------------------
echo "[selftest] case ii: state-writing range over a map in x/bet/keeper/wager.go"
python3 - "$SREPO/x/bet/keeper/wager.go" <<'EOF'
import re, sys
p = sys.argv[1]; s = open(p).read()
m = re.search(r'func \(k Keeper\) Wager\([^\n]*\) error \{\n', s)
assert m
loop = "\tfor uid := range betOdds {\n\t\tk.SetBetID(ctx, types.UID2ID{UID: uid})\n\t}\n"
s = s[:m.end()] + loop + s[m.end():]
open(p, "w").write(s)
EOF
if run_tr c2; then
  if grep -q 'nd_file := "x/bet/keeper/wager.go"; .*nd_func := "Keeper.Wager"; nd_kind := MapRangeOrderSensitive' "$SCR/out/c2/nondet.v" \
     && ! grep -q 'x/bet/keeper/wager.go' "$SCR/out/base/nondet.v"; then
    pass "ii: MapRangeOrderSensitive site reported in x/bet/keeper/wager.go (Keeper.Wager)"
  else
    fail "ii: expected a MapRangeOrderSensitive site in x/bet/keeper/wager.go"
    grep wager.go "$SCR/out/c2/nondet.v" | sed 's/^/    /'
  fi
else
  fail "ii: translator run"
fi
restore x/bet/keeper/wager.go

# --------------------------------------------------------------------------
echo "[selftest] case iii: time.Now() in orderbook BettorLoses"
python3 - "$SREPO/x/orderbook/keeper/bet_settle.go" <<'EOF'
import re, sys
p = sys.argv[1]; s = open(p).read()
assert 'import (\n' in s
s = s.replace('import (\n', 'import (\n\t"time"\n', 1)
m = re.search(r'func \(k Keeper\) BettorLoses\((?:[^{]|\n)*?\) error \{\n', s)
assert m
s = s[:m.end()] + "\t_ = time.Now()\n" + s[m.end():]
open(p, "w").write(s)
EOF
if run_tr c3; then
  if grep -q 'nd_file := "x/orderbook/keeper/bet_settle.go"; .*nd_func := "Keeper.BettorLoses"; nd_kind := WallClock |}' "$SCR/out/c3/nondet.v" \
     && ! grep -q 'nd_kind := WallClock |}' "$SCR/out/base/nondet.v"; then
    pass "iii: WallClock site reported in x/orderbook/keeper/bet_settle.go (Keeper.BettorLoses)"
  else
    fail "iii: expected a WallClock site in x/orderbook/keeper/bet_settle.go"
    grep bet_settle.go "$SCR/out/c3/nondet.v" | sed 's/^/    /'
  fi
else
  fail "iii: translator run"
fi
restore x/orderbook/keeper/bet_settle.go

# --------------------------------------------------------------------------
echo "[selftest] case iv: minter permission for the orderbook liquidity pool"
python3 - "$SREPO/app/modules.go" <<'EOF'
import re, sys
p = sys.argv[1]; s = open(p).read()
pat = re.compile(r'(orderbookmoduletypes\.OrderBookLiquidityFunder\{\}\.GetModuleAcc\(\):\s*)nil,')
assert pat.search(s)
s = pat.sub(r'\1{authtypes.Minter},', s, count=1)
open(p, "w").write(s)
EOF
if run_tr c4; then
  if grep -q '("orderbook_liquidity_pool", \["minter"\])' "$SCR/out/c4/perms.v" \
     && grep -q '("orderbook_liquidity_pool", \[\])' "$SCR/out/base/perms.v"; then
    pass "iv: perms.v now gives orderbook_liquidity_pool the minter permission"
  else
    fail "iv: expected (\"orderbook_liquidity_pool\", [\"minter\"]) in perms.v"
    grep orderbook_liquidity_pool "$SCR/out/c4/perms.v" | sed 's/^/    /'
  fi
else
  fail "iv: translator run"
fi
restore app/modules.go

# --------------------------------------------------------------------------
# extra cases (not required by the specification, they exercise the benign
# classifications)
echo "[selftest] case v (extra): sorted key collection is MapRangeBuildsSetOnly; telemetry clock is TelemetryOnly"
python3 - "$SREPO/x/bet/keeper/wager.go" <<'EOF'
import sys
p = sys.argv[1]; s = open(p).read()
s = s.replace('import (\n', 'import (\n\t"sort"\n\t"time"\n\n\t"github.com/cosmos/cosmos-sdk/telemetry"\n', 1)
s += '''
func sortedOddsUIDs(m map[string]*types.BetOddsCompact) []string {
	defer telemetry.ModuleMeasureSince(types.ModuleName, time.Now(), "x")
	keys := make([]string, 0, len(m))
	for k := range m {
		keys = append(keys, k)
	}
	sort.Strings(keys)
	return keys
}

func unsortedOddsUIDs(m map[string]*types.BetOddsCompact) []string {
	keys := make([]string, 0, len(m))
	for k := range m {
		keys = append(keys, k)
	}
	return keys
}
'''
open(p, "w").write(s)
EOF
if run_tr c5; then
  if grep -q 'nd_func := "sortedOddsUIDs"; nd_kind := MapRangeBuildsSetOnly' "$SCR/out/c5/nondet.v" \
     && grep -q 'nd_func := "unsortedOddsUIDs"; nd_kind := MapRangeOrderSensitive' "$SCR/out/c5/nondet.v" \
     && grep -q 'nd_func := "sortedOddsUIDs"; nd_kind := WallClockTelemetryOnly' "$SCR/out/c5/nondet.v"; then
    pass "v: benign / sensitive map ranges and telemetry clock classified as expected"
  else
    fail "v: unexpected classification"
    grep wager.go "$SCR/out/c5/nondet.v" | sed 's/^/    /'
  fi
else
  fail "v: translator run"
fi
restore x/bet/keeper/wager.go

echo "[selftest] case vi (extra): unblocking a custody account changes blocked_module_accounts"
python3 - "$SREPO/app/keepers/keepers.go" <<'EOF'
import sys
p = sys.argv[1]; s = open(p).read()
anchor = "\tdelete(modAccAddrs, authtypes.NewModuleAddress(govtypes.ModuleName).String())\n"
assert anchor in s
s = s.replace(anchor, anchor + '\tdelete(modAccAddrs, authtypes.NewModuleAddress("reward_pool").String())\n', 1)
open(p, "w").write(s)
EOF
if run_tr c6; then
  b0="$(sed -n '/blocked_module_accounts/,/\]\./p' "$SCR/out/base/perms.v" | grep -c reward_pool)"
  b1="$(sed -n '/blocked_module_accounts/,/\]\./p' "$SCR/out/c6/perms.v" | grep -c '"reward_pool"')"
  if [ "$b0" -ge 1 ] && [ "$b1" = 0 ]; then pass "vi: reward_pool no longer listed as blocked"
  else fail "vi: expected reward_pool to disappear from blocked_module_accounts"; fi
else
  fail "vi: translator run"
fi
restore app/keepers/keepers.go

# --------------------------------------------------------------------------
echo "[selftest] case vii: reward ExportGenesis no longer exports the campaigns"
# gexported <dir> <module>: prints the gm_exported list of one module
gexported() {
  python3 - "$1/genesis.v" "$2" <<'EOF'
import re, sys
src = open(sys.argv[1]).read()
m = re.search(r'gm_name := "%s";.*?gm_exported := \[([^\]]*)\]' % re.escape(sys.argv[2]), src, re.S)
print(m.group(1) if m else "MISSING")
EOF
}
python3 - "$SREPO/x/reward/genesis.go" <<'EOF'
import sys
p = sys.argv[1]; s = open(p).read()
line = "\tgenesis.CampaignList = k.GetAllCampaign(ctx)\n"
assert s.count(line) == 1
open(p, "w").write(s.replace(line, "", 1))
EOF
if run_tr c7; then
  e0="$(gexported "$SCR/out/base" reward)"; e1="$(gexported "$SCR/out/c7" reward)"
  if echo "$e0" | grep -q '"CampaignKeyPrefix"' && ! echo "$e1" | grep -q '"CampaignKeyPrefix"' \
     && echo "$e1" | grep -q '"PromoterKeyPrefix"'; then
    pass "vii: CampaignKeyPrefix disappeared from reward gm_exported ($e1)"
  else
    fail "vii: expected CampaignKeyPrefix to disappear from reward gm_exported; before: $e0; after: $e1"
  fi
else
  fail "vii: translator run"
fi
restore x/reward/genesis.go

# --------------------------------------------------------------------------
if [ "$FAILS" -eq 0 ]; then
  echo "[selftest] ALL PASS"
  exit 0
fi
echo "[selftest] $FAILS FAILURE(S)"
exit 1

// Command translator statically analyses the sge-network/sge source tree and
// emits three Coq files containing plain data tables (handlers.v, perms.v,
// nondet.v).  See README.md for the exact rules.
package main

import (
	"flag"
	"fmt"
	"go/ast"
	"go/token"
	"go/types"
	"os"
	"path/filepath"
	"sort"
	"strings"
	"time"

	"golang.org/x/tools/go/packages"
)

const repoModule = "github.com/sge-network/sge"

// sgeModules is the list of custom modules whose MsgServer is analysed.  A
// module directory under x/ that is not listed here is still picked up (the
// list is only used for a sanity warning).
var sgeModules = []string{"bet", "house", "market", "mint", "orderbook", "ovm", "reward", "subaccount"}

// world is the loaded program.
type world struct {
	repo  string // absolute path of the analysed repo
	fset  *token.FileSet
	pkgs  []*packages.Package          // root packages (inside repo)
	all   map[string]*packages.Package // every package reachable, by path
	decls map[*types.Func]*funcDecl    // function bodies defined in repo packages
	// named types defined in repo packages (non-interface), for interface
	// dispatch resolution.
	repoNamed []*types.Named

	impls map[*types.Func][]*types.Func // repo interface method -> concrete repo methods

	kvStoreIface *types.Interface // cosmos-sdk/store/types.KVStore
	warnings     []string
	unresolved   []string // dynamic calls met while inlining handlers that were not followed
}

type funcDecl struct {
	decl *ast.FuncDecl
	pkg  *packages.Package
}

func (w *world) warnf(format string, a ...any) {
	s := fmt.Sprintf(format, a...)
	w.warnings = append(w.warnings, s)
	fmt.Fprintln(os.Stderr, "translator: warning: "+s)
}

func main() {
	repo := flag.String("repo", "/repo", "path of the sge repository to analyse")
	out := flag.String("out", "/verif/coq/Gen", "output directory for generated .v files")
	verbose := flag.Bool("v", false, "print tables summary to stdout")
	trace := flag.String("trace", "", "print the inlined call tree of one handler, e.g. house/Withdraw (or \"all\")")
	flag.Parse()

	outDir = *out
	t0 := time.Now()
	absRepo, err := filepath.Abs(*repo)
	if err != nil {
		fatal(err)
	}
	if r, err := filepath.EvalSymlinks(absRepo); err == nil {
		absRepo = r
	}
	w, err := load(absRepo)
	if err != nil {
		fatal(err)
	}
	tLoad := time.Since(t0)
	fmt.Printf("translator: loaded %d root packages (%d total) in %.1fs\n", len(w.pkgs), len(w.all), tLoad.Seconds())

	t1 := time.Now()
	hs, tmsgs, err := analyseHandlers(w, *trace)
	if err != nil {
		fatal(err)
	}
	perms, err := analysePerms(w)
	if err != nil {
		fatal(err)
	}
	sites := analyseNondet(w)
	gmods, err := analyseGenesis(w)
	if err != nil {
		fatal(err)
	}
	tAn := time.Since(t1)

	if err := os.MkdirAll(*out, 0o755); err != nil {
		fatal(err)
	}
	files := map[string]string{
		"handlers.v": renderHandlers(hs, tmsgs),
		"perms.v":    renderPerms(perms),
		"nondet.v":   renderNondet(sites),
		"genesis.v":  renderGenesis(gmods),
		"kernels.v":  analyseKernels(w),
	}
	names := make([]string, 0, len(files))
	for n := range files {
		names = append(names, n)
	}
	sort.Strings(names)
	for _, n := range names {
		p := filepath.Join(*out, n)
		if err := os.WriteFile(p, []byte(files[n]), 0o644); err != nil {
			fatal(err)
		}
	}
	fmt.Printf("translator: %d handlers, %d ticket msgs, %d macc perms, %d ndsites, %d genesis modules; analysis %.2fs; total %.1fs; wrote %s/{%s}\n",
		len(hs), len(tmsgs), len(perms.maccPerms), len(sites), len(gmods), tAn.Seconds(), time.Since(t0).Seconds(), *out, strings.Join(names, ","))
	if *verbose {
		printSummary(hs, tmsgs, perms, sites)
		printGenesisSummary(gmods)
		fmt.Println("== calls reached from handlers that were NOT followed")
		for _, u := range w.unresolved {
			fmt.Println("  " + u)
		}
	}
}

// outDir is set once flags are parsed; on a fatal error the (possibly stale)
// tables of a previous run are removed so that no theorem can be checked
// against tables that do not correspond to the current sources.
var outDir string

func fatal(err error) {
	fmt.Fprintln(os.Stderr, "translator: error:", err)
	if outDir != "" {
		for _, n := range []string{"handlers.v", "perms.v", "nondet.v", "genesis.v", "kernels.v"} {
			os.Remove(filepath.Join(outDir, n))
		}
		fmt.Fprintln(os.Stderr, "translator: removed stale tables from", outDir)
	}
	os.Exit(1)
}

func load(repo string) (*world, error) {
	fset := token.NewFileSet()
	env := os.Environ()
	env = append(env, "GOFLAGS=-mod=mod", "GOPROXY=off", "GOSUMDB=off", "GOTOOLCHAIN=local")
	cfg := &packages.Config{
		Mode: packages.NeedName | packages.NeedFiles | packages.NeedCompiledGoFiles | packages.NeedImports |
			packages.NeedDeps | packages.NeedTypes | packages.NeedSyntax | packages.NeedTypesInfo | packages.NeedTypesSizes,
		Dir:   repo,
		Fset:  fset,
		Env:   env,
		Tests: false,
	}
	pkgs, err := packages.Load(cfg, "./x/...", "./app/...", "./utils/...", "./types/...")
	if err != nil {
		return nil, fmt.Errorf("packages.Load: %w", err)
	}
	if len(pkgs) == 0 {
		return nil, fmt.Errorf("packages.Load returned no packages for %s", repo)
	}
	w := &world{
		repo:  repo,
		fset:  fset,
		all:   map[string]*packages.Package{},
		decls: map[*types.Func]*funcDecl{},
		impls: map[*types.Func][]*types.Func{},
	}
	nerr := 0
	packages.Visit(pkgs, nil, func(p *packages.Package) {
		w.all[p.PkgPath] = p
		if isRepoPath(p.PkgPath) {
			for _, e := range p.Errors {
				nerr++
				fmt.Fprintf(os.Stderr, "translator: load error in %s: %v\n", p.PkgPath, e)
			}
		}
	})
	if nerr > 0 {
		return nil, fmt.Errorf("%d load/type errors in repo packages (does the tree compile?)", nerr)
	}
	// Roots plus every repo package reachable from them (e.g. app/params).
	var repoPkgs []*packages.Package
	for _, p := range w.all {
		if isRepoPath(p.PkgPath) {
			repoPkgs = append(repoPkgs, p)
		}
	}
	sort.Slice(repoPkgs, func(i, j int) bool { return repoPkgs[i].PkgPath < repoPkgs[j].PkgPath })
	w.pkgs = repoPkgs

	for _, p := range repoPkgs {
		if p.TypesInfo == nil || p.Types == nil {
			return nil, fmt.Errorf("package %s has no type information", p.PkgPath)
		}
		for _, f := range p.Syntax {
			for _, d := range f.Decls {
				fd, ok := d.(*ast.FuncDecl)
				if !ok || fd.Body == nil {
					continue
				}
				if fn, ok := p.TypesInfo.Defs[fd.Name].(*types.Func); ok {
					w.decls[fn] = &funcDecl{decl: fd, pkg: p}
				}
			}
		}
		sc := p.Types.Scope()
		for _, name := range sc.Names() {
			tn, ok := sc.Lookup(name).(*types.TypeName)
			if !ok || tn.IsAlias() {
				continue
			}
			nt, ok := tn.Type().(*types.Named)
			if !ok || nt.TypeParams().Len() > 0 {
				continue
			}
			if _, isIface := nt.Underlying().(*types.Interface); isIface {
				continue
			}
			w.repoNamed = append(w.repoNamed, nt)
		}
	}

	if sp := w.all["github.com/cosmos/cosmos-sdk/store/types"]; sp != nil && sp.Types != nil {
		if o := sp.Types.Scope().Lookup("KVStore"); o != nil {
			if it, ok := o.Type().Underlying().(*types.Interface); ok {
				w.kvStoreIface = it
			}
		}
	}
	if w.kvStoreIface == nil {
		return nil, fmt.Errorf("could not find github.com/cosmos/cosmos-sdk/store/types.KVStore in the loaded dependency graph")
	}
	return w, nil
}

func isRepoPath(p string) bool {
	return p == repoModule || strings.HasPrefix(p, repoModule+"/")
}

// relFile returns the path of the file containing pos, relative to the repo.
func (w *world) relFile(pos token.Pos) string {
	f := w.fset.Position(pos).Filename
	if r, err := filepath.EvalSymlinks(f); err == nil {
		f = r
	}
	rel, err := filepath.Rel(w.repo, f)
	if err != nil {
		return f
	}
	return filepath.ToSlash(rel)
}

func isGenerated(name string) bool {
	return strings.HasSuffix(name, ".pb.go") || strings.HasSuffix(name, ".pb.gw.go")
}

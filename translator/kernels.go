// kernels.go — translation of a whitelist of small pure Go methods (integer / LegacyDec arithmetic on struct fields, guards, early
// returns) into Gallina functions (Gen/kernels.v).  The Coq development proves each generated function equal to the corresponding
// function of the hand-written model (Proofs/GenKernels.v), so a change of one of these methods in /repo changes the generated
// definition and breaks that proof obligation, whatever the generated histories happen to exercise.
//
// Supported subset (anything else makes the function "untranslatable", which also breaks the proof obligation):
//
//	types       sdkmath.Int, sdkmath.LegacyDec, Go integers  -> Z;  bool -> bool;  string and enum values -> Z (compared only);
//	            slices only through len(x.F) (the record carries the length);  pointers / values of whitelisted structs -> records
//	statements  if / else, tagless and tagged switch (no fallthrough), return, := and = on locals, assignment to receiver fields,
//	            var declarations, x++ / x--, calls of whitelisted mutating methods as statements
//	expressions field selection, the Int / LegacyDec methods listed in intMethods / decMethods, a few sdkmath constructors,
//	            integer arithmetic and comparisons, && || !, calls of whitelisted methods, package constants and package variables
//	            initialised by a translatable expression
//
// Conventions: an `error` result becomes option (None = error); a method assigning to its receiver returns the new receiver record;
// Int.IsNil() is `false` (values read back from the store are never nil); integer conversions are the identity.
package main

import (
	"fmt"
	"go/ast"
	"go/constant"
	"go/token"
	"go/types"
	"math/big"
	"sort"
	"strconv"
	"strings"

	"golang.org/x/tools/go/packages"
)

type kernelSpec struct{ pkg, recv, name string }

var kernelList = []kernelSpec{
	{"x/subaccount/types", "AccountSummary", "Available"},
	{"x/subaccount/types", "AccountSummary", "Spend"},
	{"x/subaccount/types", "AccountSummary", "Unspend"},
	{"x/subaccount/types", "AccountSummary", "AddLoss"},
	{"x/subaccount/types", "AccountSummary", "Withdraw"},
	{"x/subaccount/types", "AccountSummary", "WithdrawableUnlockedBalance"},
	{"x/subaccount/types", "AccountSummary", "WithdrawableBalance"},
	{"x/subaccount/types", "SubAccWagerTicketPayload", "Validate"},
	{"x/orderbook/types", "ParticipationExposure", "CalculateMaxLoss"},
	{"x/orderbook/types", "ParticipationExposure", "SetCurrentRound"},
	{"x/orderbook/types", "OrderBookParticipation", "CalculateMaxLoss"},
	{"x/orderbook/types", "OrderBookParticipation", "maxWithdrawalAmount"},
	{"x/orderbook/types", "OrderBookParticipation", "IsLiquidityInCurrentRound"},
	{"x/orderbook/types", "OrderBookParticipation", "WithdrawableAmount"},
	{"x/orderbook/types", "OrderBookParticipation", "SetLiquidityAfterWithdrawal"},
	{"x/orderbook/types", "OrderBookParticipation", "NotParticipatedInBetFulfillment"},
	{"x/orderbook/types", "OrderBookParticipation", "IsEligibleForNextRound"},
	{"x/orderbook/types", "OrderBookParticipation", "IsEligibleForNextRoundPreLiquidityReduction"},
	{"x/orderbook/types", "OrderBookParticipation", "TrimCurrentRoundLiquidity"},
	{"x/orderbook/types", "OrderBookParticipation", "ResetForNextRound"},
	{"x/orderbook/types", "OrderBookParticipation", "setMaxLoss"},
	{"x/orderbook/types", "OrderBookParticipation", "SetCurrentRound"},
	{"x/ovm/types", "KeyVault", "MajorityCount"},
	{"x/ovm/types", "PublicKeysChangeProposal", "IsExpired"},
	{"x/reward/types", "Pool", "AvailableAmount"},
	{"x/reward/types", "Pool", "CheckBalance"},
	{"x/reward/types", "Pool", "Spend"},
	{"x/reward/types", "Pool", "TopUp"},
	{"x/reward/types", "Pool", "Withdraw"},
	{"x/house/types", "Deposit", "CalcHouseParticipationFeeAmount"},
	{"x/bet/types", "", "CalculateDecimalPayout"},
	{"x/bet/types", "", "CalculateDecimalBetAmount"},
	{"x/bet/types", "", "calculatePayout"},
	{"x/bet/types", "", "CalculatePayoutProfit"},
	{"x/bet/types", "", "calculateBetAmount"},
	{"x/bet/types", "", "CalculateBetAmount"},
	{"x/bet/types", "", "CalculateBetAmountInt"},
	{"x/mint/types", "Minter", "NextPhaseProvisions"},
	{"x/market/types", "Market", "isActiveOrInactive"},
	{"x/market/types", "Market", "IsResolved"},
	{"x/market/types", "Market", "IsUpdateAllowed"},
	{"x/market/types", "Market", "IsResolveAllowed"},
	{"x/bet/types", "Bet", "CheckSettlementEligiblity"},
	{"x/subaccount/types", "LockedBalance", "Validate"},
	{"x/orderbook/types", "OrderBookParticipation", "ValidateWithdraw"},
	{"x/ovm/types", "PublicKeysChangeProposal", "DecideResult"},
	{"x/bet/types", "Bet", "SetResult"},
	{"x/market/types", "Market", "HasOdds"},
	{"x/market/types", "MarketResolutionTicketPayload", "ValidateWinnerOdds"},
	{"x/mint/types", "", "NonePhase"},
	{"x/mint/types", "", "EndPhase"},
	{"x/mint/types", "", "IsEndPhase"},
	{"x/mint/types", "Params", "GetPhaseAtStep"},
	{"x/mint/types", "Params", "IsEndPhaseByStep"},
	{"x/mint/types", "Params", "getPhaseBlocks"},
	{"x/mint/types", "Minter", "CurrentPhase"},
	{"x/mint/types", "Minter", "BlockProvisions"},
	{"x/mint/types", "Minter", "AnnualProvisions"},
	{"x/mint/types", "", "validateBlocksPerYear"},
	{"x/mint/types", "", "validatePhases"},
	{"x/mint/types", "", "validateExcludeAmount"},
	{"x/mint/types", "Params", "Validate"},
	{"x/bet/types", "", "validateBatchSettlementCount"},
	{"x/bet/types", "", "validateMaxBetByUIDQueryCount"},
	{"x/bet/types", "", "validateConstraints"},
	{"x/bet/types", "Params", "Validate"},
	{"x/orderbook/types", "", "validateMaxOrderBookParticipations"},
	{"x/orderbook/types", "", "validateBatchSettlementCount"},
	{"x/orderbook/types", "", "validateRequeueThreshold"},
	{"x/orderbook/types", "Params", "Validate"},
	{"x/house/types", "", "validateMinimumDeposit"},
	{"x/house/types", "", "validateHouseParticipationFee"},
	{"x/house/types", "", "validateMaxWithdrawalCount"},
	{"x/house/types", "Params", "Validate"},
	{"x/market/types", "", "validateMarketTS"},
	{"x/market/types", "MarketUpdateTicketPayload", "Validate"},
	{"x/market/types", "MarketResolutionTicketPayload", "Validate"},
	{"x/subaccount/keeper", "", "sumLockedBalance"},
	{"x/reward/types", "Campaign", "CheckTS"},
	{"utils", "", "PopStrAtIndex"},
	{"x/ovm/types", "ProposalVotePayload", "Validate"},
	{"x/ovm/types", "", "NewVote"},
	{"x/ovm/types", "KeyVault", "SetLeader"},
	{"x/house/types", "", "NewWithdrawal"},
}

// structs that only occur as parameters
// functions taken to succeed: what they check is not modelled (denomination strings)
// (*MsgWager).ValidateBasic at the end of the subaccount wager payload's Validate re-checks the inner message, which the handler has
// already passed through PrepareBetObject (model: wager_prepare, tied by the correspondence runs)
var assumeOK = []kernelSpec{{"x/mint/types", "", "validateMintDenom"}, {"x/bet/types", "MsgWager", "ValidateBasic"}}

var extraStructs = []kernelSpec{{"x/ovm/types", "ProposalVotePayload", ""}, {"x/ovm/types", "MsgVotePubkeysChangeRequest", ""}, {"x/bet/types", "Constraints", ""}, {"x/ovm/types", "PubkeysChangeProposalPayload", ""}, {"x/mint/types", "Phase", ""}, {"x/ovm/types", "Vote", ""}, {"x/market/types", "Odds", ""}, {"x/bet/types", "BetFulfillment", ""}, {"x/bet/types", "UID2ID", ""}, {"x/house/types", "Withdrawal", ""}}

// A stateful kernel: a function that reads and writes module state through a keeper.  The state it touches is a record (emitted as
// S_<name>) and every keeper / context method it may call is mapped to an operation on that record; anything else fails the translation.
type stateOp struct {
	// "get": the field; "gets": the tuple of the fields; "set": field := last argument; "add": every field += last argument (infallible,
	// returns nil); "nop"; "move": field[0] -= last argument, field[1] += last argument, an error when field[0] is smaller (bank SendCoins)
	kind  string
	field []string
	args  []string // "move": the names the address arguments must have in the source (from, to); "find": the source text of the key argument
}
type stateField struct{ name, typ string } // typ: a Gallina type ("Z", "G_Minter", ...)
type statefulSpec struct {
	recv       string // "" for a function; "Keeper" for a keeper method
	pkg, name  string // function
	state      string // Gallina record name suffix
	fields     []stateField
	keeperPkg  string             // package path (relative) of the Keeper type
	ops        map[string]stateOp // keeper method -> operation
	ctxTime    string             // the field holding the block time (sdk.Context used as a value means this field)
	keeperTyp  string             // name of the keeper-side receiver type whose methods are the operations ("Keeper" by default)
	returns    string             // "" | "value": the function returns a value besides (or instead of) an error; the translation pairs it with the state
	ctxOps     map[string]stateOp // sdk.Context method -> operation
	outParam   string             // a pointer parameter the function assigns through: its final value is returned next to the state
	panics     bool               // the function returns nothing and panics on failure: the translation returns None for a panic
	idParams   []string           // string parameters that are identifiers (kept, as integers); every other string parameter is free text
	addrParams bool               // sdk.AccAddress parameters are kept (as account ids) instead of being matched by name
}

var mktOps = map[string]stateOp{
	// "ticket": an error unless TicketOK; on success the variable passed by address holds the payload field of its type
	"ovmKeeper.VerifyTicketUnmarshal": {kind: "ticket", field: []string{"TicketOK", "UpdPayload", "ResPayload"}},
	// "find": the market stored under the payload's uid (the argument must be spelled as listed) and whether it exists
	"Keeper.GetMarket":              {kind: "find", field: []string{"Market", "Found"}, args: []string{"updatePayload.GetUID()", "resolutionPayload.UID"}},
	"GetMarket":                     {kind: "find", field: []string{"Market", "Found"}, args: []string{"updatePayload.GetUID()", "resolutionPayload.UID"}},
	"Keeper.SetMarket":              {kind: "set", field: []string{"Market"}},
	"SetMarket":                     {kind: "set", field: []string{"Market"}},
	"appendUnsettledResolvedMarket": {kind: "append", field: []string{"Queue"}},
	"Keeper.Resolve":                {kind: "call", field: []string{"K_mkt_Resolve"}},
}
var mktFields = []stateField{{"TicketOK", "bool"}, {"UpdPayload", "G_MarketUpdateTicketPayload"}, {"ResPayload", "G_MarketResolutionTicketPayload"},
	{"Found", "bool"}, {"Market", "G_Market"}, {"Queue", "list Z"}, {"Now", "Z"}}

var ovmOps = map[string]stateOp{
	"GetAllPubkeysChangeProposalsByStatus": {kind: "getok", field: []string{"Active"}, args: []string{"types.ProposalStatus_PROPOSAL_STATUS_ACTIVE"}},
	"GetKeyVault":                          {kind: "find", field: []string{"Vault", "VaultFound"}, args: []string{""}},
	"SetKeyVault":                          {kind: "set", field: []string{"Vault"}},
	"GetPubkeysChangeProposal":             {kind: "findk", field: []string{"Active", "Id"}, args: []string{"types.ProposalStatus_PROPOSAL_STATUS_ACTIVE"}},
	"RemoveProposal":                       {kind: "removek", field: []string{"Active", "Id"}, args: []string{"types.ProposalStatus_PROPOSAL_STATUS_ACTIVE"}},
	"SetPubkeysChangeProposal":             {kind: "append", field: []string{"Finished"}},
	"finishPubkeysChangeProposal":          {kind: "callerr", field: []string{"K_ovm_finishPubkeysChangeProposal"}},
}
var ovmFields = []stateField{{"Active", "list G_PublicKeysChangeProposal"}, {"Finished", "list G_PublicKeysChangeProposal"}, {"Vault", "G_KeyVault"},
	{"VaultFound", "bool"}, {"Now", "Z"}}

var subtopOps = map[string]stateOp{
	"GetSubaccountByOwner":  {kind: "exists", field: []string{"Exists"}},
	"GetAccountSummary":     {kind: "find", field: []string{"Summary", "SummaryExists"}, args: []string{"subAccAddr"}},
	"HasLockedBalances":     {kind: "hask", field: []string{"Locks", "UnlockTS"}},
	"SetAccountSummary":     {kind: "set", field: []string{"Summary"}},
	"SetLockedBalances":     {kind: "upsertall", field: []string{"Locks", "UnlockTS"}},
	"sendCoinsToSubaccount": {kind: "move", field: []string{"CreatorBal", "SubBal"}, args: []string{"creatorAddr", "subAccAddr"}},
}

// settleParticipation: payments and hook calls are EMITTED as effects (kind, a, b, c) in the order the code makes them: a payment
// (0, from, to, amount) out of the module account the funder literal names, a hook (1 win / 2 loss / 3 refund / 4 fee refund, account, x, y).
// Whether a payment can be made is decided where the effects are applied (as in the model); here it cannot fail.
var settleOps = map[string]stateOp{
	"refund":                       {kind: "emitpay", field: []string{"Effects"}, args: []string{"OrderBookLiquidityFunder=-1", "HouseFeeCollectorFunder=-3", "BetFeeCollectorFunder=-2"}},
	"hooks.AfterHouseWin":          {kind: "emithook", field: []string{"Effects", "1"}},
	"hooks.AfterHouseLoss":         {kind: "emithook", field: []string{"Effects", "2"}},
	"hooks.AfterHouseRefund":       {kind: "emithook", field: []string{"Effects", "3"}},
	"hooks.AfterHouseFeeRefund":    {kind: "emithook", field: []string{"Effects", "4"}},
	"SetOrderBookParticipation":    {kind: "upsert", field: []string{"Parts", "Index"}},
	"GetParticipationsOfOrderBook": {kind: "getok", field: []string{"Parts"}, args: []string{"orderBookUID"}},
	"settleParticipation":          {kind: "callerr", field: []string{"K_settle_settleParticipation"}},
	"GetOrderBookParticipation":    {kind: "findk", field: []string{"Parts", "Index"}, args: []string{"orderBookUID"}},
}

// the vote handler: the ticket verifies under exactly one key (TicketKey, when TicketOK) and then carries VotePayload
var voteOps = map[string]stateOp{
	"GetKeyVault":                  {kind: "find", field: []string{"Vault", "VaultFound"}, args: []string{""}},
	"verifyTicketWithKeyUnmarshal": {kind: "ticketkey", field: []string{"TicketOK", "TicketKey"}},
	"GetPubkeysChangeProposal":     {kind: "findk", field: []string{"Active", "Id"}, args: []string{"types.ProposalStatus_PROPOSAL_STATUS_ACTIVE"}},
	"SetPubkeysChangeProposal":     {kind: "upsert", field: []string{"Active", "Id"}},
}

var bsetOps = map[string]stateOp{
	"GetBetID":                       {kind: "find", field: []string{"Uid2ID", "Uid2IDFound"}, args: []string{"betUID"}},
	"GetBet":                         {kind: "find", field: []string{"Bet", "BetFound"}, args: []string{"uid2ID.ID"}},
	"marketKeeper.GetMarket":         {kind: "find", field: []string{"Market", "MarketFound"}, args: []string{"bet.MarketUID"}},
	"orderbookKeeper.RefundBettor":   {kind: "callerr", field: []string{"K_settle_RefundBettor"}, args: []string{"Ob"}},
	"orderbookKeeper.WithdrawBetFee": {kind: "callerr", field: []string{"K_settle_WithdrawBetFee"}, args: []string{"Ob"}},
	"settleResolved":                 {kind: "callerr", field: []string{"K_settle_settleResolved"}, args: []string{"Ob", "bet"}},
	"updateSettlementState":          {kind: "callst", field: []string{"K_bset_updateSettlementState"}},
	"SetBet":                         {kind: "setarg", field: []string{"Bet", "0"}},
	"RemovePendingBet":               {kind: "removez", field: []string{"Pending"}},
	"SetSettledBet":                  {kind: "appendpair", field: []string{"SettledIx"}},
}

var subhookOps = map[string]stateOp{
	"GetAccountSummary":    {kind: "find", field: []string{"Summary", "Exists"}, args: []string{"house"}},
	"SetAccountSummary":    {kind: "set", field: []string{"Summary"}},
	"GetSubaccountOwner":   {kind: "exists", field: []string{"OwnerFound"}},
	"bankKeeper.SendCoins": {kind: "move", field: []string{"SubBal", "OwnerBal"}, args: []string{"house", "subAccountOwner"}},
}

var statefulList = []statefulSpec{{
	// the market a wager is placed on: found, active, not past its end time (a read-only function: the result is the market or an error)
	recv: "Keeper", pkg: "x/bet/keeper", name: "getMarket", state: "betmkt", keeperPkg: "x/bet/keeper", ctxTime: "Now", returns: "value",
	ops:    map[string]stateOp{"marketKeeper.GetMarket": {kind: "find", field: []string{"Market", "Found"}, args: []string{"marketID"}}},
	fields: []stateField{{"Market", "G_Market"}, {"Found", "bool"}, {"Now", "Z"}},
}, {
	recv: "msgServer", pkg: "x/ovm/keeper", name: "VotePubkeysChange", state: "vote", keeperPkg: "x/ovm/keeper", ops: voteOps, keeperTyp: "msgServer",
	fields: []stateField{{"TicketOK", "bool"}, {"TicketKey", "Z"}, {"VotePayload", "G_ProposalVotePayload"}, {"Vault", "G_KeyVault"}, {"VaultFound", "bool"},
		{"Active", "list G_PublicKeysChangeProposal"}},
}, {
	recv: "Keeper", pkg: "x/orderbook/keeper", name: "settleParticipation", state: "settle", keeperPkg: "x/orderbook/keeper", ops: settleOps,
	fields: []stateField{{"Effects", "list (Z * Z * Z * Z)"}, {"Parts", "list G_OrderBookParticipation"}},
}, {
	recv: "Keeper", pkg: "x/orderbook/keeper", name: "batchSettlementOfParticipation", state: "settle", keeperPkg: "x/orderbook/keeper", ops: settleOps,
}, {
	// bet_settle.go: what a settled bet pays (the parts of a won bet out of the pool, stake and fee of a refunded one) and what it books on
	// the participations that backed it
	recv: "Keeper", pkg: "x/orderbook/keeper", name: "RefundBettor", state: "settle", keeperPkg: "x/orderbook/keeper", ops: settleOps, addrParams: true,
}, {
	recv: "Keeper", pkg: "x/orderbook/keeper", name: "BettorWins", state: "settle", keeperPkg: "x/orderbook/keeper", ops: settleOps, addrParams: true,
}, {
	recv: "Keeper", pkg: "x/orderbook/keeper", name: "BettorLoses", state: "settle", keeperPkg: "x/orderbook/keeper", ops: settleOps,
}, {
	recv: "Keeper", pkg: "x/orderbook/keeper", name: "WithdrawBetFee", state: "settle", keeperPkg: "x/orderbook/keeper", ops: settleOps, addrParams: true,
}, {
	// x/bet/keeper/settle.go: the side of a resolved bet decides which of the two is called
	recv: "Keeper", pkg: "x/bet/keeper", name: "settleResolved", state: "settle", keeperPkg: "x/bet/keeper", outParam: "bet",
	ops: map[string]stateOp{"orderbookKeeper.BettorLoses": {kind: "callerr", field: []string{"K_settle_BettorLoses"}},
		"orderbookKeeper.BettorWins": {kind: "callerr", field: []string{"K_settle_BettorWins"}}},
}, {
	// x/bet/keeper/settle.go Settle: one bet, from its uid to the payments, the participation updates and the bet / pending / settled records.
	// The state: the order-book side (effects + participations), the uid index entry and the bet and market stored under the keys the
	// function asks for, the pending bets of the market, the settled index additions, the block height
	recv: "Keeper", pkg: "x/bet/keeper", name: "updateSettlementState", state: "bset", keeperPkg: "x/bet/keeper", ops: bsetOps,
	ctxOps: map[string]stateOp{"BlockHeight": {kind: "get", field: []string{"Height"}}},
	fields: []stateField{{"Ob", "S_settle"}, {"Uid2ID", "G_UID2ID"}, {"Uid2IDFound", "bool"}, {"Bet", "G_Bet"}, {"BetFound", "bool"},
		{"Market", "G_Market"}, {"MarketFound", "bool"}, {"Height", "Z"}, {"Pending", "list Z"}, {"SettledIx", "list (Z * Z)"}},
}, {
	recv: "Keeper", pkg: "x/bet/keeper", name: "Settle", state: "bset", keeperPkg: "x/bet/keeper", ops: bsetOps, idParams: []string{"bettorAddressStr", "betUID"},
	ctxOps: map[string]stateOp{"BlockHeight": {kind: "get", field: []string{"Height"}}},
}, {
	// x/orderbook/keeper/participation.go CalcWithdrawalAmount: what a house withdrawal may take (a read-only function: the amount or an error).
	// State: the participations of the book and the exposures recorded for the participation asked about
	recv: "Keeper", pkg: "x/orderbook/keeper", name: "CalcWithdrawalAmount", state: "obwd", keeperPkg: "x/orderbook/keeper", returns: "value",
	idParams: []string{"depositorAddress"},
	ops: map[string]stateOp{"GetOrderBookParticipation": {kind: "findk", field: []string{"Parts", "Index"}, args: []string{"marketUID"}},
		"GetExposureByOrderBookAndParticipationIndex": {kind: "getok", field: []string{"PartExpos"}, args: []string{"marketUID", "participationIndex"}}},
	fields: []stateField{{"Parts", "list G_OrderBookParticipation"}, {"PartExpos", "list G_ParticipationExposure"}},
}, {
	// x/house/keeper/withdrawal.go Withdraw: the records of an executed withdrawal (the order-book side is the order-book keeper's
	// WithdrawOrderBookParticipation, represented here by its verdict only)
	recv: "Keeper", pkg: "x/house/keeper", name: "Withdraw", state: "hwd", keeperPkg: "x/house/keeper", returns: "both",
	idParams: []string{"creator", "depositorAddr", "marketUID"},
	ops: map[string]stateOp{"orderbookKeeper.WithdrawOrderBookParticipation": {kind: "oracle", field: []string{"ObOK"}},
		"SetWithdrawal": {kind: "append", field: []string{"Withdrawals"}}, "SetDeposit": {kind: "set", field: []string{"Deposit"}}},
	fields: []stateField{{"ObOK", "bool"}, {"Withdrawals", "list G_Withdrawal"}, {"Deposit", "G_Deposit"}},
}, {
	// x/subaccount/keeper/hooks.go: what the settlement of a participation books on the subaccount that made the deposit.  State: the
	// account summary stored for the address and whether there is one, whether the owner record exists, the two bank balances
	recv: "Hooks", pkg: "x/subaccount/keeper", name: "AfterHouseWin", state: "subhook", keeperPkg: "x/subaccount/keeper", ops: subhookOps, panics: true,
	fields: []stateField{{"Summary", "G_AccountSummary"}, {"Exists", "bool"}, {"OwnerFound", "bool"}, {"SubBal", "Z"}, {"OwnerBal", "Z"}},
}, {
	recv: "Hooks", pkg: "x/subaccount/keeper", name: "AfterHouseLoss", state: "subhook", keeperPkg: "x/subaccount/keeper", ops: subhookOps, panics: true,
}, {
	recv: "Hooks", pkg: "x/subaccount/keeper", name: "AfterHouseRefund", state: "subhook", keeperPkg: "x/subaccount/keeper", ops: subhookOps, panics: true,
}, {
	recv: "Hooks", pkg: "x/subaccount/keeper", name: "AfterHouseFeeRefund", state: "subhook", keeperPkg: "x/subaccount/keeper", ops: subhookOps, panics: true,
}, {
	recv: "Keeper", pkg: "x/subaccount/keeper", name: "TopUp", state: "subtop", keeperPkg: "x/subaccount/keeper", ops: subtopOps, ctxTime: "Now",
	fields: []stateField{{"Exists", "bool"}, {"Summary", "G_AccountSummary"}, {"SummaryExists", "bool"}, {"Locks", "list G_LockedBalance"},
		{"CreatorBal", "Z"}, {"SubBal", "Z"}, {"Now", "Z"}},
}, {
	recv: "Keeper", pkg: "x/ovm/keeper", name: "finishPubkeysChangeProposal", state: "ovm", fields: ovmFields, keeperPkg: "x/ovm/keeper", ops: ovmOps, ctxTime: "Now",
}, {
	recv: "Keeper", pkg: "x/ovm/keeper", name: "finishPubkeysChangeProposals", state: "ovm", keeperPkg: "x/ovm/keeper", ops: ovmOps, ctxTime: "Now",
}, {
	recv: "Keeper", pkg: "x/market/keeper", name: "Resolve", state: "mkt", fields: mktFields, keeperPkg: "x/market/keeper", ops: mktOps,
	ctxTime: "Now", returns: "value",
}, {
	recv: "msgServer", pkg: "x/market/keeper", name: "Update", state: "mkt", keeperPkg: "x/market/keeper", ops: mktOps, ctxTime: "Now", keeperTyp: "msgServer",
}, {
	recv: "msgServer", pkg: "x/market/keeper", name: "Resolve", state: "mkt", keeperPkg: "x/market/keeper", ops: mktOps, ctxTime: "Now", keeperTyp: "msgServer",
}, {
	pkg: "x/mint", name: "BeginBlocker", state: "mint",
	fields:    []stateField{{"Minter", "G_Minter"}, {"Params", "G_Params"}, {"Supply", "Z"}, {"Minted", "Z"}, {"Height", "Z"}},
	keeperPkg: "x/mint/keeper",
	ops: map[string]stateOp{
		"GetMinter": {kind: "get", field: []string{"Minter"}}, "GetParams": {kind: "get", field: []string{"Params"}},
		"TokenSupply": {kind: "get", field: []string{"Supply"}}, "SetMinter": {kind: "set", field: []string{"Minter"}},
		"MintCoins": {kind: "add", field: []string{"Supply", "Minted"}}, "AddCollectedFees": {kind: "nop"},
	},
	ctxOps: map[string]stateOp{"BlockHeight": {kind: "get", field: []string{"Height"}}},
}, {
	recv: "Keeper", pkg: "x/subaccount/keeper", name: "withdrawUnlocked", state: "subwd",
	fields:    []stateField{{"Summary", "G_AccountSummary"}, {"Unlocked", "Z"}, {"SubBal", "Z"}, {"OwnerBal", "Z"}},
	keeperPkg: "x/subaccount/keeper",
	ops: map[string]stateOp{
		"getSubaccountSummary": {kind: "gets", field: []string{"Summary", "Unlocked", "SubBal"}},
		"SetAccountSummary":    {kind: "set", field: []string{"Summary"}},
		"bankKeeper.SendCoins": {kind: "move", field: []string{"SubBal", "OwnerBal"}, args: []string{"subAccAddr", "ownerAddr"}},
	},
}, {
	recv: "Keeper", pkg: "x/subaccount/keeper", name: "withdrawLockedAndUnlocked", state: "subwd",
	keeperPkg: "x/subaccount/keeper",
	ops: map[string]stateOp{
		"getSubaccountSummary": {kind: "gets", field: []string{"Summary", "Unlocked", "SubBal"}},
		"SetAccountSummary":    {kind: "set", field: []string{"Summary"}},
		"bankKeeper.SendCoins": {kind: "move", field: []string{"SubBal", "OwnerBal"}, args: []string{"subAccAddr", "ownerAddr"}},
	},
}}

type ktrans struct {
	w       *world
	structs map[string]*types.Named // Go type name -> named struct (whitelisted receivers)
	order   []string
	spec    map[string]bool            // "Type.method" whitelisted (Go names; informational)
	gname   map[*types.TypeName]string // whitelisted struct -> its Gallina name (the Go name, prefixed by the module on a clash)
	fn      map[*types.Func]string     // whitelisted function / method -> the Gallina name of its translation
	assume  map[*types.Func]bool       // functions taken to succeed (not modelled)
	mutFn   map[*types.Func]bool       // whitelisted methods that assign to their receiver (their translation returns the new receiver)
	out     strings.Builder
	errs    []string
}

func mathType(t types.Type) string {
	if p, ok := t.(*types.Pointer); ok {
		t = p.Elem()
	}
	n, ok := t.(*types.Named)
	if !ok || n.Obj().Pkg() == nil {
		return ""
	}
	if n.Obj().Pkg().Path() == "cosmossdk.io/math" {
		switch n.Obj().Name() {
		case "Int":
			return "Int"
		case "LegacyDec":
			return "Dec"
		}
	}
	return ""
}

func (k *ktrans) structOf(t types.Type) string {
	if p, ok := t.(*types.Pointer); ok {
		t = p.Elem()
	}
	if n, ok := t.(*types.Named); ok {
		if g, ok := k.gname[n.Obj()]; ok {
			return g
		}
	}
	return ""
}

// register a struct type under a Gallina name: its Go name, or <module><Name> when another package's type has taken that name
func (k *ktrans) register(named *types.Named) string {
	if g, ok := k.gname[named.Obj()]; ok {
		return g
	}
	g := named.Obj().Name()
	if _, clash := k.structs[g]; clash {
		parts := strings.Split(strings.TrimPrefix(named.Obj().Pkg().Path(), repoModule+"/"), "/")
		mod := parts[0]
		if mod == "x" && len(parts) > 1 {
			mod = parts[1]
		}
		g = mod + g
	}
	k.gname[named.Obj()] = g
	k.structs[g] = named
	k.order = append(k.order, g)
	return g
}

// galType: "Z", "bool", "G_<T>", or "" (unsupported); lenField: the value is a slice represented by its length.
func isCoin(t types.Type) bool {
	n, ok := t.(*types.Named)
	return ok && n.Obj().Pkg() != nil && n.Obj().Pkg().Path() == "github.com/cosmos/cosmos-sdk/types" && n.Obj().Name() == "Coin"
}

// isCtx: sdk.Context, of which the translated code only reads the block time (Unix seconds)
func isCtx(t types.Type) bool {
	n, ok := t.(*types.Named)
	return ok && n.Obj().Pkg() != nil && n.Obj().Pkg().Path() == "github.com/cosmos/cosmos-sdk/types" && n.Obj().Name() == "Context"
}

// isAddr: sdk.AccAddress (only passed on to keeper operations, which are mapped by the names of these arguments)
func isAddr(t types.Type) bool {
	n, ok := t.(*types.Named)
	return ok && n.Obj().Pkg() != nil && n.Obj().Pkg().Path() == "github.com/cosmos/cosmos-sdk/types" && n.Obj().Name() == "AccAddress"
}

func isBigInt(t types.Type) bool {
	if p, ok := t.(*types.Pointer); ok {
		t = p.Elem()
	}
	n, ok := t.(*types.Named)
	return ok && n.Obj().Pkg() != nil && n.Obj().Pkg().Path() == "math/big" && n.Obj().Name() == "Int"
}

func (k *ktrans) galType(t types.Type) (string, bool) {
	if mathType(t) != "" || isCoin(t) || isBigInt(t) || isCtx(t) {
		return "Z", false
	}
	if s := k.structOf(t); s != "" {
		return "G_" + s, false
	}
	switch u := t.Underlying().(type) {
	case *types.Basic:
		switch {
		case u.Info()&types.IsInteger != 0:
			return "Z", false
		case u.Info()&types.IsBoolean != 0:
			return "bool", false
		case u.Info()&types.IsString != 0:
			return "Z", false
		}
	case *types.Slice:
		if et := k.elemType(u.Elem()); et != "" {
			return "list " + et, false
		}
		return "Z", true
	}
	return "", false
}

// elemType: Gallina type of the elements of a slice that is represented as a list ("" = represent the slice by its length only)
func (k *ktrans) elemType(t types.Type) string {
	if s := k.structOf(t); s != "" {
		return "G_" + s
	}
	if mathType(t) != "" {
		return "Z"
	}
	if b, ok := t.Underlying().(*types.Basic); ok && (b.Info()&types.IsInteger != 0 || b.Info()&types.IsString != 0) {
		return "Z"
	}
	return ""
}

func ident(s string) string { return "g_" + s }

type fctx struct {
	k        *ktrans
	info     *types.Info
	pkg      *packages.Package
	recvName string // Go name of the receiver variable
	recvType string // whitelisted struct name
	mutating bool
	results  string // "none" | "err" | "val" | "valerr" | "bool"
	bad      string
	loop     []string        // inside a range loop: the tuple of variables carried by the fold (innermost last)
	state    *statefulSpec   // stateful kernel: the state record is the "receiver" g_st
	nilErr   map[string]bool // error variables known to be nil (result of an infallible state operation)
	nonNil   map[string]bool // error variables known to be non-nil (the failing branch of a fallible state operation)
	stFields []stateField    // the fields of the state record of this stateful kernel
	dropVars map[string]bool // string parameters of a stateful kernel: free text that is not modelled (result messages)
}

// stateCall: a keeper / context method of a stateful kernel; returns (expression, statement-effect, ok)
func (c *fctx) stateOpOf(f *ast.SelectorExpr) (stateOp, bool) {
	if c.state == nil {
		return stateOp{}, false
	}
	t := c.info.TypeOf(f.X)
	if isCtx(t) {
		op, ok := c.state.ctxOps[f.Sel.Name]
		return op, ok
	}
	isKeeper := func(t types.Type) bool {
		if p, ok := t.(*types.Pointer); ok {
			t = p.Elem()
		}
		n, ok := t.(*types.Named)
		return ok && (n.Obj().Name() == "Keeper" || n.Obj().Name() == c.state.keeperTyp) && n.Obj().Pkg() != nil && n.Obj().Pkg().Path() == repoModule+"/"+c.state.keeperPkg
	}
	if inner, ok := f.X.(*ast.SelectorExpr); ok && isKeeper(c.info.TypeOf(inner.X)) {
		if op, ok := c.state.ops[inner.Sel.Name+"."+f.Sel.Name]; ok {
			return op, ok
		}
	}
	if isKeeper(t) {
		op, ok := c.state.ops[f.Sel.Name]
		return op, ok
	}
	if inner, ok := f.X.(*ast.SelectorExpr); ok && isKeeper(c.info.TypeOf(inner.X)) {
		op, ok := c.state.ops[inner.Sel.Name+"."+f.Sel.Name]
		return op, ok
	}
	return stateOp{}, false
}

// callerrPat: what a successful call of another stateful kernel binds: the state, and the out variable if the callee has one
func callerrPat(op stateOp) string {
	if len(op.args) > 1 && op.args[1] != "" {
		return fmt.Sprintf("(g_st, %s)", ident(op.args[1]))
	}
	return "g_st"
}

// withErr: translate a continuation knowing that the error variable `name` is nil (isNil) or non-nil; earlier knowledge about the same
// variable (it is reused for several calls in a row) is suspended meanwhile and restored afterwards
func (c *fctx) withErr(name string, isNil bool, f func() string) string {
	if c.nilErr == nil {
		c.nilErr = map[string]bool{}
	}
	if c.nonNil == nil {
		c.nonNil = map[string]bool{}
	}
	oldNil, oldNon := c.nilErr[name], c.nonNil[name]
	c.nilErr[name], c.nonNil[name] = isNil, !isNil
	r := f()
	c.nilErr[name], c.nonNil[name] = oldNil, oldNon
	return r
}

// stateArgs: the non-context arguments of a state operation; for "move" the address arguments must be the named variables
func (c *fctx) stateArgs(op stateOp, call *ast.CallExpr) []string {
	var args []string
	var names []string
	callArgs := call.Args
	if op.kind == "appendpair" && len(callArgs) > 2 {
		callArgs = callArgs[len(callArgs)-2:]
	}
	for _, a := range callArgs {
		if isCtx(c.info.TypeOf(a)) {
			continue
		}
		if gt, _ := c.k.galType(c.info.TypeOf(a)); gt == "" || isAddr(c.info.TypeOf(a)) {
			if id, ok := a.(*ast.Ident); ok {
				names = append(names, id.Name)
			} else {
				names = append(names, "?")
			}
			continue
		}
		args = append(args, c.expr(a))
	}
	if op.kind == "removek" {
		c.checkConstArgs(op, call)
	}
	if op.kind == "move" && strings.Join(names, ",") != strings.Join(op.args, ",") {
		c.fail("state operation called with (%s), expected (%s)", strings.Join(names, ","), strings.Join(op.args, ","))
	}
	return args
}

// ticketOp: VerifyTicketUnmarshal(goCtx, ticket, &v): an error unless the ticket verifies; then v holds the payload of its type
func (c *fctx) ticketOp(op stateOp, call *ast.CallExpr, okB func() string, errB string) string {
	S := "S_" + c.state.state
	if len(call.Args) != 3 {
		return c.fail("ticket operation with %d arguments", len(call.Args))
	}
	u, ok := call.Args[2].(*ast.UnaryExpr)
	if !ok || u.Op != token.AND {
		return c.fail("ticket operation: third argument is not an address")
	}
	v, ok := u.X.(*ast.Ident)
	if !ok {
		return c.fail("ticket operation: third argument is not a variable")
	}
	want := "G_" + c.k.structOf(c.info.TypeOf(v))
	field := ""
	for _, f := range c.stFields {
		if f.typ == want {
			field = f.name
		}
	}
	if field == "" {
		return c.fail("ticket operation: no payload field of type %s in the state", want)
	}
	return fmt.Sprintf("(if negb (%s_%s g_st) then %s else let %s := %s_%s g_st in\n  %s)", S, op.field[0], errB, ident(v.Name), S, field, okB())
}

func isString(t types.Type) bool {
	if t == nil {
		return false
	}
	b, ok := t.Underlying().(*types.Basic)
	return ok && b.Info()&types.IsString != 0
}

// freeText: a string that is a message, not an identifier: a formatted string or a dropped string parameter
func (c *fctx) freeText(a ast.Expr) bool {
	switch x := a.(type) {
	case *ast.CallExpr:
		if s, ok := x.Fun.(*ast.SelectorExpr); ok {
			if id, ok := s.X.(*ast.Ident); ok {
				if pn, ok := c.info.Uses[id].(*types.PkgName); ok && pn.Imported().Path() == "fmt" {
					return true
				}
			}
		}
	case *ast.Ident:
		return c.dropVars[x.Name]
	}
	return false
}

// plainArgs: the arguments of a call of another stateful kernel: no context, no free text
func (c *fctx) plainArgs(e *ast.CallExpr) []string {
	var as []string
	for _, a := range e.Args {
		if isCtx(c.info.TypeOf(a)) {
			continue
		}
		if isString(c.info.TypeOf(a)) { // a stateful kernel has no string parameters (ids select the state it is given, the rest is free text)
			continue
		}
		as = append(as, c.expr(a))
	}
	return as
}

// checkConstArgs: every argument but the context and the last one must be spelled as the operation's spec lists (a store prefix constant)
func (c *fctx) checkConstArgs(op stateOp, e *ast.CallExpr) {
	var got []string
	for _, a := range e.Args {
		if isCtx(c.info.TypeOf(a)) {
			continue
		}
		got = append(got, types.ExprString(a))
	}
	if op.kind != "getok" && len(got) > 0 {
		got = got[:len(got)-1]
	}
	if strings.Join(got, ",") != strings.Join(op.args, ",") {
		c.fail("state operation called with (%s), expected (%s)", strings.Join(got, ","), strings.Join(op.args, ","))
	}
}

// findOp: v, found := k.Get(ctx, key): the record of the state and whether it exists; the key must be spelled as the spec lists
func (c *fctx) findOp(op stateOp, call *ast.CallExpr) string {
	S := "S_" + c.state.state
	key := ""
	for _, a := range call.Args {
		if !isCtx(c.info.TypeOf(a)) {
			key = types.ExprString(a)
		}
	}
	okKey := false
	for _, k := range op.args {
		if k == key {
			okKey = true
		}
	}
	if !okKey {
		c.fail("lookup under the key %s, expected one of %v", key, op.args)
	}
	return fmt.Sprintf("(%s_%s g_st, %s_%s g_st)", S, op.field[0], S, op.field[1])
}

// emitOp: append the effect of a payment or of a hook call to the effect log
func (c *fctx) emitOp(op stateOp, call *ast.CallExpr, rest string) string {
	S := "S_" + c.state.state
	var vals []string
	switch op.kind {
	case "emitpay":
		if len(call.Args) != 4 {
			return c.fail("payment with %d arguments", len(call.Args))
		}
		src := ""
		if cl, ok := call.Args[0].(*ast.CompositeLit); ok {
			name := types.ExprString(cl.Type)
			if i := strings.LastIndex(name, "."); i >= 0 {
				name = name[i+1:]
			}
			for _, a := range op.args {
				if kv := strings.SplitN(a, "=", 2); kv[0] == name {
					src = "(" + kv[1] + ")"
				}
			}
		}
		if src == "" {
			return c.fail("payment out of an unknown module account: %s", types.ExprString(call.Args[0]))
		}
		vals = []string{"0", src, c.expr(call.Args[2]), c.expr(call.Args[3])}
	case "emithook":
		vals = []string{op.field[1]}
		for _, a := range call.Args {
			if !isCtx(c.info.TypeOf(a)) {
				vals = append(vals, c.expr(a))
			}
		}
		for len(vals) < 4 {
			vals = append(vals, "0")
		}
	}
	return fmt.Sprintf("let g_st := set_%s_%s g_st (%s_%s g_st ++ [(%s)]) in\n  %s", S, op.field[0], S, op.field[0], strings.Join(vals, ", "), rest)
}

// moveOp: the guarded transfer; okB / errB are the continuations with the error nil / non-nil
func (c *fctx) moveOp(op stateOp, args []string, okB, errB string) string {
	S := "S_" + c.state.state
	amt := args[len(args)-1]
	return fmt.Sprintf("(if (%s_%s g_st <? %s) then %s else let g_st := set_%s_%s g_st (%s_%s g_st - %s) in\n  let g_st := set_%s_%s g_st (%s_%s g_st + %s) in\n  %s)",
		S, op.field[0], amt, errB, S, op.field[0], S, op.field[0], amt, S, op.field[1], S, op.field[1], amt, okB)
}

// applyStateOp: the let-bindings performing a set / add / nop operation, followed by rest
func (c *fctx) applyStateOp(op stateOp, args []string, rest string) string {
	S := "S_" + c.state.state
	switch op.kind {
	case "set":
		also := ""
		for _, f := range c.stFields {
			if f.name == "Found" && op.field[0] == "Market" {
				also = fmt.Sprintf("let g_st := set_%s_Found g_st true in\n  ", S)
			}
		}
		return fmt.Sprintf("let g_st := set_%s_%s g_st %s in\n  %s%s", S, op.field[0], args[len(args)-1], also, rest)
	case "add":
		out := rest
		for i := len(op.field) - 1; i >= 0; i-- {
			out = fmt.Sprintf("let g_st := set_%s_%s g_st (%s_%s g_st + %s) in\n  %s", S, op.field[i], S, op.field[i], args[len(args)-1], out)
		}
		return out
	case "nop":
		return rest
	case "upsert":
		el := ""
		for _, f := range c.stFields {
			if f.name == op.field[0] {
				el = strings.TrimPrefix(f.typ, "list ")
			}
		}
		v := args[len(args)-1]
		return fmt.Sprintf("let g_st := set_%s_%s g_st (kupd (fun g__x => %s_%s g__x =? %s_%s %s) %s (%s_%s g_st)) in\n  %s",
			S, op.field[0], el, op.field[1], el, op.field[1], v, v, S, op.field[0], rest)
	case "upsertall":
		el := ""
		for _, f := range c.stFields {
			if f.name == op.field[0] {
				el = strings.TrimPrefix(f.typ, "list ")
			}
		}
		return fmt.Sprintf("let g_st := set_%s_%s g_st (fold_left (fun g__acc g__l => kupd (fun g__x => %s_%s g__x =? %s_%s g__l) g__l g__acc) %s (%s_%s g_st)) in\n  %s",
			S, op.field[0], el, op.field[1], el, op.field[1], args[len(args)-1], S, op.field[0], rest)
	case "removek":
		el := ""
		for _, f := range c.stFields {
			if f.name == op.field[0] {
				el = strings.TrimPrefix(f.typ, "list ")
			}
		}
		return fmt.Sprintf("let g_st := set_%s_%s g_st (filter (fun g__x => negb (%s_%s g__x =? %s)) (%s_%s g_st)) in\n  %s", S, op.field[0], el, op.field[1], args[len(args)-1], S, op.field[0], rest)
	case "append":
		return fmt.Sprintf("let g_st := set_%s_%s g_st (%s_%s g_st ++ [%s]) in\n  %s", S, op.field[0], S, op.field[0], args[len(args)-1], rest)
	case "setarg": // field := the argument at the given position (SetBet(ctx, bet, id): the record, not its key)
		k, _ := strconv.Atoi(op.field[1])
		if k >= len(args) {
			return c.fail("setarg: no argument %d", k)
		}
		return fmt.Sprintf("let g_st := set_%s_%s g_st %s in\n  %s", S, op.field[0], args[k], rest)
	case "appendpair": // the last two arguments, as a pair, appended to a list field
		if len(args) < 2 {
			return c.fail("appendpair with %d arguments", len(args))
		}
		return fmt.Sprintf("let g_st := set_%s_%s g_st (%s_%s g_st ++ [(%s, %s)]) in\n  %s", S, op.field[0], S, op.field[0], args[len(args)-2], args[len(args)-1], rest)
	case "removez": // a list of integers without the last argument
		return fmt.Sprintf("let g_st := set_%s_%s g_st (filter (fun g__x => negb (g__x =? %s)) (%s_%s g_st)) in\n  %s", S, op.field[0], args[len(args)-1], S, op.field[0], rest)
	case "callst": // another stateful kernel that returns nothing
		return fmt.Sprintf("let g_st := %s g_st %s in\n  %s", op.field[0], strings.Join(args, " "), rest)
	}
	return c.fail("state operation %s used as a statement", op.kind)
}

func (c *fctx) fail(format string, a ...any) string {
	if c.bad == "" {
		c.bad = fmt.Sprintf(format, a...)
	}
	return "UNTRANSLATABLE"
}

var intCmp = map[string]string{"GT": "(%[2]s <? %[1]s)", "GTE": "(%[2]s <=? %[1]s)", "LT": "(%[1]s <? %[2]s)", "LTE": "(%[1]s <=? %[2]s)", "Equal": "(%[1]s =? %[2]s)"}

func (c *fctx) methodOnMath(kind string, recv string, name string, args []string) string {
	if f, ok := intCmp[name]; ok && len(args) == 1 {
		return fmt.Sprintf(f, recv, args[0])
	}
	switch name {
	case "Add", "Sub":
		if len(args) == 1 {
			op := "+"
			if name == "Sub" {
				op = "-"
			}
			return fmt.Sprintf("(%s %s %s)", recv, op, args[0])
		}
	case "IsNegative":
		return fmt.Sprintf("(%s <? 0)", recv)
	case "IsPositive":
		return fmt.Sprintf("(0 <? %s)", recv)
	case "IsZero":
		return fmt.Sprintf("(%s =? 0)", recv)
	case "IsNil":
		return "false"
	case "Neg":
		return fmt.Sprintf("(- %s)", recv)
	case "Abs":
		return fmt.Sprintf("(Z.abs %s)", recv)
	}
	if kind == "Int" {
		switch name {
		case "Mul":
			return fmt.Sprintf("(%s * %s)", recv, args[0])
		case "Quo":
			return fmt.Sprintf("(Z.quot %s %s)", recv, args[0])
		case "Int64", "Uint64", "BigInt":
			return recv
		case "ToLegacyDec":
			return fmt.Sprintf("(dec_of_int %s)", recv)
		}
	} else {
		switch name {
		case "Mul":
			return fmt.Sprintf("(dec_mul %s %s)", recv, args[0])
		case "MulInt", "MulInt64":
			return fmt.Sprintf("(dec_mulint %s %s)", recv, args[0])
		case "Quo":
			return fmt.Sprintf("(dec_quo %s %s)", recv, args[0])
		case "TruncateInt", "TruncateInt64":
			return fmt.Sprintf("(dec_trunc_int %s)", recv)
		case "RoundInt", "RoundInt64":
			return fmt.Sprintf("(dec_round_int %s)", recv)
		case "TruncateDec":
			return fmt.Sprintf("(dec_trunc_dec %s)", recv)
		case "Ceil":
			return fmt.Sprintf("(dec_ceil %s)", recv)
		}
	}
	return c.fail("method %s.%s is not in the translated subset", kind, name)
}

func pow10(n int) string {
	s := "1"
	for i := 0; i < n; i++ {
		s += "0"
	}
	return s
}

func (c *fctx) constVal(e ast.Expr) (string, bool) {
	if tv, ok := c.info.Types[e]; ok && tv.Value != nil {
		switch tv.Value.Kind() {
		case constant.Int:
			s := tv.Value.ExactString()
			if strings.HasPrefix(s, "-") {
				return "(" + s + ")", true
			}
			return s, true
		case constant.Bool:
			return fmt.Sprint(constant.BoolVal(tv.Value)), true
		}
	}
	return "", false
}

func (c *fctx) expr(e ast.Expr) string {
	if v, ok := c.constVal(e); ok {
		return v
	}
	switch e := e.(type) {
	case *ast.ParenExpr:
		return c.expr(e.X)
	case *ast.Ident:
		if obj, ok := c.info.Uses[e].(*types.Var); ok && obj.Parent() == obj.Pkg().Scope() {
			return c.pkgVar(obj)
		}
		if e.Name == "true" || e.Name == "false" {
			return e.Name
		}
		if c.state != nil && c.state.ctxTime != "" && isCtx(c.info.TypeOf(e)) {
			return fmt.Sprintf("(S_%s_%s g_st)", c.state.state, c.state.ctxTime)
		}
		return ident(e.Name)
	case *ast.SelectorExpr:
		// field of a whitelisted struct value
		if s := c.k.structOf(c.info.TypeOf(e.X)); s != "" {
			if _, ok := c.info.Selections[e]; ok {
				return fmt.Sprintf("(G_%s_%s %s)", s, e.Sel.Name, c.expr(e.X))
			}
		}
		if isCoin(c.info.TypeOf(e.X)) && e.Sel.Name == "Amount" {
			return c.expr(e.X)
		}
		// package-level constant or variable of another package
		if obj, ok := c.info.Uses[e.Sel].(*types.Var); ok && obj.Pkg() != nil && obj.Parent() == obj.Pkg().Scope() {
			return c.pkgVar(obj)
		}
		return c.fail("selector %s", e.Sel.Name)
	case *ast.UnaryExpr:
		switch e.Op {
		case token.NOT:
			return fmt.Sprintf("(negb %s)", c.expr(e.X))
		case token.SUB:
			return fmt.Sprintf("(- %s)", c.expr(e.X))
		case token.AND:
			return c.expr(e.X)
		}
	case *ast.StarExpr:
		return c.expr(e.X)
	case *ast.BinaryExpr:
		x, y := c.expr(e.X), c.expr(e.Y)
		isStr := false
		if b, ok := c.info.TypeOf(e.X).Underlying().(*types.Basic); ok && b.Info()&types.IsString != 0 {
			isStr = true
		}
		isBool := false
		if b, ok := c.info.TypeOf(e.X).Underlying().(*types.Basic); ok && b.Info()&types.IsBoolean != 0 {
			isBool = true
		}
		switch e.Op {
		case token.ADD:
			if !isStr {
				return fmt.Sprintf("(%s + %s)", x, y)
			}
		case token.SUB:
			return fmt.Sprintf("(%s - %s)", x, y)
		case token.MUL:
			return fmt.Sprintf("(%s * %s)", x, y)
		case token.LSS:
			return fmt.Sprintf("(%s <? %s)", x, y)
		case token.LEQ:
			return fmt.Sprintf("(%s <=? %s)", x, y)
		case token.GTR:
			return fmt.Sprintf("(%s <? %s)", y, x)
		case token.GEQ:
			return fmt.Sprintf("(%s <=? %s)", y, x)
		case token.EQL:
			if isBool {
				return fmt.Sprintf("(Bool.eqb %s %s)", x, y)
			}
			return fmt.Sprintf("(%s =? %s)", x, y)
		case token.NEQ:
			if isBool {
				return fmt.Sprintf("(negb (Bool.eqb %s %s))", x, y)
			}
			return fmt.Sprintf("(negb (%s =? %s))", x, y)
		case token.LAND:
			return fmt.Sprintf("(%s && %s)", x, y)
		case token.LOR:
			return fmt.Sprintf("(%s || %s)", x, y)
		}
		return c.fail("operator %s", e.Op)
	case *ast.CallExpr:
		return c.call(e)
	case *ast.IndexExpr:
		// xs[k] on a slice represented as a list; out of range (a Go panic) yields the zero value
		gt, _ := c.k.galType(c.info.TypeOf(e.X))
		switch {
		case strings.HasPrefix(gt, "list G_"):
			return fmt.Sprintf("(knth %s %s %s_zero)", c.expr(e.X), c.expr(e.Index), strings.TrimPrefix(gt, "list "))
		case gt == "list Z":
			return fmt.Sprintf("(knth %s %s 0)", c.expr(e.X), c.expr(e.Index))
		}
		return c.fail("index expression on a value that is not represented as a list")
	case *ast.SliceExpr:
		// xs[:i] / xs[i:] / xs[i:j] on a list
		if gt, _ := c.k.galType(c.info.TypeOf(e.X)); strings.HasPrefix(gt, "list ") && !e.Slice3 {
			x := c.expr(e.X)
			if e.High != nil {
				x = fmt.Sprintf("(firstn (Z.to_nat %s) %s)", c.expr(e.High), x)
			}
			if e.Low != nil {
				x = fmt.Sprintf("(skipn (Z.to_nat %s) %s)", c.expr(e.Low), x)
			}
			return x
		}
		return c.fail("slice expression on a value that is not represented as a list")
	case *ast.CompositeLit:
		if gt, _ := c.k.galType(c.info.TypeOf(e)); strings.HasPrefix(gt, "list ") {
			var els []string
			for _, el := range e.Elts {
				if _, ok := el.(*ast.KeyValueExpr); ok {
					return c.fail("keyed slice literal")
				}
				els = append(els, c.expr(el))
			}
			return "[" + strings.Join(els, "; ") + "]"
		}
		s := c.k.structOf(c.info.TypeOf(e))
		if s == "" {
			return c.fail("composite literal of a type that is not translated")
		}
		out := fmt.Sprintf("G_%s_zero", s)
		for _, el := range e.Elts {
			kv, ok := el.(*ast.KeyValueExpr)
			if !ok {
				return c.fail("positional composite literal")
			}
			key, ok := kv.Key.(*ast.Ident)
			if !ok {
				return c.fail("composite literal key")
			}
			out = fmt.Sprintf("(set_G_%s_%s %s %s)", s, key.Name, out, c.expr(kv.Value))
		}
		return out
	}
	return c.fail("expression %T", e)
}

// pkgVar: a package-level variable, translated through its initialiser
func (c *fctx) pkgVar(obj *types.Var) string {
	p := c.k.w.all[obj.Pkg().Path()]
	if p == nil {
		return c.fail("package of %s not loaded", obj.Name())
	}
	for _, f := range p.Syntax {
		for _, d := range f.Decls {
			gd, ok := d.(*ast.GenDecl)
			if !ok || gd.Tok != token.VAR {
				continue
			}
			for _, sp := range gd.Specs {
				vs := sp.(*ast.ValueSpec)
				for i, nm := range vs.Names {
					if p.TypesInfo.Defs[nm] == obj && i < len(vs.Values) {
						sub := &fctx{k: c.k, info: p.TypesInfo, pkg: p}
						s := sub.expr(vs.Values[i])
						if sub.bad != "" {
							return c.fail("initialiser of %s: %s", obj.Name(), sub.bad)
						}
						return s
					}
				}
			}
		}
	}
	return c.fail("no initialiser for package variable %s", obj.Name())
}

func (c *fctx) call(e *ast.CallExpr) string {
	var args []string
	for _, a := range e.Args {
		if tv, ok := c.info.Types[a]; ok && tv.Value != nil && tv.Value.Kind() == constant.String {
			// a constant string is only meaningful to the constructors handled below (LegacyMustNewDecFromStr)
			args = append(args, "CONSTANT_STRING")
			continue
		}
		if c.state != nil && isString(c.info.TypeOf(a)) && c.freeText(a) {
			args = append(args, "FREE_TEXT") // free text passed to a stateful callee: dropped there
			continue
		}
		args = append(args, c.expr(a))
	}
	// conversions int64(x), uint64(x), T(x)
	if tv, ok := c.info.Types[e.Fun]; ok && tv.IsType() && len(e.Args) == 1 {
		if _, ok := tv.Type.Underlying().(*types.Basic); ok {
			return args[0]
		}
	}
	switch f := e.Fun.(type) {
	case *ast.Ident:
		if fn, ok := c.info.Uses[f].(*types.Func); ok && fn.Pkg() != nil {
			if g, ok := c.k.fn[fn]; ok {
				return fmt.Sprintf("(%s %s)", g, strings.Join(args, " "))
			}
			if c.k.assume[fn] {
				return "true"
			}
		}
		if f.Name == "append" && len(e.Args) >= 1 {
			if gt, _ := c.k.galType(c.info.TypeOf(e.Args[0])); strings.HasPrefix(gt, "list ") {
				if e.Ellipsis.IsValid() && len(e.Args) == 2 {
					return fmt.Sprintf("(%s ++ %s)", args[0], args[1])
				}
				if !e.Ellipsis.IsValid() {
					return fmt.Sprintf("(%s ++ [%s])", args[0], strings.Join(args[1:], "; "))
				}
			}
			return c.fail("append on a value that is not represented as a list")
		}
		if f.Name == "len" && len(e.Args) == 1 {
			if _, isSel := e.Args[0].(*ast.SelectorExpr); !isSel {
				if gt, _ := c.k.galType(c.info.TypeOf(e.Args[0])); strings.HasPrefix(gt, "list ") {
					return fmt.Sprintf("(klen %s)", args[0])
				}
			}
			if se, ok := e.Args[0].(*ast.SelectorExpr); ok {
				if s := c.k.structOf(c.info.TypeOf(se.X)); s != "" {
					if gt, _ := c.k.galType(c.info.TypeOf(se)); strings.HasPrefix(gt, "list ") {
						return fmt.Sprintf("(klen (G_%s_%s %s))", s, se.Sel.Name, c.expr(se.X))
					}
					return fmt.Sprintf("(G_%s_%s %s)", s, se.Sel.Name, c.expr(se.X))
				}
			}
		}
	case *ast.SelectorExpr:
		if op, ok := c.stateOpOf(f); ok {
			if op.kind == "get" {
				return fmt.Sprintf("(S_%s_%s g_st)", c.state.state, op.field[0])
			}
			if op.kind == "find" {
				return c.findOp(op, e)
			}
			if op.kind == "getok" {
				c.checkConstArgs(op, e)
				return fmt.Sprintf("(Some (S_%s_%s g_st))", c.state.state, op.field[0])
			}
			if op.kind == "findk" {
				c.checkConstArgs(op, e)
				S := "S_" + c.state.state
				el := ""
				for _, f := range c.stFields {
					if f.name == op.field[0] {
						el = strings.TrimPrefix(f.typ, "list ")
					}
				}
				key := c.expr(e.Args[len(e.Args)-1])
				return fmt.Sprintf("(match find (fun g__x => %s_%s g__x =? %s) (%s_%s g_st) with Some g__x => (g__x, true) | None => (%s_zero, false) end)",
					el, op.field[1], key, S, op.field[0], el)
			}
			if op.kind == "hask" {
				el := ""
				for _, f := range c.stFields {
					if f.name == op.field[0] {
						el = strings.TrimPrefix(f.typ, "list ")
					}
				}
				return fmt.Sprintf("(existsb (fun g__x => %s_%s g__x =? %s) (S_%s_%s g_st))", el, op.field[1], c.expr(e.Args[len(e.Args)-1]), c.state.state, op.field[0])
			}
			if op.kind == "callerr" {
				// args[0]: the callee works on this sub-record of the state; args[1]: the callee also returns the final value of a
				// pointer parameter (the caller's variable of that name)
				sub, out := "", ""
				if len(op.args) > 0 {
					sub = op.args[0]
				}
				if len(op.args) > 1 {
					out = op.args[1]
				}
				S := "S_" + c.state.state
				switch {
				case sub == "" && out == "":
					return fmt.Sprintf("(%s g_st %s)", op.field[0], strings.Join(c.plainArgs(e), " "))
				case sub != "" && out == "":
					return fmt.Sprintf("(match %s (%s_%s g_st) %s with Some g__o => Some (set_%s_%s g_st g__o) | None => None end)",
						op.field[0], S, sub, strings.Join(c.plainArgs(e), " "), S, sub)
				case sub != "" && out != "":
					return fmt.Sprintf("(match %s (%s_%s g_st) %s with Some (g__o, g__v) => Some (set_%s_%s g_st g__o, g__v) | None => None end)",
						op.field[0], S, sub, strings.Join(c.plainArgs(e), " "), S, sub)
				}
				return fmt.Sprintf("(%s g_st %s)", op.field[0], strings.Join(c.plainArgs(e), " "))
			}
			if op.kind == "callst" {
				return fmt.Sprintf("(%s g_st %s)", op.field[0], strings.Join(c.plainArgs(e), " "))
			}
			if op.kind == "call" {
				return fmt.Sprintf("(%s g_st %s)", op.field[0], strings.Join(c.plainArgs(e), " "))
			}
			if op.kind == "gets" {
				var parts []string
				for _, fl := range op.field {
					parts = append(parts, fmt.Sprintf("S_%s_%s g_st", c.state.state, fl))
				}
				return "(" + strings.Join(parts, ", ") + ")"
			}
			return c.fail("state operation %s.%s used as a value", op.kind, f.Sel.Name)
		}
		// ctx.BlockTime().Unix(): the context IS the block time
		if f.Sel.Name == "Unix" && len(e.Args) == 0 {
			if inner, ok := f.X.(*ast.CallExpr); ok {
				if isel, ok := inner.Fun.(*ast.SelectorExpr); ok && isel.Sel.Name == "BlockTime" && isCtx(c.info.TypeOf(isel.X)) {
					return c.expr(isel.X)
				}
			}
		}
		// package function
		if id, ok := f.X.(*ast.Ident); ok {
			if pn, ok := c.info.Uses[id].(*types.PkgName); ok {
				path := pn.Imported().Path()
				if fn, ok := c.info.Uses[f.Sel].(*types.Func); ok {
					if g, ok := c.k.fn[fn]; ok {
						return fmt.Sprintf("(%s %s)", g, strings.Join(args, " "))
					}
					if c.k.assume[fn] {
						return "true"
					}
				}
				if path == "github.com/cosmos/cosmos-sdk/types" && f.Sel.Name == "NewCoins" && len(args) == 1 {
					return args[0] // one coin of the one denomination: its amount
				}
				if path == "strings" && f.Sel.Name == "TrimSpace" && len(args) == 1 {
					return args[0] // identifiers stand for the trimmed strings
				}
				if path == "github.com/spf13/cast" && strings.HasPrefix(f.Sel.Name, "To") && len(args) == 1 && !strings.HasSuffix(f.Sel.Name, "E") &&
					f.Sel.Name != "ToString" && f.Sel.Name != "ToBool" {
					return args[0] // convention: the converted value is in range
				}
				if path == repoModule+"/utils" && f.Sel.Name == "IsValidUID" && len(args) == 1 {
					// convention: identifiers are the harness's integers, the invalid spellings are the negative ones
					return fmt.Sprintf("(0 <=? %s)", args[0])
				}
				if path == "cosmossdk.io/math" || path == "github.com/cosmos/cosmos-sdk/types" {
					switch f.Sel.Name {
					case "ZeroInt", "LegacyZeroDec":
						return "0"
					case "OneInt":
						return "1"
					case "LegacyOneDec":
						return "PREC"
					case "NewInt", "NewIntFromUint64":
						return args[0]
					case "LegacyNewDec", "LegacyNewDecFromInt", "LegacyNewDecFromBigInt":
						return fmt.Sprintf("(dec_of_int %s)", args[0])
					case "NewIntFromBigInt":
						return args[0]
					case "AccAddressFromBech32":
						return fmt.Sprintf("(Some %s)", args[0]) // accounts are identified by their address string: parsing succeeds
					case "MustAccAddressFromBech32":
						return args[0]
					case "NewCoin":
						// a coin is its amount (the denomination is dropped; NewCoin panics on a negative amount, which the lemmas exclude)
						return args[1]
					case "LegacyMustNewDecFromStr":
						if tv, ok := c.info.Types[e.Args[0]]; ok && tv.Value != nil && tv.Value.Kind() == constant.String {
							if r, ok := new(big.Rat).SetString(constant.StringVal(tv.Value)); ok {
								r.Mul(r, new(big.Rat).SetInt(new(big.Int).Exp(big.NewInt(10), big.NewInt(18), nil)))
								if r.IsInt() {
									s := r.Num().String()
									if strings.HasPrefix(s, "-") {
										s = "(" + s + ")"
									}
									return s
								}
							}
						}
						return c.fail("LegacyMustNewDecFromStr of a non-constant or over-precise string")
					case "LegacyNewDecFromStr":
						// the decimal string of the ticket IS the value in the model (parsing is the harness's domain): always Some
						return fmt.Sprintf("(Some %s)", args[0])
					case "MaxInt":
						return fmt.Sprintf("(Z.max %s %s)", args[0], args[1])
					case "MinInt":
						return fmt.Sprintf("(Z.min %s %s)", args[0], args[1])
					case "LegacyNewDecWithPrec":
						if len(e.Args) == 2 {
							if pv, ok := c.info.Types[e.Args[1]]; ok && pv.Value != nil {
								if p, ok := constant.Int64Val(pv.Value); ok && p >= 0 && p <= 18 {
									return fmt.Sprintf("(%s * %s)", args[0], pow10(int(18-p)))
								}
							}
						}
					}
				}
				return c.fail("function %s.%s", id.Name, f.Sel.Name)
			}
		}
		// new(big.Int).SetUint64(x) / SetInt64(x): the integer itself
		if isBigInt(c.info.TypeOf(f.X)) && (f.Sel.Name == "SetUint64" || f.Sel.Name == "SetInt64") && len(args) == 1 {
			if inner, ok := f.X.(*ast.CallExpr); ok {
				if id, ok := inner.Fun.(*ast.Ident); ok && id.Name == "new" {
					return args[0]
				}
			}
		}
		// method on Int / LegacyDec
		if kind := mathType(c.info.TypeOf(f.X)); kind != "" {
			return c.methodOnMath(kind, c.expr(f.X), f.Sel.Name, args)
		}
		if fn, ok := c.info.Uses[f.Sel].(*types.Func); ok && c.k.assume[fn] {
			return "true"
		}
		// method of a whitelisted struct
		if s := c.k.structOf(c.info.TypeOf(f.X)); s != "" {
			// generated protobuf getter GetX(): the field X (of a non-nil receiver)
			if strings.HasPrefix(f.Sel.Name, "Get") && len(e.Args) == 0 {
				if st, ok := c.k.structs[s].Underlying().(*types.Struct); ok {
					for i := 0; i < st.NumFields(); i++ {
						if st.Field(i).Name() == strings.TrimPrefix(f.Sel.Name, "Get") {
							return fmt.Sprintf("(G_%s_%s %s)", s, st.Field(i).Name(), c.expr(f.X))
						}
					}
				}
			}
			if fn, ok := c.info.Uses[f.Sel].(*types.Func); ok {
				if g, ok := c.k.fn[fn]; ok {
					return fmt.Sprintf("(%s %s)", g, strings.Join(append([]string{c.expr(f.X)}, args...), " "))
				}
			}
			return c.fail("method %s.%s is not whitelisted", s, f.Sel.Name)
		}
	}
	return c.fail("call %T", e.Fun)
}

// ---- statements ---------------------------------------------------------------------------------

func (c *fctx) finish() string {
	switch {
	case c.mutating && c.results == "none":
		return ident(c.recvName)
	case c.mutating && c.results == "err":
		return fmt.Sprintf("Some %s", c.retState())
	}
	return c.fail("control reaches the end of a function that must return a value")
}

// retState: what a mutating function hands back: its receiver (the state of a stateful kernel), paired with the out parameter if it has one
func (c *fctx) retState() string {
	if c.state != nil && c.state.outParam != "" {
		return fmt.Sprintf("(%s, %s)", ident(c.recvName), ident(c.state.outParam))
	}
	return ident(c.recvName)
}

func isNilIdent(e ast.Expr) bool {
	id, ok := e.(*ast.Ident)
	return ok && id.Name == "nil"
}

func (c *fctx) ret(s *ast.ReturnStmt) string {
	if c.state != nil && c.state.panics && len(s.Results) == 0 {
		return "Some " + c.retState()
	}
	if c.state != nil && c.results == "err" && len(s.Results) == 1 {
		// return k.refund(...): the payment is emitted (it cannot fail here, see emitOp) and the function ends
		if call, ok := s.Results[0].(*ast.CallExpr); ok {
			if f, ok := call.Fun.(*ast.SelectorExpr); ok {
				if op, ok := c.stateOpOf(f); ok && op.kind == "emitpay" {
					return c.emitOp(op, call, "Some "+c.retState())
				}
			}
		}
	}
	if c.state != nil {
		switch c.results {
		case "val":
			if len(s.Results) == 1 {
				return fmt.Sprintf("(g_st, %s)", c.expr(s.Results[0]))
			}
		case "val2err":
			if len(s.Results) == 3 {
				if isNilIdent(s.Results[2]) {
					return fmt.Sprintf("Some (g_st, (%s, %s))", c.expr(s.Results[0]), c.expr(s.Results[1]))
				}
				return "None"
			}
		case "valerr":
			if len(s.Results) == 2 {
				if isNilIdent(s.Results[1]) {
					if c.state.returns == "value" {
						return fmt.Sprintf("Some %s", c.expr(s.Results[0])) // a read-only function: the value is the result
					}
					if c.state.returns == "both" {
						return fmt.Sprintf("Some (g_st, %s)", c.expr(s.Results[0])) // the new state and the value
					}
					return "Some g_st" // a message handler: the response is not modelled, the state is the result
				}
				return "None"
			}
		}
	}
	switch c.results {
	case "none":
		return c.finish()
	case "err":
		if len(s.Results) == 1 && isNilIdent(s.Results[0]) {
			if c.mutating {
				return fmt.Sprintf("Some %s", c.retState())
			}
			return "true"
		}
		if len(s.Results) == 1 && !c.mutating {
			// return f(x) where f is a translated function returning only an error
			if call, ok := s.Results[0].(*ast.CallExpr); ok {
				var fn *types.Func
				switch f := call.Fun.(type) {
				case *ast.Ident:
					fn, _ = c.info.Uses[f].(*types.Func)
				case *ast.SelectorExpr:
					fn, _ = c.info.Uses[f.Sel].(*types.Func)
				}
				if fn != nil && (c.k.fn[fn] != "" || c.k.assume[fn]) {
					return c.expr(call)
				}
			}
		}
		if c.mutating {
			return "None"
		}
		return "false"
	case "val", "bool":
		if len(s.Results) == 1 {
			return c.expr(s.Results[0])
		}
	case "val2":
		if len(s.Results) == 2 {
			return fmt.Sprintf("(%s, %s)", c.expr(s.Results[0]), c.expr(s.Results[1]))
		}
	case "valerr":
		if len(s.Results) == 2 {
			if isNilIdent(s.Results[1]) {
				return fmt.Sprintf("Some %s", c.expr(s.Results[0]))
			}
			return "None"
		}
	case "val2err":
		if len(s.Results) == 3 {
			if isNilIdent(s.Results[2]) {
				return fmt.Sprintf("Some (%s, %s)", c.expr(s.Results[0]), c.expr(s.Results[1]))
			}
			return "None"
		}
	}
	return c.fail("return statement shape")
}

func (c *fctx) assignTo(lhs ast.Expr, rhs string, rest string) string {
	switch l := lhs.(type) {
	case *ast.Ident:
		if l.Name == "_" {
			return rest
		}
		return fmt.Sprintf("let %s := %s in\n  %s", ident(l.Name), rhs, rest)
	case *ast.SelectorExpr:
		if id, ok := l.X.(*ast.Ident); ok {
			if s := c.k.structOf(c.info.TypeOf(l.X)); s != "" {
				if id.Name == c.recvName {
					c.mutating = true
				}
				return fmt.Sprintf("let %s := set_G_%s_%s %s %s in\n  %s", ident(id.Name), s, l.Sel.Name, ident(id.Name), rhs, rest)
			}
		}
	}
	return c.fail("assignment target %T", lhs)
}

// loopState renders the tuple carried by the innermost fold, with the given value of the "broke out" flag
func (c *fctx) loopState(brk string) string {
	vars := c.loop[len(c.loop)-1]
	if vars == "" {
		return brk
	}
	return "(" + vars + ", " + brk + ")"
}

func zeroOf(t types.Type) string {
	if b, ok := t.Underlying().(*types.Basic); ok && b.Info()&types.IsBoolean != 0 {
		return "false"
	}
	return "0"
}

// assignedIn: the variables declared outside `body` that `body` assigns to (in order of first assignment)
func (c *fctx) assignedIn(body *ast.BlockStmt) []string {
	declared := map[string]bool{}
	var out []string
	seen := map[string]bool{}
	add := func(e ast.Expr, define bool) {
		var id *ast.Ident
		switch l := e.(type) {
		case *ast.Ident:
			id = l
		case *ast.SelectorExpr:
			if x, ok := l.X.(*ast.Ident); ok {
				id = x
			}
		}
		if id == nil || id.Name == "_" {
			return
		}
		if tt := c.info.TypeOf(id); tt != nil && tt.String() == "error" {
			return // error variables are resolved where they are tested, they carry no state
		}
		if define {
			declared[id.Name] = true
			return
		}
		if !declared[id.Name] && !seen[id.Name] {
			seen[id.Name] = true
			out = append(out, id.Name)
		}
	}
	ast.Inspect(body, func(n ast.Node) bool {
		switch x := n.(type) {
		case *ast.AssignStmt:
			for _, l := range x.Lhs {
				add(l, x.Tok == token.DEFINE)
			}
		case *ast.IncDecStmt:
			add(x.X, false)
		case *ast.RangeStmt:
			if x.Value != nil {
				add(x.Value, true)
			}
			if x.Key != nil {
				add(x.Key, true)
			}
		case *ast.DeclStmt:
			if gd, ok := x.Decl.(*ast.GenDecl); ok {
				for _, sp := range gd.Specs {
					if vs, ok := sp.(*ast.ValueSpec); ok {
						for _, nm := range vs.Names {
							declared[nm.Name] = true
						}
					}
				}
			}
		}
		return true
	})
	return out
}

// skippable: calls that have no effect on the modelled state: telemetry, event emission
func (c *fctx) skippable(call *ast.CallExpr) bool {
	f, ok := call.Fun.(*ast.SelectorExpr)
	if !ok {
		return false
	}
	if id, ok := f.X.(*ast.Ident); ok {
		if pn, ok := c.info.Uses[id].(*types.PkgName); ok && pn.Imported().Path() == "github.com/cosmos/cosmos-sdk/telemetry" {
			return true
		}
		if pn, ok := c.info.Uses[id].(*types.PkgName); ok && pn.Imported().Path() == "fmt" && strings.HasPrefix(f.Sel.Name, "Print") {
			return true // console output
		}
	}
	// msg.EmitEvent(&ctx, ...): event emission of a message type
	if f.Sel.Name == "EmitEvent" && len(call.Args) >= 1 {
		if u, ok := call.Args[0].(*ast.UnaryExpr); ok && u.Op == token.AND && isCtx(c.info.TypeOf(u.X)) {
			return true
		}
	}
	// ctx.EventManager().EmitEvent(...) / EmitEvents / EmitTypedEvent
	if strings.HasPrefix(f.Sel.Name, "Emit") {
		if inner, ok := f.X.(*ast.CallExpr); ok {
			if isel, ok := inner.Fun.(*ast.SelectorExpr); ok && isel.Sel.Name == "EventManager" && isCtx(c.info.TypeOf(isel.X)) {
				return true
			}
		}
	}
	return false
}

func (c *fctx) allSkippable(list []ast.Stmt) bool {
	for _, s := range list {
		switch x := s.(type) {
		case *ast.DeferStmt:
			if !c.skippable(x.Call) {
				return false
			}
		case *ast.ExprStmt:
			call, ok := x.X.(*ast.CallExpr)
			if !ok || !c.skippable(call) {
				return false
			}
		default:
			return false
		}
	}
	return len(list) > 0
}

// loopOver: the body of a loop as a fold over the list `over` (the element is bound to vname); `after` are the statements that follow
func (c *fctx) loopOver(lbody *ast.BlockStmt, vname string, over string, after []ast.Stmt) string {
	var vars []string
	if c.state != nil {
		vars = append(vars, "g_st") // the state is threaded through the loop
	}
	for _, a := range c.assignedIn(lbody) {
		vars = append(vars, ident(a))
	}
	// a return inside the (outermost) loop: carried as an optional result that also ends the loop
	hasRet := false
	ast.Inspect(lbody, func(n ast.Node) bool {
		if _, ok := n.(*ast.ReturnStmt); ok {
			hasRet = true
		}
		return true
	})
	if hasRet {
		if len(c.loop) > 0 {
			return c.fail("return inside a nested range loop")
		}
		vars = append(vars, "g__ret")
	}
	tuple := strings.Join(vars, ", ")
	c.loop = append(c.loop, tuple)
	body := c.stmts(lbody.List)
	st := c.loopState("g__brk")
	init := c.loopState("false")
	stop := c.loopState("true")
	c.loop = c.loop[:len(c.loop)-1]
	pat := st
	if !strings.HasPrefix(pat, "(") {
		pat = "g__brk"
	} else {
		pat = "'" + pat
	}
	afterS := c.stmts(after)
	pre := ""
	if hasRet {
		pre = "let g__ret := None in\n  "
		afterS = fmt.Sprintf("match g__ret with Some g__r => g__r | None => %s end", afterS)
	}
	return fmt.Sprintf("%slet %s := kfold %s %s (fun %s %s => if g__brk then %s else %s) in\n  %s",
		pre, pat, init, over, pat, vname, stop, body, afterS)
}

func (c *fctx) stmts(list []ast.Stmt) string {
	if len(list) == 0 {
		if len(c.loop) > 0 {
			return c.loopState("false")
		}
		return c.finish()
	}
	rest := func() string { return c.stmts(list[1:]) }
	switch s := list[0].(type) {
	case *ast.BranchStmt:
		if len(c.loop) > 0 && s.Label == nil {
			switch s.Tok {
			case token.BREAK:
				return c.loopState("true")
			case token.CONTINUE:
				return c.loopState("false")
			}
		}
		return c.fail("branch statement %s", s.Tok)
	case *ast.ForStmt:
		// for i := 0; i < N; i++ { body }   ==>   a fold over the indices 0 .. N-1
		var iv *ast.Ident
		if as, ok := s.Init.(*ast.AssignStmt); ok && as.Tok == token.DEFINE && len(as.Lhs) == 1 && len(as.Rhs) == 1 {
			if id, ok := as.Lhs[0].(*ast.Ident); ok {
				if v, ok := c.constVal(as.Rhs[0]); ok && v == "0" {
					iv = id
				}
			}
		}
		cond, _ := s.Cond.(*ast.BinaryExpr)
		post, _ := s.Post.(*ast.IncDecStmt)
		if iv == nil || cond == nil || post == nil || cond.Op != token.LSS || post.Tok != token.INC {
			return c.fail("for loop that is not `for i := 0; i < n; i++`")
		}
		if x, ok := cond.X.(*ast.Ident); !ok || x.Name != iv.Name {
			return c.fail("for loop condition")
		}
		if x, ok := post.X.(*ast.Ident); !ok || x.Name != iv.Name {
			return c.fail("for loop increment")
		}
		for _, a := range c.assignedIn(s.Body) {
			if a == iv.Name {
				return c.fail("for loop body assigns to the loop variable")
			}
		}
		// the bound must not depend on what the body assigns: it is evaluated once here
		bound := c.expr(cond.Y)
		for _, a := range c.assignedIn(s.Body) {
			if strings.Contains(bound, ident(a)+" ") || strings.HasSuffix(bound, ident(a)) || strings.Contains(bound, ident(a)+")") {
				return c.fail("for loop bound depends on a variable assigned in the body")
			}
		}
		return c.loopOver(s.Body, ident(iv.Name), fmt.Sprintf("(kseq %s)", bound), list[1:])
	case *ast.RangeStmt:
		// for _, v := range E { body }   ==>   a fold over the list E carrying the variables the body assigns and a "broke out" flag
		if s.Key != nil {
			if id, ok := s.Key.(*ast.Ident); !ok || id.Name != "_" {
				// for i := range xs: the indices only
				if ok && s.Value == nil {
					if gt, _ := c.k.galType(c.info.TypeOf(s.X)); strings.HasPrefix(gt, "list ") {
						return c.loopOver(s.Body, ident(id.Name), fmt.Sprintf("(kseq (klen %s))", c.expr(s.X)), list[1:])
					}
				}
				return c.fail("range loop using the index and the value")
			}
		}
		vname := "g__unused"
		if s.Value != nil {
			if id, ok := s.Value.(*ast.Ident); ok && id.Name != "_" {
				vname = ident(id.Name)
			}
		}
		gt, _ := c.k.galType(c.info.TypeOf(s.X))
		if !strings.HasPrefix(gt, "list ") {
			return c.fail("range over a value that is not represented as a list")
		}
		return c.loopOver(s.Body, vname, c.expr(s.X), list[1:])
	case *ast.ReturnStmt:
		if len(c.loop) == 1 {
			saved := c.loop
			c.loop = nil
			r := c.ret(s)
			c.loop = saved
			return fmt.Sprintf("let g__ret := Some (%s) in\n  %s", r, c.loopState("true"))
		}
		if len(c.loop) > 1 {
			return c.fail("return inside a nested range loop")
		}
		return c.ret(s)
	case *ast.BlockStmt:
		return c.stmts(append(append([]ast.Stmt{}, s.List...), list[1:]...))
	case *ast.IfStmt:
		if s.Init != nil {
			// if err := f(x); err != nil { body }   (f returns only an error: its translation is a bool, true = nil)
			if as, ok := s.Init.(*ast.AssignStmt); ok && (as.Tok == token.DEFINE || as.Tok == token.ASSIGN) && len(as.Lhs) == 1 && len(as.Rhs) == 1 && s.Else == nil {
				if id, ok := as.Lhs[0].(*ast.Ident); ok {
					if be, ok := s.Cond.(*ast.BinaryExpr); ok && be.Op == token.NEQ && isNilIdent(be.Y) {
						if x, ok := be.X.(*ast.Ident); ok && x.Name == id.Name && c.info.TypeOf(as.Rhs[0]).String() == "error" {
							if call, isCall := as.Rhs[0].(*ast.CallExpr); isCall {
								thenB := c.stmts(append(append([]ast.Stmt{}, s.Body.List...), list[1:]...))
								if f, ok := call.Fun.(*ast.SelectorExpr); ok {
									// the fallible transfer of a stateful kernel
									if op, ok := c.stateOpOf(f); ok && op.kind == "move" {
										return c.moveOp(op, c.stateArgs(op, call), rest(), thenB)
									}
									if op, ok := c.stateOpOf(f); ok && op.kind == "ticket" {
										return c.ticketOp(op, call, rest, thenB)
									}
									if op, ok := c.stateOpOf(f); ok && op.kind == "emitpay" {
										return c.emitOp(op, call, rest()) // cannot fail here: the error branch is never taken
									}
									// another stateful kernel that returns an error: the new state or the error branch
									if op, ok := c.stateOpOf(f); ok && op.kind == "callerr" {
										return fmt.Sprintf("match %s with\n  | Some %s => %s\n  | None => %s\n  end", c.expr(call), callerrPat(op), rest(), thenB)
									}
									// a method that assigns to its receiver (a local variable): the translation returns the new value or None
									if fn, ok := c.info.Uses[f.Sel].(*types.Func); ok && c.k.mutFn[fn] {
										if rid, ok := f.X.(*ast.Ident); ok {
											return fmt.Sprintf("match %s with\n  | Some %s => %s\n  | None => %s\n  end", c.expr(call), ident(rid.Name), rest(), thenB)
										}
									}
								}
								return fmt.Sprintf("(if negb %s then %s else %s)", c.expr(as.Rhs[0]), thenB, rest())
							}
						}
					}
				}
			}
			return c.fail("if with init statement")
		}
		// if err != nil { ... } where err is the result of an infallible state operation: never taken
		if be, ok := s.Cond.(*ast.BinaryExpr); ok && be.Op == token.NEQ && isNilIdent(be.Y) && s.Init == nil {
			if id, ok := be.X.(*ast.Ident); ok && c.nilErr[id.Name] {
				if s.Else != nil {
					return c.stmts(append([]ast.Stmt{s.Else}, list[1:]...))
				}
				return rest()
			}
			if id, ok := be.X.(*ast.Ident); ok && c.nonNil[id.Name] {
				return c.stmts(append(append([]ast.Stmt{}, s.Body.List...), list[1:]...))
			}
		}
		// an if whose body only consists of statements that are not modelled (telemetry, events): dropped with its condition
		if s.Else == nil && s.Init == nil && c.allSkippable(s.Body.List) {
			return rest()
		}
		thenB := c.stmts(append(append([]ast.Stmt{}, s.Body.List...), list[1:]...))
		var elseB string
		if s.Else != nil {
			elseB = c.stmts(append([]ast.Stmt{s.Else}, list[1:]...))
		} else {
			elseB = rest()
		}
		return fmt.Sprintf("(if %s then %s else %s)", c.expr(s.Cond), thenB, elseB)
	case *ast.SwitchStmt:
		if s.Init != nil {
			return c.fail("switch with init statement")
		}
		var tag string
		if s.Tag != nil {
			tag = c.expr(s.Tag)
		}
		var deflt []ast.Stmt
		hasDefault := false
		type arm struct {
			cond string
			body []ast.Stmt
		}
		var arms []arm
		for _, cl := range s.Body.List {
			cc := cl.(*ast.CaseClause)
			for _, b := range cc.Body {
				if br, ok := b.(*ast.BranchStmt); ok && br.Tok == token.FALLTHROUGH {
					return c.fail("fallthrough")
				}
			}
			if cc.List == nil {
				deflt, hasDefault = cc.Body, true
				continue
			}
			var conds []string
			for _, x := range cc.List {
				if s.Tag != nil {
					conds = append(conds, fmt.Sprintf("(%s =? %s)", tag, c.expr(x)))
				} else {
					conds = append(conds, c.expr(x))
				}
			}
			arms = append(arms, arm{strings.Join(conds, " || "), cc.Body})
		}
		var tail string
		if hasDefault {
			tail = c.stmts(append(append([]ast.Stmt{}, deflt...), list[1:]...))
		} else {
			tail = rest()
		}
		for i := len(arms) - 1; i >= 0; i-- {
			body := c.stmts(append(append([]ast.Stmt{}, arms[i].body...), list[1:]...))
			tail = fmt.Sprintf("(if %s then %s else %s)", arms[i].cond, body, tail)
		}
		return tail
	case *ast.DeclStmt:
		// var x T  /  var x = e
		if gd, ok := s.Decl.(*ast.GenDecl); ok && gd.Tok == token.VAR {
			out := rest()
			for i := len(gd.Specs) - 1; i >= 0; i-- {
				vs := gd.Specs[i].(*ast.ValueSpec)
				for j := len(vs.Names) - 1; j >= 0; j-- {
					val := ""
					if j < len(vs.Values) {
						val = c.expr(vs.Values[j])
					} else if obj := c.info.Defs[vs.Names[j]]; obj != nil {
						val = zeroOf(obj.Type())
						if s := c.k.structOf(obj.Type()); s != "" {
							val = "G_" + s + "_zero"
						}
					} else {
						val = "0"
					}
					out = fmt.Sprintf("let %s := %s in\n  %s", ident(vs.Names[j].Name), val, out)
				}
			}
			return out
		}
		return rest()
	case *ast.AssignStmt:
		// x, err := f(...) ; if err != nil { return ..., err }   ==>   match f ... with Some x => rest | None => <the error return> end
		if len(s.Lhs) == 2 && len(s.Rhs) == 1 {
			if ta, ok := s.Rhs[0].(*ast.TypeAssertExpr); ok {
				// v, ok := i.(T): the parameter already has type T in the translation
				return c.assignTo(s.Lhs[0], c.expr(ta.X), c.assignTo(s.Lhs[1], "true", rest()))
			}
		}
		if len(s.Lhs) == 2 && len(s.Rhs) == 1 {
			// a, b := f(...) where f returns two plain values (not a state operation: those are handled below)
			isStateOp := false
			if call, ok := s.Rhs[0].(*ast.CallExpr); ok {
				if f, ok := call.Fun.(*ast.SelectorExpr); ok {
					_, isStateOp = c.stateOpOf(f)
				}
			}
			if tup, ok := c.info.TypeOf(s.Rhs[0]).(*types.Tuple); ok && !isStateOp && tup.Len() == 2 && tup.At(1).Type().String() != "error" {
				a, aok := s.Lhs[0].(*ast.Ident)
				b, bok := s.Lhs[1].(*ast.Ident)
				if aok && bok {
					return fmt.Sprintf("let '(%s, %s) := %s in\n  %s", ident(a.Name), ident(b.Name), c.expr(s.Rhs[0]), rest())
				}
			}
		}
		// ctx := sdk.UnwrapSDKContext(goCtx): the context is part of the state; addr := sdk.MustAccAddressFromBech32(s): addresses are
		// only passed on to keeper operations, which are mapped by the names of these variables
		if len(s.Lhs) == 1 && len(s.Rhs) == 1 && c.state != nil && (isCtx(c.info.TypeOf(s.Lhs[0])) || isAddr(c.info.TypeOf(s.Lhs[0]))) {
			return rest()
		}
		if c.state != nil && len(s.Rhs) == 1 {
			if call, ok := s.Rhs[0].(*ast.CallExpr); ok {
				if f, ok := call.Fun.(*ast.SelectorExpr); ok {
					if op, ok := c.stateOpOf(f); ok {
						switch {
						case op.kind == "exists" && len(s.Lhs) == 2:
							if b, ok := s.Lhs[1].(*ast.Ident); ok {
								return fmt.Sprintf("let %s := S_%s_%s g_st in\n  %s", ident(b.Name), c.state.state, op.field[0], rest())
							}
						case op.kind == "findk" && len(s.Lhs) == 2:
							a, aok := s.Lhs[0].(*ast.Ident)
							b, bok := s.Lhs[1].(*ast.Ident)
							if aok && bok {
								return fmt.Sprintf("let '(%s, %s) := %s in\n  %s", ident(a.Name), ident(b.Name), c.expr(call), rest())
							}
						case op.kind == "find" && len(s.Lhs) == 2:
							a, aok := s.Lhs[0].(*ast.Ident)
							b, bok := s.Lhs[1].(*ast.Ident)
							if aok && bok {
								return fmt.Sprintf("let '(%s, %s) := %s in\n  %s", ident(a.Name), ident(b.Name), c.findOp(op, call), rest())
							}
						case op.kind == "call" && len(s.Lhs) == 1:
							if a, ok := s.Lhs[0].(*ast.Ident); ok {
								return fmt.Sprintf("let '(g_st, %s) := %s in\n  %s", ident(a.Name), c.expr(call), rest())
							}
						case op.kind == "ticketkey" && len(s.Lhs) == 1:
							if id, ok := s.Lhs[0].(*ast.Ident); ok && len(call.Args) == 4 {
								u, uok := call.Args[2].(*ast.UnaryExpr)
								var v *ast.Ident
								if uok && u.Op == token.AND {
									v, _ = u.X.(*ast.Ident)
								}
								if v == nil {
									return c.fail("ticket operation: third argument is not the address of a variable")
								}
								want := "G_" + c.k.structOf(c.info.TypeOf(v))
								field := ""
								for _, f := range c.stFields {
									if f.typ == want {
										field = f.name
									}
								}
								if field == "" {
									return c.fail("ticket operation: no payload field of type %s in the state", want)
								}
								S := "S_" + c.state.state
								key := c.expr(call.Args[3])
								if c.nilErr == nil {
									c.nilErr = map[string]bool{}
								}
								if c.nonNil == nil {
									c.nonNil = map[string]bool{}
								}
								errB := c.withErr(id.Name, false, rest)
								okB := c.withErr(id.Name, true, rest)
								return fmt.Sprintf("(if negb ((%s_%s g_st) && (%s_%s g_st =? %s)) then %s else let %s := %s_%s g_st in\n  %s)",
									S, op.field[0], S, op.field[1], key, errB, ident(v.Name), S, field, okB)
							}
						case op.kind == "ticket" && len(s.Lhs) == 1:
							if id, ok := s.Lhs[0].(*ast.Ident); ok {
								if c.nilErr == nil {
									c.nilErr = map[string]bool{}
								}
								if c.nonNil == nil {
									c.nonNil = map[string]bool{}
								}
								errB := c.withErr(id.Name, false, rest)
								return c.ticketOp(op, call, func() string { return c.withErr(id.Name, true, rest) }, errB)
							}
						}
					}
				}
			}
		}
		// a, b, c := k.Op(...) where Op reads several fields
		if len(s.Lhs) >= 2 && len(s.Rhs) == 1 {
			if call, ok := s.Rhs[0].(*ast.CallExpr); ok {
				if f, ok := call.Fun.(*ast.SelectorExpr); ok {
					if op, ok := c.stateOpOf(f); ok && op.kind == "gets" && len(op.field) == len(s.Lhs) {
						var pat []string
						for _, l := range s.Lhs {
							id, ok := l.(*ast.Ident)
							if !ok {
								return c.fail("multiple assignment target")
							}
							if id.Name == "_" {
								pat = append(pat, "_")
							} else {
								pat = append(pat, ident(id.Name))
							}
						}
						return fmt.Sprintf("let '(%s) := %s in\n  %s", strings.Join(pat, ", "), c.expr(call), rest())
					}
				}
			}
		}
		// err = f(...) / err = x.M(...) where the callee is a translated function returning only an error (a bool, true = nil)
		if len(s.Lhs) == 1 && len(s.Rhs) == 1 && c.state != nil {
			if call, ok := s.Rhs[0].(*ast.CallExpr); ok && c.info.TypeOf(s.Rhs[0]) != nil && c.info.TypeOf(s.Rhs[0]).String() == "error" {
				var fn *types.Func
				switch f := call.Fun.(type) {
				case *ast.Ident:
					fn, _ = c.info.Uses[f].(*types.Func)
				case *ast.SelectorExpr:
					fn, _ = c.info.Uses[f.Sel].(*types.Func)
				}
				if id, ok := s.Lhs[0].(*ast.Ident); ok && fn != nil && c.k.fn[fn] != "" && !c.k.mutFn[fn] {
					if c.nilErr == nil {
						c.nilErr = map[string]bool{}
					}
					if c.nonNil == nil {
						c.nonNil = map[string]bool{}
					}
					callS := c.expr(call)
					errB := c.withErr(id.Name, false, rest)
					okB := c.withErr(id.Name, true, rest)
					return fmt.Sprintf("(if negb %s then %s else %s)", callS, errB, okB)
				}
				// err = x.M(...) where M assigns to its receiver x (a local variable): the new value of x, or the error continuation
				if id, ok := s.Lhs[0].(*ast.Ident); ok && fn != nil && c.k.fn[fn] != "" && c.k.mutFn[fn] {
					if f, ok := call.Fun.(*ast.SelectorExpr); ok {
						if rid, ok := f.X.(*ast.Ident); ok {
							if c.nilErr == nil {
								c.nilErr = map[string]bool{}
							}
							if c.nonNil == nil {
								c.nonNil = map[string]bool{}
							}
							callS := c.expr(call)
							errB := c.withErr(id.Name, false, rest)
							okB := c.withErr(id.Name, true, rest)
							return fmt.Sprintf("match %s with\n  | Some %s => %s\n  | None => %s\n  end", callS, ident(rid.Name), okB, errB)
						}
					}
				}
			}
		}
		// err = k.F(...) where F is another stateful kernel returning an error: the new state, or the error continuation
		if len(s.Lhs) == 1 && len(s.Rhs) == 1 {
			if call, ok := s.Rhs[0].(*ast.CallExpr); ok {
				if f, ok := call.Fun.(*ast.SelectorExpr); ok {
					if op, ok := c.stateOpOf(f); ok && op.kind == "callerr" {
						if id, ok := s.Lhs[0].(*ast.Ident); ok {
							if c.nilErr == nil {
								c.nilErr = map[string]bool{}
							}
							if c.nonNil == nil {
								c.nonNil = map[string]bool{}
							}
							callS := c.expr(call)
							errB := c.withErr(id.Name, false, rest)
							okB := c.withErr(id.Name, true, rest)
							return fmt.Sprintf("match %s with\n  | Some %s => %s\n  | None => %s\n  end", callS, callerrPat(op), okB, errB)
						}
					}
				}
			}
		}
		// err := k.Op(...) where Op is the fallible transfer: both continuations
		if len(s.Lhs) == 1 && len(s.Rhs) == 1 {
			if call, ok := s.Rhs[0].(*ast.CallExpr); ok {
				if f, ok := call.Fun.(*ast.SelectorExpr); ok {
					if op, ok := c.stateOpOf(f); ok && op.kind == "move" {
						if id, ok := s.Lhs[0].(*ast.Ident); ok {
							args := c.stateArgs(op, call)
							if c.nilErr == nil {
								c.nilErr = map[string]bool{}
							}
							if c.nonNil == nil {
								c.nonNil = map[string]bool{}
							}
							okB := c.withErr(id.Name, true, rest)
							errB := c.withErr(id.Name, false, rest)
							return c.moveOp(op, args, okB, errB)
						}
					}
				}
			}
		}
		// err := k.Op(...) where Op belongs to another module and is represented only by its verdict (a boolean field of the state: it
		// succeeds or returns an error; what it does to that module's state is not part of this function's state)
		if len(s.Lhs) == 1 && len(s.Rhs) == 1 {
			if call, ok := s.Rhs[0].(*ast.CallExpr); ok {
				if f, ok := call.Fun.(*ast.SelectorExpr); ok {
					if op, ok := c.stateOpOf(f); ok && op.kind == "oracle" {
						if id, ok := s.Lhs[0].(*ast.Ident); ok {
							if c.nilErr == nil {
								c.nilErr = map[string]bool{}
							}
							if c.nonNil == nil {
								c.nonNil = map[string]bool{}
							}
							okB := c.withErr(id.Name, true, rest)
							errB := c.withErr(id.Name, false, rest)
							return fmt.Sprintf("(if negb (S_%s_%s g_st) then %s else %s)", c.state.state, op.field[0], errB, okB)
						}
					}
				}
			}
		}
		// err := k.Op(...) / err = k.Op(...) where Op is an infallible state operation: perform it, remember that err is nil
		if len(s.Lhs) == 1 && len(s.Rhs) == 1 {
			if call, ok := s.Rhs[0].(*ast.CallExpr); ok {
				if f, ok := call.Fun.(*ast.SelectorExpr); ok {
					if op, ok := c.stateOpOf(f); ok && (op.kind == "add" || op.kind == "nop" || op.kind == "set") {
						if id, ok := s.Lhs[0].(*ast.Ident); ok && c.info.TypeOf(s.Rhs[0]).String() == "error" {
							args := c.stateArgs(op, call)
							if c.nilErr == nil {
								c.nilErr = map[string]bool{}
							}
							return c.applyStateOp(op, args, c.withErr(id.Name, true, rest))
						}
					}
				}
			}
		}
		if len(s.Lhs) == 2 && len(s.Rhs) == 1 && len(list) >= 2 {
			if e2, ok := s.Lhs[1].(*ast.Ident); ok && e2.Name == "err" {
				if ifs, ok := list[1].(*ast.IfStmt); ok && ifs.Init == nil && ifs.Else == nil {
					if be, ok := ifs.Cond.(*ast.BinaryExpr); ok && be.Op == token.NEQ && isNilIdent(be.Y) {
						if id, ok := be.X.(*ast.Ident); ok && id.Name == "err" {
							if x, ok := s.Lhs[0].(*ast.Ident); ok {
								errBranch := c.stmts(ifs.Body.List)
								okBranch := c.stmts(list[2:])
								return fmt.Sprintf("match %s with\n  | Some %s => %s\n  | None => %s\n  end", c.expr(s.Rhs[0]), ident(x.Name), okBranch, errBranch)
							}
						}
					}
					// x, err := f(); if err != nil || cond(x) { body }: the body for an error, and for a value satisfying cond
					if or, ok := ifs.Cond.(*ast.BinaryExpr); ok && or.Op == token.LOR {
						if be, ok := or.X.(*ast.BinaryExpr); ok && be.Op == token.NEQ && isNilIdent(be.Y) {
							if id, ok := be.X.(*ast.Ident); ok && id.Name == "err" {
								if x, ok := s.Lhs[0].(*ast.Ident); ok {
									errBranch := c.stmts(ifs.Body.List)
									okBranch := c.stmts(list[2:])
									return fmt.Sprintf("match %s with\n  | Some %s => (if %s then %s else %s)\n  | None => %s\n  end",
										c.expr(s.Rhs[0]), ident(x.Name), c.expr(or.Y), errBranch, okBranch, errBranch)
								}
							}
						}
					}
				}
			}
			return c.fail("two-value assignment outside the `x, err := f(); if err != nil` idiom")
		}
		if len(s.Lhs) != 1 || len(s.Rhs) != 1 {
			return c.fail("multiple assignment")
		}
		if id, ok := s.Rhs[0].(*ast.Ident); ok && c.dropVars[id.Name] {
			return rest() // free text (a result message) is not modelled
		}
		rhs := c.expr(s.Rhs[0])
		switch s.Tok {
		case token.ADD_ASSIGN:
			rhs = fmt.Sprintf("(%s + %s)", c.expr(s.Lhs[0]), rhs)
		case token.SUB_ASSIGN:
			rhs = fmt.Sprintf("(%s - %s)", c.expr(s.Lhs[0]), rhs)
		case token.ASSIGN, token.DEFINE:
		default:
			return c.fail("assignment operator %s", s.Tok)
		}
		return c.assignTo(s.Lhs[0], rhs, rest())
	case *ast.IncDecStmt:
		op := "+"
		if s.Tok == token.DEC {
			op = "-"
		}
		return c.assignTo(s.X, fmt.Sprintf("(%s %s 1)", c.expr(s.X), op), rest())
	case *ast.DeferStmt:
		if c.skippable(s.Call) {
			return rest()
		}
		return c.fail("defer statement")
	case *ast.ExprStmt:
		// a call of a whitelisted mutating method on a whitelisted struct variable
		if call, ok := s.X.(*ast.CallExpr); ok {
			if c.skippable(call) {
				return rest()
			}
			if f, ok := call.Fun.(*ast.SelectorExpr); ok {
				if op, ok := c.stateOpOf(f); ok && (op.kind == "emitpay" || op.kind == "emithook") {
					return c.emitOp(op, call, rest())
				}
				if op, ok := c.stateOpOf(f); ok && op.kind != "get" {
					return c.applyStateOp(op, c.stateArgs(op, call), rest())
				}
			}
			if id, ok := call.Fun.(*ast.Ident); ok && id.Name == "panic" {
				// inside a message handler a panic aborts the transaction like an error does
				if c.state != nil && (c.results == "err" || c.results == "valerr") {
					return "None"
				}
				return c.fail("panic statement")
			}
			if f, ok := call.Fun.(*ast.SelectorExpr); ok {
				if id, ok := f.X.(*ast.Ident); ok {
					fnObj, _ := c.info.Uses[f.Sel].(*types.Func)
					if st := c.k.structOf(c.info.TypeOf(f.X)); st != "" && fnObj != nil && c.k.fn[fnObj] != "" {
						if id.Name == c.recvName {
							c.mutating = true
						}
						return fmt.Sprintf("let %s := %s in\n  %s", ident(id.Name), c.call(call), rest())
					}
				}
			}
		}
		return c.fail("expression statement")
	}
	return c.fail("statement %T", list[0])
}

// assignsReceiver: does the body assign to a field of the receiver or call a mutating whitelisted method on it (syntactically)?
func assignsReceiver(body *ast.BlockStmt, recv string, mutMethods map[string]bool, recvType string) bool {
	found := false
	ast.Inspect(body, func(n ast.Node) bool {
		switch x := n.(type) {
		case *ast.AssignStmt:
			for _, l := range x.Lhs {
				if se, ok := l.(*ast.SelectorExpr); ok {
					if id, ok := se.X.(*ast.Ident); ok && id.Name == recv {
						found = true
					}
				}
			}
		case *ast.ExprStmt:
			if call, ok := x.X.(*ast.CallExpr); ok {
				if f, ok := call.Fun.(*ast.SelectorExpr); ok {
					if id, ok := f.X.(*ast.Ident); ok && id.Name == recv && mutMethods[recvType+"."+f.Sel.Name] {
						found = true
					}
				}
			}
		}
		return true
	})
	return found
}

func analyseKernels(w *world) string {
	k := &ktrans{w: w, structs: map[string]*types.Named{}, spec: map[string]bool{}, gname: map[*types.TypeName]string{},
		fn: map[*types.Func]string{}, assume: map[*types.Func]bool{}, mutFn: map[*types.Func]bool{}}
	type item struct {
		spec  kernelSpec
		fn    *types.Func
		fd    *funcDecl
		gname string // Gallina name of the translation
		grecv string // Gallina name of the receiver struct ("" for a function)
	}
	var items []item
	for _, sp := range extraStructs {
		if p := w.all[repoModule+"/"+sp.pkg]; p != nil {
			if obj := p.Types.Scope().Lookup(sp.recv); obj != nil {
				k.register(obj.Type().(*types.Named))
			}
		}
	}
	for _, sp := range assumeOK {
		if p := w.all[repoModule+"/"+sp.pkg]; p != nil {
			if sp.recv != "" {
				if obj := p.Types.Scope().Lookup(sp.recv); obj != nil {
					if m, _, _ := types.LookupFieldOrMethod(types.NewPointer(obj.Type()), true, p.Types, sp.name); m != nil {
						if fn, _ := m.(*types.Func); fn != nil {
							k.assume[fn] = true
						}
					}
				}
				continue
			}
			if fn, _ := p.Types.Scope().Lookup(sp.name).(*types.Func); fn != nil {
				k.assume[fn] = true
			}
		}
	}
	usedNames := map[string]bool{}
	modOf := func(pkg string) string {
		parts := strings.Split(pkg, "/")
		if parts[0] == "x" && len(parts) > 1 {
			return parts[1]
		}
		return parts[0]
	}
	for _, sp := range kernelList {
		k.spec[sp.recv+"."+sp.name] = true
		p := w.all[repoModule+"/"+sp.pkg]
		if p == nil {
			k.errs = append(k.errs, "package not loaded: "+sp.pkg)
			continue
		}
		if sp.recv == "" {
			g := "K__" + sp.name
			if usedNames[g] {
				g = "K_" + modOf(sp.pkg) + "_" + sp.name
			}
			usedNames[g] = true
			fn, _ := p.Types.Scope().Lookup(sp.name).(*types.Func)
			if fn == nil || w.decls[fn] == nil {
				k.errs = append(k.errs, "function not found: "+sp.name)
				items = append(items, item{spec: sp, gname: g})
				continue
			}
			k.fn[fn] = g
			items = append(items, item{sp, fn, w.decls[fn], g, ""})
			continue
		}
		obj := p.Types.Scope().Lookup(sp.recv)
		if obj == nil {
			k.errs = append(k.errs, "type not found: "+sp.recv)
			continue
		}
		named := obj.Type().(*types.Named)
		grecv := k.register(named)
		g := fmt.Sprintf("K_%s_%s", grecv, sp.name)
		usedNames[g] = true
		var fn *types.Func
		for i := 0; i < named.NumMethods(); i++ {
			if named.Method(i).Name() == sp.name {
				fn = named.Method(i)
			}
		}
		if fn == nil || w.decls[fn] == nil {
			k.errs = append(k.errs, fmt.Sprintf("method not found: %s.%s", sp.recv, sp.name))
			items = append(items, item{spec: sp, gname: g, grecv: grecv})
			continue
		}
		k.fn[fn] = g
		items = append(items, item{sp, fn, w.decls[fn], g, grecv})
	}
	b := &k.out
	b.WriteString("(* Gen/kernels.v — GENERATED by /verif/translator (kernels.go) from /repo's Go sources; do not edit.\n")
	b.WriteString("   Each K_<Type>_<method> is the translation of the Go method of that name; Proofs/GenKernels.v proves it equal to the\n")
	b.WriteString("   corresponding function of the hand-written model. *)\n")
	b.WriteString("From Coq Require Import ZArith Bool List.\nFrom Sge Require Import Lib.Dec.\nImport ListNotations.\nOpen Scope Z_scope.\nOpen Scope bool_scope.\n\n")
	b.WriteString("Definition klen {A} (l : list A) : Z := Z.of_nat (length l).\n")
	b.WriteString("(* a range loop: the state carries the variables the body assigns and a flag set by break / return *)\nDefinition kfold {S A} (init : S) (l : list A) (f : S -> A -> S) : S := fold_left f l init.\n")
	b.WriteString("Definition kseq (n : Z) : list Z := map Z.of_nat (seq 0 (Z.to_nat n)).\n(* xs[k]; outside the range (where Go panics) the given zero value *)\nDefinition knth {A} (l : list A) (k : Z) (d : A) : A := if k <? 0 then d else nth (Z.to_nat k) l d.\n")
	b.WriteString("(* replace the first element satisfying f by v, or append v *)\nFixpoint kupd {A} (f : A -> bool) (v : A) (l : list A) : list A := match l with [] => [v] | x :: r => if f x then v :: r else x :: kupd f v r end.\n")
	b.WriteString("Definition dec_ceil (a : Z) : Z := let q := Z.quot a PREC in let r := Z.rem a PREC in if r =? 0 then q * PREC else if r <? 0 then q * PREC else (q + 1) * PREC.\n\n")
	// records
	emitted := map[string]bool{}
	for _, name := range k.order {
		st := k.structs[name].Underlying().(*types.Struct)
		var fields []string
		var fnames []string
		for i := 0; i < st.NumFields(); i++ {
			f := st.Field(i)
			gt, _ := k.galType(f.Type())
			if gt == "" || (strings.HasPrefix(gt, "G_") && !emitted[gt]) {
				continue
			}
			fields = append(fields, fmt.Sprintf("G_%s_%s : %s", name, f.Name(), gt))
			fnames = append(fnames, f.Name())
		}
		fmt.Fprintf(b, "Record G_%s := { %s }.\n", name, strings.Join(fields, "; "))
		var zs []string
		for i := 0; i < st.NumFields(); i++ {
			f := st.Field(i)
			gt, _ := k.galType(f.Type())
			if gt == "" || (strings.HasPrefix(gt, "G_") && !emitted[gt]) {
				continue
			}
			z := "0"
			if strings.HasPrefix(gt, "G_") {
				z = gt + "_zero"
			}
			if gt == "bool" {
				z = "false"
			} else if strings.HasPrefix(gt, "list ") {
				z = "[]"
			}
			zs = append(zs, fmt.Sprintf("G_%s_%s := %s", name, f.Name(), z))
		}
		fmt.Fprintf(b, "Definition G_%s_zero : G_%s := {| %s |}.\n", name, name, strings.Join(zs, "; "))
		emitted["G_"+name] = true
		for _, fn := range fnames {
			var parts []string
			for _, g := range fnames {
				if g == fn {
					parts = append(parts, fmt.Sprintf("G_%s_%s := v", name, g))
				} else {
					parts = append(parts, fmt.Sprintf("G_%s_%s := G_%s_%s r", name, g, name, g))
				}
			}
			fmt.Fprintf(b, "Definition set_G_%s_%s (r : G_%s) (v : _) : G_%s := {| %s |}.\n", name, fn, name, name, strings.Join(parts, "; "))
		}
		b.WriteString("\n")
	}
	// which methods mutate their receiver (fixpoint over the whitelist, syntactic)
	mut := map[string]bool{}
	for changed := true; changed; {
		changed = false
		for _, it := range items {
			if it.fd == nil || it.fd.decl.Recv == nil || len(it.fd.decl.Recv.List[0].Names) == 0 {
				continue
			}
			key := it.spec.recv + "." + it.spec.name
			if !mut[key] && assignsReceiver(it.fd.decl.Body, it.fd.decl.Recv.List[0].Names[0].Name, mut, it.spec.recv) {
				mut[key] = true
				changed = true
			}
		}
	}
	for _, it := range items {
		if it.fn != nil && mut[it.spec.recv+"."+it.spec.name] {
			k.mutFn[it.fn] = true
		}
	}
	// order: callees before callers (simple: emit in whitelist order, which lists callees first; setMaxLoss before SetCurrentRound)
	for _, it := range items {
		gname := it.gname
		if it.fd == nil {
			fmt.Fprintf(b, "(* %s: NOT FOUND in the source *)\nDefinition %s : unit := tt.\n\n", gname, gname)
			continue
		}
		d := it.fd.decl
		c := &fctx{k: k, info: it.fd.pkg.TypesInfo, pkg: it.fd.pkg, recvType: it.grecv}
		if d.Recv != nil && len(d.Recv.List[0].Names) > 0 {
			c.recvName = d.Recv.List[0].Names[0].Name
		} else if d.Recv != nil {
			c.recvName = "_recv"
		}
		c.mutating = mut[it.spec.recv+"."+it.spec.name]
		sig := it.fn.Type().(*types.Signature)
		isErr := func(t types.Type) bool { return t.String() == "error" }
		switch sig.Results().Len() {
		case 0:
			c.results = "none"
		case 1:
			if isErr(sig.Results().At(0).Type()) {
				c.results = "err"
			} else {
				c.results = "val"
			}
		case 2:
			if isErr(sig.Results().At(1).Type()) {
				c.results = "valerr"
			} else {
				c.results = "val2"
			}
		case 3:
			if isErr(sig.Results().At(2).Type()) {
				c.results = "val2err"
			}
		}
		var params []string
		if it.spec.recv != "" {
			params = append(params, fmt.Sprintf("(%s : G_%s)", ident(c.recvName), it.grecv))
		}
		for i := 0; i < sig.Params().Len(); i++ {
			p := sig.Params().At(i)
			gt, _ := k.galType(p.Type())
			if iface, ok := p.Type().Underlying().(*types.Interface); ok && iface.Empty() {
				// a validator of the params package: `v, ok := i.(T)` fixes the type of i
				ast.Inspect(d.Body, func(n ast.Node) bool {
					if ta, ok := n.(*ast.TypeAssertExpr); ok && ta.Type != nil {
						if id, ok := ta.X.(*ast.Ident); ok && id.Name == p.Name() && gt == "" {
							gt, _ = k.galType(c.info.TypeOf(ta.Type))
						}
					}
					return true
				})
			}
			if gt == "" {
				c.fail("parameter %s has an unsupported type", p.Name())
				gt = "Z"
			}
			params = append(params, fmt.Sprintf("(%s : %s)", ident(p.Name()), gt))
		}
		var body string
		if c.results == "" {
			body = c.fail("result shape")
		} else if c.mutating && (c.results == "val" || c.results == "valerr" || c.results == "val2err") {
			body = c.fail("a method that both assigns to its receiver and returns a value")
		} else {
			body = c.stmts(d.Body.List)
		}
		pos := w.fset.Position(d.Pos())
		if c.bad != "" {
			k.errs = append(k.errs, fmt.Sprintf("%s.%s: %s", it.spec.recv, it.spec.name, c.bad))
			fmt.Fprintf(b, "(* %s (%s:%d): UNTRANSLATABLE: %s *)\nDefinition %s : unit := tt.\n\n", gname, w.relFile(d.Pos()), pos.Line, c.bad, gname)
			continue
		}
		fmt.Fprintf(b, "(* %s %s *)\nDefinition %s %s :=\n  %s.\n\n", w.relFile(d.Pos()), it.spec.name, gname, strings.Join(params, " "), body)
	}
	// stateful kernels
	stateEmitted := map[string]bool{}
	stateFieldsOf := map[string][]stateField{}
	for i := range statefulList {
		if len(statefulList[i].fields) > 0 {
			stateFieldsOf[statefulList[i].state] = statefulList[i].fields
		}
	}
	for i := range statefulList {
		sp := &statefulList[i]
		S := "S_" + sp.state
		if !stateEmitted[S] {
			stateEmitted[S] = true
			var fs, names []string
			for _, f := range stateFieldsOf[sp.state] {
				fs = append(fs, fmt.Sprintf("%s_%s : %s", S, f.name, f.typ))
				names = append(names, f.name)
			}
			fmt.Fprintf(b, "(* the state %s.%s reads and writes through its keeper and context *)\nRecord %s := { %s }.\n", sp.pkg, sp.name, S, strings.Join(fs, "; "))
			for _, fn := range names {
				var parts []string
				for _, g := range names {
					if g == fn {
						parts = append(parts, fmt.Sprintf("%s_%s := v", S, g))
					} else {
						parts = append(parts, fmt.Sprintf("%s_%s := %s_%s r", S, g, S, g))
					}
				}
				fmt.Fprintf(b, "Definition set_%s_%s (r : %s) (v : _) : %s := {| %s |}.\n", S, fn, S, S, strings.Join(parts, "; "))
			}
		}
		gname := fmt.Sprintf("K_%s_%s", sp.state, sp.name)
		if sp.recv == "msgServer" {
			gname = fmt.Sprintf("K_%s_msg%s", sp.state, sp.name)
		}
		p := w.all[repoModule+"/"+sp.pkg]
		var fn *types.Func
		if p != nil && sp.recv == "" {
			fn, _ = p.Types.Scope().Lookup(sp.name).(*types.Func)
		} else if p != nil {
			if obj := p.Types.Scope().Lookup(sp.recv); obj != nil {
				if named, ok := obj.Type().(*types.Named); ok {
					for j := 0; j < named.NumMethods(); j++ {
						if named.Method(j).Name() == sp.name {
							fn = named.Method(j)
						}
					}
				}
			}
		}
		if fn == nil || w.decls[fn] == nil {
			k.errs = append(k.errs, "stateful function not found: "+sp.name)
			fmt.Fprintf(b, "(* %s: NOT FOUND in the source *)\nDefinition %s : unit := tt.\n\n", gname, gname)
			continue
		}
		fd := w.decls[fn]
		c := &fctx{k: k, info: fd.pkg.TypesInfo, pkg: fd.pkg, recvName: "st", mutating: true, results: "none", state: sp, stFields: stateFieldsOf[sp.state]}
		sig := fn.Type().(*types.Signature)
		switch {
		case sig.Results().Len() == 0 && sp.panics:
			c.results = "err"
		case sig.Results().Len() == 0:
		case sig.Results().Len() == 1 && sig.Results().At(0).Type().String() == "error":
			c.results = "err"
		case sig.Results().Len() == 1 && sp.returns == "value":
			c.results = "val"
		case sig.Results().Len() == 2 && sig.Results().At(1).Type().String() == "error":
			c.results = "valerr"
		case sig.Results().Len() == 3 && sig.Results().At(2).Type().String() == "error":
			c.results = "val2err"
		default:
			c.fail("a stateful kernel returns nothing, an error, a value (declared) or a response and an error")
		}
		params := []string{fmt.Sprintf("(g_st : %s)", S)}
		for j := 0; j < sig.Params().Len(); j++ {
			pv := sig.Params().At(j)
			if isCtx(pv.Type()) {
				continue
			}
			if isString(pv.Type()) {
				keep := false
				for _, n := range sp.idParams {
					keep = keep || n == pv.Name()
				}
				if keep {
					params = append(params, fmt.Sprintf("(%s : Z)", ident(pv.Name())))
					continue
				}
				if c.dropVars == nil {
					c.dropVars = map[string]bool{}
				}
				c.dropVars[pv.Name()] = true
				continue
			}
			if isAddr(pv.Type()) {
				if c.state != nil && c.state.addrParams {
					params = append(params, fmt.Sprintf("(%s : Z)", ident(pv.Name())))
				}
				continue
			}
			if gt, _ := k.galType(pv.Type()); gt != "" {
				params = append(params, fmt.Sprintf("(%s : %s)", ident(pv.Name()), gt))
			}
		}
		body := c.stmts(fd.decl.Body.List)
		for j := sig.Results().Len() - 1; j >= 0; j-- {
			rv := sig.Results().At(j)
			if rv.Name() != "" && rv.Name() != "_" && rv.Type().String() != "error" {
				body = fmt.Sprintf("let %s := %s in\n  %s", ident(rv.Name()), zeroOf(rv.Type()), body)
			}
		}
		pos := w.fset.Position(fd.decl.Pos())
		if c.bad != "" {
			k.errs = append(k.errs, fmt.Sprintf("%s: %s", sp.name, c.bad))
			fmt.Fprintf(b, "(* %s (%s:%d): UNTRANSLATABLE: %s *)\nDefinition %s : unit := tt.\n\n", gname, w.relFile(fd.decl.Pos()), pos.Line, c.bad, gname)
			continue
		}
		fmt.Fprintf(b, "(* %s %s *)\nDefinition %s %s :=\n  %s.\n\n", w.relFile(fd.decl.Pos()), sp.name, gname, strings.Join(params, " "), body)
	}
	sort.Strings(k.errs)
	for _, e := range k.errs {
		w.warnf("kernels: %s", e)
	}
	return b.String()
}

package main

import (
	"fmt"
	"go/ast"
	"go/constant"
	"go/token"
	"go/types"
	"sort"
	"strings"

	"golang.org/x/tools/go/packages"
)

type maccPerm struct {
	name  string
	perms []string
}

type permsTables struct {
	maccPerms      []maccPerm
	blocked        []string
	blockedNote    string // how the blocked list was derived
	beginBlockers  []string
	endBlockers    []string
	custodyAccount []string
}

// evalString statically evaluates a string-valued expression: a constant
// expression, or a call (without arguments that matter) to a repo function
// whose body is a single `return <evaluable expr>`.
func (w *world) evalString(p *packages.Package, e ast.Expr, depth int) (string, error) {
	if depth > 8 {
		return "", fmt.Errorf("evaluation too deep")
	}
	e = ast.Unparen(e)
	if tv, ok := p.TypesInfo.Types[e]; ok && tv.Value != nil && tv.Value.Kind() == constant.String {
		return constant.StringVal(tv.Value), nil
	}
	if call, ok := e.(*ast.CallExpr); ok {
		fn, _ := calleeOf(p.TypesInfo, call)
		if fn == nil {
			return "", fmt.Errorf("%s: cannot resolve callee", w.fset.Position(e.Pos()))
		}
		fd := w.decls[fn.Origin()]
		if fd == nil {
			return "", fmt.Errorf("%s: callee %s has no body in the repo", w.fset.Position(e.Pos()), fn.FullName())
		}
		stmts := fd.decl.Body.List
		if len(stmts) != 1 {
			return "", fmt.Errorf("%s: body of %s is not a single return", w.fset.Position(e.Pos()), fn.FullName())
		}
		ret, ok := stmts[0].(*ast.ReturnStmt)
		if !ok || len(ret.Results) != 1 {
			return "", fmt.Errorf("%s: body of %s is not a single return", w.fset.Position(e.Pos()), fn.FullName())
		}
		return w.evalString(fd.pkg, ret.Results[0], depth+1)
	}
	return "", fmt.Errorf("%s: expression is not a string constant", w.fset.Position(e.Pos()))
}

func (w *world) evalStringList(p *packages.Package, e ast.Expr) ([]string, error) {
	e = ast.Unparen(e)
	if id, ok := e.(*ast.Ident); ok && id.Name == "nil" {
		if _, isNil := p.TypesInfo.Uses[id].(*types.Nil); isNil {
			return nil, nil
		}
	}
	cl, ok := e.(*ast.CompositeLit)
	if !ok {
		return nil, fmt.Errorf("%s: expected a []string literal or nil", w.fset.Position(e.Pos()))
	}
	var out []string
	for _, el := range cl.Elts {
		if _, isKV := el.(*ast.KeyValueExpr); isKV {
			return nil, fmt.Errorf("%s: keyed slice literal not supported", w.fset.Position(el.Pos()))
		}
		s, err := w.evalString(p, el, 0)
		if err != nil {
			return nil, err
		}
		out = append(out, s)
	}
	return out, nil
}

func (w *world) appPkg() *packages.Package { return w.all[repoModule+"/app"] }

// findFunc finds a function or method by name in repo packages under prefix.
func (w *world) findFuncs(pkgPrefix, name string) []*types.Func {
	var out []*types.Func
	for fn := range w.decls {
		if fn.Name() == name && strings.HasPrefix(pkgPathOf(fn), pkgPrefix) {
			out = append(out, fn)
		}
	}
	sort.Slice(out, func(i, j int) bool { return out[i].FullName() < out[j].FullName() })
	return out
}

func analysePerms(w *world) (*permsTables, error) {
	app := w.appPkg()
	if app == nil {
		return nil, fmt.Errorf("package %s/app not loaded", repoModule)
	}
	pt := &permsTables{}

	// --- mAccPerms -------------------------------------------------------
	var lit *ast.CompositeLit
	var maccObj types.Object
	for _, f := range app.Syntax {
		for _, d := range f.Decls {
			gd, ok := d.(*ast.GenDecl)
			if !ok || gd.Tok != token.VAR {
				continue
			}
			for _, s := range gd.Specs {
				vs := s.(*ast.ValueSpec)
				for i, n := range vs.Names {
					if n.Name != "mAccPerms" && n.Name != "maccPerms" {
						continue
					}
					if i >= len(vs.Values) {
						return nil, fmt.Errorf("%s: mAccPerms has no initialiser", w.fset.Position(n.Pos()))
					}
					cl, ok := ast.Unparen(vs.Values[i]).(*ast.CompositeLit)
					if !ok {
						return nil, fmt.Errorf("%s: mAccPerms initialiser is not a composite literal", w.fset.Position(n.Pos()))
					}
					lit = cl
					maccObj = app.TypesInfo.Defs[n]
				}
			}
		}
	}
	if lit == nil {
		return nil, fmt.Errorf("var mAccPerms not found in %s/app", repoModule)
	}
	seen := map[string]bool{}
	for _, el := range lit.Elts {
		kv, ok := el.(*ast.KeyValueExpr)
		if !ok {
			return nil, fmt.Errorf("%s: mAccPerms element is not key: value", w.fset.Position(el.Pos()))
		}
		k, err := w.evalString(app, kv.Key, 0)
		if err != nil {
			return nil, fmt.Errorf("mAccPerms key: %w", err)
		}
		v, err := w.evalStringList(app, kv.Value)
		if err != nil {
			return nil, fmt.Errorf("mAccPerms[%q]: %w", k, err)
		}
		if seen[k] {
			return nil, fmt.Errorf("mAccPerms: duplicate key %q", k)
		}
		seen[k] = true
		pt.maccPerms = append(pt.maccPerms, maccPerm{k, v})
	}
	// mAccPerms must not be mutated anywhere else (m[k] = v, delete(m, k)).
	for _, p := range w.pkgs {
		for _, f := range p.Syntax {
			var bad token.Pos
			ast.Inspect(f, func(n ast.Node) bool {
				switch n := n.(type) {
				case *ast.AssignStmt:
					for _, l := range n.Lhs {
						if ix, ok := ast.Unparen(l).(*ast.IndexExpr); ok && refersTo(p.TypesInfo, ix.X, maccObj) {
							bad = n.Pos()
						}
						if refersTo(p.TypesInfo, l, maccObj) {
							bad = n.Pos()
						}
					}
				case *ast.CallExpr:
					if id, ok := ast.Unparen(n.Fun).(*ast.Ident); ok && id.Name == "delete" && len(n.Args) > 0 &&
						refersTo(p.TypesInfo, n.Args[0], maccObj) {
						bad = n.Pos()
					}
				}
				return true
			})
			if bad.IsValid() {
				return nil, fmt.Errorf("%s: mAccPerms is mutated outside its literal; cannot evaluate it statically", w.fset.Position(bad))
			}
		}
	}

	// --- blocked module accounts ----------------------------------------
	pt.blocked, pt.blockedNote = w.analyseBlocked(pt.maccPerms)

	// --- begin / end blockers ---------------------------------------------
	var err error
	if pt.beginBlockers, err = w.evalOrderFunc(app, "orderBeginBlockers"); err != nil {
		return nil, err
	}
	if pt.endBlockers, err = w.evalOrderFunc(app, "orderEndBlockers"); err != nil {
		return nil, err
	}

	// --- custody accounts -------------------------------------------------
	cust := map[string]bool{}
	for _, fn := range w.findFuncs(repoModule+"/x/", "GetModuleAcc") {
		if declaredRecv(fn) == nil || excludedImplPkg(pkgPathOf(fn)) {
			continue
		}
		fd := w.decls[fn]
		if len(fd.decl.Body.List) != 1 {
			return nil, fmt.Errorf("%s: body is not a single return", fn.FullName())
		}
		ret, ok := fd.decl.Body.List[0].(*ast.ReturnStmt)
		if !ok || len(ret.Results) != 1 {
			return nil, fmt.Errorf("%s: body is not a single return", fn.FullName())
		}
		s, err := w.evalString(fd.pkg, ret.Results[0], 0)
		if err != nil {
			return nil, fmt.Errorf("%s: %w", fn.FullName(), err)
		}
		cust[s] = true
	}
	for s := range cust {
		pt.custodyAccount = append(pt.custodyAccount, s)
	}
	sort.Strings(pt.custodyAccount)
	return pt, nil
}

func refersTo(info *types.Info, e ast.Expr, obj types.Object) bool {
	if obj == nil {
		return false
	}
	switch e := ast.Unparen(e).(type) {
	case *ast.Ident:
		return info.Uses[e] == obj
	case *ast.SelectorExpr:
		return info.Uses[e.Sel] == obj
	}
	return false
}

func (w *world) evalOrderFunc(app *packages.Package, name string) ([]string, error) {
	for fn, fd := range w.decls {
		if fn.Name() != name || fd.pkg != app || declaredRecv(fn) != nil {
			continue
		}
		if len(fd.decl.Body.List) != 1 {
			return nil, fmt.Errorf("%s: body is not a single return", name)
		}
		ret, ok := fd.decl.Body.List[0].(*ast.ReturnStmt)
		if !ok || len(ret.Results) != 1 {
			return nil, fmt.Errorf("%s: body is not a single return", name)
		}
		l, err := w.evalStringList(app, ret.Results[0])
		if err != nil {
			return nil, fmt.Errorf("%s: %w", name, err)
		}
		return l, nil
	}
	return nil, fmt.Errorf("func %s not found in %s/app", name, repoModule)
}

// analyseBlocked determines which module accounts are in the bank keeper's
// blocked-address set.  It locates the function whose result is passed as the
// blockedAddrs argument of bankkeeper.NewBaseKeeper (falling back to a
// function named BlockedAddresses / ModuleAccountAddrs), checks that it fills
// a map[string]bool from a range over the macc perms, and subtracts every
// entry removed with delete(m, NewModuleAddress(<const>).String()).
// If anything is not understood the list is EMPTY (so that theorems fail).
func (w *world) analyseBlocked(maccs []maccPerm) ([]string, string) {
	var target *types.Func
	how := ""
	// 1. argument of NewBaseKeeper
	for _, p := range w.pkgs {
		if !strings.HasPrefix(p.PkgPath, repoModule+"/app") {
			continue
		}
		for _, f := range p.Syntax {
			ast.Inspect(f, func(n ast.Node) bool {
				call, ok := n.(*ast.CallExpr)
				if !ok || target != nil {
					return true
				}
				fn, _ := calleeOf(p.TypesInfo, call)
				if fn == nil || fn.Name() != "NewBaseKeeper" || !strings.HasSuffix(pkgPathOf(fn), "/x/bank/keeper") {
					return true
				}
				// the blockedAddrs parameter is the one of type map[string]bool
				sig := fn.Type().(*types.Signature)
				for i := 0; i < sig.Params().Len() && i < len(call.Args); i++ {
					if !isMapStringBool(sig.Params().At(i).Type()) {
						continue
					}
					if ac, ok := ast.Unparen(call.Args[i]).(*ast.CallExpr); ok {
						if af, _ := calleeOf(p.TypesInfo, ac); af != nil && w.decls[af.Origin()] != nil {
							target = af.Origin()
							how = fmt.Sprintf("blockedAddrs argument of bankkeeper.NewBaseKeeper at %s:%d is %s",
								w.relFile(call.Pos()), w.fset.Position(call.Pos()).Line, af.FullName())
						}
					}
				}
				return true
			})
		}
	}
	if target == nil {
		for _, name := range []string{"BlockedAddresses", "BlockedAddrs", "BlockedModuleAccountAddrs", "ModuleAccountAddrs"} {
			if fs := w.findFuncs(repoModule+"/app", name); len(fs) > 0 {
				target = fs[0]
				how = "fallback: function " + fs[0].FullName()
				break
			}
		}
	}
	if target == nil {
		return nil, "UNKNOWN: no blocked-address function found; list left empty"
	}
	unblocked, ok, why := w.blockedFunc(target, 0)
	if !ok {
		return nil, "UNKNOWN (" + why + "); " + how + "; list left empty"
	}
	var out []string
	for _, m := range maccs {
		if !unblocked[m.name] {
			out = append(out, m.name)
		}
	}
	var ub []string
	for u := range unblocked {
		ub = append(ub, u)
	}
	sort.Strings(ub)
	return out, fmt.Sprintf("%s; all mAccPerms keys are blocked except explicitly deleted: [%s]", how, strings.Join(ub, ", "))
}

func isMapStringBool(t types.Type) bool {
	m, ok := t.Underlying().(*types.Map)
	if !ok {
		return false
	}
	k, ok1 := m.Key().Underlying().(*types.Basic)
	v, ok2 := m.Elem().Underlying().(*types.Basic)
	return ok1 && ok2 && k.Kind() == types.String && v.Kind() == types.Bool
}

func isMaccPermsMap(t types.Type) bool {
	m, ok := t.Underlying().(*types.Map)
	if !ok {
		return false
	}
	k, ok1 := m.Key().Underlying().(*types.Basic)
	s, ok2 := m.Elem().Underlying().(*types.Slice)
	return ok1 && ok2 && k.Kind() == types.String && types.Identical(s.Elem().Underlying(), types.Typ[types.String])
}

// blockedFunc analyses a function returning the blocked map.  It returns the
// set of module-account names explicitly removed.
func (w *world) blockedFunc(fn *types.Func, depth int) (map[string]bool, bool, string) {
	fd := w.decls[fn]
	if fd == nil || depth > 3 {
		return nil, false, "no body for " + fn.FullName()
	}
	info := fd.pkg.TypesInfo
	unblocked := map[string]bool{}
	filled := false
	okAll := true
	why := ""
	fail := func(pos token.Pos, msg string) {
		okAll = false
		if why == "" {
			why = fmt.Sprintf("%s:%d: %s", w.relFile(pos), w.fset.Position(pos).Line, msg)
		}
	}
	moduleAddrArg := func(e ast.Expr) (string, bool) {
		// expects <pkg>.NewModuleAddress(<string const>).String()
		var name string
		found := false
		ast.Inspect(e, func(n ast.Node) bool {
			c, ok := n.(*ast.CallExpr)
			if !ok {
				return true
			}
			if f, _ := calleeOf(info, c); f != nil && f.Name() == "NewModuleAddress" && len(c.Args) == 1 {
				if s, err := w.evalString(fd.pkg, c.Args[0], 0); err == nil {
					name, found = s, true
				}
			}
			return true
		})
		return name, found
	}
	ast.Inspect(fd.decl.Body, func(n ast.Node) bool {
		switch n := n.(type) {
		case *ast.RangeStmt:
			if t := info.TypeOf(n.X); t != nil && isMaccPermsMap(t) {
				// body must be m[NewModuleAddress(key).String()] = true
				good := false
				for _, s := range n.Body.List {
					as, ok := s.(*ast.AssignStmt)
					if !ok || len(as.Lhs) != 1 || len(as.Rhs) != 1 {
						continue
					}
					ix, ok := ast.Unparen(as.Lhs[0]).(*ast.IndexExpr)
					if !ok || !isMapStringBool(info.TypeOf(ix.X)) {
						continue
					}
					if tv, ok := info.Types[as.Rhs[0]]; ok && tv.Value != nil && tv.Value.Kind() == constant.Bool && constant.BoolVal(tv.Value) {
						good = true
					}
				}
				if good && len(n.Body.List) == 1 {
					filled = true
				} else {
					fail(n.Pos(), "range over macc perms does not simply mark every key as blocked")
				}
				return false
			}
		case *ast.CallExpr:
			if id, ok := ast.Unparen(n.Fun).(*ast.Ident); ok && id.Name == "delete" && len(n.Args) == 2 {
				if _, isBuiltin := info.Uses[id].(*types.Builtin); isBuiltin && isMapStringBool(info.TypeOf(n.Args[0])) {
					if name, ok := moduleAddrArg(n.Args[1]); ok {
						unblocked[name] = true
					} else {
						fail(n.Pos(), "cannot evaluate the deleted (unblocked) address")
					}
					return false
				}
			}
			// base map obtained from another repo function returning map[string]bool
			if f, _ := calleeOf(info, n); f != nil && w.decls[f.Origin()] != nil {
				if sig := f.Type().(*types.Signature); sig.Results().Len() == 1 && isMapStringBool(sig.Results().At(0).Type()) {
					sub, ok, swhy := w.blockedFunc(f.Origin(), depth+1)
					if !ok {
						fail(n.Pos(), swhy)
					} else {
						filled = true
						for k := range sub {
							unblocked[k] = true
						}
					}
				}
			}
		case *ast.AssignStmt:
			// m[x] = false  -> unblock
			for i, l := range n.Lhs {
				ix, ok := ast.Unparen(l).(*ast.IndexExpr)
				if !ok || !isMapStringBool(info.TypeOf(ix.X)) || i >= len(n.Rhs) {
					continue
				}
				tv, ok := info.Types[n.Rhs[i]]
				if !ok || tv.Value == nil || tv.Value.Kind() != constant.Bool {
					fail(n.Pos(), "non-constant assignment into the blocked map")
					continue
				}
				if !constant.BoolVal(tv.Value) {
					if name, ok := moduleAddrArg(ix.Index); ok {
						unblocked[name] = true
					} else {
						fail(n.Pos(), "cannot evaluate the unblocked address")
					}
				}
			}
		}
		return true
	})
	if !filled && okAll {
		return nil, false, "function " + fn.FullName() + " does not fill the map from the macc perms"
	}
	return unblocked, okAll, why
}

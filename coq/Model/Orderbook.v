(* Model/Orderbook.v — x/orderbook keeper + types, transcribed function by function.
   Everything here is local to one market's book (DESIGN 4.3a). No proofs in this file. *)
From Coq Require Import ZArith Bool List.
From Sge Require Import Lib.Dec Model.Types.
Import ListNotations.
Open Scope Z_scope.

(* ---- record updates --------------------------------------------------------------- *)
Definition part_upd (p : part) (liq crl enf tba crtb maxloss crml crml_odds profit : Z) : part :=
  {| p_idx := p_idx p; p_owner := p_owner p; p_liq := liq; p_fee := p_fee p; p_crl := crl;
     p_enf := enf; p_tba := tba; p_crtb := crtb; p_maxloss := maxloss; p_crml := crml;
     p_crml_odds := crml_odds; p_profit := profit; p_settled := p_settled p;
     p_returned := p_returned p; p_reimb := p_reimb p |}.
Definition part_set_enf (p : part) (v : Z) : part :=
  part_upd p (p_liq p) (p_crl p) v (p_tba p) (p_crtb p) (p_maxloss p) (p_crml p) (p_crml_odds p) (p_profit p).
Definition part_set_profit (p : part) (v : Z) : part :=
  part_upd p (p_liq p) (p_crl p) (p_enf p) (p_tba p) (p_crtb p) (p_maxloss p) (p_crml p) (p_crml_odds p) v.
Definition part_set_crl (p : part) (v : Z) : part :=
  part_upd p (p_liq p) v (p_enf p) (p_tba p) (p_crtb p) (p_maxloss p) (p_crml p) (p_crml_odds p) (p_profit p).
Definition part_settle (p : part) (returned reimb : Z) : part :=
  {| p_idx := p_idx p; p_owner := p_owner p; p_liq := p_liq p; p_fee := p_fee p; p_crl := p_crl p;
     p_enf := p_enf p; p_tba := p_tba p; p_crtb := p_crtb p; p_maxloss := p_maxloss p;
     p_crml := p_crml p; p_crml_odds := p_crml_odds p; p_profit := p_profit p; p_settled := true;
     p_returned := returned; p_reimb := reimb |}.

Definition expo_upd (e : expo) (ex bt : Z) (ful : bool) : expo :=
  {| e_odds := e_odds e; e_part := e_part e; e_exp := ex; e_bet := bt; e_ful := ful; e_round := e_round e |}.
(* exposure.go NextRound *)
Definition expo_next (e : expo) : expo :=
  {| e_odds := e_odds e; e_part := e_part e; e_exp := 0; e_bet := 0; e_ful := false; e_round := e_round e + 1 |}.

Definition book_upd (b : book) (status partcnt : Z) (queues : list (Z * list Z)) (parts : list part)
           (ex exi hist : list expo) (pairs : list (Z * Z)) : book :=
  {| bk_status := status; bk_oddscnt := bk_oddscnt b; bk_partcnt := partcnt; bk_queues := queues;
     bk_parts := parts; bk_expo := ex; bk_expo_ix := exi; bk_hist := hist; bk_pairs := pairs |}.

(* ---- store accessors ------------------------------------------------------------------ *)
Definition part_is (idx : Z) (p : part) : bool := p_idx p =? idx.
Definition expo_is (o idx : Z) (e : expo) : bool := (e_odds e =? o) && (e_part e =? idx).

Definition get_part (b : book) (idx : Z) : option part := findb (part_is idx) (bk_parts b).
(* SetOrderBookParticipation *)
Definition set_part (b : book) (p : part) : book :=
  book_upd b (bk_status b) (bk_partcnt b) (bk_queues b) (upd (part_is (p_idx p)) p (bk_parts b))
           (bk_expo b) (bk_expo_ix b) (bk_hist b) (bk_pairs b).
(* SetParticipationExposure: writes prefix 0x03 and, through SetParticipationExposureByIndex, 0x04 *)
Definition set_expo (b : book) (e : expo) : book :=
  book_upd b (bk_status b) (bk_partcnt b) (bk_queues b) (bk_parts b)
           (upd (expo_is (e_odds e) (e_part e)) e (bk_expo b))
           (upd (expo_is (e_odds e) (e_part e)) e (bk_expo_ix b)) (bk_hist b) (bk_pairs b).
(* MoveToHistoricalParticipationExposure: historical set (keyed by odds, index, round: a second move of
   the same key overwrites), both indexes removed *)
Definition move_to_hist (b : book) (e : expo) : book :=
  book_upd b (bk_status b) (bk_partcnt b) (bk_queues b) (bk_parts b)
           (remb (expo_is (e_odds e) (e_part e)) (bk_expo b))
           (remb (expo_is (e_odds e) (e_part e)) (bk_expo_ix b))
           (upd (fun h => expo_is (e_odds e) (e_part e) h && (e_round h =? e_round e)) e (bk_hist b)) (bk_pairs b).
Definition get_queue (b : book) (o : Z) : option (list Z) :=
  match findb (fun q => fst q =? o) (bk_queues b) with Some q => Some (snd q) | None => None end.
Definition set_queue (b : book) (o : Z) (q : list Z) : book :=
  book_upd b (bk_status b) (bk_partcnt b) (upd (fun x => fst x =? o) (o, q) (bk_queues b)) (bk_parts b)
           (bk_expo b) (bk_expo_ix b) (bk_hist b) (bk_pairs b).
Definition set_queues (b : book) (qs : list (Z * list Z)) : book :=
  book_upd b (bk_status b) (bk_partcnt b) qs (bk_parts b) (bk_expo b) (bk_expo_ix b) (bk_hist b) (bk_pairs b).
Definition add_pair (b : book) (idx betid : Z) : book :=
  book_upd b (bk_status b) (bk_partcnt b) (bk_queues b) (bk_parts b) (bk_expo b) (bk_expo_ix b) (bk_hist b)
           (upd (fun x => (fst x =? idx) && (snd x =? betid)) (idx, betid) (bk_pairs b)).
Definition set_status (b : book) (st : Z) : book :=
  book_upd b st (bk_partcnt b) (bk_queues b) (bk_parts b) (bk_expo b) (bk_expo_ix b) (bk_hist b) (bk_pairs b).

(* exposure_odds.go removeFromFulfillmentQueue: every occurrence of idx leaves the queue of odds o *)
Definition drop_from_queue (b : book) (o idx : Z) : book :=
  match get_queue b o with
  | None => b
  | Some q => set_queue b o (filter (fun x => negb (x =? idx)) q)
  end.

(* GetExposureByOrderBookAndOdds *)
Definition expos_of_odds (b : book) (o : Z) : list expo := filter (fun e => e_odds e =? o) (bk_expo b).
(* GetExposureByOrderBookAndParticipationIndex (reads prefix 0x04) *)
Definition expos_of_part_ix (b : book) (idx : Z) : list expo := filter (fun e => e_part e =? idx) (bk_expo_ix b).
(* GetExposureByOrderBook: peMap[idx] (reads prefix 0x03) *)
Definition expos_of_part (b : book) (idx : Z) : list expo := filter (fun e => e_part e =? idx) (bk_expo b).

(* orderbook.go InitiateOrderBook *)
Definition new_book (odds : list Z) : book :=
  {| bk_status := BK_ACTIVE; bk_oddscnt := zlen odds; bk_partcnt := 0;
     bk_queues := map (fun o => (o, [])) odds; bk_parts := []; bk_expo := []; bk_expo_ix := [];
     bk_hist := []; bk_pairs := [] |}.

(* ---- types/participation.go ----------------------------------------------------------------- *)
Definition eligible_pre (p : part) : bool := 0 <? p_crl p - zmax0 (p_crml p).
Definition eligible_next (p : part) : bool := 0 <? p_crl p.

(* exposure.go SetCurrentRound + participation.go SetCurrentRound/setMaxLoss.
   CurrentRoundMaxLoss is never nil once read back from the store (Int.Marshal writes "0"). *)
Definition fulfil_records (p : part) (e : expo) (o stake pay : Z) : part * expo :=
  let e' := expo_upd e (e_exp e + pay) (e_bet e + stake) (e_ful e) in
  let tba := p_tba p + stake in
  let crtb := p_crtb p + stake in
  let maxloss := e_exp e' + e_bet e' - crtb in
  let '(crml, co) :=
    if p_crml_odds p =? o then (maxloss, p_crml_odds p)
    else let orig := p_crml p - stake in
         if orig <? maxloss then (maxloss, o) else (orig, p_crml_odds p) in
  (part_upd p (p_liq p) (p_crl p) (p_enf p) tba crtb (p_maxloss p) crml co (p_profit p), e').

(* ---- bet/types/payout.go ----------------------------------------------------------------------- *)
(* CalculatePayoutProfit: odds.MulInt(amount) - amount ; None when odds <= 1 (or unparsable) *)
Definition payout_profit (oddsval amount : Z) : option Z :=
  if oddsval <=? PREC then None else Some (dec_mulint oddsval amount - dec_of_int amount).
(* CalculateBetAmountInt *)
Definition bet_amount_int (oddsval : Z) (profit_dec carry : Z) : Z * Z :=
  let expected := dec_quo profit_dec (oddsval - PREC) + carry in
  let stake := dec_round_int expected in
  (stake, carry + (expected - dec_of_int stake)).

(* ---- bet_wager.go ---------------------------------------------------------------------------------- *)
Record fitem := { fi_part : part; fi_pe : option expo; fi_all : list expo }.

Definition fmap_get (fm : list (Z * fitem)) (idx : Z) : option fitem :=
  match findb (fun x => fst x =? idx) fm with Some x => Some (snd x) | None => None end.
Definition fmap_set (fm : list (Z * fitem)) (idx : Z) (it : fitem) : list (Z * fitem) :=
  upd (fun x => fst x =? idx) (idx, it) fm.

(* calcAvailableLiquidity *)
Definition avail_liq (mult : Z) (p : part) (e : expo) : Z :=
  dec_trunc_int (dec_mulint mult (p_crl p) - dec_of_int (e_exp e)).

(* the last binding for an odds uid wins, as in WagerTicketPayload.OddsMap *)
Definition odds_mult (allodds : list (Z * Z)) (o : Z) : option Z :=
  match findb (fun x => fst x =? o) (rev allodds) with Some x => Some (snd x) | None => None end.

(* checkFullfillmentForOtherOdds. Returns (new ENF, exposures to write); None = error *)
Fixpoint check_other (uids : list Z) (sel : Z) (allodds : list (Z * Z)) (all : list expo) (p : part)
         (thr : Z) (enf : Z) (acc : list expo) : option (Z * list expo) :=
  match uids with
  | [] => Some (enf, acc)
  | o :: rest =>
      if o =? sel then check_other rest sel allodds all p thr enf acc else
      match findb (fun e => e_odds e =? o) all with
      | None => None
      | Some ex =>
          if e_ful ex then check_other rest sel allodds all p thr enf acc else
          match odds_mult allodds o with
          | None => None
          | Some m =>
              let a := avail_liq m p ex in
              if a <=? thr
              then check_other rest sel allodds all p thr (u64_pred enf)
                               (acc ++ [expo_upd ex (e_exp ex) (e_bet ex) true])
              else check_other rest sel allodds all p thr enf acc
          end
      end
  end.

Record wstate := {
  ws_book : book; ws_fmap : list (Z * fitem); ws_uq : list Z;
  ws_betamt : Z; ws_profit : Z (* Dec *); ws_fulfilled : Z; ws_parts : list bpart; ws_carry : Z (* Dec *) }.

Record wargs := {
  wa_sel : Z; wa_oddsval : Z; wa_mult : Z; wa_allodds : list (Z * Z); wa_uids : list Z;
  wa_betid : Z; wa_thr : Z; wa_oddscnt : Z }.

(* prepareParticipationExposuresForNextRound: loops over the STORED exposures of the participation.
   Second component: the next-round exposure of the selected outcome, if one was created
   (it replaces inProcessItem.participationExposure and fulfillmentMap[idx].participationExposure). *)
Fixpoint prep_expos (pes : list expo) (b : book) (eligible : bool) (sel : Z) (cur : option expo)
  : book * option expo :=
  match pes with
  | [] => (b, cur)
  | pe :: rest =>
      let b1 := move_to_hist b pe in
      if eligible then
        let npe := expo_next pe in
        let b2 := set_expo b1 npe in
        prep_expos rest b2 eligible sel (if e_odds pe =? sel then Some npe else cur)
      else prep_expos rest b1 eligible sel cur
  end.

(* prepareOddsExposuresForNextRound: only the head of each stored queue is popped *)
Definition requeue_all (qs : list (Z * list Z)) (idx : Z) : list (Z * list Z) :=
  map (fun q => let l := snd q in
                let l' := match l with h :: t => if h =? idx then t else l | [] => l end in
                (fst q, l' ++ [idx])) qs.

(* ---- one iteration of fulfillBetByParticipationQueue, in four pieces ---------------------------------- *)

(* (1) the three-way switch on the available liquidity: (participation, exposure, setFulfilled,
       Some (stake, payout) if fulfill() ran, new carry) *)
Definition iter_switch (A : wargs) (p0 : part) (pe0 : expo) (s : wstate) : part * expo * bool * option (Z * Z) * Z :=
  let avail := avail_liq (wa_mult A) p0 pe0 in
  let tprofit := dec_trunc_int (ws_profit s) in
  if avail <=? 0 then (p0, pe0, true, None, ws_carry s)
  else if avail <=? tprofit then
    let '(stake0, c) := bet_amount_int (wa_oddsval A) (dec_of_int avail) (ws_carry s) in
    let stake := Z.min (Z.max stake0 0) (ws_betamt s) in        (* never negative, never above what is left of the bet *)
    let '(p, e) := fulfil_records p0 pe0 (wa_sel A) stake avail in
    (p, e, true, Some (stake, avail), c)
  else
    let '(p, e) := fulfil_records p0 pe0 (wa_sel A) (ws_betamt s) tprofit in
    (p, e, (avail - tprofit <=? wa_thr A), Some (ws_betamt s, tprofit), ws_carry s).

(* (2) fulfill(): the bet-side bookkeeping *)
Definition iter_betside (A : wargs) (p0 : part) (stake_opt : option (Z * Z)) (s : wstate)
  : Z * Z * Z * list bpart * book :=
  match stake_opt with
  | None => (ws_betamt s, ws_fulfilled s, ws_profit s, ws_parts s, ws_book s)
  | Some (stake, pay) =>
      (ws_betamt s - stake, ws_fulfilled s + stake, ws_profit s - dec_of_int pay,
       ws_parts s ++ [{| f_owner := p_owner p0; f_idx := p_idx p0; f_stake := stake; f_pay := pay |}],
       add_pair (ws_book s) (p_idx p0) (wa_betid A))
  end.

(* (3) setItemFulfilledAndRemove + checkFullfillmentForOtherOdds; None = error *)
Definition iter_fulfilled (A : wargs) (idx : Z) (it : fitem) (setf : bool) (p1 : part) (pe1 : expo)
           (uq : list Z) (bk0 : book) : option (part * expo * list Z * book) :=
  if setf then
    let pe2 := expo_upd pe1 (e_exp pe1) (e_bet pe1) true in
    let p2 := part_set_enf p1 (u64_pred (p_enf p1)) in
    let uq' := tl uq in
    if eligible_pre p2 then
      if p_enf p2 =? 0 then Some (p2, pe2, uq', bk0)
      else match check_other (wa_uids A) (wa_sel A) (wa_allodds A) (fi_all it) p2 (wa_thr A) (p_enf p2) [] with
           | None => None
           | Some (enf, upds) =>
               (* SetParticipationExposure + removeFromFulfillmentQueue for every secondary fulfilment *)
               Some (part_set_enf p2 enf, pe2, uq',
                     fold_left (fun b e => drop_from_queue (set_expo b e) (e_odds e) idx) upds bk0)
           end
    else Some (p2, pe2, uq', bk0)
  else Some (p1, pe1, uq, bk0).

(* (4) refreshQueueAndState, when all exposures are fulfilled and liquidity remains *)
Definition iter_refresh (A : wargs) (idx : Z) (it : fitem) (p3 : part) (bk2 : book)
           (fm : list (Z * fitem)) (uq3 : list Z) : book * list (Z * fitem) * list Z :=
  let p4 := part_set_crl p3 (p_crl p3 - zmax0 (p_crml p3)) in      (* TrimCurrentRoundLiquidity *)
  let '(bk3, pe4) := prep_expos (expos_of_part_ix bk2 idx) bk2 (eligible_next p4) (wa_sel A) None in
  let fm1 := match pe4 with
             | Some e => fmap_set fm idx {| fi_part := fi_part it; fi_pe := Some e; fi_all := fi_all it |}
             | None => fm end in
  (* ResetForNextRound *)
  let p5 := part_upd p4 (p_liq p4) (p_crl p4) (wa_oddscnt A) (p_tba p4) 0
                     (p_maxloss p4 + p_crml p4) 0 (p_crml_odds p4) (p_profit p4) in
  let fm2 := match fmap_get fm1 idx with
             | Some it' => fmap_set fm1 idx {| fi_part := p5; fi_pe := fi_pe it'; fi_all := fi_all it' |}
             | None => fm1 end in
  let bk4 := set_part bk3 p5 in
  if eligible_next p5 then (set_queues bk4 (requeue_all (bk_queues bk4) idx), fm2, uq3 ++ [idx])
  else (bk4, fm2, uq3).

(* one iteration for queue head idx; None = error/panic *)
Definition wager_iter (A : wargs) (idx : Z) (s : wstate) : option wstate :=
  match fmap_get (ws_fmap s) idx with
  | None => None
  | Some it =>
  match fi_pe it with
  | None => None
  | Some pe0 =>
      let p0 := fi_part it in
      let '(p1, pe1, setf, stake_opt, carry1) := iter_switch A p0 pe0 s in
      let '(betamt, fulfilled, profit, parts, bk0) := iter_betside A p0 stake_opt s in
      match iter_fulfilled A idx it setf p1 pe1 (ws_uq s) bk0 with
      | None => None
      | Some (p3, pe3, uq3, bk1) =>
          let bk2 := set_part (set_expo bk1 pe3) p3 in
          if (p_enf p3 =? 0) && eligible_pre p3 then
            let '(bk5, fm2, uq5) := iter_refresh A idx it p3 bk2 (ws_fmap s) uq3 in
            Some {| ws_book := bk5; ws_fmap := fm2; ws_uq := uq5; ws_betamt := betamt; ws_profit := profit;
                    ws_fulfilled := fulfilled; ws_parts := parts; ws_carry := carry1 |}
          else
            Some {| ws_book := bk2; ws_fmap := ws_fmap s; ws_uq := uq3; ws_betamt := betamt; ws_profit := profit;
                    ws_fulfilled := fulfilled; ws_parts := parts; ws_carry := carry1 |}
      end
  end end.

(* was the head removed by this iteration?  (setFulfilled) — recomputed from the same inputs *)
Definition wager_setf (A : wargs) (idx : Z) (s : wstate) : bool :=
  match fmap_get (ws_fmap s) idx with
  | Some it => match fi_pe it with
               | Some pe0 =>
                   let avail := avail_liq (wa_mult A) (fi_part it) pe0 in
                   let tprofit := dec_trunc_int (ws_profit s) in
                   if avail <=? 0 then true else if avail <=? tprofit then true
                   else (avail - tprofit <=? wa_thr A)
               | None => true end
  | None => true
  end.

(* fulfillBetByParticipationQueue: `for hasUnfulfilledQueueItem` — every iteration either removes the
   head of the loop queue or ends in the last-fulfilment branch, after which profit < 1 breaks the
   loop; fuel = length of the queue + 1 is therefore never exhausted (checked: None on exhaustion). *)
Fixpoint wager_loop (fuel : nat) (A : wargs) (q : list Z) (s : wstate) : option wstate :=
  match q with
  | [] => Some s
  | idx :: rest =>
      match fuel with
      | O => None
      | S fuel' =>
          match wager_iter A idx s with
          | None => None
          | Some s' =>
              let q' := if wager_setf A idx s then rest else q in
              if (ws_profit s' <? PREC) || (match q' with [] => true | _ => false end)
              then Some s' else wager_loop fuel' A q' s'
          end
      end
  end.

(* initFulfillmentInfo *)
Definition init_fmap (b : book) (sel : Z) : option (list (Z * fitem)) :=
  let bps := bk_parts b in
  let pes := expos_of_odds b sel in
  let idxs := znodup (map e_part (bk_expo b)) in
  if negb (bk_partcnt b =? zlen bps) then None
  else if negb (bk_partcnt b =? zlen pes) then None
  else if negb (bk_partcnt b =? zlen idxs) then None
  else if negb (forallb (fun p => zmem (p_idx p) idxs) bps) then None
  else Some (map (fun p => (p_idx p,
                            {| fi_part := p;
                               fi_pe := findb (fun e => e_part e =? p_idx p) pes;
                               fi_all := expos_of_part b (p_idx p) |})) bps).

(* ProcessWager. Returns the new book, the backing parts and the effects. *)
Definition process_wager (b : book) (A : wargs) (betamt profit : Z) (bettor fee : Z)
  : option (book * list bpart * list effect) :=
  match get_queue b (wa_sel A) with
  | None => None
  | Some q =>
      match init_fmap b (wa_sel A) with
      | None => None
      | Some fm =>
          let s0 := {| ws_book := b; ws_fmap := fm; ws_uq := q; ws_betamt := betamt; ws_profit := profit;
                       ws_fulfilled := 0; ws_parts := []; ws_carry := 0 |} in
          match wager_loop (S (length q)) A q s0 with
          | None => None
          | Some s =>
              if PREC <=? ws_profit s then None      (* NoMoreLiquidityAvailable *)
              else if match ws_parts s with [] => true | _ => false end then None   (* no fulfilment at all *)
              else
                let b' := set_queue (ws_book s) (wa_sel A) (ws_uq s) in
                Some (b', ws_parts s, [Pay bettor BETFEE fee; Pay bettor POOL (ws_fulfilled s)])
          end
      end
  end.

(* ---- participation.go ---------------------------------------------------------------------------- *)
(* InitiateOrderBookParticipation (market status checked by the caller) *)
Definition init_participation (b : book) (maxpart : Z) (owner amount fee : Z)
  : option (book * Z * list effect) :=
  if negb (bk_status b =? BK_ACTIVE) then None
  else if maxpart <=? bk_partcnt b then None
  else
    let idx := bk_partcnt b + 1 in
    match get_part b idx with
    | Some _ => None
    | None =>
        let liq := amount - fee in
        let p := {| p_idx := idx; p_owner := owner; p_liq := liq; p_fee := fee; p_crl := liq;
                    p_enf := bk_oddscnt b; p_tba := 0; p_crtb := 0; p_maxloss := 0; p_crml := 0;
                    p_crml_odds := -1; p_profit := 0; p_settled := false; p_returned := 0; p_reimb := 0 |} in
        let b1 := set_part b p in
        (* initParticipationExposures *)
        let b2 := fold_left (fun bb q =>
                     set_expo (set_queue bb (fst q) (snd q ++ [idx]))
                              {| e_odds := fst q; e_part := idx; e_exp := 0; e_bet := 0; e_ful := false; e_round := 1 |})
                   (bk_queues b1) b1 in
        let b3 := book_upd b2 (bk_status b2) idx (bk_queues b2) (bk_parts b2) (bk_expo b2) (bk_expo_ix b2)
                           (bk_hist b2) (bk_pairs b2) in
        Some (b3, idx, [Pay owner POOL liq; Pay owner HOUSEFEE fee])
    end.

(* types/participation.go maxWithdrawalAmount / WithdrawableAmount *)
Definition max_withdrawal (p : part) : Z :=
  if p_crml p <? 0 then p_crl p else p_crl p - p_crml p.
Definition withdrawable_amount (p : part) (mode amount : Z) : option Z :=
  let mx := max_withdrawal p in
  if mode =? WM_FULL then (if mx <=? 0 then None else Some mx)
  else if mode =? WM_PARTIAL then (if mx <? amount then None else Some amount)
  else None.

(* CalcWithdrawalAmount *)
Definition calc_withdrawal (b : book) (depositor idx mode wtotal amount : Z) : option Z :=
  match get_part b idx with
  | None => None
  | Some p =>
      if p_settled p then None
      else if negb (p_owner p =? depositor) then None
      else match expos_of_part_ix b idx with
           | [] => None
           | e :: _ =>
               if negb (e_round e =? 1) then None
               else if (mode =? WM_PARTIAL) && (p_liq p - wtotal <? amount) then None
               else withdrawable_amount p mode amount
           end
  end.

(* removeNotWithdrawableFromFulfillmentQueue: the Go loop deletes while ranging; on a queue with a
   single occurrence this is exactly "remove it"; with two occurrences it panics (slice bounds) when
   the second one is the last element.  The model removes the first occurrence and returns None
   (panic -> tx fails) if another occurrence remains. *)
Fixpoint remove_first (idx : Z) (l : list Z) : list Z :=
  match l with [] => [] | h :: t => if h =? idx then t else h :: remove_first idx t end.
Definition remove_from_queues (qs : list (Z * list Z)) (idx : Z) : option (list (Z * list Z)) :=
  let qs' := map (fun q => (fst q, remove_first idx (snd q))) qs in
  if existsb (fun q => zmem idx (snd q)) qs' then None else Some qs'.

(* WithdrawOrderBookParticipation *)
Definition withdraw_participation (b : book) (idx amount : Z) : option (book * list effect) :=
  match get_part b idx with
  | None => None
  | Some p =>
      let p' := part_upd p (p_liq p - amount) (p_crl p - amount) (p_enf p) (p_tba p) (p_crtb p) (p_maxloss p)
                         (p_crml p) (p_crml_odds p) (p_profit p) in
      let b1 := set_part b p' in
      if 0 <? p_crl p' then Some (b1, [Pay POOL (p_owner p) amount])
      else match remove_from_queues (bk_queues b1) idx with
           | None => None
           | Some qs => Some (set_queues b1 qs, [Pay POOL (p_owner p) amount])
           end
  end.

(* ---- bet_settle.go ------------------------------------------------------------------------------------ *)
Fixpoint bettor_wins (b : book) (bettor : Z) (fs : list bpart) : option (book * list effect) :=
  match fs with
  | [] => Some (b, [])
  | f :: rest =>
      match get_part b (f_idx f) with
      | None => None
      | Some p =>
          let b1 := set_part b (part_set_profit p (p_profit p - f_pay f)) in
          match bettor_wins b1 bettor rest with
          | None => None
          | Some (b2, effs) => Some (b2, Pay POOL bettor (f_pay f + f_stake f) :: effs)
          end
      end
  end.

Fixpoint bettor_loses (b : book) (fs : list bpart) : option book :=
  match fs with
  | [] => Some b
  | f :: rest =>
      match get_part b (f_idx f) with
      | None => None
      | Some p => bettor_loses (set_part b (part_set_profit p (p_profit p + f_stake f))) rest
      end
  end.

(* ---- orderbook_settle.go settleParticipation ------------------------------------------------------------ *)
Definition settle_participation (p : part) (mstatus creator : Z) : option (part * list effect) :=
  if p_settled p then None else
  if mstatus =? MK_DECLARED then
    let ret := p_liq p + p_profit p in
    let hook := if p_profit p <? 0 then HookLoss (p_owner p) (p_liq p) (Z.abs (p_profit p))
                else HookWin (p_owner p) (p_liq p) (p_profit p) in
    if p_tba p =? 0 then
      Some (part_settle p (ret + p_fee p) (p_fee p),
            [Pay POOL (p_owner p) ret; hook; Pay HOUSEFEE (p_owner p) (p_fee p); HookFeeRefund (p_owner p) (p_fee p)])
    else
      Some (part_settle p ret 0, [Pay POOL (p_owner p) ret; hook; Pay HOUSEFEE creator (p_fee p)])
  else if (mstatus =? MK_CANCELED) || (mstatus =? MK_ABORTED) then
    Some (part_settle p (p_liq p + p_fee p) (p_fee p),
          [Pay POOL (p_owner p) (p_liq p); HookRefund (p_owner p) (p_liq p);
           Pay HOUSEFEE (p_owner p) (p_fee p); HookFeeRefund (p_owner p) (p_fee p)])
  else None.

(* batchSettlementOfParticipation: (allSettled, settledCount, parts', effects); None = error *)
Fixpoint batch_parts (ps : list part) (mstatus creator : Z) (limit cnt : Z)
  : option (bool * Z * list part * list effect) :=
  match ps with
  | [] => Some (true, cnt, [], [])
  | p :: rest =>
      let r := if p_settled p then Some (p, [], cnt)
               else match settle_participation p mstatus creator with
                    | None => None
                    | Some (p', effs) => Some (p', effs, cnt + 1)
                    end in
      match r with
      | None => None
      | Some (p', effs, cnt') =>
          if limit <=? cnt' then
            (* break: allSettled iff this was the last element *)
            Some ((match rest with [] => true | _ => false end), cnt', p' :: rest, effs)
          else match batch_parts rest mstatus creator limit cnt' with
               | None => None
               | Some (alls, c, ps', effs') => Some (alls, c, p' :: ps', effs ++ effs')
               end
      end
  end.

(* Model/Types.v — records of the custom modules' state in the model's vocabulary.
   Identifiers are integers (the harness owns the injective maps to bech32 / UUID / PEM).
   No proofs in this file. *)
From Coq Require Import ZArith Bool List.
From Sge Require Import Lib.Dec.
Import ListNotations.
Open Scope Z_scope.

(* ---- generic list helpers ------------------------------------------------------ *)
Section ListHelpers.
  Context {A : Type}.
  (* replace the first element satisfying f by v, append v if there is none *)
  Fixpoint upd (f : A -> bool) (v : A) (l : list A) : list A :=
    match l with
    | [] => [v]
    | x :: r => if f x then v :: r else x :: upd f v r
    end.
  Definition findb (f : A -> bool) (l : list A) : option A := List.find f l.
  Definition remb (f : A -> bool) (l : list A) : list A := List.filter (fun x => negb (f x)) l.
  Definition zlen (l : list A) : Z := Z.of_nat (length l).
End ListHelpers.

Fixpoint zsum (l : list Z) : Z := match l with [] => 0 | x :: r => x + zsum r end.
Definition zmem (x : Z) (l : list Z) : bool := existsb (Z.eqb x) l.
Fixpoint znodup (l : list Z) : list Z :=
  match l with [] => [] | x :: r => if zmem x r then znodup r else x :: znodup r end.

(* ---- accounts -------------------------------------------------------------------- *)
(* users 0.. ; module accounts negative ; subaccount addresses 1000 + id *)
Definition POOL : Z := -1.       (* orderbook_liquidity_pool *)
Definition BETFEE : Z := -2.     (* bet_fee_collector *)
Definition HOUSEFEE : Z := -3.   (* house_fee_collector *)
Definition REWARDPOOL : Z := -4. (* reward_pool *)
Definition FEECOLL : Z := -5.    (* fee_collector (mint target) *)

Definition bank := list (Z * Z).
Fixpoint bget (b : bank) (k : Z) : Z :=
  match b with [] => 0 | (k', v) :: r => if k' =? k then v else bget r k end.
Fixpoint badd (b : bank) (k d : Z) : bank :=
  match b with
  | [] => [(k, d)]
  | (k', v) :: r => if k' =? k then (k', v + d) :: r else (k', v) :: badd r k d
  end.
Definition bsum (b : bank) : Z := zsum (map snd b).

(* ---- effects emitted by market-local handlers -------------------------------------- *)
Inductive effect :=
| Pay (from to amt : Z)                   (* fund / refund: needs 0 <= amt <= balance from *)
| HookWin (a liq profit : Z)              (* orderbook hooks -> subaccount module *)
| HookLoss (a liq lost : Z)
| HookRefund (a amt : Z)
| HookFeeRefund (a fee : Z).

(* ---- orderbook ----------------------------------------------------------------------- *)
Record part := {
  p_idx : Z; p_owner : Z; p_liq : Z; p_fee : Z; p_crl : Z; p_enf : Z;
  p_tba : Z; p_crtb : Z; p_maxloss : Z; p_crml : Z; p_crml_odds : Z (* -1 = "" *);
  p_profit : Z; p_settled : bool; p_returned : Z; p_reimb : Z }.

Record expo := { e_odds : Z; e_part : Z; e_exp : Z; e_bet : Z; e_ful : bool; e_round : Z }.

Record bpart := { f_owner : Z; f_idx : Z; f_stake : Z; f_pay : Z }.   (* BetFulfillment *)

Definition BK_ACTIVE := 1. Definition BK_RESOLVED := 2. Definition BK_SETTLED := 3.

Record book := {
  bk_status : Z; bk_oddscnt : Z; bk_partcnt : Z;
  bk_queues : list (Z * list Z);         (* odds uid -> FulfillmentQueue, in creation order *)
  bk_parts : list part;                  (* prefix 0x01, index order *)
  bk_expo : list expo;                   (* prefix 0x03 (book,odds,index) *)
  bk_expo_ix : list expo;                (* prefix 0x04 (book,index,odds) *)
  bk_hist : list expo;                   (* prefix 0x05 *)
  bk_pairs : list (Z * Z) }.             (* prefix 0x07 (index, bet id) *)

(* ---- market ----------------------------------------------------------------------------- *)
Definition MK_ACTIVE := 1. Definition MK_INACTIVE := 2. Definition MK_CANCELED := 3.
Definition MK_ABORTED := 4. Definition MK_DECLARED := 5.

Record market := {
  k_uid : Z; k_creator : Z; k_start : Z; k_end : Z; k_odds : list Z;
  k_status : Z; k_winners : list Z; k_rts : Z }.

(* ---- bet ------------------------------------------------------------------------------------ *)
Definition BS_PLACED := 1. Definition BS_DECLARED := 5. Definition BS_SETTLED := 6.
Definition BR_PENDING := 1. Definition BR_WON := 2. Definition BR_LOST := 3. Definition BR_REFUNDED := 4.

Record bet := {
  b_id : Z; b_uid : Z; b_creator : Z; b_mkt : Z; b_odds : Z; b_oddsval : Z (* Dec *);
  b_amount : Z; b_fee : Z; b_status : Z; b_result : Z; b_mult : Z (* Dec *);
  b_created : Z; b_sheight : Z; b_parts : list bpart }.

(* ---- house ----------------------------------------------------------------------------------- *)
Record deposit := { d_creator : Z; d_depositor : Z; d_mkt : Z; d_pidx : Z; d_amount : Z;
                    d_wcount : Z; d_wtotal : Z }.
Record withdrawal := { w_id : Z; w_creator : Z; w_depositor : Z; w_mkt : Z; w_pidx : Z;
                       w_mode : Z; w_amount : Z }.
Definition WM_FULL := 1. Definition WM_PARTIAL := 2.

(* ---- per-market state (DESIGN 4.3a) ------------------------------------------------------------ *)
Record mstate := {
  ms_mkt : market; ms_book : book;
  ms_bets : list bet;            (* bets of this market, in id order *)
  ms_pending : list Z;           (* pending-bet index (bet ids, ascending) *)
  ms_deps : list deposit; ms_wds : list withdrawal }.

(* ---- tickets ------------------------------------------------------------------------------------ *)
(* tk_signer: id of the key under which the token verifies as an EdDSA JWT; -1 = none
   (malformed, other algorithm, tampered, unknown key).  tk_exp: the exp claim (-1 = absent). *)
Record ticket := { tk_signer : Z; tk_exp : Z }.
Record kyc := { ky_ignore : bool; ky_approved : bool; ky_id : Z }.
Definition kyc_ok (k : kyc) (a : Z) : bool := ky_ignore k || (ky_approved k && (ky_id k =? a)).

(* ---- params -------------------------------------------------------------------------------------- *)
Record params := {
  pr_bet_batch : Z; pr_bet_min : Z; pr_bet_fee : Z;
  pr_ob_maxpart : Z; pr_ob_batch : Z; pr_ob_thr : Z;
  pr_h_mindep : Z; pr_h_fee : Z (* Dec *); pr_h_maxw : Z }.

(* Model/Chain.v — chain-level state, operations, step and run.
   Transcribes the message servers and Begin/EndBlockers of market, bet, house, orderbook (+ mint,
   + the authz contract used by house).  No proofs in this file. *)
From Coq Require Import ZArith Bool List.
From Sge Require Import Lib.Dec Model.Types Model.Orderbook Model.Mint.
Import ListNotations.
Open Scope Z_scope.

(* ---- authz (SDK x/authz contract as used by utils.ValidateMsgAuthorization) ------------- *)
Definition GK_DEPOSIT := 1. Definition GK_WITHDRAW := 2.
Record grant := { g_grantee : Z; g_granter : Z; g_kind : Z; g_limit : Z; g_exp : Z (* -1 = none *) }.
Definition grant_is (grantee granter kind : Z) (g : grant) : bool :=
  (g_grantee g =? grantee) && (g_granter g =? granter) && (g_kind g =? kind).

(* ---- ovm (x/ovm) ---------------------------------------------------------------------------- *)
Definition PS_ACTIVE := 1. Definition PS_FINISHED := 2.
Definition PR_APPROVED := 1. Definition PR_REJECTED := 2. Definition PR_EXPIRED := 3.
Definition VOTE_NO := 1. Definition VOTE_YES := 2.
Record proposal := { pp_id : Z; pp_creator : Z; pp_keys : list Z; pp_leader : Z; pp_start : Z;
                     pp_votes : list (Z * Z) (* (key, vote) *); pp_status : Z; pp_result : Z; pp_finish : Z }.

(* ---- subaccount (x/subaccount) ---------------------------------------------------------------- *)
(* the subaccount with id n has address 1000 + n *)
Definition SUBBASE : Z := 1000.
Record subacc := { sa_id : Z; sa_owner : Z; sa_dep : Z; sa_spent : Z; sa_wd : Z; sa_lost : Z;
                sa_locks : list (Z * Z) (* (unlock ts, amount), keyed by ts *) }.
Definition sub_addr (x : subacc) : Z := SUBBASE + sa_id x.
Definition sub_available (x : subacc) : Z := sa_dep x - sa_wd x - sa_spent x - sa_lost x.   (* AccountSummary.Available *)
Definition sub_with (x : subacc) (dep spent wd lost : Z) (locks : list (Z * Z)) : subacc :=
  {| sa_id := sa_id x; sa_owner := sa_owner x; sa_dep := dep; sa_spent := spent; sa_wd := wd; sa_lost := lost; sa_locks := locks |}.
Definition sub_by_owner (l : list subacc) (o : Z) : option subacc := findb (fun x => sa_owner x =? o) l.
Definition sub_by_addr (l : list subacc) (a : Z) : option subacc := findb (fun x => sub_addr x =? a) l.
Definition set_sub (l : list subacc) (x : subacc) : list subacc := upd (fun y => sa_id y =? sa_id x) x l.
(* accsummary.go Spend / Unspend / AddLoss / Withdraw *)
Definition sub_spend (x : subacc) (a : Z) : option subacc :=
  if a <? 0 then None else if sub_available x <? a then None
  else Some (sub_with x (sa_dep x) (sa_spent x + a) (sa_wd x) (sa_lost x) (sa_locks x)).
Definition sub_unspend (x : subacc) (a : Z) : option subacc :=
  if a <? 0 then None else if sa_spent x <? a then None
  else Some (sub_with x (sa_dep x) (sa_spent x - a) (sa_wd x) (sa_lost x) (sa_locks x)).
Definition sub_addloss (x : subacc) (a : Z) : option subacc :=
  if a <? 0 then None else Some (sub_with x (sa_dep x) (sa_spent x) (sa_wd x) (sa_lost x + a) (sa_locks x)).
Definition sub_withdraw (x : subacc) (a : Z) : option subacc :=
  if a <? 0 then None else if sub_available x <? a then None
  else Some (sub_with x (sa_dep x) (sa_spent x) (sa_wd x + a) (sa_lost x) (sa_locks x)).

(* ---- chain state -------------------------------------------------------------------------- *)
Record chain := {
  c_bank : bank; c_now : Z; c_height : Z; c_prm : params;
  c_vault : list Z;                   (* KeyVault.PublicKeys (key ids), leader first *)
  c_ms : list (Z * mstate);           (* market uid -> market-local state, creation order *)
  c_mqueue : list Z;                  (* MarketStats.ResolvedUnsettled *)
  c_bqueue : list Z;                  (* OrderBookStats.ResolvedUnsettled *)
  c_betcnt : Z;                       (* BetStats.Count *)
  c_uid2id : list (Z * Z);            (* bet uid -> id *)
  c_settledix : list (Z * Z);         (* settled-bet index: (height, bet id) *)
  c_grants : list grant;
  c_mparams : mparams; c_minter : minter; c_supply : Z;
  c_props : list proposal; c_propcnt : Z;
  c_subs : list subacc; c_subnext : Z (* next subaccount id (Peek) *);
  c_sub_wager : bool; c_sub_deposit : bool;   (* subaccount params *)
  c_halted : bool }.

Definition chain_upd (s : chain) (bk : bank) (ms : list (Z * mstate)) (mq bq : list Z) (betcnt : Z)
           (u2i sidx : list (Z * Z)) (grants : list grant) : chain :=
  {| c_bank := bk; c_now := c_now s; c_height := c_height s; c_prm := c_prm s; c_vault := c_vault s;
     c_ms := ms; c_mqueue := mq; c_bqueue := bq; c_betcnt := betcnt; c_uid2id := u2i;
     c_settledix := sidx; c_grants := grants; c_mparams := c_mparams s; c_minter := c_minter s;
     c_supply := c_supply s; c_props := c_props s; c_propcnt := c_propcnt s; c_subs := c_subs s;
     c_subnext := c_subnext s; c_sub_wager := c_sub_wager s; c_sub_deposit := c_sub_deposit s;
     c_halted := c_halted s |}.

Definition chain_set_subs (s : chain) (subs : list subacc) (nxt : Z) : chain :=
  {| c_bank := c_bank s; c_now := c_now s; c_height := c_height s; c_prm := c_prm s; c_vault := c_vault s;
     c_ms := c_ms s; c_mqueue := c_mqueue s; c_bqueue := c_bqueue s; c_betcnt := c_betcnt s; c_uid2id := c_uid2id s;
     c_settledix := c_settledix s; c_grants := c_grants s; c_mparams := c_mparams s; c_minter := c_minter s;
     c_supply := c_supply s; c_props := c_props s; c_propcnt := c_propcnt s; c_subs := subs;
     c_subnext := nxt; c_sub_wager := c_sub_wager s; c_sub_deposit := c_sub_deposit s; c_halted := c_halted s |}.

Definition chain_set_ovm (s : chain) (vault : list Z) (props : list proposal) (cnt : Z) : chain :=
  {| c_bank := c_bank s; c_now := c_now s; c_height := c_height s; c_prm := c_prm s; c_vault := vault;
     c_ms := c_ms s; c_mqueue := c_mqueue s; c_bqueue := c_bqueue s; c_betcnt := c_betcnt s; c_uid2id := c_uid2id s;
     c_settledix := c_settledix s; c_grants := c_grants s; c_mparams := c_mparams s; c_minter := c_minter s;
     c_supply := c_supply s; c_props := props; c_propcnt := cnt; c_subs := c_subs s;
     c_subnext := c_subnext s; c_sub_wager := c_sub_wager s; c_sub_deposit := c_sub_deposit s; c_halted := c_halted s |}.

Definition get_ms (s : chain) (m : Z) : option mstate :=
  match findb (fun x => fst x =? m) (c_ms s) with Some x => Some (snd x) | None => None end.
Definition set_ms_list (l : list (Z * mstate)) (m : Z) (v : mstate) : list (Z * mstate) :=
  upd (fun x => fst x =? m) (m, v) l.

Definition mstate_upd (x : mstate) (mk : market) (bk : book) (bets : list bet) (pend : list Z)
           (deps : list deposit) (wds : list withdrawal) : mstate :=
  {| ms_mkt := mk; ms_book := bk; ms_bets := bets; ms_pending := pend; ms_deps := deps; ms_wds := wds |}.

(* ---- bank ------------------------------------------------------------------------------------ *)
(* fund / refund in x/orderbook/keeper/fund.go: negative amount panics in sdk.NewCoin, insufficient
   balance is an error; either way the payment fails. *)
Definition pay (b : bank) (from to amt : Z) : option bank :=
  if amt <? 0 then None
  else if bget b from <? amt then None
  else Some (badd (badd b from (- amt)) to amt).

(* x/subaccount/keeper/hooks.go: with no subaccount registered for the address the hooks return at once
   (`if !exists { return }`); otherwise they Unspend / AddLoss and, on a house win, forward the profit
   from the subaccount to its owner.  Any failure panics (None). *)
Definition hook_sub (b : bank) (subs : list subacc) (a : Z) (f : subacc -> option subacc) (fwd : Z) : option (bank * list subacc) :=
  match sub_by_addr subs a with
  | None => Some (b, subs)
  | Some x =>
      match f x with
      | None => None
      | Some x' =>
          if fwd =? 0 then Some (b, set_sub subs x')
          else match pay b a (sa_owner x) fwd with
               | None => None
               | Some b' => Some (b', set_sub subs x')
               end
      end
  end.

Fixpoint apply_effects (b : bank) (subs : list subacc) (effs : list effect) : option (bank * list subacc) :=
  match effs with
  | [] => Some (b, subs)
  | e :: r =>
      let res :=
        match e with
        | Pay f t a => match pay b f t a with Some b' => Some (b', subs) | None => None end
        | HookWin a liq profit => hook_sub b subs a (fun x => sub_unspend x liq) profit
        | HookLoss a liq lost =>
            hook_sub b subs a (fun x => match sub_unspend x liq with Some y => sub_addloss y lost | None => None end) 0
        | HookRefund a amt => hook_sub b subs a (fun x => sub_unspend x amt) 0
        | HookFeeRefund a fee => hook_sub b subs a (fun x => sub_unspend x fee) 0
        end in
      match res with Some (b', subs') => apply_effects b' subs' r | None => None end
  end.

(* ---- tickets ----------------------------------------------------------------------------------- *)
Definition leader (s : chain) : Z := hd (-2) (c_vault s).
(* x/ovm/keeper/ticket.go verifyTicketWithKeyUnmarshal with no explicit keys *)
Definition ticket_ok (s : chain) (t : ticket) : bool :=
  (0 <=? tk_signer t) && (tk_signer t =? leader s) && (c_now s <? tk_exp t).

(* ---- operations ----------------------------------------------------------------------------------- *)
Inductive op :=
| OBegin (t : Z)
| OEnd
| OMarketAdd (signer : Z) (tk : ticket) (uid start end_ : Z) (odds : list Z) (status : Z)
| OMarketUpdate (signer : Z) (tk : ticket) (uid start end_ status : Z)
| OMarketResolve (signer : Z) (tk : ticket) (uid rts : Z) (winners : list Z) (status : Z)
| ODeposit (signer : Z) (tk : ticket) (mkt amount : Z) (ky : kyc) (depositor : Z (* -1 = "" *))
| OWithdraw (signer : Z) (tk : ticket) (mkt pidx mode amount : Z) (ky : kyc) (depositor : Z)
| OWager (signer : Z) (tk : ticket) (betuid amount selmkt selodds oddsval mult : Z)
         (allodds : list (Z * Z)) (ky : kyc) (oddstype : Z)
| OGrant (granter grantee kind limit exp : Z)
| ORevoke (granter grantee kind : Z)
| OSend (from to amt : Z)
| OPropose (signer : Z) (tk : ticket) (keys : list Z) (leader_idx : Z)
| OVote (signer : Z) (tk : ticket) (voter_idx prop_id vote : Z)
| OSubCreate (creator owner : Z) (locks : list (Z * Z))
| OSubTopUp (creator owner : Z) (locks : list (Z * Z))
| OSubWithdraw (owner : Z)
| OSubWager (signer : Z) (tk : ticket) (inner_creator : Z) (tk2 : ticket)
            (betuid amount selmkt selodds oddsval mult : Z) (allodds : list (Z * Z)) (ky : kyc) (oddstype : Z)
            (main_ded sub_ded : Z)
| OSubHouseDeposit (signer : Z) (tk : ticket) (mkt amount : Z) (ky : kyc) (dep : Z)
| OSubHouseWithdraw (signer : Z) (tk : ticket) (mkt pidx mode amount : Z) (ky : kyc) (dep : Z).

Inductive out := Ok | Err | Panic.

(* ---- market ------------------------------------------------------------------------------------------ *)
(* ticket.go validateMarketTS *)
Definition market_ts_ok (now start end_ : Z) : bool :=
  negb (end_ <=? now) && negb ((end_ <=? start) || (start =? 0)).
Definition status_ai (st : Z) : bool := (st =? MK_ACTIVE) || (st =? MK_INACTIVE).
Fixpoint zdistinct (l : list Z) : bool :=
  match l with [] => true | x :: r => negb (zmem x r) && zdistinct r end.

Definition market_add (s : chain) (signer : Z) (tk : ticket) (uid start end_ : Z) (odds : list Z) (status : Z)
  : option chain :=
  if negb (ticket_ok s tk) then None
  else if negb (market_ts_ok (c_now s) start end_) then None
  else if negb (status_ai status) then None
  else if uid <? 0 then None
  else if zlen odds <? 2 then None
  else if negb (forallb (fun o => 0 <=? o) odds) then None
  else if negb (zdistinct odds) then None
  else match get_ms s uid with
       | Some _ => None
       | None =>
           let mk := {| k_uid := uid; k_creator := signer; k_start := start; k_end := end_; k_odds := odds;
                        k_status := status; k_winners := []; k_rts := 0 |} in
           let x := {| ms_mkt := mk; ms_book := new_book odds; ms_bets := []; ms_pending := [];
                       ms_deps := []; ms_wds := [] |} in
           Some (chain_upd s (c_bank s) (c_ms s ++ [(uid, x)]) (c_mqueue s) (c_bqueue s) (c_betcnt s)
                           (c_uid2id s) (c_settledix s) (c_grants s))
       end.

Definition market_with (mk : market) (start end_ status : Z) (winners : list Z) (rts : Z) : market :=
  {| k_uid := k_uid mk; k_creator := k_creator mk; k_start := start; k_end := end_; k_odds := k_odds mk;
     k_status := status; k_winners := winners; k_rts := rts |}.

Definition market_update (s : chain) (tk : ticket) (uid start end_ status : Z) : option chain :=
  if negb (ticket_ok s tk) then None else
  match get_ms s uid with
  | None => None
  | Some x =>
      let mk := ms_mkt x in
      if negb (status_ai (k_status mk)) then None
      else if negb (status_ai status) then None
      else if negb (market_ts_ok (c_now s) start end_) then None
      else
        let x' := mstate_upd x (market_with mk start end_ status (k_winners mk) (k_rts mk)) (ms_book x)
                             (ms_bets x) (ms_pending x) (ms_deps x) (ms_wds x) in
        Some (chain_upd s (c_bank s) (set_ms_list (c_ms s) uid x') (c_mqueue s) (c_bqueue s) (c_betcnt s)
                        (c_uid2id s) (c_settledix s) (c_grants s))
  end.

Definition status_resolved (st : Z) : bool := (st =? MK_CANCELED) || (st =? MK_ABORTED) || (st =? MK_DECLARED).

Definition market_resolve (s : chain) (tk : ticket) (uid rts : Z) (winners : list Z) (status : Z) : option chain :=
  if negb (ticket_ok s tk) then None
  else if negb (status_resolved status) then None
  else if (status =? MK_DECLARED) && (1 <? zlen winners) then None
  else if negb (status =? MK_DECLARED) && (0 <? zlen winners) then None
  else if rts =? 0 then None
  else if uid <? 0 then None
  else if (status =? MK_DECLARED) && (zlen winners <? 1) then None
  else if negb (forallb (fun o => 0 <=? o) winners) then None
  else match get_ms s uid with
  | None => None
  | Some x =>
      let mk := ms_mkt x in
      if negb (status_ai (k_status mk)) then None
      else if (status =? MK_DECLARED) && ((rts <? k_start mk) || negb (forallb (fun w => zmem w (k_odds mk)) winners)) then None
      else
        let mk' := market_with mk (k_start mk) (k_end mk) status
                               (if status =? MK_DECLARED then winners else k_winners mk) rts in
        let x' := mstate_upd x mk' (ms_book x) (ms_bets x) (ms_pending x) (ms_deps x) (ms_wds x) in
        Some (chain_upd s (c_bank s) (set_ms_list (c_ms s) uid x') (c_mqueue s ++ [uid]) (c_bqueue s) (c_betcnt s)
                        (c_uid2id s) (c_settledix s) (c_grants s))
  end.

(* ---- authz ------------------------------------------------------------------------------------------------ *)
(* utils/authorization.go ValidateMsgAuthorization + Deposit/WithdrawAuthorization.Accept *)
(* GetAuthorization returns a grant whose expiration is not BEFORE the block time; Accept; then DeleteGrant when the limit is
   used up, else SaveGrant of the reduced authorization with the SAME expiration -- and authz.NewGrant refuses an expiration
   that is not AFTER the block time: a grant expiring exactly at the block time can still be used up, but not partly *)
Definition use_grant (now : Z) (gs : list grant) (grantee granter kind amount : Z) : option (list grant) :=
  match findb (grant_is grantee granter kind) gs with
  | None => None
  | Some g =>
      let left := g_limit g - amount in
      if left <? 0 then None
      else if left =? 0 then Some (remb (grant_is grantee granter kind) gs)
      else if (0 <=? g_exp g) && (g_exp g <=? now) then None
      else Some (upd (grant_is grantee granter kind)
                     {| g_grantee := grantee; g_granter := granter; g_kind := kind; g_limit := left; g_exp := g_exp g |} gs)
  end.

(* ---- house -------------------------------------------------------------------------------------------------- *)
Definition with_subs (s : chain) (subs : list subacc) : chain := chain_set_subs s subs (c_subnext s).

(* x/house/keeper/deposit.go Deposit (creator pays nothing; the depositor's account is debited) *)
Definition house_deposit_core (s : chain) (creator depositor mkt amount : Z) (grants : list grant) : option chain :=
  let P := c_prm s in
  let fee := dec_round_int (dec_mulint (pr_h_fee P) amount) in     (* CalcHouseParticipationFeeAmount *)
  match get_ms s mkt with
  | None => None
  | Some x =>
      if negb (k_status (ms_mkt x) =? MK_ACTIVE) then None else
      match init_participation (ms_book x) (pr_ob_maxpart P) depositor amount fee with
      | None => None
      | Some (bk, idx, effs) =>
          match apply_effects (c_bank s) (c_subs s) effs with
          | None => None
          | Some (bank', subs') =>
              let d := {| d_creator := creator; d_depositor := depositor; d_mkt := mkt; d_pidx := idx;
                          d_amount := amount; d_wcount := 0; d_wtotal := 0 |} in
              let x' := mstate_upd x (ms_mkt x) bk (ms_bets x) (ms_pending x) (ms_deps x ++ [d]) (ms_wds x) in
              Some (chain_upd (with_subs s subs') bank' (set_ms_list (c_ms s) mkt x') (c_mqueue s) (c_bqueue s) (c_betcnt s)
                              (c_uid2id s) (c_settledix s) grants)
          end
      end
  end.

(* msg_server_deposit.go ParseDepositTicketAndValidate: returns the depositor and the grants after consumption *)
Definition deposit_validate (s : chain) (signer : Z) (tk : ticket) (mkt amount : Z) (ky : kyc) (dep : Z) (authz_allowed : bool)
  : option (Z * list grant) :=
  let P := c_prm s in
  if (mkt <? 0) || (amount <=? 0) then None                         (* ValidateBasic *)
  else if amount <? pr_h_mindep P then None                         (* ValidateSanity *)
  else if negb (ticket_ok s tk) then None
  else
    let onbehalf := (0 <=? dep) && negb (dep =? signer) in
    if onbehalf && negb authz_allowed then None else
    let depositor := if onbehalf then dep else signer in
    match (if onbehalf then use_grant (c_now s) (c_grants s) signer dep GK_DEPOSIT amount else Some (c_grants s)) with
    | None => None
    | Some grants => if negb (kyc_ok ky depositor) then None else Some (depositor, grants)
    end.

Definition house_deposit (s : chain) (signer : Z) (tk : ticket) (mkt amount : Z) (ky : kyc) (dep : Z) : option chain :=
  match deposit_validate s signer tk mkt amount ky dep true with
  | None => None
  | Some (depositor, grants) => house_deposit_core s signer depositor mkt amount grants
  end.

Definition dep_is (depositor pidx : Z) (d : deposit) : bool := (d_depositor d =? depositor) && (d_pidx d =? pidx).

(* msg_server_withdraw.go ParseWithdrawTicketAndValidate: (depositor, isOnBehalf) *)
Definition withdraw_validate (s : chain) (signer : Z) (tk : ticket) (mkt pidx mode amount : Z) (ky : kyc) (dep : Z)
  : option (Z * bool) :=
  if negb ((mode =? WM_FULL) || (mode =? WM_PARTIAL)) then None      (* ValidateBasic *)
  else if mkt <? 0 then None
  else if pidx <? 1 then None
  else if (mode =? WM_PARTIAL) && (amount <=? 0) then None
  else if negb (ticket_ok s tk) then None
  else
    let onbehalf := 0 <=? dep in
    let depositor := if onbehalf then dep else signer in
    if negb (kyc_ok ky depositor) then None else Some (depositor, onbehalf).

(* msg_server_withdraw.go CalcAndWithdraw + keeper/withdrawal.go Withdraw; returns the executed amount too *)
Definition withdraw_core (s : chain) (signer depositor mkt pidx mode amount : Z) (onbehalf : bool) : option (chain * Z) :=
  let P := c_prm s in
  match get_ms s mkt with
  | None => None
  | Some x =>
      match findb (dep_is depositor pidx) (ms_deps x) with
      | None => None
      | Some d =>
          if pr_h_maxw P <=? d_wcount d then None else
          match calc_withdrawal (ms_book x) depositor pidx mode (d_wtotal d) amount with
          | None => None
          | Some amt =>
              match (if onbehalf then use_grant (c_now s) (c_grants s) signer depositor GK_WITHDRAW amt else Some (c_grants s)) with
              | None => None
              | Some grants =>
                  match withdraw_participation (ms_book x) pidx amt with
                  | None => None
                  | Some (bk, effs) =>
                      match apply_effects (c_bank s) (c_subs s) effs with
                      | None => None
                      | Some (bank', subs') =>
                          let w := {| w_id := d_wcount d + 1; w_creator := signer; w_depositor := depositor;
                                      w_mkt := mkt; w_pidx := pidx; w_mode := mode; w_amount := amt |} in
                          let d' := {| d_creator := d_creator d; d_depositor := d_depositor d; d_mkt := d_mkt d;
                                       d_pidx := d_pidx d; d_amount := d_amount d; d_wcount := d_wcount d + 1;
                                       d_wtotal := d_wtotal d + amt |} in
                          let x' := mstate_upd x (ms_mkt x) bk (ms_bets x) (ms_pending x)
                                               (upd (dep_is depositor pidx) d' (ms_deps x)) (ms_wds x ++ [w]) in
                          Some (chain_upd (with_subs s subs') bank' (set_ms_list (c_ms s) mkt x') (c_mqueue s) (c_bqueue s)
                                          (c_betcnt s) (c_uid2id s) (c_settledix s) grants, amt)
                      end
                  end
              end
          end
      end
  end.

Definition house_withdraw (s : chain) (signer : Z) (tk : ticket) (mkt pidx mode amount : Z) (ky : kyc) (dep : Z)
  : option chain :=
  match withdraw_validate s signer tk mkt pidx mode amount ky dep with
  | None => None
  | Some (depositor, onbehalf) =>
      match withdraw_core s signer depositor mkt pidx mode amount onbehalf with
      | Some (s', _) => Some s'
      | None => None
      end
  end.

(* ---- bet ----------------------------------------------------------------------------------------------------- *)
Definition mult_ok (m : Z) : bool := (0 <? m) && (m <=? PREC).

(* MsgWager.ValidateBasic + x/bet/keeper/bet.go PrepareBetObject (duplicate uid, ticket, payload.Validate) *)
Definition wager_prepare (s : chain) (creator : Z) (tk : ticket) (betuid amount selmkt selodds mult : Z)
           (allodds : list (Z * Z)) (ky : kyc) (oddstype : Z) : bool :=
  negb ((betuid <? 0) || (amount <=? 0))
  && negb (existsb (fun x => fst x =? betuid) (c_uid2id s))
  && ticket_ok s tk
  && negb ((oddstype <? 0) || (3 <? oddstype))
  && negb ((selmkt <? 0) || (selodds <? 0))
  && mult_ok mult
  && forallb (fun x => (0 <=? fst x) && mult_ok (snd x)) allodds
  && kyc_ok ky creator.

(* x/bet/keeper/wager.go Wager *)
Definition wager_core (s : chain) (signer betuid amount selmkt selodds oddsval mult : Z) (allodds : list (Z * Z))
  : option chain :=
  let P := c_prm s in
  match get_ms s selmkt with
  | None => None
  | Some x =>
      let mk := ms_mkt x in
      if negb (k_status mk =? MK_ACTIVE) then None
      else if k_end mk <? c_now s then None
      else if negb (zmem selodds (k_odds mk)) then None
      else if negb (zlen (k_odds mk) =? zlen (znodup (map fst allodds))) then None
      else if negb (forallb (fun o => zmem o (map fst allodds)) (k_odds mk)) then None
      else if amount <? pr_bet_min P then None
      else
        let fee := pr_bet_fee P in
        let amt := amount - fee in                                                   (* SetFee *)
        match payout_profit oddsval amt with
        | None => None
        | Some profit =>
            let betid := c_betcnt s + 1 in
            let A := {| wa_sel := selodds; wa_oddsval := oddsval; wa_mult := mult; wa_allodds := allodds;
                        wa_uids := k_odds mk; wa_betid := betid; wa_thr := pr_ob_thr P;
                        wa_oddscnt := bk_oddscnt (ms_book x) |} in
            match process_wager (ms_book x) A amt profit signer fee with
            | None => None
            | Some (bk, parts, effs) =>
                match apply_effects (c_bank s) (c_subs s) effs with
                | None => None
                | Some (bank', subs') =>
                    let b := {| b_id := betid; b_uid := betuid; b_creator := signer; b_mkt := selmkt; b_odds := selodds;
                                b_oddsval := oddsval; b_amount := zsum (map f_stake parts); b_fee := fee; b_status := BS_PLACED;
                                b_result := BR_PENDING; b_mult := mult; b_created := c_now s; b_sheight := 0;
                                b_parts := parts |} in
                    let x' := mstate_upd x mk bk (ms_bets x ++ [b]) (ms_pending x ++ [betid]) (ms_deps x) (ms_wds x) in
                    Some (chain_upd (with_subs s subs') bank' (set_ms_list (c_ms s) selmkt x') (c_mqueue s) (c_bqueue s) betid
                                    (c_uid2id s ++ [(betuid, betid)]) (c_settledix s) (c_grants s))
                end
            end
        end
  end.

Definition bet_wager (s : chain) (signer : Z) (tk : ticket) (betuid amount selmkt selodds oddsval mult : Z)
           (allodds : list (Z * Z)) (ky : kyc) (oddstype : Z) : option chain :=
  if wager_prepare s signer tk betuid amount selmkt selodds mult allodds ky oddstype
  then wager_core s signer betuid amount selmkt selodds oddsval mult allodds
  else None.

Definition bet_with (b : bet) (status result sheight : Z) : bet :=
  {| b_id := b_id b; b_uid := b_uid b; b_creator := b_creator b; b_mkt := b_mkt b; b_odds := b_odds b;
     b_oddsval := b_oddsval b; b_amount := b_amount b; b_fee := b_fee b; b_status := status; b_result := result;
     b_mult := b_mult b; b_created := b_created b; b_sheight := sheight; b_parts := b_parts b |}.

(* x/bet/keeper/settle.go Settle for one pending bet of market state x; None = error (EndBlock panics) *)
Definition settle_bet (x : mstate) (height : Z) (betid : Z) : option (mstate * list effect) :=
  match findb (fun b => b_id b =? betid) (ms_bets x) with
  | None => None
  | Some b =>
      if b_status b =? BS_SETTLED then None else             (* CheckSettlementEligiblity (STATUS_CANCELED is never set) *)
      let mk := ms_mkt x in
      let fin (b' : bet) (bk : book) (effs : list effect) :=
          Some (mstate_upd x mk bk (upd (fun c => b_id c =? betid) b' (ms_bets x))
                           (remb (Z.eqb betid) (ms_pending x)) (ms_deps x) (ms_wds x), effs) in
      if (k_status mk =? MK_ABORTED) || (k_status mk =? MK_CANCELED) then
        match payout_profit (b_oddsval b) (b_amount b) with
        | None => None
        | Some _ =>
            fin (bet_with b BS_SETTLED BR_REFUNDED height) (ms_book x)
                [Pay POOL (b_creator b) (b_amount b); Pay BETFEE (b_creator b) (b_fee b)]
        end
      else if negb (k_status mk =? MK_DECLARED) then None     (* SetResult: ErrResultNotDeclared *)
      else if zmem (b_odds b) (k_winners mk) then
        match bettor_wins (ms_book x) (b_creator b) (b_parts b) with
        | None => None
        | Some (bk, effs) =>
            fin (bet_with b BS_SETTLED BR_WON height) bk (effs ++ [Pay BETFEE (k_creator mk) (b_fee b)])
        end
      else
        match bettor_loses (ms_book x) (b_parts b) with
        | None => None
        | Some bk => fin (bet_with b BS_SETTLED BR_LOST height) bk [Pay BETFEE (k_creator mk) (b_fee b)]
        end
  end.

(* batchMarketSettlement: the first `limit` pending bets of the market, one after the other.
   Returns the state, bank, settled-index additions and count. *)
Fixpoint settle_bets (ids : list Z) (x : mstate) (bk : bank) (subs : list subacc) (height : Z) (sidx : list (Z * Z)) (cnt : Z)
  : option (mstate * bank * list subacc * list (Z * Z) * Z) :=
  match ids with
  | [] => Some (x, bk, subs, sidx, cnt)
  | id :: rest =>
      match settle_bet x height id with
      | None => None
      | Some (x', effs) =>
          match apply_effects bk subs effs with
          | None => None
          | Some (bk', subs') => settle_bets rest x' bk' subs' height (sidx ++ [(height, id)]) (cnt + 1)
          end
      end
  end.

(* RemoveUnsettledResolvedMarket / RemoveUnsettledResolvedOrderBook *)
Definition remove_uid (u : Z) (l : list Z) : list Z := remove_first u l.

(* x/bet/keeper/settle.go BatchMarketSettlements; fuel: every iteration either consumes budget or
   removes the head market from the queue. None = panic. *)
Fixpoint bet_endblock (fuel : nat) (s : chain) (tofetch : Z) : option chain :=
  if tofetch <=? 0 then Some s else
  match fuel with
  | O => None
  | S fuel' =>
      match c_mqueue s with
      | [] => Some s
      | m :: _ =>
          match get_ms s m with
          | None => None                                  (* pending iterator empty, then SetOrderBookAsUnsettledResolved fails *)
          | Some x =>
              match settle_bets (firstn (Z.to_nat tofetch) (ms_pending x)) x (c_bank s) (c_subs s) (c_height s) (c_settledix s) 0 with
              | None => None
              | Some (x1, bk1, subs1, sidx1, cnt) =>
                  match ms_pending x1 with
                  | _ :: _ =>
                      bet_endblock fuel' (chain_upd (with_subs s subs1) bk1 (set_ms_list (c_ms s) m x1) (c_mqueue s) (c_bqueue s)
                                                    (c_betcnt s) (c_uid2id s) sidx1 (c_grants s)) (tofetch - cnt)
                  | [] =>
                      (* SetOrderBookAsUnsettledResolved *)
                      if negb (bk_status (ms_book x1) =? BK_ACTIVE) then None else
                      let x2 := mstate_upd x1 (ms_mkt x1) (set_status (ms_book x1) BK_RESOLVED) (ms_bets x1)
                                           (ms_pending x1) (ms_deps x1) (ms_wds x1) in
                      bet_endblock fuel' (chain_upd (with_subs s subs1) bk1 (set_ms_list (c_ms s) m x2) (remove_uid m (c_mqueue s))
                                                    (c_bqueue s ++ [m]) (c_betcnt s) (c_uid2id s) sidx1 (c_grants s))
                                   (tofetch - cnt)
                  end
              end
          end
      end
  end.

(* x/orderbook/keeper/orderbook_settle.go BatchOrderBookSettlements *)
Fixpoint ob_endblock (fuel : nat) (s : chain) (tofetch : Z) (index : nat) : option chain :=
  if tofetch <=? 0 then Some s else
  match fuel with
  | O => None
  | S fuel' =>
      match nth_error (c_bqueue s) index with
      | None => Some s
      | Some m =>
          match get_ms s m with
          | None => None
          | Some x =>
              if negb (bk_status (ms_book x) =? BK_RESOLVED) then None else
              match batch_parts (bk_parts (ms_book x)) (k_status (ms_mkt x)) (k_creator (ms_mkt x)) tofetch 0 with
              | None => None
              | Some (alls, cnt, ps, effs) =>
                  match apply_effects (c_bank s) (c_subs s) effs with
                  | None => None
                  | Some (bk1, subs1) =>
                      let b0 := ms_book x in
                      let b1 := book_upd b0 (if alls then BK_SETTLED else bk_status b0) (bk_partcnt b0) (bk_queues b0) ps
                                         (bk_expo b0) (bk_expo_ix b0) (bk_hist b0) (bk_pairs b0) in
                      let x1 := mstate_upd x (ms_mkt x) b1 (ms_bets x) (ms_pending x) (ms_deps x) (ms_wds x) in
                      let s1 := chain_upd (with_subs s subs1) bk1 (set_ms_list (c_ms s) m x1) (c_mqueue s)
                                          (if alls then remove_uid m (c_bqueue s) else c_bqueue s)
                                          (c_betcnt s) (c_uid2id s) (c_settledix s) (c_grants s) in
                      ob_endblock fuel' s1 (tofetch - cnt) (if alls then index else S index)
                  end
              end
          end
      end
  end.

Definition chain_core (s : chain) (bk : bank) (now height : Z) (grants : list grant) (m : minter) (supply : Z) (halted : bool) : chain :=
  {| c_bank := bk; c_now := now; c_height := height; c_prm := c_prm s; c_vault := c_vault s;
     c_ms := c_ms s; c_mqueue := c_mqueue s; c_bqueue := c_bqueue s; c_betcnt := c_betcnt s;
     c_uid2id := c_uid2id s; c_settledix := c_settledix s; c_grants := grants;
     c_mparams := c_mparams s; c_minter := m; c_supply := supply; c_props := c_props s; c_propcnt := c_propcnt s;
     c_subs := c_subs s; c_subnext := c_subnext s; c_sub_wager := c_sub_wager s; c_sub_deposit := c_sub_deposit s;
     c_halted := halted |}.

Definition halt (s : chain) : chain :=
  chain_core s (c_bank s) (c_now s) (c_height s) (c_grants s) (c_minter s) (c_supply s) true.

Definition total_pending (s : chain) : nat :=
  fold_left (fun n x => (n + length (ms_pending (snd x)))%nat) (c_ms s) O.

(* ---- ovm ------------------------------------------------------------------------------------------------------ *)
(* utils/str.go RemoveDuplicateStrs: first occurrences, in order *)
Fixpoint dedup_keep_first (l seen : list Z) : list Z :=
  match l with
  | [] => []
  | x :: r => if zmem x seen then dedup_keep_first r seen else x :: dedup_keep_first r (x :: seen)
  end.
(* key_vault.go MajorityCount: ceil(n * 0.6667) *)
Definition majority_count (n : Z) : Z := (n * 6667 + 9999) / 10000.
(* key_vault.go SetLeader: pop at index, prepend *)
Definition set_leader (keys : list Z) (i : Z) : list Z :=
  let n := Z.to_nat i in
  nth n keys (-1) :: (firstn n keys ++ skipn (S n) keys).

(* msg_server_pubkeys_proposal.go SubmitPubkeysChangeProposal; keys: key ids, -1 = not a valid ed25519 PEM *)
Definition ovm_propose (s : chain) (signer : Z) (tk : ticket) (keys : list Z) (leader_idx : Z) : option chain :=
  if negb ((0 <=? tk_signer tk) && zmem (tk_signer tk) (c_vault s) && (c_now s <? tk_exp tk)) then None else
  let ks := dedup_keep_first keys [] in
  let n := zlen ks in
  if (n <? 4) || (5 <? n) then None
  else if negb (forallb (fun k => 0 <=? k) ks) then None
  else if (leader_idx <? 0) || (n <=? leader_idx) then None
  else
    let id := c_propcnt s + 1 in
    let p := {| pp_id := id; pp_creator := signer; pp_keys := ks; pp_leader := leader_idx; pp_start := c_now s;
                pp_votes := []; pp_status := PS_ACTIVE; pp_result := 0; pp_finish := 0 |} in
    Some (chain_set_ovm s (c_vault s) (c_props s ++ [p]) id).

(* msg_server_vote.go VotePubkeysChange *)
Definition ovm_vote (s : chain) (tk : ticket) (voter_idx prop_id vote : Z) : option chain :=
  if (voter_idx <? 0) || (zlen (c_vault s) <=? voter_idx) then None else
  let key := nth (Z.to_nat voter_idx) (c_vault s) (-1) in
  if negb ((0 <=? tk_signer tk) && (tk_signer tk =? key) && (c_now s <? tk_exp tk)) then None
  else if negb ((vote =? VOTE_YES) || (vote =? VOTE_NO)) then None
  else match findb (fun p => (pp_id p =? prop_id) && (pp_status p =? PS_ACTIVE)) (c_props s) with
  | None => None
  | Some p =>
      if existsb (fun v => fst v =? key) (pp_votes p) then None else
      let p' := {| pp_id := pp_id p; pp_creator := pp_creator p; pp_keys := pp_keys p; pp_leader := pp_leader p;
                   pp_start := pp_start p; pp_votes := pp_votes p ++ [(key, vote)]; pp_status := pp_status p;
                   pp_result := pp_result p; pp_finish := pp_finish p |} in
      Some (chain_set_ovm s (c_vault s) (upd (fun q => pp_id q =? prop_id) p' (c_props s)) (c_propcnt s))
  end.

Definition count_votes (v : Z) (votes : list (Z * Z)) : Z := zlen (filter (fun x => snd x =? v) votes).

(* proposal.go DecideResult against the key vault read BEFORE the loop (finishPubkeysChangeProposals) *)
Definition decide (p : proposal) (nkeys : Z) : Z :=
  let maj := majority_count nkeys in
  if maj <=? count_votes VOTE_NO (pp_votes p) then PR_REJECTED
  else if maj <=? count_votes VOTE_YES (pp_votes p) then PR_APPROVED else 0.

Definition finish_prop (p : proposal) (result now : Z) : proposal :=
  {| pp_id := pp_id p; pp_creator := pp_creator p; pp_keys := pp_keys p; pp_leader := pp_leader p;
     pp_start := pp_start p; pp_votes := pp_votes p; pp_status := PS_FINISHED; pp_result := result; pp_finish := now |}.

(* keeper/proposal.go finishPubkeysChangeProposals: active proposals in id order *)
Fixpoint ovm_finish (ps : list proposal) (now nkeys0 : Z) (vault : list Z) : list proposal * list Z :=
  match ps with
  | [] => ([], vault)
  | p :: r =>
      if negb (pp_status p =? PS_ACTIVE) then let '(r', v') := ovm_finish r now nkeys0 vault in (p :: r', v')
      else if 1800 <? now - pp_start p then
        let '(r', v') := ovm_finish r now nkeys0 vault in (finish_prop p PR_EXPIRED now :: r', v')
      else
        let d := decide p nkeys0 in
        if d =? PR_REJECTED then let '(r', v') := ovm_finish r now nkeys0 vault in (finish_prop p PR_REJECTED now :: r', v')
        else if d =? PR_APPROVED then
          let '(r', v') := ovm_finish r now nkeys0 (set_leader (pp_keys p) (pp_leader p)) in
          (finish_prop p PR_APPROVED now :: r', v')
        else let '(r', v') := ovm_finish r now nkeys0 vault in (p :: r', v')
  end.

Definition ovm_endblock (s : chain) : chain :=
  let '(ps, v) := ovm_finish (c_props s) (c_now s) (zlen (c_vault s)) (c_vault s) in
  chain_set_ovm s v ps (c_propcnt s).

(* EndBlock: bet end-blocker, then order-book end-blocker, then ovm (app/modules.go orderEndBlockers) *)
Definition end_block (s : chain) : chain * out :=
  match bet_endblock (S (length (c_mqueue s) + total_pending s)) s (pr_bet_batch (c_prm s)) with
  | None => (halt s, Panic)
  | Some s1 =>
      match ob_endblock (S (length (c_bqueue s1))) s1 (pr_ob_batch (c_prm s1)) O with
      | None => (halt s, Panic)
      | Some s2 => (ovm_endblock s2, Ok)
      end
  end.

(* BeginBlock: new header, mint (x/mint/abci.go), authz pruning of grants with expiration < block time
   (InclusiveEndBytes of the time prefix does not reach keys that extend it, so a grant expiring
   exactly now survives and is still valid) *)
Definition begin_block_op (s : chain) (t : Z) : chain * out :=
  let h := c_height s + 1 in
  match begin_block (c_mparams s) (c_minter s) (c_supply s) h with
  | BBpanic => (halt s, Panic)
  | BBok m minted =>
      (chain_core s (badd (c_bank s) FEECOLL minted) t h
                  (filter (fun g => (g_exp g <? 0) || (t <=? g_exp g)) (c_grants s)) m (c_supply s + minted) false, Ok)
  end.

(* authz MsgGrant for the two house authorizations (limits from x/house/types/consts.go) *)
Definition do_grant (s : chain) (granter grantee kind limit exp : Z) : option chain :=
  if granter =? grantee then None
  else if limit <=? 0 then None
  else if (kind =? GK_DEPOSIT) && (limit <? 100) then None
  else if (kind =? GK_WITHDRAW) && (100 <? limit) then None
  else if negb ((kind =? GK_DEPOSIT) || (kind =? GK_WITHDRAW)) then None
  else if (0 <=? exp) && (exp <=? c_now s) then None
  else
    let g := {| g_grantee := grantee; g_granter := granter; g_kind := kind; g_limit := limit; g_exp := exp |} in
    Some (chain_upd s (c_bank s) (c_ms s) (c_mqueue s) (c_bqueue s) (c_betcnt s) (c_uid2id s) (c_settledix s)
                    (upd (grant_is grantee granter kind) g (c_grants s))).

Definition do_revoke (s : chain) (granter grantee kind : Z) : option chain :=
  if granter =? grantee then None else
  match findb (grant_is grantee granter kind) (c_grants s) with
  | None => None
  | Some _ => Some (chain_upd s (c_bank s) (c_ms s) (c_mqueue s) (c_bqueue s) (c_betcnt s) (c_uid2id s)
                              (c_settledix s) (remb (grant_is grantee granter kind) (c_grants s)))
  end.

Definition set_bank (s : chain) (b : bank) : chain :=
  chain_upd s b (c_ms s) (c_mqueue s) (c_bqueue s) (c_betcnt s) (c_uid2id s) (c_settledix s) (c_grants s).

(* bank MsgSend; every module account of the model (ids < 0) is a blocked recipient (Gen/perms.v) *)
Definition do_send (s : chain) (from to amt : Z) : option chain :=
  if amt <=? 0 then None else if to <? 0 then None else
  match pay (c_bank s) from to amt with
  | None => None
  | Some b => Some (set_bank s b)
  end.

(* ---- subaccount -------------------------------------------------------------------------------------------------- *)
Definition lock_ok (now : Z) (l : Z * Z) : bool := negb (fst l =? 0) && negb (snd l <? 0).   (* LockedBalance.Validate *)
(* keeper/subaccount.go sumLockedBalance: None when an unlock time lies before the block time *)
Definition sum_locks (now : Z) (ls : list (Z * Z)) : option Z :=
  if existsb (fun l => fst l <? now) ls then None else Some (zsum (map snd ls)).
(* SetLockedBalances: one store entry per unlock time, the last write wins *)
Definition set_locks (old new : list (Z * Z)) : list (Z * Z) :=
  fold_left (fun acc l => upd (fun x => fst x =? fst l) l acc) new old.

(* msg_server_subaccount.go Create / keeper CreateSubaccount *)
Definition sub_create (s : chain) (creator owner : Z) (locks : list (Z * Z)) : option chain :=
  if negb (forallb (lock_ok (c_now s)) locks) then None else
  match sum_locks (c_now s) locks with
  | None => None
  | Some tot =>
      match sub_by_owner (c_subs s) owner with
      | Some _ => None
      | None =>
          let id := c_subnext s in
          match pay (c_bank s) creator (SUBBASE + id) tot with
          | None => None
          | Some b =>
              let x := {| sa_id := id; sa_owner := owner; sa_dep := tot; sa_spent := 0; sa_wd := 0; sa_lost := 0;
                          sa_locks := set_locks [] locks |} in
              Some (set_bank (chain_set_subs s (c_subs s ++ [x]) (id + 1)) b)
          end
      end
  end.

(* keeper/balance.go TopUp *)
Definition sub_topup (s : chain) (creator owner : Z) (locks : list (Z * Z)) : option chain :=
  if negb (forallb (lock_ok (c_now s)) locks) then None else
  match sum_locks (c_now s) locks with
  | None => None
  | Some tot =>
      match sub_by_owner (c_subs s) owner with
      | None => None
      | Some x =>
          if existsb (fun l => existsb (fun o => fst o =? fst l) (sa_locks x)) locks then None else
          match pay (c_bank s) creator (sub_addr x) tot with
          | None => None
          | Some b =>
              let x' := sub_with x (sa_dep x + tot) (sa_spent x) (sa_wd x) (sa_lost x) (set_locks (sa_locks x) locks) in
              Some (set_bank (with_subs s (set_sub (c_subs s) x')) b)
          end
      end
  end.

(* keeper/balance.go withdrawUnlocked + accsummary.go WithdrawableUnlockedBalance:
   min(available, max(0, unlocked so far - already withdrawn), bank balance) *)
Definition unlocked_total (now : Z) (x : subacc) : Z := zsum (map snd (filter (fun l => fst l <? now) (sa_locks x))).
Definition sub_withdraw_unlocked (s : chain) (owner : Z) : option chain :=
  match sub_by_owner (c_subs s) owner with
  | None => None
  | Some x =>
      let w := Z.min (Z.min (sub_available x) (zmax0 (unlocked_total (c_now s) x - sa_wd x))) (bget (c_bank s) (sub_addr x)) in
      if w =? 0 then None else
      match sub_withdraw x w with
      | None => None
      | Some x' =>
          match pay (c_bank s) (sub_addr x) owner w with
          | None => None
          | Some b => Some (set_bank (with_subs s (set_sub (c_subs s) x')) b)
          end
      end
  end.

(* msg_server_bet.go Wager: outer ticket, inner MsgWager (own ticket), main/subacc deduction *)
Definition sub_wager (s : chain) (signer : Z) (tk : ticket) (inner_creator : Z) (tk2 : ticket)
           (betuid amount selmkt selodds oddsval mult : Z) (allodds : list (Z * Z)) (ky : kyc) (oddstype : Z)
           (main_ded sub_ded : Z) : option chain :=
  if negb (c_sub_wager s) then None else
  match sub_by_owner (c_subs s) signer with
  | None => None
  | Some x =>
      if negb (ticket_ok s tk) then None
      else if negb (signer =? inner_creator) then None
      else if negb (wager_prepare s inner_creator tk2 betuid amount selmkt selodds mult allodds ky oddstype) then None
      else if (main_ded <? 0) || (sub_ded <? 0) then None   (* types/ticket.go Validate: no negative part *)
      else if negb (main_ded + sub_ded =? amount) then None
      else if bget (c_bank s) signer <? main_ded then None
      else
        (* withdrawLockedAndUnlocked *)
        let withdrawable := Z.min (sub_available x) (bget (c_bank s) (sub_addr x)) in
        if Z.min withdrawable sub_ded <? sub_ded then None else
        match pay (c_bank s) (sub_addr x) signer sub_ded with
        | None => None
        | Some b =>
            match sub_withdraw x sub_ded with
            | None => None
            | Some x' =>
                wager_core (set_bank (with_subs s (set_sub (c_subs s) x')) b) signer betuid amount selmkt selodds oddsval mult allodds
            end
        end
  end.

(* msg_server_house.go HouseDeposit *)
Definition sub_house_deposit (s : chain) (signer : Z) (tk : ticket) (mkt amount : Z) (ky : kyc) (dep : Z) : option chain :=
  if negb (c_sub_deposit s) then None else
  if (mkt <? 0) || (amount <=? 0) then None else
  match sub_by_owner (c_subs s) signer with
  | None => None
  | Some x =>
      match deposit_validate s signer tk mkt amount ky dep false with
      | None => None
      | Some (_, grants) =>
          match sub_spend x amount with
          | None => None
          | Some x' =>
              match house_deposit_core s signer (sub_addr x) mkt amount grants with
              | None => None
              | Some s1 => Some (with_subs s1 (set_sub (c_subs s1) x'))
              end
          end
      end
  end.

(* msg_server_house.go HouseWithdraw *)
Definition sub_house_withdraw (s : chain) (signer : Z) (tk : ticket) (mkt pidx mode amount : Z) (ky : kyc) (dep : Z)
  : option chain :=
  match sub_by_owner (c_subs s) signer with
  | None => None
  | Some x =>
      match withdraw_validate s signer tk mkt pidx mode amount ky dep with
      | None => None
      | Some _ =>
          match withdraw_core s signer (sub_addr x) mkt pidx mode amount false with
          | None => None
          | Some (s1, amt) =>
              match sub_unspend x amt with
              | None => None
              | Some x' => Some (with_subs s1 (set_sub (c_subs s1) x'))
              end
          end
      end
  end.

(* transactions are atomic (baseapp runMsgs on a cache-wrapped store + panic recovery) *)
Definition tx (s : chain) (r : option chain) : chain * out :=
  match r with Some s' => (s', Ok) | None => (s, Err) end.

Definition step (s : chain) (o : op) : chain * out :=
  if c_halted s then (s, Panic) else
  match o with
  | OBegin t => begin_block_op s t
  | OEnd => end_block s
  | OMarketAdd signer tk uid st en odds status => tx s (market_add s signer tk uid st en odds status)
  | OMarketUpdate _ tk uid st en status => tx s (market_update s tk uid st en status)
  | OMarketResolve _ tk uid rts winners status => tx s (market_resolve s tk uid rts winners status)
  | ODeposit signer tk mkt amount ky dep => tx s (house_deposit s signer tk mkt amount ky dep)
  | OWithdraw signer tk mkt pidx mode amount ky dep => tx s (house_withdraw s signer tk mkt pidx mode amount ky dep)
  | OWager signer tk betuid amount selmkt selodds oddsval mult allodds ky ot =>
      tx s (bet_wager s signer tk betuid amount selmkt selodds oddsval mult allodds ky ot)
  | OGrant granter grantee kind limit exp => tx s (do_grant s granter grantee kind limit exp)
  | ORevoke granter grantee kind => tx s (do_revoke s granter grantee kind)
  | OSend from to amt => tx s (do_send s from to amt)
  | OPropose signer tk keys li => tx s (ovm_propose s signer tk keys li)
  | OVote _ tk vi pid v => tx s (ovm_vote s tk vi pid v)
  | OSubCreate creator owner locks => tx s (sub_create s creator owner locks)
  | OSubTopUp creator owner locks => tx s (sub_topup s creator owner locks)
  | OSubWithdraw owner => tx s (sub_withdraw_unlocked s owner)
  | OSubWager signer tk ic tk2 betuid amount selmkt selodds oddsval mult allodds ky ot md sd =>
      tx s (sub_wager s signer tk ic tk2 betuid amount selmkt selodds oddsval mult allodds ky ot md sd)
  | OSubHouseDeposit signer tk mkt amount ky dep => tx s (sub_house_deposit s signer tk mkt amount ky dep)
  | OSubHouseWithdraw signer tk mkt pidx mode amount ky dep => tx s (sub_house_withdraw s signer tk mkt pidx mode amount ky dep)
  end.

Definition run (s : chain) (ops : list op) : chain := fold_left (fun st o => fst (step st o)) ops s.

(* ---- parameter updates -------------------------------------------------------------------------------------------------------------
   x/subaccount/keeper/msg_server_params.go UpdateParams under the governance authority: not a user transaction, kept outside `op` (whose
   theorems quantify over what accounts can send); a history with parameter changes is a list of gop *)
Definition set_sub_params (s : chain) (w d : bool) : chain :=
  {| c_bank := c_bank s; c_now := c_now s; c_height := c_height s; c_prm := c_prm s; c_vault := c_vault s;
     c_ms := c_ms s; c_mqueue := c_mqueue s; c_bqueue := c_bqueue s; c_betcnt := c_betcnt s; c_uid2id := c_uid2id s;
     c_settledix := c_settledix s; c_grants := c_grants s; c_mparams := c_mparams s; c_minter := c_minter s;
     c_supply := c_supply s; c_props := c_props s; c_propcnt := c_propcnt s; c_subs := c_subs s;
     c_subnext := c_subnext s; c_sub_wager := w; c_sub_deposit := d; c_halted := c_halted s |}.
(* x/bet/keeper/msg_server_params.go UpdateParams changing the wager fee (validateConstraints: 0 <= fee < minimum amount) *)
Definition set_bet_fee (s : chain) (fee : Z) : chain :=
  let P := c_prm s in
  {| c_bank := c_bank s; c_now := c_now s; c_height := c_height s;
     c_prm := {| pr_bet_batch := pr_bet_batch P; pr_bet_min := pr_bet_min P; pr_bet_fee := fee; pr_ob_maxpart := pr_ob_maxpart P;
                 pr_ob_batch := pr_ob_batch P; pr_ob_thr := pr_ob_thr P; pr_h_mindep := pr_h_mindep P; pr_h_fee := pr_h_fee P;
                 pr_h_maxw := pr_h_maxw P |};
     c_vault := c_vault s;
     c_ms := c_ms s; c_mqueue := c_mqueue s; c_bqueue := c_bqueue s; c_betcnt := c_betcnt s; c_uid2id := c_uid2id s;
     c_settledix := c_settledix s; c_grants := c_grants s; c_mparams := c_mparams s; c_minter := c_minter s;
     c_supply := c_supply s; c_props := c_props s; c_propcnt := c_propcnt s; c_subs := c_subs s;
     c_subnext := c_subnext s; c_sub_wager := c_sub_wager s; c_sub_deposit := c_sub_deposit s; c_halted := c_halted s |}.
Inductive gop := GUser (o : op) | GSubParams (w d : bool) | GBetFee (fee : Z).
Definition gstep (s : chain) (g : gop) : chain * out :=
  match g with
  | GUser o => step s o
  | GSubParams w d => if c_halted s then (s, Panic) else (set_sub_params s w d, Ok)
  | GBetFee fee => if c_halted s then (s, Panic)
                   else if (fee <? 0) || (pr_bet_min (c_prm s) <=? fee) then (s, Err) else (set_bet_fee s fee, Ok)
  end.
Definition grun (s : chain) (gs : list gop) : chain := fold_left (fun st g => fst (gstep st g)) gs s.

(* genesis: empty custom stores, the given balances, params, vault and mint configuration *)
Definition init (bk : bank) (supply : Z) (P : params) (vault : list Z) (MP : mparams) (t0 : Z) (sw sd : bool) : chain :=
  {| c_bank := bk; c_now := t0; c_height := 0; c_prm := P; c_vault := vault; c_ms := []; c_mqueue := [];
     c_bqueue := []; c_betcnt := 0; c_uid2id := []; c_settledix := []; c_grants := [];
     c_mparams := MP; c_minter := {| m_infl := 0; m_step := 0; m_prov := 0; m_trunc := 0 |};
     c_supply := supply; c_props := []; c_propcnt := 0; c_subs := []; c_subnext := 1;
     c_sub_wager := sw; c_sub_deposit := sd; c_halted := false |}.

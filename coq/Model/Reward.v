(* Model/Reward.v — the "reward machine": executable transcription of x/reward (message servers,
   ticket payload validation, the six reward types, pool accounting, the three campaign
   authorizations) together with the parts of x/subaccount, x/authz, x/bank and x/ovm it calls.
   Self-contained (not wired into Model/Chain.v).  No proofs in this file.

   Vocabulary (the harness owns the injective maps to bech32 / UUID strings):
     accounts   0..999          user addresses (genesis accounts first, then never-seen addresses)
                negative -9..-1 module accounts (REWARDPOOL = -4); every one is a bank-blocked recipient
                1000 + id       address of subaccount number id (address.Module("subaccount", id))
                below -10       a string that is not a bech32 address
     uids       n >= 0          a well-formed UUID; n < 0 a string that fails utils.IsValidUID
     Int        Z; a nil sdkmath.Int / LegacyDec inside a ticket payload is `None`
     Dec        Z scaled by 10^18 (Lib/Dec.v)
   Every failing transaction (error or recovered panic) yields RErr and leaves the state untouched
   (baseapp runMsgs on a cache-wrapped store + panic recovery in runTx). *)
From Coq Require Import ZArith Bool List.
From Sge Require Import Lib.Dec Model.Types.
Import ListNotations.
Open Scope Z_scope.

(* ---- enums (proto/sgenetwork/sge/reward/reward.proto) ------------------------------------- *)
Definition CAT_SIGNUP := 1. Definition CAT_REFERRAL := 2. Definition CAT_AFFILIATE := 3.
Definition CAT_MILESTONE := 5. Definition CAT_BET_DISCOUNT := 6.
Definition RT_SIGNUP := 1. Definition RT_REFERRAL_SIGNUP := 2. Definition RT_AFFILIATE_SIGNUP := 3.
Definition RT_REFERRAL := 4. Definition RT_AFFILIATE := 5. Definition RT_MILESTONE := 7.
Definition RT_BET_DISCOUNT := 8.
Definition AT_FIXED := 1. Definition AT_PERCENTAGE := 3.

(* ---- addresses ------------------------------------------------------------------------------ *)
Definition SUBBASE : Z := 1000.
Definition addr_valid (a : Z) : bool := -10 <=? a.         (* sdk.AccAddressFromBech32 succeeds *)
(* app/keepers/keepers.go BlockedAddresses: every module account except gov (gov is not modelled) *)
Definition blocked (a : Z) : bool := a <? 0.
(* only user accounts hold keys: a transaction signed by a module account or a subaccount address
   cannot exist (ante handler) *)
Definition signer_ok (a : Z) : bool := (0 <=? a) && (a <? SUBBASE).

(* ---- records ---------------------------------------------------------------------------------- *)
(* types.RewardAmount as stored (nil Int/Dec marshal to "0", so stored values are never nil) *)
Record ramount := { ra_main : Z; ra_sub : Z; ra_unlock : Z; ra_mainpct : Z; ra_subpct : Z }.
(* types.RewardAmount as decoded from a ticket: absent JSON fields stay nil *)
Record ramount_p := { rp_main : option Z; rp_sub : option Z; rp_unlock : Z;
                      rp_mainpct : option Z; rp_subpct : option Z }.

(* types.Campaign; Pool{Total,Spent,Withdrawn} flattened; cm_constr: None = nil Constraints,
   Some m = Constraints{MaxBetAmount: m} *)
Record campaign := {
  cm_uid : Z; cm_creator : Z; cm_promoter : Z; cm_start : Z; cm_end : Z;
  cm_cat : Z; cm_type : Z; cm_atype : Z; cm_amt : ramount;
  cm_total : Z; cm_spent : Z; cm_withdrawn : Z;
  cm_active : bool; cm_cap : Z; cm_constr : option Z }.

Record promoter := { pm_uid : Z; pm_creator : Z; pm_addrs : list Z; pm_conf : list (Z * Z) (* category, cap *) }.
Record reward := { rw_uid : Z; rw_creator : Z; rw_receiver : Z; rw_camp : Z; rw_amt : ramount; rw_source : Z }.
Record rbycat := { bc_prom : Z; bc_addr : Z; bc_cat : Z; bc_uid : Z }.     (* prefix 0x02 *)
Record rstat := { st_camp : Z; st_addr : Z; st_count : Z }.               (* prefix 0x06 *)

(* authz grants of the three campaign authorizations *)
Definition GK_CREATE := 1. Definition GK_UPDATE := 2. Definition GK_RWITHDRAW := 3.
Record rgrant := { rg_grantee : Z; rg_granter : Z; rg_kind : Z; rg_limit : Z; rg_exp : Z (* -1 = none *) }.

(* x/subaccount: owner <-> subaccount id, AccountSummary, locked balances (sub id, unlock ts, amount) *)
Record sub := { sb_id : Z; sb_owner : Z; sb_dep : Z; sb_spent : Z; sb_wd : Z; sb_lost : Z }.
Record lock := { lk_sub : Z; lk_ts : Z; lk_amt : Z }.

(* the fields of x/bet's Bet that BetBonusReward.Calculate reads (modelled interface: written only
   by RSyncBet, which the harness derives from the real bet store) *)
Record rbet := { rb_uid : Z; rb_creator : Z; rb_amount : Z; rb_result : Z; rb_main : bool }.

Record rstate := {
  r_bank : bank; r_now : Z; r_height : Z; r_leader : Z;
  r_proms : list promoter;
  r_promaddr : list (Z * Z);            (* PromoterByAddress: address -> promoter uid *)
  r_camps : list campaign;
  r_rewards : list reward;
  r_bycat : list rbycat;
  r_bycamp : list (Z * Z);              (* campaign uid, reward uid *)
  r_stats : list rstat;
  r_grants : list rgrant;
  r_subs : list sub; r_subnext : Z; r_locks : list lock;
  r_bets : list rbet }.

(* ---- field setters ------------------------------------------------------------------------------ *)
Definition set_bank (s : rstate) (v : bank) : rstate :=
  {| r_bank := v; r_now := r_now s; r_height := r_height s; r_leader := r_leader s; r_proms := r_proms s;
     r_promaddr := r_promaddr s; r_camps := r_camps s; r_rewards := r_rewards s; r_bycat := r_bycat s;
     r_bycamp := r_bycamp s; r_stats := r_stats s; r_grants := r_grants s; r_subs := r_subs s;
     r_subnext := r_subnext s; r_locks := r_locks s; r_bets := r_bets s |}.
Definition set_proms (s : rstate) (v : list promoter) (w : list (Z * Z)) : rstate :=
  {| r_bank := r_bank s; r_now := r_now s; r_height := r_height s; r_leader := r_leader s; r_proms := v;
     r_promaddr := w; r_camps := r_camps s; r_rewards := r_rewards s; r_bycat := r_bycat s;
     r_bycamp := r_bycamp s; r_stats := r_stats s; r_grants := r_grants s; r_subs := r_subs s;
     r_subnext := r_subnext s; r_locks := r_locks s; r_bets := r_bets s |}.
Definition set_camps (s : rstate) (v : list campaign) : rstate :=
  {| r_bank := r_bank s; r_now := r_now s; r_height := r_height s; r_leader := r_leader s; r_proms := r_proms s;
     r_promaddr := r_promaddr s; r_camps := v; r_rewards := r_rewards s; r_bycat := r_bycat s;
     r_bycamp := r_bycamp s; r_stats := r_stats s; r_grants := r_grants s; r_subs := r_subs s;
     r_subnext := r_subnext s; r_locks := r_locks s; r_bets := r_bets s |}.
Definition set_rewards (s : rstate) (v : list reward) (bc : list rbycat) (bm : list (Z * Z)) : rstate :=
  {| r_bank := r_bank s; r_now := r_now s; r_height := r_height s; r_leader := r_leader s; r_proms := r_proms s;
     r_promaddr := r_promaddr s; r_camps := r_camps s; r_rewards := v; r_bycat := bc;
     r_bycamp := bm; r_stats := r_stats s; r_grants := r_grants s; r_subs := r_subs s;
     r_subnext := r_subnext s; r_locks := r_locks s; r_bets := r_bets s |}.
Definition set_stats (s : rstate) (v : list rstat) : rstate :=
  {| r_bank := r_bank s; r_now := r_now s; r_height := r_height s; r_leader := r_leader s; r_proms := r_proms s;
     r_promaddr := r_promaddr s; r_camps := r_camps s; r_rewards := r_rewards s; r_bycat := r_bycat s;
     r_bycamp := r_bycamp s; r_stats := v; r_grants := r_grants s; r_subs := r_subs s;
     r_subnext := r_subnext s; r_locks := r_locks s; r_bets := r_bets s |}.
Definition set_grants (s : rstate) (v : list rgrant) : rstate :=
  {| r_bank := r_bank s; r_now := r_now s; r_height := r_height s; r_leader := r_leader s; r_proms := r_proms s;
     r_promaddr := r_promaddr s; r_camps := r_camps s; r_rewards := r_rewards s; r_bycat := r_bycat s;
     r_bycamp := r_bycamp s; r_stats := r_stats s; r_grants := v; r_subs := r_subs s;
     r_subnext := r_subnext s; r_locks := r_locks s; r_bets := r_bets s |}.
Definition set_subs (s : rstate) (v : list sub) (nx : Z) (lk : list lock) : rstate :=
  {| r_bank := r_bank s; r_now := r_now s; r_height := r_height s; r_leader := r_leader s; r_proms := r_proms s;
     r_promaddr := r_promaddr s; r_camps := r_camps s; r_rewards := r_rewards s; r_bycat := r_bycat s;
     r_bycamp := r_bycamp s; r_stats := r_stats s; r_grants := r_grants s; r_subs := v;
     r_subnext := nx; r_locks := lk; r_bets := r_bets s |}.
Definition set_bets (s : rstate) (v : list rbet) : rstate :=
  {| r_bank := r_bank s; r_now := r_now s; r_height := r_height s; r_leader := r_leader s; r_proms := r_proms s;
     r_promaddr := r_promaddr s; r_camps := r_camps s; r_rewards := r_rewards s; r_bycat := r_bycat s;
     r_bycamp := r_bycamp s; r_stats := r_stats s; r_grants := r_grants s; r_subs := r_subs s;
     r_subnext := r_subnext s; r_locks := r_locks s; r_bets := v |}.
Definition set_time (s : rstate) (t h : Z) (g : list rgrant) : rstate :=
  {| r_bank := r_bank s; r_now := t; r_height := h; r_leader := r_leader s; r_proms := r_proms s;
     r_promaddr := r_promaddr s; r_camps := r_camps s; r_rewards := r_rewards s; r_bycat := r_bycat s;
     r_bycamp := r_bycamp s; r_stats := r_stats s; r_grants := g; r_subs := r_subs s;
     r_subnext := r_subnext s; r_locks := r_locks s; r_bets := r_bets s |}.

(* ---- bank ------------------------------------------------------------------------------------------ *)
(* bank SendCoins of sdk.NewCoins(sdk.NewCoin(denom, amt)): a negative amount panics in sdk.NewCoin,
   insufficient spendable balance is an error, a zero amount is an empty Coins (no-op). *)
Definition rpay (b : bank) (from to amt : Z) : option bank :=
  if amt <? 0 then None
  else if bget b from <? amt then None
  else Some (badd (badd b from (- amt)) to amt).

(* utils/fund.go Fund with RewardPoolFunder: SendCoinsFromAccountToModule(sender -> reward_pool) *)
Definition fund_pool (b : bank) (sender amt : Z) : option bank := rpay b sender REWARDPOOL amt.
(* utils/fund.go Refund with RewardPoolFunder: SendCoinsFromModuleToAccount(reward_pool -> receiver);
   the bank keeper rejects blocked recipients (x/bank/keeper/keeper.go) *)
Definition refund_pool (b : bank) (receiver amt : Z) : option bank :=
  if amt <? 0 then None                      (* sdk.NewCoin panics before the bank is reached *)
  else if blocked receiver then None
  else rpay b REWARDPOOL receiver amt.

(* ---- tickets ------------------------------------------------------------------------------------------ *)
(* x/ovm/keeper/ticket.go verifyTicketWithKeyUnmarshal with no explicit keys (same rule as Chain.ticket_ok) *)
Definition rticket_ok (s : rstate) (t : ticket) : bool :=
  (0 <=? tk_signer t) && (tk_signer t =? r_leader s) && (r_now s <? tk_exp t).

(* ---- authz -------------------------------------------------------------------------------------------- *)
Definition rgrant_is (grantee granter kind : Z) (g : rgrant) : bool :=
  (rg_grantee g =? grantee) && (rg_granter g =? granter) && (rg_kind g =? kind).

(* x/reward/types/campaign_authorizaton.go Accept of the three authorizations: the limit left, or None *)
Definition accept_left (kind limit amount : Z) : option Z :=
  if kind =? GK_UPDATE then
    (if 0 <? amount then (let l := limit - amount in if l <? 0 then None else Some l) else Some limit)
  else (let l := limit - amount in if l <? 0 then None else Some l).

(* utils/authorization.go ValidateMsgAuthorization (+ authz keeper GetAuthorization / DeleteGrant /
   SaveGrant; SaveGrant -> authz.NewGrant refuses an expiration that is not after the block time, so
   a grant expiring exactly now can only be used up completely) *)
Definition use_rgrant (gs : list rgrant) (now grantee granter kind amount : Z) : option (list rgrant) :=
  match findb (rgrant_is grantee granter kind) gs with
  | None => None
  | Some g =>
      if (0 <=? rg_exp g) && (rg_exp g <? now) then None
      else match accept_left kind (rg_limit g) amount with
           | None => None
           | Some lft =>
               if lft =? 0 then Some (remb (rgrant_is grantee granter kind) gs)
               else if (0 <=? rg_exp g) && (rg_exp g <=? now) then None
               else Some (upd (rgrant_is grantee granter kind)
                              {| rg_grantee := grantee; rg_granter := granter; rg_kind := kind;
                                 rg_limit := lft; rg_exp := rg_exp g |} gs)
           end
  end.

(* `if msg.Creator != promoter { ValidateMsgAuthorization(...) }` *)
Definition authorize (s : rstate) (signer promoter kind amount : Z) : option (list rgrant) :=
  if signer =? promoter then Some (r_grants s)
  else use_rgrant (r_grants s) (r_now s) signer promoter kind amount.

(* authz MsgGrant with Create/Update/WithdrawCampaignAuthorization (ValidateBasic limits from
   x/reward/types/consts.go: minCampaignFunds = 100, maxWithdrawGrant = 100) *)
Definition do_rgrant (s : rstate) (granter grantee kind limit exp : Z) : option rstate :=
  if granter =? grantee then None
  else if negb (addr_valid grantee) then None
  else if negb ((kind =? GK_CREATE) || (kind =? GK_UPDATE) || (kind =? GK_RWITHDRAW)) then None
  else if limit <=? 0 then None
  else if ((kind =? GK_CREATE) || (kind =? GK_UPDATE)) && (limit <? 100) then None
  else if (kind =? GK_RWITHDRAW) && (100 <? limit) then None
  (* x/reward/types/codec.go RegisterInterfaces registers Create- and UpdateCampaignAuthorization only:
     a MsgGrant carrying a WithdrawCampaignAuthorization cannot be decoded ("unable to resolve type URL",
     tx parse error), so no withdraw grant can ever be created.  Reproduced. *)
  else if kind =? GK_RWITHDRAW then None
  else if (0 <=? exp) && (exp <=? r_now s) then None
  else
    let g := {| rg_grantee := grantee; rg_granter := granter; rg_kind := kind; rg_limit := limit; rg_exp := exp |} in
    Some (set_grants s (upd (rgrant_is grantee granter kind) g (r_grants s))).

Definition do_rrevoke (s : rstate) (granter grantee kind : Z) : option rstate :=
  if granter =? grantee then None
  else if negb (addr_valid grantee) then None
  else match findb (rgrant_is grantee granter kind) (r_grants s) with
       | None => None
       | Some _ => Some (set_grants s (remb (rgrant_is grantee granter kind) (r_grants s)))
       end.

(* ---- promoters -------------------------------------------------------------------------------------- *)
(* x/reward/types/promoter.go PromoterConf.Validate *)
Fixpoint conf_valid (seen : list Z) (l : list (Z * Z)) : bool :=
  match l with
  | [] => true
  | (c, cap) :: r => if zmem c seen then false else if cap <=? 0 then false else conf_valid (c :: seen) r
  end.

Definition find_prom (l : list promoter) (uid : Z) : option promoter := findb (fun p => pm_uid p =? uid) l.
Definition prom_of_addr (l : list (Z * Z)) (a : Z) : option Z :=
  match findb (fun x => fst x =? a) l with Some x => Some (snd x) | None => None end.

(* keeper/msg_server_promoter.go CreatePromoter (+ MsgCreatePromoter.ValidateBasic, CreatePromoterPayload.Validate).
   As of /repo commit 6834bf6 an address that already belongs to a promoter (IsPromoter: it has a by-address
   entry) cannot create another one, so SetPromoterByAddress below always adds a fresh key. *)
Definition create_promoter (s : rstate) (signer : Z) (tk : ticket) (uid : Z) (conf : list (Z * Z)) : option rstate :=
  if negb (rticket_ok s tk) then None
  else match find_prom (r_proms s) uid with
  | Some _ => None
  | None =>
      if uid <? 0 then None                                   (* utils.IsValidUID *)
      else if negb (conf_valid [] conf) then None
      else match prom_of_addr (r_promaddr s) signer with      (* IsPromoter(msg.Creator) *)
      | Some _ => None
      | None =>
          let p := {| pm_uid := uid; pm_creator := signer; pm_addrs := [signer]; pm_conf := conf |} in
          Some (set_proms s (r_proms s ++ [p]) (upd (fun x => fst x =? signer) (signer, uid) (r_promaddr s)))
      end
  end.

(* keeper/msg_server_promoter.go SetPromoterConf *)
Definition set_promoter_conf (s : rstate) (signer : Z) (tk : ticket) (uid : Z) (conf : list (Z * Z)) : option rstate :=
  if uid <? 0 then None                                       (* ValidateBasic *)
  else match find_prom (r_proms s) uid with
  | None => None
  | Some p =>
      if negb (zmem signer (pm_addrs p)) then None
      else if negb (rticket_ok s tk) then None
      else if negb (conf_valid [] conf) then None
      else
        let p' := {| pm_uid := pm_uid p; pm_creator := pm_creator p; pm_addrs := pm_addrs p; pm_conf := conf |} in
        Some (set_proms s (upd (fun x => pm_uid x =? uid) p' (r_proms s)) (r_promaddr s))
  end.

(* ---- campaigns --------------------------------------------------------------------------------------- *)
Definition find_camp (l : list campaign) (uid : Z) : option campaign := findb (fun c => cm_uid c =? uid) l.

(* types/pool.go AvailableAmount *)
Definition cm_avail (c : campaign) : Z := cm_total c - cm_withdrawn c - cm_spent c.

Definition camp_pool (c : campaign) (total spent withdrawn : Z) (active : bool) (end_ : Z) : campaign :=
  {| cm_uid := cm_uid c; cm_creator := cm_creator c; cm_promoter := cm_promoter c; cm_start := cm_start c;
     cm_end := end_; cm_cat := cm_cat c; cm_type := cm_type c; cm_atype := cm_atype c; cm_amt := cm_amt c;
     cm_total := total; cm_spent := spent; cm_withdrawn := withdrawn; cm_active := active; cm_cap := cm_cap c;
     cm_constr := cm_constr c |}.

Definition opt_pos (o : option Z) : bool := match o with Some v => 0 <? v | None => false end.       (* !IsNil && GT(0) *)
Definition opt_nil_or_nonpos (o : option Z) : bool := match o with Some v => v <=? 0 | None => true end. (* IsNil || LTE(0) *)
Definition opt_z (o : option Z) : Z := match o with Some v => v | None => 0 end.

(* types/ticket.go validateRewardCategory *)
Definition cat_type_ok (cat ty : Z) : bool :=
  if cat =? CAT_SIGNUP then (ty =? RT_SIGNUP) || (ty =? RT_REFERRAL_SIGNUP) || (ty =? RT_AFFILIATE_SIGNUP)
  else if cat =? CAT_BET_DISCOUNT then ty =? RT_BET_DISCOUNT
  else if cat =? CAT_AFFILIATE then ty =? RT_AFFILIATE
  else if cat =? CAT_MILESTONE then ty =? RT_MILESTONE
  else if cat =? CAT_REFERRAL then ty =? RT_REFERRAL
  else false.

Definition opt_neg (o : option Z) : bool := match o with Some v => v <? 0 | None => false end.       (* !IsNil && IsNegative() *)

(* types/ticket.go CreateCampaignPayload.Validate (as of /repo commit f6ab6fd: a negative amount or percentage
   is refused right after validateRewardCategory, before the amount-type switch) *)
Definition payload_valid (now start end_ cat ty atype : Z) (ra : ramount_p) : bool :=
  if end_ <=? start then false
  else if end_ <=? now then false
  else if negb (cat_type_ok cat ty) then false
  else if opt_neg (rp_main ra) || opt_neg (rp_sub ra) || opt_neg (rp_mainpct ra) || opt_neg (rp_subpct ra) then false
  else if negb (
    if atype =? AT_FIXED then
      (if opt_pos (rp_mainpct ra) || opt_pos (rp_subpct ra) then false
       else if opt_nil_or_nonpos (rp_main ra) && opt_nil_or_nonpos (rp_sub ra) then false else true)
    else if atype =? AT_PERCENTAGE then
      (if opt_pos (rp_main ra) || opt_pos (rp_sub ra) then false
       else if opt_nil_or_nonpos (rp_mainpct ra) && opt_nil_or_nonpos (rp_subpct ra) then false else true)
    else false) then false
  else if (opt_pos (rp_sub ra) || opt_pos (rp_subpct ra)) && (rp_unlock ra =? 0) then false
  else true.

(* types/reward_*.go ValidateCampaign of the six reward types, evaluated on the in-memory campaign built
   from the payload; false = error or nil-pointer panic (Int.LTE / Dec.IsZero on a nil value) *)
Definition validate_campaign (cat ty atype : Z) (ra : ramount_p) (constr : option (option Z)) : bool :=
  if (ty =? RT_SIGNUP) || (ty =? RT_REFERRAL_SIGNUP) || (ty =? RT_AFFILIATE_SIGNUP) || (ty =? RT_REFERRAL) then
    (* reward_signup.go, reward_signup_referee.go, reward_signup_affiliatee.go, reward_signup_referrer.go *)
    if negb (cat =? (if ty =? RT_REFERRAL then CAT_REFERRAL else CAT_SIGNUP)) then false
    else match rp_sub ra with
         | None => false
         | Some v => if v <=? 0 then false else atype =? AT_FIXED
         end
  else if ty =? RT_AFFILIATE then
    (* reward_signup_affiliator.go *)
    if negb (cat =? CAT_AFFILIATE) then false
    else match rp_sub ra with
         | None => false
         | Some v =>
             if 0 <? v then false
             else match rp_main ra with
                  | None => false
                  | Some m => if m <=? 0 then false else atype =? AT_FIXED
                  end
         end
  else if ty =? RT_BET_DISCOUNT then
    (* reward_bet_bonus.go: `main.IsZero() && sub.IsZero()` short-circuits *)
    if negb (cat =? CAT_BET_DISCOUNT) then false
    else match rp_mainpct ra with
         | None => false
         | Some mp =>
             if negb (if mp =? 0 then (match rp_subpct ra with None => false | Some sp => negb (sp =? 0) end) else true)
             then false
             else if negb (atype =? AT_PERCENTAGE) then false
             else match constr with
                  | Some (Some _) => true
                  | _ => false
                  end
         end
  else false.                                                    (* GetRewardsFactory: unknown reward type *)

(* keeper/msg_server_campaign.go CreateCampaign (+ MsgCreateCampaign.ValidateBasic) *)
Definition create_campaign (s : rstate) (signer : Z) (tk : ticket) (uid total : Z)
           (prom start end_ cat ty atype : Z) (ra : option ramount_p) (active : bool) (cap : Z)
           (constr : option (option Z)) : option rstate :=
  if (uid <? 0) || (total <=? 0) then None                                          (* ValidateBasic *)
  else match find_camp (r_camps s) uid with
  | Some _ => None
  | None =>
      if negb (rticket_ok s tk) then None
      else if (start <? 0) || (end_ <? 0) || (cap <? 0) then None                   (* uint64 fields of the payload JSON *)
      else match prom_of_addr (r_promaddr s) prom with                              (* IsPromoter *)
      | None => None
      | Some _ =>
          match authorize s signer prom GK_CREATE total with
          | None => None
          | Some grants =>
              match ra with
              | None => None                                                        (* payload.RewardAmount nil: panic *)
              | Some ra =>
                  if rp_unlock ra <? 0 then None
                  else if negb (payload_valid (r_now s) start end_ cat ty atype ra) then None
                  else if total <? opt_z (rp_main ra) + opt_z (rp_sub ra) then None
                  else if PREC <=? opt_z (rp_mainpct ra) + opt_z (rp_subpct ra) then None
                  else if negb (validate_campaign cat ty atype ra constr) then None
                  else match fund_pool (r_bank s) prom total with
                  | None => None
                  | Some b =>
                      let c := {| cm_uid := uid; cm_creator := signer; cm_promoter := prom; cm_start := start;
                                  cm_end := end_; cm_cat := cat; cm_type := ty; cm_atype := atype;
                                  cm_amt := {| ra_main := opt_z (rp_main ra); ra_sub := opt_z (rp_sub ra);
                                               ra_unlock := rp_unlock ra; ra_mainpct := opt_z (rp_mainpct ra);
                                               ra_subpct := opt_z (rp_subpct ra) |};
                                  cm_total := total; cm_spent := 0; cm_withdrawn := 0; cm_active := active;
                                  cm_cap := cap;
                                  cm_constr := match constr with Some m => Some (opt_z m) | None => None end |} in
                      Some (set_camps (set_grants (set_bank s b) grants) (r_camps s ++ [c]))
                  end
              end
          end
      end
  end.

(* keeper/msg_server_campaign.go UpdateCampaign.  Questionable, reproduced: the new end may lie before
   the start; a top-up of zero or less is silently ignored. *)
Definition update_campaign (s : rstate) (signer : Z) (tk : ticket) (uid topup end_ : Z) (active : bool) : option rstate :=
  if uid <? 0 then None                                                             (* ValidateBasic *)
  else if negb (rticket_ok s tk) then None
  else if end_ <? 0 then None                                                       (* uint64 JSON field *)
  else if end_ <? r_now s then None                                                 (* UpdateCampaignPayload.Validate *)
  else match find_camp (r_camps s) uid with
  | None => None
  | Some c =>
      if negb (cm_active c) then None
      else match authorize s signer (cm_promoter c) GK_UPDATE topup with
      | None => None
      | Some grants =>
          match (if 0 <? topup then fund_pool (r_bank s) (cm_promoter c) topup else Some (r_bank s)) with
          | None => None
          | Some b =>
              let total := if 0 <? topup then cm_total c + topup else cm_total c in
              let c' := camp_pool c total (cm_spent c) (cm_withdrawn c) active end_ in
              Some (set_camps (set_grants (set_bank s b) grants) (upd (fun x => cm_uid x =? uid) c' (r_camps s)))
          end
      end
  end.

(* keeper/msg_server_campaign.go WithdrawFunds.  MsgWithdrawFunds.ValidateBasic does not look at Amount:
   zero succeeds (and is a no-op on funds), a negative amount panics in sdk.NewCoin. *)
Definition withdraw_funds (s : rstate) (signer : Z) (tk : ticket) (uid amount prom : Z) : option rstate :=
  if uid <? 0 then None
  else if negb (rticket_ok s tk) then None
  else if negb (addr_valid prom) then None                                          (* WithdrawFundsPayload.Validate *)
  else match find_camp (r_camps s) uid with
  | None => None
  | Some c =>
      if negb (prom =? cm_promoter c) then None
      else match authorize s signer (cm_promoter c) GK_RWITHDRAW amount with
      | None => None
      | Some grants =>
          if cm_avail c <=? 0 then None
          else if cm_avail c <? amount then None
          else match refund_pool (r_bank s) prom amount with
          | None => None
          | Some b =>
              let wd := cm_withdrawn c + amount in
              let act := if cm_total c - wd - cm_spent c <=? 0 then false else cm_active c in
              let c' := camp_pool c (cm_total c) (cm_spent c) wd act (cm_end c) in
              Some (set_camps (set_grants (set_bank s b) grants) (upd (fun x => cm_uid x =? uid) c' (r_camps s)))
          end
      end
  end.

(* ---- subaccounts ------------------------------------------------------------------------------------ *)
Definition sub_by_owner (l : list sub) (owner : Z) : option sub := findb (fun x => sb_owner x =? owner) l.
(* IsSubaccount: the reverse index has the address *)
Definition is_subaccount (l : list sub) (a : Z) : bool := existsb (fun x => SUBBASE + sb_id x =? a) l.

Definition lock_is (id ts : Z) (l : lock) : bool := (lk_sub l =? id) && (lk_ts l =? ts).
(* keeper/balance.go SetLockedBalances: one store key per (subaccount, unlock time); a later entry with the
   same time overwrites the earlier one *)
Fixpoint set_locks (ls : list lock) (id : Z) (l : list (Z * Z)) : list lock :=
  match l with
  | [] => ls
  | (ts, amt) :: r => set_locks (upd (lock_is id ts) {| lk_sub := id; lk_ts := ts; lk_amt := amt |} ls) id r
  end.

(* keeper/subaccount.go CreateSubaccount (sumLockedBalance, NextID, sendCoinsToSubaccount, ...) *)
Definition create_sub (s : rstate) (creator owner : Z) (locks : list (Z * Z)) : option (rstate * Z) :=
  if existsb (fun l => fst l <? r_now s) locks then None                           (* ErrUnlockTokenTimeExpired *)
  else
    let total := zsum (map snd locks) in
    match sub_by_owner (r_subs s) owner with
    | Some _ => None
    | None =>
        let id := r_subnext s in
        match rpay (r_bank s) creator (SUBBASE + id) total with
        | None => None
        | Some b =>
            let sb := {| sb_id := id; sb_owner := owner; sb_dep := total; sb_spent := 0; sb_wd := 0; sb_lost := 0 |} in
            Some (set_subs (set_bank s b) (r_subs s ++ [sb]) (id + 1) (set_locks (r_locks s) id locks), SUBBASE + id)
        end
    end.

(* x/subaccount MsgCreate (ValidateBasic: valid owner, every lock with a non-zero time and a non-negative amount) *)
Definition sub_create (s : rstate) (signer owner : Z) (locks : list (Z * Z)) : option rstate :=
  if negb (addr_valid owner) then None
  else if existsb (fun l => (fst l <=? 0) || (snd l <? 0)) locks then None
  else match create_sub s signer owner locks with
       | Some (s', _) => Some s'
       | None => None
       end.

(* types/reward.go getSubaccountAddr: the receiver's subaccount, created on the fly (paid by nobody: no locks) *)
Definition get_or_create_sub (s : rstate) (creator receiver : Z) : option (rstate * Z) :=
  match sub_by_owner (r_subs s) receiver with
  | Some sb => Some (s, SUBBASE + sb_id sb)
  | None => create_sub s creator receiver []
  end.

Definition u64_add (a b : Z) : Z := (a + b) mod U64.

(* keeper/balance.go TopUp with creator = reward_pool module address and one locked balance *)
Definition sub_topup (s : rstate) (owner ts amt : Z) : option rstate :=
  if ts <? r_now s then None
  else match sub_by_owner (r_subs s) owner with
  | None => None
  | Some sb =>
      if existsb (lock_is (sb_id sb) ts) (r_locks s) then None                     (* ErrLockedBalanceExists *)
      else
        let sb' := {| sb_id := sb_id sb; sb_owner := sb_owner sb; sb_dep := sb_dep sb + amt; sb_spent := sb_spent sb;
                      sb_wd := sb_wd sb; sb_lost := sb_lost sb |} in
        match rpay (r_bank s) REWARDPOOL (SUBBASE + sb_id sb) amt with
        | None => None
        | Some b =>
            Some (set_subs (set_bank s b) (upd (fun x => sb_owner x =? owner) sb' (r_subs s)) (r_subnext s)
                           (set_locks (r_locks s) (sb_id sb) [(ts, amt)]))
        end
  end.

(* ---- rewards ------------------------------------------------------------------------------------------ *)
(* types/reward.go Receiver *)
Record recv := { rc_main : Z; rc_subaddr : Z; rc_amt : ramount }.
(* Receiver.TotalAmount *)
Definition rc_total (r : recv) : Z := ra_main (rc_amt r) + ra_sub (rc_amt r).

Definition count_bycat (l : list rbycat) (puid addr cat : Z) : Z :=
  zlen (filter (fun x => (bc_prom x =? puid) && (bc_addr x =? addr) && (bc_cat x =? cat)) l).
(* keeper/reward.go HasRewardOfReceiverByPromoter *)
Definition has_reward (l : list rbycat) (puid addr cat : Z) : bool := 0 <? count_bycat l puid addr cat.

Definition stat_is (camp addr : Z) (x : rstat) : bool := (st_camp x =? camp) && (st_addr x =? addr).
Definition stat_get (l : list rstat) (camp addr : Z) : Z :=
  match findb (stat_is camp addr) l with Some x => st_count x | None => 0 end.

Definition fixed_recv (c : campaign) (receiver subaddr : Z) : recv :=
  {| rc_main := receiver; rc_subaddr := subaddr;
     rc_amt := {| ra_main := ra_main (cm_amt c); ra_sub := ra_sub (cm_amt c); ra_unlock := ra_unlock (cm_amt c);
                  ra_mainpct := 0; ra_subpct := 0 |} |}.

(* the common tail of the five sign-up Calculate functions: IsSubaccount, getSubaccountAddr, NewReceiver *)
Definition signup_tail (s : rstate) (c : campaign) (signer receiver : Z) : option (rstate * recv) :=
  if is_subaccount (r_subs s) receiver then None
  else match get_or_create_sub s signer receiver with
       | None => None
       | Some (s1, sa) => Some (s1, fixed_recv c receiver sa)
       end.

(* reward_bet_bonus.go: effective bet amount and the two amounts *)
Definition bonus_eff (c : campaign) (betamt : Z) : Z :=
  match cm_constr c with
  | Some m => if 0 <? m then Z.min m betamt else betamt
  | None => betamt
  end.
Definition bonus_amt (eff pct : Z) : Z := dec_trunc_int (dec_mul (dec_of_int eff) pct).

(* types/reward_*.go Calculate, dispatched on the stored campaign's reward type.
   haskyc = false models a payload without kyc_data. *)
Definition calculate (s : rstate) (c : campaign) (signer : Z) (tk : ticket) (haskyc : bool) (ky : kyc)
           (receiver source peer betuid : Z) : option (rstate * recv) :=
  if negb (rticket_ok s tk) then None
  else if negb haskyc then None                                                     (* RewardPayloadCommon.Validate *)
  else if negb (kyc_ok ky receiver) then None
  else if negb (addr_valid receiver) then None
  else
    let ty := cm_type c in
    if ty =? RT_SIGNUP then signup_tail s c signer receiver
    else if (ty =? RT_REFERRAL_SIGNUP) || (ty =? RT_AFFILIATE_SIGNUP) then
      if negb (addr_valid source) then None else signup_tail s c signer receiver
    else if (ty =? RT_REFERRAL) || (ty =? RT_AFFILIATE) then
      match prom_of_addr (r_promaddr s) (cm_promoter c) with
      | None => None
      | Some puid =>
          if negb (has_reward (r_bycat s) puid peer CAT_SIGNUP) then None
          else signup_tail s c signer receiver
      end
    else if ty =? RT_BET_DISCOUNT then
      if is_subaccount (r_subs s) receiver then None
      else match get_or_create_sub s signer receiver with
      | None => None
      | Some (s1, sa) =>
          match findb (fun b => rb_uid b =? betuid) (r_bets s1) with                (* GetBetID *)
          | None => None
          | Some b =>
              if negb (rb_creator b =? receiver) then None                          (* GetBet(receiver, id) *)
              else if negb (rb_main b) then None
              else if negb ((rb_result b =? BR_LOST) || (rb_result b =? BR_WON)) then None
              else
                let eff := bonus_eff c (rb_amount b) in
                Some (s1, {| rc_main := receiver; rc_subaddr := sa;
                             rc_amt := {| ra_main := bonus_amt eff (ra_mainpct (cm_amt c));
                                          ra_sub := bonus_amt eff (ra_subpct (cm_amt c));
                                          ra_unlock := ra_unlock (cm_amt c);
                                          ra_mainpct := ra_mainpct (cm_amt c); ra_subpct := ra_subpct (cm_amt c) |} |})
          end
      end
    else None.

(* keeper/distribution.go DistributeRewards: only strictly positive components are paid *)
Definition distribute (s : rstate) (r : recv) : option rstate :=
  match (if 0 <? ra_sub (rc_amt r)
         then sub_topup s (rc_main r) (u64_add (r_now s) (ra_unlock (rc_amt r))) (ra_sub (rc_amt r))
         else Some s) with
  | None => None
  | Some s1 =>
      if 0 <? ra_main (rc_amt r) then
        match refund_pool (r_bank s1) (rc_main r) (ra_main (rc_amt r)) with
        | None => None
        | Some b => Some (set_bank s1 b)
        end
      else Some s1
  end.

(* the per-account cap of the campaign (RewardGrantsStats) *)
Definition cap_step (s : rstate) (c : campaign) (receiver : Z) : option rstate :=
  if 0 <? cm_cap c then
    let n := stat_get (r_stats s) (cm_uid c) receiver in
    if cm_cap c <=? n then None
    else Some (set_stats s (upd (stat_is (cm_uid c) receiver)
                                {| st_camp := cm_uid c; st_addr := receiver; st_count := n + 1 |} (r_stats s)))
  else Some s.

(* keeper/msg_server_reward.go GrantReward (+ MsgGrantReward.ValidateBasic).  The pool is charged
   Receiver.TotalAmount() = main + sub while DistributeRewards pays max(main,0) + max(sub,0); the two agree
   because stored campaign components are never negative (payload validation, Proofs/RewardInv.v). *)
Definition grant_reward (s : rstate) (signer : Z) (tk : ticket) (uid camp : Z) (haskyc : bool) (ky : kyc)
           (receiver source peer betuid : Z) : option rstate :=
  if (uid <? 0) || (camp <? 0) then None
  else if existsb (fun r => rw_uid r =? uid) (r_rewards s) then None
  else match find_camp (r_camps s) camp with
  | None => None
  | Some c =>
      if negb (cm_active c) then None
      else if (cm_end c <? r_now s) || (r_now s <? cm_start c) then None            (* Campaign.CheckTS *)
      else match calculate s c signer tk haskyc ky receiver source peer betuid with
      | None => None
      | Some (s1, rc) =>
          match cap_step s1 c receiver with
          | None => None
          | Some s2 =>
              match prom_of_addr (r_promaddr s2) (cm_promoter c) with
              | None => None
              | Some puid =>
                  match find_prom (r_proms s2) puid with
                  | None => None
                  | Some p =>
                      let n := count_bycat (r_bycat s2) puid receiver (cm_cat c) in
                      if existsb (fun cc => (fst cc =? cm_cat c) && (snd cc <=? n)) (pm_conf p) then None
                      else if cm_avail c <? rc_total rc then None                   (* CheckPoolBalance *)
                      else match distribute s2 rc with
                      | None => None
                      | Some s3 =>
                          let c' := camp_pool c (cm_total c) (cm_spent c + rc_total rc) (cm_withdrawn c)
                                              (cm_active c) (cm_end c) in
                          let rw := {| rw_uid := uid; rw_creator := signer; rw_receiver := receiver; rw_camp := camp;
                                       rw_amt := rc_amt rc; rw_source := source |} in
                          Some (set_rewards (set_camps s3 (upd (fun x => cm_uid x =? camp) c' (r_camps s3)))
                                            (r_rewards s3 ++ [rw])
                                            (r_bycat s3 ++ [{| bc_prom := puid; bc_addr := receiver; bc_cat := cm_cat c;
                                                               bc_uid := uid |}])
                                            (r_bycamp s3 ++ [(camp, uid)]))
                      end
                  end
              end
          end
      end
  end.

(* ---- modelled interfaces ----------------------------------------------------------------------------- *)
(* a bet as the real bet store shows it after a real wager / settlement *)
Definition sync_bet (s : rstate) (uid creator amount result : Z) (main : bool) : option rstate :=
  if uid <? 0 then None else
  Some (set_bets s (upd (fun b => rb_uid b =? uid)
                        {| rb_uid := uid; rb_creator := creator; rb_amount := amount; rb_result := result; rb_main := main |}
                        (r_bets s))).

(* the balance of a user account after a real betting-module operation (wager, deposit, settlement) *)
Definition sync_bal (s : rstate) (a v : Z) : option rstate :=
  if negb (signer_ok a) then None
  else Some (set_bank s (badd (r_bank s) a (v - bget (r_bank s) a))).

(* bank MsgSend between accounts (blocked recipients are refused by the bank msg server) *)
Definition do_rsend (s : rstate) (from to amt : Z) : option rstate :=
  if amt <=? 0 then None
  else if negb (addr_valid to) then None
  else if blocked to then None
  else match rpay (r_bank s) from to amt with
       | None => None
       | Some b => Some (set_bank s b)
       end.

(* ---- operations ------------------------------------------------------------------------------------------ *)
Inductive rop :=
| RBegin (t : Z)
| REnd
| RCreatePromoter (signer : Z) (tk : ticket) (uid : Z) (conf : list (Z * Z))
| RSetPromoterConf (signer : Z) (tk : ticket) (uid : Z) (conf : list (Z * Z))
| RCreateCampaign (signer : Z) (tk : ticket) (uid total prom start end_ cat ty atype : Z) (ra : option ramount_p)
                  (active : bool) (cap : Z) (constr : option (option Z))
| RUpdateCampaign (signer : Z) (tk : ticket) (uid topup end_ : Z) (active : bool)
| RWithdraw (signer : Z) (tk : ticket) (uid amount prom : Z)
| RGrant (signer : Z) (tk : ticket) (uid camp : Z) (haskyc : bool) (ky : kyc) (receiver source peer betuid : Z)
| RAuthGrant (granter grantee kind limit exp : Z)
| RAuthRevoke (granter grantee kind : Z)
| RSyncBet (uid creator amount result : Z) (main : bool)
| RSyncBal (a v : Z)
| RSubCreate (signer owner : Z) (locks : list (Z * Z))
| RSend (from to amt : Z).

Inductive rout := ROk | RErr | RPanic.

(* transactions are atomic *)
Definition rtx (s : rstate) (r : option rstate) : rstate * rout :=
  match r with Some s' => (s', ROk) | None => (s, RErr) end.

(* a transaction needs a key holder *)
Definition signed (signer : Z) (r : option rstate) : option rstate := if signer_ok signer then r else None.

(* BeginBlock: new header; authz prunes grants whose expiration lies before the block time (as in Chain.v) *)
Definition rbegin (s : rstate) (t : Z) : rstate :=
  set_time s t (r_height s + 1) (filter (fun g => (rg_exp g <? 0) || (t <=? rg_exp g)) (r_grants s)).

Definition rstep (s : rstate) (o : rop) : rstate * rout :=
  match o with
  | RBegin t => (rbegin s t, ROk)
  | REnd => (s, ROk)                                   (* x/reward and x/subaccount have empty EndBlockers *)
  | RCreatePromoter sg tk uid conf => rtx s (signed sg (create_promoter s sg tk uid conf))
  | RSetPromoterConf sg tk uid conf => rtx s (signed sg (set_promoter_conf s sg tk uid conf))
  | RCreateCampaign sg tk uid total prom st en cat ty at_ ra act cap cn =>
      rtx s (signed sg (create_campaign s sg tk uid total prom st en cat ty at_ ra act cap cn))
  | RUpdateCampaign sg tk uid topup en act => rtx s (signed sg (update_campaign s sg tk uid topup en act))
  | RWithdraw sg tk uid amt prom => rtx s (signed sg (withdraw_funds s sg tk uid amt prom))
  | RGrant sg tk uid camp hk ky rcv src peer bet =>
      rtx s (signed sg (grant_reward s sg tk uid camp hk ky rcv src peer bet))
  | RAuthGrant granter grantee kind limit exp => rtx s (signed granter (do_rgrant s granter grantee kind limit exp))
  | RAuthRevoke granter grantee kind => rtx s (signed granter (do_rrevoke s granter grantee kind))
  | RSyncBet uid cr amt res main => rtx s (sync_bet s uid cr amt res main)
  | RSyncBal a v => rtx s (sync_bal s a v)
  | RSubCreate sg owner locks => rtx s (signed sg (sub_create s sg owner locks))
  | RSend from to amt => rtx s (signed from (do_rsend s from to amt))
  end.

Definition rrun (s : rstate) (ops : list rop) : rstate := fold_left (fun st o => fst (rstep st o)) ops s.

(* genesis: the given balances, empty reward / subaccount / authz stores; the subaccount id counter
   starts at 1 (keeper Peek) *)
Definition rinit (bk : bank) (t0 leader : Z) : rstate :=
  {| r_bank := bk; r_now := t0; r_height := 0; r_leader := leader; r_proms := []; r_promaddr := []; r_camps := [];
     r_rewards := []; r_bycat := []; r_bycamp := []; r_stats := []; r_grants := []; r_subs := []; r_subnext := 1;
     r_locks := []; r_bets := [] |}.

(* Model/Mint.v — x/mint/types/minter.go, x/mint/types/params.go, x/mint/abci.go.
   No proofs in this file. *)
From Coq Require Import ZArith Bool List.
From Sge Require Import Lib.Dec.
Import ListNotations.
Open Scope Z_scope.

Record phase := { ph_infl : Z (* Dec *); ph_coef : Z (* Dec *) }.
Record mparams := { bpy : Z (* int64 BlocksPerYear *); excl : Z (* Int *); phases : list phase }.
Record minter := { m_infl : Z; m_step : Z; m_prov : Z; m_trunc : Z }.   (* all Dec except step *)

Definition END_STEP : Z := -1.
Definition U64MAX_DEC : Z := 18446744073709551615 * PREC.
Definition end_phase : phase := {| ph_infl := 0; ph_coef := U64MAX_DEC |}.   (* params.go EndPhase *)
Definition none_phase : phase := {| ph_infl := 0; ph_coef := 0 |}.

Definition is_end_phase (p : phase) : bool := (ph_infl p =? 0) && (ph_coef p =? U64MAX_DEC).

(* params.go getPhaseBlocks: yearCoefficient.Mul(NewDec(BlocksPerYear)).TruncateDec() — a Dec *)
Definition phase_blocks_dec (P : mparams) (ph : phase) : Z :=
  dec_trunc_dec (dec_mul (ph_coef ph) (dec_of_int (bpy P))).
(* the same as an integer number of blocks *)
Definition phase_blocks (P : mparams) (ph : phase) : Z :=
  dec_trunc_int (dec_mul (ph_coef ph) (dec_of_int (bpy P))).

(* params.go GetPhaseAtStep *)
Definition phase_at_step (P : mparams) (step : Z) : phase :=
  if step =? END_STEP then end_phase
  else if step =? 0 then none_phase
  else nth_default end_phase (phases P) (Z.to_nat (step - 1)).

(* minter.go CurrentPhase: the loop over params.Phases accumulating blocks *)
Fixpoint find_phase (P : mparams) (phs : list phase) (i : Z) (cum : Z) (blk : Z) : option (phase * Z) :=
  match phs with
  | [] => None
  | ph :: rest =>
      let cum' := cum + phase_blocks_dec P ph in
      if dec_of_int blk <=? cum' then Some (ph, i + 1)
      else find_phase P rest (i + 1) cum' blk
  end.

Definition current_phase (P : mparams) (blk : Z) : phase * Z :=
  if blk =? 1 then (phase_at_step P 1, 1)
  else match find_phase P (phases P) 0 0 blk with
       | Some r => r
       | None => (end_phase, END_STEP)
       end.

(* minter.go NextPhaseProvisions *)
Definition next_phase_provisions (infl supply exclude : Z) (ph : phase) : Z :=
  dec_mul (dec_mulint infl (zmax0 (supply - exclude))) (ph_coef ph).

(* minter.go BlockProvisions; None = Go panic (Quo by zero, sdk.NewCoin on a negative amount,
   or index out of range for a step outside 1..len(phases)) *)
Definition block_provisions (P : mparams) (m : minter) (step : Z) : option (Z * Z) :=
  if (step <? 1) || (Z.of_nat (length (phases P)) <? step) then None else
  let bl := phase_blocks_dec P (nth_default end_phase (phases P) (Z.to_nat (step - 1))) in
  if bl =? 0 then None else
  let prov := dec_quo (m_prov m) bl + m_trunc m in
  let ip := dec_trunc_dec prov in
  let amt := dec_trunc_int ip in
  if amt <? 0 then None else Some (amt, prov - ip).

Inductive bb_result :=
| BBok (m : minter) (minted : Z)
| BBpanic.

(* abci.go BeginBlocker *)
Definition begin_block (P : mparams) (m : minter) (supply : Z) (height : Z) : bb_result :=
  let '(ph, step) := current_phase P height in
  let m1 :=
    if negb (step =? m_step m) || negb (m_infl m =? ph_infl ph) then
      {| m_infl := ph_infl ph; m_step := step;
         m_prov := next_phase_provisions (ph_infl ph) supply (excl P) ph;
         m_trunc := m_trunc m |}
    else m in
  if m_infl m1 =? 0 then BBok m1 0
  else match block_provisions P m1 step with
       | None => BBpanic
       | Some (amt, tr) =>
           BBok {| m_infl := m_infl m1; m_step := m_step m1; m_prov := m_prov m1; m_trunc := tr |} amt
       end.

(* params.go Params.Validate (mint denom omitted: a string check irrelevant to arithmetic) *)
Definition phase_valid (p : phase) : bool := (0 <? ph_coef p) && negb (ph_infl p <? 0) && negb (is_end_phase p).
Definition mparams_valid (P : mparams) : bool :=
  (0 <? bpy P) && negb (excl P <? 0) &&
  negb (Nat.eqb (length (phases P)) 0) && forallb phase_valid (phases P) &&
  forallb (fun ph => 0 <? phase_blocks_dec P ph) (phases P).

(* Witness/C03w.v — a concrete reachable state for C03_settle_generated: a market with a house deposit and a bet, result declared for the
   bet's outcome; the bet (id 1, uid 100) is pending and settle_bet pays it. *)
From Coq Require Import ZArith Bool List.
From Sge Require Import Lib.Dec Model.Types Model.Orderbook Model.Mint Model.Chain.
Import ListNotations. Open Scope Z_scope.
Definition c03w_tk := {| tk_signer := 0; tk_exp := 1700009999 |}.
Definition c03w_ky (a : Z) := {| ky_ignore := false; ky_approved := true; ky_id := a |}.
Definition c03w_s := run (init [(0, 1000000); (1, 1000000); (2, 1000000)] 3000000 {| pr_bet_batch := 5; pr_bet_min := 3; pr_bet_fee := 1; pr_ob_maxpart := 100; pr_ob_batch := 5; pr_ob_thr := 1; pr_h_mindep := 2; pr_h_fee := 500000000000000000; pr_h_maxw := 3 |} [0; 1; 2; 3] {| bpy := 6311520; excl := 0; phases := [{| ph_infl := 229787234042553191; ph_coef := 500000000000000000 |}] |} 1700000000 true true)
  [OBegin 1700000010; OMarketAdd 1 c03w_tk 1 1700000005 1700060000 [10; 11] 1; ODeposit 1 c03w_tk 1 1000 (c03w_ky 1) (-1);
   OWager 2 c03w_tk 100 50 1 10 2000000000000000000 1000000000000000000 [(10, 1000000000000000000); (11, 1000000000000000000)] (c03w_ky 2) 1;
   OMarketResolve 1 c03w_tk 1 1700000010 [10] 5].

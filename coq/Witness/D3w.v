(* Witness/D3w.v — two hand-written histories (the first continues to the resolution that made EndBlock panic) (replayed on the real app: corpus/C03/d3_*.txt) exhibiting known finding D3:
   CalculateBetAmountInt counts its carry twice.  Converted by tools/hist2coq.py. *)
From Coq Require Import ZArith Bool List.
From Sge Require Import Lib.Dec Model.Types Model.Orderbook Model.Mint Model.Chain.
Import ListNotations. Open Scope Z_scope.
Definition d3neg_init : chain := init [(0, 1000000); (1, 1000000); (2, 1000000); (3, 1000000); (4, 1000000); (5, 1000000)] 7000000 {| pr_bet_batch := 5; pr_bet_min := 3; pr_bet_fee := 1; pr_ob_maxpart := 100; pr_ob_batch := 5; pr_ob_thr := 1; pr_h_mindep := 2; pr_h_fee := 500000000000000000; pr_h_maxw := 3 |} [0; 1; 2; 3] {| bpy := 6311520; excl := 0; phases := [{| ph_infl := 229787234042553191; ph_coef := 500000000000000000 |}; {| ph_infl := 286259541984732824; ph_coef := 500000000000000000 |}] |} 1700000000 true true.
Definition d3neg_ops : list op := [
  OBegin 1700000010;
  OMarketAdd 0 {| tk_signer := 0; tk_exp := 1700009999 |} 7 1700000001 1700090000 [0; 1] 1;
  OEnd;
  OBegin 1700000015;
  ODeposit 1 {| tk_signer := 0; tk_exp := 1700009999 |} 7 6 {| ky_ignore := true; ky_approved := false; ky_id := (-1) |} (-1);
  OEnd;
  OBegin 1700000020;
  ODeposit 1 {| tk_signer := 0; tk_exp := 1700009999 |} 7 8 {| ky_ignore := true; ky_approved := false; ky_id := (-1) |} (-1);
  OEnd;
  OBegin 1700000025;
  ODeposit 1 {| tk_signer := 0; tk_exp := 1700009999 |} 7 10 {| ky_ignore := true; ky_approved := false; ky_id := (-1) |} (-1);
  OEnd;
  OBegin 1700000030;
  ODeposit 1 {| tk_signer := 0; tk_exp := 1700009999 |} 7 2 {| ky_ignore := true; ky_approved := false; ky_id := (-1) |} (-1);
  OEnd;
  OBegin 1700000035;
  ODeposit 1 {| tk_signer := 0; tk_exp := 1700009999 |} 7 2000 {| ky_ignore := true; ky_approved := false; ky_id := (-1) |} (-1);
  OEnd;
  OBegin 1700000040;
  OWager 2 {| tk_signer := 0; tk_exp := 1700009999 |} 50 101 7 0 3000000000000000000 1000000000000000000 [(0, 1000000000000000000); (1, 1000000000000000000)] {| ky_ignore := true; ky_approved := false; ky_id := (-1) |} 1;
  OEnd;
  OBegin 1700000045;
  OWager 3 {| tk_signer := 0; tk_exp := 1700009999 |} 51 14 7 1 2000000000000000000 1000000000000000000 [(0, 1000000000000000000); (1, 1000000000000000000)] {| ky_ignore := true; ky_approved := false; ky_id := (-1) |} 1;
  OEnd;
  OBegin 1700000050;
  OMarketResolve 0 {| tk_signer := 0; tk_exp := 1700009999 |} 7 1700000050 [1] 5;
  OEnd;
  OBegin 1700000055;
  OEnd;
  OBegin 1700000060;
  OEnd
].
Definition d3over_init : chain := init [(0, 1000000); (1, 1000000); (2, 1000000); (3, 1000000); (4, 1000000); (5, 1000000)] 7000000 {| pr_bet_batch := 5; pr_bet_min := 3; pr_bet_fee := 1; pr_ob_maxpart := 100; pr_ob_batch := 5; pr_ob_thr := 1; pr_h_mindep := 2; pr_h_fee := 500000000000000000; pr_h_maxw := 3 |} [0; 1; 2; 3] {| bpy := 6311520; excl := 0; phases := [{| ph_infl := 229787234042553191; ph_coef := 500000000000000000 |}; {| ph_infl := 286259541984732824; ph_coef := 500000000000000000 |}] |} 1700000000 true true.
Definition d3over_ops : list op := [
  OBegin 1700000010;
  OMarketAdd 0 {| tk_signer := 0; tk_exp := 1700009999 |} 7 1700000001 1700090000 [0; 1] 1;
  OEnd;
  OBegin 1700000015;
  ODeposit 1 {| tk_signer := 0; tk_exp := 1700009999 |} 7 2 {| ky_ignore := true; ky_approved := false; ky_id := (-1) |} (-1);
  OEnd;
  OBegin 1700000020;
  ODeposit 1 {| tk_signer := 0; tk_exp := 1700009999 |} 7 2 {| ky_ignore := true; ky_approved := false; ky_id := (-1) |} (-1);
  OEnd;
  OBegin 1700000025;
  ODeposit 1 {| tk_signer := 0; tk_exp := 1700009999 |} 7 4 {| ky_ignore := true; ky_approved := false; ky_id := (-1) |} (-1);
  OEnd;
  OBegin 1700000030;
  OWager 2 {| tk_signer := 0; tk_exp := 1700009999 |} 50 3 7 0 3000000000000000000 1000000000000000000 [(0, 1000000000000000000); (1, 1000000000000000000)] {| ky_ignore := true; ky_approved := false; ky_id := (-1) |} 1;
  OEnd;
  OBegin 1700000035;
  OEnd
].

(* Extract/ExtractReward.v — OCaml extraction of the reward machine (same conventions as Extract.v:
   ExtrOcamlBasic only; Z/positive stay Coq datatypes). *)
From Coq Require Extraction ExtrOcamlBasic.
From Sge Require Import Lib.Dec Model.Types Model.Reward.
Extraction Language OCaml.
Set Extraction AccessOpaque.
Extraction "reward_model.ml" Types.bget Reward.rstep Reward.rinit Reward.rrun.

(* Extract/Extract.v — OCaml extraction of the executable model (ExtrOcamlBasic only:
   bool, option, unit, list, prod, sumbool map to OCaml's; Z/positive/N/nat stay Coq datatypes). *)
From Coq Require Extraction ExtrOcamlBasic.
From Sge Require Import Lib.Dec Model.Types Model.Orderbook Model.Mint Model.Chain.
Extraction Language OCaml.
Set Extraction AccessOpaque.
Extraction "model.ml"
  Dec.dec_mul Dec.dec_quo Dec.dec_mulint Dec.dec_trunc_int Dec.dec_round_int Dec.dec_trunc_dec
  Orderbook.payout_profit Orderbook.bet_amount_int Orderbook.fulfil_records Orderbook.withdrawable_amount
  Mint.current_phase Mint.block_provisions Mint.next_phase_provisions Mint.begin_block Mint.mparams_valid
  Chain.step Chain.gstep Chain.init Chain.run.

(* driver_reward.ml — hand-written glue around the extracted reward machine (trusted, like driver.ml).
   Modes:
     driver_reward hist  <file>...   replay each rhist file through Reward_model.rstep and compare, step by
                                     step, the implementation's RES / ST lines with the model's.
     driver_reward model <file>...   print the model's OP/RES/ST stream for the ops of the file.
   Output per file: "OK <file> ops=<n>" or
                    "MISMATCH <file> op=<k> tags=<t1,t2> impl=[<line>] model=[<line>]".
   Lines other than GEN / OP / RES / ST (EXT, LOG, MON, MONCOUNT, ...) are ignored.
   Grammar: harness/REWARD_NOTES.md. *)

module M = Reward_model

(* ---- Coq Z <-> Zarith ------------------------------------------------------------------ *)
let rec pos_to_z (p : M.positive) : Z.t =
  match p with
  | M.XH -> Z.one
  | M.XO q -> Z.shift_left (pos_to_z q) 1
  | M.XI q -> Z.succ (Z.shift_left (pos_to_z q) 1)

let c2z (x : M.z) : Z.t =
  match x with M.Z0 -> Z.zero | M.Zpos p -> pos_to_z p | M.Zneg p -> Z.neg (pos_to_z p)

let rec z_to_pos (n : Z.t) : M.positive =
  if Z.equal n Z.one then M.XH
  else if Z.is_even n then M.XO (z_to_pos (Z.shift_right n 1))
  else M.XI (z_to_pos (Z.shift_right n 1))

let z2c (n : Z.t) : M.z =
  let s = Z.sign n in
  if s = 0 then M.Z0 else if s > 0 then M.Zpos (z_to_pos n) else M.Zneg (z_to_pos (Z.neg n))

let zs (x : M.z) : string = Z.to_string (c2z x)
let zi (s : string) : M.z = z2c (Z.of_string s)
let bs (b : bool) = if b then "1" else "0"
let bi (s : string) = s = "1"

(* ---- token stream ------------------------------------------------------------------------ *)
let split (l : string) : string list = List.filter (fun s -> s <> "") (String.split_on_char ' ' l)

exception Parse of string

let take (r : string list ref) : string =
  match !r with [] -> raise (Parse "eof") | x :: t -> r := t; x
let tz r = (try zi (take r) with Invalid_argument m -> raise (Parse m))
let tb r = bi (take r)
let toz r : M.z option = match take r with "nil" -> None | x -> Some (zi x)
let tlist r (f : string list ref -> 'a) : 'a list =
  let n = int_of_string (take r) in
  let rec go k acc = if k = 0 then List.rev acc else go (k - 1) (f r :: acc) in
  go n []
let pair r = let a = tz r in let b = tz r in (a, b)

let ticket r : M.ticket = let s = tz r in let e = tz r in { M.tk_signer = s; M.tk_exp = e }
let kyc r : M.kyc = let i = tb r in let a = tb r in let id = tz r in { M.ky_ignore = i; M.ky_approved = a; M.ky_id = id }

let parse_op (toks : string list) : M.rop =
  let r = ref toks in
  match take r with
  | "BEGIN" -> M.RBegin (tz r)
  | "END" -> M.REnd
  | "PCREATE" ->
      let sg = tz r in let tk = ticket r in let uid = tz r in let conf = tlist r pair in
      M.RCreatePromoter (sg, tk, uid, conf)
  | "PCONF" ->
      let sg = tz r in let tk = ticket r in let uid = tz r in let conf = tlist r pair in
      M.RSetPromoterConf (sg, tk, uid, conf)
  | "CCREATE" ->
      let sg = tz r in let tk = ticket r in let uid = tz r in let total = tz r in let prom = tz r in
      let st = tz r in let en = tz r in let cat = tz r in let ty = tz r in let at = tz r in
      let act = tb r in let cap = tz r in
      let ra = (match take r with
          | "-" -> None
          | "+" ->
              let m = toz r in let s = toz r in let u = tz r in let mp = toz r in let sp = toz r in
              Some { M.rp_main = m; M.rp_sub = s; M.rp_unlock = u; M.rp_mainpct = mp; M.rp_subpct = sp }
          | x -> raise (Parse ("reward amount marker " ^ x))) in
      let cn = (match take r with "-" -> None | "nil" -> Some None | x -> Some (Some (zi x))) in
      M.RCreateCampaign (sg, tk, uid, total, prom, st, en, cat, ty, at, ra, act, cap, cn)
  | "CUPDATE" ->
      let sg = tz r in let tk = ticket r in let uid = tz r in let topup = tz r in let en = tz r in
      let act = tb r in M.RUpdateCampaign (sg, tk, uid, topup, en, act)
  | "CWITHDRAW" ->
      let sg = tz r in let tk = ticket r in let uid = tz r in let amt = tz r in let prom = tz r in
      M.RWithdraw (sg, tk, uid, amt, prom)
  | "RGRANT" ->
      let sg = tz r in let tk = ticket r in let uid = tz r in let camp = tz r in let hk = tb r in
      let ky = kyc r in let rcv = tz r in let src = tz r in let peer = tz r in let bet = tz r in
      M.RGrant (sg, tk, uid, camp, hk, ky, rcv, src, peer, bet)
  | "AGRANT" ->
      let a = tz r in let b = tz r in let k = tz r in let l = tz r in let e = tz r in M.RAuthGrant (a, b, k, l, e)
  | "AREVOKE" -> let a = tz r in let b = tz r in let k = tz r in M.RAuthRevoke (a, b, k)
  | "RSYNCBET" ->
      let u = tz r in let c = tz r in let a = tz r in let res = tz r in let m = tb r in M.RSyncBet (u, c, a, res, m)
  | "RSYNCBAL" -> let a = tz r in let v = tz r in M.RSyncBal (a, v)
  | "SUBCREATE" -> let sg = tz r in let ow = tz r in let l = tlist r pair in M.RSubCreate (sg, ow, l)
  | "SEND" -> let a = tz r in let b = tz r in let k = tz r in M.RSend (a, b, k)
  | x -> raise (Parse ("unknown op " ^ x))

(* GEN nacc nextra balance t0 leader X <standard genLine fields, ignored here> *)
let parse_gen (toks : string list) : M.rstate * int =
  let r = ref toks in
  let nacc = int_of_string (take r) in
  let nextra = int_of_string (take r) in
  let bal = tz r in let t0 = tz r in let leader = tz r in
  let bank = List.init nacc (fun i -> (z2c (Z.of_int i), bal)) in
  (M.rinit bank t0 leader, nacc + nextra)

(* ---- state dump (must print exactly what harness/reward_dump.go prints) ---------------------- *)
let cat l = String.concat " " (List.filter (fun x -> x <> "") l)
let zl l = cat (List.map zs l)

let amt_s (a : M.ramount) =
  cat [zs a.M.ra_main; zs a.M.ra_sub; zs a.M.ra_unlock; zs a.M.ra_mainpct; zs a.M.ra_subpct]

let dump (s : M.rstate) (nbal : int) : string list =
  let out = ref [] in
  let add l = out := l :: !out in
  for i = 0 to nbal - 1 do
    add (cat ["BAL"; string_of_int i; zs (M.bget s.M.r_bank (z2c (Z.of_int i)))])
  done;
  add (cat ["BAL"; "rewardpool"; zs (M.bget s.M.r_bank M.rEWARDPOOL)]);
  List.iter (fun (p : M.promoter) ->
      add (cat (["PROM"; zs p.M.pm_uid; zs p.M.pm_creator; "|"; zl p.M.pm_addrs; "|"]
                @ List.map (fun (c, k) -> zs c ^ " " ^ zs k) p.M.pm_conf)))
    s.M.r_proms;
  List.iter (fun (a, u) -> add (cat ["PROMADDR"; zs a; zs u])) s.M.r_promaddr;
  List.iter (fun (c : M.campaign) ->
      add (cat ["CAMP"; zs c.M.cm_uid; zs c.M.cm_creator; zs c.M.cm_promoter; zs c.M.cm_start; zs c.M.cm_end;
                zs c.M.cm_cat; zs c.M.cm_type; zs c.M.cm_atype; amt_s c.M.cm_amt;
                zs c.M.cm_total; zs c.M.cm_spent; zs c.M.cm_withdrawn; bs c.M.cm_active; zs c.M.cm_cap;
                (match c.M.cm_constr with None -> "-" | Some m -> zs m)]))
    s.M.r_camps;
  List.iter (fun (w : M.reward) ->
      add (cat ["RWD"; zs w.M.rw_uid; zs w.M.rw_creator; zs w.M.rw_receiver; zs w.M.rw_camp; amt_s w.M.rw_amt;
                zs w.M.rw_source]))
    s.M.r_rewards;
  List.iter (fun (b : M.rbycat) -> add (cat ["RBYCAT"; zs b.M.bc_prom; zs b.M.bc_addr; zs b.M.bc_cat; zs b.M.bc_uid]))
    s.M.r_bycat;
  List.iter (fun (c, u) -> add (cat ["RBYCAMP"; zs c; zs u])) s.M.r_bycamp;
  List.iter (fun (x : M.rstat) -> add (cat ["RSTAT"; zs x.M.st_camp; zs x.M.st_addr; zs x.M.st_count])) s.M.r_stats;
  List.iter (fun (g : M.rgrant) ->
      add (cat ["RGR"; zs g.M.rg_grantee; zs g.M.rg_granter; zs g.M.rg_kind; zs g.M.rg_limit; zs g.M.rg_exp]))
    s.M.r_grants;
  List.iter (fun (x : M.sub0) ->
      let addr = z2c (Z.add (Z.of_int 1000) (c2z x.M.sb_id)) in
      add (cat ["SUB"; zs x.M.sb_id; zs x.M.sb_owner; zs x.M.sb_dep; zs x.M.sb_spent; zs x.M.sb_wd; zs x.M.sb_lost;
                zs (M.bget s.M.r_bank addr)]))
    s.M.r_subs;
  add (cat ["SUBNEXT"; zs s.M.r_subnext]);
  List.iter (fun (l : M.lock) -> add (cat ["LOCK"; zs l.M.lk_sub; zs l.M.lk_ts; zs l.M.lk_amt])) s.M.r_locks;
  List.iter (fun (b : M.rbet) ->
      add (cat ["RBET"; zs b.M.rb_uid; zs b.M.rb_creator; zs b.M.rb_amount; zs b.M.rb_result; bs b.M.rb_main]))
    s.M.r_bets;
  List.sort compare !out

let out_s (o : M.rout) = match o with M.ROk -> "ok" | M.RErr -> "err" | M.RPanic -> "panic"

(* ---- history replay ---------------------------------------------------------------------------- *)
let read_lines (f : string) : string list =
  let ic = open_in f in
  let rec go acc = match input_line ic with l -> go (l :: acc) | exception End_of_file -> close_in ic; List.rev acc in
  go []

let tag_of (l : string) = match String.index_opt l ' ' with Some i -> String.sub l 0 i | None -> l

let rec first_diff (a : string list) (b : string list) : (string * string) option =
  match a, b with
  | [], [] -> None
  | x :: _, [] -> Some (x, "<none>")
  | [], y :: _ -> Some ("<none>", y)
  | x :: ta, y :: tb -> if x = y then first_diff ta tb else
        if compare x y < 0 then Some (x, (if tag_of x = tag_of y then y else "<none>"))
        else Some ((if tag_of x = tag_of y then x else "<none>"), y)

let diff_tags (a : string list) (b : string list) : string list =
  let tags = List.sort_uniq compare (List.map tag_of (a @ b)) in
  List.filter (fun t ->
      List.filter (fun l -> tag_of l = t) a <> List.filter (fun l -> tag_of l = t) b) tags

let replay (file : string) (dumpmodel : bool) : unit =
  let lines = read_lines file in
  let st = ref None and nbal = ref 0 in
  let cur_op = ref None and cur_res = ref "" and cur_st = ref [] and nost = ref false in
  let nops = ref 0 in
  let mismatch = ref None in
  let flush () =
    match !cur_op, !st with
    | Some optoks, Some s when !mismatch = None ->
        incr nops;
        (try
           let o = parse_op optoks in
           let (s', r) = M.rstep s o in
           st := Some s';
           let mres = out_s r in
           if dumpmodel then begin
             print_endline ("OP " ^ cat optoks); print_endline ("RES " ^ mres);
             List.iter (fun l -> print_endline ("ST " ^ l)) (dump s' !nbal)
           end;
           let ires = !cur_res in
           if dumpmodel then ()
           else if ires <> mres then
             mismatch := Some (!nops, "RES", "RES " ^ ires, "RES " ^ mres)
           else if mres <> "panic" && not !nost then begin
             let impl = List.sort compare (List.rev !cur_st) in
             let model = dump s' !nbal in
             if impl <> model then begin
               let tags = String.concat "," (diff_tags impl model) in
               match first_diff impl model with
               | Some (a, b) -> mismatch := Some (!nops, tags, a, b)
               | None -> ()
             end
           end
         with Parse m -> mismatch := Some (!nops, "PARSE", m, cat optoks))
    | _ -> ()
  in
  List.iter (fun l ->
      match split l with
      | "GEN" :: toks -> let (s, n) = parse_gen toks in st := Some s; nbal := n
      | "OP" :: toks -> flush (); cur_op := Some (List.filter (fun t -> String.length t = 0 || t.[0] <> '#') toks);
          cur_res := ""; cur_st := []; nost := false
      | "RES" :: r :: _ -> cur_res := (if String.length r >= 5 && String.sub r 0 5 = "panic" then "panic" else r)
      | "NOST" :: _ -> nost := true
      | "ST" :: _ -> cur_st := String.sub l 3 (String.length l - 3) :: !cur_st
      | _ -> ()) lines;
  flush ();
  match !mismatch with
  | None -> Printf.printf "OK %s ops=%d\n" file !nops
  | Some (k, tags, a, b) -> Printf.printf "MISMATCH %s op=%d tags=%s impl=[%s] model=[%s]\n" file k tags a b

let () =
  match Array.to_list Sys.argv with
  | _ :: "hist" :: files -> List.iter (fun f -> replay f false) files
  | _ :: "model" :: files -> List.iter (fun f -> replay f true) files
  | _ -> prerr_endline "usage: driver_reward hist|model files..."; exit 2

(* driver.ml — hand-written glue around the extracted model (trusted; see DESIGN 7).
   Modes:
     driver hist <file>...   replay each history file through Model.step and compare, step by step,
                             the implementation's result/state lines with the model's.
     driver kern <file>      evaluate kernel lines `K <fn> <args> = <impl result>` and compare.
   Output: one line per history / kernel file: "OK <file> ops=<n>" or
           "MISMATCH <file> op=<k> tags=<t1,t2> impl=<line> model=<line>". *)

module M = Model

(* ---- Coq Z <-> Zarith ------------------------------------------------------------------ *)
let rec pos_to_z (p : M.positive) : Z.t =
  match p with
  | M.XH -> Z.one
  | M.XO q -> Z.shift_left (pos_to_z q) 1
  | M.XI q -> Z.succ (Z.shift_left (pos_to_z q) 1)

let c2z (x : M.z) : Z.t =
  match x with M.Z0 -> Z.zero | M.Zpos p -> pos_to_z p | M.Zneg p -> Z.neg (pos_to_z p)

let rec z_to_pos (n : Z.t) : M.positive =
  if Z.equal n Z.one then M.XH
  else if Z.is_even n then M.XO (z_to_pos (Z.shift_right n 1))
  else M.XI (z_to_pos (Z.shift_right n 1))

let z2c (n : Z.t) : M.z =
  let s = Z.sign n in
  if s = 0 then M.Z0 else if s > 0 then M.Zpos (z_to_pos n) else M.Zneg (z_to_pos (Z.neg n))

let zs (x : M.z) : string = Z.to_string (c2z x)
let zi (s : string) : M.z = z2c (Z.of_string s)
let bs (b : bool) = if b then "1" else "0"
let bi (s : string) = s = "1"

(* ---- token stream ------------------------------------------------------------------------ *)
let split (l : string) : string list = List.filter (fun s -> s <> "") (String.split_on_char ' ' l)

exception Parse of string

let take (r : string list ref) : string =
  match !r with [] -> raise (Parse "eof") | x :: t -> r := t; x
let tz r = zi (take r)
let tb r = bi (take r)
let tlist r (f : string list ref -> 'a) : 'a list =
  let n = int_of_string (take r) in
  let rec go k acc = if k = 0 then List.rev acc else go (k - 1) (f r :: acc) in
  go n []

let ticket r : M.ticket = let s = tz r in let e = tz r in { M.tk_signer = s; M.tk_exp = e }
let kyc r : M.kyc = let i = tb r in let a = tb r in let id = tz r in { M.ky_ignore = i; M.ky_approved = a; M.ky_id = id }

let parse_op (toks : string list) : M.op =
  let r = ref toks in
  match take r with
  | "BEGIN" -> M.OBegin (tz r)
  | "END" -> M.OEnd
  | "MADD" ->
      let sg = tz r in let tk = ticket r in let uid = tz r in let st = tz r in let en = tz r in
      let status = tz r in let odds = tlist r tz in
      M.OMarketAdd (sg, tk, uid, st, en, odds, status)
  | "MUPD" ->
      let sg = tz r in let tk = ticket r in let uid = tz r in let st = tz r in let en = tz r in
      let status = tz r in M.OMarketUpdate (sg, tk, uid, st, en, status)
  | "MRES" ->
      let sg = tz r in let tk = ticket r in let uid = tz r in let rts = tz r in
      let status = tz r in let ws = tlist r tz in
      M.OMarketResolve (sg, tk, uid, rts, ws, status)
  | "DEP" ->
      let sg = tz r in let tk = ticket r in let mkt = tz r in let amt = tz r in let ky = kyc r in
      let dep = tz r in M.ODeposit (sg, tk, mkt, amt, ky, dep)
  | "WDR" ->
      let sg = tz r in let tk = ticket r in let mkt = tz r in let pidx = tz r in let mode = tz r in
      let amt = tz r in let ky = kyc r in let dep = tz r in
      M.OWithdraw (sg, tk, mkt, pidx, mode, amt, ky, dep)
  | "WAG" ->
      let sg = tz r in let tk = ticket r in let uid = tz r in let amt = tz r in let sm = tz r in
      let so = tz r in let ov = tz r in let mu = tz r in let ky = kyc r in let ot = tz r in
      let all = tlist r (fun r -> let o = tz r in let m = tz r in (o, m)) in
      M.OWager (sg, tk, uid, amt, sm, so, ov, mu, all, ky, ot)
  | "GRANT" ->
      let a = tz r in let b = tz r in let k = tz r in let l = tz r in let e = tz r in M.OGrant (a, b, k, l, e)
  | "REVOKE" -> let a = tz r in let b = tz r in let k = tz r in M.ORevoke (a, b, k)
  | "SEND" -> let a = tz r in let b = tz r in let k = tz r in M.OSend (a, b, k)
  | "PROP" ->
      (* a key id k >= 100 in a history stands for the PEM of key (k mod 100) surrounded by extra white space: the same
         key as far as the chain is concerned (utils.RemoveDuplicateStrs trims before comparing) *)
      let norm k = let n = c2z k in if Z.geq n (Z.of_int 100) then z2c (Z.rem n (Z.of_int 100)) else k in
      let sg = tz r in let tk = ticket r in let li = tz r in let keys = List.map norm (tlist r tz) in M.OPropose (sg, tk, keys, li)
  | "VOTE" -> let sg = tz r in let tk = ticket r in let vi = tz r in let pid = tz r in let v = tz r in M.OVote (sg, tk, vi, pid, v)
  | "SCRE" -> let c = tz r in let o = tz r in let ls = tlist r (fun r -> let t = tz r in let a = tz r in (t, a)) in M.OSubCreate (c, o, ls)
  | "STOP" -> let c = tz r in let o = tz r in let ls = tlist r (fun r -> let t = tz r in let a = tz r in (t, a)) in M.OSubTopUp (c, o, ls)
  | "SWDU" -> M.OSubWithdraw (tz r)
  | "SWAG" ->
      let sg = tz r in let tk = ticket r in let ic = tz r in let tk2 = ticket r in let uid = tz r in let amt = tz r in
      let sm = tz r in let so = tz r in let ov = tz r in let mu = tz r in let ky = kyc r in let ot = tz r in
      let md = tz r in let sd = tz r in
      let all = tlist r (fun r -> let o = tz r in let m = tz r in (o, m)) in
      M.OSubWager (sg, tk, ic, tk2, uid, amt, sm, so, ov, mu, all, ky, ot, md, sd)
  | "SDEP" ->
      let sg = tz r in let tk = ticket r in let mkt = tz r in let amt = tz r in let ky = kyc r in
      let dep = tz r in M.OSubHouseDeposit (sg, tk, mkt, amt, ky, dep)
  | "SWDR" ->
      let sg = tz r in let tk = ticket r in let mkt = tz r in let pidx = tz r in let mode = tz r in
      let amt = tz r in let ky = kyc r in let dep = tz r in
      M.OSubHouseWithdraw (sg, tk, mkt, pidx, mode, amt, ky, dep)
  | x -> raise (Parse ("unknown op " ^ x))

(* SPRM w d: the subaccount module's parameter update (a governance action, Model/Chain.v gstep); everything else is a user operation *)
let parse_gop (toks : string list) : M.gop =
  match toks with
  | "SPRM" :: w :: d :: _ -> M.GSubParams (bi w, bi d)
  | "BFEE" :: f :: _ -> M.GBetFee (zi f)
  | _ -> M.GUser (parse_op toks)

(* GEN nacc balance supply t0 P betbatch betmin betfee obmax obbatch obthr hmindep hfee hmaxw
       V n k.. M bpy excl nph (infl coef).. *)
let parse_gen (toks : string list) : M.chain * int =
  let r = ref toks in
  let nacc = int_of_string (take r) in
  let bal = tz r in let supply = tz r in let t0 = tz r in
  if take r <> "P" then raise (Parse "P");
  let bb = tz r in let bm = tz r in let bf = tz r in let om = tz r in let ob = tz r in let ot = tz r in
  let hm = tz r in let hf = tz r in let hw = tz r in
  let prm = { M.pr_bet_batch = bb; M.pr_bet_min = bm; M.pr_bet_fee = bf; M.pr_ob_maxpart = om;
              M.pr_ob_batch = ob; M.pr_ob_thr = ot; M.pr_h_mindep = hm; M.pr_h_fee = hf; M.pr_h_maxw = hw } in
  if take r <> "V" then raise (Parse "V");
  let vault = tlist r tz in
  if take r <> "M" then raise (Parse "M");
  let bpy = tz r in let excl = tz r in
  let phs = tlist r (fun r -> let i = tz r in let c = tz r in { M.ph_infl = i; M.ph_coef = c }) in
  let mp = { M.bpy = bpy; M.excl = excl; M.phases = phs } in
  let (sw, sd) = (match !r with "S" :: _ -> ignore (take r); let a = tb r in let b = tb r in (a, b) | _ -> (true, true)) in
  let bank = List.init nacc (fun i -> (z2c (Z.of_int i), bal)) in
  (M.init bank supply prm vault mp t0 sw sd, nacc)

(* ---- state dump (must print exactly what harness/dump.go prints) ---------------------------- *)
let cat l = String.concat " " (List.filter (fun x -> x <> "") l)
let zl l = cat (List.map zs l)

let dump (s : M.chain) (nacc : int) : string list =
  let out = ref [] in
  let add l = out := l :: !out in
  for i = 0 to nacc - 1 do
    add (cat ["BAL"; string_of_int i; zs (M.bget s.M.c_bank (z2c (Z.of_int i)))])
  done;
  List.iter (fun (nm, id) -> add (cat ["BAL"; nm; zs (M.bget s.M.c_bank id)]))
    [("pool", M.pOOL); ("betfee", M.bETFEE); ("housefee", M.hOUSEFEE)];
  List.iter (fun (x : M.subacc) ->
      let a = M.sub_addr x in
      add (cat ["BAL"; "sub" ^ zs x.M.sa_id; zs (M.bget s.M.c_bank a)]);
      add (cat ["SUB"; zs x.M.sa_id; zs x.M.sa_owner; zs x.M.sa_dep; zs x.M.sa_spent; zs x.M.sa_wd; zs x.M.sa_lost]);
      List.iter (fun (t, am) -> add (cat ["LOCK"; zs x.M.sa_id; zs t; zs am])) x.M.sa_locks)
    s.M.c_subs;
  add (cat ["SUBNEXT"; zs s.M.c_subnext]);
  add (cat ["SUBPRM"; (if s.M.c_sub_wager then "1" else "0"); (if s.M.c_sub_deposit then "1" else "0")]);
  add (cat ["BFEEPRM"; zs s.M.c_prm.M.pr_bet_fee]);
  add (cat ["VAULT"; zl s.M.c_vault]);
  add (cat ["PCNT"; zs s.M.c_propcnt]);
  List.iter (fun (p : M.proposal) ->
      let votes = List.map (fun (k, v) -> zs k ^ ":" ^ zs v) p.M.pp_votes in
      add (cat (["PROP"; zs p.M.pp_id; zs p.M.pp_creator; zs p.M.pp_leader; zs p.M.pp_start; zs p.M.pp_status;
                 zs p.M.pp_result; zs p.M.pp_finish; "|"; zl p.M.pp_keys; "|"] @ votes)))
    s.M.c_props;
  add (cat ["SUP"; zs s.M.c_supply]);
  let m = s.M.c_minter in
  add (cat ["MINT"; zs m.M.m_infl; zs m.M.m_step; zs m.M.m_prov; zs m.M.m_trunc]);
  add (cat ["MQ"; zl s.M.c_mqueue]);
  add (cat ["BQ"; zl s.M.c_bqueue]);
  add (cat ["BCNT"; zs s.M.c_betcnt]);
  List.iter (fun (u, i) -> add (cat ["U2I"; zs u; zs i])) s.M.c_uid2id;
  List.iter (fun (h, i) -> add (cat ["SETL"; zs h; zs i])) s.M.c_settledix;
  List.iter (fun (g : M.grant) ->
      add (cat ["GR"; zs g.M.g_grantee; zs g.M.g_granter; zs g.M.g_kind; zs g.M.g_limit; zs g.M.g_exp]))
    s.M.c_grants;
  List.iter (fun (uid, (x : M.mstate)) ->
      let u = zs uid in
      let k = x.M.ms_mkt in
      add (cat ["MKT"; u; zs k.M.k_creator; zs k.M.k_start; zs k.M.k_end; zs k.M.k_status; zs k.M.k_rts;
                "|"; zl k.M.k_odds; "|"; zl k.M.k_winners]);
      let b = x.M.ms_book in
      add (cat ["BOOK"; u; zs b.M.bk_status; zs b.M.bk_oddscnt; zs b.M.bk_partcnt]);
      List.iter (fun (o, q) -> add (cat ["Q"; u; zs o; ":"; zl q])) b.M.bk_queues;
      List.iter (fun (p : M.part) ->
          add (cat ["PART"; u; zs p.M.p_idx; zs p.M.p_owner; zs p.M.p_liq; zs p.M.p_fee; zs p.M.p_crl;
                    zs p.M.p_enf; zs p.M.p_tba; zs p.M.p_crtb; zs p.M.p_maxloss; zs p.M.p_crml;
                    zs p.M.p_crml_odds; zs p.M.p_profit; bs p.M.p_settled; zs p.M.p_returned; zs p.M.p_reimb]))
        b.M.bk_parts;
      let ex tag (e : M.expo) =
        add (cat [tag; u; zs e.M.e_odds; zs e.M.e_part; zs e.M.e_exp; zs e.M.e_bet; bs e.M.e_ful; zs e.M.e_round]) in
      List.iter (ex "EXP") b.M.bk_expo;
      List.iter (ex "EXI") b.M.bk_expo_ix;
      List.iter (ex "HIS") b.M.bk_hist;
      List.iter (fun (i, bid) -> add (cat ["PAIR"; u; zs i; zs bid])) b.M.bk_pairs;
      List.iter (fun (bt : M.bet) ->
          let parts = List.map (fun (f : M.bpart) ->
              cat [zs f.M.f_owner; zs f.M.f_idx; zs f.M.f_stake; zs f.M.f_pay]) bt.M.b_parts in
          add (cat (["BET"; zs bt.M.b_id; zs bt.M.b_uid; zs bt.M.b_creator; zs bt.M.b_mkt; zs bt.M.b_odds;
                     zs bt.M.b_oddsval; zs bt.M.b_amount; zs bt.M.b_fee; zs bt.M.b_status; zs bt.M.b_result;
                     zs bt.M.b_mult; zs bt.M.b_created; zs bt.M.b_sheight; "|"] @ parts)))
        x.M.ms_bets;
      List.iter (fun id -> add (cat ["PEND"; u; zs id])) x.M.ms_pending;
      List.iter (fun (d : M.deposit) ->
          add (cat ["DEPO"; u; zs d.M.d_depositor; zs d.M.d_pidx; zs d.M.d_creator; zs d.M.d_amount;
                    zs d.M.d_wcount; zs d.M.d_wtotal])) x.M.ms_deps;
      List.iter (fun (w : M.withdrawal) ->
          add (cat ["WD"; u; zs w.M.w_depositor; zs w.M.w_pidx; zs w.M.w_id; zs w.M.w_creator; zs w.M.w_mode;
                    zs w.M.w_amount])) x.M.ms_wds)
    s.M.c_ms;
  List.sort compare !out

let out_s (o : M.out) = match o with M.Ok -> "ok" | M.Err -> "err" | M.Panic -> "panic"

(* ---- history replay ---------------------------------------------------------------------------- *)
let read_lines (f : string) : string list =
  let ic = open_in f in
  let rec go acc = match input_line ic with l -> go (l :: acc) | exception End_of_file -> close_in ic; List.rev acc in
  go []

let tag_of (l : string) = match String.index_opt l ' ' with Some i -> String.sub l 0 i | None -> l

(* first difference between two sorted line lists *)
let rec first_diff (a : string list) (b : string list) : (string * string) option =
  match a, b with
  | [], [] -> None
  | x :: _, [] -> Some (x, "<none>")
  | [], y :: _ -> Some ("<none>", y)
  | x :: ta, y :: tb -> if x = y then first_diff ta tb else
        (* report the smaller one as the unmatched line *)
        if compare x y < 0 then Some (x, (if tag_of x = tag_of y then y else "<none>"))
        else Some ((if tag_of x = tag_of y then x else "<none>"), y)

let diff_tags (a : string list) (b : string list) : string list =
  let tags = List.sort_uniq compare (List.map tag_of (a @ b)) in
  List.filter (fun t ->
      List.filter (fun l -> tag_of l = t) a <> List.filter (fun l -> tag_of l = t) b) tags

let replay (file : string) (dumpmodel : bool) : unit =
  let lines = read_lines file in
  (* group: GEN line, then blocks (OP line, RES line, ST lines...) *)
  let st = ref None and nacc = ref 0 in
  let cur_op = ref None and cur_res = ref "" and cur_st = ref [] in
  let nops = ref 0 in
  let mismatch = ref None in
  let flush () =
    match !cur_op, !st with
    | Some optoks, Some s when !mismatch = None ->
        incr nops;
        (try
           let o = parse_gop optoks in
           let (s', r) = M.gstep s o in
           st := Some s';
           let mres = out_s r in
           if dumpmodel then begin
             print_endline ("OP " ^ cat optoks); print_endline ("RES " ^ mres);
             List.iter (fun l -> print_endline ("ST " ^ l)) (dump s' !nacc)
           end;
           let ires = !cur_res in
           if dumpmodel then ()
           else if ires <> mres then
             mismatch := Some (!nops, "RES", "RES " ^ ires, "RES " ^ mres)
           else if mres <> "panic" then begin
             let impl = List.sort compare (List.rev !cur_st) in
             let model = dump s' !nacc in
             if impl <> model then begin
               let tags = String.concat "," (diff_tags impl model) in
               match first_diff impl model with
               | Some (a, b) -> mismatch := Some (!nops, tags, a, b)
               | None -> ()
             end
           end
         with Parse m -> mismatch := Some (!nops, "PARSE", m, cat optoks))
    | _ -> ()
  in
  List.iter (fun l ->
      match split l with
      | "GEN" :: toks -> let (s, n) = parse_gen toks in st := Some s; nacc := n
      | "OP" :: toks -> flush (); cur_op := Some toks; cur_res := ""; cur_st := []
      | "RES" :: r :: _ -> cur_res := (if String.length r >= 5 && String.sub r 0 5 = "panic" then "panic" else r)
      | "ST" :: _ -> cur_st := String.sub l 3 (String.length l - 3) :: !cur_st
      | _ -> ()) lines;
  flush ();
  match !mismatch with
  | None -> Printf.printf "OK %s ops=%d\n" file !nops
  | Some (k, tags, a, b) -> Printf.printf "MISMATCH %s op=%d tags=%s impl=[%s] model=[%s]\n" file k tags a b

(* ---- kernels ------------------------------------------------------------------------------------- *)
let opt_pair_s = function None -> "none" | Some (a, b) -> zs a ^ " " ^ zs b

let kern_eval (toks : string list) : string =
  let r = ref toks in
  match take r with
  | "mul" -> let a = tz r in let b = tz r in zs (M.dec_mul a b)
  | "quo" -> let a = tz r in let b = tz r in zs (M.dec_quo a b)
  | "mulint" -> let a = tz r in let b = tz r in zs (M.dec_mulint a b)
  | "truncint" -> zs (M.dec_trunc_int (tz r))
  | "roundint" -> zs (M.dec_round_int (tz r))
  | "profit" -> let o = tz r in let a = tz r in
      (match M.payout_profit o a with None -> "none" | Some p -> zs p)
  | "betamt" -> let o = tz r in let p = tz r in let c = tz r in
      let (s, c') = M.bet_amount_int o p c in zs s ^ " " ^ zs c'
  | "curphase" ->
      let bpy = tz r in let excl = tz r in
      let phs = tlist r (fun r -> let i = tz r in let c = tz r in { M.ph_infl = i; M.ph_coef = c }) in
      let h = tz r in
      let (ph, step) = M.current_phase { M.bpy = bpy; M.excl = excl; M.phases = phs } h in
      zs step ^ " " ^ zs ph.M.ph_infl ^ " " ^ zs ph.M.ph_coef
  | "blockprov" ->
      let bpy = tz r in let excl = tz r in
      let phs = tlist r (fun r -> let i = tz r in let c = tz r in { M.ph_infl = i; M.ph_coef = c }) in
      let prov = tz r in let tr = tz r in let step = tz r in
      let m = { M.m_infl = M.Z0; M.m_step = step; M.m_prov = prov; M.m_trunc = tr } in
      opt_pair_s (M.block_provisions { M.bpy = bpy; M.excl = excl; M.phases = phs } m step)
  | "nextprov" ->
      let infl = tz r in let sup = tz r in let ex = tz r in let coef = tz r in
      zs (M.next_phase_provisions infl sup ex { M.ph_infl = infl; M.ph_coef = coef })
  | "mintvalid" ->
      let bpy = tz r in let excl = tz r in
      let phs = tlist r (fun r -> let i = tz r in let c = tz r in { M.ph_infl = i; M.ph_coef = c }) in
      bs (M.mparams_valid { M.bpy = bpy; M.excl = excl; M.phases = phs })
  | x -> raise (Parse ("unknown kernel " ^ x))

let kern (file : string) : unit =
  let n = ref 0 and bad = ref 0 and first = ref "" in
  let hist = Hashtbl.create 16 in
  List.iter (fun l ->
      match split l with
      | "K" :: rest ->
          (* K fn args... = result... *)
          let rec cut acc = function
            | "=" :: t -> (List.rev acc, t)
            | x :: t -> cut (x :: acc) t
            | [] -> (List.rev acc, []) in
          let (args, res) = cut [] rest in
          incr n;
          let fn = List.hd args in
          Hashtbl.replace hist fn (1 + (try Hashtbl.find hist fn with Not_found -> 0));
          let got = (try kern_eval args with Parse m -> "parse-error:" ^ m) in
          let exp = cat res in
          if got <> exp then begin
            incr bad;
            if !first = "" then first := Printf.sprintf "%s impl=[%s] model=[%s]" (cat args) exp got
          end
      | _ -> ()) (read_lines file);
  let h = Hashtbl.fold (fun k v acc -> (k ^ ":" ^ string_of_int v) :: acc) hist [] in
  if !bad = 0 then Printf.printf "KOK %s n=%d %s\n" file !n (String.concat "," (List.sort compare h))
  else Printf.printf "KMISMATCH %s n=%d bad=%d first=%s\n" file !n !bad !first

let () =
  match Array.to_list Sys.argv with
  | _ :: "hist" :: files -> List.iter (fun f -> replay f false) files
  | _ :: "model" :: files -> List.iter (fun f -> replay f true) files
  | _ :: "kern" :: files -> List.iter kern files
  | _ -> prerr_endline "usage: driver hist|model|kern files..."; exit 2

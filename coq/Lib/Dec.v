(* Lib/Dec.v — cosmossdk.io/math v1.3.0 LegacyDec / Int kernels.
   Int  := Z (unbounded; Go panics above 2^256, excluded by amounts_bounded hypotheses)
   Dec  := Z, meaning value * 10^18.
   Transcribed from dec.go: chopPrecisionAndRound (sign-symmetric banker's rounding),
   MulMut, MulIntMut, QuoMut, TruncateInt, RoundInt, TruncateDec.            *)
From Coq Require Import ZArith Bool List.
Import ListNotations.
Open Scope Z_scope.

Definition PREC : Z := 1000000000000000000.
Definition HALF : Z := 500000000000000000.

(* chopPrecisionAndRound on a non-negative argument *)
Definition chop_round_nonneg (a : Z) : Z :=
  let q := a / PREC in
  let r := a mod PREC in
  if r =? 0 then q
  else if r <? HALF then q
  else if HALF <? r then q + 1
  else if Z.even q then q else q + 1.

(* dec.go: chopPrecisionAndRound *)
Definition chop_round (x : Z) : Z :=
  if x <? 0 then - chop_round_nonneg (- x) else chop_round_nonneg x.

(* dec.go: chopPrecisionAndTruncate (big.Int.Quo truncates toward zero) *)
Definition chop_trunc (x : Z) : Z := Z.quot x PREC.

Definition dec_of_int (i : Z) : Z := i * PREC.          (* LegacyNewDecFromInt *)
Definition dec_add (a b : Z) : Z := a + b.
Definition dec_sub (a b : Z) : Z := a - b.
Definition dec_mul (a b : Z) : Z := chop_round (a * b). (* Mul *)
Definition dec_mulint (a i : Z) : Z := a * i.           (* MulInt: exact *)
(* Quo: d*10^36 quo d2 (toward zero), then chopPrecisionAndRound. Go panics for d2 = 0;
   callers in the model guard the divisor explicitly and never rely on the totalised value. *)
Definition dec_quo (a b : Z) : Z := chop_round (Z.quot (a * PREC * PREC) b).
Definition dec_trunc_int (a : Z) : Z := chop_trunc a.   (* TruncateInt *)
Definition dec_round_int (a : Z) : Z := chop_round a.   (* RoundInt   *)
Definition dec_trunc_dec (a : Z) : Z := chop_trunc a * PREC. (* TruncateDec *)
Definition dec_one : Z := PREC.

Definition zmax0 (x : Z) : Z := Z.max 0 x.              (* sdk.MaxInt(ZeroInt, x) *)

(* uint64 decrement as Go does it (wraps) *)
Definition U64 : Z := 18446744073709551616.
Definition u64_pred (x : Z) : Z := (x - 1) mod U64.

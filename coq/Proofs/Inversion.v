(* Proofs/Inversion.v — what a successful wager / withdrawal / deposit implies (C08, C09, C03). *)
From Coq Require Import ZArith Bool List Lia.
From Sge Require Import Lib.Dec Model.Types Model.Orderbook Model.Mint Model.Chain Proofs.Tactics Proofs.WagerLoop.
Import ListNotations.
Open Scope Z_scope.

Ltac boolify :=
  repeat match goal with
  | E : negb _ = false |- _ => apply negb_false_iff in E
  | E : negb _ = true |- _ => apply negb_true_iff in E
  | E : _ || _ = false |- _ => apply orb_false_iff in E; destruct E
  | E : _ && _ = true |- _ => apply andb_true_iff in E; destruct E
  | E : (_ <? _) = false |- _ => apply Z.ltb_ge in E
  | E : (_ <=? _) = false |- _ => apply Z.leb_gt in E
  | E : (_ <? _) = true |- _ => apply Z.ltb_lt in E
  | E : (_ <=? _) = true |- _ => apply Z.leb_le in E
  | E : (_ =? _) = true |- _ => apply Z.eqb_eq in E
  end.

(* ---- C08: admission rules of a wager ---------------------------------------------------------------- *)
Theorem wager_admission s sg tk u a sm so ov mu al k ot s' :
  bet_wager s sg tk u a sm so ov mu al k ot = Some s' ->
  (* id new *) existsb (fun x => fst x =? u) (c_uid2id s) = false /\
  ticket_ok s tk = true /\ kyc_ok k sg = true /\
  exists x, get_ms s sm = Some x /\
    k_status (ms_mkt x) = MK_ACTIVE /\ c_now s <= k_end (ms_mkt x) /\
    zmem so (k_odds (ms_mkt x)) = true /\
    zlen (k_odds (ms_mkt x)) = zlen (znodup (map fst al)) /\
    forallb (fun o => zmem o (map fst al)) (k_odds (ms_mkt x)) = true /\
    pr_bet_min (c_prm s) <= a /\
    c_betcnt s' = c_betcnt s + 1 /\
    c_uid2id s' = c_uid2id s ++ [(u, c_betcnt s + 1)].
Proof.
  unfold bet_wager. intros H.
  destruct (wager_prepare s sg tk u a sm so mu al k ot) eqn:EP; [|discriminate].
  unfold wager_prepare in EP. boolify.
  unfold wager_core in H.
  destruct (get_ms s sm) as [x|] eqn:EM; [|discriminate].
  dmatch H. inv H. boolify.
  repeat split; try assumption.
  exists x. repeat split; try assumption; try lia.
Qed.

(* a failed transaction leaves no trace: the whole state is unchanged (atomicity of `tx`) *)
Theorem failed_tx_no_trace s o : snd (step s o) = Err -> fst (step s o) = s.
Proof.
  unfold step. destruct (c_halted s); [discriminate|].
  destruct o; try (unfold tx; match goal with |- context [match ?r with _ => _ end] => destruct r end; cbn; intros; [discriminate|reflexivity]).
  - unfold begin_block_op. destruct (begin_block _ _ _ _); cbn; discriminate.
  - unfold end_block. destruct (bet_endblock _ _ _); [|cbn; discriminate].
    destruct (ob_endblock _ _ _ _); cbn; discriminate.
Qed.

(* ---- C03: at placement the bettor pays fee + the recorded stake, which is the sum of the parts ---------- *)
Theorem wager_core_record s sg u a sm so ov mu al s' :
  wager_core s sg u a sm so ov mu al = Some s' ->
  exists x x' b,
    get_ms s sm = Some x /\ get_ms s' sm = Some x' /\
    ms_bets x' = ms_bets x ++ [b] /\ ms_pending x' = ms_pending x ++ [b_id b] /\
    b_id b = c_betcnt s + 1 /\ b_uid b = u /\ b_creator b = sg /\ b_status b = BS_PLACED /\
    b_fee b = pr_bet_fee (c_prm s) /\
    b_amount b = zsum (map f_stake (b_parts b)) /\ b_parts b <> [] /\
    apply_effects (c_bank s) (c_subs s)
      [Pay sg BETFEE (b_fee b); Pay sg POOL (b_amount b)] = Some (c_bank s', c_subs s').
Proof.
  unfold wager_core. intros H.
  destruct (get_ms s sm) as [x|] eqn:EM; [|discriminate].
  dmatch H. inv H.
  match goal with E : process_wager _ _ _ _ _ _ = Some _ |- _ => destruct (process_wager_effects _ _ _ _ _ _ _ _ _ E) as [He Hne] end.
  subst.
  eexists x, _, _. split; [reflexivity|]. split.
  { unfold get_ms. cbn [c_ms chain_upd]. unfold set_ms_list.
    (* the updated entry is found under the same key *)
    unfold get_ms in EM. destruct (findb (fun y => fst y =? sm) (c_ms s)) as [[k v]|] eqn:EF; [|discriminate].
    inv EM. clear - EF. induction (c_ms s) as [|[k2 v2] r IH]; cbn [findb find] in EF; [discriminate|].
    cbn [upd findb find fst] in *. destruct (k2 =? sm) eqn:Ek; cbn [findb find fst].
    - rewrite Z.eqb_refl. reflexivity.
    - rewrite Ek. apply IH. exact EF. }
  cbn. repeat split; try reflexivity; try assumption.
Qed.

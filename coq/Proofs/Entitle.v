(* Proofs/Entitle.v — C05, last clause: what the settlement of a resolved market pays does not depend on the batch sizes or on how
   settlement is interleaved with other traffic.
   ent x a = what account a is still to receive out of the custody accounts from the settlement of the resolved market x, computed from
   the market's record alone (stakes, parts and fees of its unsettled bets; liquidity, fees and the contributions of ALL its bets for
   its unpaid participations).  Every transition a resolved market can make (settle one bet, mark the book resolved, pay a batch of
   participations of any size, a withdrawal) conserves   ent + (what the transition paid)   for every account; a settled market has
   ent = 0.  Hence, along ANY sequence of such transitions -- any batch sizes, any interleaving -- the total paid to each account
   is ent at the resolution: it is determined by the market's record when it was resolved. *)
From Coq Require Import ZArith Bool List Lia.
From Sge Require Import Lib.Dec Model.Types Model.Orderbook Model.Mint Model.Chain Proofs.Tactics Proofs.Supply Proofs.CustodyLocal Proofs.Custody
     Proofs.BookFacts Proofs.Mono Proofs.Params Proofs.Local Proofs.BetIndex Proofs.CoverHist Proofs.Settle Proofs.Solvent Proofs.SubLock Proofs.SubHist
     Proofs.NoAbort Proofs.Progress.
Import ListNotations.
Open Scope Z_scope.

(* ---- what a list of effects pays to an account ----------------------------------------------------------------------------------------- *)
Definition recv_e (a : Z) (e : effect) : Z := match e with Pay _ t amt => if t =? a then amt else 0 | _ => 0 end.
Definition recv (a : Z) (effs : list effect) : Z := zsum (map (recv_e a) effs).
Lemma recv_app a e1 e2 : recv a (e1 ++ e2) = recv a e1 + recv a e2.
Proof. unfold recv. rewrite map_app, zsum_app. reflexivity. Qed.

(* ---- entitlement --------------------------------------------------------------------------------------------------------------------------- *)
Definition refundedb (mk : market) : bool := (k_status mk =? MK_ABORTED) || (k_status mk =? MK_CANCELED).
Definition declaredb (mk : market) : bool := k_status mk =? MK_DECLARED.
Definition to (who a amt : Z) : Z := if who =? a then amt else 0.

Definition bet_ent (mk : market) (a : Z) (b : bet) : Z :=
  if is_settled b then 0
  else if refundedb mk then to (b_creator b) a (b_amount b + b_fee b)
  else if declaredb mk then
    (if zmem (b_odds b) (k_winners mk) then to (b_creator b) a (zsum (map (fun f => f_pay f + f_stake f) (b_parts b))) else 0)
    + to (k_creator mk) a (b_fee b)
  else 0.

Definition part_ent (mk : market) (bets : list bet) (a : Z) (p : part) : Z :=
  if p_settled p then 0
  else if refundedb mk then to (p_owner p) a (p_liq p + p_fee p)
  else if declaredb mk then
    to (p_owner p) a (p_liq p + ctot (p_idx p) (winner mk) bets)
    + (if p_tba p =? 0 then to (p_owner p) a (p_fee p) else to (k_creator mk) a (p_fee p))
  else 0.

Definition ent (x : mstate) (a : Z) : Z :=
  zsum (map (bet_ent (ms_mkt x) a) (ms_bets x)) + zsum (map (part_ent (ms_mkt x) (ms_bets x) a) (bk_parts (ms_book x))).

(* ---- what bet settlement leaves alone in the participations ------------------------------------------------------------------------------------ *)
Definition eproj (p : part) : Z * Z * Z * Z * Z * bool := (p_idx p, p_owner p, p_liq p, p_fee p, p_tba p, p_settled p).

Lemma set_profit_eproj b p v : get_part b (p_idx p) = Some p ->
  map eproj (bk_parts (set_part b (part_set_profit p v))) = map eproj (bk_parts b).
Proof. intros Hg. unfold set_part. cbn [bk_parts book_upd p_idx part_set_profit part_upd]. apply (upd_map_keep _ _ _ p); [exact Hg|reflexivity]. Qed.

Lemma gp_idx' b i p : get_part b i = Some p -> p_idx p = i.
Proof. unfold get_part, findb. intros H. apply find_some in H. destruct H as [_ H]. unfold part_is in H. apply Z.eqb_eq in H. exact H. Qed.

Lemma bettor_wins_eproj fs : forall b bettor b' effs, bettor_wins b bettor fs = Some (b', effs) ->
  map eproj (bk_parts b') = map eproj (bk_parts b).
Proof.
  induction fs as [|f r IH]; intros b bettor b' effs H; cbn [bettor_wins] in H; [inv H; reflexivity|].
  destruct (get_part b (f_idx f)) as [p|] eqn:Eg; [|discriminate].
  destruct (bettor_wins _ bettor r) as [[b2 e2]|] eqn:EB; [|discriminate]. inv H.
  rewrite (IH _ _ _ _ EB). apply set_profit_eproj. rewrite (gp_idx' _ _ _ Eg). exact Eg.
Qed.

Lemma bettor_loses_eproj fs : forall b b', bettor_loses b fs = Some b' -> map eproj (bk_parts b') = map eproj (bk_parts b).
Proof.
  induction fs as [|f r IH]; intros b b' H; cbn [bettor_loses] in H; [inv H; reflexivity|].
  destruct (get_part b (f_idx f)) as [p|] eqn:Eg; [|discriminate].
  rewrite (IH _ _ H). apply set_profit_eproj. rewrite (gp_idx' _ _ _ Eg). exact Eg.
Qed.

Lemma part_ent_eproj mk bets a p q : eproj p = eproj q -> part_ent mk bets a p = part_ent mk bets a q.
Proof. unfold eproj, part_ent. intros E. injection E as E1 E2 E3 E4 E5 E6. rewrite E1, E2, E3, E4, E5, E6. reflexivity. Qed.

Lemma cons_inj {A} (a b : A) l l' : a :: l = b :: l' -> a = b /\ l = l'.
Proof. intros H. split; [exact (f_equal (hd a) H)|exact (f_equal (@tl A) H)]. Qed.

Lemma sum_eproj mk bets a : forall l l' : list part, map eproj l' = map eproj l ->
  zsum (map (part_ent mk bets a) l') = zsum (map (part_ent mk bets a) l).
Proof.
  intros l. induction l as [|q r IH]; intros l' E; destruct l' as [|p r']; try discriminate E; [reflexivity|].
  cbn [map] in E. apply cons_inj in E. destruct E as [E1 E2]. cbn [map zsum]. rewrite (part_ent_eproj mk bets a p q E1), (IH _ E2). reflexivity.
Qed.

(* the contributions of all bets do not depend on which bets are settled *)
Lemma ctot_upd i w bets id b b' : findb (fun c => b_id c =? id) bets = Some b -> b_odds b' = b_odds b -> b_parts b' = b_parts b ->
  ctot i w (upd (fun c => b_id c =? id) b' bets) = ctot i w bets.
Proof. intros F E1 E2. unfold ctot. rewrite (upd_sum_found _ _ _ b _ F). unfold contrib. rewrite E1, E2. lia. Qed.

Lemma recv_wins a bettor fs : recv a (map (fun f => Pay POOL bettor (f_pay f + f_stake f)) fs) = to bettor a (zsum (map (fun f => f_pay f + f_stake f) fs)).
Proof.
  unfold recv, to. induction fs as [|f r IH]; cbn [map zsum recv_e]; [destruct (bettor =? a); reflexivity|]. rewrite IH. destruct (bettor =? a); lia.
Qed.

(* ---- one bet ---------------------------------------------------------------------------------------------------------------------------------- *)
Lemma settle_bet_ent x h id x' effs a : settle_bet x h id = Some (x', effs) -> ent x a = ent x' a + recv a effs.
Proof.
  intros H. pose proof H as H0. unfold settle_bet in H. cbv zeta in H.
  destruct (findb (fun b => b_id b =? id) (ms_bets x)) as [b|] eqn:EF; [|discriminate].
  destruct (b_status b =? BS_SETTLED) eqn:Es; [discriminate|].
  assert (Hb0 : is_settled b = false) by exact Es.
  (* the common shape of the three results *)
  assert (K : forall r bk e0, map eproj (bk_parts bk) = map eproj (bk_parts (ms_book x)) ->
     bet_ent (ms_mkt x) a b = recv a e0 ->
     ent x a = ent (mstate_upd x (ms_mkt x) bk (upd (fun c => b_id c =? id) (bet_with b BS_SETTLED r h) (ms_bets x))
                               (remb (Z.eqb id) (ms_pending x)) (ms_deps x) (ms_wds x)) a + recv a e0).
  { intros r bk e0 Ep Er. unfold ent. cbn [ms_mkt ms_bets ms_book mstate_upd].
    rewrite (upd_sum_found _ (bet_ent (ms_mkt x) a) _ b _ EF).
    assert (Hs' : bet_ent (ms_mkt x) a (bet_with b BS_SETTLED r h) = 0) by (unfold bet_ent, is_settled; cbn [b_status bet_with]; reflexivity).
    rewrite Hs', Er.
    rewrite (sum_eproj (ms_mkt x) _ a _ _ Ep).
    assert (Hc : forall p, part_ent (ms_mkt x) (upd (fun c => b_id c =? id) (bet_with b BS_SETTLED r h) (ms_bets x)) a p = part_ent (ms_mkt x) (ms_bets x) a p).
    { intros p. unfold part_ent. rewrite (ctot_upd _ _ _ id b _ EF) by reflexivity. reflexivity. }
    rewrite (zsum_map_ext _ _ _ (fun p _ => Hc p)). lia. }
  unfold bet_ent in K. rewrite Hb0 in K. unfold refundedb, declaredb in K.
  destruct ((k_status (ms_mkt x) =? MK_ABORTED) || (k_status (ms_mkt x) =? MK_CANCELED)) eqn:ERF.
  - destruct (payout_profit _ _); [|discriminate]. injection H as <- <-. apply K; [reflexivity|].
    unfold recv, to. cbn [map zsum recv_e]. destruct (b_creator b =? a); lia.
  - destruct (negb (k_status (ms_mkt x) =? MK_DECLARED)) eqn:ED; [discriminate|]. apply negb_false_iff in ED. rewrite ED in K.
    destruct (zmem (b_odds b) (k_winners (ms_mkt x))) eqn:EZ.
    + destruct (bettor_wins _ _ _) as [[bk e0]|] eqn:EB; [|discriminate]. injection H as <- <-.
      apply K; [apply (bettor_wins_eproj _ _ _ _ _ EB)|].
      rewrite (bettor_wins_effs _ _ _ _ _ EB), recv_app, recv_wins. unfold recv, to. cbn [map zsum recv_e]. destruct (k_creator (ms_mkt x) =? a); lia.
    + destruct (bettor_loses _ _) as [bk|] eqn:EB; [|discriminate]. injection H as <- <-.
      apply K; [apply (bettor_loses_eproj _ _ _ EB)|]. unfold recv, to. cbn [map zsum recv_e]. destruct (k_creator (ms_mkt x) =? a); lia.
Qed.

(* ---- a batch of participations -------------------------------------------------------------------------------------------------------------- *)
(* with every bet settled, the profit recorded on a participation is the contribution of all bets (profit attribution, Settle.v) *)
Lemma settle_participation_ent mk bets a p p' effs :
  settle_participation p (k_status mk) (k_creator mk) = Some (p', effs) ->
  (declaredb mk = true -> p_profit p = ctot (p_idx p) (winner mk) bets) ->
  part_ent mk bets a p = recv a effs /\ part_ent mk bets a p' = 0.
Proof.
  unfold settle_participation. intros H Hp. destruct (p_settled p) eqn:Es; [discriminate|].
  unfold part_ent at 1. rewrite Es. unfold refundedb, declaredb in *.
  destruct (k_status mk =? MK_DECLARED) eqn:ED.
  - assert (Hnr : (k_status mk =? MK_ABORTED) || (k_status mk =? MK_CANCELED) = false).
    { apply Z.eqb_eq in ED. rewrite ED. reflexivity. }
    rewrite Hnr. rewrite (Hp eq_refl) in H.
    destruct (p_tba p =? 0) eqn:Et; inv H; (split; [|unfold part_ent; cbn [p_settled part_settle]; reflexivity]);
      unfold recv, to; cbn [map zsum recv_e];
      destruct (ctot (p_idx p) (winner mk) bets <? 0); cbn [recv_e]; destruct (p_owner p =? a); destruct (k_creator mk =? a); lia.
  - destruct ((k_status mk =? MK_CANCELED) || (k_status mk =? MK_ABORTED)) eqn:ER; [|discriminate].
    assert (Hr : (k_status mk =? MK_ABORTED) || (k_status mk =? MK_CANCELED) = true) by (rewrite orb_comm; exact ER).
    rewrite Hr. inv H. split; [|unfold part_ent; cbn [p_settled part_settle]; reflexivity].
    unfold recv, to. cbn [map zsum recv_e]. destruct (p_owner p =? a); lia.
Qed.

Lemma batch_parts_ent mk bets a ps : forall limit cnt alls c ps' effs,
  batch_parts ps (k_status mk) (k_creator mk) limit cnt = Some (alls, c, ps', effs) ->
  (forall p, In p ps -> declaredb mk = true -> p_profit p = ctot (p_idx p) (winner mk) bets) ->
  zsum (map (part_ent mk bets a) ps) = zsum (map (part_ent mk bets a) ps') + recv a effs.
Proof.
  induction ps as [|p rest IH]; intros limit cnt alls c ps' effs H Hp; cbn [batch_parts] in H.
  - inv H. unfold recv. cbn. lia.
  - assert (Hrest : forall q, In q rest -> declaredb mk = true -> p_profit q = ctot (p_idx q) (winner mk) bets) by (intros q Hq; apply Hp; right; exact Hq).
    destruct (p_settled p) eqn:Es.
    + destruct (limit <=? cnt).
      * inv H. unfold recv. cbn [map zsum]. lia.
      * destruct (batch_parts rest _ _ limit cnt) as [[[[a1 c1] ps1] e1]|] eqn:EB; [|discriminate]. inv H.
        cbn [map zsum app]. rewrite (IH _ _ _ _ _ _ EB Hrest). lia.
    + destruct (settle_participation p (k_status mk) (k_creator mk)) as [[p' e0]|] eqn:ESP; [|discriminate].
      destruct (settle_participation_ent mk bets a p p' e0 ESP (Hp p (or_introl eq_refl))) as [E1 E2].
      destruct (limit <=? cnt + 1).
      * inv H. cbn [map zsum]. rewrite E1, E2. lia.
      * destruct (batch_parts rest _ _ limit (cnt + 1)) as [[[[a1 c1] ps1] e1]|] eqn:EB; [|discriminate]. inv H.
        cbn [map zsum]. rewrite recv_app, E1, E2, (IH _ _ _ _ _ _ EB Hrest). lia.
Qed.

(* ---- a withdrawal from a participation of a resolved market ----------------------------------------------------------------------------------- *)
Lemma resolved_split mk : status_res (k_status mk) -> (refundedb mk = true /\ declaredb mk = false) \/ (refundedb mk = false /\ declaredb mk = true).
Proof. unfold refundedb, declaredb. intros [E|[E|E]]; rewrite E; [left|left|right]; split; reflexivity. Qed.

Lemma withdraw_ent mk bets a b idx amt b' effs p :
  status_res (k_status mk) -> withdraw_participation b idx amt = Some (b', effs) -> get_part b idx = Some p -> p_settled p = false ->
  zsum (map (part_ent mk bets a) (bk_parts b)) = zsum (map (part_ent mk bets a) (bk_parts b')) + recv a effs.
Proof.
  intros Hres H Hg Hs. unfold withdraw_participation in H. rewrite Hg in H.
  set (p' := part_upd p (p_liq p - amt) (p_crl p - amt) (p_enf p) (p_tba p) (p_crtb p) (p_maxloss p) (p_crml p) (p_crml_odds p) (p_profit p)) in *.
  assert (Hidx : p_idx p' = idx) by (cbn [p' p_idx part_upd]; apply (gp_idx' _ _ _ Hg)).
  assert (K : zsum (map (part_ent mk bets a) (bk_parts b)) = zsum (map (part_ent mk bets a) (bk_parts (set_part b p'))) + recv a [Pay POOL (p_owner p) amt]).
  { unfold set_part. cbn [bk_parts book_upd]. rewrite Hidx. rewrite (upd_sum_found _ _ _ p _ Hg).
    unfold part_ent. cbn [p' p_settled p_owner p_liq p_fee p_tba p_idx part_upd]. rewrite Hs.
    unfold recv, to. cbn [map zsum recv_e].
    destruct (resolved_split mk Hres) as [[R D]|[R D]]; rewrite R; [|rewrite D]; destruct (p_owner p =? a); destruct (p_tba p =? 0); destruct (k_creator mk =? a); lia. }
  destruct (0 <? p_crl p'); [injection H as <- <-; exact K|].
  destruct (remove_from_queues _ _); [|discriminate]. injection H as <- <-. exact K.
Qed.

(* ---- the transitions of a resolved market, with what they pay ----------------------------------------------------------------------------------- *)
Inductive strans (P : params) : mstate -> list effect -> mstate -> Prop :=
| ST_withdraw x signer depositor pidx mode amount d amt bk effs dmkt :
    findb (dep_is depositor pidx) (ms_deps x) = Some d -> d_wcount d < pr_h_maxw P ->
    calc_withdrawal (ms_book x) depositor pidx mode (d_wtotal d) amount = Some amt -> 0 <= amt ->
    withdraw_participation (ms_book x) pidx amt = Some (bk, effs) ->
    strans P x effs (mstate_upd x (ms_mkt x) bk (ms_bets x) (ms_pending x)
                  (upd (dep_is depositor pidx)
                       {| d_creator := d_creator d; d_depositor := d_depositor d; d_mkt := d_mkt d; d_pidx := d_pidx d;
                          d_amount := d_amount d; d_wcount := d_wcount d + 1; d_wtotal := d_wtotal d + amt |} (ms_deps x))
                  (ms_wds x ++ [{| w_id := d_wcount d + 1; w_creator := signer; w_depositor := depositor; w_mkt := dmkt;
                                   w_pidx := pidx; w_mode := mode; w_amount := amt |}]))
| ST_settle_bet x h id x' effs :
    bk_status (ms_book x) = BK_ACTIVE -> settle_bet x h id = Some (x', effs) -> strans P x effs x'
| ST_book_resolved x :
    ms_pending x = [] -> bk_status (ms_book x) = BK_ACTIVE -> strans P x [] (with_book x (set_status (ms_book x) BK_RESOLVED))
| ST_settle_parts x limit alls cnt ps effs :
    bk_status (ms_book x) = BK_RESOLVED ->
    batch_parts (bk_parts (ms_book x)) (k_status (ms_mkt x)) (k_creator (ms_mkt x)) limit 0 = Some (alls, cnt, ps, effs) ->
    strans P x effs (with_book x (book_upd (ms_book x) (if alls then BK_SETTLED else bk_status (ms_book x)) (bk_partcnt (ms_book x))
                                      (bk_queues (ms_book x)) ps (bk_expo (ms_book x)) (bk_expo_ix (ms_book x))
                                      (bk_hist (ms_book x)) (bk_pairs (ms_book x)))).

Inductive sreach (P : params) : mstate -> list effect -> mstate -> Prop :=
| sr_refl x : sreach P x [] x
| sr_step x e1 y e2 z : sreach P x e1 y -> strans P y e2 z -> sreach P x (e1 ++ e2) z.

Lemma resolved_not_ai st : status_res st -> status_ai st = false.
Proof. intros [E|[E|E]]; rewrite E; reflexivity. Qed.

(* the labelled transitions are exactly the local transitions of a resolved market *)
Lemma strans_mtrans P x effs x' : status_res (k_status (ms_mkt x)) -> strans P x effs x' -> mtrans P x x'.
Proof.
  intros Hres T. destruct T.
  - eapply MT_withdraw; eassumption.
  - eapply MT_settle_bet; eassumption.
  - eapply MT_book_resolved; assumption.
  - eapply MT_settle_parts; eassumption.
Qed.

Lemma mtrans_strans P x x' : status_res (k_status (ms_mkt x)) -> mtrans P x x' -> exists effs, strans P x effs x'.
Proof.
  intros Hres T. pose proof (resolved_not_ai _ Hres) as Hna.
  assert (Hnact : k_status (ms_mkt x) <> MK_ACTIVE) by (destruct Hres as [E|[E|E]]; rewrite E; discriminate).
  destruct T; try congruence; try contradiction.
  - eexists. eapply ST_withdraw; eassumption.
  - eexists. eapply ST_settle_bet; eassumption.
  - eexists. eapply ST_book_resolved; assumption.
  - eexists. eapply ST_settle_parts; eassumption.
Qed.

(* ---- what is carried along the settlement of a market ---------------------------------------------------------------------------------------------- *)
Record sgood (x : mstate) : Prop := {
  sg_sett : msett x;
  sg_ids : NoDup (map b_id (ms_bets x));
  sg_pend : ms_pending x = unsettled_ids (ms_bets x);
  sg_res : status_res (k_status (ms_mkt x)) }.

Lemma sgood_closed x : sgood x -> bets_closed x.
Proof. intros G. apply closed_of_pending; [apply (sg_sett _ G)|apply (sg_pend _ G)]. Qed.

Lemma settle_bet_pinv x h id x' effs : settle_bet x h id = Some (x', effs) ->
  NoDup (map b_id (ms_bets x)) -> ms_pending x = unsettled_ids (ms_bets x) ->
  NoDup (map b_id (ms_bets x')) /\ ms_pending x' = unsettled_ids (ms_bets x') /\ ms_mkt x' = ms_mkt x.
Proof.
  intros H Hn Hp. destruct (settle_bet_shape _ _ _ _ _ H) as (b & r & EF & Hb & Hpe).
  assert (Hst : b_status b <> BS_SETTLED).
  { unfold settle_bet in H. cbv zeta in H. rewrite EF in H. destruct (b_status b =? BS_SETTLED) eqn:E; [discriminate|]. apply Z.eqb_neq in E. exact E. }
  assert (Hid : b_id b = id) by (apply find_some in EF; destruct EF as [_ E]; apply Z.eqb_eq in E; exact E).
  destruct (upd_split _ _ _ EF) as (B1 & B2 & E1 & E2).
  assert (Hm : ms_mkt x' = ms_mkt x).
  { unfold settle_bet in H. cbv zeta in H. rewrite EF in H. destruct (b_status b =? BS_SETTLED); [discriminate|].
    destruct ((k_status (ms_mkt x) =? MK_ABORTED) || (k_status (ms_mkt x) =? MK_CANCELED)).
    - destruct (payout_profit _ _); [|discriminate]. injection H as <- _. reflexivity.
    - destruct (negb _); [discriminate|]. destruct (zmem _ _).
      + destruct (bettor_wins _ _ _) as [[bk e0]|]; [|discriminate]. injection H as <- _. reflexivity.
      + destruct (bettor_loses _ _) as [bk|]; [|discriminate]. injection H as <- _. reflexivity. }
  rewrite Hb, Hpe, Hp, E2. rewrite E1 in Hn. split; [|split; [|exact Hm]].
  - rewrite map_app in *. cbn [map b_id bet_with] in *. exact Hn.
  - rewrite E1, <- Hid. apply pending_settle; [exact Hn|exact Hst].
Qed.

Lemma ent_same x x' a : ms_mkt x' = ms_mkt x -> ms_bets x' = ms_bets x -> bk_parts (ms_book x') = bk_parts (ms_book x) -> ent x' a = ent x a.
Proof. intros E1 E2 E3. unfold ent. rewrite E1, E2, E3. reflexivity. Qed.

Section Conserve.
Variable P : params.
Hypothesis HP : pr_bet_fee P <= pr_bet_min P.
Hypothesis HF : 0 <= pr_bet_fee P.

(* one transition: the invariant package is kept, and entitlement + paid is conserved for every account *)
Theorem strans_conserves x effs x' : sgood x -> strans P x effs x' ->
  sgood x' /\ forall a, ent x a = ent x' a + recv a effs.
Proof.
  intros G T. pose proof (strans_mtrans P x effs x' (sg_res _ G) T) as MT.
  pose proof (msett_step P x x' HP HF (sg_sett _ G) MT) as S'.
  destruct G as [S Hn Hp Hres]. destruct T.
  - split; [constructor; [exact S'|exact Hn|exact Hp|exact Hres]|]. intros a.
    match goal with E : calc_withdrawal _ _ _ _ _ _ = Some _ |- _ => destruct (calc_withdrawal_spec _ _ _ _ _ _ _ E) as (p & Gp & Hset & _) end.
    unfold ent. cbn [ms_mkt ms_bets ms_book mstate_upd].
    match goal with E : withdraw_participation _ _ _ = Some _ |- _ => rewrite (withdraw_ent (ms_mkt x) (ms_bets x) a _ _ _ _ _ p Hres E Gp Hset) end. lia.
  - match goal with E : settle_bet _ _ _ = Some _ |- _ => destruct (settle_bet_pinv _ _ _ _ _ E Hn Hp) as (Hn' & Hp' & Hm'); pose proof (fun a => settle_bet_ent _ _ _ _ _ a E) as Hent end.
    split; [constructor; [exact S'|exact Hn'|exact Hp'|rewrite Hm'; exact Hres]|]. intros a. apply Hent.
  - split; [constructor; [exact S'|exact Hn|exact Hp|exact Hres]|]. intros a. unfold recv. cbn [map zsum]. rewrite Z.add_0_r. symmetry. apply ent_same; reflexivity.
  - split; [constructor; [exact S'|exact Hn|exact Hp|exact Hres]|]. intros a.
    assert (Hcl : bets_closed x) by (apply closed_of_pending; assumption).
    assert (Hna : bk_status (ms_book x) <> BK_ACTIVE) by (match goal with E : bk_status (ms_book x) = BK_RESOLVED |- _ => rewrite E end; discriminate).
    unfold ent. cbn [ms_mkt ms_bets ms_book with_book mstate_upd bk_parts book_upd].
    match goal with E : batch_parts _ _ _ _ _ = Some _ |- _ => rewrite (batch_parts_ent (ms_mkt x) (ms_bets x) a _ _ _ _ _ _ _ E) end; [lia|].
    intros p Hpin Hd. rewrite (po_profit _ _ (se_parts _ S p Hpin)). unfold exp_profit. unfold declaredb in Hd. rewrite Hd.
    unfold attr, ctot. apply zsum_map_ext. intros b Hb. rewrite (Hcl Hna b Hb). reflexivity.
Qed.

Theorem sreach_conserves x effs x' : sgood x -> sreach P x effs x' ->
  sgood x' /\ forall a, ent x a = ent x' a + recv a effs.
Proof.
  intros G R. induction R as [|x e1 y e2 z _ IH T].
  - split; [exact G|]. intros a. unfold recv. cbn. lia.
  - destruct (IH G) as [Gy Ey]. destruct (strans_conserves y e2 z Gy T) as [Gz Ez].
    split; [exact Gz|]. intros a. rewrite recv_app, (Ey a), (Ez a). lia.
Qed.

(* every sequence of local transitions from a resolved market is such a sequence *)
Lemma mreach_sreach x x' : sgood x -> mreach P x x' -> exists effs, sreach P x effs x'.
Proof.
  intros G R. induction R as [|x y z _ IH T].
  - exists []. constructor.
  - destruct (IH G) as (e1 & R1). destruct (sreach_conserves x e1 y G R1) as [Gy _].
    destruct (mtrans_strans P y z (sg_res _ Gy) T) as (e2 & T2). exists (e1 ++ e2). eapply sr_step; eassumption.
Qed.

(* a settled market owes nothing *)
Lemma settled_ent_zero x a : sgood x -> bk_status (ms_book x) = BK_SETTLED -> unpaid x = 0 -> ent x a = 0.
Proof.
  intros G Hs Hu. pose proof (sgood_closed x G) as Hcl.
  assert (Hna : bk_status (ms_book x) <> BK_ACTIVE) by (rewrite Hs; discriminate).
  unfold ent. rewrite (zsum_map_zero (bet_ent (ms_mkt x) a)) by (intros b Hb; unfold bet_ent; rewrite (Hcl Hna b Hb); reflexivity).
  rewrite (zsum_map_zero (part_ent (ms_mkt x) (ms_bets x) a)) by (intros p Hp; unfold part_ent; rewrite (unpaid_zero_all x Hu p Hp); reflexivity).
  reflexivity.
Qed.
End Conserve.

(* ---- over every history ------------------------------------------------------------------------------------------------------------------------- *)
Section History.
Variables (P : params) (bk : bank) (supply : Z) (vault : list Z) (MP : mparams) (t0 : Z) (sw sd : bool).
Hypothesis HP : pr_bet_fee P <= pr_bet_min P.
Hypothesis HF : 0 <= pr_bet_fee P.
Hypothesis B1 : bget bk POOL = 0.
Hypothesis B2 : bget bk HOUSEFEE = 0.
Hypothesis B3 : bget bk BETFEE = 0.
Hypothesis Hb : forall a, SUBBASE <= a -> 0 <= bget bk a.

Let s0 := init bk supply P vault MP t0 sw sd.

Lemma reachable_sgood ops m x : Forall user_op ops -> get_ms (run s0 ops) m = Some x -> status_res (k_status (ms_mkt x)) -> sgood x.
Proof.
  intros Hv Hx Hres. pose proof (reach_g2 P bk supply vault MP t0 sw sd HP HF B1 B2 B3 Hb ops Hv) as G. fold s0 in G.
  pose proof (get_ms_in _ _ _ Hx) as Hin. constructor.
  - apply (g_all _ (g2_g1 _ G) _ Hin).
  - pose proof (nodup_flat b_id (fun e : Z * mstate => ms_bets (snd e)) (c_ms (run s0 ops)) (m, x) Hin (g_ids _ _ _ _ (bi_g _ (g_binv _ (g2_g1 _ G))))) as Hnd. exact Hnd.
  - apply (bi_pend _ (g_binv _ (g2_g1 _ G)) _ Hin).
  - exact Hres.
Qed.

(* Between any two points of any history, a market that was resolved at the first point has made a sequence of settlement transitions
   whose payments, account by account, are exactly the entitlement it lost: whatever the batch sizes, whatever happened in between. *)
Theorem settlement_conserves ops1 ops2 m x : Forall user_op ops1 -> Forall user_op ops2 ->
  get_ms (run s0 ops1) m = Some x -> status_res (k_status (ms_mkt x)) ->
  exists x' effs, get_ms (run s0 (ops1 ++ ops2)) m = Some x' /\ sreach P x effs x' /\ forall a, ent x a = ent x' a + recv a effs.
Proof.
  intros H1 H2 Hx Hres. pose proof (reachable_sgood ops1 m x H1 Hx Hres) as G.
  pose proof (reach_g2 P bk supply vault MP t0 sw sd HP HF B1 B2 B3 Hb ops1 H1) as G2. fold s0 in G2.
  pose proof (run_lrel ops2 (run s0 ops1) (g_inv _ (g2_g1 _ G2)) (user_valid_all ops2 H2)) as [L1 L2].
  pose proof (reach_prm P bk supply vault MP t0 sw sd ops1) as Ep. fold s0 in Ep. rewrite Ep in L1.
  destruct (L2 m x Hx) as (x' & Hx'). rewrite <- run_app in Hx'.
  exists x'. destruct (L1 m x') as [(y & Hy & R)|(Hn & _)]; [rewrite <- run_app; exact Hx'| |rewrite Hx in Hn; discriminate].
  rewrite Hx in Hy. injection Hy as Ey. subst y.
  destruct (mreach_sreach P HP HF x x' G R) as (effs & SR). exists effs. split; [exact Hx'|]. split; [exact SR|].
  apply (sreach_conserves P HP HF x effs x' G SR).
Qed.

(* ... and once the market is settled, each account has received exactly its entitlement at the first point: a function of the market's
   record when it was resolved (or at any later moment of its settlement), not of the batch sizes or of the interleaving *)
Theorem settlement_determined ops1 ops2 m x : Forall user_op ops1 -> Forall user_op ops2 ->
  get_ms (run s0 ops1) m = Some x -> status_res (k_status (ms_mkt x)) ->
  book_at_least BK_SETTLED (run s0 (ops1 ++ ops2)) m ->
  exists x' effs, get_ms (run s0 (ops1 ++ ops2)) m = Some x' /\ sreach P x effs x' /\ forall a, recv a effs = ent x a.
Proof.
  intros H1 H2 Hx Hres Hst.
  destruct (settlement_conserves ops1 ops2 m x H1 H2 Hx Hres) as (x' & effs & Hx' & SR & E).
  exists x', effs. split; [exact Hx'|]. split; [exact SR|]. intros a.
  assert (Hall : Forall user_op (ops1 ++ ops2)) by (apply Forall_app; split; assumption).
  destruct (settled_means P bk supply vault MP t0 sw sd HP HF B1 B2 B3 Hb (ops1 ++ ops2) m Hall Hst) as (y & Hy & Hs & Hp & _).
  fold s0 in Hy. rewrite Hx' in Hy. injection Hy as Ey. subst y.
  destruct (sreach_conserves P HP HF x effs x' (reachable_sgood ops1 m x H1 Hx Hres) SR) as [Gy _].
  assert (Hu : unpaid x' = 0).
  { unfold unpaid, zlen. replace (filter (fun p => negb (p_settled p)) (bk_parts (ms_book x'))) with (@nil part); [reflexivity|].
    symmetry. induction (bk_parts (ms_book x')) as [|p r IH]; [reflexivity|]. cbn [filter]. rewrite (Hp p (or_introl eq_refl)). cbn [negb]. apply IH. intros q Hq. apply Hp. right. exact Hq. }
  rewrite (E a), (settled_ent_zero x' a Gy Hs Hu). lia.
Qed.
End History.

(* Proofs/Entitle.v — C05, last clause: what the settlement of a resolved market pays does not depend on the batch sizes or on how
   settlement is interleaved with other traffic.
   ent x a = what account a is still to receive out of the custody accounts from the settlement of the resolved market x, computed from
   the market's record alone (stakes, parts and fees of its unsettled bets; liquidity, fees and the contributions of ALL its bets for
   its unpaid participations).  Every transition a resolved market can make (settle one bet, mark the book resolved, pay a batch of
   participations of any size, a withdrawal) conserves   ent + (what the transition paid)   for every account; a settled market has
   ent = 0.  Hence, along ANY sequence of such transitions -- any batch sizes, any interleaving -- the total paid to each account
   is ent at the resolution: it is determined by the market's record when it was resolved. *)
From Coq Require Import ZArith Bool List Lia.
From Sge Require Import Lib.Dec Model.Types Model.Orderbook Model.Mint Model.Chain Proofs.Tactics Proofs.Supply Proofs.CustodyLocal Proofs.Custody
     Proofs.BookFacts Proofs.Mono Proofs.Params Proofs.Local Proofs.BetIndex Proofs.CoverHist Proofs.Settle Proofs.Solvent Proofs.SubLock Proofs.SubHist
     Proofs.NoAbort Proofs.Progress.
Import ListNotations.
Open Scope Z_scope.

(* ---- what a list of effects pays to an account ----------------------------------------------------------------------------------------- *)
Definition recv_e (a : Z) (e : effect) : Z := match e with Pay _ t amt => if t =? a then amt else 0 | _ => 0 end.
Definition recv (a : Z) (effs : list effect) : Z := zsum (map (recv_e a) effs).
Lemma recv_app a e1 e2 : recv a (e1 ++ e2) = recv a e1 + recv a e2.
Proof. unfold recv. rewrite map_app, zsum_app. reflexivity. Qed.

(* ---- entitlement --------------------------------------------------------------------------------------------------------------------------- *)
Definition refundedb (mk : market) : bool := (k_status mk =? MK_ABORTED) || (k_status mk =? MK_CANCELED).
Definition declaredb (mk : market) : bool := k_status mk =? MK_DECLARED.
Definition to (who a amt : Z) : Z := if who =? a then amt else 0.

Definition bet_ent (mk : market) (a : Z) (b : bet) : Z :=
  if is_settled b then 0
  else if refundedb mk then to (b_creator b) a (b_amount b + b_fee b)
  else if declaredb mk then
    (if zmem (b_odds b) (k_winners mk) then to (b_creator b) a (zsum (map (fun f => f_pay f + f_stake f) (b_parts b))) else 0)
    + to (k_creator mk) a (b_fee b)
  else 0.

Definition part_ent (mk : market) (bets : list bet) (a : Z) (p : part) : Z :=
  if p_settled p then 0
  else if refundedb mk then to (p_owner p) a (p_liq p + p_fee p)
  else if declaredb mk then
    to (p_owner p) a (p_liq p + ctot (p_idx p) (winner mk) bets)
    + (if p_tba p =? 0 then to (p_owner p) a (p_fee p) else to (k_creator mk) a (p_fee p))
  else 0.

Definition ent (x : mstate) (a : Z) : Z :=
  zsum (map (bet_ent (ms_mkt x) a) (ms_bets x)) + zsum (map (part_ent (ms_mkt x) (ms_bets x) a) (bk_parts (ms_book x))).

(* ---- what bet settlement leaves alone in the participations ------------------------------------------------------------------------------------ *)
Definition eproj (p : part) : Z * Z * Z * Z * Z * bool := (p_idx p, p_owner p, p_liq p, p_fee p, p_tba p, p_settled p).

Lemma set_profit_eproj b p v : get_part b (p_idx p) = Some p ->
  map eproj (bk_parts (set_part b (part_set_profit p v))) = map eproj (bk_parts b).
Proof. intros Hg. unfold set_part. cbn [bk_parts book_upd p_idx part_set_profit part_upd]. apply (upd_map_keep _ _ _ p); [exact Hg|reflexivity]. Qed.

Lemma gp_idx' b i p : get_part b i = Some p -> p_idx p = i.
Proof. unfold get_part, findb. intros H. apply find_some in H. destruct H as [_ H]. unfold part_is in H. apply Z.eqb_eq in H. exact H. Qed.

Lemma bettor_wins_eproj fs : forall b bettor b' effs, bettor_wins b bettor fs = Some (b', effs) ->
  map eproj (bk_parts b') = map eproj (bk_parts b).
Proof.
  induction fs as [|f r IH]; intros b bettor b' effs H; cbn [bettor_wins] in H; [inv H; reflexivity|].
  destruct (get_part b (f_idx f)) as [p|] eqn:Eg; [|discriminate].
  destruct (bettor_wins _ bettor r) as [[b2 e2]|] eqn:EB; [|discriminate]. inv H.
  rewrite (IH _ _ _ _ EB). apply set_profit_eproj. rewrite (gp_idx' _ _ _ Eg). exact Eg.
Qed.

Lemma bettor_loses_eproj fs : forall b b', bettor_loses b fs = Some b' -> map eproj (bk_parts b') = map eproj (bk_parts b).
Proof.
  induction fs as [|f r IH]; intros b b' H; cbn [bettor_loses] in H; [inv H; reflexivity|].
  destruct (get_part b (f_idx f)) as [p|] eqn:Eg; [|discriminate].
  rewrite (IH _ _ H). apply set_profit_eproj. rewrite (gp_idx' _ _ _ Eg). exact Eg.
Qed.

Lemma part_ent_eproj mk bets a p q : eproj p = eproj q -> part_ent mk bets a p = part_ent mk bets a q.
Proof. unfold eproj, part_ent. intros E. injection E as E1 E2 E3 E4 E5 E6. rewrite E1, E2, E3, E4, E5, E6. reflexivity. Qed.

Lemma cons_inj {A} (a b : A) l l' : a :: l = b :: l' -> a = b /\ l = l'.
Proof. intros H. split; [exact (f_equal (hd a) H)|exact (f_equal (@tl A) H)]. Qed.

Lemma sum_eproj mk bets a : forall l l' : list part, map eproj l' = map eproj l ->
  zsum (map (part_ent mk bets a) l') = zsum (map (part_ent mk bets a) l).
Proof.
  intros l. induction l as [|q r IH]; intros l' E; destruct l' as [|p r']; try discriminate E; [reflexivity|].
  cbn [map] in E. apply cons_inj in E. destruct E as [E1 E2]. cbn [map zsum]. rewrite (part_ent_eproj mk bets a p q E1), (IH _ E2). reflexivity.
Qed.

(* the contributions of all bets do not depend on which bets are settled *)
Lemma ctot_upd i w bets id b b' : findb (fun c => b_id c =? id) bets = Some b -> b_odds b' = b_odds b -> b_parts b' = b_parts b ->
  ctot i w (upd (fun c => b_id c =? id) b' bets) = ctot i w bets.
Proof. intros F E1 E2. unfold ctot. rewrite (upd_sum_found _ _ _ b _ F). unfold contrib. rewrite E1, E2. lia. Qed.

Lemma recv_wins a bettor fs : recv a (map (fun f => Pay POOL bettor (f_pay f + f_stake f)) fs) = to bettor a (zsum (map (fun f => f_pay f + f_stake f) fs)).
Proof.
  unfold recv, to. induction fs as [|f r IH]; cbn [map zsum recv_e]; [destruct (bettor =? a); reflexivity|]. rewrite IH. destruct (bettor =? a); lia.
Qed.

(* ---- one bet ---------------------------------------------------------------------------------------------------------------------------------- *)
Lemma settle_bet_ent x h id x' effs a : settle_bet x h id = Some (x', effs) -> ent x a = ent x' a + recv a effs.
Proof.
  intros H. pose proof H as H0. unfold settle_bet in H. cbv zeta in H.
  destruct (findb (fun b => b_id b =? id) (ms_bets x)) as [b|] eqn:EF; [|discriminate].
  destruct (b_status b =? BS_SETTLED) eqn:Es; [discriminate|].
  assert (Hb0 : is_settled b = false) by exact Es.
  (* the common shape of the three results *)
  assert (K : forall r bk e0, map eproj (bk_parts bk) = map eproj (bk_parts (ms_book x)) ->
     bet_ent (ms_mkt x) a b = recv a e0 ->
     ent x a = ent (mstate_upd x (ms_mkt x) bk (upd (fun c => b_id c =? id) (bet_with b BS_SETTLED r h) (ms_bets x))
                               (remb (Z.eqb id) (ms_pending x)) (ms_deps x) (ms_wds x)) a + recv a e0).
  { intros r bk e0 Ep Er. unfold ent. cbn [ms_mkt ms_bets ms_book mstate_upd].
    rewrite (upd_sum_found _ (bet_ent (ms_mkt x) a) _ b _ EF).
    assert (Hs' : bet_ent (ms_mkt x) a (bet_with b BS_SETTLED r h) = 0) by (unfold bet_ent, is_settled; cbn [b_status bet_with]; reflexivity).
    rewrite Hs', Er.
    rewrite (sum_eproj (ms_mkt x) _ a _ _ Ep).
    assert (Hc : forall p, part_ent (ms_mkt x) (upd (fun c => b_id c =? id) (bet_with b BS_SETTLED r h) (ms_bets x)) a p = part_ent (ms_mkt x) (ms_bets x) a p).
    { intros p. unfold part_ent. rewrite (ctot_upd _ _ _ id b _ EF) by reflexivity. reflexivity. }
    rewrite (zsum_map_ext _ _ _ (fun p _ => Hc p)). lia. }
  unfold bet_ent in K. rewrite Hb0 in K. unfold refundedb, declaredb in K.
  destruct ((k_status (ms_mkt x) =? MK_ABORTED) || (k_status (ms_mkt x) =? MK_CANCELED)) eqn:ERF.
  - destruct (payout_profit _ _); [|discriminate]. injection H as <- <-. apply K; [reflexivity|].
    unfold recv, to. cbn [map zsum recv_e]. destruct (b_creator b =? a); lia.
  - destruct (negb (k_status (ms_mkt x) =? MK_DECLARED)) eqn:ED; [discriminate|]. apply negb_false_iff in ED. rewrite ED in K.
    destruct (zmem (b_odds b) (k_winners (ms_mkt x))) eqn:EZ.
    + destruct (bettor_wins _ _ _) as [[bk e0]|] eqn:EB; [|discriminate]. injection H as <- <-.
      apply K; [apply (bettor_wins_eproj _ _ _ _ _ EB)|].
      rewrite (bettor_wins_effs _ _ _ _ _ EB), recv_app, recv_wins. unfold recv, to. cbn [map zsum recv_e]. destruct (k_creator (ms_mkt x) =? a); lia.
    + destruct (bettor_loses _ _) as [bk|] eqn:EB; [|discriminate]. injection H as <- <-.
      apply K; [apply (bettor_loses_eproj _ _ _ EB)|]. unfold recv, to. cbn [map zsum recv_e]. destruct (k_creator (ms_mkt x) =? a); lia.
Qed.

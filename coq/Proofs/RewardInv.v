(* Proofs/RewardInv.v — invariants of the reward machine (Model/Reward.v) behind property C12. *)
From Coq Require Import ZArith Bool List Lia.
From Sge Require Import Lib.Dec Model.Types Model.Reward Proofs.Tactics.
Import ListNotations.
Open Scope Z_scope.

(* ---- bank --------------------------------------------------------------------------------------- *)
Lemma rbget_badd_same b k d : bget (badd b k d) k = bget b k + d.
Proof.
  induction b as [|[k' v] r IH]; cbn [badd bget].
  - rewrite Z.eqb_refl. lia.
  - destruct (k' =? k) eqn:E; cbn [bget]; rewrite E; [lia|exact IH].
Qed.

Lemma rbget_badd_other b k k2 d : k2 <> k -> bget (badd b k d) k2 = bget b k2.
Proof.
  intros Hne. induction b as [|[k' v] r IH]; cbn [badd bget].
  - destruct (k =? k2) eqn:E; [apply Z.eqb_eq in E; lia|reflexivity].
  - destruct (k' =? k) eqn:E; cbn [bget].
    + apply Z.eqb_eq in E. subst k'. destruct (k =? k2) eqn:E2; [apply Z.eqb_eq in E2; lia|reflexivity].
    + destruct (k' =? k2); [reflexivity|exact IH].
Qed.

Lemma rbget_badd_zero b k k2 : bget (badd b k 0) k2 = bget b k2.
Proof.
  destruct (Z.eq_dec k2 k) as [->|Hne]; [rewrite rbget_badd_same; lia|apply rbget_badd_other; exact Hne].
Qed.

Lemma rpay_get b f t a b' k : rpay b f t a = Some b' -> f <> t ->
  bget b' k = bget b k - (if k =? f then a else 0) + (if k =? t then a else 0).
Proof.
  unfold rpay. intros H Hft. dmatch H. inv H.
  destruct (Z.eq_dec k t) as [Ht|Ht].
  - subst k. rewrite rbget_badd_same. rewrite rbget_badd_other by (intros X; apply Hft; symmetry; exact X).
    rewrite Z.eqb_refl. destruct (t =? f) eqn:Ef; [apply Z.eqb_eq in Ef; exfalso; apply Hft; symmetry; exact Ef|lia].
  - rewrite rbget_badd_other by exact Ht.
    destruct (k =? t) eqn:Et; [apply Z.eqb_eq in Et; contradiction|].
    destruct (Z.eq_dec k f) as [Hf|Hf].
    + subst k. rewrite rbget_badd_same. rewrite Z.eqb_refl. lia.
    + rewrite rbget_badd_other by exact Hf. destruct (k =? f) eqn:Ef; [apply Z.eqb_eq in Ef; contradiction|lia].
Qed.

Lemma rpay_other b f t a b' k : rpay b f t a = Some b' -> k <> f -> k <> t -> bget b' k = bget b k.
Proof.
  unfold rpay. intros H Hf Ht. dmatch H. inv H. rewrite !rbget_badd_other by assumption. reflexivity.
Qed.

Lemma rpay_zero b f t b' k : rpay b f t 0 = Some b' -> bget b' k = bget b k.
Proof.
  unfold rpay. intros H. dmatch H. inv H. cbn [Z.opp]. rewrite !rbget_badd_zero. reflexivity.
Qed.

Lemma rpay_amount_nonneg b f t a b' : rpay b f t a = Some b' -> 0 <= a.
Proof. unfold rpay. intros H. dmatch H. lia. Qed.

Lemma fund_pool_get b f a b' : fund_pool b f a = Some b' -> 0 <= f ->
  bget b' REWARDPOOL = bget b REWARDPOOL + a.
Proof.
  unfold fund_pool. intros H Hf. rewrite (rpay_get _ _ _ _ _ REWARDPOOL H) by (unfold REWARDPOOL; lia).
  rewrite Z.eqb_refl. destruct (REWARDPOOL =? f) eqn:EQ; [apply Z.eqb_eq in EQ; unfold REWARDPOOL in EQ; lia|lia].
Qed.

Lemma refund_pool_get b r a b' : refund_pool b r a = Some b' ->
  bget b' REWARDPOOL = bget b REWARDPOOL - a /\ 0 <= a.
Proof.
  unfold refund_pool. intros H.
  destruct (a <? 0); [discriminate|].
  destruct (blocked r) eqn:EB; [discriminate|]. unfold blocked in EB. apply Z.ltb_ge in EB.
  split.
  - rewrite (rpay_get _ _ _ _ _ REWARDPOOL H) by (unfold REWARDPOOL; lia).
    rewrite Z.eqb_refl. destruct (REWARDPOOL =? r) eqn:ER; [apply Z.eqb_eq in ER; unfold REWARDPOOL in ER; lia|lia].
  - eapply rpay_amount_nonneg. exact H.
Qed.

(* ---- lists ---------------------------------------------------------------------------------------- *)
Lemma findb_some_in {A} (f : A -> bool) l x : findb f l = Some x -> In x l /\ f x = true.
Proof. unfold findb. apply find_some. Qed.

Lemma Forall_upd {A} (P : A -> Prop) f v l : Forall P l -> P v -> Forall P (upd f v l).
Proof.
  intros Hl Hv. induction Hl as [|x r Hx Hr IH]; cbn [upd].
  - constructor; [exact Hv|constructor].
  - destruct (f x); constructor; assumption.
Qed.

Lemma Forall_snoc {A} (P : A -> Prop) l v : Forall P l -> P v -> Forall P (l ++ [v]).
Proof. intros Hl Hv. apply Forall_app. split; [exact Hl|constructor; [exact Hv|constructor]]. Qed.

Lemma Forall_in {A} (P : A -> Prop) l x : Forall P l -> In x l -> P x.
Proof. intros H Hin. rewrite Forall_forall in H. apply H. exact Hin. Qed.

(* ---- the sum of what campaigns may still pay -------------------------------------------------------- *)
Definition camps_sum (l : list campaign) : Z := zsum (map cm_avail l).

Lemma camps_sum_snoc l c : camps_sum (l ++ [c]) = camps_sum l + cm_avail c.
Proof.
  unfold camps_sum. induction l as [|x r IH]; cbn [app map zsum]; [lia|].
  cbn [app map zsum] in IH. lia.
Qed.

Lemma camps_sum_upd f l c c' : findb f l = Some c ->
  camps_sum (upd f c' l) = camps_sum l - cm_avail c + cm_avail c'.
Proof.
  unfold camps_sum, findb. induction l as [|x r IH]; cbn [find upd map zsum]; [discriminate|].
  destruct (f x) eqn:E; intros H.
  - inv H. cbn [map zsum]. lia.
  - cbn [map zsum]. rewrite (IH H). lia.
Qed.

(* ---- invariants ------------------------------------------------------------------------------------- *)
(* C12, first clause: the pool balance equals the sum over campaigns of total - spent - withdrawn *)
Definition pool_eq (s : rstate) : Prop := bget (r_bank s) REWARDPOOL = camps_sum (r_camps s).

(* book-keeping facts the model maintains: promoters are key holders, subaccount ids are counters *)
Definition rwf (s : rstate) : Prop :=
  Forall (fun c => 0 <= cm_promoter c) (r_camps s) /\
  Forall (fun x => 0 <= fst x) (r_promaddr s) /\
  Forall (fun sb => 0 <= sb_id sb) (r_subs s) /\
  0 <= r_subnext s.

Definition rinv (s : rstate) : Prop := pool_eq s /\ rwf s.

(* C12, second clause *)
Definition avail_nonneg (s : rstate) : Prop := Forall (fun c => 0 <= cm_avail c) (r_camps s).

(* what validation guarantees about every stored campaign (an invariant, not a hypothesis): no negative reward
   component; plus the one modelled-interface assumption: bet amounts reported by RSYNCBET are non-negative *)
Definition amt_nonneg (a : ramount) : Prop := 0 <= ra_main a /\ 0 <= ra_sub a /\ 0 <= ra_mainpct a /\ 0 <= ra_subpct a.
Definition sguard (s : rstate) : Prop :=
  Forall (fun c => amt_nonneg (cm_amt c)) (r_camps s) /\ Forall (fun b => 0 <= rb_amount b) (r_bets s).
Definition optnn (o : option Z) : Prop := match o with Some v => 0 <= v | None => True end.
(* the only hypothesis about operations: the harness-derived bet amount of an RSYNCBET is not negative *)
Definition oguard (o : rop) : Prop :=
  match o with
  | RSyncBet _ _ amt _ _ => 0 <= amt
  | _ => True
  end.

Lemma opt_neg_false_nn o : opt_neg o = false -> optnn o.
Proof. destruct o; cbn; [intros H; apply Z.ltb_ge in H; exact H|trivial]. Qed.

(* CreateCampaignPayload.Validate (after the repair) refuses every negative component *)
Lemma payload_valid_nonneg now st en cat ty at_ ra : payload_valid now st en cat ty at_ ra = true ->
  optnn (rp_main ra) /\ optnn (rp_sub ra) /\ optnn (rp_mainpct ra) /\ optnn (rp_subpct ra).
Proof.
  unfold payload_valid. intros H.
  destruct (en <=? st); [discriminate|]. destruct (en <=? now); [discriminate|].
  destruct (negb (cat_type_ok cat ty)); [discriminate|].
  destruct (opt_neg (rp_main ra)) eqn:E1; [discriminate|].
  destruct (opt_neg (rp_sub ra)) eqn:E2; [discriminate|].
  destruct (opt_neg (rp_mainpct ra)) eqn:E3; [discriminate|].
  destruct (opt_neg (rp_subpct ra)) eqn:E4; [discriminate|].
  repeat split; apply opt_neg_false_nn; assumption.
Qed.

Lemma opt_z_nonneg o : optnn o -> 0 <= opt_z o.
Proof. destruct o; cbn; lia. Qed.

(* ---- Dec facts for the bet bonus ---------------------------------------------------------------------- *)
Lemma PREC_pos : 0 < PREC. Proof. reflexivity. Qed.

Lemma chop_round_nonneg_nonneg a : 0 <= a -> 0 <= chop_round_nonneg a.
Proof.
  intros H. unfold chop_round_nonneg.
  assert (0 <= a / PREC) by (apply Z.div_pos; [exact H|exact PREC_pos]).
  repeat match goal with |- context [if ?c then _ else _] => destruct c end; lia.
Qed.

Lemma bonus_amt_nonneg eff pct : 0 <= eff -> 0 <= pct -> 0 <= bonus_amt eff pct.
Proof.
  intros He Hp. unfold bonus_amt, dec_trunc_int, chop_trunc, dec_mul, dec_of_int, chop_round.
  assert (H0 : 0 <= eff * PREC * pct) by (pose proof PREC_pos; nia).
  destruct (eff * PREC * pct <? 0) eqn:E; [apply Z.ltb_lt in E; lia|].
  apply Z.quot_pos; [apply chop_round_nonneg_nonneg; exact H0|pose proof PREC_pos; lia].
Qed.

Lemma bonus_eff_nonneg c a : 0 <= a -> 0 <= bonus_eff c a.
Proof.
  intros H. unfold bonus_eff. destruct (cm_constr c) as [m|]; [|exact H].
  destruct (0 <? m) eqn:E; [apply Z.ltb_lt in E; lia|exact H].
Qed.

(* ---- subaccounts: what creating / finding the receiver's subaccount leaves alone ------------------------ *)
Definition sub_frame (s s1 : rstate) : Prop :=
  r_camps s1 = r_camps s /\ r_promaddr s1 = r_promaddr s /\ r_proms s1 = r_proms s /\ r_bycat s1 = r_bycat s /\
  r_stats s1 = r_stats s /\ r_rewards s1 = r_rewards s /\ r_bets s1 = r_bets s /\ r_grants s1 = r_grants s /\
  r_now s1 = r_now s /\ r_bycamp s1 = r_bycamp s /\ r_leader s1 = r_leader s.

Lemma sub_frame_refl s : sub_frame s s.
Proof. repeat split. Qed.

Lemma create_sub_empty s creator owner s1 sa : create_sub s creator owner [] = Some (s1, sa) ->
  sub_frame s s1 /\ (forall k, bget (r_bank s1) k = bget (r_bank s) k) /\ (rwf s -> rwf s1).
Proof.
  unfold create_sub. cbn [existsb map zsum]. intros H. dmatch H. inv H. split; [repeat split|split].
  - intros k. cbn. eapply rpay_zero. eassumption.
  - intros (W1 & W2 & W3 & W4). repeat split; cbn; try assumption.
    + apply Forall_snoc; [exact W3|cbn; exact W4].
    + lia.
Qed.

Lemma get_or_create_sub_frame s creator rcv s1 sa : get_or_create_sub s creator rcv = Some (s1, sa) ->
  sub_frame s s1 /\ (forall k, bget (r_bank s1) k = bget (r_bank s) k) /\ (rwf s -> rwf s1).
Proof.
  unfold get_or_create_sub. destruct (sub_by_owner (r_subs s) rcv) as [sb|].
  - intros H. inv H. split; [apply sub_frame_refl|split; [reflexivity|tauto]].
  - apply create_sub_empty.
Qed.

(* ---- calculate ------------------------------------------------------------------------------------------- *)
Lemma signup_tail_frame s c signer rcv s1 rc : signup_tail s c signer rcv = Some (s1, rc) ->
  sub_frame s s1 /\ (forall k, bget (r_bank s1) k = bget (r_bank s) k) /\ (rwf s -> rwf s1) /\
  rc = fixed_recv c rcv (rc_subaddr rc).
Proof.
  unfold signup_tail. intros H. dmatch H. inv H.
  match goal with E : get_or_create_sub _ _ _ = Some _ |- _ => destruct (get_or_create_sub_frame _ _ _ _ _ E) as (F & B & W) end.
  split; [exact F|split; [exact B|split; [exact W|reflexivity]]].
Qed.

(* what Calculate guarantees about the receiver record *)
Definition recv_spec (s : rstate) (c : campaign) (rcv betuid : Z) (rc : recv) : Prop :=
  rc_main rc = rcv /\
  ((cm_type c <> RT_BET_DISCOUNT /\ rc_amt rc = {| ra_main := ra_main (cm_amt c); ra_sub := ra_sub (cm_amt c);
                                                    ra_unlock := ra_unlock (cm_amt c); ra_mainpct := 0; ra_subpct := 0 |}) \/
   (cm_type c = RT_BET_DISCOUNT /\ exists b, findb (fun b => rb_uid b =? betuid) (r_bets s) = Some b /\
      rb_creator b = rcv /\ rb_main b = true /\ (rb_result b = BR_LOST \/ rb_result b = BR_WON) /\
      ra_main (rc_amt rc) = bonus_amt (bonus_eff c (rb_amount b)) (ra_mainpct (cm_amt c)) /\
      ra_sub (rc_amt rc) = bonus_amt (bonus_eff c (rb_amount b)) (ra_subpct (cm_amt c)) /\
      ra_unlock (rc_amt rc) = ra_unlock (cm_amt c))).

Lemma calculate_frame s c signer tk hk ky rcv src peer bet s1 rc :
  calculate s c signer tk hk ky rcv src peer bet = Some (s1, rc) ->
  sub_frame s s1 /\ (forall k, bget (r_bank s1) k = bget (r_bank s) k) /\ (rwf s -> rwf s1) /\
  rticket_ok s tk = true /\ hk = true /\ kyc_ok ky rcv = true /\ addr_valid rcv = true /\
  recv_spec s c rcv bet rc.
Proof.
  unfold calculate. intros H.
  destruct (rticket_ok s tk) eqn:Etk; [|discriminate]. cbn [negb] in H.
  destruct hk; [|discriminate]. cbn [negb] in H.
  destruct (kyc_ok ky rcv) eqn:Eky; [|discriminate]. cbn [negb] in H.
  destruct (addr_valid rcv) eqn:Eav; [|discriminate]. cbn [negb] in H.
  assert (Tail : signup_tail s c signer rcv = Some (s1, rc) -> cm_type c <> RT_BET_DISCOUNT ->
            sub_frame s s1 /\ (forall k, bget (r_bank s1) k = bget (r_bank s) k) /\ (rwf s -> rwf s1) /\
            true = true /\ true = true /\ true = true /\ true = true /\ recv_spec s c rcv bet rc).
  { intros HT Hty. destruct (signup_tail_frame _ _ _ _ _ _ HT) as (F & B & W & R).
    split; [exact F|]. split; [exact B|]. split; [exact W|]. do 4 (split; [reflexivity|]).
    unfold recv_spec. rewrite R. split; [reflexivity|]. left. split; [exact Hty|reflexivity]. }
  destruct (cm_type c =? RT_SIGNUP) eqn:E1.
  { apply Z.eqb_eq in E1. apply (Tail H). rewrite E1. discriminate. }
  destruct ((cm_type c =? RT_REFERRAL_SIGNUP) || (cm_type c =? RT_AFFILIATE_SIGNUP)) eqn:E2.
  { destruct (addr_valid src); [|discriminate]. cbn [negb] in H. apply (Tail H).
    apply orb_true_iff in E2. destruct E2 as [E|E]; apply Z.eqb_eq in E; rewrite E; discriminate. }
  destruct ((cm_type c =? RT_REFERRAL) || (cm_type c =? RT_AFFILIATE)) eqn:E3.
  { destruct (prom_of_addr (r_promaddr s) (cm_promoter c)); [|discriminate].
    destruct (has_reward (r_bycat s) z peer CAT_SIGNUP); [|discriminate]. cbn [negb] in H.
    apply (Tail H).
    apply orb_true_iff in E3. destruct E3 as [E|E]; apply Z.eqb_eq in E; rewrite E; discriminate. }
  destruct (cm_type c =? RT_BET_DISCOUNT) eqn:E4; [|discriminate].
  apply Z.eqb_eq in E4.
  destruct (is_subaccount (r_subs s) rcv); [discriminate|].
  destruct (get_or_create_sub s signer rcv) as [[s1' sa]|] eqn:EG; [|discriminate].
  destruct (get_or_create_sub_frame _ _ _ _ _ EG) as (F & B & W).
  destruct (findb (fun b => rb_uid b =? bet) (r_bets s1')) as [b|] eqn:EB; [|discriminate].
  destruct (rb_creator b =? rcv) eqn:EC; [|discriminate]. cbn [negb] in H.
  destruct (rb_main b) eqn:EM; [|discriminate]. cbn [negb] in H.
  destruct ((rb_result b =? BR_LOST) || (rb_result b =? BR_WON)) eqn:ER; [|discriminate]. cbn [negb] in H.
  inv H.
  split; [exact F|]. split; [exact B|]. split; [exact W|]. do 4 (split; [reflexivity|]).
  unfold recv_spec. cbn [rc_main rc_amt ra_main ra_sub ra_unlock]. split; [reflexivity|].
  right. split; [exact E4|]. exists b.
  assert (Hb : r_bets s1 = r_bets s) by apply F. rewrite Hb in EB.
  split; [exact EB|]. split; [apply Z.eqb_eq; exact EC|]. split; [exact EM|].
  split; [apply orb_true_iff in ER; destruct ER as [E|E]; apply Z.eqb_eq in E; [left|right]; exact E|].
  split; [reflexivity|]. split; reflexivity.
Qed.

Lemma recv_spec_nonneg s c rcv bet rc : recv_spec s c rcv bet rc -> sguard s -> In c (r_camps s) ->
  0 <= ra_main (rc_amt rc) /\ 0 <= ra_sub (rc_amt rc).
Proof.
  intros (_ & [(_ & R)|(_ & b & Hb & _ & _ & _ & Hm & Hs & _)]) (GC & GB) Hin.
  - pose proof (Forall_in _ _ _ GC Hin) as (A1 & A2 & _). rewrite R. cbn. lia.
  - pose proof (Forall_in _ _ _ GC Hin) as (_ & _ & A3 & A4).
    apply findb_some_in in Hb. destruct Hb as (Hbin & _).
    pose proof (Forall_in _ _ _ GB Hbin) as A5. cbn beta in A5.
    rewrite Hm, Hs. split; apply bonus_amt_nonneg; try assumption; apply bonus_eff_nonneg; exact A5.
Qed.

(* ---- distribute ---------------------------------------------------------------------------------------------- *)
Definition pos_part (x : Z) : Z := if 0 <? x then x else 0.

Lemma sub_topup_frame s owner ts amt s' : sub_topup s owner ts amt = Some s' ->
  sub_frame s s' /\ (rwf s -> bget (r_bank s') REWARDPOOL = bget (r_bank s) REWARDPOOL - amt /\ rwf s').
Proof.
  unfold sub_topup. intros H.
  destruct (ts <? r_now s); [discriminate|].
  destruct (sub_by_owner (r_subs s) owner) as [sb|] eqn:ES; [|discriminate].
  destruct (existsb (lock_is (sb_id sb) ts) (r_locks s)); [discriminate|].
  destruct (rpay (r_bank s) REWARDPOOL (SUBBASE + sb_id sb) amt) as [b|] eqn:EP; [|discriminate]. inv H.
  split; [repeat split|].
  intros (W1 & W2 & W3 & W4).
  apply findb_some_in in ES. destruct ES as (Hin & _). pose proof (Forall_in _ _ _ W3 Hin) as Hid. cbn beta in Hid.
  split.
  - cbn. rewrite (rpay_get _ _ _ _ _ REWARDPOOL EP) by (unfold REWARDPOOL, SUBBASE; lia).
    rewrite Z.eqb_refl.
    destruct (REWARDPOOL =? SUBBASE + sb_id sb) eqn:EE; [apply Z.eqb_eq in EE; unfold REWARDPOOL, SUBBASE in EE; lia|lia].
  - repeat split; cbn; try assumption. apply Forall_upd; [exact W3|cbn; exact Hid].
Qed.

Lemma distribute_frame s rc s' : distribute s rc = Some s' ->
  sub_frame s s' /\
  (rwf s -> rwf s' /\
   bget (r_bank s') REWARDPOOL = bget (r_bank s) REWARDPOOL - pos_part (ra_sub (rc_amt rc)) - pos_part (ra_main (rc_amt rc))).
Proof.
  unfold distribute, pos_part. intros H.
  assert (Main : forall s1, sub_frame s s1 ->
            (if 0 <? ra_main (rc_amt rc)
             then match refund_pool (r_bank s1) (rc_main rc) (ra_main (rc_amt rc)) with
                  | Some b => Some (set_bank s1 b) | None => None end
             else Some s1) = Some s' ->
            sub_frame s s' /\ (rwf s1 -> rwf s') /\
            bget (r_bank s') REWARDPOOL = bget (r_bank s1) REWARDPOOL - (if 0 <? ra_main (rc_amt rc) then ra_main (rc_amt rc) else 0)).
  { intros s1 F H1. destruct (0 <? ra_main (rc_amt rc)).
    - destruct (refund_pool (r_bank s1) (rc_main rc) (ra_main (rc_amt rc))) as [b|] eqn:ER; [|discriminate]. inv H1.
      destruct (refund_pool_get _ _ _ _ ER) as (Hb & _).
      split; [exact F|]. split; [exact (fun W => W)|]. cbn. exact Hb.
    - inv H1. split; [exact F|]. split; [exact (fun W => W)|]. lia. }
  destruct (0 <? ra_sub (rc_amt rc)) eqn:ES.
  - destruct (sub_topup s (rc_main rc) _ (ra_sub (rc_amt rc))) as [s1|] eqn:ET; [|discriminate].
    destruct (sub_topup_frame _ _ _ _ _ ET) as (F & BW).
    destruct (Main s1 F H) as (F' & W' & B'). split; [exact F'|].
    intros W. destruct (BW W) as (B & W1). split; [exact (W' W1)|]. rewrite B', B. lia.
  - destruct (Main s (sub_frame_refl s) H) as (F' & W' & B'). split; [exact F'|].
    intros W. split; [exact (W' W)|]. rewrite B'. lia.
Qed.

Lemma cap_step_frame s c rcv s' : cap_step s c rcv = Some s' ->
  r_camps s' = r_camps s /\ r_promaddr s' = r_promaddr s /\ r_proms s' = r_proms s /\ r_bycat s' = r_bycat s /\
  r_rewards s' = r_rewards s /\ r_bets s' = r_bets s /\ r_bank s' = r_bank s /\ r_subs s' = r_subs s /\
  r_subnext s' = r_subnext s /\ r_bycamp s' = r_bycamp s /\ r_grants s' = r_grants s /\ r_now s' = r_now s /\
  (0 < cm_cap c -> stat_get (r_stats s) (cm_uid c) rcv < cm_cap c).
Proof.
  unfold cap_step. intros H. destruct (0 <? cm_cap c) eqn:E.
  - destruct (cm_cap c <=? stat_get (r_stats s) (cm_uid c) rcv) eqn:E2; [discriminate|]. inv H.
    apply Z.leb_gt in E2. repeat split; try reflexivity. intros _. exact E2.
  - inv H. apply Z.ltb_ge in E. repeat split; try reflexivity. lia.
Qed.

(* ---- grant: full inversion ------------------------------------------------------------------------------------ *)
Definition find_reward (l : list reward) (uid : Z) : option reward := findb (fun r => rw_uid r =? uid) l.

Lemma find_reward_snoc_new l r : existsb (fun x => rw_uid x =? rw_uid r) l = false ->
  find_reward (l ++ [r]) (rw_uid r) = Some r.
Proof.
  unfold find_reward, findb. induction l as [|x t IH]; cbn [existsb app find].
  - intros _. rewrite Z.eqb_refl. reflexivity.
  - intros H. apply orb_false_iff in H. destruct H as (H1 & H2). rewrite H1. apply IH. exact H2.
Qed.

Inductive grant_facts (s s' : rstate) (signer : Z) (tk : ticket) (uid camp : Z) (hk : bool) (ky : kyc)
       (rcv src bet : Z) : Prop :=
| GF (gf_c : campaign) (gf_rc : recv) (gf_s3 : rstate) (gf_puid : Z) (gf_p : promoter)
  (gf_fresh : existsb (fun r => rw_uid r =? uid) (r_rewards s) = false)
  (gf_find : find_camp (r_camps s) camp = Some gf_c)
  (gf_active : cm_active gf_c = true)
  (gf_window : cm_start gf_c <= r_now s <= cm_end gf_c)
  (gf_ticket : rticket_ok s tk = true)
  (gf_kyc : hk = true /\ kyc_ok ky rcv = true /\ addr_valid rcv = true)
  (gf_spec : recv_spec s gf_c rcv bet gf_rc)
  (gf_cap : 0 < cm_cap gf_c -> stat_get (r_stats s) (cm_uid gf_c) rcv < cm_cap gf_c)
  (gf_prom : prom_of_addr (r_promaddr s) (cm_promoter gf_c) = Some gf_puid /\ find_prom (r_proms s) gf_puid = Some gf_p)
  (gf_catcap : forall cap, In (cm_cat gf_c, cap) (pm_conf gf_p) ->
                count_bycat (r_bycat s) gf_puid rcv (cm_cat gf_c) < cap)
  (gf_avail : rc_total gf_rc <= cm_avail gf_c)
  (gf_pool : rwf s -> bget (r_bank gf_s3) REWARDPOOL =
            bget (r_bank s) REWARDPOOL - pos_part (ra_sub (rc_amt gf_rc)) - pos_part (ra_main (rc_amt gf_rc)))
  (gf_wf : rwf s -> rwf gf_s3)
  (gf_camps3 : r_camps gf_s3 = r_camps s)
  (gf_bets3 : r_bets gf_s3 = r_bets s)
  (gf_promaddr3 : r_promaddr gf_s3 = r_promaddr s)
  (gf_rewards3 : r_rewards gf_s3 = r_rewards s)
  (gf_proms3 : r_proms gf_s3 = r_proms s)
  (gf_final : s' = set_rewards (set_camps gf_s3 (upd (fun x => cm_uid x =? camp)
                     (camp_pool gf_c (cm_total gf_c) (cm_spent gf_c + rc_total gf_rc) (cm_withdrawn gf_c)
                                (cm_active gf_c) (cm_end gf_c)) (r_camps gf_s3)))
                   (r_rewards gf_s3 ++ [{| rw_uid := uid; rw_creator := signer; rw_receiver := rcv; rw_camp := camp;
                                           rw_amt := rc_amt gf_rc; rw_source := src |}])
                   (r_bycat gf_s3 ++ [{| bc_prom := gf_puid; bc_addr := rcv; bc_cat := cm_cat gf_c; bc_uid := uid |}])
                   (r_bycamp gf_s3 ++ [(camp, uid)])).

Lemma existsb_cap_false (conf : list (Z * Z)) cat n :
  existsb (fun cc => (fst cc =? cat) && (snd cc <=? n)) conf = false ->
  forall cap, In (cat, cap) conf -> n < cap.
Proof.
  intros H cap Hin. rewrite <- not_true_iff_false in H.
  destruct (Z_lt_dec n cap) as [L|G]; [exact L|]. exfalso. apply H.
  apply existsb_exists. exists (cat, cap). split; [exact Hin|]. cbn [fst snd].
  rewrite Z.eqb_refl. cbn. apply Z.leb_le. lia.
Qed.

Lemma grant_reward_inv s signer tk uid camp hk ky rcv src peer bet s' :
  grant_reward s signer tk uid camp hk ky rcv src peer bet = Some s' ->
  grant_facts s s' signer tk uid camp hk ky rcv src bet.
Proof.
  unfold grant_reward. intros H.
  destruct ((uid <? 0) || (camp <? 0)); [discriminate|].
  destruct (existsb (fun r => rw_uid r =? uid) (r_rewards s)) eqn:EF; [discriminate|].
  destruct (find_camp (r_camps s) camp) as [c|] eqn:EC; [|discriminate].
  destruct (cm_active c) eqn:EA; [|discriminate]. cbn [negb] in H.
  destruct ((cm_end c <? r_now s) || (r_now s <? cm_start c)) eqn:EW; [discriminate|].
  apply orb_false_iff in EW. destruct EW as (EW1 & EW2). apply Z.ltb_ge in EW1, EW2.
  destruct (calculate s c signer tk hk ky rcv src peer bet) as [[s1 rc]|] eqn:ECalc; [|discriminate].
  destruct (calculate_frame _ _ _ _ _ _ _ _ _ _ _ _ ECalc) as (F1 & B1 & W1 & Tk & Hk & Ky & Av & Spec).
  destruct (cap_step s1 c rcv) as [s2|] eqn:ECap; [|discriminate].
  destruct (cap_step_frame _ _ _ _ ECap) as (C1&C2&C3&C4&C5&C6&C7&C8&C9&C10&C11&C12&CapOk).
  destruct (prom_of_addr (r_promaddr s2) (cm_promoter c)) as [puid|] eqn:EP; [|discriminate].
  destruct (find_prom (r_proms s2) puid) as [p|] eqn:EPr; [|discriminate].
  destruct (existsb _ (pm_conf p)) eqn:ECC; [discriminate|].
  destruct (cm_avail c <? rc_total rc) eqn:EAv; [discriminate|]. apply Z.ltb_ge in EAv.
  destruct (distribute s2 rc) as [s3|] eqn:ED; [|discriminate].
  assert (W2 : rwf s -> rwf s2).
  { intros Ws. destruct (W1 Ws) as (A&B&C&D). unfold rwf. rewrite C1, C2, C8, C9. repeat split; assumption. }
  destruct (distribute_frame _ _ _ ED) as (F3 & WB3).
  destruct F1 as (G1&G2&G3&G4&G5&G6&G7&G8&G9&G10&G11).
  destruct F3 as (H1&H2&H3&H4&H5&H6&H7&H8&H9&H10&H11).
  inv H.
  apply (GF _ _ _ _ _ _ _ _ _ _ _ c rc s3 puid p); try assumption; try reflexivity.
  - lia.
  - repeat split; assumption.
  - rewrite G5 in CapOk. exact CapOk.
  - rewrite C2, G2 in EP. rewrite C3, G3 in EPr. split; assumption.
  - rewrite C4, G4 in ECC. apply existsb_cap_false. exact ECC.
  - intros W. destruct (WB3 (W2 W)) as (_ & B3). rewrite B3, C7, B1. reflexivity.
  - intros W. destruct (WB3 (W2 W)) as (W3 & _). exact W3.
  - rewrite H1, C1, G1. reflexivity.
  - rewrite H7, C6, G7. reflexivity.
  - rewrite H2, C2, G2. reflexivity.
  - rewrite H6, C5, G6. reflexivity.
  - rewrite H3, C3, G3. reflexivity.
  - rewrite EA. reflexivity.
Qed.

(* ---- preservation of well-formedness ------------------------------------------------------------------------ *)
Lemma rwf_set_bank s b : rwf s -> rwf (set_bank s b). Proof. exact (fun H => H). Qed.
Lemma rwf_set_grants s g : rwf s -> rwf (set_grants s g). Proof. exact (fun H => H). Qed.
Lemma rwf_set_stats s g : rwf s -> rwf (set_stats s g). Proof. exact (fun H => H). Qed.
Lemma rwf_set_bets s g : rwf s -> rwf (set_bets s g). Proof. exact (fun H => H). Qed.
Lemma rwf_set_rewards s a b c : rwf s -> rwf (set_rewards s a b c). Proof. exact (fun H => H). Qed.
Lemma rwf_set_time s a b c : rwf s -> rwf (set_time s a b c). Proof. exact (fun H => H). Qed.

Lemma camp_pool_promoter c t sp w a e : cm_promoter (camp_pool c t sp w a e) = cm_promoter c.
Proof. reflexivity. Qed.
Lemma camp_pool_amt c t sp w a e : cm_amt (camp_pool c t sp w a e) = cm_amt c.
Proof. reflexivity. Qed.
Lemma camp_pool_avail c t sp w a e : cm_avail (camp_pool c t sp w a e) = t - w - sp.
Proof. reflexivity. Qed.

Lemma prom_of_addr_in l a u : prom_of_addr l a = Some u -> exists x, In x l /\ fst x = a.
Proof.
  unfold prom_of_addr. destruct (findb (fun x => fst x =? a) l) as [x|] eqn:E; [|discriminate].
  intros _. apply findb_some_in in E. destruct E as (Hin & Hf). apply Z.eqb_eq in Hf. exists x. split; assumption.
Qed.

Lemma signer_ok_nonneg a : signer_ok a = true -> 0 <= a.
Proof. unfold signer_ok. intros H. apply andb_true_iff in H. destruct H as (H & _). apply Z.leb_le in H. exact H. Qed.

(* ---- one step --------------------------------------------------------------------------------------------------- *)
Ltac proj_simpl := cbn [r_camps r_bank r_bets r_promaddr r_subs r_subnext r_proms r_rewards r_bycat r_bycamp r_stats r_grants
  set_camps set_grants set_bank set_rewards set_subs set_stats set_bets set_time set_proms].

(* what one successful operation guarantees, given a well-formed state; og = the operation's guard *)
Definition step_ok (s s' : rstate) (og : Prop) : Prop :=
  rwf s' /\ (avail_nonneg s -> avail_nonneg s') /\ (og -> sguard s -> sguard s') /\
  (og -> sguard s -> pool_eq s -> pool_eq s').

Lemma step_ok_same s s' og :
  r_camps s' = r_camps s -> r_bets s' = r_bets s -> bget (r_bank s') REWARDPOOL = bget (r_bank s) REWARDPOOL ->
  rwf s' -> step_ok s s' og.
Proof.
  intros C B P W. unfold step_ok, avail_nonneg, sguard, pool_eq. rewrite C, B, P.
  split; [exact W|]. split; [tauto|]. split; tauto.
Qed.

Lemma create_campaign_ok s sg tk uid total prom st en cat ty at_ ra act cap cn s' :
  create_campaign s sg tk uid total prom st en cat ty at_ ra act cap cn = Some s' -> rwf s ->
  step_ok s s' (oguard (RCreateCampaign sg tk uid total prom st en cat ty at_ ra act cap cn)).
Proof.
  unfold create_campaign. intros H (W1 & W2 & W3 & W4).
  destruct ((uid <? 0) || (total <=? 0)) eqn:E0; [discriminate|].
  apply orb_false_iff in E0. destruct E0 as (_ & Etot). apply Z.leb_gt in Etot.
  destruct (find_camp (r_camps s) uid); [discriminate|].
  destruct (negb (rticket_ok s tk)); [discriminate|].
  destruct ((st <? 0) || (en <? 0) || (cap <? 0)); [discriminate|].
  destruct (prom_of_addr (r_promaddr s) prom) as [pu|] eqn:EP; [|discriminate].
  destruct (authorize s sg prom GK_CREATE total) as [grants|]; [|discriminate].
  destruct ra as [ra|]; [|discriminate].
  destruct (rp_unlock ra <? 0); [discriminate|].
  destruct (payload_valid (r_now s) st en cat ty at_ ra) eqn:EV; [|discriminate]. cbn [negb] in H.
  apply payload_valid_nonneg in EV. destruct EV as (O1 & O2 & O3 & O4).
  destruct (total <? opt_z (rp_main ra) + opt_z (rp_sub ra)); [discriminate|].
  destruct (PREC <=? opt_z (rp_mainpct ra) + opt_z (rp_subpct ra)); [discriminate|].
  destruct (negb (validate_campaign cat ty at_ ra cn)); [discriminate|].
  destruct (fund_pool (r_bank s) prom total) as [b|] eqn:EF; [|discriminate]. inv H.
  destruct (prom_of_addr_in _ _ _ EP) as (x & Hin & Hx).
  pose proof (Forall_in _ _ _ W2 Hin) as Hp. cbn beta in Hp. rewrite Hx in Hp.
  split; [|split; [|split]].
  - repeat split; cbn; try assumption. apply Forall_snoc; [exact W1|cbn; exact Hp].
  - intros A. unfold avail_nonneg. cbn. apply Forall_snoc; [exact A|unfold cm_avail; cbn; lia].
  - intros _ (G1 & G2). split; cbn; [|exact G2].
    apply Forall_snoc; [exact G1|]. unfold amt_nonneg. cbn. repeat split; apply opt_z_nonneg; assumption.
  - intros _ _ P. unfold pool_eq. proj_simpl. rewrite camps_sum_snoc. unfold cm_avail. cbn [cm_total cm_withdrawn cm_spent].
    rewrite (fund_pool_get _ _ _ _ EF Hp).
    rewrite P. lia.
Qed.

Lemma update_campaign_ok s sg tk uid topup en act s' og :
  update_campaign s sg tk uid topup en act = Some s' -> rwf s -> step_ok s s' og.
Proof.
  unfold update_campaign. intros H (W1 & W2 & W3 & W4).
  destruct (uid <? 0); [discriminate|].
  destruct (negb (rticket_ok s tk)); [discriminate|].
  destruct (en <? 0); [discriminate|].
  destruct (en <? r_now s); [discriminate|].
  destruct (find_camp (r_camps s) uid) as [c|] eqn:EC; [|discriminate].
  destruct (negb (cm_active c)); [discriminate|].
  destruct (authorize s sg (cm_promoter c) GK_UPDATE topup) as [grants|]; [|discriminate].
  pose proof EC as EC'. unfold find_camp in EC'. apply findb_some_in in EC'. destruct EC' as (Hin & _).
  pose proof (Forall_in _ _ _ W1 Hin) as Hp. cbn beta in Hp.
  unfold find_camp in EC.
  destruct (0 <? topup) eqn:ET.
  - destruct (fund_pool (r_bank s) (cm_promoter c) topup) as [b|] eqn:EF; [|discriminate]. inv H.
    apply Z.ltb_lt in ET.
    split; [|split; [|split]].
    + repeat split; cbn; try assumption. apply Forall_upd; [exact W1|cbn; exact Hp].
    + intros A. unfold avail_nonneg. cbn. apply Forall_upd; [exact A|].
      rewrite camp_pool_avail. pose proof (Forall_in _ _ _ A Hin) as Ha. cbn beta in Ha. unfold cm_avail in Ha. lia.
    + intros _ (G1 & G2). split; cbn; [|exact G2]. apply Forall_upd; [exact G1|].
      rewrite camp_pool_amt. apply (Forall_in _ _ _ G1 Hin).
    + intros _ _ P. unfold pool_eq. proj_simpl. rewrite (camps_sum_upd _ _ _ _ EC). rewrite camp_pool_avail.
      rewrite (fund_pool_get _ _ _ _ EF Hp). rewrite P. unfold cm_avail. lia.
  - inv H. split; [|split; [|split]].
    + repeat split; cbn; try assumption. apply Forall_upd; [exact W1|cbn; exact Hp].
    + intros A. unfold avail_nonneg. cbn. apply Forall_upd; [exact A|].
      rewrite camp_pool_avail. pose proof (Forall_in _ _ _ A Hin) as Ha. cbn beta in Ha. unfold cm_avail in Ha. lia.
    + intros _ (G1 & G2). split; cbn; [|exact G2]. apply Forall_upd; [exact G1|].
      rewrite camp_pool_amt. apply (Forall_in _ _ _ G1 Hin).
    + intros _ _ P. unfold pool_eq. proj_simpl. rewrite (camps_sum_upd _ _ _ _ EC). rewrite camp_pool_avail.
      rewrite P. unfold cm_avail. lia.
Qed.

Lemma withdraw_funds_ok s sg tk uid amount prom s' og :
  withdraw_funds s sg tk uid amount prom = Some s' -> rwf s -> step_ok s s' og.
Proof.
  unfold withdraw_funds. intros H (W1 & W2 & W3 & W4).
  destruct (uid <? 0); [discriminate|].
  destruct (negb (rticket_ok s tk)); [discriminate|].
  destruct (negb (addr_valid prom)); [discriminate|].
  destruct (find_camp (r_camps s) uid) as [c|] eqn:EC; [|discriminate].
  destruct (negb (prom =? cm_promoter c)); [discriminate|].
  destruct (authorize s sg (cm_promoter c) GK_RWITHDRAW amount) as [grants|]; [|discriminate].
  destruct (cm_avail c <=? 0); [discriminate|].
  destruct (cm_avail c <? amount) eqn:EA; [discriminate|]. apply Z.ltb_ge in EA.
  destruct (refund_pool (r_bank s) prom amount) as [b|] eqn:ER; [|discriminate]. inv H.
  destruct (refund_pool_get _ _ _ _ ER) as (Hb & Ha).
  pose proof EC as EC'. unfold find_camp in EC'. apply findb_some_in in EC'. destruct EC' as (Hin & _).
  pose proof (Forall_in _ _ _ W1 Hin) as Hp. cbn beta in Hp.
  unfold find_camp in EC.
  split; [|split; [|split]].
  - repeat split; cbn; try assumption. apply Forall_upd; [exact W1|cbn; exact Hp].
  - intros A. unfold avail_nonneg. cbn. apply Forall_upd; [exact A|].
    rewrite camp_pool_avail. unfold cm_avail in EA. lia.
  - intros _ (G1 & G2). split; cbn; [|exact G2]. apply Forall_upd; [exact G1|].
    rewrite camp_pool_amt. apply (Forall_in _ _ _ G1 Hin).
  - intros _ _ P. unfold pool_eq. proj_simpl. rewrite (camps_sum_upd _ _ _ _ EC). rewrite camp_pool_avail.
    rewrite Hb, P. unfold cm_avail. lia.
Qed.

Lemma grant_reward_ok s signer tk uid camp hk ky rcv src peer bet s' og :
  grant_reward s signer tk uid camp hk ky rcv src peer bet = Some s' -> rwf s -> step_ok s s' og.
Proof.
  intros H W. destruct (grant_reward_inv _ _ _ _ _ _ _ _ _ _ _ _ H) as
    [c rc s3 puid p Fresh Find Act Win Tk Ky Spec Cap Prom CatCap Avail Pool Wf3 Camps3 Bets3 PA3 Rw3 Pr3 Final].
  pose proof Find as Find'. unfold find_camp in Find'. apply findb_some_in in Find'. destruct Find' as (Hin & _).
  destruct (Wf3 W) as (X1 & X2 & X3 & X4).
  subst s'. split; [|split; [|split]].
  - repeat split; cbn; try assumption. apply Forall_upd; [exact X1|].
    rewrite camp_pool_promoter. rewrite Camps3 in X1. apply (Forall_in _ _ _ X1 Hin).
  - intros A. unfold avail_nonneg. cbn. rewrite Camps3. apply Forall_upd; [exact A|].
    rewrite camp_pool_avail. unfold cm_avail in Avail. lia.
  - intros _ (G1 & G2). split; cbn.
    + rewrite Camps3. apply Forall_upd; [exact G1|]. rewrite camp_pool_amt. apply (Forall_in _ _ _ G1 Hin).
    + rewrite Bets3. exact G2.
  - intros _ G P. unfold pool_eq. proj_simpl. rewrite Camps3. unfold find_camp in Find.
    rewrite (camps_sum_upd _ _ _ _ Find). rewrite camp_pool_avail. rewrite (Pool W), P.
    destruct (recv_spec_nonneg _ _ _ _ _ Spec G Hin) as (N1 & N2).
    unfold rc_total, cm_avail, pos_part.
    destruct (0 <? ra_sub (rc_amt rc)) eqn:E1; destruct (0 <? ra_main (rc_amt rc)) eqn:E2;
      try apply Z.ltb_ge in E1; try apply Z.ltb_ge in E2; lia.
Qed.

Lemma create_promoter_ok s sg tk uid conf s' og : create_promoter s sg tk uid conf = Some s' -> 0 <= sg -> rwf s ->
  step_ok s s' og.
Proof.
  unfold create_promoter. intros H Hs (W1 & W2 & W3 & W4). dmatch H. inv H.
  apply step_ok_same; try reflexivity.
  repeat split; cbn; try assumption. apply Forall_upd; [exact W2|cbn; exact Hs].
Qed.

Lemma set_promoter_conf_ok s sg tk uid conf s' og : set_promoter_conf s sg tk uid conf = Some s' -> rwf s -> step_ok s s' og.
Proof. unfold set_promoter_conf. intros H W. dmatch H. inv H. apply step_ok_same; try reflexivity. exact W. Qed.

Lemma create_sub_inv s creator owner locks s1 sa : create_sub s creator owner locks = Some (s1, sa) -> 0 <= creator -> rwf s ->
  sub_frame s s1 /\ bget (r_bank s1) REWARDPOOL = bget (r_bank s) REWARDPOOL /\ rwf s1.
Proof.
  unfold create_sub. intros H Hc (W1 & W2 & W3 & W4). dmatch H. inv H. split; [repeat split|split].
  - cbn. match goal with E : rpay _ _ _ _ = Some _ |- _ => apply (rpay_other _ _ _ _ _ REWARDPOOL E) end;
      unfold REWARDPOOL, SUBBASE; lia.
  - repeat split; cbn; try assumption; [|lia]. apply Forall_snoc; [exact W3|cbn; exact W4].
Qed.

Lemma sub_create_ok s sg owner locks s' og : sub_create s sg owner locks = Some s' -> 0 <= sg -> rwf s -> step_ok s s' og.
Proof.
  unfold sub_create. intros H Hs W.
  destruct (negb (addr_valid owner)); [discriminate|].
  destruct (existsb _ locks); [discriminate|].
  destruct (create_sub s sg owner locks) as [[s1 sa]|] eqn:E; [|discriminate]. inv H.
  destruct (create_sub_inv _ _ _ _ _ _ E Hs W) as (F & B & W').
  apply step_ok_same; try assumption; apply F.
Qed.

Lemma do_rsend_ok s from to amt s' og : do_rsend s from to amt = Some s' -> 0 <= from -> rwf s -> step_ok s s' og.
Proof.
  unfold do_rsend. intros H Hf W.
  destruct (amt <=? 0); [discriminate|].
  destruct (negb (addr_valid to)); [discriminate|].
  destruct (blocked to) eqn:EB; [discriminate|]. unfold blocked in EB. apply Z.ltb_ge in EB.
  destruct (rpay (r_bank s) from to amt) as [b|] eqn:EP; [|discriminate]. inv H.
  apply step_ok_same; try reflexivity; [|exact W].
  cbn. apply (rpay_other _ _ _ _ _ REWARDPOOL EP); unfold REWARDPOOL; lia.
Qed.

Lemma sync_bal_ok s a v s' og : sync_bal s a v = Some s' -> rwf s -> step_ok s s' og.
Proof.
  unfold sync_bal. intros H W. destruct (signer_ok a) eqn:E; [|discriminate]. inv H.
  apply step_ok_same; try reflexivity; [|exact W].
  cbn. apply rbget_badd_other. apply signer_ok_nonneg in E. unfold REWARDPOOL. lia.
Qed.

Lemma sync_bet_ok s uid cr amt res main s' : sync_bet s uid cr amt res main = Some s' -> rwf s ->
  step_ok s s' (oguard (RSyncBet uid cr amt res main)).
Proof.
  unfold sync_bet. intros H W. destruct (uid <? 0); [discriminate|]. inv H.
  unfold step_ok, avail_nonneg, sguard, pool_eq. proj_simpl.
  split; [exact W|]. split; [tauto|]. split; [|tauto].
  cbn [oguard]. intros Ha (G1 & G2). split; [exact G1|]. apply Forall_upd; [exact G2|cbn; exact Ha].
Qed.

Lemma do_rgrant_ok s a b k l e s' og : do_rgrant s a b k l e = Some s' -> rwf s -> step_ok s s' og.
Proof. unfold do_rgrant. intros H W. dmatch H; inv H; apply step_ok_same; try reflexivity; exact W. Qed.

Lemma do_rrevoke_ok s a b k s' og : do_rrevoke s a b k = Some s' -> rwf s -> step_ok s s' og.
Proof. unfold do_rrevoke. intros H W. dmatch H. inv H. apply step_ok_same; try reflexivity. exact W. Qed.

(* every step, successful or not *)
Lemma rstep_ok s o : rwf s -> step_ok s (fst (rstep s o)) (oguard o).
Proof.
  intros W.
  assert (Same : step_ok s s (oguard o)) by (apply step_ok_same; try reflexivity; exact W).
  destruct o; cbn [rstep]; unfold signed;
    try (match goal with |- context [signer_ok ?a] => destruct (signer_ok a) eqn:ES; [apply signer_ok_nonneg in ES|exact Same] end).
  - cbn [fst]. apply step_ok_same; try reflexivity. exact W.
  - exact Same.
  - destruct (create_promoter s signer tk uid conf) eqn:E; [|exact Same]. eapply create_promoter_ok; eassumption.
  - destruct (set_promoter_conf s signer tk uid conf) eqn:E; [|exact Same]. eapply set_promoter_conf_ok; eassumption.
  - destruct (create_campaign s signer tk uid total prom start end_ cat ty atype ra active cap constr) eqn:E; [|exact Same].
    eapply create_campaign_ok; eassumption.
  - destruct (update_campaign s signer tk uid topup end_ active) eqn:E; [|exact Same]. eapply update_campaign_ok; eassumption.
  - destruct (withdraw_funds s signer tk uid amount prom) eqn:E; [|exact Same]. eapply withdraw_funds_ok; eassumption.
  - destruct (grant_reward s signer tk uid camp haskyc ky receiver source peer betuid) eqn:E; [|exact Same].
    eapply grant_reward_ok; eassumption.
  - destruct (do_rgrant s granter grantee kind limit exp) eqn:E; [|exact Same]. eapply do_rgrant_ok; eassumption.
  - destruct (do_rrevoke s granter grantee kind) eqn:E; [|exact Same]. eapply do_rrevoke_ok; eassumption.
  - destruct (sync_bet s uid creator amount result main) eqn:E; [|exact Same]. eapply sync_bet_ok; eassumption.
  - destruct (sync_bal s a v) eqn:E; [|exact Same]. eapply sync_bal_ok; eassumption.
  - destruct (sub_create s signer owner locks) eqn:E; [|exact Same]. eapply sub_create_ok; eassumption.
  - destruct (do_rsend s from to amt) eqn:E; [|exact Same]. eapply do_rsend_ok; eassumption.
Qed.

(* ---- histories ------------------------------------------------------------------------------------------------- *)
Lemma rrun_cons s o ops : rrun s (o :: ops) = rrun (fst (rstep s o)) ops.
Proof. reflexivity. Qed.

Lemma rrun_wf ops : forall s, rwf s -> rwf (rrun s ops).
Proof.
  induction ops as [|o r IH]; intros s W; [exact W|]. rewrite rrun_cons. apply IH.
  destruct (rstep_ok s o W) as (W' & _). exact W'.
Qed.

(* (b) no campaign's available amount ever becomes negative *)
Lemma rrun_avail_nonneg ops : forall s, rwf s -> avail_nonneg s -> avail_nonneg (rrun s ops).
Proof.
  induction ops as [|o r IH]; intros s W A; [exact A|]. rewrite rrun_cons.
  destruct (rstep_ok s o W) as (W' & A' & _). apply IH; [exact W'|exact (A' A)].
Qed.

(* (a): the pool balance equals the sum of availables; the only hypothesis about operations is oguard (RSYNCBET amounts) *)
Lemma rrun_pool_partial ops : forall s, Forall oguard ops -> rinv s -> sguard s ->
  rinv (rrun s ops) /\ sguard (rrun s ops).
Proof.
  induction ops as [|o r IH]; intros s G (P & W) S; [split; [split|]; assumption|].
  inversion G as [|? ? Go Gr]; subst. rewrite rrun_cons.
  destruct (rstep_ok s o W) as (W' & _ & S' & P').
  apply IH; [exact Gr|split; [exact (P' Go S P)|exact W']|exact (S' Go S)].
Qed.

(* the full invariant of C12's first clause: pool equation + well-formedness + "stored components are not negative" *)
Definition cinv (s : rstate) : Prop := pool_eq s /\ rwf s /\ sguard s.

Lemma rrun_pool ops : forall s, Forall oguard ops -> cinv s -> cinv (rrun s ops).
Proof.
  intros s G (P & W & S). destruct (rrun_pool_partial ops s G (conj P W) S) as ((P' & W') & S').
  split; [exact P'|split; [exact W'|exact S']].
Qed.

Lemma rinit_wf bk t l : rwf (rinit bk t l).
Proof. unfold rwf. cbn. split; [constructor|]. split; [constructor|]. split; [constructor|]. lia. Qed.

Lemma rinit_inv bk t l : bget bk REWARDPOOL = 0 -> rinv (rinit bk t l) /\ sguard (rinit bk t l) /\ avail_nonneg (rinit bk t l).
Proof.
  intros H. split; [split; [exact H|apply rinit_wf]|]. split; [split; constructor|constructor].
Qed.

(* the history that refuted the pool equation before the repair of CreateCampaignPayload.Validate (finding D7, /repo
   commit f6ab6fd): a sign-up campaign with main = -5 next to sub = 10.  Kept as a regression witness. *)
Definition wit_tk : ticket := {| tk_signer := 0; tk_exp := 100000 |}.
Definition wit_state : rstate := rinit [(0, 1000000); (1, 1000000)] 100 0.
Definition wit_ops : list rop :=
  [ RBegin 101;
    RCreatePromoter 0 wit_tk 0 [];
    RCreateCampaign 0 wit_tk 0 1000 0 0 1000 CAT_SIGNUP RT_SIGNUP AT_FIXED
      (Some {| rp_main := Some (-5); rp_sub := Some 10; rp_unlock := 10; rp_mainpct := None; rp_subpct := None |})
      true 0 None;
    RGrant 1 wit_tk 0 0 true {| ky_ignore := true; ky_approved := false; ky_id := -100 |} 1 0 0 (-1);
    REnd ].

(* ---- (c) a reward uid is granted at most once ------------------------------------------------------------------- *)
Lemma find_reward_none l uid : existsb (fun r => rw_uid r =? uid) l = false -> find_reward l uid = None.
Proof.
  unfold find_reward, findb. induction l as [|x t IH]; cbn [existsb find]; [reflexivity|].
  intros H. apply orb_false_iff in H. destruct H as (H1 & H2). rewrite H1. apply IH. exact H2.
Qed.

Lemma rstep_grant_some s sg tk uid camp hk ky rcv src peer bet s' :
  rstep s (RGrant sg tk uid camp hk ky rcv src peer bet) = (s', ROk) ->
  signer_ok sg = true /\ grant_reward s sg tk uid camp hk ky rcv src peer bet = Some s'.
Proof.
  cbn [rstep]. unfold signed. destruct (signer_ok sg); [|cbn; discriminate].
  destruct (grant_reward s sg tk uid camp hk ky rcv src peer bet); cbn; intros H; inv H. split; reflexivity.
Qed.

Lemma grant_once s sg tk uid camp hk ky rcv src peer bet s' :
  rstep s (RGrant sg tk uid camp hk ky rcv src peer bet) = (s', ROk) ->
  find_reward (r_rewards s) uid = None /\
  exists rw, find_reward (r_rewards s') uid = Some rw /\ rw_receiver rw = rcv /\ rw_camp rw = camp /\ rw_creator rw = sg.
Proof.
  intros H. apply rstep_grant_some in H. destruct H as (_ & H).
  destruct (grant_reward_inv _ _ _ _ _ _ _ _ _ _ _ _ H) as
    [c rc s3 puid p Fresh Find Act Win Tk Ky Spec Cap Prom CatCap Avail Pool Wf3 Camps3 Bets3 PA3 Rw3 Pr3 Final].
  split; [apply find_reward_none; exact Fresh|].
  subst s'. proj_simpl. rewrite Rw3.
  eexists. split; [|split; [|split]].
  - match goal with |- find_reward (_ ++ [?r]) _ = _ => apply (find_reward_snoc_new _ r) end. exact Fresh.
  - reflexivity.
  - reflexivity.
  - reflexivity.
Qed.

(* a failed grant changes nothing (atomicity), hence a second grant with the same uid is a no-op *)
Lemma grant_replay_rejected s sg tk uid camp hk ky rcv src peer bet :
  find_reward (r_rewards s) uid <> None ->
  rstep s (RGrant sg tk uid camp hk ky rcv src peer bet) = (s, RErr).
Proof.
  intros H. cbn [rstep]. unfold signed. destruct (signer_ok sg); [|reflexivity].
  unfold grant_reward. destruct ((uid <? 0) || (camp <? 0)); [reflexivity|].
  destruct (existsb (fun r => rw_uid r =? uid) (r_rewards s)) eqn:E; [reflexivity|].
  exfalso. apply H. apply find_reward_none. exact E.
Qed.

(* ---- (d) what a successful grant satisfied --------------------------------------------------------------------- *)
Lemma grant_guard s sg tk uid camp hk ky rcv src peer bet s' :
  rstep s (RGrant sg tk uid camp hk ky rcv src peer bet) = (s', ROk) ->
  exists c rw puid p,
    find_camp (r_camps s) camp = Some c /\ cm_active c = true /\ cm_start c <= r_now s <= cm_end c /\
    rticket_ok s tk = true /\ hk = true /\ kyc_ok ky rcv = true /\
    find_reward (r_rewards s') uid = Some rw /\ rw_receiver rw = rcv /\ rw_camp rw = camp /\
    recv_spec s c rcv bet {| rc_main := rcv; rc_subaddr := 0; rc_amt := rw_amt rw |} /\
    ra_main (rw_amt rw) + ra_sub (rw_amt rw) <= cm_total c - cm_withdrawn c - cm_spent c /\
    (0 < cm_cap c -> stat_get (r_stats s) (cm_uid c) rcv < cm_cap c) /\
    prom_of_addr (r_promaddr s) (cm_promoter c) = Some puid /\ find_prom (r_proms s) puid = Some p /\
    (forall cap, In (cm_cat c, cap) (pm_conf p) -> count_bycat (r_bycat s) puid rcv (cm_cat c) < cap) /\
    find_camp (r_camps s') camp =
      Some (camp_pool c (cm_total c) (cm_spent c + (ra_main (rw_amt rw) + ra_sub (rw_amt rw))) (cm_withdrawn c)
                      (cm_active c) (cm_end c)).
Proof.
  intros H. apply rstep_grant_some in H. destruct H as (_ & H).
  destruct (grant_reward_inv _ _ _ _ _ _ _ _ _ _ _ _ H) as
    [c rc s3 puid p Fresh Find Act Win Tk Ky Spec Cap Prom CatCap Avail Pool Wf3 Camps3 Bets3 PA3 Rw3 Pr3 Final].
  exists c, {| rw_uid := uid; rw_creator := sg; rw_receiver := rcv; rw_camp := camp; rw_amt := rc_amt rc; rw_source := src |},
         puid, p.
  destruct Ky as (K1 & K2 & K3). destruct Prom as (P1 & P2).
  split; [exact Find|]. split; [exact Act|]. split; [exact Win|]. split; [exact Tk|]. split; [exact K1|]. split; [exact K2|].
  split; [subst s'; proj_simpl; rewrite Rw3;
          match goal with |- find_reward (_ ++ [?r]) _ = _ => apply (find_reward_snoc_new _ r) end; exact Fresh|].
  split; [reflexivity|]. split; [reflexivity|].
  split; [destruct Spec as (S1 & S2); split; [reflexivity|exact S2]|].
  split; [exact Avail|]. split; [exact Cap|]. split; [exact P1|]. split; [exact P2|]. split; [exact CatCap|].
  subst s'. proj_simpl. rewrite Camps3. cbn [rw_amt].
  unfold find_camp in *. unfold findb in *.
  clear - Find. induction (r_camps s) as [|x t IH]; cbn [find upd] in *; [discriminate|].
  destruct (cm_uid x =? camp) eqn:E.
  - inv Find. cbn [find]. cbn [cm_uid camp_pool]. rewrite E. reflexivity.
  - cbn [find]. rewrite E. apply IH. exact Find.
Qed.

(* ---- (e) only the promoter or its grantee updates / withdraws, and never more than what is available ---------- *)
Definition authorized (s : rstate) (signer promoter kind : Z) : Prop :=
  signer = promoter \/ exists g, In g (r_grants s) /\ rg_grantee g = signer /\ rg_granter g = promoter /\ rg_kind g = kind.

Lemma authorize_authorized s signer promoter kind amount gs :
  authorize s signer promoter kind amount = Some gs -> authorized s signer promoter kind.
Proof.
  unfold authorize, authorized. destruct (signer =? promoter) eqn:E; [apply Z.eqb_eq in E; left; exact E|].
  unfold use_rgrant. destruct (findb (rgrant_is signer promoter kind) (r_grants s)) as [g|] eqn:EF; [|discriminate].
  intros _. right. exists g. apply findb_some_in in EF. destruct EF as (Hin & Hf).
  unfold rgrant_is in Hf. apply andb_true_iff in Hf. destruct Hf as (Hf & H3). apply andb_true_iff in Hf.
  destruct Hf as (H1 & H2). apply Z.eqb_eq in H1, H2, H3. repeat split; assumption.
Qed.

Lemma update_owner s sg tk uid topup en act s' :
  rstep s (RUpdateCampaign sg tk uid topup en act) = (s', ROk) ->
  exists c, find_camp (r_camps s) uid = Some c /\ cm_active c = true /\ authorized s sg (cm_promoter c) GK_UPDATE /\
            rticket_ok s tk = true.
Proof.
  cbn [rstep]. unfold signed. destruct (signer_ok sg); [|cbn; discriminate].
  destruct (update_campaign s sg tk uid topup en act) as [s1|] eqn:E; cbn; intros H; inv H.
  unfold update_campaign in E.
  destruct (uid <? 0); [discriminate|].
  destruct (rticket_ok s tk) eqn:ETk; [|discriminate]. cbn [negb] in E.
  destruct (en <? 0); [discriminate|].
  destruct (en <? r_now s); [discriminate|].
  destruct (find_camp (r_camps s) uid) as [c|] eqn:EC; [|discriminate].
  destruct (cm_active c) eqn:EA; [|discriminate]. cbn [negb] in E.
  destruct (authorize s sg (cm_promoter c) GK_UPDATE topup) as [gs|] eqn:EAu; [|discriminate].
  exists c. split; [reflexivity|]. split; [exact EA|]. split; [eapply authorize_authorized; exact EAu|reflexivity].
Qed.

Lemma withdraw_owner s sg tk uid amount prom s' :
  rstep s (RWithdraw sg tk uid amount prom) = (s', ROk) ->
  exists c, find_camp (r_camps s) uid = Some c /\ authorized s sg (cm_promoter c) GK_RWITHDRAW /\ prom = cm_promoter c /\
            0 <= amount <= cm_total c - cm_withdrawn c - cm_spent c /\ rticket_ok s tk = true /\
            bget (r_bank s') prom = bget (r_bank s) prom + amount.
Proof.
  cbn [rstep]. unfold signed. destruct (signer_ok sg); [|cbn; discriminate].
  destruct (withdraw_funds s sg tk uid amount prom) as [s1|] eqn:E; cbn; intros H; inv H.
  unfold withdraw_funds in E.
  destruct (uid <? 0); [discriminate|].
  destruct (rticket_ok s tk) eqn:ETk; [|discriminate]. cbn [negb] in E.
  destruct (negb (addr_valid prom)); [discriminate|].
  destruct (find_camp (r_camps s) uid) as [c|] eqn:EC; [|discriminate].
  destruct (prom =? cm_promoter c) eqn:EP; [|discriminate]. cbn [negb] in E. apply Z.eqb_eq in EP.
  destruct (authorize s sg (cm_promoter c) GK_RWITHDRAW amount) as [gs|] eqn:EAu; [|discriminate].
  destruct (cm_avail c <=? 0); [discriminate|].
  destruct (cm_avail c <? amount) eqn:EA; [discriminate|]. apply Z.ltb_ge in EA.
  destruct (refund_pool (r_bank s) prom amount) as [b|] eqn:ER; [|discriminate]. inv E.
  destruct (refund_pool_get _ _ _ _ ER) as (_ & Ha).
  exists c. split; [reflexivity|]. split; [eapply authorize_authorized; exact EAu|]. split; [reflexivity|].
  split; [unfold cm_avail in EA; lia|]. split; [reflexivity|].
  proj_simpl. unfold refund_pool in ER.
  destruct (amount <? 0); [discriminate|]. destruct (blocked (cm_promoter c)) eqn:EB; [discriminate|].
  unfold blocked in EB. apply Z.ltb_ge in EB.
  rewrite (rpay_get _ _ _ _ _ (cm_promoter c) ER) by (unfold REWARDPOOL; lia).
  rewrite Z.eqb_refl. destruct (cm_promoter c =? REWARDPOOL) eqn:EQ; [apply Z.eqb_eq in EQ; unfold REWARDPOOL in EQ; lia|lia].
Qed.

(* ---- concrete histories used as non-vacuity witnesses ------------------------------------------------------------ *)
(* the same history with a non-negative main component *)
Definition good_ops : list rop :=
  [ RBegin 101;
    RCreatePromoter 0 wit_tk 0 [(CAT_SIGNUP, 2)];
    RCreateCampaign 0 wit_tk 0 1000 0 0 1000 CAT_SIGNUP RT_SIGNUP AT_FIXED
      (Some {| rp_main := Some 5; rp_sub := Some 10; rp_unlock := 10; rp_mainpct := None; rp_subpct := None |})
      true 1 None ].
Definition good_grant : rop :=
  RGrant 1 wit_tk 0 0 true {| ky_ignore := true; ky_approved := false; ky_id := -100 |} 1 0 0 (-1).
Definition good_update : rop := RUpdateCampaign 0 wit_tk 0 500 2000 true.
Definition good_withdraw : rop := RWithdraw 0 wit_tk 0 300 0.

Lemma good_ops_guard : Forall oguard (good_ops ++ [good_grant; good_update; good_withdraw; REnd]).
Proof. repeat constructor; cbn; lia. Qed.

Lemma rinit_cinv bk t l : bget bk REWARDPOOL = 0 -> cinv (rinit bk t l).
Proof. intros H. destruct (rinit_inv bk t l H) as ((P & W) & S & _). split; [exact P|split; [exact W|exact S]]. Qed.

Lemma rrun_pool_genesis bk t l ops : bget bk REWARDPOOL = 0 -> Forall oguard ops ->
  bget (r_bank (rrun (rinit bk t l) ops)) REWARDPOOL = camps_sum (r_camps (rrun (rinit bk t l) ops)).
Proof. intros H G. destruct (rrun_pool ops _ G (rinit_cinv bk t l H)) as (P & _). exact P. Qed.

(* a bet-bonus history: percentage campaign, a won main-market bet reported by RSYNCBET, one grant *)
Definition bonus_ops : list rop :=
  [ RBegin 101;
    RCreatePromoter 0 wit_tk 0 [];
    RCreateCampaign 0 wit_tk 7 100000 0 0 1000 CAT_BET_DISCOUNT RT_BET_DISCOUNT AT_PERCENTAGE
      (Some {| rp_main := None; rp_sub := None; rp_unlock := 10; rp_mainpct := Some (PREC / 10); rp_subpct := Some (PREC / 4) |})
      true 0 (Some (Some 500));
    RSyncBet 3 1 2000 BR_WON true ].
Definition bonus_grant : rop :=
  RGrant 0 wit_tk 9 7 true {| ky_ignore := false; ky_approved := true; ky_id := 1 |} 1 0 0 3.

Lemma bonus_ops_guard : Forall oguard (bonus_ops ++ [bonus_grant]).
Proof. repeat constructor; cbn; lia. Qed.

(* ---- promoters: one promoter per address (after /repo commit 6834bf6) ------------------------------------------------ *)
Lemma findb_none_all {A} (f : A -> bool) l : findb f l = None -> forall x, In x l -> f x = false.
Proof. unfold findb. apply find_none. Qed.

Lemma upd_none_snoc {A} (f : A -> bool) v l : findb f l = None -> upd f v l = l ++ [v].
Proof.
  unfold findb. induction l as [|x r IH]; cbn [find upd app]; [reflexivity|].
  destruct (f x); [discriminate|]. intros H. rewrite (IH H). reflexivity.
Qed.

Lemma findb_app_some {A} (f : A -> bool) l l' x : findb f l = Some x -> findb f (l ++ l') = Some x.
Proof.
  unfold findb. induction l as [|y r IH]; cbn [find app]; [discriminate|].
  destruct (f y); [exact (fun H => H)|exact IH].
Qed.

Lemma findb_app_none {A} (f : A -> bool) l l' : findb f l = None -> findb f (l ++ l') = findb f l'.
Proof.
  unfold findb. induction l as [|y r IH]; cbn [find app]; [reflexivity|].
  destruct (f y); [discriminate|exact IH].
Qed.

Lemma In_upd {A} (f : A -> bool) v l x : In x (upd f v l) -> x = v \/ In x l.
Proof.
  induction l as [|y r IH]; cbn [upd].
  - intros [H|[]]. left. symmetry. exact H.
  - destruct (f y).
    + intros [H|H]; [left; symmetry; exact H|right; right; exact H].
    + intros [H|H]; [right; left; exact H|]. destruct (IH H) as [E|E]; [left; exact E|right; right; exact E].
Qed.

Lemma In_upd_keep {A} (f : A -> bool) v l x : In x l -> f x = false -> In x (upd f v l).
Proof.
  induction l as [|y r IH]; cbn [upd]; [intros []|].
  intros [H|H] Hf.
  - subst y. rewrite Hf. left. reflexivity.
  - destruct (f y); [right; exact H|right; apply IH; assumption].
Qed.

Lemma In_upd_new {A} (f : A -> bool) v l : In v (upd f v l).
Proof.
  induction l as [|y r IH]; cbn [upd]; [left; reflexivity|].
  destruct (f y); [left; reflexivity|right; exact IH].
Qed.

Lemma map_upd_same {A B} (g : A -> B) (f : A -> bool) v l p : findb f l = Some p ->
  (forall x, f x = true -> g x = g v) -> map g (upd f v l) = map g l.
Proof.
  unfold findb. intros H Hg. revert H. induction l as [|y r IH]; cbn [find upd map]; [discriminate|].
  destruct (f y) eqn:E; intros H.
  - cbn [map]. rewrite (Hg y E). reflexivity.
  - cbn [map]. rewrite (IH H). reflexivity.
Qed.

Lemma NoDup_snoc {A} (l : list A) x : NoDup l -> ~ In x l -> NoDup (l ++ [x]).
Proof.
  intros Hl Hx. induction Hl as [|y r Hy Hr IH]; cbn [app].
  - constructor; [intros []|constructor].
  - constructor.
    + intros Hin. apply in_app_or in Hin. destruct Hin as [Hin|[Hin|[]]]; [exact (Hy Hin)|].
      apply Hx. left. symmetry. exact Hin.
    + apply IH. intros Hin. apply Hx. right. exact Hin.
Qed.

Lemma NoDup_map_inj_in {A B} (g : A -> B) l x y : NoDup (map g l) -> In x l -> In y l -> g x = g y -> x = y.
Proof.
  induction l as [|z r IH]; cbn [map]; [intros _ []|].
  intros Hnd Hx Hy Hg. inversion Hnd as [|? ? Hz Hr]; subst.
  destruct Hx as [Hx|Hx], Hy as [Hy|Hy].
  - congruence.
  - subst z. exfalso. apply Hz. rewrite Hg. apply in_map. exact Hy.
  - subst z. exfalso. apply Hz. rewrite <- Hg. apply in_map. exact Hx.
  - apply IH; assumption.
Qed.

Lemma prom_of_addr_none l a : prom_of_addr l a = None -> findb (fun x => fst x =? a) l = None.
Proof. unfold prom_of_addr. destruct (findb _ l); [discriminate|reflexivity]. Qed.

Lemma prom_of_addr_some_in l a u : prom_of_addr l a = Some u -> In (a, u) l.
Proof.
  unfold prom_of_addr. destruct (findb (fun x => fst x =? a) l) as [[a' u']|] eqn:E; [|discriminate].
  intros H. inv H. apply findb_some_in in E. destruct E as (Hin & Hf). cbn in Hf. apply Z.eqb_eq in Hf. subst a'. exact Hin.
Qed.

(* promoter uids are unique; an address has one by-address entry; the entry and the promoters' address lists agree *)
Definition punique (s : rstate) : Prop :=
  NoDup (map pm_uid (r_proms s)) /\ NoDup (map fst (r_promaddr s)) /\
  (forall p a, In p (r_proms s) -> In a (pm_addrs p) -> prom_of_addr (r_promaddr s) a = Some (pm_uid p)) /\
  (forall a u, In (a, u) (r_promaddr s) -> exists p, In p (r_proms s) /\ pm_uid p = u /\ In a (pm_addrs p)).

Lemma create_promoter_punique s sg tk uid conf s' : create_promoter s sg tk uid conf = Some s' -> punique s -> punique s'.
Proof.
  unfold create_promoter. intros H (U1 & U2 & U3 & U4).
  destruct (negb (rticket_ok s tk)); [discriminate|].
  destruct (find_prom (r_proms s) uid) eqn:EF; [discriminate|].
  destruct (uid <? 0); [discriminate|]. destruct (negb (conf_valid [] conf)); [discriminate|].
  destruct (prom_of_addr (r_promaddr s) sg) eqn:EP; [discriminate|]. inv H.
  pose proof (prom_of_addr_none _ _ EP) as EN. unfold find_prom in EF.
  unfold punique. proj_simpl. rewrite (upd_none_snoc _ _ _ EN).
  split; [|split; [|split]].
  - rewrite map_app. cbn [map]. apply NoDup_snoc; [exact U1|].
    intros Hin. apply in_map_iff in Hin. destruct Hin as (q & Hq & Hin).
    pose proof (findb_none_all _ _ EF q Hin) as Hf. cbn beta in Hf. apply Z.eqb_neq in Hf. contradiction.
  - rewrite map_app. cbn [map fst]. apply NoDup_snoc; [exact U2|].
    intros Hin. apply in_map_iff in Hin. destruct Hin as (q & Hq & Hin).
    pose proof (findb_none_all _ _ EN q Hin) as Hf. cbn beta in Hf. apply Z.eqb_neq in Hf. contradiction.
  - intros p a Hp Ha. apply in_app_or in Hp. destruct Hp as [Hp|[Hp|[]]].
    + pose proof (U3 p a Hp Ha) as H3. unfold prom_of_addr in *.
      destruct (findb (fun x => fst x =? a) (r_promaddr s)) as [x|] eqn:E; [|discriminate].
      rewrite (findb_app_some _ _ _ _ E). exact H3.
    + subst p. cbn [pm_addrs pm_uid] in *. destruct Ha as [Ha|[]]. subst a.
      unfold prom_of_addr. rewrite (findb_app_none _ _ _ EN). unfold findb. cbn [find fst]. rewrite Z.eqb_refl. reflexivity.
  - intros a u Hin. apply in_app_or in Hin. destruct Hin as [Hin|[Hin|[]]].
    + destruct (U4 a u Hin) as (p & Hp & Hu & Ha). exists p. split; [apply in_or_app; left; exact Hp|split; assumption].
    + inv Hin. eexists. split; [apply in_or_app; right; left; reflexivity|]. cbn. split; [reflexivity|left; reflexivity].
Qed.

Lemma set_promoter_conf_punique s sg tk uid conf s' : set_promoter_conf s sg tk uid conf = Some s' -> punique s -> punique s'.
Proof.
  unfold set_promoter_conf. intros H (U1 & U2 & U3 & U4).
  destruct (uid <? 0); [discriminate|].
  destruct (find_prom (r_proms s) uid) as [p|] eqn:EF; [|discriminate].
  destruct (negb (zmem sg (pm_addrs p))); [discriminate|].
  destruct (negb (rticket_ok s tk)); [discriminate|]. destruct (negb (conf_valid [] conf)); [discriminate|]. inv H.
  unfold find_prom in EF. pose proof (findb_some_in _ _ _ EF) as (Hpin & Hpf). cbn beta in Hpf. apply Z.eqb_eq in Hpf.
  set (p' := {| pm_uid := pm_uid p; pm_creator := pm_creator p; pm_addrs := pm_addrs p; pm_conf := conf |}).
  unfold punique. proj_simpl.
  split; [|split; [|split]].
  - rewrite (map_upd_same pm_uid _ p' _ p EF); [exact U1|].
    intros x Hx. apply Z.eqb_eq in Hx. cbn. congruence.
  - exact U2.
  - intros q a Hq Ha. apply In_upd in Hq. destruct Hq as [Hq|Hq].
    + subst q. cbn [pm_addrs pm_uid p'] in *. exact (U3 p a Hpin Ha).
    + exact (U3 q a Hq Ha).
  - intros a u Hin. destruct (U4 a u Hin) as (q & Hq & Hu & Ha).
    destruct (pm_uid q =? uid) eqn:E.
    + apply Z.eqb_eq in E. assert (q = p) by (apply (NoDup_map_inj_in pm_uid _ _ _ U1 Hq Hpin); congruence). subst q.
      exists p'. split; [apply In_upd_new|]. cbn. split; assumption.
    + exists q. split; [apply In_upd_keep; assumption|split; assumption].
Qed.

(* every other operation leaves the promoter tables alone *)
Lemma rstep_proms_frame s o :
  match o with RCreatePromoter _ _ _ _ | RSetPromoterConf _ _ _ _ => True
  | _ => r_proms (fst (rstep s o)) = r_proms s /\ r_promaddr (fst (rstep s o)) = r_promaddr s end.
Proof.
  destruct o; cbn [rstep]; try exact I; unfold signed;
    try (match goal with |- context [signer_ok ?a] => destruct (signer_ok a); [|split; reflexivity] end).
  - split; reflexivity.
  - split; reflexivity.
  - destruct (create_campaign s signer tk uid total prom start end_ cat ty atype ra active cap constr) eqn:E; [|split; reflexivity].
    cbn [rtx fst]. unfold create_campaign in E.
    destruct ((uid <? 0) || (total <=? 0)); [discriminate|].
    destruct (find_camp (r_camps s) uid); [discriminate|].
    destruct (negb (rticket_ok s tk)); [discriminate|].
    destruct ((start <? 0) || (end_ <? 0) || (cap <? 0)); [discriminate|].
    destruct (prom_of_addr (r_promaddr s) prom); [|discriminate].
    destruct (authorize s signer prom GK_CREATE total); [|discriminate].
    destruct ra as [ra|]; [|discriminate].
    destruct (rp_unlock ra <? 0); [discriminate|].
    destruct (negb (payload_valid (r_now s) start end_ cat ty atype ra)); [discriminate|].
    destruct (total <? opt_z (rp_main ra) + opt_z (rp_sub ra)); [discriminate|].
    destruct (PREC <=? opt_z (rp_mainpct ra) + opt_z (rp_subpct ra)); [discriminate|].
    destruct (negb (validate_campaign cat ty atype ra constr)); [discriminate|].
    destruct (fund_pool (r_bank s) prom total); [|discriminate]. inv E. split; reflexivity.
  - destruct (update_campaign s signer tk uid topup end_ active) eqn:E; [|split; reflexivity].
    cbn [rtx fst]. unfold update_campaign in E. dmatch E; inv E; split; reflexivity.
  - destruct (withdraw_funds s signer tk uid amount prom) eqn:E; [|split; reflexivity].
    cbn [rtx fst]. unfold withdraw_funds in E. dmatch E; inv E; split; reflexivity.
  - destruct (grant_reward s signer tk uid camp haskyc ky receiver source peer betuid) eqn:E; [|split; reflexivity].
    cbn [rtx fst]. destruct (grant_reward_inv _ _ _ _ _ _ _ _ _ _ _ _ E) as
      [c rc s3 puid p Fresh Find Act Win Tk Ky Spec Cap Prom CatCap Avail Pool Wf3 Camps3 Bets3 PA3 Rw3 Pr3 Final].
    subst r. proj_simpl. split; assumption.
  - destruct (do_rgrant s granter grantee kind limit exp) eqn:E; [|split; reflexivity].
    cbn [rtx fst]. unfold do_rgrant in E. dmatch E; inv E; split; reflexivity.
  - destruct (do_rrevoke s granter grantee kind) eqn:E; [|split; reflexivity].
    cbn [rtx fst]. unfold do_rrevoke in E. dmatch E; inv E; split; reflexivity.
  - destruct (sync_bet s uid creator amount result main) eqn:E; [|split; reflexivity].
    cbn [rtx fst]. unfold sync_bet in E. dmatch E; inv E; split; reflexivity.
  - destruct (sync_bal s a v) eqn:E; [|split; reflexivity].
    cbn [rtx fst]. unfold sync_bal in E. dmatch E; inv E; split; reflexivity.
  - destruct (sub_create s signer owner locks) eqn:E; [|split; reflexivity].
    cbn [rtx fst]. unfold sub_create in E.
    destruct (negb (addr_valid owner)); [discriminate|]. destruct (existsb _ locks); [discriminate|].
    destruct (create_sub s signer owner locks) as [[s1 sa]|] eqn:EC; [|discriminate]. inv E.
    unfold create_sub in EC. destruct (existsb _ locks); [discriminate|].
    destruct (sub_by_owner (r_subs s) owner); [discriminate|].
    destruct (rpay (r_bank s) signer (SUBBASE + r_subnext s) (zsum (map snd locks))); [|discriminate].
    inv EC. split; reflexivity.
  - destruct (do_rsend s from to amt) eqn:E; [|split; reflexivity].
    cbn [rtx fst]. unfold do_rsend in E. dmatch E; inv E; split; reflexivity.
Qed.

Lemma punique_frame s s' : r_proms s' = r_proms s -> r_promaddr s' = r_promaddr s -> punique s -> punique s'.
Proof. unfold punique. intros -> ->. exact (fun H => H). Qed.

Lemma rstep_punique s o : punique s -> punique (fst (rstep s o)).
Proof.
  intros U. pose proof (rstep_proms_frame s o) as F.
  destruct o; try (destruct F as (F1 & F2); apply (punique_frame _ _ F1 F2 U)); cbn [rstep]; unfold signed;
    (destruct (signer_ok signer); [|exact U]).
  - destruct (create_promoter s signer tk uid conf) eqn:E; [|exact U]. eapply create_promoter_punique; eassumption.
  - destruct (set_promoter_conf s signer tk uid conf) eqn:E; [|exact U]. eapply set_promoter_conf_punique; eassumption.
Qed.

Lemma rrun_punique ops : forall s, punique s -> punique (rrun s ops).
Proof.
  induction ops as [|o r IH]; intros s U; [exact U|]. rewrite rrun_cons. apply IH. apply rstep_punique. exact U.
Qed.

Lemma rinit_punique bk t l : punique (rinit bk t l).
Proof.
  unfold punique. cbn. split; [constructor|]. split; [constructor|]. split; [intros p a []|intros a u []].
Qed.

(* readable form: over every history from genesis, an address has exactly the promoter its by-address entry names,
   and two promoters never share an address *)
Lemma promoter_unique bk t l ops : let s := rrun (rinit bk t l) ops in
  NoDup (map pm_uid (r_proms s)) /\ NoDup (map fst (r_promaddr s)) /\
  (forall a u, prom_of_addr (r_promaddr s) a = Some u <-> exists p, In p (r_proms s) /\ pm_uid p = u /\ In a (pm_addrs p)) /\
  (forall p q a, In p (r_proms s) -> In q (r_proms s) -> In a (pm_addrs p) -> In a (pm_addrs q) -> p = q).
Proof.
  intros s. destruct (rrun_punique ops _ (rinit_punique bk t l)) as (U1 & U2 & U3 & U4). fold s in U1, U2, U3, U4.
  split; [exact U1|]. split; [exact U2|]. split.
  - intros a u. split.
    + intros H. apply U4. apply prom_of_addr_some_in. exact H.
    + intros (p & Hp & Hu & Ha). rewrite <- Hu. apply U3; assumption.
  - intros p q a Hp Hq Ha Hb. apply (NoDup_map_inj_in pm_uid _ _ _ U1 Hp Hq).
    pose proof (U3 p a Hp Ha) as E1. pose proof (U3 q a Hq Hb) as E2. congruence.
Qed.

(* Proofs/GenReward.v — generated kernels (Gen/kernels.v, regenerated from the Go source on every run) proved equal to the hand-written model:
   x/reward/types/pool.go.  Split by module so that a change of one module only touches the properties that depend on it. *)
From Coq Require Import ZArith Bool List Lia.
From Sge Require Import Lib.Dec Model.Types Model.Orderbook Model.Mint Model.Chain Gen.kernels.
From Sge Require Model.Reward.
Import ListNotations.
Open Scope Z_scope.

(* ---- x/reward/types/pool.go ------------------------------------------------------------------------------------------------------------ *)
Definition pool_of (c : Reward.campaign) : G_Pool := {| G_Pool_Total := Reward.cm_total c; G_Pool_Spent := Reward.cm_spent c; G_Pool_Withdrawn := Reward.cm_withdrawn c |}.
Lemma gen_AvailableAmount c : K_Pool_AvailableAmount (pool_of c) = Reward.cm_avail c.
Proof. reflexivity. Qed.
Lemma gen_CheckBalance c x : K_Pool_CheckBalance (pool_of c) x = negb (Reward.cm_avail c <? x).
Proof. unfold K_Pool_CheckBalance. rewrite gen_AvailableAmount. destruct (Reward.cm_avail c <? x); reflexivity. Qed.
Lemma gen_Pool_Spend c x : K_Pool_Spend (pool_of c) x = {| G_Pool_Total := Reward.cm_total c; G_Pool_Spent := Reward.cm_spent c + x; G_Pool_Withdrawn := Reward.cm_withdrawn c |}.
Proof. reflexivity. Qed.
Lemma gen_Pool_TopUp c x : K_Pool_TopUp (pool_of c) x = {| G_Pool_Total := Reward.cm_total c + x; G_Pool_Spent := Reward.cm_spent c; G_Pool_Withdrawn := Reward.cm_withdrawn c |}.
Proof. reflexivity. Qed.
Lemma gen_Pool_Withdraw c x : K_Pool_Withdraw (pool_of c) x = {| G_Pool_Total := Reward.cm_total c; G_Pool_Spent := Reward.cm_spent c; G_Pool_Withdrawn := Reward.cm_withdrawn c + x |}.
Proof. reflexivity. Qed.

(* Proofs/NoAbort.v — C05: block processing never aborts.  Over every history of operations signed by user accounts, from a genesis with
   empty custody accounts, the end blocker (settlement of bets, settlement of participations with the subaccount hooks) and the begin
   blocker (mint) never fail: the model's `halted` flag stays false. *)
From Coq Require Import ZArith Bool List Lia.
From Sge Require Import Lib.Dec Model.Types Model.Orderbook Model.Mint Model.Chain Proofs.Tactics Proofs.Supply Proofs.CustodyLocal Proofs.Custody
     Proofs.SubInv Proofs.Mono Proofs.BookFacts Proofs.BookAPI Proofs.BookInv Proofs.Local Proofs.BookHist Proofs.BookCover Proofs.CoverHist
     Proofs.BetIndex Proofs.MintLive Proofs.SubHist Proofs.Settle Proofs.Solvent Proofs.SubLock.
From Sge Require Proofs.Keys Proofs.Height Proofs.Halted.
Import ListNotations.
Open Scope Z_scope.

(* ---- payments out of the three custody accounts ------------------------------------------------------------------------------------------ *)
Definition custody (c : Z) : Prop := c = POOL \/ c = HOUSEFEE \/ c = BETFEE.
Definition out_e (c : Z) (e : effect) : Z := match e with Pay f _ a => if f =? c then a else 0 | _ => 0 end.
Definition out_of (c : Z) (effs : list effect) : Z := zsum (map (out_e c) effs).

Definition good_pay (e : effect) : Prop := exists f t a, e = Pay f t a /\ custody f /\ 0 <= t /\ 0 <= a.

Lemma out_nonneg c effs : (forall e, In e effs -> good_pay e) -> 0 <= out_of c effs.
Proof.
  intros H. unfold out_of. apply zsum_map_nonneg. intros e He. destruct (H e He) as (f & t & a & -> & _ & _ & Ha). cbn. destruct (f =? c); lia.
Qed.

Lemma apply_pays_ok effs : forall b subs, (forall e, In e effs -> good_pay e) ->
  (forall c, custody c -> out_of c effs <= bget b c) -> exists b', apply_effects b subs effs = Some (b', subs).
Proof.
  induction effs as [|e r IH]; intros b subs Hg Hb; cbn [apply_effects]; [eexists; reflexivity|].
  destruct (Hg e (or_introl eq_refl)) as (f & t & a & Ee & Hf & Ht & Ha). subst e.
  assert (Hr : forall e, In e r -> good_pay e) by (intros e He; apply Hg; right; exact He).
  pose proof (out_nonneg f r Hr) as Hrn. pose proof (Hb f Hf) as Hbf. unfold out_of in Hbf. cbn [map zsum out_e] in Hbf. rewrite Z.eqb_refl in Hbf. fold (out_of f r) in Hbf.
  unfold pay. destruct (a <? 0) eqn:E1; [apply Z.ltb_lt in E1; lia|]. destruct (bget b f <? a) eqn:E2; [apply Z.ltb_lt in E2; lia|].
  apply IH; [exact Hr|]. intros c Hc. rewrite !bget_badd. pose proof (Hb c Hc) as Hbc. unfold out_of in Hbc. cbn [map zsum out_e] in Hbc. fold (out_of c r) in Hbc.
  assert (t <> c) by (destruct Hc as [-> | [-> | ->]]; unfold POOL, HOUSEFEE, BETFEE; lia).
  destruct (Z.eqb_spec t c); [contradiction|]. destruct (f =? c); lia.
Qed.

Lemma out_of_app c a b : out_of c (a ++ b) = out_of c a + out_of c b.
Proof. unfold out_of. rewrite map_app, zsum_app. reflexivity. Qed.

Lemma out_of_wins c bettor fs : out_of c (map (fun f => Pay POOL bettor (f_pay f + f_stake f)) fs) =
  if POOL =? c then zsum (map f_pay fs) + zsum (map f_stake fs) else 0.
Proof.
  unfold out_of. induction fs as [|f r IH]; cbn [map zsum out_e]; [destruct (POOL =? c); reflexivity|]. rewrite IH. destruct (POOL =? c); lia.
Qed.

(* ---- one bet ------------------------------------------------------------------------------------------------------------------------------- *)
Section Bets.
Variable P : params.
Hypothesis HP : pr_bet_fee P <= pr_bet_min P.
Hypothesis HF : 0 <= pr_bet_fee P.

Record bank_eq (bank : bank) (x : mstate) (K KH KB : Z) : Prop := {
  be_pool : bget bank POOL = K + owed_pool x;
  be_hfee : bget bank HOUSEFEE = KH + owed_hfee x;
  be_bfee : bget bank BETFEE = KB + owed_bfee x;
  be_K : 0 <= K; be_KH : 0 <= KH; be_KB : 0 <= KB }.

Lemma closed_active x : bk_status (ms_book x) = BK_ACTIVE -> bets_closed x.
Proof. intros E Hne. contradiction. Qed.

Lemma settle_bet_ok x h id b bank subs K KH KB :
  msett x -> minv x -> status_res (k_status (ms_mkt x)) -> bk_status (ms_book x) = BK_ACTIVE ->
  findb (fun c => b_id c =? id) (ms_bets x) = Some b -> is_settled b = false -> bank_eq bank x K KH KB ->
  exists x' effs bank', settle_bet x h id = Some (x', effs) /\ apply_effects bank subs effs = Some (bank', subs).
Proof.
  intros S MI Hres Hact EF Hs [E1 E2 E3 K1 K2 K3].
  assert (Hbin : In b (ms_bets x)) by (apply find_some in EF; tauto).
  destruct (bet_payable x b S Hres Hact Hbin Hs) as ((F1 & F2) & A0 & A1 & A2).
  destruct (owed_nonneg x S (closed_active x Hact)) as (O1 & O2 & O3).
  destruct (mi_bets _ MI b Hbin) as [Hbc _]. pose proof (mi_creator _ MI) as Hmc.
  pose proof (se_bets _ S b Hbin) as [B1 B2 B3 B4].
  assert (Hst : b_status b =? BS_SETTLED = false) by exact Hs.
  assert (Cp : custody POOL) by (left; reflexivity). assert (Cb : custody BETFEE) by (right; right; reflexivity).
  unfold settle_bet. cbv zeta. rewrite EF, Hst.
  destruct ((k_status (ms_mkt x) =? MK_ABORTED) || (k_status (ms_mkt x) =? MK_CANCELED)) eqn:ERF.
  - assert (Hnd : k_status (ms_mkt x) <> MK_DECLARED).
    { apply orb_true_iff in ERF. destruct ERF as [E|E]; apply Z.eqb_eq in E; rewrite E; discriminate. }
    unfold payout_profit. destruct (b_oddsval b <=? PREC) eqn:Eo; [apply Z.leb_le in Eo; lia|].
    destruct (apply_pays_ok [Pay POOL (b_creator b) (b_amount b); Pay BETFEE (b_creator b) (b_fee b)] bank subs) as (b' & Hb').
    + intros e [<-|[<-|[]]]; eexists _, _, _; (split; [reflexivity|]); repeat split; try assumption; lia.
    + intros c Hc. unfold out_of. cbn [map zsum out_e]. pose proof (A1 Hnd).
      destruct Hc as [-> | [-> | ->]]; cbn; lia.
    + eexists _, _, b'. split; [reflexivity|exact Hb'].
  - destruct (Z.eqb_spec (k_status (ms_mkt x)) MK_DECLARED) as [Hd|Hd].
    2:{ exfalso. apply orb_false_iff in ERF. destruct ERF as [X1 X2]. apply Z.eqb_neq in X1, X2. destruct Hres as [R|[R|R]]; contradiction. }
    cbn [negb]. pose proof (mc_refs _ (se_cov _ S) (bo b)) as Hrefs. cbn [snd bo] in Hrefs.
    assert (Href : refs (ms_book x) (b_parts b)) by (apply Hrefs; unfold bets_of; apply in_map_iff; exists b; split; [reflexivity|exact Hbin]).
    destruct (zmem (b_odds b) (k_winners (ms_mkt x))) eqn:EZ.
    + destruct (bettor_wins_total (b_parts b) (ms_book x) (b_creator b) Href) as (bk & effs0 & EW). rewrite EW.
      rewrite (bettor_wins_effs _ _ _ _ _ EW).
      destruct (apply_pays_ok (map (fun f => Pay POOL (b_creator b) (f_pay f + f_stake f)) (b_parts b) ++ [Pay BETFEE (k_creator (ms_mkt x)) (b_fee b)]) bank subs) as (b' & Hb').
      * intros e He. apply in_app_or in He. destruct He as [He|[<-|[]]].
        -- apply in_map_iff in He. destruct He as (f & <- & Hf). destruct (B4 f Hf). eexists _, _, _. split; [reflexivity|]. repeat split; try assumption; lia.
        -- eexists _, _, _. split; [reflexivity|]. repeat split; assumption.
      * intros c Hc. rewrite out_of_app, out_of_wins. unfold out_of at 1. cbn [map zsum out_e]. pose proof (A2 Hd eq_refl).
        destruct Hc as [-> | [-> | ->]]; cbn; lia.
      * eexists _, _, b'. split; [reflexivity|exact Hb'].
    + destruct (bettor_loses_total (b_parts b) (ms_book x) Href) as (bk & EL). rewrite EL.
      destruct (apply_pays_ok [Pay BETFEE (k_creator (ms_mkt x)) (b_fee b)] bank subs) as (b' & Hb').
      * intros e [<-|[]]. eexists _, _, _. split; [reflexivity|]. repeat split; assumption.
      * intros c Hc. unfold out_of. cbn [map zsum out_e]. destruct Hc as [-> | [-> | ->]]; cbn; lia.
      * eexists _, _, b'. split; [reflexivity|exact Hb'].
Qed.
End Bets.

(* ---- a batch of bets of one market --------------------------------------------------------------------------------------------------------- *)
Lemma settle_bet_shape x h id x' effs : settle_bet x h id = Some (x', effs) ->
  exists b r, findb (fun c => b_id c =? id) (ms_bets x) = Some b /\
    ms_bets x' = upd (fun c => b_id c =? id) (bet_with b BS_SETTLED r h) (ms_bets x) /\ ms_pending x' = remb (Z.eqb id) (ms_pending x).
Proof.
  unfold settle_bet. cbv zeta. intros H.
  destruct (findb _ _) as [b|]; [|discriminate]. destruct (b_status b =? BS_SETTLED); [discriminate|].
  destruct ((k_status (ms_mkt x) =? MK_ABORTED) || (k_status (ms_mkt x) =? MK_CANCELED)).
  - destruct (payout_profit _ _); [|discriminate]. injection H as <- _. eexists b, _. repeat split.
  - destruct (negb _); [discriminate|]. destruct (zmem _ _).
    + destruct (bettor_wins _ _ _) as [[bk e0]|]; [|discriminate]. injection H as <- _. eexists b, _. repeat split.
    + destruct (bettor_loses _ _) as [bk|]; [|discriminate]. injection H as <- _. eexists b, _. repeat split.
Qed.

Lemma remb_head id (l : list Z) : ~ In id l -> remb (Z.eqb id) (id :: l) = l.
Proof.
  intros Hni. unfold remb. cbn [filter]. rewrite Z.eqb_refl. cbn [negb]. induction l as [|y r IH]; cbn [filter]; [reflexivity|].
  destruct (Z.eqb_spec id y) as [->|Hne]; [exfalso; apply Hni; left; reflexivity|]. cbn [negb]. f_equal. apply IH. intros Hin. apply Hni. right. exact Hin.
Qed.

Section BetBatch.
Variable P : params.
Hypothesis HP : pr_bet_fee P <= pr_bet_min P.
Hypothesis HF : 0 <= pr_bet_fee P.

Lemma settle_bets_ok h ids : forall x bank subs sidx cnt K KH KB tl,
  msett x -> minv x -> status_res (k_status (ms_mkt x)) -> bk_status (ms_book x) = BK_ACTIVE ->
  ms_pending x = ids ++ tl -> NoDup (ids ++ tl) ->
  (forall id, In id ids -> exists b, findb (fun c => b_id c =? id) (ms_bets x) = Some b /\ is_settled b = false) ->
  bank_eq bank x K KH KB -> subs_ok subs ->
  exists x' bank' sidx', settle_bets ids x bank subs h sidx cnt = Some (x', bank', subs, sidx', cnt + zlen ids) /\ ms_pending x' = tl.
Proof.
  induction ids as [|id r IH]; intros x bank subs sidx cnt K KH KB tl S MI Hres Hact Hp Hnd Hf BE Hs; cbn [settle_bets].
  - eexists x, bank, sidx. split; [unfold zlen; cbn; rewrite Z.add_0_r; reflexivity|exact Hp].
  - destruct (Hf id (or_introl eq_refl)) as (b & EF & Hb).
    destruct (settle_bet_ok x h id b bank subs K KH KB S MI Hres Hact EF Hb BE) as (x1 & effs & bank1 & ES & EA). rewrite ES, EA.
    destruct (settle_bet_delta _ _ _ _ _ MI Hact ES) as (MI1 & Hact1 & Hm1 & D1 & D2 & D3).
    destruct (apply_effects_custody _ _ _ _ _ Hs EA) as [_ Hb1].
    destruct (settle_bet_shape _ _ _ _ _ ES) as (b0 & r0 & EF0 & Hbets & Hpend). rewrite EF in EF0. injection EF0 as <-.
    assert (S1 : msett x1) by (eapply (msett_step P); [exact HP|exact HF|exact S|eapply MT_settle_bet; eassumption]).
    cbn [app] in Hp, Hnd. inversion Hnd as [|? ? Hni Hnd']; subst.
    destruct (IH x1 bank1 subs (sidx ++ [(h, id)]) (cnt + 1) K KH KB tl S1 MI1) as (x' & bank' & sidx' & E & Hp').
    + rewrite Hm1. exact Hres.
    + exact Hact1.
    + rewrite Hpend, Hp. apply remb_head. exact Hni.
    + exact Hnd'.
    + intros id' Hid'. destruct (Hf id' (or_intror Hid')) as (b' & EF' & Hb'). exists b'. split; [|exact Hb'].
      rewrite Hbets. unfold findb. rewrite find_upd_other; [exact EF'| |].
      * cbn [b_id bet_with]. apply find_some in EF. destruct EF as [_ EF]. apply Z.eqb_eq in EF. rewrite EF. apply Z.eqb_neq. intros ->. apply Hni. apply in_or_app. left. exact Hid'.
      * intros y Hy. apply Z.eqb_eq in Hy. rewrite Hy. apply Z.eqb_neq. intros ->. apply Hni. apply in_or_app. left. exact Hid'.
    + destruct BE as [E1 E2 E3 K1 K2 K3]. constructor; try assumption.
      * rewrite (Hb1 POOL) by (unfold POOL; lia). lia.
      * rewrite (Hb1 HOUSEFEE) by (unfold HOUSEFEE; lia). lia.
      * rewrite (Hb1 BETFEE) by (unfold BETFEE; lia). lia.
    + exact Hs.
    + exists x', bank', sidx'. split; [|exact Hp']. rewrite E. unfold zlen. cbn [length]. replace (cnt + Z.of_nat (Datatypes.S (length r))) with (cnt + 1 + Z.of_nat (length r)) by lia. reflexivity.
Qed.
End BetBatch.

(* ---- facts about one market of a chain state -------------------------------------------------------------------------------------------------- *)
Record g1 (s : chain) : Prop := {
  g_inv : inv s;
  g_binv : binv s;
  g_keys : Keys.keys_ok s;
  g_all : forall e, In e (c_ms s) -> msett (snd e) }.

Lemma closed_of_pending x : msett x -> ms_pending x = unsettled_ids (ms_bets x) -> bets_closed x.
Proof.
  intros S Hp Hne b Hb. destruct (se_done _ S Hne) as [Hn _]. rewrite Hp in Hn. unfold unsettled_ids in Hn.
  destruct (is_settled b) eqn:E; [reflexivity|]. exfalso.
  assert (In b (filter unsettledb (ms_bets x))) by (apply filter_In; split; [exact Hb|unfold unsettledb; unfold is_settled in E; rewrite E; reflexivity]).
  apply (in_map b_id) in H. rewrite Hn in H. destruct H.
Qed.

Lemma g1_closed s e : g1 s -> In e (c_ms s) -> bets_closed (snd e).
Proof. intros G He. apply closed_of_pending; [apply (g_all _ G e He)|apply (bi_pend _ (g_binv _ G) e He)]. Qed.

Lemma tot_rest_nonneg f (l : list (Z * mstate)) m x : find (fun e => fst e =? m) l = Some (m, x) ->
  (forall e, In e l -> 0 <= f (snd e)) -> 0 <= tot f l - f x.
Proof.
  intros Hf Hn. destruct (upd_split _ _ _ Hf) as (l1 & l2 & E & _). subst l. unfold tot. rewrite map_app, zsum_app. cbn [map zsum snd].
  assert (0 <= zsum (map (fun e => f (snd e)) l1)) by (apply zsum_map_nonneg; intros e He; apply Hn; apply in_or_app; left; exact He).
  assert (0 <= zsum (map (fun e => f (snd e)) l2)) by (apply zsum_map_nonneg; intros e He; apply Hn; apply in_or_app; right; right; exact He). lia.
Qed.

Lemma g1_bank s m x : g1 s -> get_ms s m = Some x ->
  bank_eq (c_bank s) x (tot owed_pool (c_ms s) - owed_pool x) (tot owed_hfee (c_ms s) - owed_hfee x) (tot owed_bfee (c_ms s) - owed_bfee x).
Proof.
  intros G Hg. destruct (i_cust _ (g_inv _ G)) as (C1 & C2 & C3). pose proof (get_ms_find _ _ _ Hg) as Hf.
  assert (Hn : forall e, In e (c_ms s) -> 0 <= owed_pool (snd e) /\ 0 <= owed_hfee (snd e) /\ 0 <= owed_bfee (snd e)).
  { intros e He. apply owed_nonneg; [apply (g_all _ G e He)|apply (g1_closed s e G He)]. }
  constructor; try lia; apply (tot_rest_nonneg _ _ _ _ Hf); intros e He; apply (Hn e He).
Qed.

Lemma nodup_flat {A B} (f : B -> Z) (g : A -> list B) (l : list A) e : In e l -> NoDup (map f (flat_map g l)) -> NoDup (map f (g e)).
Proof.
  induction l as [|a r IH]; intros He Hnd; [destruct He|]. cbn [flat_map] in Hnd. rewrite map_app in Hnd.
  destruct He as [->|He]; [eapply NoDup_app_l; exact Hnd|apply IH; [exact He|eapply NoDup_app_r; exact Hnd]].
Qed.

Lemma find_by_id (bets : list bet) b : NoDup (map b_id bets) -> In b bets -> findb (fun c => b_id c =? b_id b) bets = Some b.
Proof.
  unfold findb. induction bets as [|c r IH]; intros Hnd Hin; [destruct Hin|]. cbn [map] in Hnd. inversion Hnd as [|? ? Hni Hnd']; subst. cbn [find].
  destruct Hin as [->|Hin]; [rewrite Z.eqb_refl; reflexivity|].
  destruct (Z.eqb_spec (b_id c) (b_id b)) as [E|_]; [exfalso; apply Hni; rewrite E; apply in_map; exact Hin|apply IH; assumption].
Qed.

Lemma g1_pending s m x : g1 s -> get_ms s m = Some x ->
  NoDup (ms_pending x) /\ forall id, In id (ms_pending x) -> exists b, findb (fun c => b_id c =? id) (ms_bets x) = Some b /\ is_settled b = false.
Proof.
  intros G Hg. pose proof (get_ms_in _ _ _ Hg) as Hin. pose proof (bi_pend _ (g_binv _ G) _ Hin) as Hp. cbn [snd] in Hp.
  pose proof (nodup_flat b_id (fun e : Z * mstate => ms_bets (snd e)) (c_ms s) (m, x) Hin (g_ids _ _ _ _ (bi_g _ (g_binv _ G)))) as Hnd. cbn [snd] in Hnd.
  rewrite Hp. unfold unsettled_ids. split.
  - clear - Hnd. induction (ms_bets x) as [|c r IH]; cbn [filter map]; [constructor|]. cbn [map] in Hnd. inversion Hnd as [|? ? Hni Hnd']; subst.
    destruct (unsettledb c); [|apply IH; exact Hnd']. cbn [map]. constructor; [|apply IH; exact Hnd'].
    intros Hi. apply Hni. apply in_map_iff in Hi. destruct Hi as (d & Ed & Hd). apply filter_In in Hd. rewrite <- Ed. apply in_map. tauto.
  - intros id Hid. apply in_map_iff in Hid. destruct Hid as (b & <- & Hb). apply filter_In in Hb. destruct Hb as [Hb Hu].
    exists b. split; [apply find_by_id; assumption|]. unfold unsettledb in Hu. unfold is_settled. apply negb_true_iff in Hu. exact Hu.
Qed.

Lemma keys_get s m x : Keys.keys_ok s -> In (m, x) (c_ms s) -> get_ms s m = Some x.
Proof.
  unfold Keys.keys_ok, get_ms, findb. induction (c_ms s) as [|e r IH]; intros Hnd Hin; [destruct Hin|]. cbn [map] in Hnd. inversion Hnd as [|? ? Hni Hnd']; subst. cbn [find].
  destruct Hin as [->|Hin]; [cbn [fst]; rewrite Z.eqb_refl; reflexivity|].
  destruct (Z.eqb_spec (fst e) m) as [E|_]; [exfalso; apply Hni; rewrite E; change m with (fst (m, x)); apply in_map; exact Hin|apply IH; assumption].
Qed.

(* ---- the bet end blocker never fails ----------------------------------------------------------------------------------------------------------- *)
Section BetEnd.
Variable P : params.
Hypothesis HP : pr_bet_fee P <= pr_bet_min P.
Hypothesis HF : 0 <= pr_bet_fee P.

Lemma msett_reach x x' : mreach P x x' -> msett x -> msett x'.
Proof. intros R. induction R as [|a b c _ IH T]; [trivial|]. intros Ha. eapply (msett_step P); [exact HP|exact HF|apply IH; exact Ha|exact T]. Qed.

Lemma bet_endblock_done fuel s n : n <= 0 -> bet_endblock fuel s n = Some s.
Proof. intros H. destruct fuel; cbn [bet_endblock]; destruct (n <=? 0) eqn:E; try reflexivity; apply Z.leb_gt in E; lia. Qed.

Lemma bet_endblock_ok fuel : forall s n, g1 s -> (length (c_mqueue s) < fuel)%nat ->
  exists s', bet_endblock fuel s n = Some s' /\ g1 s'.
Proof.
  induction fuel as [|f IH]; intros s n G Hlen; [lia|]. cbn [bet_endblock].
  destruct (n <=? 0) eqn:En; [eexists; split; [reflexivity|exact G]|]. apply Z.leb_gt in En.
  destruct (c_mqueue s) as [|m q] eqn:EQ; [eexists; split; [reflexivity|exact G]|].
  pose proof (g_inv _ G) as Hinv.
  assert (Hmin : In m (c_mqueue s)) by (rewrite EQ; left; reflexivity).
  destruct (i_mq s Hinv _ Hmin) as (x & Hg & Hres & Hact). rewrite Hg.
  pose proof (get_ms_in _ _ _ Hg) as Hin.
  pose proof (i_minv s Hinv _ Hin) as MI. cbn [snd] in MI. pose proof (g_all _ G _ Hin) as Sx. cbn [snd] in Sx.
  destruct (g1_pending s m x G Hg) as [Hndp Hfind].
  set (k := Z.to_nat n). set (ids := firstn k (ms_pending x)). set (tl := skipn k (ms_pending x)).
  assert (Hsplit : ms_pending x = ids ++ tl) by (symmetry; apply firstn_skipn).
  destruct (settle_bets_ok P HP HF (c_height s) ids x (c_bank s) (c_subs s) (c_settledix s) 0 _ _ _ tl Sx MI Hres Hact Hsplit
              ltac:(rewrite <- Hsplit; exact Hndp) ltac:(intros id Hid; apply Hfind; rewrite Hsplit; apply in_or_app; left; exact Hid)
              (g1_bank s m x G Hg) (i_subs s Hinv)) as (x1 & bk1 & sidx1 & ES & Hp1).
  fold k. fold ids. rewrite ES.
  pose proof (settle_bets_reach P _ _ _ _ _ _ _ _ _ _ _ _ ES MI Hres Hact) as Hm1.
  destruct (settle_bets_delta _ _ _ _ _ _ _ _ _ _ _ _ ES MI Hact (i_subs s Hinv)) as (_ & Hact1 & Hmk1 & _).
  destruct (bet_iter_inv _ _ _ _ _ _ _ _ _ _ [] Hinv EQ Hg ES) as [I1 I2].
  pose proof (msett_reach _ _ Hm1 Sx) as S1.
  destruct (set_ms_split_all _ _ _ (get_ms_find _ _ _ Hg)) as (l1 & l2 & E1 & E2).
  assert (Hs0 : sctx l1 l2 (c_betcnt s) (c_uid2id s) x (c_settledix s)).
  { destruct (g_binv _ G) as [GG PP]. split; [rewrite E1, all_bets_app, all_bets_cons in GG; exact GG|apply (PP (m, x)); exact Hin]. }
  pose proof (settle_bets_sctx _ _ _ _ _ _ _ _ _ _ _ _ _ _ _ _ ES Hs0) as Hs1.
  rewrite Hp1. destruct tl as [|t0 tl'] eqn:Etl.
  - rewrite Hact1. cbn [negb Z.eqb]. change (BK_ACTIVE =? BK_ACTIVE) with true. cbn [negb].
    apply IH.
    + constructor.
      * exact I2.
      * eapply binv_of_sctx; try eassumption; try reflexivity. exact (g_binv _ G). cbn [ms_pending mstate_upd]. symmetry. exact Hp1.
      * unfold Keys.keys_ok. cbn [c_ms chain_upd]. apply Keys.nodup_keys_set. exact (g_keys _ G).
      * cbn [c_ms chain_upd]. intros e He. unfold set_ms_list in He. apply in_upd in He. destruct He as [->|He]; [|apply (g_all _ G e He)].
        cbn [snd]. eapply (msett_step P); [exact HP|exact HF|exact S1|].
        pose proof (MT_book_resolved P x1) as T. unfold with_book in T. rewrite Hp1 in T. apply T; [rewrite Hmk1; exact Hres|reflexivity|exact Hact1].
    + cbn [c_mqueue chain_upd]. unfold remove_uid. cbn [remove_first]. rewrite Z.eqb_refl. cbn [length] in Hlen. lia.
  - assert (Hcnt : 0 + zlen ids = n).
    { assert (k < length (ms_pending x))%nat.
      { destruct (Nat.lt_ge_cases k (length (ms_pending x))) as [L|L]; [exact L|]. unfold tl in Etl. rewrite (skipn_all2 _ L) in Etl. discriminate. }
      unfold zlen, ids. rewrite firstn_length_le by lia. unfold k. lia. }
    rewrite Hcnt. eexists. split; [apply bet_endblock_done; lia|].
    constructor.
    + exact I1.
    + eapply binv_of_sctx; try eassumption; try reflexivity. exact (g_binv _ G).
    + unfold Keys.keys_ok. cbn [c_ms chain_upd]. apply Keys.nodup_keys_set. exact (g_keys _ G).
    + cbn [c_ms chain_upd]. intros e He. unfold set_ms_list in He. apply in_upd in He. destruct He as [->|He]; [exact S1|apply (g_all _ G e He)].
Qed.
End BetEnd.

(* ---- participations: the effects of settling one participation always apply ------------------------------------------------------------------- *)
Lemma apply_effects_app e1 : forall b subs e2,
  apply_effects b subs (e1 ++ e2) = match apply_effects b subs e1 with Some (b1, s1) => apply_effects b1 s1 e2 | None => None end.
Proof.
  induction e1 as [|e r IH]; intros b subs e2; cbn [app apply_effects]; [reflexivity|].
  destruct (match e with Pay f t a => _ | HookWin a liq profit => _ | HookLoss a liq lost => _ | HookRefund a amt => _ | HookFeeRefund a fee => _ end) as [[b1 s1]|];
    [apply IH|reflexivity].
Qed.

Lemma pay_some b f t a : 0 <= a -> a <= bget b f -> exists b', pay b f t a = Some b'.
Proof. intros H1 H2. unfold pay. destruct (a <? 0) eqn:E1; [apply Z.ltb_lt in E1; lia|]. destruct (bget b f <? a) eqn:E2; [apply Z.ltb_lt in E2; lia|]. eexists; reflexivity. Qed.

Lemma hook_ok b subs a (g : subacc -> option subacc) fwd :
  (forall y, In y subs -> sub_addr y = a -> exists y', g y = Some y') ->
  0 <= fwd -> (fwd <> 0 -> forall y, In y subs -> sub_addr y = a -> fwd <= bget b a) ->
  exists b' subs', hook_sub b subs a g fwd = Some (b', subs').
Proof.
  intros Hg Hf Hb. unfold hook_sub. destruct (sub_by_addr subs a) as [y|] eqn:EA; [|eexists _, _; reflexivity].
  destruct (sub_by_addr_spec _ _ _ EA) as [Hin Hadr]. destruct (Hg y Hin Hadr) as (y' & ->).
  destruct (Z.eqb_spec fwd 0) as [|Hne]; [eexists _, _; reflexivity|]. destruct (pay_some b a (sa_owner y) fwd Hf (Hb Hne y Hin Hadr)) as (b' & ->). eexists _, _; reflexivity.
Qed.

Lemma unspend_some y amt : 0 <= amt <= sa_spent y -> exists y', sub_unspend y amt = Some y'.
Proof. intros H. unfold sub_unspend. destruct (amt <? 0) eqn:E1; [apply Z.ltb_lt in E1; lia|]. destruct (sa_spent y <? amt) eqn:E2; [apply Z.ltb_lt in E2; lia|]. eexists; reflexivity. Qed.

Record jst (b : bank) (subs : list subacc) (rest : list part) : Prop := {
  j_led : ledger_ok b subs;
  j_pool : zsum (map part_pool rest) <= bget b POOL;
  j_fee : zsum (map part_fee rest) <= bget b HOUSEFEE;
  j_lock : forall y, In y subs -> zsum (map (lockp (sub_addr y)) rest) <= sa_spent y }.

Record pok (st : Z) (p : part) : Prop := {
  pk_liq : 0 <= p_liq p; pk_fee : 0 <= p_fee p; pk_owner : 0 <= p_owner p;
  pk_ret : p_settled p = false -> 0 <= p_liq p + p_profit p;
  pk_nd : st <> MK_DECLARED -> p_profit p = 0 }.

Lemma pok_pool st p : pok st p -> 0 <= part_pool p /\ 0 <= part_fee p /\ forall a, 0 <= lockp a p.
Proof.
  intros [A B C D E]. unfold part_pool, part_fee, lockp, lproj, lockl. destruct (p_settled p); repeat split; try lia; try (specialize (D eq_refl); lia). intros a. destruct (p_owner p =? a); lia.
Qed.

Lemma subs_ok_of_ledger b subs : ledger_ok b subs -> subs_ok subs.
Proof. intros L y Hy. destruct (lo_each _ _ L y Hy) as (A & [B _] & _). split; assumption. Qed.

(* the state after the effects of one participation, from the lemmas that assume success *)
Lemma jst_after st creator p rest b subs p' e1 b1 subs1 :
  settle_participation p st creator = Some (p', e1) -> apply_effects b subs e1 = Some (b1, subs1) -> 0 <= creator ->
  pok st p -> (forall q, In q rest -> pok st q) -> jst b subs (p :: rest) -> jst b1 subs1 rest.
Proof.
  intros ES EA Hc Pp Pr [L JP JF JL]. cbn [map zsum] in JP, JF.
  pose proof (settle_participation_balanced _ _ _ _ _ ES) as Bal.
  pose proof (apply_effects_ledger _ Bal _ _ _ _ EA L) as L1.
  destruct (apply_effects_custody _ _ _ _ _ (subs_ok_of_ledger _ _ L) EA) as [_ Hb1].
  assert (Hst : st = MK_DECLARED \/ p_profit p = 0) by (destruct (Z.eq_dec st MK_DECLARED); [left; assumption|right; apply (pk_nd _ _ Pp); assumption]).
  destruct (settle_participation_delta _ _ _ _ _ ES (pk_owner _ _ Pp) Hc Hst) as (D1 & D2 & _ & _ & D5 & _).
  assert (Z1 : part_pool p' = 0) by (unfold part_pool; rewrite D5; reflexivity). assert (Z2 : part_fee p' = 0) by (unfold part_fee; rewrite D5; reflexivity).
  destruct (apply_effects_spent _ _ _ _ _ (lo_ids _ _ L) EA) as [_ SR].
  constructor.
  - exact L1.
  - rewrite (Hb1 POOL) by (unfold POOL; lia). lia.
  - rewrite (Hb1 HOUSEFEE) by (unfold HOUSEFEE; lia). lia.
  - intros y1 Hy1. destruct (SR y1 Hy1) as (y & Hy & Ei & Es). assert (Ea : sub_addr y1 = sub_addr y) by (unfold sub_addr; congruence).
    rewrite Ea, Es. pose proof (JL y Hy) as H. cbn [map zsum] in H.
    pose proof (settle_participation_unsp _ _ _ _ _ (sub_addr y) ES (pk_liq _ _ Pp) (pk_fee _ _ Pp)) as U.
    assert (lockp (sub_addr y) p' = 0). { unfold settle_participation in ES. dmatch ES; inv ES; reflexivity. } lia.
Qed.

(* first group: the payout from the pool followed by the hook that releases the liquidity (and forwards the profit) *)
Lemma group1_ok b subs a ret liq (g : subacc -> option subacc) fwd :
  ledger_ok b subs -> 0 <= a -> 0 <= ret <= bget b POOL -> 0 <= fwd <= ret ->
  (forall y, In y subs -> sub_addr y = a -> exists y', g y = Some y') ->
  (forall x x', g x = Some x' -> sa_id x' = sa_id x /\ sa_owner x' = sa_owner x /\ sa_spent x' = sa_spent x - liq) ->
  exists b1 b2 subs2, pay b POOL a ret = Some b1 /\ hook_sub b1 subs a g fwd = Some (b2, subs2) /\
    bget b2 HOUSEFEE = bget b HOUSEFEE /\ spent_rel subs subs2 (fun adr => if a =? adr then liq else 0).
Proof.
  intros L Ha Hret Hfwd Hg Hgs.
  destruct (pay_some b POOL a ret ltac:(lia) ltac:(lia)) as (b1 & P1). exists b1.
  assert (Hb1a : forall y, In y subs -> sub_addr y = a -> fwd <= bget b1 a).
  { intros y Hy Hadr. rewrite (pay_bget _ _ _ _ _ a P1), Z.eqb_refl. destruct (lo_each _ _ L y Hy) as (I0 & _).
    assert (SUBBASE <= a) by (unfold sub_addr in Hadr; lia). pose proof (lo_bank _ _ L a H).
    destruct (Z.eqb_spec POOL a); [unfold POOL, SUBBASE in *; lia|lia]. }
  destruct (hook_ok b1 subs a g fwd Hg ltac:(lia) (fun _ => Hb1a)) as (b2 & subs2 & H2). exists b2, subs2. split; [exact P1|]. split; [exact H2|]. split.
  - destruct (hook_sub_custody _ _ _ _ _ _ _ (subs_ok_of_ledger _ _ L) (fun x x' E => let '(conj A (conj B _)) := Hgs x x' E in conj A B) H2) as [_ Hc].
    rewrite (Hc HOUSEFEE) by (unfold HOUSEFEE; lia). rewrite (pay_bget _ _ _ _ _ HOUSEFEE P1).
    destruct (Z.eqb_spec a HOUSEFEE); [unfold HOUSEFEE in *; lia|]. destruct (Z.eqb_spec POOL HOUSEFEE); [discriminate|lia].
  - eapply hook_sub_spent; [apply (lo_ids _ _ L)| |exact H2]. intros x x' E. destruct (Hgs x x' E) as (A & _ & C). split; assumption.
Qed.

Lemma unspend_full x a x' : sub_unspend x a = Some x' -> sa_id x' = sa_id x /\ sa_owner x' = sa_owner x /\ sa_spent x' = sa_spent x - a.
Proof. unfold sub_unspend. intros H. dmatch H. inv H. repeat split. Qed.
Lemma unspend_loss_full x liq lost x' : (match sub_unspend x liq with Some y => sub_addloss y lost | None => None end) = Some x' ->
  sa_id x' = sa_id x /\ sa_owner x' = sa_owner x /\ sa_spent x' = sa_spent x - liq.
Proof.
  intros H. destruct (sub_unspend x liq) as [y|] eqn:E; [|discriminate]. destruct (unspend_full _ _ _ E) as (A & B & C).
  unfold sub_addloss in H. dmatch H. inv H. cbn. repeat split; assumption.
Qed.

Lemma settle_part_ok st creator p rest b subs :
  status_res st -> 0 <= creator -> p_settled p = false -> pok st p -> (forall q, In q rest -> pok st q) -> jst b subs (p :: rest) ->
  exists p' e1 b1 subs1, settle_participation p st creator = Some (p', e1) /\ apply_effects b subs e1 = Some (b1, subs1).
Proof.
  intros Hres Hc Hset [PL PF PO PR0 PN] Pr [L JP JF JL]. cbn [map zsum] in JP, JF. pose proof (PR0 Hset) as PR.
  assert (Rp : 0 <= zsum (map part_pool rest)) by (apply zsum_map_nonneg; intros q Hq; apply (pok_pool st q (Pr q Hq))).
  assert (Rf : 0 <= zsum (map part_fee rest)) by (apply zsum_map_nonneg; intros q Hq; apply (pok_pool st q (Pr q Hq))).
  unfold part_pool at 1 in JP. unfold part_fee at 1 in JF. rewrite Hset in JP, JF.
  assert (Hsp : forall y, In y subs -> sub_addr y = p_owner p -> p_liq p + p_fee p <= sa_spent y).
  { intros y Hy Hadr. pose proof (JL y Hy) as H. cbn [map zsum] in H.
    assert (0 <= zsum (map (lockp (sub_addr y)) rest)) by (apply zsum_map_nonneg; intros q Hq; apply (pok_pool st q (Pr q Hq))).
    unfold lockp at 1 in H. unfold lproj, lockl in H. rewrite Hadr in H, H0. rewrite Hset, Z.eqb_refl in H. lia. }
  (* the fee part, after the first group *)
  assert (Hfee : forall b2 subs2 t (refund : bool), bget b2 HOUSEFEE = bget b HOUSEFEE -> 0 <= t ->
            spent_rel subs subs2 (fun adr => if p_owner p =? adr then p_liq p else 0) ->
            exists b3 subs3, apply_effects b2 subs2 (Pay HOUSEFEE t (p_fee p) :: (if refund then [HookFeeRefund (p_owner p) (p_fee p)] else [])) = Some (b3, subs3)).
  { intros b2 subs2 t refund Hb2 Ht [N2 SR]. cbn [apply_effects].
    destruct (pay_some b2 HOUSEFEE t (p_fee p) PF ltac:(lia)) as (b3 & ->).
    destruct refund; cbn [apply_effects]; [|eexists _, _; reflexivity].
    destruct (hook_ok b3 subs2 (p_owner p) (fun x => sub_unspend x (p_fee p)) 0) as (b4 & subs4 & ->); [| lia | intros Hne; exfalso; apply Hne; reflexivity | eexists _, _; reflexivity].
    intros y1 Hy1 Hadr. destruct (SR y1 Hy1) as (y & Hy & Ei & Es). assert (Ea : sub_addr y = p_owner p) by (unfold sub_addr in *; congruence).
    apply unspend_some. rewrite Es, Ea, Z.eqb_refl. pose proof (Hsp y Hy Ea). lia. }
  unfold settle_participation. rewrite Hset.
  destruct (Z.eqb_spec st MK_DECLARED) as [Hd|Hd].
  - (* declared result *)
    assert (Hg1 : forall (g : subacc -> option subacc) (liq' : Z), liq' = p_liq p ->
              (forall y, In y subs -> sub_addr y = p_owner p -> exists y', g y = Some y') ->
              (forall x x', g x = Some x' -> sa_id x' = sa_id x /\ sa_owner x' = sa_owner x /\ sa_spent x' = sa_spent x - liq') ->
              forall fwd hook, 0 <= fwd <= p_liq p + p_profit p ->
              (forall b1, apply_effects b1 subs [hook] = match hook_sub b1 subs (p_owner p) g fwd with Some (b', s') => Some (b', s') | None => None end) ->
              forall (t : Z) (refund : bool), 0 <= t -> exists b3 subs3,
                apply_effects b subs (Pay POOL (p_owner p) (p_liq p + p_profit p) :: hook :: Pay HOUSEFEE t (p_fee p) :: (if refund then [HookFeeRefund (p_owner p) (p_fee p)] else [])) = Some (b3, subs3)).
    { intros g liq' -> Hg Hgs fwd hook Hfwd Hhook t refund Ht.
      destruct (group1_ok b subs (p_owner p) (p_liq p + p_profit p) (p_liq p) g fwd L PO ltac:(lia) Hfwd Hg Hgs) as (b1 & b2 & subs2 & P1 & H2 & Hb2 & SR).
      destruct (Hfee b2 subs2 t refund Hb2 Ht SR) as (b3 & subs3 & E3). exists b3, subs3.
      change (Pay POOL (p_owner p) (p_liq p + p_profit p) :: hook :: ?r) with ([Pay POOL (p_owner p) (p_liq p + p_profit p)] ++ [hook] ++ r).
      rewrite apply_effects_app. cbn [apply_effects]. rewrite P1. rewrite apply_effects_app, Hhook, H2. exact E3. }
    destruct (p_profit p <? 0) eqn:En.
    + apply Z.ltb_lt in En.
      assert (X : forall (t : Z) (refund : bool), 0 <= t -> exists b3 subs3,
                apply_effects b subs (Pay POOL (p_owner p) (p_liq p + p_profit p) :: HookLoss (p_owner p) (p_liq p) (Z.abs (p_profit p)) :: Pay HOUSEFEE t (p_fee p) ::
                                      (if refund then [HookFeeRefund (p_owner p) (p_fee p)] else [])) = Some (b3, subs3)).
      { apply (Hg1 (fun x => match sub_unspend x (p_liq p) with Some y => sub_addloss y (Z.abs (p_profit p)) | None => None end) (p_liq p) eq_refl) with (fwd := 0).
        - intros y Hy Hadr. destruct (unspend_some y (p_liq p)) as (y' & ->); [pose proof (Hsp y Hy Hadr); lia|].
          unfold sub_addloss. destruct (Z.abs (p_profit p) <? 0) eqn:E; [apply Z.ltb_lt in E; lia|]. eexists; reflexivity.
        - intros x x' E. exact (unspend_loss_full _ _ _ _ E).
        - lia.
        - intros b1. cbn [apply_effects]. destruct (hook_sub b1 subs (p_owner p) _ 0) as [[? ?]|]; reflexivity. }
      destruct (p_tba p =? 0).
      * destruct (X (p_owner p) true PO) as (b3 & subs3 & E). eexists _, _, b3, subs3. split; [reflexivity|exact E].
      * destruct (X creator false Hc) as (b3 & subs3 & E). eexists _, _, b3, subs3. split; [reflexivity|exact E].
    + apply Z.ltb_ge in En.
      assert (X : forall (t : Z) (refund : bool), 0 <= t -> exists b3 subs3,
                apply_effects b subs (Pay POOL (p_owner p) (p_liq p + p_profit p) :: HookWin (p_owner p) (p_liq p) (p_profit p) :: Pay HOUSEFEE t (p_fee p) ::
                                      (if refund then [HookFeeRefund (p_owner p) (p_fee p)] else [])) = Some (b3, subs3)).
      { apply (Hg1 (fun x => sub_unspend x (p_liq p)) (p_liq p) eq_refl) with (fwd := p_profit p).
        - intros y Hy Hadr. apply unspend_some. pose proof (Hsp y Hy Hadr). lia.
        - intros x x' E. exact (unspend_full _ _ _ E).
        - lia.
        - intros b1. cbn [apply_effects]. destruct (hook_sub b1 subs (p_owner p) _ (p_profit p)) as [[? ?]|]; reflexivity. }
      destruct (p_tba p =? 0).
      * destruct (X (p_owner p) true PO) as (b3 & subs3 & E). eexists _, _, b3, subs3. split; [reflexivity|exact E].
      * destruct (X creator false Hc) as (b3 & subs3 & E). eexists _, _, b3, subs3. split; [reflexivity|exact E].
  - (* cancelled or aborted: refund *)
    assert (Hor : (st =? MK_CANCELED) || (st =? MK_ABORTED) = true).
    { destruct Hres as [-> | [-> | ->]]; [reflexivity|reflexivity|contradiction]. }
    rewrite Hor. pose proof (PN Hd) as Hp0.
    destruct (group1_ok b subs (p_owner p) (p_liq p) (p_liq p) (fun x => sub_unspend x (p_liq p)) 0 L PO ltac:(lia) ltac:(lia)) as (b1 & b2 & subs2 & P1 & H2 & Hb2 & SR).
    + intros y Hy Hadr. apply unspend_some. pose proof (Hsp y Hy Hadr). lia.
    + intros x x' E. exact (unspend_full _ _ _ E).
    + destruct (Hfee b2 subs2 (p_owner p) true Hb2 PO SR) as (b3 & subs3 & E3). eexists _, _, b3, subs3. split; [reflexivity|].
      cbn [apply_effects]. rewrite P1, H2. exact E3.
Qed.

(* ---- a batch of participations -------------------------------------------------------------------------------------------------------------- *)
Lemma jst_skip b subs p rest : p_settled p = true -> jst b subs (p :: rest) -> jst b subs rest.
Proof.
  intros Hs [L JP JF JL]. cbn [map zsum] in JP, JF. unfold part_pool at 1 in JP. unfold part_fee at 1 in JF. rewrite Hs in JP, JF.
  constructor; try assumption; try lia. intros y Hy. pose proof (JL y Hy) as H. cbn [map zsum] in H. unfold lockp at 1 in H. unfold lproj, lockl in H. rewrite Hs in H. lia.
Qed.

Lemma batch_ok ps : forall st creator limit cnt b subs, status_res st -> 0 <= creator -> (forall p, In p ps -> pok st p) -> jst b subs ps ->
  exists alls c ps' effs b' subs', batch_parts ps st creator limit cnt = Some (alls, c, ps', effs) /\ apply_effects b subs effs = Some (b', subs').
Proof.
  induction ps as [|p rest IH]; intros st creator limit cnt b subs Hres Hc Hp J; cbn [batch_parts].
  - eexists _, _, _, _, b, subs. split; reflexivity.
  - assert (Hr : forall q, In q rest -> pok st q) by (intros q Hq; apply Hp; right; exact Hq).
    destruct (p_settled p) eqn:Hs.
    + destruct (limit <=? cnt); [eexists _, _, _, _, b, subs; split; reflexivity|].
      destruct (IH st creator limit cnt b subs Hres Hc Hr (jst_skip _ _ _ _ Hs J)) as (alls & c & ps' & effs & b' & subs' & E1 & E2).
      rewrite E1. eexists _, _, _, _, b', subs'. split; [reflexivity|exact E2].
    + destruct (settle_part_ok st creator p rest b subs Hres Hc Hs (Hp p (or_introl eq_refl)) Hr J) as (p' & e1 & b1 & subs1 & ES & EA).
      rewrite ES. pose proof (jst_after st creator p rest b subs p' e1 b1 subs1 ES EA Hc (Hp p (or_introl eq_refl)) Hr J) as J1.
      destruct (limit <=? cnt + 1); [eexists _, _, _, _, b1, subs1; split; [reflexivity|exact EA]|].
      destruct (IH st creator limit (cnt + 1) b1 subs1 Hres Hc Hr J1) as (alls & c & ps' & effs & b' & subs' & E1 & E2).
      rewrite E1. eexists _, _, _, _, b', subs'. split; [reflexivity|]. rewrite apply_effects_app, EA. exact E2.
Qed.

(* ---- the order-book end blocker never fails ------------------------------------------------------------------------------------------------------ *)
Record g2 (s : chain) : Prop := { g2_g1 : g1 s; g2_sinv : sinv s; g2_xinv : xinv s }.

Lemma g1_parts_nonneg s : g1 s -> Keys.keys_ok s -> parts_nonneg s.
Proof. intros G _ m x Hg p Hp. destruct (se_parts _ (g_all _ G _ (get_ms_in _ _ _ Hg)) p Hp) as [_ A B _]. split; assumption. Qed.

Lemma lock_book_nonneg x a : msett x -> 0 <= lock_book (ms_book x) a.
Proof.
  intros S. unfold lock_book. apply zsum_map_nonneg. intros p Hp. destruct (se_parts _ S p Hp) as [_ A B _].
  unfold lockp, lproj, lockl. destruct (p_settled p); [lia|]. destruct (p_owner p =? a); lia.
Qed.

Lemma remove_first_length m l : In m l -> S (length (remove_first m l)) = length l.
Proof.
  induction l as [|h t IH]; intros Hin; [destruct Hin|]. cbn [remove_first length]. destruct (Z.eqb_spec h m) as [->|Hne]; [reflexivity|].
  destruct Hin as [E|Hin]; [contradiction|]. cbn [length]. rewrite (IH Hin). reflexivity.
Qed.

Section ObEnd.
Variable P : params.
Hypothesis HP : pr_bet_fee P <= pr_bet_min P.
Hypothesis HF : 0 <= pr_bet_fee P.

Lemma ob_iter_ok s m x limit : g2 s -> get_ms s m = Some x -> bk_status (ms_book x) = BK_RESOLVED ->
  exists alls cnt ps effs bk1 subs1,
    batch_parts (bk_parts (ms_book x)) (k_status (ms_mkt x)) (k_creator (ms_mkt x)) limit 0 = Some (alls, cnt, ps, effs) /\
    apply_effects (c_bank s) (c_subs s) effs = Some (bk1, subs1) /\ g2 (ob_next s m x alls ps bk1 subs1).
Proof.
  intros [G SI XI] Hg ER. pose proof (g_inv _ G) as Hinv. pose proof (get_ms_in _ _ _ Hg) as Hin.
  pose proof (g_all _ G _ Hin) as Sx. cbn [snd] in Sx. pose proof (i_minv s Hinv _ Hin) as MI. cbn [snd] in MI.
  pose proof (g1_closed s _ G Hin) as Cx. cbn [snd] in Cx.
  assert (Hna : bk_status (ms_book x) <> BK_ACTIVE) by (rewrite ER; discriminate).
  destruct (se_done _ Sx Hna) as [Hpend Hres].
  assert (Hpok : forall p, In p (bk_parts (ms_book x)) -> pok (k_status (ms_mkt x)) p).
  { intros p Hp. destruct (se_parts _ Sx p Hp) as [K1 K2 K3 K4]. constructor; try assumption.
    - apply (mi_owner _ MI p Hp).
    - intros Hs. pose proof (part_pool_closed x p Sx Cx Hna Hp) as H. unfold part_pool in H. rewrite Hs in H. exact H.
    - intros Hnd. rewrite K4. apply exp_profit_nd. exact Hnd. }
  destruct (g1_bank s m x G Hg) as [E1 E2 E3 K1 K2 K3].
  assert (J : jst (c_bank s) (c_subs s) (bk_parts (ms_book x))).
  { constructor.
    - apply (sv_led _ SI).
    - rewrite <- pool_parts_eq. unfold owed_pool, open_amt in E1, K1.
      assert (0 <= zsum (map bet_open_amt (ms_bets x))) by (apply zsum_map_nonneg; apply open_amt_nonneg; exact Sx). lia.
    - rewrite <- fee_parts_eq. unfold owed_hfee in E2, K2. lia.
    - intros y Hy. pose proof (x_lock _ XI y Hy) as L. unfold locked in L.
      pose proof (tot_rest_nonneg (fun z => lock_book (ms_book z) (sub_addr y)) (c_ms s) m x (get_ms_find _ _ _ Hg)
                    ltac:(intros e He; apply lock_book_nonneg; apply (g_all _ G e He))) as R. cbn beta in R.
      fold (lock_book (ms_book x) (sub_addr y)). lia. }
  destruct (batch_ok _ (k_status (ms_mkt x)) (k_creator (ms_mkt x)) limit 0 (c_bank s) (c_subs s) Hres (mi_creator _ MI) Hpok J)
    as (alls & cnt & ps & effs & bk1 & subs1 & EB & EA).
  exists alls, cnt, ps, effs, bk1, subs1. split; [exact EB|]. split; [exact EA|].
  destruct (ob_iter_xinv s m x limit alls cnt ps effs bk1 subs1 XI (lo_ids _ _ (sv_led _ SI)) (g1_parts_nonneg s G (g_keys _ G)) Hg ER EB EA) as (XI1 & _ & _).
  constructor; [constructor| |exact XI1].
  - apply (ob_iter_inv s m x limit alls cnt ps effs bk1 subs1 _ Hinv Hg ER EB EA).
  - unfold ob_next. eapply binv_upd_keep; [exact (g_binv _ G)|exact Hg|reflexivity|reflexivity].
  - unfold Keys.keys_ok, ob_next. cbn [c_ms chain_upd]. apply Keys.nodup_keys_set. exact (g_keys _ G).
  - unfold ob_next. cbn [c_ms chain_upd]. intros e He. unfold set_ms_list in He. apply in_upd in He. destruct He as [->|He]; [|apply (g_all _ G e He)].
    cbn [snd]. eapply (msett_step P); [exact HP|exact HF|exact Sx|]. pose proof (MT_settle_parts P x limit alls cnt ps effs ER EB) as T. unfold with_book in T. exact T.
  - destruct (effects_sinv s effs bk1 subs1 (batch_parts_balanced _ _ _ _ _ _ _ _ _ EB) EA SI) as [L1 S1].
    eapply (sinv_of s bk1 subs1 (c_subnext s)); try eassumption; try reflexivity; lia.
Qed.

Lemma ob_endblock_ok fuel : forall s n i, g2 s -> (length (c_bqueue s) - i < fuel)%nat ->
  exists s', ob_endblock fuel s n i = Some s' /\ g2 s'.
Proof.
  induction fuel as [|f IH]; intros s n i G Hlen; [lia|]. cbn [ob_endblock].
  destruct (n <=? 0); [eexists; split; [reflexivity|exact G]|].
  destruct (nth_error (c_bqueue s) i) as [m|] eqn:EN; [|eexists; split; [reflexivity|exact G]].
  assert (Hmin : In m (c_bqueue s)) by (eapply nth_error_In; exact EN).
  assert (Hi : (i < length (c_bqueue s))%nat) by (apply nth_error_Some; rewrite EN; discriminate).
  destruct (x_bq _ (g2_xinv _ G) m Hmin) as (x & Hg & ER). rewrite Hg.
  destruct (negb (bk_status (ms_book x) =? BK_RESOLVED)) eqn:EN2; [rewrite ER in EN2; discriminate|].
  destruct (ob_iter_ok s m x n G Hg ER) as (alls & cnt & ps & effs & bk1 & subs1 & EB & EA & G1).
  rewrite EB, EA. apply (IH (ob_next s m x alls ps bk1 subs1)); [exact G1|].
  unfold ob_next. cbn [c_bqueue chain_upd]. destruct alls.
  - unfold remove_uid. pose proof (remove_first_length m _ Hmin). lia.
  - lia.
Qed.
End ObEnd.

(* ---- the mint begin blocker --------------------------------------------------------------------------------------------------------------------- *)
Record mlive (s : chain) : Prop := { ml_minter : minter_ok (c_minter s); ml_params : mparams_valid (c_mparams s) = true; ml_height : 0 <= c_height s }.

Lemma step_mlive s o : mlive s -> mlive (fst (step s o)).
Proof.
  intros [M V Hh]. destruct o as [t| | | | | | | | | | | | | | | | | | ].
  1:{ unfold step. destruct (c_halted s); [constructor; assumption|]. unfold begin_block_op.
      destruct (begin_block_live (c_mparams s) (c_minter s) (c_supply s) (c_height s + 1) V M ltac:(lia)) as (m' & minted & E & M' & _). rewrite E. cbn [fst].
      constructor; cbn [c_minter c_mparams c_height chain_core]; [exact M'|exact V|lia]. }
  all: match goal with |- mlive (fst (step ?ss ?o)) =>
         destruct (step_neutral ss o ltac:(intros t0; discriminate)) as (_ & E1 & E2 & _); pose proof (Height.step_hgt ss o) as E3; unfold Height.hgt_frame in E3;
         constructor; [rewrite E1; exact M|rewrite E2; exact V|lia] end.
Qed.

Lemma run_mlive ops : forall s, mlive s -> mlive (run s ops).
Proof. induction ops as [|o r IH]; intros s H; cbn [run fold_left]; [exact H|]. apply IH. apply step_mlive. exact H. Qed.

(* ---- every history ---------------------------------------------------------------------------------------------------------------------------------- *)
Section History.
Variables (P : params) (bk : bank) (supply : Z) (vault : list Z) (MP : mparams) (t0 : Z) (sw sd : bool).
Hypothesis HP : pr_bet_fee P <= pr_bet_min P.
Hypothesis HF : 0 <= pr_bet_fee P.
Hypothesis B1 : bget bk POOL = 0.
Hypothesis B2 : bget bk HOUSEFEE = 0.
Hypothesis B3 : bget bk BETFEE = 0.
Hypothesis Hb : forall a, SUBBASE <= a -> 0 <= bget bk a.
Hypothesis HM : mparams_valid MP = true.

Let s0 := init bk supply P vault MP t0 sw sd.

Lemma g2_reachable ops : Forall user_op ops -> g2 (run s0 ops).
Proof.
  intros Hv. assert (Hval : Forall valid_op ops) by (eapply Forall_impl; [|exact Hv]; intros a Ha; apply user_valid; exact Ha).
  assert (Hk : Keys.keys_ok (run s0 ops)) by (apply Keys.run_keys; constructor).
  constructor; [constructor| |].
  - apply run_inv; [apply init_inv; assumption|exact Hval].
  - apply run_binv. apply init_binv.
  - exact Hk.
  - intros [m x] He. cbn [snd]. eapply (settle_over_histories P bk supply vault MP t0 sw sd ops); try eassumption. apply (keys_get (run s0 ops) m x Hk He).
  - apply run_sinv; [|exact Hv]. constructor; cbn; [constructor; cbn; [exact Hb|constructor|intros x []]|constructor|intros x []|lia].
  - apply xinv_over_histories; assumption.
Qed.

Lemma mlive_reachable ops : mlive (run s0 ops).
Proof. apply run_mlive. unfold s0. constructor; [split; cbn [c_minter init m_prov m_trunc]; [lia|unfold PREC; lia]|exact HM|cbn [c_height init]; lia]. Qed.

(* one more operation on a reachable, not halted state leaves the chain not halted *)
Theorem step_no_abort ops o : Forall user_op ops -> c_halted (run s0 ops) = false -> c_halted (fst (step (run s0 ops) o)) = false.
Proof.
  intros Hv Hh. set (s := run s0 ops) in *.
  destruct o as [t| | | | | | | | | | | | | | | | | | ].
  1:{ unfold step. rewrite Hh. unfold begin_block_op. destruct (mlive_reachable ops) as [M V H0]. fold s in M, V, H0.
      destruct (begin_block_live (c_mparams s) (c_minter s) (c_supply s) (c_height s + 1) V M ltac:(lia)) as (m' & minted & E & _). rewrite E. reflexivity. }
  1:{ unfold step. rewrite Hh. unfold end_block. pose proof (g2_reachable ops Hv) as G. fold s in G.
      destruct (bet_endblock_ok P HP HF (S (length (c_mqueue s) + total_pending s)) s (pr_bet_batch (c_prm s)) (g2_g1 _ G) ltac:(lia)) as (s1 & E1 & G1). rewrite E1.
      assert (G2 : g2 s1) by (constructor; [exact G1|eapply bet_endblock_sinv; [exact E1|apply (g2_sinv _ G)]|eapply bet_endblock_xinv; [exact E1|apply (g2_xinv _ G)]]).
      destruct (ob_endblock_ok P HP HF (S (length (c_bqueue s1))) s1 (pr_ob_batch (c_prm s1)) O G2 ltac:(lia)) as (s2 & E2 & _). rewrite E2. cbn [fst].
      unfold ovm_endblock. destruct (ovm_finish _ _ _ _) as [ps v]. cbn [c_halted chain_set_ovm].
      rewrite (Halted.ob_endblock_frame _ _ _ _ _ E2), (Halted.bet_endblock_frame _ _ _ _ E1). exact Hh. }
  all: apply Halted.tx_op_hfr; [intros t0' E; discriminate E|intros E; discriminate E|exact Hh].
Qed.

Theorem no_abort ops : Forall user_op ops -> c_halted (run s0 ops) = false.
Proof.
  induction ops as [|o ops IH] using rev_ind; intros Hv; [reflexivity|].
  apply Forall_app in Hv. destruct Hv as [Hv _]. rewrite run_snoc. apply step_no_abort; [exact Hv|apply IH; exact Hv].
Qed.

(* C04 / C02 over histories: profit attribution, and the payout formula of a participation once its market's bets are all settled *)
Theorem attribution_over_histories ops m x p : Forall user_op ops -> get_ms (run s0 ops) m = Some x -> In p (bk_parts (ms_book x)) ->
  p_profit p = exp_profit x (p_idx p).
Proof.
  intros Hv Hg Hp. pose proof (g2_reachable ops Hv) as G. apply (po_profit _ _ (se_parts _ (g_all _ (g2_g1 _ G) _ (get_ms_in _ _ _ Hg)) p Hp)).
Qed.

Theorem payout_over_histories ops m x p w : Forall user_op ops -> get_ms (run s0 ops) m = Some x -> In p (bk_parts (ms_book x)) ->
  bk_status (ms_book x) <> BK_ACTIVE -> k_status (ms_mkt x) = MK_DECLARED -> k_winners (ms_mkt x) = [w] ->
  (forall b, In b (ms_bets x) -> b_status b = BS_SETTLED) /\
  p_liq p + p_profit p =
    p_liq p + (stake_i (p_idx p) (bets_of x) - stake_io (p_idx p) w (bets_of x)) - pay_io (p_idx p) w (bets_of x) /\
  0 <= p_liq p + p_profit p.
Proof.
  intros Hv Hg Hp Hna Hd Hw. pose proof (g2_reachable ops Hv) as G. pose proof (get_ms_in _ _ _ Hg) as Hin.
  pose proof (g_all _ (g2_g1 _ G) _ Hin) as S. cbn [snd] in S. pose proof (g1_closed _ _ (g2_g1 _ G) Hin) as C. cbn [snd] in C.
  split; [intros b Hbb; pose proof (C Hna b Hbb) as E; unfold is_settled in E; apply Z.eqb_eq in E; exact E|].
  apply payout_formula; assumption.
Qed.

Theorem refund_over_histories ops m x p : Forall user_op ops -> get_ms (run s0 ops) m = Some x -> In p (bk_parts (ms_book x)) ->
  k_status (ms_mkt x) <> MK_DECLARED -> p_profit p = 0 /\ 0 <= p_liq p /\ 0 <= p_fee p.
Proof.
  intros Hv Hg Hp Hd. pose proof (g2_reachable ops Hv) as G. destruct (se_parts _ (g_all _ (g2_g1 _ G) _ (get_ms_in _ _ _ Hg)) p Hp) as [K1 K2 K3 K4].
  cbn [snd] in K4. rewrite K4, exp_profit_nd by exact Hd. repeat split; assumption.
Qed.

(* equivalently: no operation of any history outputs Panic *)
Theorem no_panic ops o : Forall user_op ops -> snd (step (run s0 ops) o) <> Panic.
Proof.
  intros Hv. pose proof (no_abort ops Hv) as Hh. pose proof (step_no_abort ops o Hv Hh) as H1. intros E.
  set (s := run s0 ops) in *. unfold step in *. rewrite Hh in *.
  destruct o; try (unfold tx in E; match type of E with snd (match ?r with _ => _ end) = _ => destruct r end; discriminate E).
  - unfold begin_block_op in *. destruct (begin_block _ _ _ _); [discriminate E|]. cbn in H1. discriminate H1.
  - unfold end_block in *. destruct (bet_endblock _ s _) as [s1|]; [|cbn in H1; discriminate H1].
    destruct (ob_endblock _ s1 _ _) as [s2|]; [discriminate E|cbn in H1; discriminate H1].
Qed.
End History.

(* Proofs/SubInv.v — subaccount ledger kernels and the time-lock bound (C11). *)
From Coq Require Import ZArith Bool List Lia.
From Sge Require Import Lib.Dec Model.Types Model.Orderbook Model.Mint Model.Chain Proofs.Tactics.
Import ListNotations.
Open Scope Z_scope.

Definition sub_nonneg (x : subacc) : Prop := 0 <= sa_dep x /\ 0 <= sa_spent x /\ 0 <= sa_wd x /\ 0 <= sa_lost x.

(* the four ledger operations keep every amount non-negative and never let the available amount go negative *)
Lemma sub_spend_ok x a x' : sub_spend x a = Some x' -> sub_nonneg x ->
  sub_nonneg x' /\ sa_spent x' = sa_spent x + a /\ 0 <= a <= sub_available x /\ sub_available x' = sub_available x - a /\
  sa_id x' = sa_id x /\ sa_owner x' = sa_owner x /\ sa_locks x' = sa_locks x.
Proof.
  unfold sub_spend, sub_nonneg, sub_available. intros H (A&B&C&D). dmatch H. inv H. cbn.
  repeat match goal with X : (_ <? _) = false |- _ => apply Z.ltb_ge in X end. repeat split; lia.
Qed.
Lemma sub_unspend_ok x a x' : sub_unspend x a = Some x' -> sub_nonneg x ->
  sub_nonneg x' /\ sa_spent x' = sa_spent x - a /\ 0 <= a <= sa_spent x /\
  sa_id x' = sa_id x /\ sa_owner x' = sa_owner x /\ sa_locks x' = sa_locks x.
Proof.
  unfold sub_unspend, sub_nonneg. intros H (A&B&C&D). dmatch H. inv H. cbn.
  repeat match goal with X : (_ <? _) = false |- _ => apply Z.ltb_ge in X end. repeat split; lia.
Qed.
Lemma sub_addloss_ok x a x' : sub_addloss x a = Some x' -> sub_nonneg x -> sub_nonneg x' /\ sa_lost x' = sa_lost x + a /\ 0 <= a.
Proof.
  unfold sub_addloss, sub_nonneg. intros H (A&B&C&D). dmatch H. inv H. cbn.
  repeat match goal with X : (_ <? _) = false |- _ => apply Z.ltb_ge in X end. repeat split; lia.
Qed.
Lemma sub_withdraw_ok x a x' : sub_withdraw x a = Some x' -> sub_nonneg x ->
  sub_nonneg x' /\ sa_wd x' = sa_wd x + a /\ 0 <= a <= sub_available x /\ sub_available x' = sub_available x - a.
Proof.
  unfold sub_withdraw, sub_nonneg, sub_available. intros H (A&B&C&D). dmatch H. inv H. cbn.
  repeat match goal with X : (_ <? _) = false |- _ => apply Z.ltb_ge in X end. repeat split; lia.
Qed.

(* the time lock: an unlocked-balance withdrawal pays w > 0 from the subaccount to its owner, and afterwards
   everything that ever left the subaccount (Withdrawn, which includes every earlier unlocked withdrawal)
   is at most the total whose unlock time has passed *)
Theorem withdraw_unlocked_bound s owner s' :
  sub_withdraw_unlocked s owner = Some s' ->
  exists x x' w,
    sub_by_owner (c_subs s) owner = Some x /\ 0 < w /\
    sa_wd x' = sa_wd x + w /\ sa_wd x' <= unlocked_total (c_now s) x /\
    w <= sub_available x /\ w <= bget (c_bank s) (sub_addr x) /\
    pay (c_bank s) (sub_addr x) owner w = Some (c_bank s') /\
    c_subs s' = set_sub (c_subs s) x' /\ sa_locks x' = sa_locks x /\ sa_dep x' = sa_dep x.
Proof.
  unfold sub_withdraw_unlocked. intros H.
  destruct (sub_by_owner (c_subs s) owner) as [x|] eqn:EO; [|discriminate].
  set (w := Z.min (Z.min (sub_available x) (zmax0 (unlocked_total (c_now s) x - sa_wd x))) (bget (c_bank s) (sub_addr x))) in *.
  destruct (w =? 0) eqn:E0; [discriminate|]. apply Z.eqb_neq in E0.
  destruct (sub_withdraw x w) as [x'|] eqn:EW; [|discriminate].
  destruct (pay (c_bank s) (sub_addr x) owner w) as [b|] eqn:EP; [|discriminate].
  inv H. exists x, x', w.
  unfold sub_withdraw in EW. destruct (w <? 0) eqn:En; [discriminate|]. apply Z.ltb_ge in En.
  destruct (sub_available x <? w) eqn:Ea; [discriminate|]. apply Z.ltb_ge in Ea. inv EW.
  unfold zmax0 in w.
  cbn [c_bank c_subs set_bank with_subs chain_set_subs chain_upd sa_wd sa_locks sa_dep sub_with].
  repeat split; try reflexivity; try assumption; try lia.
Qed.

(* one subaccount per owner: creation is refused when the owner already has one, and uses a fresh id *)
Theorem sub_create_fresh s creator owner locks s' :
  sub_create s creator owner locks = Some s' ->
  sub_by_owner (c_subs s) owner = None /\
  exists x, c_subs s' = c_subs s ++ [x] /\ sa_id x = c_subnext s /\ sa_owner x = owner /\ c_subnext s' = c_subnext s + 1 /\
            sa_spent x = 0 /\ sa_wd x = 0 /\ sa_lost x = 0 /\
            sum_locks (c_now s) locks = Some (sa_dep x) /\
            pay (c_bank s) creator (SUBBASE + c_subnext s) (sa_dep x) = Some (c_bank s').
Proof.
  unfold sub_create. intros H. dmatch H. inv H. split; [reflexivity|].
  eexists. cbn [c_bank c_subs c_subnext set_bank chain_set_subs chain_upd sa_id sa_owner sa_spent sa_wd sa_lost sa_dep].
  repeat split; try reflexivity; assumption.
Qed.

(* tokens leave a subaccount toward its owner only through the two subaccount messages that release or
   stake them: every other transaction leaves the subaccount ledger entries' Withdrawn amount unchanged *)
Lemma hook_sub_wd b subs a f fwd b' subs' :
  hook_sub b subs a f fwd = Some (b', subs') ->
  (forall x x', f x = Some x' -> sa_wd x' = sa_wd x /\ sa_id x' = sa_id x) ->
  map sa_id subs' = map sa_id subs -> True.
Proof. trivial. Qed.

(* Proofs/BetIndex.v — C08 / C03 over histories: the bet indexes.
   In every reachable state: the bet counter equals the number of bets; bet ids are 1..counter and pairwise distinct over
   all markets; every bet's (uid, id) is in the uid index, which has exactly counter entries with distinct uids; the
   pending index of a market is exactly the list of ids of its unsettled bets (in order, hence each exactly once); the
   settled index has no duplicates and lists exactly (settlement height, id) of the settled bets. *)
From Coq Require Import ZArith Bool List Lia.
From Sge Require Import Lib.Dec Model.Types Model.Orderbook Model.Mint Model.Chain
     Proofs.Tactics Proofs.CustodyLocal Proofs.Custody.
Import ListNotations.
Open Scope Z_scope.

Definition all_bets (l : list (Z * mstate)) : list bet := flat_map (fun e => ms_bets (snd e)) l.
Definition unsettledb (b : bet) : bool := negb (b_status b =? BS_SETTLED).
Definition unsettled_ids (bs : list bet) : list Z := map b_id (filter unsettledb bs).

(* the part of the invariant that speaks about all bets of the chain *)
Record ginv (all : list bet) (cnt : Z) (u2i sidx : list (Z * Z)) : Prop := {
  g_cnt : zlen all = cnt;
  g_rng : forall b, In b all -> 1 <= b_id b <= cnt;
  g_ids : NoDup (map b_id all);
  g_u2i_len : zlen u2i = cnt;
  g_u2i : forall b, In b all -> In (b_uid b, b_id b) u2i;
  g_uids : NoDup (map fst u2i);
  g_sidx_nodup : NoDup sidx;
  g_sidx : forall h id, In (h, id) sidx <->
             exists b, In b all /\ b_id b = id /\ b_status b = BS_SETTLED /\ b_sheight b = h }.

Record binv (s : chain) : Prop := {
  bi_g : ginv (all_bets (c_ms s)) (c_betcnt s) (c_uid2id s) (c_settledix s);
  bi_pend : forall e, In e (c_ms s) -> ms_pending (snd e) = unsettled_ids (ms_bets (snd e)) }.

(* ---- list facts ------------------------------------------------------------------------------------------------------ *)
Lemma zlen_app {A} (l1 l2 : list A) : zlen (l1 ++ l2) = zlen l1 + zlen l2.
Proof. unfold zlen. rewrite app_length. lia. Qed.
Lemma zlen_cons {A} (x : A) l : zlen (x :: l) = 1 + zlen l.
Proof. unfold zlen. cbn [length]. lia. Qed.

Lemma upd_split {A} (f : A -> bool) (y : A) l : find f l = Some y ->
  exists l1 l2, l = l1 ++ y :: l2 /\ forall v, upd f v l = l1 ++ v :: l2.
Proof.
  induction l as [|z r IH]; cbn [find upd]; intros H; [discriminate|].
  destruct (f z) eqn:E.
  - inv H. exists [], r. split; [reflexivity|]. intros v. reflexivity.
  - destruct (IH H) as (l1 & l2 & E1 & E2). exists (z :: l1), l2. split; [cbn; rewrite <- E1; reflexivity|].
    intros v. cbn [app]. rewrite E2. reflexivity.
Qed.

Lemma all_bets_app l1 l2 : all_bets (l1 ++ l2) = all_bets l1 ++ all_bets l2.
Proof. unfold all_bets. apply flat_map_app. Qed.
Lemma all_bets_cons m x l : all_bets ((m, x) :: l) = ms_bets x ++ all_bets l.
Proof. reflexivity. Qed.

Lemma NoDup_app_insert {A} (l r : list A) x : NoDup (l ++ r) -> ~ In x (l ++ r) -> NoDup (l ++ x :: r).
Proof.
  intros Hn Hx. apply NoDup_Add with (a := x) (l := l ++ r); [apply Add_app|]. split; assumption.
Qed.

(* ---- insertion of a new bet -------------------------------------------------------------------------------------------- *)
Lemma ginv_add L R cnt u2i sidx b :
  ginv (L ++ R) cnt u2i sidx -> b_id b = cnt + 1 -> b_status b <> BS_SETTLED -> ~ In (b_uid b) (map fst u2i) ->
  ginv (L ++ b :: R) (cnt + 1) (u2i ++ [(b_uid b, cnt + 1)]) sidx.
Proof.
  intros [C Rg I UL U UN SN S] Hid Hst Hu.
  assert (Hc0 : 0 <= cnt) by (rewrite <- C; unfold zlen; lia).
  assert (Hin : forall c, In c (L ++ b :: R) <-> c = b \/ In c (L ++ R)).
  { intros c. rewrite !in_app_iff. cbn [In]. intuition. }
  constructor.
  - rewrite zlen_app, zlen_cons. rewrite zlen_app in C. lia.
  - intros c Hc. apply Hin in Hc. destruct Hc as [->|Hc]; [lia|]. pose proof (Rg c Hc). lia.
  - rewrite map_app. cbn [map]. rewrite map_app in I. apply NoDup_app_insert; [exact I|].
    intros Hc. rewrite <- map_app in Hc. apply in_map_iff in Hc. destruct Hc as (c & Ec & Hc). pose proof (Rg c Hc). lia.
  - rewrite zlen_app, zlen_cons. unfold zlen at 2. cbn [length]. lia.
  - intros c Hc. apply Hin in Hc. apply in_or_app. destruct Hc as [->|Hc]; [right; left; rewrite Hid; reflexivity|left; apply U; exact Hc].
  - rewrite map_app. cbn [map fst]. apply NoDup_snoc; assumption.
  - exact SN.
  - intros h id. rewrite S. split; intros (c & Hc & E1 & E2 & E3).
    + exists c. split; [apply Hin; right; exact Hc|repeat split; assumption].
    + apply Hin in Hc. destruct Hc as [->|Hc]; [contradiction|]. exists c. repeat split; assumption.
Qed.

(* ---- settlement of one bet, in place ------------------------------------------------------------------------------------ *)
Lemma ginv_settle L R cnt u2i sidx b r h :
  ginv (L ++ b :: R) cnt u2i sidx -> b_status b <> BS_SETTLED ->
  ginv (L ++ bet_with b BS_SETTLED r h :: R) cnt u2i (sidx ++ [(h, b_id b)]).
Proof.
  intros [C Rg I UL U UN SN S] Hst. set (b' := bet_with b BS_SETTLED r h).
  assert (Hin : forall c, In c (L ++ b' :: R) <-> c = b' \/ In c L \/ In c R).
  { intros c. rewrite !in_app_iff. cbn [In]. intuition. }
  assert (Hin0 : forall c, In c (L ++ b :: R) <-> c = b \/ In c L \/ In c R).
  { intros c. rewrite !in_app_iff. cbn [In]. intuition. }
  assert (Huniq : forall c, In c (L ++ b :: R) -> b_id c = b_id b -> c = b).
  { intros c Hc E. eapply NoDup_map_inj; [exact I|exact Hc|apply Hin0; left; reflexivity|exact E]. }
  constructor.
  - rewrite zlen_app, zlen_cons. rewrite zlen_app, zlen_cons in C. exact C.
  - intros c Hc. apply Hin in Hc. destruct Hc as [->|Hc]; [apply (Rg b); apply Hin0; left; reflexivity|apply Rg; apply Hin0; right; exact Hc].
  - rewrite map_app in *. cbn [map] in *. exact I.
  - exact UL.
  - intros c Hc. apply Hin in Hc. destruct Hc as [->|Hc]; [apply (U b); apply Hin0; left; reflexivity|apply U; apply Hin0; right; exact Hc].
  - exact UN.
  - apply NoDup_snoc; [exact SN|]. intros Hc. apply S in Hc. destruct Hc as (c & Hc & E1 & E2 & _).
    rewrite (Huniq c Hc E1) in E2. contradiction.
  - intros h0 id. rewrite in_app_iff, S. cbn [In]. split.
    + intros [(c & Hc & E1 & E2 & E3)|[E|[]]].
      * exists c. split; [|repeat split; assumption]. apply Hin. apply Hin0 in Hc. destruct Hc as [->|Hc]; [contradiction|right; exact Hc].
      * inv E. exists b'. split; [apply Hin; left; reflexivity|repeat split; reflexivity].
    + intros (c & Hc & E1 & E2 & E3). apply Hin in Hc. destruct Hc as [->|Hc].
      * right. left. cbn in E1, E3. subst. reflexivity.
      * left. exists c. split; [apply Hin0; right; exact Hc|repeat split; assumption].
Qed.

(* the pending index of the market under the same replacement *)
Lemma unsettled_ids_app l1 l2 : unsettled_ids (l1 ++ l2) = unsettled_ids l1 ++ unsettled_ids l2.
Proof. unfold unsettled_ids. rewrite filter_app, map_app. reflexivity. Qed.

Lemma remb_notin id l : ~ In id l -> remb (Z.eqb id) l = l.
Proof.
  unfold remb. induction l as [|y r IH]; cbn [filter]; intros H; [reflexivity|].
  destruct (Z.eqb_spec id y) as [->|Hne]; [exfalso; apply H; left; reflexivity|].
  cbn [negb]. rewrite IH; [reflexivity|]. intros Hin. apply H. right. exact Hin.
Qed.

Lemma remb_app id (l1 l2 : list Z) : remb (Z.eqb id) (l1 ++ l2) = remb (Z.eqb id) l1 ++ remb (Z.eqb id) l2.
Proof. unfold remb. apply filter_app. Qed.

Lemma unsettled_ids_sub bs id : In id (unsettled_ids bs) -> In id (map b_id bs).
Proof.
  unfold unsettled_ids. intros H. apply in_map_iff in H. destruct H as (c & E & Hc). apply filter_In in Hc.
  apply in_map_iff. exists c. split; [exact E|tauto].
Qed.

Lemma unsettled_ids_cons_open b l : b_status b <> BS_SETTLED -> unsettled_ids (b :: l) = b_id b :: unsettled_ids l.
Proof.
  intros H. unfold unsettled_ids. cbn [filter]. unfold unsettledb at 1.
  destruct (b_status b =? BS_SETTLED) eqn:E; [apply Z.eqb_eq in E; contradiction|]. reflexivity.
Qed.
Lemma unsettled_ids_cons_settled b l : b_status b = BS_SETTLED -> unsettled_ids (b :: l) = unsettled_ids l.
Proof.
  intros H. unfold unsettled_ids. cbn [filter]. unfold unsettledb at 1. rewrite H. reflexivity.
Qed.

Lemma pending_settle B1 B2 b r h :
  NoDup (map b_id (B1 ++ b :: B2)) -> b_status b <> BS_SETTLED ->
  remb (Z.eqb (b_id b)) (unsettled_ids (B1 ++ b :: B2)) = unsettled_ids (B1 ++ bet_with b BS_SETTLED r h :: B2).
Proof.
  intros Hn Hst. rewrite !unsettled_ids_app, remb_app.
  rewrite map_app in Hn. cbn [map] in Hn. apply NoDup_remove_2 in Hn.
  assert (H1 : ~ In (b_id b) (unsettled_ids B1)).
  { intros Hc. apply Hn. apply in_or_app. left. apply unsettled_ids_sub. exact Hc. }
  assert (H2 : ~ In (b_id b) (unsettled_ids B2)).
  { intros Hc. apply Hn. apply in_or_app. right. apply unsettled_ids_sub. exact Hc. }
  rewrite (remb_notin _ _ H1). f_equal.
  rewrite (unsettled_ids_cons_open _ _ Hst), unsettled_ids_cons_settled by reflexivity.
  unfold remb. cbn [filter]. rewrite Z.eqb_refl. cbn [negb]. apply (remb_notin _ _ H2).
Qed.

(* ---- from lists to the chain ------------------------------------------------------------------------------------------ *)
Lemma set_ms_split_all l m x : find (fun e : Z * mstate => fst e =? m) l = Some (m, x) ->
  exists l1 l2, l = l1 ++ (m, x) :: l2 /\ forall v, set_ms_list l m v = l1 ++ (m, v) :: l2.
Proof.
  intros H. destruct (upd_split _ _ _ H) as (l1 & l2 & E1 & E2). exists l1, l2. split; [exact E1|].
  intros v. unfold set_ms_list. apply E2.
Qed.
Lemma set_ms_split l m x x' : find (fun e : Z * mstate => fst e =? m) l = Some (m, x) ->
  exists l1 l2, l = l1 ++ (m, x) :: l2 /\ set_ms_list l m x' = l1 ++ (m, x') :: l2.
Proof. intros H. destruct (set_ms_split_all _ _ _ H) as (l1 & l2 & E1 & E2). exists l1, l2. split; [exact E1|apply E2]. Qed.

Lemma binv_same s s' :
  binv s -> c_ms s' = c_ms s -> c_betcnt s' = c_betcnt s -> c_uid2id s' = c_uid2id s -> c_settledix s' = c_settledix s -> binv s'.
Proof. intros [G P] E1 E2 E3 E4. constructor; rewrite ?E1, ?E2, ?E3, ?E4; assumption. Qed.

(* a market's state is replaced by one with the same bets and the same pending index *)
Lemma binv_upd_keep s s0 m x x' bank' mq bq gr :
  binv s -> get_ms s m = Some x -> ms_bets x' = ms_bets x -> ms_pending x' = ms_pending x ->
  binv (chain_upd s0 bank' (set_ms_list (c_ms s) m x') mq bq (c_betcnt s) (c_uid2id s) (c_settledix s) gr).
Proof.
  intros [G P] Hg Hb Hp. pose proof (get_ms_find _ _ _ Hg) as Hf.
  destruct (set_ms_split _ _ _ x' Hf) as (l1 & l2 & E1 & E2).
  constructor; cbn [c_ms c_betcnt c_uid2id c_settledix chain_upd].
  - rewrite E2, all_bets_app, all_bets_cons, Hb. rewrite E1, all_bets_app, all_bets_cons in G. exact G.
  - intros e He. unfold set_ms_list in He. apply in_upd in He. destruct He as [->|He]; [|apply P; exact He].
    cbn [snd]. rewrite Hb, Hp. apply (P (m, x)). apply get_ms_in. exact Hg.
Qed.

Lemma market_add_binv s sg tk u st en od sts s' : binv s -> market_add s sg tk u st en od sts = Some s' -> binv s'.
Proof.
  intros [G P] H. unfold market_add in H. dmatchS H. inv H.
  constructor; cbn [c_ms c_betcnt c_uid2id c_settledix chain_upd].
  - rewrite all_bets_app. cbn. rewrite app_nil_r. exact G.
  - intros e He. apply in_app_or in He. destruct He as [He|[<-|[]]]; [apply P; exact He|reflexivity].
Qed.

Lemma market_update_binv s tk u st en sts s' : binv s -> market_update s tk u st en sts = Some s' -> binv s'.
Proof. intros Hb H. unfold market_update in H. dmatchS H. inv H. eapply binv_upd_keep; try eassumption; reflexivity. Qed.
Lemma market_resolve_binv s tk u r w sts s' : binv s -> market_resolve s tk u r w sts = Some s' -> binv s'.
Proof. intros Hb H. unfold market_resolve in H. dmatchS H. inv H. eapply binv_upd_keep; try eassumption; reflexivity. Qed.
Lemma house_deposit_core_binv s c d m a g s' : binv s -> house_deposit_core s c d m a g = Some s' -> binv s'.
Proof. intros Hb H. unfold house_deposit_core in H. dmatchS H. inv H. eapply binv_upd_keep; try eassumption; reflexivity. Qed.
Lemma withdraw_core_binv s sg d m p mo a ob s' amt : binv s -> withdraw_core s sg d m p mo a ob = Some (s', amt) -> binv s'.
Proof. intros Hb H. unfold withdraw_core in H. dmatchS H. inv H. eapply binv_upd_keep; try eassumption; reflexivity. Qed.

Lemma wager_core_binv s sg u a sm so ov mu al s' :
  binv s -> existsb (fun x => fst x =? u) (c_uid2id s) = false -> wager_core s sg u a sm so ov mu al = Some s' -> binv s'.
Proof.
  intros [G P] Hfresh H. unfold wager_core in H. dmatchS H. inv H.
  match goal with E : get_ms s sm = Some ?x |- _ => rename E into Hg; rename x into x0 end.
  pose proof (get_ms_find _ _ _ Hg) as Hf.
  match goal with |- context [set_ms_list (c_ms s) sm ?x1] => destruct (set_ms_split _ _ _ x1 Hf) as (ma & mb & Ea & Eb) end.
  constructor; cbn [c_ms c_betcnt c_uid2id c_settledix chain_upd].
  - rewrite Eb, all_bets_app, all_bets_cons. cbn [ms_bets mstate_upd]. rewrite <- !app_assoc. cbn [app].
    rewrite Ea, all_bets_app, all_bets_cons in G. rewrite app_assoc in G. rewrite app_assoc.
    match goal with |- ginv (_ ++ ?b :: _) _ (_ ++ [(?uu, ?ii)]) _ => change (uu, ii) with (b_uid b, c_betcnt s + 1) end.
    apply ginv_add; [exact G|reflexivity|cbn; unfold BS_PLACED, BS_SETTLED; lia|].
    cbn [b_uid]. intros Hin. apply in_map_iff in Hin. destruct Hin as ([u0 i0] & Eu & Hin). cbn in Eu. subst u0.
    assert (Hex : existsb (fun x => fst x =? u) (c_uid2id s) = true).
    { apply existsb_exists. exists (u, i0). split; [exact Hin|cbn; apply Z.eqb_refl]. }
    rewrite Hfresh in Hex. discriminate.
  - intros e He. unfold set_ms_list in He. apply in_upd in He. destruct He as [->|He]; [|apply P; exact He].
    cbn [snd ms_pending ms_bets mstate_upd]. rewrite unsettled_ids_app.
    pose proof (P (sm, x0) (get_ms_in _ _ _ Hg)) as Hp0. cbn [snd] in Hp0. rewrite Hp0. f_equal.
Qed.

(* ---- settlement ---------------------------------------------------------------------------------------------------------- *)
Lemma settle_bet_shape x h id x' effs : settle_bet x h id = Some (x', effs) ->
  exists b r, find (fun c => b_id c =? id) (ms_bets x) = Some b /\ b_status b <> BS_SETTLED /\
    ms_bets x' = upd (fun c => b_id c =? id) (bet_with b BS_SETTLED r h) (ms_bets x) /\
    ms_pending x' = remb (Z.eqb id) (ms_pending x).
Proof.
  intros H. unfold settle_bet in H. cbv beta zeta in H.
  destruct (findb (fun b => b_id b =? id) (ms_bets x)) as [b|] eqn:EF; [|discriminate].
  destruct (b_status b =? BS_SETTLED) eqn:EST; [discriminate|]. apply Z.eqb_neq in EST.
  dmatchS H; inv H; eexists b, _; (split; [exact EF|split; [exact EST|split; reflexivity]]).
Qed.

Definition sctx (l1 l2 : list (Z * mstate)) (cnt : Z) (u2i : list (Z * Z)) (x : mstate) (sidx : list (Z * Z)) : Prop :=
  ginv (all_bets l1 ++ ms_bets x ++ all_bets l2) cnt u2i sidx /\ ms_pending x = unsettled_ids (ms_bets x).

Lemma NoDup_app_l {A} (a b : list A) : NoDup (a ++ b) -> NoDup a.
Proof.
  induction a as [|x r IH]; cbn; intros H; [constructor|]. inversion H; subst. constructor.
  - intros Hin. apply H2. apply in_or_app. left. exact Hin.
  - apply IH. assumption.
Qed.
Lemma NoDup_app_r {A} (a b : list A) : NoDup (a ++ b) -> NoDup b.
Proof. induction a as [|x r IH]; cbn; intros H; [exact H|]. inversion H; subst. apply IH. assumption. Qed.
Lemma NoDup_app_mid {A} (a b c : list A) : NoDup (a ++ b ++ c) -> NoDup b.
Proof. intros H. apply NoDup_app_r in H. apply NoDup_app_l in H. exact H. Qed.

Lemma settle_bet_sctx l1 l2 cnt u2i x sidx h id x' effs :
  settle_bet x h id = Some (x', effs) -> sctx l1 l2 cnt u2i x sidx -> sctx l1 l2 cnt u2i x' (sidx ++ [(h, id)]).
Proof.
  intros H [G Pn]. destruct (settle_bet_shape _ _ _ _ _ H) as (b & r & EF & Hst & Eb & Ep).
  destruct (upd_split (fun c => b_id c =? id) b _ EF) as (B1 & B2 & E1 & E2').
  pose proof (E2' (bet_with b BS_SETTLED r h)) as E2.
  assert (Hid : b_id b = id) by (apply find_some in EF; destruct EF as [_ EF]; apply Z.eqb_eq in EF; exact EF).
  split.
  - rewrite Eb, E2. rewrite E1 in G. rewrite <- Hid.
    replace (all_bets l1 ++ (B1 ++ bet_with b BS_SETTLED r h :: B2) ++ all_bets l2)
      with ((all_bets l1 ++ B1) ++ bet_with b BS_SETTLED r h :: (B2 ++ all_bets l2)) by (rewrite <- !app_assoc; reflexivity).
    apply ginv_settle; [|exact Hst].
    replace ((all_bets l1 ++ B1) ++ b :: B2 ++ all_bets l2) with (all_bets l1 ++ (B1 ++ b :: B2) ++ all_bets l2) by (rewrite <- !app_assoc; reflexivity).
    exact G.
  - rewrite Ep, Pn, Eb, E2, E1, <- Hid. apply pending_settle; [|exact Hst].
    pose proof (g_ids _ _ _ _ G) as Hn. rewrite !map_app in Hn. apply NoDup_app_mid in Hn.
    rewrite E1 in Hn. exact Hn.
Qed.

Lemma settle_bets_sctx l1 l2 cnt u2i ids : forall x bk subs h sidx c x' bk' subs' sidx' c',
  settle_bets ids x bk subs h sidx c = Some (x', bk', subs', sidx', c') ->
  sctx l1 l2 cnt u2i x sidx -> sctx l1 l2 cnt u2i x' sidx'.
Proof.
  induction ids as [|id r IH]; intros x bk subs h sidx c x' bk' subs' sidx' c' H Hs; cbn [settle_bets] in H.
  - inv H. exact Hs.
  - destruct (settle_bet x h id) as [[x1 effs]|] eqn:ES; [|discriminate].
    destruct (apply_effects bk subs effs) as [[bk1 subs1]|]; [|discriminate].
    eapply IH; [exact H|]. eapply settle_bet_sctx; eassumption.
Qed.

Lemma binv_of_sctx s s0 m x x1 x1' l1 l2 bank' mq bq sidx gr :
  binv s -> c_ms s = l1 ++ (m, x) :: l2 -> (forall v, set_ms_list (c_ms s) m v = l1 ++ (m, v) :: l2) ->
  sctx l1 l2 (c_betcnt s) (c_uid2id s) x1 sidx -> ms_bets x1' = ms_bets x1 -> ms_pending x1' = ms_pending x1 ->
  binv (chain_upd s0 bank' (set_ms_list (c_ms s) m x1') mq bq (c_betcnt s) (c_uid2id s) sidx gr).
Proof.
  intros [G P] E1 E2 [G1 P1] Hb Hp.
  constructor; cbn [c_ms c_betcnt c_uid2id c_settledix chain_upd].
  - rewrite E2, all_bets_app, all_bets_cons, Hb. exact G1.
  - intros e He. rewrite E2 in He. apply in_app_or in He. destruct He as [He|[<-|He]].
    + apply P. rewrite E1. apply in_or_app. left. exact He.
    + cbn [snd]. rewrite Hb, Hp. exact P1.
    + apply P. rewrite E1. apply in_or_app. right. right. exact He.
Qed.

Lemma bet_endblock_binv fuel : forall s n s', bet_endblock fuel s n = Some s' -> binv s -> binv s'.
Proof.
  induction fuel as [|f IH]; intros s n s' H Hb; cbn [bet_endblock] in H.
  - destruct (n <=? 0); [inv H; exact Hb|discriminate].
  - destruct (n <=? 0); [inv H; exact Hb|].
    destruct (c_mqueue s) as [|m q] eqn:EQ; [inv H; exact Hb|].
    destruct (get_ms s m) as [x|] eqn:Hg; [|discriminate].
    destruct (settle_bets _ x (c_bank s) (c_subs s) (c_height s) (c_settledix s) 0) as [[[[[x1 bk1] subs1] sidx1] cnt]|] eqn:ES; [|discriminate].
    destruct (set_ms_split_all _ _ _ (get_ms_find _ _ _ Hg)) as (l1 & l2 & E1 & E2).
    assert (Hs0 : sctx l1 l2 (c_betcnt s) (c_uid2id s) x (c_settledix s)).
    { destruct Hb as [G P]. split.
      - rewrite E1, all_bets_app, all_bets_cons in G. exact G.
      - apply (P (m, x)). apply get_ms_in. exact Hg. }
    pose proof (settle_bets_sctx _ _ _ _ _ _ _ _ _ _ _ _ _ _ _ _ ES Hs0) as Hs1.
    destruct (ms_pending x1) eqn:EP.
    + destruct (negb (bk_status (ms_book x1) =? BK_ACTIVE)); [discriminate|].
      eapply IH; [exact H|]. eapply binv_of_sctx; try eassumption; try reflexivity. cbn. rewrite EP. reflexivity.
    + eapply IH; [exact H|]. eapply binv_of_sctx; try eassumption; reflexivity.
Qed.

Lemma ob_endblock_binv fuel : forall s n i s', ob_endblock fuel s n i = Some s' -> binv s -> binv s'.
Proof.
  induction fuel as [|f IH]; intros s n i s' H Hb; cbn [ob_endblock] in H.
  - destruct (n <=? 0); [inv H; exact Hb|discriminate].
  - destruct (n <=? 0); [inv H; exact Hb|].
    destruct (nth_error (c_bqueue s) i) as [m|]; [|inv H; exact Hb].
    destruct (get_ms s m) as [x|] eqn:Hg; [|discriminate].
    destruct (negb (bk_status (ms_book x) =? BK_RESOLVED)); [discriminate|].
    destruct (batch_parts _ _ _ _ _) as [[[[alls cnt] ps] effs]|]; [|discriminate].
    destruct (apply_effects (c_bank s) (c_subs s) effs) as [[bk1 subs1]|]; [|discriminate].
    eapply IH; [exact H|]. eapply binv_upd_keep; try eassumption; reflexivity.
Qed.

(* ---- every operation ---------------------------------------------------------------------------------------------------- *)
Lemma wager_prepare_fresh s c tk u a sm so mu al ky ot :
  wager_prepare s c tk u a sm so mu al ky ot = true -> existsb (fun x => fst x =? u) (c_uid2id s) = false.
Proof.
  unfold wager_prepare. intros H. repeat (apply andb_true_iff in H; destruct H as [H ?]).
  match goal with E : negb (existsb _ _) = true |- _ => apply negb_true_iff in E; exact E end.
Qed.

Ltac same_bets := eapply binv_same; [eassumption|reflexivity|reflexivity|reflexivity|reflexivity].

Lemma bet_wager_binv s sg tk u a sm so ov mu al k ot s' : binv s -> bet_wager s sg tk u a sm so ov mu al k ot = Some s' -> binv s'.
Proof.
  intros Hb H. unfold bet_wager in H. destruct (wager_prepare _ _ _ _ _ _ _ _ _ _ _) eqn:EP; [|discriminate].
  eapply wager_core_binv; [exact Hb|eapply wager_prepare_fresh; exact EP|exact H].
Qed.
Lemma house_deposit_binv s sg tk m a k d s' : binv s -> house_deposit s sg tk m a k d = Some s' -> binv s'.
Proof.
  intros Hb H. unfold house_deposit in H. destruct (deposit_validate _ _ _ _ _ _ _ _) as [[dp gr]|]; [|discriminate].
  eapply house_deposit_core_binv; eassumption.
Qed.
Lemma house_withdraw_binv s sg tk m p mo a k d s' : binv s -> house_withdraw s sg tk m p mo a k d = Some s' -> binv s'.
Proof.
  intros Hb H. unfold house_withdraw in H. destruct (withdraw_validate _ _ _ _ _ _ _ _ _) as [[dp ob]|]; [|discriminate].
  destruct (withdraw_core _ _ _ _ _ _ _ _) as [[s1 amt]|] eqn:EW; [|discriminate]. inv H.
  eapply withdraw_core_binv; eassumption.
Qed.
Lemma do_grant_binv s a b k l e s' : binv s -> do_grant s a b k l e = Some s' -> binv s'.
Proof. intros Hb H. unfold do_grant in H. dmatchS H. inv H. same_bets. Qed.
Lemma do_revoke_binv s a b k s' : binv s -> do_revoke s a b k = Some s' -> binv s'.
Proof. intros Hb H. unfold do_revoke in H. dmatchS H. inv H. same_bets. Qed.
Lemma do_send_binv s f t a s' : binv s -> do_send s f t a = Some s' -> binv s'.
Proof. intros Hb H. unfold do_send in H. dmatchS H. inv H. same_bets. Qed.
Lemma ovm_propose_binv s sg tk ks li s' : binv s -> ovm_propose s sg tk ks li = Some s' -> binv s'.
Proof. intros Hb H. unfold ovm_propose in H. dmatchS H. inv H. same_bets. Qed.
Lemma ovm_vote_binv s tk vi pid v s' : binv s -> ovm_vote s tk vi pid v = Some s' -> binv s'.
Proof. intros Hb H. unfold ovm_vote in H. dmatchS H. inv H. same_bets. Qed.
Lemma sub_create_binv s c o l s' : binv s -> sub_create s c o l = Some s' -> binv s'.
Proof. intros Hb H. unfold sub_create in H. dmatchS H. inv H. same_bets. Qed.
Lemma sub_topup_binv s c o l s' : binv s -> sub_topup s c o l = Some s' -> binv s'.
Proof. intros Hb H. unfold sub_topup in H. dmatchS H. inv H. same_bets. Qed.
Lemma sub_withdraw_unlocked_binv s o s' : binv s -> sub_withdraw_unlocked s o = Some s' -> binv s'.
Proof. intros Hb H. unfold sub_withdraw_unlocked in H. dmatchS H. inv H. same_bets. Qed.
Lemma sub_wager_binv s sg tk ic tk2 u a sm so ov mu al k ot md sd s' :
  binv s -> sub_wager s sg tk ic tk2 u a sm so ov mu al k ot md sd = Some s' -> binv s'.
Proof.
  intros Hb H. unfold sub_wager in H. dmatchS H.
  match goal with E : negb (wager_prepare _ _ _ _ _ _ _ _ _ _ _) = false |- _ => apply negb_false_true in E; rename E into EP end.
  match type of H with wager_core ?st _ _ _ _ _ _ _ _ = _ =>
    assert (Hst : binv st) by same_bets;
    assert (Hfr : existsb (fun x => fst x =? u) (c_uid2id st) = false) by exact (wager_prepare_fresh _ _ _ _ _ _ _ _ _ _ _ EP) end.
  exact (wager_core_binv _ _ _ _ _ _ _ _ _ _ Hst Hfr H).
Qed.
Lemma sub_house_deposit_binv s sg tk m a k d s' : binv s -> sub_house_deposit s sg tk m a k d = Some s' -> binv s'.
Proof.
  intros Hb H. unfold sub_house_deposit in H. dmatchS H. inv H.
  match goal with E : house_deposit_core _ _ _ _ _ _ = Some ?s1 |- _ => pose proof (house_deposit_core_binv _ _ _ _ _ _ _ Hb E) as H1 end.
  eapply binv_same; [exact H1|reflexivity|reflexivity|reflexivity|reflexivity].
Qed.
Lemma sub_house_withdraw_binv s sg tk m p mo a k d s' : binv s -> sub_house_withdraw s sg tk m p mo a k d = Some s' -> binv s'.
Proof.
  intros Hb H. unfold sub_house_withdraw in H. dmatchS H. inv H.
  match goal with E : withdraw_core _ _ _ _ _ _ _ _ = Some _ |- _ => pose proof (withdraw_core_binv _ _ _ _ _ _ _ _ _ _ Hb E) as H1 end.
  eapply binv_same; [exact H1|reflexivity|reflexivity|reflexivity|reflexivity].
Qed.

Lemma end_block_binv s : binv s -> binv (fst (end_block s)).
Proof.
  intros Hb. unfold end_block.
  destruct (bet_endblock _ s _) as [s1|] eqn:E1; [|cbn [fst]; same_bets].
  pose proof (bet_endblock_binv _ _ _ _ E1 Hb) as H1.
  destruct (ob_endblock _ s1 _ _) as [s2|] eqn:E2; [|cbn [fst]; eapply binv_same; [exact Hb|reflexivity|reflexivity|reflexivity|reflexivity]].
  pose proof (ob_endblock_binv _ _ _ _ _ E2 H1) as H2.
  cbn [fst]. unfold ovm_endblock. destruct (ovm_finish _ _ _ _) as [ps v].
  eapply binv_same; [exact H2|reflexivity|reflexivity|reflexivity|reflexivity].
Qed.

Lemma begin_block_binv s t : binv s -> binv (fst (begin_block_op s t)).
Proof.
  intros Hb. unfold begin_block_op. destruct (begin_block _ _ _ _) as [m minted|]; cbn [fst]; same_bets.
Qed.

Lemma tx_binv s r : binv s -> (forall s', r = Some s' -> binv s') -> binv (fst (tx s r)).
Proof. intros Hb H. unfold tx. destruct r as [s'|]; cbn [fst]; [apply H; reflexivity|exact Hb]. Qed.

Theorem step_binv s o : binv s -> binv (fst (step s o)).
Proof.
  intros Hb. unfold step. destruct (c_halted s); [exact Hb|].
  destruct o; try (apply tx_binv; [exact Hb|intros s' H]).
  - apply begin_block_binv. exact Hb.
  - apply end_block_binv. exact Hb.
  - eapply market_add_binv; eassumption.
  - eapply market_update_binv; eassumption.
  - eapply market_resolve_binv; eassumption.
  - eapply house_deposit_binv; eassumption.
  - eapply house_withdraw_binv; eassumption.
  - eapply bet_wager_binv; eassumption.
  - eapply do_grant_binv; eassumption.
  - eapply do_revoke_binv; eassumption.
  - eapply do_send_binv; eassumption.
  - eapply ovm_propose_binv; eassumption.
  - eapply ovm_vote_binv; eassumption.
  - eapply sub_create_binv; eassumption.
  - eapply sub_topup_binv; eassumption.
  - eapply sub_withdraw_unlocked_binv; eassumption.
  - eapply sub_wager_binv; eassumption.
  - eapply sub_house_deposit_binv; eassumption.
  - eapply sub_house_withdraw_binv; eassumption.
Qed.

Theorem run_binv ops : forall s, binv s -> binv (run s ops).
Proof.
  induction ops as [|o r IH]; intros s Hb; cbn [run fold_left]; [exact Hb|].
  apply IH. apply step_binv. exact Hb.
Qed.

Lemma init_binv bk supply P vault MP t0 sw sd : binv (init bk supply P vault MP t0 sw sd).
Proof.
  constructor; cbn.
  - constructor.
    + reflexivity.
    + intros b [].
    + constructor.
    + reflexivity.
    + intros b [].
    + constructor.
    + constructor.
    + intros h id. split; [intros []|intros (b & [] & _)].
  - intros e [].
Qed.

(* C08 over histories, in the vocabulary of the property: counter, sequence numbers, uid index, pending exactly once,
   settled exactly once at the settlement height *)
Theorem bet_indexes_over_histories bk supply P vault MP t0 sw sd ops :
  let s := run (init bk supply P vault MP t0 sw sd) ops in
  zlen (all_bets (c_ms s)) = c_betcnt s /\
  (forall b, In b (all_bets (c_ms s)) -> 1 <= b_id b <= c_betcnt s /\ In (b_uid b, b_id b) (c_uid2id s)) /\
  NoDup (map b_id (all_bets (c_ms s))) /\
  zlen (c_uid2id s) = c_betcnt s /\ NoDup (map fst (c_uid2id s)) /\
  (forall m x, get_ms s m = Some x -> ms_pending x = unsettled_ids (ms_bets x) /\ NoDup (ms_pending x)) /\
  NoDup (c_settledix s) /\
  (forall h id, In (h, id) (c_settledix s) <->
     exists b, In b (all_bets (c_ms s)) /\ b_id b = id /\ b_status b = BS_SETTLED /\ b_sheight b = h).
Proof.
  intros s. assert (Hb : binv s) by (apply run_binv; apply init_binv).
  destruct Hb as [[C Rg I UL U UN SN S] Pn].
  split; [exact C|]. split; [intros b Hb; split; [apply Rg; exact Hb|apply U; exact Hb]|].
  split; [exact I|]. split; [exact UL|]. split; [exact UN|]. split; [|split; [exact SN|exact S]].
  intros m x Hg. pose proof (Pn (m, x) (get_ms_in _ _ _ Hg)) as Hp. cbn [snd] in Hp. split; [exact Hp|].
  rewrite Hp. unfold unsettled_ids.
  assert (Hsub : NoDup (map b_id (ms_bets x))).
  { destruct (set_ms_split_all _ _ _ (get_ms_find _ _ _ Hg)) as (l1 & l2 & E1 & _).
    rewrite E1, all_bets_app, all_bets_cons, !map_app in I. apply NoDup_app_mid in I. exact I. }
  clear - Hsub. induction (ms_bets x) as [|b r IH]; cbn [filter map]; [constructor|].
  cbn [map] in Hsub. inversion Hsub as [|? ? Hn Hr]; subst.
  destruct (unsettledb b); [|apply IH; exact Hr]. cbn [map]. constructor; [|apply IH; exact Hr].
  intros Hin. apply Hn. apply in_map_iff in Hin. destruct Hin as (c & E & Hc). apply filter_In in Hc.
  apply in_map_iff. exists c. split; [exact E|tauto].
Qed.

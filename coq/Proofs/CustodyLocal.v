(* Proofs/CustodyLocal.v — what a wager, a deposit, a withdrawal and the settlement of one bet or one
   participation do to what one market's book owes (C01, local part). *)
From Coq Require Import ZArith Bool List Lia.
From Sge Require Import Lib.Dec Model.Types Model.Orderbook Proofs.Tactics Proofs.WagerLoop.
Import ListNotations.
Open Scope Z_scope.

(* the custody-relevant projection of a participation *)
Definition cproj (p : part) : Z * Z * Z * Z * Z * bool :=
  (p_idx p, p_owner p, p_liq p, p_profit p, p_fee p, p_settled p).
Definition cidx (c : Z * Z * Z * Z * Z * bool) : Z := fst (fst (fst (fst (fst c)))).
Definition book_cproj (b : book) : list (Z * Z * Z * Z * Z * bool) := map cproj (bk_parts b).

Lemma cidx_cproj p : cidx (cproj p) = p_idx p. Proof. reflexivity. Qed.

Lemma upd_map_same {A B} (f : A -> bool) (g : A -> B) (v : A) (l : list A) :
  existsb f l = true -> (forall x, In x l -> f x = true -> g x = g v) -> map g (upd f v l) = map g l.
Proof.
  induction l as [|x r IH]; cbn [existsb upd map]; intros He Hall; [discriminate|].
  destruct (f x) eqn:E; cbn [map].
  - f_equal. symmetry. apply Hall; [left; reflexivity|exact E].
  - f_equal. apply IH; [exact He|]. intros y Hy Hf. apply Hall; [right; exact Hy|exact Hf].
Qed.

(* writing back a participation whose custody projection is the one every stored participation with
   that index has leaves the projection of the book unchanged *)
Lemma set_part_cproj b p :
  In (cproj p) (book_cproj b) ->
  (forall c, In c (book_cproj b) -> cidx c = p_idx p -> c = cproj p) ->
  book_cproj (set_part b p) = book_cproj b.
Proof.
  unfold book_cproj, set_part. cbn [bk_parts book_upd]. intros Hin Hall.
  apply upd_map_same.
  - apply existsb_exists. apply in_map_iff in Hin. destruct Hin as (q & Hq & Hin).
    exists q. split; [exact Hin|]. unfold part_is. apply Z.eqb_eq.
    change (p_idx q) with (cidx (cproj q)). rewrite Hq. reflexivity.
  - intros x Hx Hf. unfold part_is in Hf. apply Z.eqb_eq in Hf.
    apply Hall; [apply in_map; exact Hx|exact Hf].
Qed.

Lemma cproj_set_expo b e : book_cproj (set_expo b e) = book_cproj b. Proof. reflexivity. Qed.
Lemma cproj_move b e : book_cproj (move_to_hist b e) = book_cproj b. Proof. reflexivity. Qed.
Lemma cproj_set_queue b o q : book_cproj (set_queue b o q) = book_cproj b. Proof. reflexivity. Qed.
Lemma cproj_set_queues b q : book_cproj (set_queues b q) = book_cproj b. Proof. reflexivity. Qed.
Lemma cproj_add_pair b i j : book_cproj (add_pair b i j) = book_cproj b. Proof. reflexivity. Qed.
Lemma cproj_drop b o i : book_cproj (drop_from_queue b o i) = book_cproj b.
Proof. unfold drop_from_queue. destruct (get_queue b o); reflexivity. Qed.
Lemma cproj_prep pes : forall b el sel cur b' cur', prep_expos pes b el sel cur = (b', cur') -> book_cproj b' = book_cproj b.
Proof.
  induction pes as [|pe r IH]; intros b el sel cur b' cur' H; cbn [prep_expos] in H; [inv H; reflexivity|].
  destruct el; rewrite (IH _ _ _ _ _ _ H); reflexivity.
Qed.
Lemma cproj_fold_secondary upds : forall b idx,
  book_cproj (fold_left (fun b e => drop_from_queue (set_expo b e) (e_odds e) idx) upds b) = book_cproj b.
Proof.
  induction upds as [|e r IH]; intros b idx; cbn [fold_left]; [reflexivity|].
  rewrite IH, cproj_drop. reflexivity.
Qed.

Lemma cproj_part_upd p crl enf tba crtb ml crml co : cproj (part_upd p (p_liq p) crl enf tba crtb ml crml co (p_profit p)) = cproj p.
Proof. reflexivity. Qed.
Lemma cproj_set_enf p v : cproj (part_set_enf p v) = cproj p. Proof. reflexivity. Qed.
Lemma cproj_set_crl p v : cproj (part_set_crl p v) = cproj p. Proof. reflexivity. Qed.
Lemma cproj_fulfil p e o st pay p' e' : fulfil_records p e o st pay = (p', e') -> cproj p' = cproj p.
Proof.
  unfold fulfil_records. cbv zeta. intros H.
  destruct (p_crml_odds p =? o); [inv H; reflexivity|].
  match type of H with context [if ?c then _ else _] => destruct c end; inv H; reflexivity.
Qed.

(* fmap entries carry participations whose custody projection is the stored one *)
Definition fmap_ok (C : list (Z * Z * Z * Z * Z * bool)) (fm : list (Z * fitem)) : Prop :=
  forall idx it, In (idx, it) fm ->
    p_idx (fi_part it) = idx /\ In (cproj (fi_part it)) C /\
    (forall c, In c C -> cidx c = idx -> c = cproj (fi_part it)).

Lemma fmap_get_in fm idx it : fmap_get fm idx = Some it -> exists k, In (k, it) fm /\ k = idx.
Proof.
  unfold fmap_get, findb. intros H. destruct (find _ fm) as [[k v]|] eqn:E; [|discriminate].
  inv H. apply find_some in E. destruct E as [Hin Hk]. cbn in Hk. apply Z.eqb_eq in Hk. exists k. split; assumption.
Qed.

Lemma fmap_set_ok C fm idx it :
  fmap_ok C fm -> p_idx (fi_part it) = idx -> In (cproj (fi_part it)) C ->
  (forall c, In c C -> cidx c = idx -> c = cproj (fi_part it)) -> fmap_ok C (fmap_set fm idx it).
Proof.
  unfold fmap_ok, fmap_set. intros Hok H1 H2 H3 k v Hin.
  induction fm as [|[k0 v0] r IH]; cbn [upd] in Hin.
  - destruct Hin as [Hin|[]]. inv Hin. auto.
  - cbn [fst] in Hin. destruct (k0 =? idx) eqn:E.
    + destruct Hin as [Hin|Hin]; [inv Hin; auto|]. apply Hok. right. exact Hin.
    + destruct Hin as [Hin|Hin]; [inv Hin; apply Hok; left; reflexivity|].
      apply IH; [|exact Hin]. intros k2 v2 H. apply Hok. right. exact H.
Qed.

Definition wframe (C : list (Z * Z * Z * Z * Z * bool)) (s : wstate) : Prop :=
  book_cproj (ws_book s) = C /\ fmap_ok C (ws_fmap s).

Lemma iter_switch_cproj A p0 pe0 s p1 pe1 setf so c1 :
  iter_switch A p0 pe0 s = (p1, pe1, setf, so, c1) -> cproj p1 = cproj p0.
Proof.
  unfold iter_switch. cbv zeta. intros H.
  destruct (_ <=? 0); [inv H; reflexivity|].
  destruct (_ <=? _).
  - destruct (bet_amount_int _ _ _) as [stake c]. destruct (fulfil_records _ _ _ _ _) as [p e] eqn:EF. inv H.
    eapply cproj_fulfil; exact EF.
  - destruct (fulfil_records _ _ _ _ _) as [p e] eqn:EF. inv H. eapply cproj_fulfil; exact EF.
Qed.

Lemma iter_betside_cproj A p0 so s ba fu pr pa bk :
  iter_betside A p0 so s = (ba, fu, pr, pa, bk) -> book_cproj bk = book_cproj (ws_book s).
Proof. unfold iter_betside. intros H. destruct so as [[st pay]|]; inv H; reflexivity. Qed.

Lemma iter_fulfilled_cproj A idx it setf p1 pe1 uq bk0 p3 pe3 uq3 bk1 :
  iter_fulfilled A idx it setf p1 pe1 uq bk0 = Some (p3, pe3, uq3, bk1) ->
  book_cproj bk1 = book_cproj bk0 /\ cproj p3 = cproj p1.
Proof.
  unfold iter_fulfilled. intros H. dmatch H; inv H; split; try reflexivity.
  apply cproj_fold_secondary.
Qed.

Lemma iter_refresh_frame A idx it p3 bk2 fm uq3 bk5 fm2 uq5 C :
  iter_refresh A idx it p3 bk2 fm uq3 = (bk5, fm2, uq5) ->
  book_cproj bk2 = C -> fmap_ok C fm -> In (idx, it) fm ->
  p_idx p3 = idx -> cproj p3 = cproj (fi_part it) ->
  book_cproj bk5 = C /\ fmap_ok C fm2.
Proof.
  unfold iter_refresh. cbv zeta. intros H HC Hfm Hin Hidx Hcp.
  destruct (Hfm _ _ Hin) as (Hi & HinC & Huniq).
  destruct (prep_expos _ bk2 _ _ None) as [bk3 pe4] eqn:EP.
  pose proof (cproj_prep _ _ _ _ _ _ _ EP) as H3. rewrite HC in H3.
  set (p4 := part_set_crl p3 (p_crl p3 - zmax0 (p_crml p3))) in *.
  set (p5 := part_upd p4 (p_liq p4) (p_crl p4) (wa_oddscnt A) (p_tba p4) 0 (p_maxloss p4 + p_crml p4) 0 (p_crml_odds p4) (p_profit p4)) in *.
  assert (Hc5 : cproj p5 = cproj (fi_part it)) by (rewrite <- Hcp; reflexivity).
  assert (Hi5 : p_idx p5 = idx) by (exact Hidx).
  (* fm1 *)
  set (fm1 := match pe4 with
              | Some e => fmap_set fm idx {| fi_part := fi_part it; fi_pe := Some e; fi_all := fi_all it |}
              | None => fm end) in *.
  assert (Hfm1 : fmap_ok C fm1).
  { unfold fm1. destruct pe4; [|exact Hfm]. apply fmap_set_ok; cbn [fi_part]; assumption. }
  set (fm2' := match fmap_get fm1 idx with
               | Some it' => fmap_set fm1 idx {| fi_part := p5; fi_pe := fi_pe it'; fi_all := fi_all it' |}
               | None => fm1 end) in *.
  assert (Hfm2 : fmap_ok C fm2').
  { unfold fm2'. destruct (fmap_get fm1 idx); [|exact Hfm1].
    apply fmap_set_ok; cbn [fi_part]; [exact Hfm1|exact Hi5|rewrite Hc5; exact HinC|rewrite Hc5; exact Huniq]. }
  assert (Hb4 : book_cproj (set_part bk3 p5) = C).
  { rewrite set_part_cproj; [exact H3| rewrite H3, Hc5; exact HinC |].
    intros c Hc Hci. rewrite H3 in Hc. rewrite Hc5. apply Huniq; [exact Hc|]. rewrite Hci. exact Hi5. }
  destruct (eligible_next p5); inv H; split; try assumption.
Qed.

Lemma wager_iter_frame A idx C s s' : wager_iter A idx s = Some s' -> wframe C s -> wframe C s'.
Proof.
  unfold wager_iter. intros H [HC Hfm].
  destruct (fmap_get (ws_fmap s) idx) as [it|] eqn:EG; [|discriminate].
  destruct (fmap_get_in _ _ _ EG) as (k & Hin & Hk). subst k.
  destruct (Hfm _ _ Hin) as (Hidx & HinC & Huniq).
  destruct (fi_pe it) as [pe0|]; [|discriminate].
  destruct (iter_switch A (fi_part it) pe0 s) as [[[[p1 pe1] setf] so] c1] eqn:ES.
  pose proof (iter_switch_cproj _ _ _ _ _ _ _ _ _ ES) as Hc1.
  destruct (iter_betside A (fi_part it) so s) as [[[[ba fu] pr] pa] bk0] eqn:EB.
  pose proof (iter_betside_cproj _ _ _ _ _ _ _ _ _ EB) as Hb0. rewrite HC in Hb0.
  destruct (iter_fulfilled A idx it setf p1 pe1 (ws_uq s) bk0) as [[[[p3 pe3] uq3] bk1]|] eqn:EF; [|discriminate].
  destruct (iter_fulfilled_cproj _ _ _ _ _ _ _ _ _ _ _ _ EF) as [Hb1 Hc3]. rewrite Hb0 in Hb1.
  assert (Hcp : cproj p3 = cproj (fi_part it)) by congruence.
  assert (Hi3 : p_idx p3 = idx).
  { change (p_idx p3) with (cidx (cproj p3)). rewrite Hcp. exact Hidx. }
  assert (Hb2 : book_cproj (set_part (set_expo bk1 pe3) p3) = C).
  { rewrite set_part_cproj; rewrite ?cproj_set_expo; [exact Hb1|rewrite Hb1, Hcp; exact HinC|].
    intros c Hc Hci. rewrite Hb1 in Hc. rewrite Hcp. apply Huniq; [exact Hc|]. rewrite Hci. exact Hi3. }
  destruct ((p_enf p3 =? 0) && eligible_pre p3).
  - destruct (iter_refresh A idx it p3 _ (ws_fmap s) uq3) as [[bk5 fm2] uq5] eqn:ER.
    destruct (iter_refresh_frame _ _ _ _ _ _ _ _ _ _ C ER Hb2 Hfm Hin Hi3 Hcp) as [H5 Hf5].
    inv H. split; assumption.
  - inv H. split; assumption.
Qed.

Lemma wager_loop_frame fuel : forall A q C s s', wager_loop fuel A q s = Some s' -> wframe C s -> wframe C s'.
Proof.
  induction fuel as [|f IH]; intros A q C s s' H Hw; destruct q as [|idx rest]; cbn [wager_loop] in H.
  - inv H. exact Hw.
  - discriminate.
  - inv H. exact Hw.
  - destruct (wager_iter A idx s) as [s1|] eqn:E; [|discriminate].
    pose proof (wager_iter_frame _ _ _ _ _ E Hw) as H1.
    destruct ((ws_profit s1 <? PREC) || _); [inv H; exact H1|].
    eapply IH; eassumption.
Qed.

(* initFulfillmentInfo builds the map from the stored participations themselves *)
Lemma init_fmap_ok b sel fm :
  init_fmap b sel = Some fm ->
  (forall c1 c2, In c1 (book_cproj b) -> In c2 (book_cproj b) -> cidx c1 = cidx c2 -> c1 = c2) ->
  fmap_ok (book_cproj b) fm.
Proof.
  unfold init_fmap. intros H Huniq. dmatch H. inv H.
  intros idx it Hin. apply in_map_iff in Hin. destruct Hin as (p & Hp & Hin). inv Hp. cbn [fi_part].
  split; [reflexivity|]. split; [apply in_map; exact Hin|].
  intros c Hc Hci. apply Huniq; [exact Hc|apply in_map; exact Hin|]. rewrite cidx_cproj. exact Hci.
Qed.

(* C01, wager: ProcessWager changes no participation's liquidity, realised profit, fee, owner or
   settlement flag (it only moves exposure, round and queue bookkeeping) *)
Theorem process_wager_cproj b A betamt profit bettor fee b' parts effs :
  process_wager b A betamt profit bettor fee = Some (b', parts, effs) ->
  (forall c1 c2, In c1 (book_cproj b) -> In c2 (book_cproj b) -> cidx c1 = cidx c2 -> c1 = c2) ->
  book_cproj b' = book_cproj b.
Proof.
  unfold process_wager. intros H Huniq.
  destruct (get_queue b (wa_sel A)) as [q|]; [|discriminate].
  destruct (init_fmap b (wa_sel A)) as [fm|] eqn:EI; [|discriminate].
  match type of H with context [wager_loop ?f ?a ?qq ?s0] => destruct (wager_loop f a qq s0) as [s|] eqn:EL end; [|discriminate].
  dmatch H. inv H. rewrite cproj_set_queue.
  assert (Hw : wframe (book_cproj b) s).
  { eapply wager_loop_frame; [exact EL|]. split; [reflexivity|]. cbn [ws_fmap]. eapply init_fmap_ok; eassumption. }
  exact (proj1 Hw).
Qed.

(* ---- what a book owes, as a function of the custody projection ------------------------------------- *)
Definition cpool (c : Z * Z * Z * Z * Z * bool) : Z :=
  let '(_, _, liq, profit, _, settled) := c in if settled then 0 else liq + profit.
Definition cfee (c : Z * Z * Z * Z * Z * bool) : Z :=
  let '(_, _, _, _, fee, settled) := c in if settled then 0 else fee.
Definition pool_parts (b : book) : Z := zsum (map cpool (book_cproj b)).
Definition fee_parts (b : book) : Z := zsum (map cfee (book_cproj b)).

Definition part_pool (p : part) : Z := if p_settled p then 0 else p_liq p + p_profit p.
Definition part_fee (p : part) : Z := if p_settled p then 0 else p_fee p.
Lemma cpool_cproj p : cpool (cproj p) = part_pool p. Proof. reflexivity. Qed.
Lemma cfee_cproj p : cfee (cproj p) = part_fee p. Proof. reflexivity. Qed.
Lemma pool_parts_eq b : pool_parts b = zsum (map part_pool (bk_parts b)).
Proof. unfold pool_parts, book_cproj. rewrite map_map. reflexivity. Qed.
Lemma fee_parts_eq b : fee_parts b = zsum (map part_fee (bk_parts b)).
Proof. unfold fee_parts, book_cproj. rewrite map_map. reflexivity. Qed.

(* net inflow of an effect list into an account (only Pay effects move tokens between accounts here;
   the forwarding done by the subaccount hooks is accounted for separately) *)
Fixpoint net_in (a : Z) (effs : list effect) : Z :=
  match effs with
  | [] => 0
  | Pay f t amt :: r => (if t =? a then amt else 0) - (if f =? a then amt else 0) + net_in a r
  | _ :: r => net_in a r
  end.
Lemma net_in_app a e1 e2 : net_in a (e1 ++ e2) = net_in a e1 + net_in a e2.
Proof. induction e1 as [|e r IH]; cbn [app net_in]; [lia|]. destruct e; lia. Qed.

(* replacing the first element that satisfies f, which is the one `find` returns *)
Lemma upd_sum_found {A} (f : A -> bool) (g : A -> Z) (v x : A) (l : list A) :
  find f l = Some x -> zsum (map g (upd f v l)) = zsum (map g l) - g x + g v.
Proof.
  induction l as [|y r IH]; cbn [find upd map zsum]; intros H; [discriminate|].
  destruct (f y) eqn:E; [inv H; cbn [map zsum]; lia|]. cbn [map zsum]. rewrite (IH H). lia.
Qed.
Lemma upd_sum_absent {A} (f : A -> bool) (g : A -> Z) (v : A) (l : list A) :
  find f l = None -> zsum (map g (upd f v l)) = zsum (map g l) + g v.
Proof.
  induction l as [|y r IH]; cbn [find upd map zsum]; intros H; [lia|].
  destruct (f y) eqn:E; [discriminate|]. cbn [map zsum]. rewrite (IH H). lia.
Qed.

Lemma set_part_pool b p q : get_part b (p_idx q) = Some p ->
  pool_parts (set_part b q) = pool_parts b - part_pool p + part_pool q /\
  fee_parts (set_part b q) = fee_parts b - part_fee p + part_fee q.
Proof.
  unfold get_part, findb. intros H. rewrite !pool_parts_eq, !fee_parts_eq. unfold set_part. cbn [bk_parts book_upd].
  split; apply upd_sum_found; exact H.
Qed.

(* ---- deposit ------------------------------------------------------------------------------------------ *)
Lemma fold_init_parts qs : forall bb idx,
  bk_parts (fold_left (fun bb q => set_expo (set_queue bb (fst q) (snd q ++ [idx]))
             {| e_odds := fst q; e_part := idx; e_exp := 0; e_bet := 0; e_ful := false; e_round := 1 |}) qs bb) = bk_parts bb /\
  bk_status (fold_left (fun bb q => set_expo (set_queue bb (fst q) (snd q ++ [idx]))
             {| e_odds := fst q; e_part := idx; e_exp := 0; e_bet := 0; e_ful := false; e_round := 1 |}) qs bb) = bk_status bb.
Proof.
  induction qs as [|q r IH]; intros bb idx; cbn [fold_left]; [split; reflexivity|].
  destruct (IH (set_expo (set_queue bb (fst q) (snd q ++ [idx]))
                  {| e_odds := fst q; e_part := idx; e_exp := 0; e_bet := 0; e_ful := false; e_round := 1 |}) idx) as [A B].
  rewrite A, B. split; reflexivity.
Qed.

Lemma upd_absent_app {A} (f : A -> bool) (v : A) (l : list A) : find f l = None -> upd f v l = l ++ [v].
Proof.
  induction l as [|y r IH]; cbn [find upd app]; intros H; [reflexivity|].
  destruct (f y); [discriminate|]. rewrite IH by exact H. reflexivity.
Qed.

Theorem init_participation_delta b mx owner amount fee b' idx effs :
  init_participation b mx owner amount fee = Some (b', idx, effs) ->
  pool_parts b' = pool_parts b + (amount - fee) /\ fee_parts b' = fee_parts b + fee /\
  effs = [Pay owner POOL (amount - fee); Pay owner HOUSEFEE fee] /\
  bk_status b' = bk_status b /\ bk_status b = BK_ACTIVE /\
  exists p, bk_parts b' = bk_parts b ++ [p] /\ p_settled p = false /\ p_profit p = 0 /\ p_owner p = owner /\
            p_idx p = idx /\ get_part b idx = None.
Proof.
  unfold init_participation. intros H.
  destruct (negb (bk_status b =? BK_ACTIVE)) eqn:ES; [discriminate|]. apply negb_false_iff, Z.eqb_eq in ES.
  destruct (mx <=? bk_partcnt b); [discriminate|].
  destruct (get_part b (bk_partcnt b + 1)) eqn:EG; [discriminate|].
  inv H.
  match goal with |- context [fold_left ?f ?qs ?x] => destruct (fold_init_parts qs x (bk_partcnt b + 1)) as [HP HS] end.
  rewrite !pool_parts_eq, !fee_parts_eq. cbn [bk_parts bk_status book_upd]. rewrite HP, HS.
  unfold set_part. cbn [bk_parts bk_status book_upd].
  assert (Hnone : find (part_is (bk_partcnt b + 1)) (bk_parts b) = None) by exact EG.
  rewrite (upd_absent_app _ _ _ Hnone). rewrite !map_app, !zsum_app. cbn [map zsum part_pool part_fee p_settled p_liq p_profit p_fee].
  repeat split; try lia; try assumption.
  eexists. split; [reflexivity|]. cbn. repeat split. exact EG.
Qed.

Lemma upd_map_first {A B} (f : A -> bool) (g : A -> B) (v x : A) (l : list A) :
  find f l = Some x -> g x = g v -> map g (upd f v l) = map g l.
Proof.
  induction l as [|y r IH]; cbn [find upd map]; intros H Hg; [discriminate|].
  destruct (f y) eqn:E; [inv H; cbn [map]; f_equal; symmetry; exact Hg|]. cbn [map]. f_equal. apply IH; assumption.
Qed.

Definition sproj (q : part) : Z * bool * Z * Z := (p_idx q, p_settled q, p_profit q, p_owner q).
Definition iproj (q : part) : Z * Z := (p_idx q, p_owner q).

(* ---- withdrawal --------------------------------------------------------------------------------------- *)
Theorem withdraw_participation_delta b idx amt b' effs p :
  withdraw_participation b idx amt = Some (b', effs) -> get_part b idx = Some p -> p_settled p = false ->
  pool_parts b' = pool_parts b - amt /\ fee_parts b' = fee_parts b /\
  effs = [Pay POOL (p_owner p) amt] /\ bk_status b' = bk_status b /\
  map sproj (bk_parts b') = map sproj (bk_parts b).
Proof.
  unfold withdraw_participation. intros H Hg Hs. rewrite Hg in H.
  set (p' := part_upd p (p_liq p - amt) (p_crl p - amt) (p_enf p) (p_tba p) (p_crtb p) (p_maxloss p) (p_crml p) (p_crml_odds p) (p_profit p)) in *.
  assert (Hidx : p_idx p' = idx).
  { unfold get_part, findb in Hg. apply find_some in Hg. destruct Hg as [_ Hg]. unfold part_is in Hg. apply Z.eqb_eq in Hg. exact Hg. }
  assert (Hg' : get_part b (p_idx p') = Some p) by (rewrite Hidx; exact Hg).
  destruct (set_part_pool b p p' Hg') as [HP HF].
  assert (Hpp : part_pool p' = part_pool p - amt) by (unfold part_pool; cbn; rewrite Hs; lia).
  assert (Hpf : part_fee p' = part_fee p) by (unfold part_fee; cbn; rewrite Hs; reflexivity).
  assert (Hmap : map sproj (bk_parts (set_part b p')) = map sproj (bk_parts b)).
  { unfold set_part. cbn [bk_parts book_upd]. eapply upd_map_first; [exact Hg'|reflexivity]. }
  destruct (0 <? p_crl p').
  - inv H. repeat split; try assumption; try lia; reflexivity.
  - destruct (remove_from_queues _ idx) as [qs|]; [|discriminate]. inv H.
    change (pool_parts (set_queues (set_part b p') qs)) with (pool_parts (set_part b p')).
    change (fee_parts (set_queues (set_part b p') qs)) with (fee_parts (set_part b p')).
    change (bk_parts (set_queues (set_part b p') qs)) with (bk_parts (set_part b p')).
    repeat split; try assumption; try lia; reflexivity.
Qed.

(* ---- settlement of one bet ---------------------------------------------------------------------------- *)
Definition all_unsettled (b : book) : Prop := forall p, In p (bk_parts b) -> p_settled p = false.

Lemma get_part_in b idx p : get_part b idx = Some p -> In p (bk_parts b) /\ p_idx p = idx.
Proof. unfold get_part, findb. intros H. apply find_some in H. destruct H as [Hin Hf]. unfold part_is in Hf. apply Z.eqb_eq in Hf. split; assumption. Qed.

Lemma set_part_profit_frame b p v : get_part b (p_idx p) = Some p -> all_unsettled b ->
  all_unsettled (set_part b (part_set_profit p v)) /\
  pool_parts (set_part b (part_set_profit p v)) = pool_parts b - p_profit p + v /\
  fee_parts (set_part b (part_set_profit p v)) = fee_parts b /\
  bk_status (set_part b (part_set_profit p v)) = bk_status b /\
  map iproj (bk_parts (set_part b (part_set_profit p v))) = map iproj (bk_parts b).
Proof.
  intros Hg Hall. destruct (get_part_in _ _ _ Hg) as [Hin _]. pose proof (Hall p Hin) as Hs.
  assert (Hg' : get_part b (p_idx (part_set_profit p v)) = Some p) by exact Hg.
  destruct (set_part_pool b p (part_set_profit p v) Hg') as [HP HF].
  repeat split.
  - intros q Hq. unfold set_part in Hq. cbn [bk_parts book_upd] in Hq.
    assert (Hcase : forall l, (forall x, In x l -> p_settled x = false) -> In q (upd (part_is (p_idx p)) (part_set_profit p v) l) -> p_settled q = false).
    { induction l as [|y r IH]; cbn [upd]; intros Hl Hi.
      - destruct Hi as [Hi|[]]. subst q. exact Hs.
      - destruct (part_is (p_idx p) y).
        + destruct Hi as [Hi|Hi]; [subst q; exact Hs|apply Hl; right; exact Hi].
        + destruct Hi as [Hi|Hi]; [subst q; apply Hl; left; reflexivity|apply IH; [intros x Hx; apply Hl; right; exact Hx|exact Hi]]. }
    apply (Hcase _ Hall Hq).
  - rewrite HP. unfold part_pool. cbn. rewrite Hs. lia.
  - rewrite HF. unfold part_fee. cbn. rewrite Hs. lia.
  - unfold set_part. cbn [bk_parts book_upd]. eapply upd_map_first; [exact Hg|reflexivity].
Qed.

Lemma bettor_wins_delta fs : forall b bettor b' effs,
  bettor_wins b bettor fs = Some (b', effs) -> all_unsettled b ->
  all_unsettled b' /\ pool_parts b' = pool_parts b - zsum (map f_pay fs) /\ fee_parts b' = fee_parts b /\
  bk_status b' = bk_status b /\ map iproj (bk_parts b') = map iproj (bk_parts b) /\
  effs = map (fun f => Pay POOL bettor (f_pay f + f_stake f)) fs.
Proof.
  induction fs as [|f r IH]; intros b bettor b' effs H Hall; cbn [bettor_wins] in H.
  - inv H. cbn. repeat split; try assumption; lia.
  - destruct (get_part b (f_idx f)) as [p|] eqn:EG; [|discriminate].
    destruct (get_part_in _ _ _ EG) as [_ Hi]. rewrite <- Hi in EG.
    destruct (set_part_profit_frame b p (p_profit p - f_pay f) EG Hall) as (A1 & A2 & A3 & A4 & A5).
    destruct (bettor_wins _ bettor r) as [[b2 effs2]|] eqn:ER; [|discriminate]. inv H.
    destruct (IH _ _ _ _ ER A1) as (B1 & B2 & B3 & B4 & B5 & B6).
    cbn [map zsum]. repeat split; try assumption; try congruence; try lia.
Qed.

Lemma bettor_loses_delta fs : forall b b',
  bettor_loses b fs = Some b' -> all_unsettled b ->
  all_unsettled b' /\ pool_parts b' = pool_parts b + zsum (map f_stake fs) /\ fee_parts b' = fee_parts b /\
  bk_status b' = bk_status b /\ map iproj (bk_parts b') = map iproj (bk_parts b).
Proof.
  induction fs as [|f r IH]; intros b b' H Hall; cbn [bettor_loses] in H.
  - inv H. cbn. repeat split; try assumption; lia.
  - destruct (get_part b (f_idx f)) as [p|] eqn:EG; [|discriminate].
    destruct (get_part_in _ _ _ EG) as [_ Hi]. rewrite <- Hi in EG.
    destruct (set_part_profit_frame b p (p_profit p + f_stake f) EG Hall) as (A1 & A2 & A3 & A4 & A5).
    destruct (IH _ _ H A1) as (B1 & B2 & B3 & B4 & B5).
    cbn [map zsum]. repeat split; try assumption; try congruence; try lia.
Qed.

(* ---- settlement of the participations of a book --------------------------------------------------------- *)
Lemma settle_participation_delta p st creator p' effs :
  settle_participation p st creator = Some (p', effs) ->
  0 <= p_owner p -> 0 <= creator -> (st = MK_DECLARED \/ p_profit p = 0) ->
  part_pool p' = part_pool p + net_in POOL effs /\ part_fee p' = part_fee p + net_in HOUSEFEE effs /\
  net_in BETFEE effs = 0 /\ p_idx p' = p_idx p /\ p_settled p' = true /\ p_settled p = false /\
  (st = MK_DECLARED \/ st = MK_CANCELED \/ st = MK_ABORTED).
Proof.
  unfold settle_participation. intros H Ho Hc Hp.
  destruct (p_settled p) eqn:ES; [discriminate|].
  assert (N1 : (p_owner p =? POOL) = false) by (apply Z.eqb_neq; unfold POOL; lia).
  assert (N2 : (p_owner p =? HOUSEFEE) = false) by (apply Z.eqb_neq; unfold HOUSEFEE; lia).
  assert (N3 : (p_owner p =? BETFEE) = false) by (apply Z.eqb_neq; unfold BETFEE; lia).
  assert (N4 : (creator =? POOL) = false) by (apply Z.eqb_neq; unfold POOL; lia).
  assert (N5 : (creator =? HOUSEFEE) = false) by (apply Z.eqb_neq; unfold HOUSEFEE; lia).
  assert (N6 : (creator =? BETFEE) = false) by (apply Z.eqb_neq; unfold BETFEE; lia).
  unfold part_pool, part_fee. rewrite ES.
  destruct (st =? MK_DECLARED) eqn:E1.
  - apply Z.eqb_eq in E1.
    destruct (p_tba p =? 0); destruct (p_profit p <? 0); inv H;
      cbn [net_in part_settle p_settled p_idx]; rewrite ?N1, ?N2, ?N3, ?N4, ?N5, ?N6;
      cbn; repeat split; try lia; try (left; reflexivity).
  - destruct ((st =? MK_CANCELED) || (st =? MK_ABORTED)) eqn:E2; [|discriminate].
    destruct Hp as [Hp|Hp]; [subst st; discriminate|].
    inv H. cbn [net_in part_settle p_settled p_idx]. rewrite ?N1, ?N2, ?N3. cbn. rewrite Hp.
    repeat split; try lia.
Qed.

Lemma batch_parts_delta ps : forall st creator limit cnt alls c ps' effs,
  batch_parts ps st creator limit cnt = Some (alls, c, ps', effs) ->
  (forall p, In p ps -> 0 <= p_owner p) -> 0 <= creator ->
  (st = MK_DECLARED \/ forall p, In p ps -> p_profit p = 0) ->
  zsum (map part_pool ps') = zsum (map part_pool ps) + net_in POOL effs /\
  zsum (map part_fee ps') = zsum (map part_fee ps) + net_in HOUSEFEE effs /\
  net_in BETFEE effs = 0 /\ map p_idx ps' = map p_idx ps /\
  (forall p, In p ps' -> 0 <= p_owner p).
Proof.
  induction ps as [|p r IH]; intros st creator limit cnt alls c ps' effs H Hown Hcr Hprof; cbn [batch_parts] in H.
  - inv H. cbn. repeat split; try lia; try (intros q []).
  - assert (Hpo : 0 <= p_owner p) by (apply Hown; left; reflexivity).
    assert (Hpp : st = MK_DECLARED \/ p_profit p = 0) by (destruct Hprof as [Hd|Hz]; [left; exact Hd|right; apply Hz; left; reflexivity]).
    assert (Hr : st = MK_DECLARED \/ forall q, In q r -> p_profit q = 0)
      by (destruct Hprof as [Hd|Hz]; [left; exact Hd|right; intros q Hq; apply Hz; right; exact Hq]).
    assert (Hownr : forall q, In q r -> 0 <= p_owner q) by (intros q Hq; apply Hown; right; exact Hq).
    destruct (p_settled p) eqn:ES.
    + (* already settled: skipped *)
      destruct (limit <=? cnt).
      * inv H. cbn. repeat split; try lia. intros q [Hq|Hq]; [subst q; exact Hpo|apply Hownr; exact Hq].
      * destruct (batch_parts r st creator limit cnt) as [[[[a2 c2] ps2] e2]|] eqn:ER; [|discriminate]. inv H.
        destruct (IH _ _ _ _ _ _ _ _ ER Hownr Hcr Hr) as (A1 & A2 & A3 & A4 & A5).
        cbn [map zsum app net_in]. repeat split; try lia; try (f_equal; exact A4).
        intros q [Hq|Hq]; [subst q; exact Hpo|apply A5; exact Hq].
    + destruct (settle_participation p st creator) as [[p' effs1]|] eqn:EP; [|discriminate].
      destruct (settle_participation_delta _ _ _ _ _ EP Hpo Hcr Hpp) as (B1 & B2 & B3 & B4 & B5 & B6 & B7).
      assert (Hpo' : 0 <= p_owner p').
      { unfold settle_participation in EP. rewrite ES in EP. dmatch EP; inv EP; exact Hpo. }
      destruct (limit <=? cnt + 1).
      * inv H. cbn [map zsum]. repeat split; try lia; try (f_equal; exact B4).
        intros q [Hq|Hq]; [subst q; exact Hpo'|apply Hownr; exact Hq].
      * destruct (batch_parts r st creator limit (cnt + 1)) as [[[[a2 c2] ps2] e2]|] eqn:ER; [|discriminate]. inv H.
        destruct (IH _ _ _ _ _ _ _ _ ER Hownr Hcr Hr) as (A1 & A2 & A3 & A4 & A5).
        cbn [map zsum]. rewrite !net_in_app. repeat split; try lia; try (f_equal; [exact B4|exact A4]).
        intros q [Hq|Hq]; [subst q; exact Hpo'|apply A5; exact Hq].
Qed.

(* ---- ProcessWager never changes the status of the book ------------------------------------------------------ *)
Lemma st_drop b o i : bk_status (drop_from_queue b o i) = bk_status b.
Proof. unfold drop_from_queue. destruct (get_queue b o); reflexivity. Qed.
Lemma st_prep pes : forall b el sel cur b' cur', prep_expos pes b el sel cur = (b', cur') -> bk_status b' = bk_status b.
Proof.
  induction pes as [|pe r IH]; intros b el sel cur b' cur' H; cbn [prep_expos] in H; [inv H; reflexivity|].
  destruct el; rewrite (IH _ _ _ _ _ _ H); reflexivity.
Qed.
Lemma st_fold_secondary upds : forall b idx,
  bk_status (fold_left (fun b e => drop_from_queue (set_expo b e) (e_odds e) idx) upds b) = bk_status b.
Proof.
  induction upds as [|e r IH]; intros b idx; cbn [fold_left]; [reflexivity|].
  rewrite IH, st_drop. reflexivity.
Qed.
Lemma iter_betside_status A p0 so s ba fu pr pa bk :
  iter_betside A p0 so s = (ba, fu, pr, pa, bk) -> bk_status bk = bk_status (ws_book s).
Proof. unfold iter_betside. intros H. destruct so as [[st pay]|]; inv H; reflexivity. Qed.
Lemma iter_fulfilled_status A idx it setf p1 pe1 uq bk0 p3 pe3 uq3 bk1 :
  iter_fulfilled A idx it setf p1 pe1 uq bk0 = Some (p3, pe3, uq3, bk1) -> bk_status bk1 = bk_status bk0.
Proof.
  unfold iter_fulfilled. intros H. dmatch H; inv H; try reflexivity. apply st_fold_secondary.
Qed.
Lemma iter_refresh_status A idx it p3 bk2 fm uq3 bk5 fm2 uq5 :
  iter_refresh A idx it p3 bk2 fm uq3 = (bk5, fm2, uq5) -> bk_status bk5 = bk_status bk2.
Proof.
  unfold iter_refresh. cbv zeta. intros H.
  destruct (prep_expos _ bk2 _ _ None) as [bk3 pe4] eqn:EP.
  pose proof (st_prep _ _ _ _ _ _ _ EP) as H3.
  destruct (eligible_next _); inv H; cbn [bk_status set_queues set_part book_upd]; exact H3.
Qed.
Lemma wager_iter_status A idx s s' : wager_iter A idx s = Some s' -> bk_status (ws_book s') = bk_status (ws_book s).
Proof.
  unfold wager_iter. intros H.
  destruct (fmap_get (ws_fmap s) idx) as [it|]; [|discriminate].
  destruct (fi_pe it) as [pe0|]; [|discriminate].
  destruct (iter_switch A (fi_part it) pe0 s) as [[[[p1 pe1] setf] so] c1].
  destruct (iter_betside A (fi_part it) so s) as [[[[ba fu] pr] pa] bk0] eqn:EB.
  pose proof (iter_betside_status _ _ _ _ _ _ _ _ _ EB) as Hb0.
  destruct (iter_fulfilled A idx it setf p1 pe1 (ws_uq s) bk0) as [[[[p3 pe3] uq3] bk1]|] eqn:EF; [|discriminate].
  pose proof (iter_fulfilled_status _ _ _ _ _ _ _ _ _ _ _ _ EF) as Hb1.
  destruct ((p_enf p3 =? 0) && eligible_pre p3).
  - destruct (iter_refresh A idx it p3 _ (ws_fmap s) uq3) as [[bk5 fm2] uq5] eqn:ER.
    pose proof (iter_refresh_status _ _ _ _ _ _ _ _ _ _ ER) as H5. inv H. cbn [ws_book].
    rewrite H5. cbn [bk_status set_part set_expo book_upd]. congruence.
  - inv H. cbn [ws_book bk_status set_part set_expo book_upd]. congruence.
Qed.
Lemma wager_loop_status fuel : forall A q s s', wager_loop fuel A q s = Some s' -> bk_status (ws_book s') = bk_status (ws_book s).
Proof.
  induction fuel as [|f IH]; intros A q s s' H; destruct q as [|idx rest]; cbn [wager_loop] in H.
  - inv H. reflexivity.
  - discriminate.
  - inv H. reflexivity.
  - destruct (wager_iter A idx s) as [s1|] eqn:E; [|discriminate].
    pose proof (wager_iter_status _ _ _ _ E) as H1.
    destruct ((ws_profit s1 <? PREC) || _); [inv H; exact H1|].
    rewrite (IH _ _ _ _ H). exact H1.
Qed.
Theorem process_wager_status b A betamt profit bettor fee b' parts effs :
  process_wager b A betamt profit bettor fee = Some (b', parts, effs) -> bk_status b' = bk_status b.
Proof.
  unfold process_wager. intros H.
  destruct (get_queue b (wa_sel A)) as [q|]; [|discriminate].
  destruct (init_fmap b (wa_sel A)) as [fm|] eqn:EI; [|discriminate].
  match type of H with context [wager_loop ?f ?a ?qq ?s0] => destruct (wager_loop f a qq s0) as [s|] eqn:EL end; [|discriminate].
  dmatch H. inv H. cbn [bk_status set_queue book_upd].
  rewrite (wager_loop_status _ _ _ _ _ EL). reflexivity.
Qed.

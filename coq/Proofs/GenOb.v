(* Proofs/GenOb.v — generated kernels (Gen/kernels.v, regenerated from the Go source on every run) proved equal to the hand-written model:
   x/orderbook/types: participation and exposure bookkeeping, ValidateWithdraw.  Split by module so that a change of one module only touches the properties that depend on it. *)
From Coq Require Import ZArith Bool List Lia.
From Sge Require Import Lib.Dec Model.Types Model.Orderbook Model.Mint Model.Chain Gen.kernels.
Import ListNotations.
Open Scope Z_scope.

(* ---- x/orderbook/types/participation.go, exposure.go ------------------------------------------------------------------------------- *)
Definition gp_of (p : part) : G_OrderBookParticipation :=
  {| G_OrderBookParticipation_Index := p_idx p; G_OrderBookParticipation_OrderBookUID := 0;
     G_OrderBookParticipation_ParticipantAddress := p_owner p; G_OrderBookParticipation_Liquidity := p_liq p;
     G_OrderBookParticipation_Fee := p_fee p; G_OrderBookParticipation_CurrentRoundLiquidity := p_crl p;
     G_OrderBookParticipation_ExposuresNotFilled := p_enf p; G_OrderBookParticipation_TotalBetAmount := p_tba p;
     G_OrderBookParticipation_CurrentRoundTotalBetAmount := p_crtb p; G_OrderBookParticipation_MaxLoss := p_maxloss p;
     G_OrderBookParticipation_CurrentRoundMaxLoss := p_crml p; G_OrderBookParticipation_CurrentRoundMaxLossOddsUID := p_crml_odds p;
     G_OrderBookParticipation_ActualProfit := p_profit p; G_OrderBookParticipation_IsSettled := p_settled p;
     G_OrderBookParticipation_ReturnedAmount := p_returned p; G_OrderBookParticipation_ReimbursedFee := p_reimb p |}.
Definition ge_of (e : expo) : G_ParticipationExposure :=
  {| G_ParticipationExposure_OrderBookUID := 0; G_ParticipationExposure_OddsUID := e_odds e;
     G_ParticipationExposure_ParticipationIndex := e_part e; G_ParticipationExposure_Exposure := e_exp e;
     G_ParticipationExposure_BetAmount := e_bet e; G_ParticipationExposure_IsFulfilled := e_ful e; G_ParticipationExposure_Round := e_round e |}.

Lemma gen_maxWithdrawalAmount p : K_OrderBookParticipation_maxWithdrawalAmount (gp_of p) = max_withdrawal p.
Proof. reflexivity. Qed.

Lemma gen_WithdrawableAmount p mode amount : K_OrderBookParticipation_WithdrawableAmount (gp_of p) mode amount = withdrawable_amount p mode amount.
Proof.
  unfold K_OrderBookParticipation_WithdrawableAmount, withdrawable_amount. rewrite gen_maxWithdrawalAmount. unfold WM_FULL, WM_PARTIAL.
  destruct (mode =? 1); [destruct (max_withdrawal p <=? 0); reflexivity|]. destruct (mode =? 2); [destruct (max_withdrawal p <? amount); reflexivity|reflexivity].
Qed.

Lemma gen_IsEligibleForNextRound p : K_OrderBookParticipation_IsEligibleForNextRound (gp_of p) = eligible_next p.
Proof. reflexivity. Qed.
Lemma gen_IsLiquidityInCurrentRound p : K_OrderBookParticipation_IsLiquidityInCurrentRound (gp_of p) = (0 <? p_crl p).
Proof. reflexivity. Qed.
Lemma gen_IsEligiblePre p : K_OrderBookParticipation_IsEligibleForNextRoundPreLiquidityReduction (gp_of p) = eligible_pre p.
Proof. reflexivity. Qed.
Lemma gen_NotParticipated p : K_OrderBookParticipation_NotParticipatedInBetFulfillment (gp_of p) = (p_tba p =? 0).
Proof. reflexivity. Qed.

(* the participation written by a withdrawal (WithdrawOrderBookParticipation) *)
Lemma gen_SetLiquidityAfterWithdrawal p amt :
  K_OrderBookParticipation_SetLiquidityAfterWithdrawal (gp_of p) amt =
  gp_of (part_upd p (p_liq p - amt) (p_crl p - amt) (p_enf p) (p_tba p) (p_crtb p) (p_maxloss p) (p_crml p) (p_crml_odds p) (p_profit p)).
Proof. reflexivity. Qed.

(* the two steps of refreshQueueAndState on the participation: trim, then reset for the next round (iter_refresh: p4, p5) *)
Lemma gen_TrimCurrentRoundLiquidity p :
  K_OrderBookParticipation_TrimCurrentRoundLiquidity (gp_of p) = gp_of (part_set_crl p (p_crl p - zmax0 (p_crml p))).
Proof. reflexivity. Qed.
Lemma gen_ResetForNextRound p n :
  K_OrderBookParticipation_ResetForNextRound (gp_of p) n =
  gp_of (part_upd p (p_liq p) (p_crl p) n (p_tba p) 0 (p_maxloss p + p_crml p) 0 (p_crml_odds p) (p_profit p)).
Proof. reflexivity. Qed.

(* the bookkeeping of one fulfilment: exposure.SetCurrentRound, then participation.SetCurrentRound with setMaxLoss, is fulfil_records *)
Lemma gen_fulfil_records p e o stake pay :
  let pe' := K_ParticipationExposure_SetCurrentRound (ge_of e) stake pay in
  let p' := K_OrderBookParticipation_SetCurrentRound (gp_of p) pe' o stake in
  (p', pe') = (gp_of (fst (fulfil_records p e o stake pay)), ge_of (snd (fulfil_records p e o stake pay))).
Proof.
  cbv zeta. unfold fulfil_records. cbv zeta.
  unfold K_OrderBookParticipation_SetCurrentRound, K_OrderBookParticipation_setMaxLoss, K_OrderBookParticipation_CalculateMaxLoss,
    K_ParticipationExposure_CalculateMaxLoss, K_ParticipationExposure_SetCurrentRound.
  cbn [gp_of ge_of G_OrderBookParticipation_CurrentRoundMaxLossOddsUID G_OrderBookParticipation_CurrentRoundMaxLoss
       G_OrderBookParticipation_CurrentRoundTotalBetAmount G_OrderBookParticipation_TotalBetAmount
       set_G_OrderBookParticipation_TotalBetAmount set_G_OrderBookParticipation_CurrentRoundTotalBetAmount
       set_G_OrderBookParticipation_CurrentRoundMaxLoss set_G_OrderBookParticipation_CurrentRoundMaxLossOddsUID
       G_ParticipationExposure_Exposure G_ParticipationExposure_BetAmount set_G_ParticipationExposure_Exposure set_G_ParticipationExposure_BetAmount
       e_exp e_bet expo_upd].
  destruct (p_crml_odds p =? o) eqn:E1.
  - cbn [fst snd]. reflexivity.
  - destruct (p_crml p - stake <? e_exp e + pay + (e_bet e + stake) - (p_crtb p + stake)); cbn [fst snd]; reflexivity.
Qed.

(* the two guards at the head of calc_withdrawal *)
Lemma gen_ValidateWithdraw p depositor idx :
  K_OrderBookParticipation_ValidateWithdraw (gp_of p) depositor idx = negb (p_settled p) && (p_owner p =? depositor).
Proof.
  unfold K_OrderBookParticipation_ValidateWithdraw. cbn [gp_of G_OrderBookParticipation_IsSettled G_OrderBookParticipation_ParticipantAddress].
  destruct (p_settled p); [reflexivity|]. destruct (p_owner p =? depositor); reflexivity.
Qed.

(* GetOrderBookParticipation on the generated list of participations = get_part *)
Lemma find_gp i (ps : list part) :
  find (fun g => G_OrderBookParticipation_Index g =? i) (map gp_of ps) = option_map gp_of (findb (part_is i) ps).
Proof.
  unfold findb. induction ps as [|a r IH]; cbn [map find option_map]; [reflexivity|].
  unfold part_is at 1. cbn [gp_of G_OrderBookParticipation_Index]. destruct (p_idx a =? i); [reflexivity|exact IH].
Qed.

(* ---- x/orderbook/keeper/participation.go CalcWithdrawalAmount (generated over: the participations of the book, the exposures recorded for the
   participation asked about): what a house withdrawal may take IS the model's calc_withdrawal -------------------------------------------- *)
Definition obwd_state (b : book) (idx : Z) : S_obwd :=
  {| S_obwd_Parts := map gp_of (bk_parts b); S_obwd_PartExpos := map ge_of (expos_of_part_ix b idx) |}.
Lemma gen_CalcWithdrawalAmount b depositor idx mode wtotal amount :
  K_obwd_CalcWithdrawalAmount (obwd_state b idx) depositor idx mode wtotal amount = calc_withdrawal b depositor idx mode wtotal amount.
Proof.
  unfold K_obwd_CalcWithdrawalAmount, calc_withdrawal, obwd_state, get_part. cbn [S_obwd_Parts S_obwd_PartExpos].
  rewrite find_gp. destruct (findb (part_is idx) (bk_parts b)) as [p|]; cbn [option_map negb]; [|reflexivity].
  change (G_OrderBookParticipation_IsSettled (gp_of p)) with (p_settled p). destruct (p_settled p); [reflexivity|].
  change (G_OrderBookParticipation_ParticipantAddress (gp_of p)) with (p_owner p). destruct (negb (p_owner p =? depositor)); [reflexivity|].
  destruct (expos_of_part_ix b idx) as [|e r]; [reflexivity|].
  cbn [map klen length]. replace (Z.of_nat (S (length (map ge_of r))) =? 0) with false by (symmetry; apply Z.eqb_neq; lia).
  unfold knth. cbn [Z.ltb Z.compare Z.to_nat nth]. change (G_ParticipationExposure_Round (ge_of e)) with (e_round e).
  destruct (negb (e_round e =? 1)); [reflexivity|].
  unfold WM_PARTIAL. change (G_OrderBookParticipation_Liquidity (gp_of p)) with (p_liq p).
  destruct (mode =? 2); cbn [andb].
  - destruct (p_liq p - wtotal <? amount); [reflexivity|]. rewrite gen_WithdrawableAmount. destruct (withdrawable_amount p mode amount); reflexivity.
  - rewrite gen_WithdrawableAmount. destruct (withdrawable_amount p mode amount); reflexivity.
Qed.

(* Proofs/BookHist.v — the order book of every market of every reachable state is well formed (BookInv.bw) and all its
   fulfilment queues are duplicate-free lists of participations whose exposure on that outcome is open (queues_ok):
   preserved by each of the eight local transitions (Local.mtrans), hence by every history (local_invariant). *)
From Coq Require Import ZArith Bool List Lia.
From Sge Require Import Lib.Dec Model.Types Model.Orderbook Model.Mint Model.Chain
     Proofs.Tactics Proofs.WagerLoop Proofs.CustodyLocal Proofs.Custody Proofs.BookFacts Proofs.BookAPI Proofs.BookInv
     Proofs.WagerBounds Proofs.Local.
Import ListNotations.
Open Scope Z_scope.

Definition mwf (x : mstate) : Prop :=
  NoDup (k_odds (ms_mkt x)) /\ zlen (k_odds (ms_mkt x)) < U64 /\
  bw (k_odds (ms_mkt x)) (ms_book x) /\ queues_ok (ms_book x).

(* ---- a fresh book ---------------------------------------------------------------------------------------------------------- *)
Lemma zdistinct_nodup l : zdistinct l = true -> NoDup l.
Proof.
  induction l as [|x r IH]; cbn [zdistinct]; intros H; [constructor|]. apply andb_true_iff in H. destruct H as [H1 H2].
  constructor; [|apply IH; exact H2]. intros Hin. apply negb_true_iff in H1.
  assert (zmem x r = true); [|congruence]. unfold zmem. apply existsb_exists. exists x. split; [exact Hin|apply Z.eqb_refl].
Qed.

Lemma gq_new odds o ql : get_queue (new_book odds) o = Some ql -> ql = [].
Proof.
  unfold get_queue, new_book, findb. cbn [bk_queues]. induction odds as [|x r IH]; cbn [map find fst snd]; [discriminate|].
  destruct (x =? o); [intros H; inv H; reflexivity|exact IH].
Qed.

Lemma mwf_fresh mk : market_new mk -> mwf (fresh_ms mk).
Proof.
  intros [M1 M2 M3 M4 M5 M6 M7]. unfold mwf, fresh_ms. cbn [ms_mkt ms_book].
  split; [apply zdistinct_nodup; exact M2|]. split; [exact M7|]. split.
  - constructor; cbn [new_book bk_parts bk_partcnt bk_oddscnt bk_expo bk_hist bk_queues map].
    + constructor.
    + intros p [].
    + reflexivity.
    + reflexivity.
    + reflexivity.
    + constructor.
    + intros e [].
    + intros h [].
    + rewrite map_map. cbn [fst]. apply map_id.
    + intros p [].
  - intros o ql Hq. rewrite (gq_new _ _ _ Hq). split; [constructor|intros i []].
Qed.

(* ---- writing back a participation whose structural fields are unchanged ------------------------------------------------------ *)
Lemma pw_same_fields odds b i p p' : p_idx p' = p_idx p -> p_enf p' = p_enf p -> p_crtb p' = p_crtb p -> pw odds b i p -> pw odds b i p'.
Proof. intros E1 E2 E3 [P1 P2 P3 P4]. constructor; [congruence|exact P2|congruence|congruence]. Qed.

Lemma gp_exists_set_part b p i q : get_part b i = Some q -> exists q', get_part (set_part b p) i = Some q'.
Proof.
  intros H. destruct (Z.eq_dec i (p_idx p)) as [->|Hne]; [eexists; apply gp_set_part_same|].
  rewrite gp_set_part_other by exact Hne. eexists. exact H.
Qed.

Lemma bw_set_part_same odds b p p0 :
  get_part b (p_idx p) = Some p0 -> p_enf p = p_enf p0 -> p_crtb p = p_crtb p0 -> bw odds b -> bw odds (set_part b p).
Proof.
  intros Hg E2 E3 W. pose proof (gp_idx _ _ _ Hg) as Hi0.
  assert (Hin0 : In p0 (bk_parts b)) by (apply get_part_in in Hg; tauto).
  assert (Hpidx : map p_idx (bk_parts (set_part b p)) = map p_idx (bk_parts b)) by (eapply pidx_set_part_existing; exact Hg).
  destruct W as [bw_nodup0 bw_range0 bw_count0 bw_oddscnt0 bw_ix0 bw_keys0 bw_expo0 bw_hist0 bw_qkeys0 bw_parts0].
  assert (Hnd' : NoDup (map p_idx (bk_parts (set_part b p)))) by (rewrite Hpidx; exact bw_nodup0).
  constructor; try assumption.
  - intros q Hq. cbn [bk_partcnt set_part book_upd]. apply in_set_part in Hq. destruct Hq as [->|Hq]; [|apply bw_range0; exact Hq].
    rewrite <- Hi0. apply bw_range0. exact Hin0.
  - cbn [bk_partcnt set_part book_upd]. rewrite bw_count0. symmetry. apply map_pidx_len. exact Hpidx.
  - intros e He. destruct (bw_expo0 e He) as [X1 (q & X2)]. split; [exact X1|]. eapply gp_exists_set_part. exact X2.
  - intros h Hh. destruct (bw_hist0 h Hh) as (q & X). eapply gp_exists_set_part. exact X.
  - intros q Hq. destruct (Z.eq_dec (p_idx q) (p_idx p)) as [Hi|Hne].
    + assert (q = p). { pose proof (gp_of_in _ _ Hnd' Hq) as G. rewrite Hi, gp_set_part_same in G. congruence. }
      subst q. apply (pw_ext odds b); [reflexivity|reflexivity|]. apply (pw_same_fields odds b (p_idx p) p0 p); try congruence. rewrite <- Hi0. apply bw_parts0. exact Hin0.
    + apply in_set_part in Hq. destruct Hq as [->|Hq]; [contradiction|]. apply (pw_ext odds b); [reflexivity|reflexivity|]. apply bw_parts0. exact Hq.
Qed.

Lemma queues_ok_set_part b p : queues_ok b -> queues_ok (set_part b p).
Proof.
  intros Q o ql Hq. destruct (Q o ql Hq) as [Hnd Hel]. split; [exact Hnd|].
  intros i Hi. destruct (Hel i Hi) as (q & e & X1 & X2 & X3). destruct (gp_exists_set_part b p i q X1) as (q' & Hq').
  exists q', e. tauto.
Qed.

(* ---- a deposit ------------------------------------------------------------------------------------------------------------------ *)
Definition new_expo (idx o : Z) : expo := {| e_odds := o; e_part := idx; e_exp := 0; e_bet := 0; e_ful := false; e_round := 1 |}.
Definition init_step (idx : Z) (bb : book) (q : Z * list Z) : book := set_expo (set_queue bb (fst q) (snd q ++ [idx])) (new_expo idx (fst q)).

Lemma init_fold_spec idx qs : forall bb, NoDup (map fst qs) ->
  (forall k, In k (map fst qs) -> ge bb k idx = None /\ In k (map fst (bk_queues bb))) ->
  let b' := fold_left (init_step idx) qs bb in
  bk_parts b' = bk_parts bb /\ bk_hist b' = bk_hist bb /\ bk_partcnt b' = bk_partcnt bb /\ bk_oddscnt b' = bk_oddscnt bb /\
  map fst (bk_queues b') = map fst (bk_queues bb) /\
  bk_expo b' = bk_expo bb ++ map (new_expo idx) (map fst qs) /\
  (forall k l, In (k, l) qs -> get_queue b' k = Some (l ++ [idx])) /\
  (forall k, ~ In k (map fst qs) -> get_queue b' k = get_queue bb k).
Proof.
  induction qs as [|[k l] r IH]; intros bb Hnd Hk; cbn [fold_left].
  - repeat split; try reflexivity; [cbn; rewrite app_nil_r; reflexivity|intros k l []].
  - cbn [map fst] in Hnd. inversion Hnd as [|? ? Hni Hnd']; subst.
    set (b1 := init_step idx bb (k, l)).
    destruct (Hk k (or_introl eq_refl)) as [Hgk Hink].
    assert (He1 : bk_expo b1 = bk_expo bb ++ [new_expo idx k]).
    { unfold b1, init_step, set_expo. cbn [bk_expo book_upd set_queue fst snd e_odds e_part new_expo]. apply upd_absent_app. exact Hgk. }
    assert (Hq1 : map fst (bk_queues b1) = map fst (bk_queues bb)).
    { unfold b1, init_step. cbn [bk_queues set_expo book_upd fst snd]. apply (qkeys_set_queue bb k (l ++ [idx])). exact Hink. }
    assert (Hk1 : forall k', In k' (map fst r) -> ge b1 k' idx = None /\ In k' (map fst (bk_queues b1))).
    { intros k' Hk'. destruct (Hk k' (or_intror Hk')) as [X1 X2]. split; [|rewrite Hq1; exact X2].
      unfold b1, init_step. rewrite ge_set_expo_other; [exact X1|]. cbn [e_odds e_part new_expo fst]. intros E. inv E. contradiction. }
    destruct (IH b1 Hnd' Hk1) as (A1 & A2 & A3 & A4 & A5 & A6 & A7 & A8).
    split; [rewrite A1; reflexivity|]. split; [rewrite A2; reflexivity|]. split; [rewrite A3; reflexivity|]. split; [rewrite A4; reflexivity|].
    split; [rewrite A5; exact Hq1|]. split; [rewrite A6, He1, <- app_assoc; reflexivity|]. split.
    + intros k' l' [E|Hin]; [inv E|apply A7; exact Hin].
      rewrite A8 by exact Hni. unfold b1, init_step. rewrite gq_set_expo. apply gq_set_queue_same.
    + intros k' Hn. rewrite A8 by (intros Hin; apply Hn; right; exact Hin).
      unfold b1, init_step. rewrite gq_set_expo. apply gq_set_queue_other. intros ->. apply Hn. left. reflexivity.
Qed.

Lemma find_app_r_none {A} (f : A -> bool) l1 l2 : find f l1 = None -> find f (l1 ++ l2) = find f l2.
Proof. induction l1 as [|x r IH]; cbn; [trivial|]. destruct (f x); [discriminate|exact IH]. Qed.

Lemma find_new_expo idx o ks : In o ks -> find (expo_is o idx) (map (new_expo idx) ks) = Some (new_expo idx o).
Proof.
  induction ks as [|k r IH]; intros Hin; [destruct Hin|]. cbn [map find]. unfold expo_is at 1. cbn [e_odds e_part new_expo].
  destruct (k =? o) eqn:E; [apply Z.eqb_eq in E; subst k; rewrite Z.eqb_refl; reflexivity|].
  cbn [andb]. destruct Hin as [->|Hin]; [rewrite Z.eqb_refl in E; discriminate|apply IH; exact Hin].
Qed.
Lemma find_new_expo_other idx o i ks : i <> idx \/ ~ In o ks -> find (expo_is o i) (map (new_expo idx) ks) = None.
Proof.
  intros Hc. induction ks as [|k r IH]; [reflexivity|]. cbn [map find]. unfold expo_is at 1. cbn [e_odds e_part new_expo].
  destruct ((k =? o) && (idx =? i)) eqn:E.
  - apply andb_true_iff in E. destruct E as [E1 E2]. apply Z.eqb_eq in E1. apply Z.eqb_eq in E2. subst.
    destruct Hc as [Hc|Hc]; exfalso; [apply Hc; reflexivity|apply Hc; left; reflexivity].
  - apply IH. destruct Hc as [Hc|Hc]; [left; exact Hc|right; intros Hin; apply Hc; right; exact Hin].
Qed.

Lemma nodup_pairs (idx : Z) (ks : list Z) : NoDup ks -> NoDup (map (fun x : Z => (x, idx)) ks).
Proof.
  induction ks as [|k r IH]; intros H; cbn [map]; [constructor|]. inversion H as [|? ? Hni Hnd]; subst.
  constructor; [|apply IH; exact Hnd]. intros Hin. apply in_map_iff in Hin. destruct Hin as (y & Hy & Hin). inv Hy. contradiction.
Qed.
Lemma nodup_keys_app (l : list (Z * Z)) (idx : Z) (ks : list Z) :
  NoDup l -> NoDup ks -> (forall k, In k l -> snd k <> idx) -> NoDup (l ++ map (fun x : Z => (x, idx)) ks).
Proof.
  intros Hl Hk Hs. induction l as [|x r IH]; cbn [app]; [apply nodup_pairs; exact Hk|].
  inversion Hl as [|? ? Hni Hnd]; subst. constructor.
  - intros Hin. apply in_app_or in Hin. destruct Hin as [Hin|Hin]; [contradiction|].
    apply in_map_iff in Hin. destruct Hin as (y & Hy & _). apply (Hs x (or_introl eq_refl)). rewrite <- Hy. reflexivity.
  - apply IH; [exact Hnd|]. intros k Hin. apply Hs. right. exact Hin.
Qed.

Theorem init_participation_bw odds b mx owner amount fee b' idx effs :
  init_participation b mx owner amount fee = Some (b', idx, effs) -> NoDup odds -> bw odds b -> queues_ok b ->
  bw odds b' /\ queues_ok b'.
Proof.
  unfold init_participation. intros H Hndo W Q.
  destruct (negb (bk_status b =? BK_ACTIVE)); [discriminate|].
  destruct (mx <=? bk_partcnt b); [discriminate|].
  destruct (get_part b (bk_partcnt b + 1)) eqn:EG; [discriminate|].
  injection H as <- <- _.
  set (idx := bk_partcnt b + 1) in *.
  set (p := {| p_idx := idx; p_owner := owner; p_liq := amount - fee; p_fee := fee; p_crl := amount - fee; p_enf := bk_oddscnt b; p_tba := 0;
               p_crtb := 0; p_maxloss := 0; p_crml := 0; p_crml_odds := -1; p_profit := 0; p_settled := false; p_returned := 0; p_reimb := 0 |}) in *.
  set (b1 := set_part b p) in *.
  destruct W as [W1 W2 W3 W4 W5 W6 W7 W8 W9 W10].
  assert (Hp1 : bk_parts b1 = bk_parts b ++ [p]) by (unfold b1, set_part; cbn [bk_parts book_upd]; apply upd_absent_app; exact EG).
  assert (Hnoexp : forall o, ge b o idx = None).
  { intros o. destruct (ge b o idx) as [e|] eqn:E; [|reflexivity]. destruct (ge_key _ _ _ _ E) as (_ & K2 & K3).
    destruct (W7 e K3) as [_ (q & X)]. rewrite K2, EG in X. discriminate. }
  change (fold_left _ (bk_queues b1) b1) with (fold_left (init_step idx) (bk_queues b1) b1).
  destruct (init_fold_spec idx (bk_queues b1) b1) as (A1 & A2 & A3 & A4 & A5 & A6 & A7 & A8).
  { change (bk_queues b1) with (bk_queues b). rewrite W9. exact Hndo. }
  { intros k Hk. split; [apply Hnoexp|exact Hk]. }
  set (b2 := fold_left (init_step idx) (bk_queues b1) b1) in *.
  change (bk_queues b1) with (bk_queues b) in *. rewrite W9 in A6.
  set (b3 := book_upd b2 (bk_status b2) idx (bk_queues b2) (bk_parts b2) (bk_expo b2) (bk_expo_ix b2) (bk_hist b2) (bk_pairs b2)).
  change (bw odds b3 /\ queues_ok b3).
  assert (Hge3 : forall o i, ge b3 o i = match ge b o i with Some e => Some e | None => if (i =? idx) && zmem o odds then Some (new_expo idx o) else None end).
  { intros o i. unfold ge, findb. change (bk_expo b3) with (bk_expo b2). rewrite A6. change (bk_expo b1) with (bk_expo b).
    destruct (find (expo_is o i) (bk_expo b)) as [e|] eqn:E; [apply find_app_l; exact E|]. rewrite (find_app_r_none _ _ _ E).
    destruct ((i =? idx) && zmem o odds) eqn:Ec.
    - apply andb_true_iff in Ec. destruct Ec as [E1 E2]. apply Z.eqb_eq in E1. subst i. apply find_new_expo.
      unfold zmem in E2. apply existsb_exists in E2. destruct E2 as (y & Hy & Ey). apply Z.eqb_eq in Ey. subst y. exact Hy.
    - apply find_new_expo_other. apply andb_false_iff in Ec. destruct Ec as [Ec|Ec]; [left; apply Z.eqb_neq; exact Ec|right].
      intros Hin. assert (zmem o odds = true); [|congruence]. unfold zmem. apply existsb_exists. exists o. split; [exact Hin|apply Z.eqb_refl]. }
  assert (Hgp3 : forall i, get_part b3 i = if i =? idx then Some p else get_part b i).
  { intros i. unfold get_part, findb. change (bk_parts b3) with (bk_parts b2). rewrite A1, Hp1.
    destruct (i =? idx) eqn:E.
    - apply Z.eqb_eq in E. subst i. rewrite (find_app_r_none _ _ _ EG). cbn [find]. unfold part_is. cbn [p_idx p]. rewrite Z.eqb_refl. reflexivity.
    - destruct (find (part_is i) (bk_parts b)) as [q|] eqn:Ef; [apply find_app_l; exact Ef|]. rewrite (find_app_r_none _ _ _ Ef).
      cbn [find]. unfold part_is. cbn [p_idx p]. rewrite Z.eqb_sym, E. reflexivity. }
  assert (Hold : forall i q, get_part b i = Some q -> i <> idx).
  { intros i q Hq ->. congruence. }
  assert (Hzm : forall o, In o odds -> zmem o odds = true).
  { intros o Ho. unfold zmem. apply existsb_exists. exists o. split; [exact Ho|apply Z.eqb_refl]. }
  split.
  - constructor.
    + change (bk_parts b3) with (bk_parts b2). rewrite A1, Hp1, map_app. cbn [map p_idx p]. apply NoDup_snoc; [exact W1|].
      intros Hin. apply in_map_iff in Hin. destruct Hin as (q & Hq1 & Hq2). pose proof (W2 q Hq2). unfold idx in Hq1. lia.
    + intros q Hq. change (bk_parts b3) with (bk_parts b2) in Hq. rewrite A1, Hp1 in Hq. change (bk_partcnt b3) with idx.
      apply in_app_or in Hq. destruct Hq as [Hq|[<-|[]]]; [pose proof (W2 q Hq); unfold idx; lia|cbn [p_idx p]; unfold idx].
      assert (0 <= bk_partcnt b) by (rewrite W3; unfold zlen; lia). lia.
    + change (bk_partcnt b3) with idx. change (bk_parts b3) with (bk_parts b2). rewrite A1, Hp1. unfold zlen, idx. rewrite app_length. cbn [length].
      rewrite W3. unfold zlen. lia.
    + change (bk_oddscnt b3) with (bk_oddscnt b2). rewrite A4. exact W4.
    + unfold b3, ix_eq. cbn [bk_expo_ix bk_expo book_upd]. apply ix_fold_init. unfold b1. apply ix_set_part. exact W5.
    + change (bk_expo b3) with (bk_expo b2). rewrite A6, map_app. change (bk_expo b1) with (bk_expo b).
      rewrite map_map. change (map (fun x : Z => ekey (new_expo idx x)) odds) with (map (fun x : Z => (x, idx)) odds).
      apply nodup_keys_app; [exact W6|exact Hndo|].
      intros k Hin. apply in_map_iff in Hin. destruct Hin as (e & He1 & He2). destruct (W7 e He2) as [_ (q & X)]. subst k. cbn [snd ekey].
      intros E. rewrite E, EG in X. discriminate.
    + intros e He. change (bk_expo b3) with (bk_expo b2) in He. rewrite A6 in He. change (bk_expo b1) with (bk_expo b) in He.
      apply in_app_or in He. destruct He as [He|He].
      * destruct (W7 e He) as [X1 (q & X2)]. split; [exact X1|]. rewrite Hgp3. destruct (e_part e =? idx); eexists; [reflexivity|exact X2].
      * apply in_map_iff in He. destruct He as (o & <- & Ho). cbn [e_odds e_part new_expo]. split; [exact Ho|].
        rewrite Hgp3, Z.eqb_refl. eexists. reflexivity.
    + intros h Hh. change (bk_hist b3) with (bk_hist b2) in Hh. rewrite A2 in Hh. change (bk_hist b1) with (bk_hist b) in Hh.
      destruct (W8 h Hh) as (q & X). rewrite Hgp3. destruct (e_part h =? idx); eexists; [reflexivity|exact X].
    + change (bk_queues b3) with (bk_queues b2). rewrite A5. exact W9.
    + intros q Hq. change (bk_parts b3) with (bk_parts b2) in Hq. rewrite A1, Hp1 in Hq. apply in_app_or in Hq. destruct Hq as [Hq|[<-|[]]].
      * assert (Hne : p_idx q <> idx) by (apply (Hold _ q); apply gp_of_in; assumption).
        apply (pw_ext odds b b3); [| |apply W10; exact Hq].
        -- intros o. rewrite Hge3. destruct (ge b o (p_idx q)); [reflexivity|]. apply Z.eqb_neq in Hne. rewrite Hne. reflexivity.
        -- unfold hist_i. change (bk_hist b3) with (bk_hist b2). rewrite A2. reflexivity.
      * cbn [p_idx p]. constructor.
        -- reflexivity.
        -- exists 1. split; [lia|]. split.
           ++ intros o Ho. exists (new_expo idx o). rewrite Hge3, Hnoexp, Z.eqb_refl, (Hzm o Ho). repeat split.
           ++ intros h Hh. unfold hist_i in Hh. change (bk_hist b3) with (bk_hist b2) in Hh. rewrite A2 in Hh. change (bk_hist b1) with (bk_hist b) in Hh.
              apply filter_In in Hh. destruct Hh as [Hh Hp]. apply Z.eqb_eq in Hp. destruct (W8 h Hh) as (q & X). rewrite Hp, EG in X. discriminate.
        -- cbn [p_enf p]. rewrite W4. rewrite (sumo_const odds (unful b3 idx) 1); [lia|].
           intros o Ho. unfold unful. rewrite Hge3, Hnoexp, Z.eqb_refl, (Hzm o Ho). reflexivity.
        -- cbn [p_crtb p]. rewrite (sumo_const odds (ebet b3 idx) 0); [lia|].
           intros o Ho. unfold ebet. rewrite Hge3, Hnoexp, Z.eqb_refl, (Hzm o Ho). reflexivity.
  - intros o ql Hq. change (get_queue b3 o) with (get_queue b2 o) in Hq.
    assert (Hko : In o odds) by (rewrite <- W9, <- A5; eapply gq_in_keys; exact Hq).
    destruct (keys_in_gq b o ltac:(rewrite W9; exact Hko)) as (l & Hl).
    assert (Hinq : In (o, l) (bk_queues b)).
    { unfold get_queue, findb in Hl. destruct (find _ (bk_queues b)) as [[k v]|] eqn:E; [|discriminate]. inv Hl.
      apply find_some in E. destruct E as [Hi Hk]. cbn in Hk. apply Z.eqb_eq in Hk. subst k. exact Hi. }
    rewrite (A7 o l Hinq) in Hq. injection Hq as <-. destruct (Q o l Hl) as [Hnd Hel]. split.
    + apply NoDup_snoc; [exact Hnd|]. intros Hin. destruct (Hel idx Hin) as (q & _ & X & _). congruence.
    + intros i Hi. apply in_app_or in Hi. destruct Hi as [Hi|[<-|[]]].
      * destruct (Hel i Hi) as (q & e & X1 & X2 & X3). exists q, e. rewrite Hgp3, Hge3, X2.
        assert (i =? idx = false) by (apply Z.eqb_neq; eapply Hold; exact X1). rewrite H. tauto.
      * exists p, (new_expo idx o). rewrite Hgp3, Hge3, Hnoexp, Z.eqb_refl, (Hzm o Hko). repeat split.
Qed.

(* ---- replacing the participation list by one with the same structural fields (settlement) ---------------------------------------- *)
Definition ssig (p : part) : Z * Z * Z := (p_idx p, p_enf p, p_crtb p).

Lemma ssig_idx l l' : map ssig l' = map ssig l -> map p_idx l' = map p_idx l.
Proof.
  intros H. replace (map p_idx l') with (map (fun t : Z * Z * Z => fst (fst t)) (map ssig l')) by (rewrite map_map; reflexivity).
  rewrite H, map_map. reflexivity.
Qed.

Lemma find_part_exists l l' i p : map p_idx l' = map p_idx l -> find (part_is i) l = Some p -> exists p', find (part_is i) l' = Some p'.
Proof.
  revert l'. induction l as [|x r IH]; intros l' H Hf; [discriminate|]. destruct l' as [|y t]; [discriminate|].
  cbn [map] in H. injection H as H1 H2. cbn [find] in *. unfold part_is in *. rewrite H1.
  destruct (p_idx x =? i); [eexists; reflexivity|eapply IH; eassumption].
Qed.

Definition with_parts (b : book) (ps : list part) (st : Z) : book :=
  book_upd b st (bk_partcnt b) (bk_queues b) ps (bk_expo b) (bk_expo_ix b) (bk_hist b) (bk_pairs b).

Lemma bw_with_parts odds b ps st : map ssig ps = map ssig (bk_parts b) -> bw odds b -> bw odds (with_parts b ps st).
Proof.
  intros Hs W. pose proof (ssig_idx _ _ Hs) as Hi. destruct W as [W1 W2 W3 W4 W5 W6 W7 W8 W9 W10].
  assert (Hgp : forall i q, get_part b i = Some q -> exists q', get_part (with_parts b ps st) i = Some q').
  { intros i q Hq. unfold get_part, findb in *. cbn [bk_parts with_parts book_upd]. eapply find_part_exists; eassumption. }
  constructor; cbn [bk_parts bk_partcnt bk_oddscnt bk_expo bk_hist bk_queues with_parts book_upd]; try assumption.
  - rewrite Hi. exact W1.
  - intros p Hp. destruct (map_eq_in ssig _ _ p Hs Hp) as (q & Hq & E). unfold ssig in E. injection E as E1 _ _. rewrite <- E1. apply W2. exact Hq.
  - rewrite W3. unfold zlen. rewrite <- (map_length p_idx ps), Hi, map_length. reflexivity.
  - intros e He. destruct (W7 e He) as [X1 (q & X2)]. split; [exact X1|]. eapply Hgp. exact X2.
  - intros h Hh. destruct (W8 h Hh) as (q & X). eapply Hgp. exact X.
  - intros p Hp. destruct (map_eq_in ssig _ _ p Hs Hp) as (q & Hq & E). unfold ssig in E. injection E as E1 E2 E3.
    apply (pw_ext odds b); [reflexivity|reflexivity|]. rewrite <- E1. apply (pw_same_fields odds b (p_idx q) q p); try congruence. apply W10. exact Hq.
Qed.

Lemma queues_ok_with_parts b ps st : map ssig ps = map ssig (bk_parts b) -> queues_ok b -> queues_ok (with_parts b ps st).
Proof.
  intros Hs Q o ql Hq. pose proof (ssig_idx _ _ Hs) as Hi. destruct (Q o ql Hq) as [Hnd Hel]. split; [exact Hnd|].
  intros i Hin. destruct (Hel i Hin) as (q & e & X1 & X2 & X3).
  assert (exists q', get_part (with_parts b ps st) i = Some q') as (q' & Hq').
  { unfold get_part, findb in *. cbn [bk_parts with_parts book_upd]. eapply find_part_exists; eassumption. }
  exists q', e. tauto.
Qed.

Lemma batch_parts_ssig ps : forall st creator limit cnt alls c ps' effs,
  batch_parts ps st creator limit cnt = Some (alls, c, ps', effs) -> map ssig ps' = map ssig ps.
Proof.
  induction ps as [|p r IH]; intros st creator limit cnt alls c ps' effs H; cbn [batch_parts] in H; [inv H; reflexivity|].
  destruct (p_settled p).
  - destruct (limit <=? cnt); [inv H; reflexivity|].
    destruct (batch_parts r st creator limit cnt) as [[[[a2 c2] ps2] e2]|] eqn:EB; [|discriminate]. inv H. cbn [map]. f_equal. eapply IH; exact EB.
  - destruct (settle_participation p st creator) as [[p1 e1]|] eqn:ES; [|discriminate].
    assert (Hp1 : ssig p1 = ssig p).
    { unfold settle_participation in ES. dmatch ES; inv ES; reflexivity. }
    destruct (limit <=? cnt + 1); [inv H; cbn [map]; rewrite Hp1; reflexivity|].
    destruct (batch_parts r st creator limit (cnt + 1)) as [[[[a2 c2] ps2] e2]|] eqn:EB; [|discriminate]. inv H. cbn [map]. rewrite Hp1. f_equal. eapply IH; exact EB.
Qed.

(* ---- settlement of bets: only realised profit moves ------------------------------------------------------------------------------------ *)
Lemma set_profit_keeps odds b p v : get_part b (p_idx p) = Some p -> bw odds b -> queues_ok b ->
  bw odds (set_part b (part_set_profit p v)) /\ queues_ok (set_part b (part_set_profit p v)).
Proof.
  intros Hg W Q. split; [eapply bw_set_part_same; [exact Hg|reflexivity|reflexivity|exact W]|apply queues_ok_set_part; exact Q].
Qed.

Lemma bettor_wins_bw odds fs : forall b bettor b' effs, bettor_wins b bettor fs = Some (b', effs) -> bw odds b -> queues_ok b -> bw odds b' /\ queues_ok b'.
Proof.
  induction fs as [|f r IH]; intros b bettor b' effs H W Q; cbn [bettor_wins] in H; [inv H; split; assumption|].
  destruct (get_part b (f_idx f)) as [p|] eqn:Eg; [|discriminate].
  destruct (bettor_wins _ bettor r) as [[b2 e2]|] eqn:EB; [|discriminate]. inv H.
  pose proof (gp_idx _ _ _ Eg) as Hi. rewrite <- Hi in Eg.
  destruct (set_profit_keeps odds b p (p_profit p - f_pay f) Eg W Q) as [W1 Q1]. eapply IH; eassumption.
Qed.
Lemma bettor_loses_bw odds fs : forall b b', bettor_loses b fs = Some b' -> bw odds b -> queues_ok b -> bw odds b' /\ queues_ok b'.
Proof.
  induction fs as [|f r IH]; intros b b' H W Q; cbn [bettor_loses] in H; [inv H; split; assumption|].
  destruct (get_part b (f_idx f)) as [p|] eqn:Eg; [|discriminate].
  pose proof (gp_idx _ _ _ Eg) as Hi. rewrite <- Hi in Eg.
  destruct (set_profit_keeps odds b p (p_profit p + f_stake f) Eg W Q) as [W1 Q1]. eapply IH; eassumption.
Qed.

(* ---- a withdrawal ------------------------------------------------------------------------------------------------------------------------ *)
Lemma gq_remove b idx o : get_queue (set_queues b (map (fun q : Z * list Z => (fst q, remove_first idx (snd q))) (bk_queues b))) o
                          = option_map (remove_first idx) (get_queue b o).
Proof.
  unfold get_queue, set_queues, findb. cbn [bk_queues book_upd].
  induction (bk_queues b) as [|[k l] r IH]; cbn [map find fst snd]; [reflexivity|]. destruct (k =? o); [reflexivity|exact IH].
Qed.
Lemma remove_first_sub idx l x : In x (remove_first idx l) -> In x l.
Proof. induction l as [|h t IH]; cbn; [trivial|]. destruct (h =? idx); [intros H; right; exact H|intros [H|H]; [left; exact H|right; apply IH; exact H]]. Qed.
Lemma remove_first_nodup idx l : NoDup l -> NoDup (remove_first idx l).
Proof.
  induction l as [|h t IH]; cbn; intros H; [constructor|]. inversion H as [|? ? Hni Hnd]; subst. destruct (h =? idx); [exact Hnd|].
  constructor; [intros Hin; apply Hni; eapply remove_first_sub; exact Hin|apply IH; exact Hnd].
Qed.

Theorem withdraw_participation_bw odds b idx amt b' effs :
  withdraw_participation b idx amt = Some (b', effs) -> bw odds b -> queues_ok b -> bw odds b' /\ queues_ok b'.
Proof.
  unfold withdraw_participation. intros H W Q.
  destruct (get_part b idx) as [p|] eqn:Eg; [|discriminate].
  pose proof (gp_idx _ _ _ Eg) as Hi.
  set (p' := part_upd p (p_liq p - amt) (p_crl p - amt) (p_enf p) (p_tba p) (p_crtb p) (p_maxloss p) (p_crml p) (p_crml_odds p) (p_profit p)) in *.
  assert (W1 : bw odds (set_part b p')) by (eapply bw_set_part_same; [change (p_idx p') with (p_idx p); rewrite Hi; exact Eg|reflexivity|reflexivity|exact W]).
  assert (Q1 : queues_ok (set_part b p')) by (apply queues_ok_set_part; exact Q).
  destruct (0 <? p_crl p'); [injection H as <- _; split; assumption|].
  destruct (remove_from_queues (bk_queues (set_part b p')) idx) as [qs|] eqn:ER; [|discriminate]. injection H as <- _.
  unfold remove_from_queues in ER. destruct (existsb _ _); [discriminate|]. injection ER as <-.
  set (b1 := set_part b p') in *. split.
  - destruct W1 as [X1 X2 X3 X4 X5 X6 X7 X8 X9 X10]. constructor; try assumption.
    + cbn [bk_queues set_queues book_upd]. rewrite map_map. cbn [fst]. exact X9.
    + intros q Hq. apply (pw_ext odds b1); [reflexivity|reflexivity|apply X10; exact Hq].
  - intros o ql Hq.
    change (get_queue (set_queues b1 (map (fun q : Z * list Z => (fst q, remove_first idx (snd q))) (bk_queues b1))) o = Some ql) in Hq.
    rewrite gq_remove in Hq. destruct (get_queue b1 o) as [l|] eqn:El; [|discriminate]. cbn in Hq. injection Hq as <-.
    destruct (Q1 o l El) as [Hnd Hel]. split; [apply remove_first_nodup; exact Hnd|].
    intros i Hin. destruct (Hel i (remove_first_sub _ _ _ Hin)) as (q & e & X). exists q, e. exact X.
Qed.

(* ---- every local transition ----------------------------------------------------------------------------------------------------------------- *)
Lemma zmem_in x l : zmem x l = true -> In x l.
Proof. unfold zmem. intros H. apply existsb_exists in H. destruct H as (y & Hy & E). apply Z.eqb_eq in E. subst y. exact Hy. Qed.

Lemma bw_set_status odds b st : bw odds b -> bw odds (set_status b st).
Proof.
  intros [W1 W2 W3 W4 W5 W6 W7 W8 W9 W10]. constructor; try assumption.
  intros q Hq. apply (pw_ext odds b); [reflexivity|reflexivity|apply W10; exact Hq].
Qed.

Theorem mwf_step P x x' : pr_bet_fee P <= pr_bet_min P -> mwf x -> mtrans P x x' -> mwf x'.
Proof.
  intros HP (Hnd & Hsm & W & Q) T. unfold mwf.
  destruct T; cbn [ms_mkt ms_book with_market with_book mstate_upd market_with k_odds].
  - (split; [assumption|split; [assumption|split; assumption]]).
  - (split; [assumption|split; [assumption|split; assumption]]).
  - destruct (init_participation_bw _ _ _ _ _ _ _ _ _ H3 Hnd W Q). (split; [assumption|split; [assumption|split; assumption]]).
  - destruct (withdraw_participation_bw _ _ _ _ _ _ H3 W Q). (split; [assumption|split; [assumption|split; assumption]]).
  - assert (Hpr : 0 <= profit) by (eapply payout_profit_nonneg; [eassumption|lia]).
    match goal with E : process_wager _ ?A _ _ _ _ = Some _ |- _ =>
      destruct (process_wager_bw (k_odds (ms_mkt x)) Hnd Hsm A eq_refl (bw_oddscnt _ _ W) (zmem_in _ _ H0) _ _ _ _ _ _ _ _ E W Q ltac:(lia) Hpr) end.
    (split; [assumption|split; [assumption|split; assumption]]).
  - (* settlement of one bet *)
    unfold settle_bet in H1. cbv zeta in H1.
    destruct (findb _ (ms_bets x)) as [b|]; [|discriminate].
    destruct (b_status b =? BS_SETTLED); [discriminate|].
    destruct ((k_status (ms_mkt x) =? MK_ABORTED) || (k_status (ms_mkt x) =? MK_CANCELED)).
    + destruct (payout_profit _ _); [|discriminate]. inv H1. cbn. (split; [assumption|split; [assumption|split; assumption]]).
    + destruct (negb (k_status (ms_mkt x) =? MK_DECLARED)); [discriminate|].
      destruct (zmem (b_odds b) (k_winners (ms_mkt x))).
      * destruct (bettor_wins _ _ _) as [[bk effs0]|] eqn:EB; [|discriminate]. inv H1. cbn.
        destruct (bettor_wins_bw _ _ _ _ _ _ EB W Q). (split; [assumption|split; [assumption|split; assumption]]).
      * destruct (bettor_loses _ _) as [bk|] eqn:EB; [|discriminate]. inv H1. cbn.
        destruct (bettor_loses_bw _ _ _ _ EB W Q). (split; [assumption|split; [assumption|split; assumption]]).
  - split; [assumption|split; [assumption|split; [apply bw_set_status; exact W|exact Q]]].
  - pose proof (batch_parts_ssig _ _ _ _ _ _ _ _ _ H0) as Hs.
    split; [exact Hnd|]. split; [exact Hsm|]. split; [apply (bw_with_parts _ _ _ _ Hs W)|apply (queues_ok_with_parts _ _ _ Hs Q)].
Qed.

(* C10 (structure) over every history: in every reachable state, for every market, the number of participations equals the book's
   counter, their indexes are distinct and within 1..counter, the two exposure indexes hold the same entries, every exposure
   and every archived exposure belongs to an existing participation and to an outcome of the market, and every fulfilment queue is
   a duplicate-free list of participations whose exposure on that outcome is not yet fulfilled *)
Theorem book_wf_over_histories P bk supply vault MP t0 sw sd ops :
  pr_bet_fee P <= pr_bet_min P ->
  bget bk POOL = 0 -> bget bk HOUSEFEE = 0 -> bget bk BETFEE = 0 -> Forall valid_op ops ->
  forall m x, get_ms (run (init bk supply P vault MP t0 sw sd) ops) m = Some x -> mwf x.
Proof.
  intros HP. apply (local_invariant P mwf).
  - exact mwf_fresh.
  - intros x x' Hx T. exact (mwf_step P x x' HP Hx T).
Qed.

(* the same, spelled out *)
Theorem book_structure_over_histories P bk supply vault MP t0 sw sd ops :
  pr_bet_fee P <= pr_bet_min P ->
  bget bk POOL = 0 -> bget bk HOUSEFEE = 0 -> bget bk BETFEE = 0 -> Forall valid_op ops ->
  forall m x, get_ms (run (init bk supply P vault MP t0 sw sd) ops) m = Some x ->
  let b := ms_book x in
  bk_partcnt b = zlen (bk_parts b) /\ NoDup (map p_idx (bk_parts b)) /\ (forall p, In p (bk_parts b) -> 1 <= p_idx p <= bk_partcnt b) /\
  bk_expo_ix b = bk_expo b /\ NoDup (map ekey (bk_expo b)) /\
  (forall e, In e (bk_expo b) -> In (e_odds e) (k_odds (ms_mkt x)) /\ exists p, get_part b (e_part e) = Some p) /\
  (forall h, In h (bk_hist b) -> exists p, get_part b (e_part h) = Some p) /\
  (forall o q, get_queue b o = Some q ->
     NoDup q /\ forall i, In i q -> exists p e, get_part b i = Some p /\ ge b o i = Some e /\ e_ful e = false).
Proof.
  intros HP B1 B2 B3 Hv m x Hg.
  destruct (book_wf_over_histories P bk supply vault MP t0 sw sd ops HP B1 B2 B3 Hv m x Hg) as (_ & _ & W & Q).
  destruct W as [W1 W2 W3 W4 W5 W6 W7 W8 W9 W10]. cbv zeta.
  split; [exact W3|]. split; [exact W1|]. split; [exact W2|]. split; [exact W5|]. split; [exact W6|]. split; [exact W7|]. split; [exact W8|].
  intros o q Hq. exact (Q o q Hq).
Qed.

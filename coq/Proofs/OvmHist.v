(* Proofs/OvmHist.v — C14 over every history: the key vault always holds 4 to 5 distinct valid keys; every proposal carries 4 to 5
   distinct valid keys with its leader index in range; on every proposal each key has voted at most once and every vote is yes or
   no; when EndBlock changes the vault the new leader is the proposed one. *)
From Coq Require Import ZArith Bool List Lia.
From Sge Require Import Lib.Dec Model.Types Model.Orderbook Model.Mint Model.Chain Proofs.Tactics Proofs.Custody Proofs.OvmInv.
Import ListNotations.
Open Scope Z_scope.

Definition key_list_ok (ks : list Z) : Prop := 4 <= zlen ks <= 5 /\ NoDup ks /\ Forall (fun k => 0 <= k) ks.
Record prop_ok (p : proposal) : Prop := {
  po_keys : key_list_ok (pp_keys p);
  po_leader : 0 <= pp_leader p < zlen (pp_keys p);
  po_votes : NoDup (map fst (pp_votes p));
  po_vals : Forall (fun v => snd v = VOTE_YES \/ snd v = VOTE_NO) (pp_votes p) }.
Definition ovminv (s : chain) : Prop := key_list_ok (c_vault s) /\ Forall prop_ok (c_props s).

(* ---- SetLeader is a permutation with the chosen key first ---------------------------------------------------------------------------- *)
Lemma split_nth (l : list Z) : forall n, (n < length l)%nat -> l = firstn n l ++ nth n l (-1) :: skipn (S n) l.
Proof.
  induction l as [|x r IH]; intros n Hn; [cbn in Hn; lia|]. destruct n as [|n]; [reflexivity|].
  cbn [firstn nth skipn app]. f_equal. apply IH. cbn in Hn. lia.
Qed.

Lemma nodup_mid (a : list Z) x b : NoDup (a ++ x :: b) <-> NoDup (x :: a ++ b).
Proof.
  split; intros H.
  - constructor; [apply NoDup_remove_2 in H; exact H|apply NoDup_remove_1 in H; exact H].
  - inversion H as [|? ? Hni Hnd]; subst. clear H. induction a as [|y r IH]; cbn [app] in *; [constructor; assumption|].
    inversion Hnd as [|? ? Hny Hnd']; subst. constructor.
    + intros Hin. apply in_app_or in Hin. destruct Hin as [Hin|[->|Hin]].
      * apply Hny. apply in_or_app. left. exact Hin.
      * apply Hni. left. reflexivity.
      * apply Hny. apply in_or_app. right. exact Hin.
    + apply IH; [intros Hin; apply Hni; right; exact Hin|exact Hnd'].
Qed.

Lemma set_leader_ok ks i : key_list_ok ks -> 0 <= i < zlen ks ->
  key_list_ok (set_leader ks i) /\ hd (-2) (set_leader ks i) = nth (Z.to_nat i) ks (-1).
Proof.
  intros (Hlen & Hnd & Hall) Hi. unfold set_leader. set (n := Z.to_nat i).
  assert (Hn : (n < length ks)%nat) by (unfold n, zlen in *; lia).
  pose proof (split_nth ks n Hn) as E.
  split; [|reflexivity]. split; [|split].
  - unfold zlen in *. cbn [length]. rewrite app_length. rewrite E in Hlen at 1 2. rewrite app_length in Hlen. cbn [length] in Hlen. lia.
  - apply nodup_mid. rewrite <- E. exact Hnd.
  - rewrite E in Hall. apply Forall_app in Hall. destruct Hall as [H1 H2]. inversion H2; subst. constructor; [assumption|]. apply Forall_app. split; assumption.
Qed.

(* ---- RemoveDuplicateStrs --------------------------------------------------------------------------------------------------------------------- *)
Lemma dedup_spec l : forall seen, NoDup (dedup_keep_first l seen) /\ (forall x, In x (dedup_keep_first l seen) -> In x l /\ ~ In x seen).
Proof.
  induction l as [|x r IH]; intros seen; cbn [dedup_keep_first]; [split; [constructor|intros ? []]|].
  destruct (zmem x seen) eqn:E.
  - destruct (IH seen) as [I1 I2]. split; [exact I1|]. intros y Hy. destruct (I2 y Hy). split; [right; assumption|assumption].
  - destruct (IH (x :: seen)) as [I1 I2]. split.
    + constructor; [|exact I1]. intros Hin. destruct (I2 x Hin) as [_ Hn]. apply Hn. left. reflexivity.
    + intros y [<-|Hy].
      * split; [left; reflexivity|]. intros Hin. assert (zmem x seen = true); [|congruence]. unfold zmem. apply existsb_exists. exists x. split; [exact Hin|apply Z.eqb_refl].
      * destruct (I2 y Hy) as [J1 J2]. split; [right; exact J1|]. intros Hin. apply J2. right. exact Hin.
Qed.

(* ---- the three operations that touch the ovm state ------------------------------------------------------------------------------------------- *)
Lemma ovm_propose_inv s sg tk ks li s' : ovm_propose s sg tk ks li = Some s' -> ovminv s -> ovminv s'.
Proof.
  unfold ovm_propose. intros H [V Ps]. dmatch H. inv H. split; [exact V|]. cbn [c_props chain_set_ovm].
  apply Forall_app. split; [exact Ps|]. constructor; [|constructor].
  match goal with E : (_ <? 4) || (5 <? _) = false |- _ => apply orb_false_iff in E; destruct E as [L1 L2]; apply Z.ltb_ge in L1; apply Z.ltb_ge in L2 end.
  match goal with E : negb (forallb _ _) = false |- _ => apply negb_false_iff in E; rename E into Hpos end.
  match goal with E : (li <? 0) || _ = false |- _ => apply orb_false_iff in E; destruct E as [M1 M2]; apply Z.ltb_ge in M1; apply Z.leb_gt in M2 end.
  constructor; cbn [pp_keys pp_leader pp_votes].
  - split; [lia|]. split; [apply (dedup_spec ks [])|]. apply Forall_forall. intros k Hk. rewrite forallb_forall in Hpos. apply Z.leb_le. apply Hpos. exact Hk.
  - lia.
  - constructor.
  - constructor.
Qed.

Lemma forall_upd {A} (Pr : A -> Prop) (f : A -> bool) v l : Forall Pr l -> Pr v -> Forall Pr (upd f v l).
Proof. intros Hl Hv. apply Forall_forall. intros x Hx. apply in_upd in Hx. destruct Hx as [->|Hx]; [exact Hv|]. rewrite Forall_forall in Hl. apply Hl. exact Hx. Qed.

Lemma ovm_vote_inv s tk vi pid v s' : ovm_vote s tk vi pid v = Some s' -> ovminv s -> ovminv s'.
Proof.
  unfold ovm_vote. intros H [V Ps]. dmatch H. inv H. split; [exact V|]. cbn [c_props chain_set_ovm].
  match goal with E : findb _ (c_props s) = Some ?p |- _ => rename p into p0; unfold findb in E; apply find_some in E; destruct E as [Hin _] end.
  rewrite Forall_forall in Ps. pose proof (Ps p0 Hin) as [K1 K2 K3 K4].
  apply forall_upd; [apply Forall_forall; exact Ps|].
  constructor; cbn [pp_keys pp_leader pp_votes]; try assumption.
  - rewrite map_app. cbn [map fst]. apply NoDup_snoc; [exact K3|].
    intros Hi. match goal with E : existsb _ (pp_votes p0) = false |- _ => rename E into Ex end.
    apply in_map_iff in Hi. destruct Hi as (x & Hx1 & Hx2).
    assert (existsb (fun v0 => fst v0 =? nth (Z.to_nat vi) (c_vault s) (-1)) (pp_votes p0) = true); [|congruence].
    apply existsb_exists. exists x. split; [exact Hx2|apply Z.eqb_eq; exact Hx1].
  - apply Forall_app. split; [exact K4|]. constructor; [|constructor]. cbn [snd].
    match goal with E : negb ((v =? VOTE_YES) || (v =? VOTE_NO)) = false |- _ => apply negb_false_iff, orb_true_iff in E; destruct E as [E|E]; apply Z.eqb_eq in E; [left|right]; exact E end.
Qed.

Lemma finish_prop_ok p r now : prop_ok p -> prop_ok (finish_prop p r now).
Proof. intros [K1 K2 K3 K4]. constructor; assumption. Qed.

Lemma ovm_finish_inv ps : forall now n v ps' v', ovm_finish ps now n v = (ps', v') ->
  Forall prop_ok ps -> key_list_ok v -> Forall prop_ok ps' /\ key_list_ok v'.
Proof.
  induction ps as [|p r IH]; intros now n v ps' v' H Hps Hv; cbn [ovm_finish] in H; [inv H; split; assumption|].
  inversion Hps as [|? ? Hp Hr]; subst.
  destruct (negb (pp_status p =? PS_ACTIVE)).
  { destruct (ovm_finish r now n v) as [r' v2] eqn:E. inv H. destruct (IH _ _ _ _ _ E Hr Hv). split; [constructor|]; assumption. }
  destruct (1800 <? now - pp_start p).
  { destruct (ovm_finish r now n v) as [r' v2] eqn:E. inv H. destruct (IH _ _ _ _ _ E Hr Hv). split; [constructor; [apply finish_prop_ok|]|]; assumption. }
  destruct (decide p n =? PR_REJECTED).
  { destruct (ovm_finish r now n v) as [r' v2] eqn:E. inv H. destruct (IH _ _ _ _ _ E Hr Hv). split; [constructor; [apply finish_prop_ok|]|]; assumption. }
  destruct (decide p n =? PR_APPROVED).
  { destruct (ovm_finish r now n (set_leader (pp_keys p) (pp_leader p))) as [r' v2] eqn:E. inv H.
    destruct (IH _ _ _ _ _ E Hr (proj1 (set_leader_ok _ _ (po_keys _ Hp) (po_leader _ Hp)))). split; [constructor; [apply finish_prop_ok|]|]; assumption. }
  destruct (ovm_finish r now n v) as [r' v2] eqn:E. inv H. destruct (IH _ _ _ _ _ E Hr Hv). split; [constructor|]; assumption.
Qed.

(* ---- every operation ------------------------------------------------------------------------------------------------------------------------------ *)
Definition ovm_same (s s' : chain) : Prop := c_vault s' = c_vault s /\ c_props s' = c_props s.
Ltac same_refl := intros H; dmatch H; inv H; split; reflexivity.
Lemma house_deposit_core_same s c d m a g s' : house_deposit_core s c d m a g = Some s' -> ovm_same s s'.
Proof. unfold house_deposit_core. same_refl. Qed.
Lemma withdraw_core_same s sg d m p mo a ob s' amt : withdraw_core s sg d m p mo a ob = Some (s', amt) -> ovm_same s s'.
Proof. unfold withdraw_core. same_refl. Qed.
Lemma wager_core_same s sg u a sm so ov mu al s' : wager_core s sg u a sm so ov mu al = Some s' -> ovm_same s s'.
Proof. unfold wager_core. same_refl. Qed.

Lemma ovminv_same s s' : ovm_same s s' -> ovminv s -> ovminv s'.
Proof. intros [E1 E2] [V Ps]. split; [rewrite E1; exact V|rewrite E2; exact Ps]. Qed.

Theorem step_ovminv s o : ovminv s -> ovminv (fst (step s o)).
Proof.
  intros I. unfold step. destruct (c_halted s); [exact I|].
  destruct o; unfold tx.
  - unfold begin_block_op. destruct (begin_block _ _ _ _); exact I.
  - unfold end_block.
    destruct (bet_endblock _ s _) as [s1|] eqn:E1; [|exact I].
    destruct (ob_endblock _ s1 _ _) as [s2|] eqn:E2; [|exact I].
    destruct (bet_endblock_ovm _ _ _ _ E1) as (A1 & A2 & _). destruct (ob_endblock_ovm _ _ _ _ _ E2) as (B1 & B2 & _).
    cbn [fst]. unfold ovm_endblock. destruct (ovm_finish (c_props s2) (c_now s2) (zlen (c_vault s2)) (c_vault s2)) as [ps v] eqn:EF.
    destruct I as [V Ps]. destruct (ovm_finish_inv _ _ _ _ _ _ EF) as [X1 X2]; [rewrite B2, A2; exact Ps|rewrite B1, A1; exact V|].
    split; assumption.
  - destruct (market_add _ _ _ _ _ _ _ _) eqn:E; [|exact I]. unfold market_add in E. dmatch E; inv E; exact I.
  - destruct (market_update _ _ _ _ _ _) eqn:E; [|exact I]. unfold market_update in E. dmatch E; inv E; exact I.
  - destruct (market_resolve _ _ _ _ _ _) eqn:E; [|exact I]. unfold market_resolve in E. dmatch E; inv E; exact I.
  - destruct (house_deposit _ _ _ _ _ _ _) eqn:E; [|exact I]. unfold house_deposit in E. dmatch E.
    cbn [fst]. eapply ovminv_same; [eapply house_deposit_core_same; exact E|exact I].
  - destruct (house_withdraw _ _ _ _ _ _ _ _ _) eqn:E; [|exact I]. unfold house_withdraw in E. dmatch E. inv E.
    cbn [fst]. match goal with X : withdraw_core _ _ _ _ _ _ _ _ = Some _ |- _ => eapply ovminv_same; [eapply withdraw_core_same; exact X|exact I] end.
  - destruct (bet_wager _ _ _ _ _ _ _ _ _ _ _ _) eqn:E; [|exact I]. unfold bet_wager in E. dmatch E.
    cbn [fst]. eapply ovminv_same; [eapply wager_core_same; exact E|exact I].
  - destruct (do_grant _ _ _ _ _ _) eqn:E; [|exact I]. unfold do_grant in E. dmatch E; inv E; exact I.
  - destruct (do_revoke _ _ _ _) eqn:E; [|exact I]. unfold do_revoke in E. dmatch E; inv E; exact I.
  - destruct (do_send _ _ _ _) eqn:E; [|exact I]. unfold do_send in E. dmatch E; inv E; exact I.
  - destruct (ovm_propose _ _ _ _ _) eqn:E; [|exact I]. cbn [fst]. eapply ovm_propose_inv; eassumption.
  - destruct (ovm_vote _ _ _ _ _) eqn:E; [|exact I]. cbn [fst]. eapply ovm_vote_inv; eassumption.
  - destruct (sub_create _ _ _ _) eqn:E; [|exact I]. unfold sub_create in E. dmatch E; inv E; exact I.
  - destruct (sub_topup _ _ _ _) eqn:E; [|exact I]. unfold sub_topup in E. dmatch E; inv E; exact I.
  - destruct (sub_withdraw_unlocked _ _) eqn:E; [|exact I]. unfold sub_withdraw_unlocked in E. dmatch E; inv E; exact I.
  - destruct (sub_wager _ _ _ _ _ _ _ _ _ _ _ _ _ _ _ _) eqn:E; [|exact I]. unfold sub_wager in E. dmatch E.
    cbn [fst]. eapply ovminv_same; [eapply wager_core_same; exact E|exact I].
  - destruct (sub_house_deposit _ _ _ _ _ _ _) eqn:E; [|exact I]. unfold sub_house_deposit in E. dmatch E; inv E.
    cbn [fst]. match goal with X : house_deposit_core _ _ _ _ _ _ = Some _ |- _ => destruct (house_deposit_core_same _ _ _ _ _ _ _ X) as [Y1 Y2] end.
    destruct I as [V Ps]. split; cbn; [rewrite Y1; exact V|rewrite Y2; exact Ps].
  - destruct (sub_house_withdraw _ _ _ _ _ _ _ _ _) eqn:E; [|exact I]. unfold sub_house_withdraw in E. dmatch E; inv E.
    cbn [fst]. match goal with X : withdraw_core _ _ _ _ _ _ _ _ = Some _ |- _ => destruct (withdraw_core_same _ _ _ _ _ _ _ _ _ _ X) as [Y1 Y2] end.
    destruct I as [V Ps]. split; cbn; [rewrite Y1; exact V|rewrite Y2; exact Ps].
Qed.

Theorem run_ovminv ops : forall s, ovminv s -> ovminv (run s ops).
Proof. induction ops as [|o r IH]; intros s I; cbn [run fold_left]; [exact I|]. apply IH. apply step_ovminv. exact I. Qed.

(* from a genesis vault of 4 to 5 distinct valid keys, over every history *)
Theorem vault_over_histories bk supply P vault MP t0 sw sd ops :
  key_list_ok vault ->
  let s := run (init bk supply P vault MP t0 sw sd) ops in
  4 <= zlen (c_vault s) <= 5 /\ NoDup (c_vault s) /\ Forall (fun k => 0 <= k) (c_vault s) /\ 0 <= leader s /\
  (forall p, In p (c_props s) -> key_list_ok (pp_keys p) /\ 0 <= pp_leader p < zlen (pp_keys p) /\ NoDup (map fst (pp_votes p)) /\
                                 Forall (fun v => snd v = VOTE_YES \/ snd v = VOTE_NO) (pp_votes p)).
Proof.
  intros Hv s. assert (I : ovminv s) by (apply run_ovminv; split; [exact Hv|constructor]).
  destruct I as [(L & N & F) Ps]. split; [exact L|]. split; [exact N|]. split; [exact F|]. split.
  - unfold leader. destruct (c_vault s) as [|k r] eqn:E; [unfold zlen in L; cbn in L; lia|]. cbn. inversion F; assumption.
  - intros p Hp. rewrite Forall_forall in Ps. destruct (Ps p Hp) as [K1 K2 K3 K4]. split; [exact K1|split; [exact K2|split; assumption]].
Qed.

(* when EndBlock changes the vault, the new leader is the key the approved proposal named *)
Theorem vault_change_leader s : ovminv s -> c_halted s = false -> c_vault (fst (step s OEnd)) <> c_vault s ->
  exists p, In p (c_props s) /\ c_vault (fst (step s OEnd)) = set_leader (pp_keys p) (pp_leader p) /\
            leader (fst (step s OEnd)) = nth (Z.to_nat (pp_leader p)) (pp_keys p) (-1).
Proof.
  intros [V Ps] Hh Hne. destruct (vault_change_at_end s Hh Hne) as (p & Hin & _ & _ & _ & E). exists p. split; [exact Hin|]. split; [exact E|].
  unfold leader. rewrite E. rewrite Forall_forall in Ps. destruct (Ps p Hin) as [K1 K2 _ _].
  apply (proj2 (set_leader_ok _ _ K1 K2)).
Qed.

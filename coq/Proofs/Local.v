(* Proofs/Local.v — the chain as a product of market-local transition systems.
   Every operation of Model/Chain.v changes the record of a market only through one of eight LOCAL transitions
   (update, resolve, deposit, withdraw, wager, settle one bet, mark the book resolved, pay a batch of participations), each
   of which is the model's own function applied to that market's state.  step_local / history_local prove it for every
   operation and every history; local_invariant then lifts any predicate on a market's state that is established by
   market creation and preserved by the eight transitions to every market of every reachable state.
   Per-market invariants (C10 totals, C02 coverage, C09 records, C05 progress measures) are proved against mtrans only. *)
From Coq Require Import ZArith Bool List Lia.
From Sge Require Import Lib.Dec Model.Types Model.Orderbook Model.Mint Model.Chain
     Proofs.Tactics Proofs.Supply Proofs.WagerLoop Proofs.CustodyLocal Proofs.Custody Proofs.Params.
Import ListNotations.
Open Scope Z_scope.

(* ---- a freshly added market ------------------------------------------------------------------------------------ *)
Definition fresh_ms (mk : market) : mstate :=
  {| ms_mkt := mk; ms_book := new_book (k_odds mk); ms_bets := []; ms_pending := []; ms_deps := []; ms_wds := [] |}.

Record market_new (mk : market) : Prop := {
  mn_two : 2 <= zlen (k_odds mk);
  mn_distinct : zdistinct (k_odds mk) = true;
  mn_nonneg : forallb (fun o => 0 <=? o) (k_odds mk) = true;
  mn_status : status_ai (k_status mk) = true;
  mn_winners : k_winners mk = [];
  mn_creator : 0 <= k_creator mk;
  mn_small : zlen (k_odds mk) < U64 }.

(* ---- the local transitions -------------------------------------------------------------------------------------- *)
Definition with_market (x : mstate) (mk : market) : mstate :=
  mstate_upd x mk (ms_book x) (ms_bets x) (ms_pending x) (ms_deps x) (ms_wds x).
Definition with_book (x : mstate) (bk : book) : mstate :=
  mstate_upd x (ms_mkt x) bk (ms_bets x) (ms_pending x) (ms_deps x) (ms_wds x).

Inductive mtrans (P : params) : mstate -> mstate -> Prop :=
| MT_update x st en status :
    status_ai (k_status (ms_mkt x)) = true -> status_ai status = true ->
    mtrans P x (with_market x (market_with (ms_mkt x) st en status (k_winners (ms_mkt x)) (k_rts (ms_mkt x))))
| MT_resolve x rts winners status :
    status_ai (k_status (ms_mkt x)) = true -> status_resolved status = true ->
    (status = MK_DECLARED -> zlen winners = 1 /\ forallb (fun w => zmem w (k_odds (ms_mkt x))) winners = true) ->
    mtrans P x (with_market x (market_with (ms_mkt x) (k_start (ms_mkt x)) (k_end (ms_mkt x)) status
                                          (if status =? MK_DECLARED then winners else k_winners (ms_mkt x)) rts))
| MT_deposit x creator depositor amount bk idx effs dmkt :
    k_status (ms_mkt x) = MK_ACTIVE -> 0 < amount -> pr_h_mindep P <= amount ->
    0 <= dec_round_int (dec_mulint (pr_h_fee P) amount) <= amount ->        (* both payments of the deposit succeeded *)
    init_participation (ms_book x) (pr_ob_maxpart P) depositor amount (dec_round_int (dec_mulint (pr_h_fee P) amount)) = Some (bk, idx, effs) ->
    mtrans P x (mstate_upd x (ms_mkt x) bk (ms_bets x) (ms_pending x)
                  (ms_deps x ++ [{| d_creator := creator; d_depositor := depositor; d_mkt := dmkt; d_pidx := idx;
                                    d_amount := amount; d_wcount := 0; d_wtotal := 0 |}]) (ms_wds x))
| MT_withdraw x signer depositor pidx mode amount d amt bk effs dmkt :
    findb (dep_is depositor pidx) (ms_deps x) = Some d -> d_wcount d < pr_h_maxw P ->
    calc_withdrawal (ms_book x) depositor pidx mode (d_wtotal d) amount = Some amt -> 0 <= amt ->
    withdraw_participation (ms_book x) pidx amt = Some (bk, effs) ->
    mtrans P x (mstate_upd x (ms_mkt x) bk (ms_bets x) (ms_pending x)
                  (upd (dep_is depositor pidx)
                       {| d_creator := d_creator d; d_depositor := d_depositor d; d_mkt := d_mkt d; d_pidx := d_pidx d;
                          d_amount := d_amount d; d_wcount := d_wcount d + 1; d_wtotal := d_wtotal d + amt |} (ms_deps x))
                  (ms_wds x ++ [{| w_id := d_wcount d + 1; w_creator := signer; w_depositor := depositor; w_mkt := dmkt;
                                   w_pidx := pidx; w_mode := mode; w_amount := amt |}]))
| MT_wager x signer betuid amount selmkt selodds oddsval mult allodds betid now profit bk parts effs :
    k_status (ms_mkt x) = MK_ACTIVE -> zmem selodds (k_odds (ms_mkt x)) = true ->
    zlen (k_odds (ms_mkt x)) = zlen (znodup (map fst allodds)) ->
    forallb (fun o => zmem o (map fst allodds)) (k_odds (ms_mkt x)) = true ->
    pr_bet_min P <= amount -> mult_ok mult = true ->
    forallb (fun a => (0 <=? fst a) && mult_ok (snd a)) allodds = true ->
    payout_profit oddsval (amount - pr_bet_fee P) = Some profit ->
    process_wager (ms_book x)
      {| wa_sel := selodds; wa_oddsval := oddsval; wa_mult := mult; wa_allodds := allodds; wa_uids := k_odds (ms_mkt x);
         wa_betid := betid; wa_thr := pr_ob_thr P; wa_oddscnt := bk_oddscnt (ms_book x) |}
      (amount - pr_bet_fee P) profit signer (pr_bet_fee P) = Some (bk, parts, effs) ->
    mtrans P x (mstate_upd x (ms_mkt x) bk
                  (ms_bets x ++ [{| b_id := betid; b_uid := betuid; b_creator := signer; b_mkt := selmkt; b_odds := selodds;
                                    b_oddsval := oddsval; b_amount := zsum (map f_stake parts); b_fee := pr_bet_fee P;
                                    b_status := BS_PLACED; b_result := BR_PENDING; b_mult := mult; b_created := now;
                                    b_sheight := 0; b_parts := parts |}])
                  (ms_pending x ++ [betid]) (ms_deps x) (ms_wds x))
| MT_settle_bet x h id x' effs :
    status_res (k_status (ms_mkt x)) -> bk_status (ms_book x) = BK_ACTIVE ->
    settle_bet x h id = Some (x', effs) -> mtrans P x x'
| MT_book_resolved x :
    status_res (k_status (ms_mkt x)) -> ms_pending x = [] -> bk_status (ms_book x) = BK_ACTIVE ->
    mtrans P x (with_book x (set_status (ms_book x) BK_RESOLVED))
| MT_settle_parts x limit alls cnt ps effs :
    bk_status (ms_book x) = BK_RESOLVED ->
    batch_parts (bk_parts (ms_book x)) (k_status (ms_mkt x)) (k_creator (ms_mkt x)) limit 0 = Some (alls, cnt, ps, effs) ->
    mtrans P x (with_book x (book_upd (ms_book x) (if alls then BK_SETTLED else bk_status (ms_book x)) (bk_partcnt (ms_book x))
                                      (bk_queues (ms_book x)) ps (bk_expo (ms_book x)) (bk_expo_ix (ms_book x))
                                      (bk_hist (ms_book x)) (bk_pairs (ms_book x)))).

Inductive mreach (P : params) : mstate -> mstate -> Prop :=
| mr_refl x : mreach P x x
| mr_step x y z : mreach P x y -> mtrans P y z -> mreach P x z.

Lemma mr_one P x y : mtrans P x y -> mreach P x y.
Proof. intros H. eapply mr_step; [apply mr_refl|exact H]. Qed.
Lemma mr_trans P x y z : mreach P x y -> mreach P y z -> mreach P x z.
Proof. intros H1 H2. induction H2 as [|y z w _ IH T]; [exact H1|eapply mr_step; [apply IH; exact H1|exact T]]. Qed.

(* ---- the chain-level relation ------------------------------------------------------------------------------------ *)
Definition lrel (P : params) (s s' : chain) : Prop :=
  (forall m x', get_ms s' m = Some x' ->
     (exists x, get_ms s m = Some x /\ mreach P x x') \/
     (get_ms s m = None /\ exists mk, market_new mk /\ mreach P (fresh_ms mk) x')) /\
  (forall m x, get_ms s m = Some x -> exists x', get_ms s' m = Some x').

Lemma lrel_refl P s : lrel P s s.
Proof. split; [intros m x H; left; exists x; split; [exact H|apply mr_refl]|intros m x H; exists x; exact H]. Qed.

Lemma lrel_trans P a b c : lrel P a b -> lrel P b c -> lrel P a c.
Proof.
  intros [A1 A2] [B1 B2]. split.
  - intros m z Hz. destruct (B1 m z Hz) as [(y & Hy & Ryz)|(Hn & mk & Hmk & R)].
    + destruct (A1 m y Hy) as [(x & Hx & Rxy)|(Hn & mk & Hmk & R)].
      * left. exists x. split; [exact Hx|eapply mr_trans; eassumption].
      * right. split; [exact Hn|]. exists mk. split; [exact Hmk|eapply mr_trans; eassumption].
    + right. split.
      * destruct (get_ms a m) as [x|] eqn:E; [|reflexivity]. destruct (A2 m x E) as (y & Hy). congruence.
      * exists mk. split; assumption.
  - intros m x Hx. destruct (A2 m x Hx) as (y & Hy). exact (B2 m y Hy).
Qed.

Lemma lrel_same P s s' : c_ms s' = c_ms s -> lrel P s s'.
Proof.
  intros E. split; intros m x H.
  - left. exists x. split; [rewrite <- (get_ms_ext s s' m E); exact H|apply mr_refl].
  - exists x. rewrite (get_ms_ext s s' m E). exact H.
Qed.

Lemma lrel_upd P s s' m0 x0 x0' :
  get_ms s m0 = Some x0 -> mreach P x0 x0' -> c_ms s' = set_ms_list (c_ms s) m0 x0' -> lrel P s s'.
Proof.
  intros Hg Hm E. split; intros m x H; unfold get_ms, findb in *; rewrite E in *.
  - destruct (Z.eq_dec m m0) as [->|Hne].
    + rewrite get_set_same in H. inv H. left. exists x0. split; [exact Hg|exact Hm].
    + rewrite (get_set_other _ _ _ _ Hne) in H. left. exists x. split; [exact H|apply mr_refl].
  - destruct (Z.eq_dec m m0) as [->|Hne].
    + rewrite get_set_same. eexists. reflexivity.
    + rewrite (get_set_other _ _ _ _ Hne). exists x. exact H.
Qed.

Lemma find_app_none {A} (f : A -> bool) l1 l2 : find f l1 = None -> find f (l1 ++ l2) = find f l2.
Proof. induction l1 as [|y r IH]; cbn; [trivial|]. destruct (f y); [discriminate|exact IH]. Qed.

Lemma lrel_add P s s' u mk :
  get_ms s u = None -> market_new mk -> c_ms s' = c_ms s ++ [(u, fresh_ms mk)] -> lrel P s s'.
Proof.
  intros Hn Hmk E. split; intros m x H; unfold get_ms, findb in *; rewrite E in *.
  - destruct (find (fun e => fst e =? m) (c_ms s)) as [e0|] eqn:EF.
    + rewrite (find_app_l _ _ _ _ EF) in H. left. exists x. split; [exact H|apply mr_refl].
    + rewrite (find_app_none _ _ _ EF) in H. cbn [find fst] in H.
      destruct (u =? m) eqn:Eu; [|discriminate]. cbn [snd] in H. inv H.
      right. split; [reflexivity|]. exists mk. split; [exact Hmk|apply mr_refl].
  - destruct (find (fun e => fst e =? m) (c_ms s)) as [e0|] eqn:EF; [|discriminate].
    rewrite (find_app_l _ _ _ _ EF). exists x. exact H.
Qed.

(* ---- transactions ---------------------------------------------------------------------------------------------------- *)
Ltac lr_same := apply lrel_same; reflexivity.

Lemma market_add_lrel s sg tk u st en od sts s' : 0 <= sg /\ zlen od < U64 -> market_add s sg tk u st en od sts = Some s' -> lrel (c_prm s) s s'.
Proof.
  intros [Hsg Hsm] H. unfold market_add in H. dmatchS H. inv H.
  eapply (lrel_add _ _ _ u {| k_uid := u; k_creator := sg; k_start := st; k_end := en; k_odds := od; k_status := sts; k_winners := []; k_rts := 0 |});
    [eassumption| |reflexivity].
  repeat match goal with E : negb _ = false |- _ => apply negb_false_true in E end.
  constructor; cbn; try assumption; try reflexivity.
  match goal with E : (zlen od <? 2) = false |- _ => apply Z.ltb_ge in E; exact E end.
Qed.

Lemma market_update_lrel s tk u st en sts s' : market_update s tk u st en sts = Some s' -> lrel (c_prm s) s s'.
Proof.
  intros H. unfold market_update in H. dmatchS H. inv H.
  repeat match goal with E : negb _ = false |- _ => apply negb_false_true in E end.
  eapply lrel_upd; [eassumption| |reflexivity].
  apply mr_one. apply MT_update; assumption.
Qed.

Lemma market_resolve_lrel s tk u r w sts s' : market_resolve s tk u r w sts = Some s' -> lrel (c_prm s) s s'.
Proof.
  intros H. unfold market_resolve in H. dmatchS H. inv H.
  repeat match goal with E : negb _ = false |- _ => apply negb_false_true in E end.
  eapply lrel_upd; [eassumption| |reflexivity].
  apply mr_one. apply MT_resolve; try assumption.
  intros ->. cbn [Z.eqb andb negb] in *.
  repeat match goal with E : (MK_DECLARED =? MK_DECLARED) && _ = false |- _ => rewrite Z.eqb_refl in E; cbn [andb] in E end.
  split.
  - match goal with A : (1 <? zlen w) = false, B : (zlen w <? 1) = false |- _ => apply Z.ltb_ge in A; apply Z.ltb_ge in B; lia end.
  - match goal with E : (_ <? _) || negb _ = false |- _ => apply orb_false_iff in E; destruct E as [_ E]; apply negb_false_true in E; exact E end.
Qed.

Lemma deposit_validate_amount s sg tk m a k d az dp gr :
  deposit_validate s sg tk m a k d az = Some (dp, gr) -> 0 < a /\ pr_h_mindep (c_prm s) <= a.
Proof.
  unfold deposit_validate. intros H.
  destruct ((m <? 0) || (a <=? 0)) eqn:E1; [discriminate|]. apply orb_false_iff in E1. destruct E1 as [_ E1]. apply Z.leb_gt in E1.
  destruct (a <? pr_h_mindep (c_prm s)) eqn:E2; [discriminate|]. apply Z.ltb_ge in E2. split; assumption.
Qed.

Lemma apply_pay_nonneg b subs f t a r b' subs' : apply_effects b subs (Pay f t a :: r) = Some (b', subs') ->
  0 <= a /\ exists b1, pay b f t a = Some b1 /\ apply_effects b1 subs r = Some (b', subs').
Proof.
  cbn [apply_effects]. destruct (pay b f t a) as [b1|] eqn:E; [|discriminate]. intros H.
  split; [|exists b1; split; [reflexivity|exact H]].
  unfold pay in E. destruct (a <? 0) eqn:Ea; [discriminate|]. apply Z.ltb_ge in Ea. exact Ea.
Qed.

Lemma house_deposit_core_lrel s c d m a g s' :
  0 < a -> pr_h_mindep (c_prm s) <= a -> house_deposit_core s c d m a g = Some s' -> lrel (c_prm s) s s'.
Proof.
  intros Ha Hmin H. unfold house_deposit_core in H.
  destruct (get_ms s m) as [x|] eqn:Hg; [|discriminate].
  destruct (negb (k_status (ms_mkt x) =? MK_ACTIVE)) eqn:EA; [discriminate|]. apply negb_false_true, Z.eqb_eq in EA.
  destruct (init_participation _ _ _ _ _) as [[[bk idx] effs]|] eqn:EI; [|discriminate].
  destruct (apply_effects _ _ _) as [[bank' subs']|] eqn:EAP; [|discriminate]. inv H.
  eapply lrel_upd; [exact Hg| |reflexivity].
  apply mr_one. eapply MT_deposit; try eassumption.
  (* the two payments: liquidity to the pool, fee to the house fee collector *)
  unfold init_participation in EI. dmatchS EI. inv EI.
  destruct (apply_pay_nonneg _ _ _ _ _ _ _ _ EAP) as [H1 (b1 & _ & EA2)].
  destruct (apply_pay_nonneg _ _ _ _ _ _ _ _ EA2) as [H2 _]. lia.
Qed.

Lemma withdraw_core_lrel s sg d m pidx mo a ob s' amt : withdraw_core s sg d m pidx mo a ob = Some (s', amt) -> lrel (c_prm s) s s'.
Proof.
  intros H. unfold withdraw_core in H.
  destruct (get_ms s m) as [x|] eqn:Hg; [|discriminate].
  destruct (findb (dep_is d pidx) (ms_deps x)) as [dd|] eqn:ED; [|discriminate].
  destruct (pr_h_maxw (c_prm s) <=? d_wcount dd) eqn:EC; [discriminate|]. apply Z.leb_gt in EC.
  destruct (calc_withdrawal _ _ _ _ _ _) as [amt0|] eqn:EW; [|discriminate].
  destruct (if ob then _ else _) as [grants|]; [|discriminate].
  destruct (withdraw_participation _ _ _) as [[bk effs]|] eqn:EP; [|discriminate].
  destruct (apply_effects _ _ _) as [[bank' subs']|] eqn:EA; [|discriminate]. inv H.
  eapply lrel_upd; [exact Hg| |reflexivity].
  apply mr_one. eapply MT_withdraw; try eassumption.
  unfold withdraw_participation in EP. dmatchS EP; inv EP; destruct (apply_pay_nonneg _ _ _ _ _ _ _ _ EA) as [H1 _]; exact H1.
Qed.

Lemma wager_prepare_mult s c tk u a sm so mu al ky ot :
  wager_prepare s c tk u a sm so mu al ky ot = true ->
  mult_ok mu = true /\ forallb (fun x => (0 <=? fst x) && mult_ok (snd x)) al = true.
Proof.
  unfold wager_prepare. intros H. repeat (apply andb_true_iff in H; destruct H as [H ?]). split; assumption.
Qed.

Lemma wager_core_lrel s sg u a sm so ov mu al s' :
  mult_ok mu = true -> forallb (fun x => (0 <=? fst x) && mult_ok (snd x)) al = true ->
  wager_core s sg u a sm so ov mu al = Some s' -> lrel (c_prm s) s s'.
Proof.
  intros Hmu Hal H. unfold wager_core in H.
  destruct (get_ms s sm) as [x|] eqn:Hg; [|discriminate].
  dmatchS H. inv H.
  repeat match goal with E : negb _ = false |- _ => apply negb_false_true in E end.
  eapply lrel_upd; [exact Hg| |reflexivity].
  apply mr_one. eapply MT_wager; try eassumption.
  - match goal with E : (k_status _ =? MK_ACTIVE) = true |- _ => apply Z.eqb_eq in E; exact E end.
  - match goal with E : (zlen _ =? zlen _) = true |- _ => apply Z.eqb_eq in E; exact E end.
  - match goal with E : (a <? _) = false |- _ => apply Z.ltb_ge in E; exact E end.
Qed.

(* ---- settlement in EndBlock --------------------------------------------------------------------------------------------- *)
Lemma settle_bets_reach P ids : forall x bk subs h sidx cnt x' bk' subs' sidx' cnt',
  settle_bets ids x bk subs h sidx cnt = Some (x', bk', subs', sidx', cnt') ->
  minv x -> status_res (k_status (ms_mkt x)) -> bk_status (ms_book x) = BK_ACTIVE -> mreach P x x'.
Proof.
  induction ids as [|id r IH]; intros x bk subs h sidx cnt x' bk' subs' sidx' cnt' H Hx Hres Hact; cbn [settle_bets] in H.
  - inv H. apply mr_refl.
  - destruct (settle_bet x h id) as [[x1 effs]|] eqn:ES; [|discriminate].
    destruct (apply_effects bk subs effs) as [[bk1 subs1]|] eqn:EA; [|discriminate].
    destruct (settle_bet_delta _ _ _ _ _ Hx Hact ES) as (Hx1 & Hact1 & Hm1 & _).
    eapply mr_trans; [apply mr_one; eapply MT_settle_bet; eassumption|].
    eapply IH; [exact H|exact Hx1|rewrite Hm1; exact Hres|exact Hact1].
Qed.

Lemma bet_endblock_lrel fuel : forall s n s', bet_endblock fuel s n = Some s' -> inv s -> lrel (c_prm s) s s'.
Proof.
  induction fuel as [|f IH]; intros s n s' H Hinv; cbn [bet_endblock] in H.
  - destruct (n <=? 0); [inv H; apply lrel_refl|discriminate].
  - destruct (n <=? 0); [inv H; apply lrel_refl|].
    destruct (c_mqueue s) as [|m q] eqn:EQ; [inv H; apply lrel_refl|].
    destruct (get_ms s m) as [x|] eqn:Hg; [|discriminate].
    destruct (settle_bets _ x (c_bank s) (c_subs s) (c_height s) (c_settledix s) 0) as [[[[[x1 bk1] subs1] sidx1] cnt]|] eqn:ES; [|discriminate].
    assert (Hmin : In m (c_mqueue s)) by (rewrite EQ; left; reflexivity).
    destruct (i_mq s Hinv _ Hmin) as (x0 & Hg0 & Hres & Hact). rewrite Hg in Hg0. inv Hg0.
    pose proof (i_minv s Hinv _ (get_ms_in _ _ _ Hg)) as Hx. cbn [snd] in Hx.
    pose proof (settle_bets_reach (c_prm s) _ _ _ _ _ _ _ _ _ _ _ _ ES Hx Hres Hact) as Hm1.
    destruct (settle_bets_delta _ _ _ _ _ _ _ _ _ _ _ _ ES Hx Hact (i_subs s Hinv)) as (_ & Hact1 & Hmk1 & _).
    destruct (bet_iter_inv _ _ _ _ _ _ _ _ _ _ [] Hinv EQ Hg ES) as [I1 I2].
    destruct (ms_pending x1) eqn:EP.
    + destruct (negb (bk_status (ms_book x1) =? BK_ACTIVE)) eqn:EA; [discriminate|].
      eapply lrel_trans; [|apply (IH _ _ _ H I2)].
      eapply lrel_upd; [exact Hg| |reflexivity].
      eapply mr_step; [exact Hm1|].
      pose proof (MT_book_resolved (c_prm s) x1) as T. unfold with_book in T. rewrite EP in T.
      apply T; [rewrite Hmk1; exact Hres|reflexivity|exact Hact1].
    + eapply lrel_trans; [|apply (IH _ _ _ H I1)].
      eapply lrel_upd; [exact Hg|exact Hm1|reflexivity].
Qed.

Lemma ob_endblock_lrel fuel : forall s n i s', ob_endblock fuel s n i = Some s' -> inv s -> lrel (c_prm s) s s'.
Proof.
  induction fuel as [|f IH]; intros s n i s' H Hinv; cbn [ob_endblock] in H.
  - destruct (n <=? 0); [inv H; apply lrel_refl|discriminate].
  - destruct (n <=? 0); [inv H; apply lrel_refl|].
    destruct (nth_error (c_bqueue s) i) as [m|]; [|inv H; apply lrel_refl].
    destruct (get_ms s m) as [x|] eqn:Hg; [|discriminate].
    destruct (negb (bk_status (ms_book x) =? BK_RESOLVED)) eqn:ER; [discriminate|]. apply negb_false_true, Z.eqb_eq in ER.
    destruct (batch_parts _ _ _ _ _) as [[[[alls cnt] ps] effs]|] eqn:EB; [|discriminate].
    destruct (apply_effects (c_bank s) (c_subs s) effs) as [[bk1 subs1]|] eqn:EA; [|discriminate].
    eapply lrel_trans; [|eapply (IH _ _ _ _ H); eapply ob_iter_inv; eassumption].
    eapply lrel_upd; [exact Hg| |reflexivity].
    apply mr_one. eapply MT_settle_parts; eassumption.
Qed.

Lemma bet_endblock_prm fuel : forall s n s', bet_endblock fuel s n = Some s' -> c_prm s' = c_prm s.
Proof.
  induction fuel as [|f IH]; intros s n s' H; cbn [bet_endblock] in H.
  - destruct (n <=? 0); [inv H; reflexivity|discriminate].
  - destruct (n <=? 0); [inv H; reflexivity|].
    destruct (c_mqueue s) as [|m q]; [inv H; reflexivity|].
    destruct (get_ms s m) as [x|]; [|discriminate].
    destruct (settle_bets _ _ _ _ _ _ _) as [[[[[x1 bk1] subs1] sidx1] cnt]|]; [|discriminate].
    destruct (ms_pending x1).
    + destruct (negb _); [discriminate|]. rewrite (IH _ _ _ H). reflexivity.
    + rewrite (IH _ _ _ H). reflexivity.
Qed.

Lemma end_block_lrel s : inv s -> lrel (c_prm s) s (fst (end_block s)).
Proof.
  intros Hinv. unfold end_block.
  destruct (bet_endblock _ s _) as [s1|] eqn:E1; [|cbn [fst]; lr_same].
  pose proof (bet_endblock_inv _ _ _ _ E1 Hinv) as H1.
  destruct (ob_endblock _ s1 _ _) as [s2|] eqn:E2; [|cbn [fst]; lr_same].
  cbn [fst]. eapply lrel_trans; [eapply bet_endblock_lrel; eassumption|].
  rewrite <- (bet_endblock_prm _ _ _ _ E1).
  eapply lrel_trans; [eapply ob_endblock_lrel; eassumption|].
  unfold ovm_endblock. destruct (ovm_finish _ _ _ _) as [ps v]. lr_same.
Qed.

Lemma tx_lrel P s r : (forall s', r = Some s' -> lrel P s s') -> lrel P s (fst (tx s r)).
Proof. intros H. unfold tx. destruct r as [s'|]; cbn [fst]; [apply H; reflexivity|apply lrel_refl]. Qed.

(* ---- every operation ---------------------------------------------------------------------------------------------------- *)
Theorem step_lrel s o : inv s -> valid_op o -> lrel (c_prm s) s (fst (step s o)).
Proof.
  intros Hinv Hv. unfold step. destruct (c_halted s); [apply lrel_refl|].
  destruct o; cbn [valid_op] in Hv; try (apply tx_lrel; intros s' H).
  - unfold begin_block_op. destruct (begin_block _ _ _ _); cbn [fst]; lr_same.
  - apply end_block_lrel. exact Hinv.
  - eapply market_add_lrel; eassumption.
  - eapply market_update_lrel; eassumption.
  - eapply market_resolve_lrel; eassumption.
  - unfold house_deposit in H. destruct (deposit_validate _ _ _ _ _ _ _ _) as [[dp gr]|] eqn:EV; [|discriminate].
    destruct (deposit_validate_amount _ _ _ _ _ _ _ _ _ _ EV). eapply house_deposit_core_lrel; eassumption.
  - unfold house_withdraw in H. destruct (withdraw_validate _ _ _ _ _ _ _ _ _) as [[dp ob]|]; [|discriminate].
    destruct (withdraw_core _ _ _ _ _ _ _ _) as [[s1 amt0]|] eqn:EW; [|discriminate]. inv H.
    eapply withdraw_core_lrel; eassumption.
  - unfold bet_wager in H. destruct (wager_prepare _ _ _ _ _ _ _ _ _ _ _) eqn:EP; [|discriminate].
    destruct (wager_prepare_mult _ _ _ _ _ _ _ _ _ _ _ EP). eapply wager_core_lrel; eassumption.
  - unfold do_grant in H. dmatchS H. inv H. lr_same.
  - unfold do_revoke in H. dmatchS H. inv H. lr_same.
  - unfold do_send in H. dmatchS H. inv H. lr_same.
  - unfold ovm_propose in H. dmatchS H. inv H. lr_same.
  - unfold ovm_vote in H. dmatchS H. inv H. lr_same.
  - unfold sub_create in H. dmatchS H. inv H. lr_same.
  - unfold sub_topup in H. dmatchS H. inv H. lr_same.
  - unfold sub_withdraw_unlocked in H. dmatchS H. inv H. lr_same.
  - unfold sub_wager in H. dmatchS H.
    match goal with E : negb (wager_prepare _ _ _ _ _ _ _ _ _ _ _) = false |- _ => apply negb_false_true in E; destruct (wager_prepare_mult _ _ _ _ _ _ _ _ _ _ _ E) end.
    match type of H with wager_core ?st _ _ _ _ _ _ _ _ = _ =>
      eapply lrel_trans; [apply (lrel_same _ s st); reflexivity|];
      change (c_prm s) with (c_prm st); eapply wager_core_lrel; eassumption end.
  - unfold sub_house_deposit in H. dmatchS H. inv H.
    match goal with E : deposit_validate _ _ _ _ _ _ _ _ = Some _ |- _ => destruct (deposit_validate_amount _ _ _ _ _ _ _ _ _ _ E) end.
    match goal with E : house_deposit_core _ _ _ _ _ _ = Some ?s1 |- _ => pose proof (house_deposit_core_lrel _ _ _ _ _ _ _ ltac:(eassumption) ltac:(eassumption) E) as H1 end.
    eapply lrel_trans; [exact H1|lr_same].
  - unfold sub_house_withdraw in H. dmatchS H. inv H.
    match goal with E : withdraw_core _ _ _ _ _ _ _ _ = Some _ |- _ => pose proof (withdraw_core_lrel _ _ _ _ _ _ _ _ _ _ E) as H1 end.
    eapply lrel_trans; [exact H1|lr_same].
Qed.

(* ---- every history --------------------------------------------------------------------------------------------------------- *)
Theorem run_lrel ops : forall s, inv s -> Forall valid_op ops -> lrel (c_prm s) s (run s ops).
Proof.
  induction ops as [|o r IH]; intros s Hinv Hv; [apply lrel_refl|].
  change (run s (o :: r)) with (run (fst (step s o)) r).
  inversion Hv as [|o' r' Ho Hr]; subst.
  eapply lrel_trans; [apply (step_lrel s o Hinv Ho)|].
  destruct (step_cfg s o) as [Ep _]. rewrite <- Ep.
  apply IH; [apply step_inv; assumption|assumption].
Qed.

(* every market record of every reachable state is reached from a freshly added market by local transitions *)
Theorem history_local bk supply P vault MP t0 sw sd ops :
  bget bk POOL = 0 -> bget bk HOUSEFEE = 0 -> bget bk BETFEE = 0 -> Forall valid_op ops ->
  forall m x, get_ms (run (init bk supply P vault MP t0 sw sd) ops) m = Some x ->
  exists mk, market_new mk /\ mreach P (fresh_ms mk) x.
Proof.
  intros H1 H2 H3 Hv m x Hg.
  pose proof (run_lrel ops _ (init_inv bk supply P vault MP t0 sw sd H1 H2 H3) Hv) as [L _].
  destruct (L m x Hg) as [(x0 & Hx0 & _)|(_ & mk & Hmk & R)]; [discriminate Hx0|].
  exists mk. split; [exact Hmk|exact R].
Qed.

(* the lifting principle: a predicate on one market's state that holds for every freshly added market and is preserved
   by the eight local transitions holds for every market of every reachable state of every history *)
Theorem local_invariant (P : params) (I : mstate -> Prop) :
  (forall mk, market_new mk -> I (fresh_ms mk)) ->
  (forall x x', I x -> mtrans P x x' -> I x') ->
  forall bk supply vault MP t0 sw sd ops,
  bget bk POOL = 0 -> bget bk HOUSEFEE = 0 -> bget bk BETFEE = 0 -> Forall valid_op ops ->
  forall m x, get_ms (run (init bk supply P vault MP t0 sw sd) ops) m = Some x -> I x.
Proof.
  intros H0 Hstep bk supply vault MP t0 sw sd ops H1 H2 H3 Hv m x Hg.
  destruct (history_local _ _ _ _ _ _ _ _ _ H1 H2 H3 Hv m x Hg) as (mk & Hmk & R).
  assert (K : forall a b, mreach P a b -> I a -> I b).
  { intros a b Rab. induction Rab as [|a b c _ IH T]; [trivial|]. intros Ha. eapply Hstep; [apply IH; exact Ha|exact T]. }
  apply (K _ _ R). apply H0. exact Hmk.
Qed.

(* Proofs/MintLive.v — accepted mint parameters never abort BeginBlock (C17, C05, C13). *)
From Coq Require Import ZArith Bool List Lia.
From Sge Require Import Lib.Dec Model.Mint Proofs.DecFacts Proofs.MintSum Proofs.Tactics.
Import ListNotations.
Open Scope Z_scope.

Definition minter_ok (m : minter) : Prop := 0 <= m_prov m /\ 0 <= m_trunc m < PREC.

Lemma dec_mul_nonneg a b : 0 <= a -> 0 <= b -> 0 <= dec_mul a b.
Proof. intros Ha Hb. unfold dec_mul. apply chop_round_ge0. nia. Qed.

Lemma next_phase_provisions_nonneg infl supply ex ph :
  0 <= infl -> 0 <= ph_coef ph -> 0 <= next_phase_provisions infl supply ex ph.
Proof.
  intros Hi Hc. unfold next_phase_provisions, dec_mulint, zmax0.
  apply dec_mul_nonneg; [|exact Hc]. nia.
Qed.

(* find_phase returns an in-range step together with the phase stored at that step *)
Lemma find_phase_some P phs : forall i cum h ph step,
  find_phase P phs i cum h = Some (ph, step) ->
  i + 1 <= step <= i + Z.of_nat (length phs) /\ nth_error phs (Z.to_nat (step - i - 1)) = Some ph.
Proof.
  induction phs as [|p r IH]; intros i cum h ph step H; cbn [find_phase] in H; [discriminate|].
  destruct (dec_of_int h <=? cum + phase_blocks_dec P p).
  - inv H. cbn [length]. split; [lia|]. replace (i + 1 - i - 1) with 0 by lia. reflexivity.
  - destruct (IH _ _ _ _ _ H) as [Hr Hn]. cbn [length]. split; [lia|].
    replace (step - i - 1) with (Z.succ (step - (i + 1) - 1)) by lia.
    rewrite Z2Nat.inj_succ by lia. cbn [nth_error]. exact Hn.
Qed.

Lemma nth_error_default {A} (l : list A) n d x : nth_error l n = Some x -> nth_default d l n = x.
Proof. unfold nth_default. intros H. rewrite H. reflexivity. Qed.

Theorem begin_block_live P m supply h :
  mparams_valid P = true -> minter_ok m -> 1 <= h ->
  exists m' minted, begin_block P m supply h = BBok m' minted /\ minter_ok m' /\ 0 <= minted.
Proof.
  intros Hv [Hp Ht] Hh. unfold mparams_valid in Hv.
  rewrite !andb_true_iff in Hv. destruct Hv as ((((Hb & _) & Hlen) & Hph) & Hblk).
  apply Z.ltb_lt in Hb. rewrite forallb_forall in Hph, Hblk.
  assert (Hphase : forall ph, In ph (phases P) -> 0 < ph_coef ph /\ 0 <= ph_infl ph /\ 0 < phase_blocks_dec P ph).
  { intros ph Hin. specialize (Hph ph Hin). specialize (Hblk ph Hin). unfold phase_valid in Hph.
    rewrite !andb_true_iff in Hph. destruct Hph as ((Hc & Hi) & _).
    apply Z.ltb_lt in Hc. apply negb_true_iff, Z.ltb_ge in Hi. apply Z.ltb_lt in Hblk. auto. }
  (* the phase found for this height: either a stored phase at an in-range step, or the end phase *)
  assert (Hcur : (exists ph step, current_phase P h = (ph, step) /\ In ph (phases P) /\
                     1 <= step <= Z.of_nat (length (phases P)) /\ nth_default end_phase (phases P) (Z.to_nat (step - 1)) = ph)
                 \/ current_phase P h = (end_phase, END_STEP)).
  { unfold current_phase. destruct (h =? 1) eqn:E1.
    - left. destruct (phases P) as [|p0 r] eqn:EP; [discriminate|].
      exists p0, 1. unfold phase_at_step. cbn. rewrite EP. cbn. repeat split; try lia. left. reflexivity.
    - destruct (find_phase P (phases P) 0 0 h) as [[ph step]|] eqn:EF; [|right; reflexivity].
      left. destruct (find_phase_some _ _ _ _ _ _ _ EF) as [Hr Hn]. exists ph, step.
      replace (step - 0 - 1) with (step - 1) in Hn by lia.
      repeat split; try lia; [eapply nth_error_In; exact Hn|apply nth_error_default; exact Hn]. }
  unfold begin_block.
  destruct Hcur as [(ph & step & Ec & Hin & Hr & Hnth)|Ec]; rewrite Ec.
  - destruct (Hphase ph Hin) as (Hc & Hi & Hbl).
    set (m1 := if negb (step =? m_step m) || negb (m_infl m =? ph_infl ph)
               then {| m_infl := ph_infl ph; m_step := step;
                       m_prov := next_phase_provisions (ph_infl ph) supply (excl P) ph; m_trunc := m_trunc m |}
               else m).
    assert (Hm1 : minter_ok m1).
    { unfold m1. destruct (negb (step =? m_step m) || negb (m_infl m =? ph_infl ph)); [|split; assumption].
      split; cbn; [apply next_phase_provisions_nonneg; lia|exact Ht]. }
    destruct (m_infl m1 =? 0); [exists m1, 0; repeat split; try apply Hm1; lia|].
    destruct Hm1 as [Hp1 Ht1].
    unfold block_provisions.
    replace ((step <? 1) || (Z.of_nat (length (phases P)) <? step)) with false
      by (symmetry; apply orb_false_iff; split; apply Z.ltb_ge; lia).
    rewrite Hnth.
    destruct (phase_blocks_dec P ph =? 0) eqn:E0; [apply Z.eqb_eq in E0; lia|].
    cbv zeta.
    set (q := dec_quo (m_prov m1) (phase_blocks_dec P ph)).
    assert (Hq : 0 <= q) by (apply dec_quo_nonneg; lia).
    unfold dec_trunc_dec, dec_trunc_int. rewrite chop_trunc_of_int'.
    rewrite (chop_trunc_nonneg (q + m_trunc m1)) by lia.
    pose proof (Z.div_mod (q + m_trunc m1) PREC ltac:(discriminate)) as Hdm.
    pose proof (Z.mod_pos_bound (q + m_trunc m1) PREC PREC_pos) as Hmb.
    assert (Hd : 0 <= (q + m_trunc m1) / PREC) by (apply Z.div_pos; [lia|exact PREC_pos]).
    destruct ((q + m_trunc m1) / PREC <? 0) eqn:En; [apply Z.ltb_lt in En; lia|].
    eexists _, _. split; [reflexivity|]. split; [|exact Hd].
    split; cbn; [exact Hp1|lia].
  - cbn [ph_infl end_phase].
    destruct (negb (END_STEP =? m_step m) || negb (m_infl m =? 0)) eqn:E2.
    + cbn [m_infl]. rewrite Z.eqb_refl. eexists _, 0. split; [reflexivity|].
      split; [|lia]. split; [|exact Ht]. cbn [m_prov].
      apply next_phase_provisions_nonneg; [lia|cbn; unfold U64MAX_DEC, PREC; lia].
    + apply orb_false_iff in E2 as [_ E2]. apply negb_false_iff in E2. rewrite E2.
      exists m, 0. repeat split; try assumption; lia.
Qed.

(* Proofs/BookFacts.v — book-local facts: the two exposure indexes agree (C10), max-loss bookkeeping (C02),
   withdrawal bound (C09), participation settlement amounts and fee routing (C04). *)
From Coq Require Import ZArith Bool List Lia.
From Sge Require Import Lib.Dec Model.Types Model.Orderbook Proofs.Tactics.
Import ListNotations.
Open Scope Z_scope.

(* ---- C10: the exposure index by (book, index, odds) always equals the one by (book, odds, index) ---- *)
Definition ix_eq (b : book) : Prop := bk_expo_ix b = bk_expo b.

Lemma ix_new odds : ix_eq (new_book odds). Proof. reflexivity. Qed.
Lemma ix_set_expo b e : ix_eq b -> ix_eq (set_expo b e).
Proof. unfold ix_eq, set_expo. cbn. intros H. rewrite H. reflexivity. Qed.
Lemma ix_move_to_hist b e : ix_eq b -> ix_eq (move_to_hist b e).
Proof. unfold ix_eq, move_to_hist. cbn. intros H. rewrite H. reflexivity. Qed.
Lemma ix_set_part b p : ix_eq b -> ix_eq (set_part b p). Proof. exact (fun H => H). Qed.
Lemma ix_set_queue b o q : ix_eq b -> ix_eq (set_queue b o q). Proof. exact (fun H => H). Qed.
Lemma ix_set_queues b q : ix_eq b -> ix_eq (set_queues b q). Proof. exact (fun H => H). Qed.
Lemma ix_add_pair b i j : ix_eq b -> ix_eq (add_pair b i j). Proof. exact (fun H => H). Qed.
Lemma ix_set_status b st : ix_eq b -> ix_eq (set_status b st). Proof. exact (fun H => H). Qed.
Lemma ix_drop_from_queue b o i : ix_eq b -> ix_eq (drop_from_queue b o i).
Proof. unfold drop_from_queue. destruct (get_queue b o); intros H; exact H. Qed.

Lemma ix_prep_expos pes : forall b el sel cur b' cur',
  prep_expos pes b el sel cur = (b', cur') -> ix_eq b -> ix_eq b'.
Proof.
  induction pes as [|pe r IH]; intros b el sel cur b' cur' H Hix; cbn [prep_expos] in H.
  - inv H. exact Hix.
  - destruct el.
    + eapply IH; [exact H|]. apply ix_set_expo, ix_move_to_hist, Hix.
    + eapply IH; [exact H|]. apply ix_move_to_hist, Hix.
Qed.

Lemma ix_fold_secondary upds : forall b idx,
  ix_eq b -> ix_eq (fold_left (fun b e => drop_from_queue (set_expo b e) (e_odds e) idx) upds b).
Proof.
  induction upds as [|e r IH]; intros b idx H; cbn [fold_left]; [exact H|].
  apply IH. apply ix_drop_from_queue, ix_set_expo, H.
Qed.

Lemma iter_betside_ix A p0 so s ba fu pr pa bk : iter_betside A p0 so s = (ba, fu, pr, pa, bk) -> ix_eq (ws_book s) -> ix_eq bk.
Proof. unfold iter_betside. intros H Hix. destruct so as [[st pay]|]; inv H; [apply ix_add_pair|]; exact Hix. Qed.

Lemma iter_fulfilled_ix A idx it setf p1 pe1 uq bk0 p3 pe3 uq3 bk1 :
  iter_fulfilled A idx it setf p1 pe1 uq bk0 = Some (p3, pe3, uq3, bk1) -> ix_eq bk0 -> ix_eq bk1.
Proof.
  unfold iter_fulfilled. intros H Hix. dmatch H; inv H; try exact Hix. apply ix_fold_secondary. exact Hix.
Qed.

Lemma iter_refresh_ix A idx it p3 bk2 fm uq3 bk5 fm2 uq5 :
  iter_refresh A idx it p3 bk2 fm uq3 = (bk5, fm2, uq5) -> ix_eq bk2 -> ix_eq bk5.
Proof.
  unfold iter_refresh. cbv zeta. intros H Hix.
  destruct (prep_expos _ bk2 _ _ None) as [bk3 pe4] eqn:EP.
  pose proof (ix_prep_expos _ _ _ _ _ _ _ EP Hix) as H3.
  match type of H with context [if ?c then _ else _] => destruct c end; inv H;
    [apply ix_set_queues|]; apply ix_set_part; exact H3.
Qed.

Lemma wager_iter_ix A idx s s' : wager_iter A idx s = Some s' -> ix_eq (ws_book s) -> ix_eq (ws_book s').
Proof.
  unfold wager_iter. intros H Hix.
  destruct (fmap_get (ws_fmap s) idx) as [it|]; [|discriminate].
  destruct (fi_pe it) as [pe0|]; [|discriminate].
  destruct (iter_switch A (fi_part it) pe0 s) as [[[[p1 pe1] setf] so] c1].
  destruct (iter_betside A (fi_part it) so s) as [[[[ba fu] pr] pa] bk0] eqn:EB.
  pose proof (iter_betside_ix _ _ _ _ _ _ _ _ _ EB Hix) as H0.
  destruct (iter_fulfilled A idx it setf p1 pe1 (ws_uq s) bk0) as [[[[p3 pe3] uq3] bk1]|] eqn:EF; [|discriminate].
  pose proof (iter_fulfilled_ix _ _ _ _ _ _ _ _ _ _ _ _ EF H0) as H1.
  assert (H2 : ix_eq (set_part (set_expo bk1 pe3) p3)) by (apply ix_set_part, ix_set_expo, H1).
  destruct ((p_enf p3 =? 0) && eligible_pre p3).
  - destruct (iter_refresh A idx it p3 _ (ws_fmap s) uq3) as [[bk5 fm2] uq5] eqn:ER. inv H. cbn [ws_book].
    eapply iter_refresh_ix; [exact ER|exact H2].
  - inv H. exact H2.
Qed.

Lemma wager_loop_ix fuel : forall A q s s', wager_loop fuel A q s = Some s' -> ix_eq (ws_book s) -> ix_eq (ws_book s').
Proof.
  induction fuel as [|f IH]; intros A q s s' H Hix; destruct q as [|idx rest]; cbn [wager_loop] in H.
  - inv H. exact Hix.
  - discriminate.
  - inv H. exact Hix.
  - destruct (wager_iter A idx s) as [s1|] eqn:E; [|discriminate].
    pose proof (wager_iter_ix _ _ _ _ E Hix) as H1.
    destruct ((ws_profit s1 <? PREC) || _); [inv H; exact H1|].
    eapply IH; eassumption.
Qed.

Theorem process_wager_ix b A betamt profit bettor fee b' parts effs :
  process_wager b A betamt profit bettor fee = Some (b', parts, effs) -> ix_eq b -> ix_eq b'.
Proof.
  unfold process_wager. intros H Hix. dmatch H. inv H.
  apply ix_set_queue.
  match goal with E : wager_loop _ _ _ _ = Some _ |- _ => eapply (wager_loop_ix _ _ _ _ _ E) end. exact Hix.
Qed.

Lemma ix_fold_init qs : forall b idx,
  ix_eq b ->
  ix_eq (fold_left (fun bb q => set_expo (set_queue bb (fst q) (snd q ++ [idx]))
                       {| e_odds := fst q; e_part := idx; e_exp := 0; e_bet := 0; e_ful := false; e_round := 1 |}) qs b).
Proof.
  induction qs as [|q r IH]; intros b idx H; cbn [fold_left]; [exact H|].
  apply IH. apply ix_set_expo, ix_set_queue, H.
Qed.

Theorem init_participation_ix b mx owner amount fee b' idx effs :
  init_participation b mx owner amount fee = Some (b', idx, effs) -> ix_eq b -> ix_eq b'.
Proof.
  unfold init_participation. intros H Hix. dmatch H. inv H.
  unfold ix_eq. cbn [bk_expo_ix bk_expo book_upd].
  apply (ix_fold_init _ _ _ (ix_set_part _ _ Hix)).
Qed.

Theorem withdraw_participation_ix b idx amt b' effs :
  withdraw_participation b idx amt = Some (b', effs) -> ix_eq b -> ix_eq b'.
Proof. unfold withdraw_participation. intros H Hix. dmatch H; inv H; exact Hix. Qed.

(* ---- C02: the recorded current-round max loss covers the loss on the outcome just touched ------------- *)
Theorem fulfil_records_maxloss p e o stake pay p' e' :
  fulfil_records p e o stake pay = (p', e') ->
  e_exp e' = e_exp e + pay /\ e_bet e' = e_bet e + stake /\
  p_tba p' = p_tba p + stake /\ p_crtb p' = p_crtb p + stake /\
  p_liq p' = p_liq p /\ p_crl p' = p_crl p /\ p_profit p' = p_profit p /\ p_fee p' = p_fee p /\
  p_settled p' = p_settled p /\ p_idx p' = p_idx p /\ p_owner p' = p_owner p /\
  e_exp e' + e_bet e' - p_crtb p' <= p_crml p' /\
  (* and never falls below what was recorded before, less the stake just received *)
  (p_crml p - stake <= p_crml p' \/ p_crml_odds p = o).
Proof.
  unfold fulfil_records. cbv zeta. intros H.
  destruct (p_crml_odds p =? o) eqn:E1.
  - apply Z.eqb_eq in E1. inv H. cbn. repeat split; try reflexivity; try lia.
  - match type of H with context [if ?c then _ else _] => destruct c eqn:E2 end;
      inv H; cbn; [apply Z.ltb_lt in E2|apply Z.ltb_ge in E2]; cbn in E2; repeat split; try reflexivity; try lia; try (left; lia).
Qed.

(* ---- C09: a withdrawal never exceeds the liquidity not needed to cover the worst case ----------------- *)
Theorem withdrawable_bound p mode amount w :
  withdrawable_amount p mode amount = Some w -> 0 < w \/ mode = WM_PARTIAL -> w <= p_crl p - zmax0 (p_crml p).
Proof.
  unfold withdrawable_amount, max_withdrawal, zmax0. intros H _.
  destruct (p_crml p <? 0) eqn:E; [apply Z.ltb_lt in E|apply Z.ltb_ge in E];
    dmatch H; inv H;
    repeat match goal with
    | X : (_ <=? _) = false |- _ => apply Z.leb_gt in X
    | X : (_ <? _) = false |- _ => apply Z.ltb_ge in X
    end; lia.
Qed.

(* CalcWithdrawalAmount: only the depositor's own unsettled round-1 participation *)
Theorem calc_withdrawal_spec b depositor idx mode wtotal amount w :
  calc_withdrawal b depositor idx mode wtotal amount = Some w ->
  exists p, get_part b idx = Some p /\ p_settled p = false /\ p_owner p = depositor /\
            w <= p_crl p - zmax0 (p_crml p) /\
            (exists e r, expos_of_part_ix b idx = e :: r /\ e_round e = 1).
Proof.
  unfold calc_withdrawal. intros H.
  destruct (get_part b idx) as [p|] eqn:EP; [|discriminate].
  destruct (p_settled p) eqn:ES; [discriminate|].
  destruct (negb (p_owner p =? depositor)) eqn:EO; [discriminate|].
  apply negb_false_iff, Z.eqb_eq in EO.
  destruct (expos_of_part_ix b idx) as [|e r] eqn:EX; [discriminate|].
  destruct (negb (e_round e =? 1)) eqn:ER; [discriminate|]. apply negb_false_iff, Z.eqb_eq in ER.
  destruct ((mode =? WM_PARTIAL) && (p_liq p - wtotal <? amount)); [discriminate|].
  exists p. repeat split; try assumption.
  - eapply withdrawable_bound; [exact H|]. unfold withdrawable_amount in H. dmatch H; inv H.
    + left. match goal with X : (_ <=? 0) = false |- _ => apply Z.leb_gt in X; exact X end.
    + right. match goal with X : (mode =? WM_PARTIAL) = true |- _ => apply Z.eqb_eq in X; exact X end.
  - exists e, r. split; [reflexivity|exact ER].
Qed.

(* ---- C04: what a participation is paid, and where its fee goes ------------------------------------------ *)
(* paid at most once: a settled participation is refused, a paid one is marked settled *)
Theorem settle_participation_once p st creator :
  p_settled p = true -> settle_participation p st creator = None.
Proof. intros H. unfold settle_participation. rewrite H. reflexivity. Qed.

Theorem settle_participation_marks p st creator p' effs :
  settle_participation p st creator = Some (p', effs) ->
  p_settled p = false /\ p_settled p' = true /\ p_idx p' = p_idx p /\ p_liq p' = p_liq p /\
  p_profit p' = p_profit p /\ p_fee p' = p_fee p /\ p_owner p' = p_owner p.
Proof.
  unfold settle_participation. intros H. destruct (p_settled p) eqn:ES; [discriminate|].
  dmatch H; inv H; cbn; repeat split; reflexivity.
Qed.

(* declared result: liquidity plus realised profit to the depositor; fee back to the depositor iff the
   participation never received any stake, otherwise to the market creator *)
Theorem settle_participation_declared p creator p' effs :
  settle_participation p MK_DECLARED creator = Some (p', effs) ->
  exists hook,
    effs = Pay POOL (p_owner p) (p_liq p + p_profit p) :: hook ::
           (if p_tba p =? 0 then [Pay HOUSEFEE (p_owner p) (p_fee p); HookFeeRefund (p_owner p) (p_fee p)]
            else [Pay HOUSEFEE creator (p_fee p)]) /\
    (forall f t a, hook <> Pay f t a) /\
    p_returned p' = p_liq p + p_profit p + (if p_tba p =? 0 then p_fee p else 0) /\
    p_reimb p' = (if p_tba p =? 0 then p_fee p else 0).
Proof.
  unfold settle_participation. intros H. destruct (p_settled p); [discriminate|].
  cbn [Z.eqb MK_DECLARED Pos.eqb] in H.
  destruct (p_tba p =? 0); inv H; eexists; cbn; repeat split; try reflexivity; try lia;
    intros f t a; destruct (p_profit p <? 0); discriminate.
Qed.

(* cancelled or aborted: exactly the remaining liquidity, and the fee, back to the depositor *)
Theorem settle_participation_refund p st creator p' effs :
  st = MK_CANCELED \/ st = MK_ABORTED ->
  settle_participation p st creator = Some (p', effs) ->
  effs = [Pay POOL (p_owner p) (p_liq p); HookRefund (p_owner p) (p_liq p);
          Pay HOUSEFEE (p_owner p) (p_fee p); HookFeeRefund (p_owner p) (p_fee p)] /\
  p_returned p' = p_liq p + p_fee p /\ p_reimb p' = p_fee p.
Proof.
  unfold settle_participation. intros Hst H. destruct (p_settled p); [discriminate|].
  destruct Hst; subst st; cbn in H; inv H; cbn; repeat split; reflexivity.
Qed.
